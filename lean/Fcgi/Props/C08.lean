import Fcgi.Model.RunLoop
import Fcgi.Props.C03Chunk
/-!
# C08 — the server never waits for client input while it owes a reply (model-level invariants)

The connection task suspends on a *read* in exactly three places: `parse_request`, `poll_input`
(handler reads / `writeable()`), `record_boundary` (inside `close`).  The statements below say
what holds whenever the first of them issues a transport read; the `poll_input` half
(`flush_before_read`) is in `Props/C09.lean`.  On the real code the property is decided by the
closed-loop peer + wake-accurate executor (see DESIGN.md §14.3: two defects found and repaired).
-/
namespace Fcgi.C08
open Fcgi Fcgi.Req Fcgi.Run Fcgi.Async

/-- (repaired defect A) A fresh `parse_request` — at connection start and after every `close` that
reuses the connection — first parses what is already buffered (`parse(0)`), *before* any transport
read: the poll continues in the `writing` sub-state with that parse's output. -/
theorem parse_before_read (fuel : Nat) (c : Conn) (rp rp' : Req.Parser) (y : Yield)
    (hph : c.phase = .parseReq rp .start) (hstop : c.stop = false)
    (hp : rp.parse [] = (rp', some y)) :
    pollConn (fuel + 1) c = pollConn fuel { c with phase := .parseReq rp' (.writing y.output y.done) } := by
  rw [pollConn]
  simp [hph, hstop, hp]

/-- `reuse` always re-enters `parse_request` through that initial parse. -/
theorem reuse_enters_start (fuel : Nat) (c : Conn) (r : AReq) (cs : CloseSt) (st : ExitStatus) (alive : Nat)
    (r' : AReq) (cs' : CloseSt) (m : MutexSt) (t : Transport) (rp : Req.Parser)
    (hph : c.phase = .closing r cs st alive)
    (hc : closePoll r cs st alive c.env.mutex c.env.tr = (r', cs', m, t, .reuse rp)) :
    pollConn (fuel + 1) c =
      pollConn fuel { c with phase := .parseReq rp .start, env := { c.env with mutex := m, tr := t } } := by
  rw [pollConn]
  simp [hph, hc]

/-- Replies produced by a parse are written out completely (`write_all`) before the next read:
from the `writing rest done` sub-state the poll reaches `reading` only through
`writeAllLoop … = (_, _, .ready)`; a `Pending` keeps the unwritten rest, an error ends the task. -/
theorem output_written_before_read (fuel : Nat) (c : Conn) (rp : Req.Parser) (rest : Bytes)
    (hph : c.phase = .parseReq rp (.writing rest false)) (hstop : c.stop = false)
    (rest' : Bytes) (t : Transport)
    (hw : writeAllLoop (rest.length + 1) rest c.env.tr = (rest', t, .ready)) :
    pollConn (fuel + 1) c =
      pollConn fuel { c with phase := .parseReq rp .reading, env := { c.env with tr := t } } := by
  rw [pollConn]
  simp [hph, hstop, hw]

theorem output_pending_keeps_rest (fuel : Nat) (c : Conn) (rp : Req.Parser) (rest : Bytes) (done : Bool)
    (hph : c.phase = .parseReq rp (.writing rest done)) (hstop : c.stop = false)
    (rest' : Bytes) (t : Transport)
    (hw : writeAllLoop (rest.length + 1) rest c.env.tr = (rest', t, .pending)) :
    pollConn (fuel + 1) c =
      ({ c with phase := .parseReq rp (.writing rest' done), env := { c.env with tr := t } }, .pending) := by
  rw [pollConn]
  simp [hph, hstop, hw]

/-- When the request parser has stopped without being done, everything it can process in its buffer
has been processed: parsing the leftover again consumes nothing and emits nothing (up to the
`values 0 0` resting-state normalisation, which emits nothing either).  Hence at a read issued by
`parse_request` no complete record that was already read is unprocessed. -/
theorem leftover_is_processed {st : State} (hw : WFState st) (d : Bytes) (mc : Nat) :
    (run (run st d mc).st (run st d mc).rem mc).out = [] ∧
    (run (run st d mc).st (run st d mc).rem mc).rem = (run st d mc).rem := by
  rcases run_split_nil hw d mc with h | ⟨hr, c, v, hs, h⟩
  · rw [h]; exact ⟨rfl, rfl⟩
  · rw [h]; exact ⟨rfl, hr.symm⟩

end Fcgi.C08
