import Fcgi.Model.VarInt
import Fcgi.Gen.Tables
/-!
# C15 — The variable-length integer codec is a bijection on 0..2³¹−1

All statements quantify over every value / every byte string; no bound.
-/
namespace Fcgi.C15
open Fcgi Fcgi.VarInt

/-- Tie to the source: the constants the model hard-codes are the ones in `varint.rs` now. -/
theorem tables_agree : Gen.varintLongBit = 128 ∧ Gen.varintMax = VarInt.maxVal := by decide

/-- Closed form of the encoding: one byte below 128 … -/
theorem encode_short (v : Nat) (h : v < 128) : encode v = [UInt8.ofNat v] := by
  simp [encode, h]

/-- … four bytes otherwise: high bit set, then the 31-bit value big-endian. -/
theorem encode_long (v : Nat) (h : 128 ≤ v) (hm : v ≤ maxVal) :
    ∃ b0 b1 b2 b3 : UInt8, encode v = [b0, b1, b2, b3] ∧ 128 ≤ b0.toNat ∧
      (b0.toNat - 128) * 16777216 + b1.toNat * 65536 + b2.toNat * 256 + b3.toNat = v := by
  refine ⟨_, _, _, _, by simp [encode, Nat.not_lt.mpr h]; exact ⟨rfl, rfl, rfl, rfl⟩, ?_, ?_⟩
  · simp [maxVal] at hm; simp [UInt8.toNat_ofNat']; omega
  · simp [maxVal] at hm; simp [UInt8.toNat_ofNat']; omega

theorem encode_length (v : Nat) : (encode v).length = if v < 128 then 1 else 4 := by
  unfold encode; split <;> simp

/-- Round trip: decoding an encoding (followed by anything) returns the value and consumes
exactly the encoded bytes. -/
theorem roundtrip (v : Nat) (hm : v ≤ maxVal) (r : Bytes) : decode (encode v ++ r) = some (v, r) := by
  simp [maxVal] at hm
  by_cases h : v < 128
  · have h1 : v % 256 = v := by omega
    simp [encode, h, decode, UInt8.toNat_ofNat', h1]
  · have h1 : (128 + v / 16777216) % 256 = 128 + v / 16777216 := by omega
    have h2 : ¬ (128 + v / 16777216 < 128) := by omega
    simp [encode, h, decode, UInt8.toNat_ofNat', h1, h2]
    omega

/-- The encoder is injective on the representable range. -/
theorem encode_inj (v w : Nat) (hv : v ≤ maxVal) (hw : w ≤ maxVal) (h : encode v = encode w) : v = w := by
  have a := roundtrip v hv []
  have b := roundtrip w hw []
  rw [h] at a
  rw [a] at b
  cases b; rfl

/-- Conversion from `u32` succeeds exactly on `0..=MAX` and keeps the value. -/
theorem tryFromU32_iff (x : Nat) : tryFromU32 x = (if x ≤ maxVal then some x else none) := by
  unfold tryFromU32; by_cases h : x ≤ maxVal <;> simp [h] <;> omega

/-- Conversion from (64-bit) `usize` succeeds exactly on `0..=MAX`. -/
theorem tryFromUsize_iff (x : Nat) : tryFromUsize x = (if x ≤ maxVal then some x else none) := by
  unfold tryFromUsize
  by_cases h : x ≤ maxVal
  · have : x < 4294967296 := by simp [maxVal] at h; omega
    simp [this, tryFromU32_iff, h]
  · by_cases h2 : x < 4294967296 <;> simp [h2, tryFromU32_iff, h]

/-- Decoding fails (with unexpected-EOF, the only error) exactly when the one or four bytes
announced by the first byte are not all present. -/
theorem decode_none_iff (bs : Bytes) :
    decode bs = none ↔ bs = [] ∨ ∃ b0 r, bs = b0 :: r ∧ 128 ≤ b0.toNat ∧ r.length < 3 := by
  match bs with
  | [] => simp [decode]
  | b0 :: r =>
    by_cases h : b0.toNat < 128
    · simp [decode, h]; omega
    · match r with
      | [] => simp [decode, h]; exact ⟨b0, [], ⟨rfl, rfl⟩, by omega, by simp⟩
      | [x] => simp [decode, h]; exact ⟨b0, [x], ⟨rfl, rfl⟩, by omega, by simp⟩
      | [x, y] => simp [decode, h]; exact ⟨b0, [x, y], ⟨rfl, rfl⟩, by omega, by simp⟩
      | _ :: _ :: _ :: _ => simp [decode, h]

/-- A successful decode yields a value in range and consumes exactly 1 or 4 bytes of the input;
the remainder is the untouched suffix. -/
theorem decode_some (bs r : Bytes) (v : Nat) (h : decode bs = some (v, r)) :
    v ≤ maxVal ∧ ((∃ b0, bs = b0 :: r ∧ b0.toNat < 128 ∧ v = b0.toNat) ∨
               (∃ b0 b1 b2 b3, bs = b0 :: b1 :: b2 :: b3 :: r ∧ 128 ≤ b0.toNat ∧
                  v = (b0.toNat - 128) * 16777216 + b1.toNat * 65536 + b2.toNat * 256 + b3.toNat)) := by
  match bs with
  | [] => simp [decode] at h
  | b0 :: t =>
    by_cases hb : b0.toNat < 128
    · simp [decode, hb] at h
      obtain ⟨rfl, rfl⟩ := h
      exact ⟨by simp [maxVal]; omega, Or.inl ⟨b0, rfl, hb, rfl⟩⟩
    · match t with
      | [] => simp [decode, hb] at h
      | [_] => simp [decode, hb] at h
      | [_, _] => simp [decode, hb] at h
      | b1 :: b2 :: b3 :: t' =>
        simp [decode, hb] at h
        obtain ⟨rfl, rfl⟩ := h
        have h0 := b0.toNat_lt; have h1 := b1.toNat_lt; have h2 := b2.toNat_lt; have h3 := b3.toNat_lt
        refine ⟨by simp [maxVal]; omega, Or.inr ⟨b0, b1, b2, b3, rfl, by omega, rfl⟩⟩

/-- Every four-byte string with the high bit set decodes (canonical or not) to its low 31 bits. -/
theorem decode_any_four (b0 b1 b2 b3 : UInt8) (r : Bytes) (h : 128 ≤ b0.toNat) :
    decode (b0 :: b1 :: b2 :: b3 :: r) =
      some ((b0.toNat - 128) * 16777216 + b1.toNat * 65536 + b2.toNat * 256 + b3.toNat, r) := by
  simp [decode, Nat.not_lt.mpr h]

/-- Decoding then re-encoding a *canonical* input is the identity on the consumed bytes:
the codec is a bijection between `0..=MAX` and the canonical encodings. -/
theorem encode_decode (v : Nat) (hm : v ≤ maxVal) (r : Bytes) :
    ∃ v' r', decode (encode v ++ r) = some (v', r') ∧ encode v' ++ r' = encode v ++ r :=
  ⟨v, r, roundtrip v hm r, rfl⟩

-- non-vacuity: concrete instances meeting the hypotheses
example : decode (encode 300 ++ [7]) = some (300, [7]) := roundtrip 300 (by decide) [7]
example : decode [0x80, 0, 0, 5] = some (5, []) := by decide  -- non-canonical 4-byte encoding of 5
example : decode [0x81, 2] = none := by decide

end Fcgi.C15
