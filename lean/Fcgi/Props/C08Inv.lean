import Fcgi.Proofs.C08Inv
import Fcgi.Props.C08
/-!
# C08 — the whole-poll invariant: a task parked on a read owes the client nothing

"Suspended waiting for further input from the client" is, in the model: a poll of the connection
task (`pollConn`) returns `.pending` and the transport holds the task's waker for a read
(`Transport.readWaker = true`, set by `Transport.read` — event `R<cap>:W` — when the input is empty
and the peer holds back / the end mode is `pend`).  Scripted transient `Pending` answers set `woken`
instead and are not suspensions in that sense.

Main results (all for an arbitrary connection state `c` that satisfies the invariant `CInv`, which
holds initially and is preserved by every poll and by everything the executor/peer do between
polls — `CInv_init`, `pollConn_inv`, `CInv_of_phase`, `runTask_inv`, `reachable_inv`):

* `parked_owes_nothing` — after a poll that parked the task on a read (`readWaker` went from
  `false` to `true`), the task owes nothing: `parse_request` is in `reading` (never in `writing`),
  the handler / `writeable()` phase has an empty reply buffer, `close` is in `inWriteable` with an
  empty reply buffer or in `inBoundary` (`record_boundary()` reads without flushing — the documented
  exemption);
* `boundary_park_mid_record` — the exemption applies only while the peer is in the middle of a
  record it has begun to send (`isRecordBoundary = false`);
* `parked_processed` — in the same situation everything read has been processed: re-parsing the
  buffered leftover is a no-op, for the request parser (`RpSettled`) and for the stream parser
  (`Quiescent`, `Quiescent.parse_nil`), in all three phases;
* `parked_drained` — and the transport has no input left that was not read.

Hypotheses of the theorems: `CInv c` (proved for every reachable state, see above) and
`c.env.tr.readWaker = false` before the poll.  The latter is not an invariant but the identification
of "the park happened in this poll": `readWaker` is only ever set by `Transport.read` and only ever
cleared by the peer releasing input (`Env.release`), so a poll that the executor starts after a
release, or after a transient `Pending`, starts with the flag clear.  (A poll started by the stop flag
while the task is parked starts with a stale flag; for such a poll the statement would be about the
earlier poll that parked it.)  `park_only_pending` is the converse direction: under the same
hypotheses the flag is set only by a poll that returns `Pending`.

Sections 1–4 needed no weakening.  Section 4 has concrete connections that park in each of the four
places (`ex0`/`exR`, `exH`, `exW`, `exB`/`exB2`) and one that is `Pending` while it still owes a reply
and is, accordingly, not parked (`exQ`).

Section 5 is the executor level.  `pollConn_oc`/`poll_flags`: the exact flag discipline of one poll
(no hypothesis on the flags, so stale `readWaker`s are covered): flags untouched unless `Pending`; a
`Pending` is transient (`woken`), a parked read (`readWaker`, and then `ConnParked`), or a lock
future that found the mutex taken (neither flag).  Corollaries `poll_done_flags`,
`poll_at_most_one_flag`, `pending_unwoken`.  `runTask_stall`/`runTask_stall_out`: the executor's
"STALL" verdict — for any stop request — means `StallOut`; `stall_means_gate_closed`;
`runTask_stall_owes_nothing_partial` (mutex free ⇒ owes nothing, processed, drained).  Two claims
are false as stated and are kept as `_full` with a refutation (`runTask_stall_owes_nothing_full`,
`pending_unwoken_parked_full`; witness `exL`: a handler that ignored a write error waits for its own
lock).  Examples: `exHS` (stall in the handler, peer holds), `exK` (stall in `parse_request` after a
complete KeepConn request, end mode `pend`).
-/
namespace Fcgi.C08Inv
open Fcgi Fcgi.Req Fcgi.Str Fcgi.Async Fcgi.Run

/-! ## 1. The invariant carried between polls -/

/-- What must hold of the phase a poll starts in.

* `parse_request`: the request parser's state is well formed (`WFState`, from `Proofs/ReqBasics`);
  in `reading`, and in `writing _ false` (which continues into `reading`), the parser is settled:
  re-parsing the leftover is a no-op (`RpSettled`).
* `close` suspended in `record_boundary()`: the stream parser is in the middle of a record and has
  nothing buffered it could still process (`BParked`).
* no condition on the handler phase, on the other `close` states, or on the environment. -/
def PhaseInv : Phase → Prop
  | .parseReq rp .start => WFState rp.state
  | .parseReq rp .reading => WFState rp.state ∧ RpSettled rp
  | .parseReq rp (.writing _ done) => WFState rp.state ∧ (done = false → RpSettled rp)
  | .closing r .inBoundary _ _ => BParked r.sp
  | _ => True

def CInv (c : Conn) : Prop := PhaseInv c.phase

/-- The invariant only concerns the phase: whatever the executor and the peer do to the
environment, the script list and the stop flag between polls preserves it. -/
theorem CInv_of_phase {c c' : Conn} (hp : c'.phase = c.phase) (h : CInv c) : CInv c' := by
  unfold CInv at *; rw [hp]; exact h

/-- The initial state of every connection (`Token::run` starts in `parse_request` with a fresh
parser) satisfies the invariant, whatever the transport, the peer and the handler scripts are. -/
theorem CInv_init (b mc : Nat) (env : Env) (scripts : List (List HOp × Bool)) (stop : Bool) :
    CInv { phase := .parseReq (Req.Parser.new b mc) .start, env, scripts, stop } := trivial

/-! ### Preservation -/

theorem finishEnd_reuse {r : AReq} {rest : Bytes} {m : MutexSt} {t : Transport}
    {r' : AReq} {cs' : CloseSt} {m' : MutexSt} {t' : Transport} {rp : Req.Parser}
    (h : closePoll.finishEnd r rest m t = (r', cs', m', t', .reuse rp)) : rp.state = .header := by
  simp only [closePoll.finishEnd] at h
  repeat' (split at h)
  all_goals first
    | (cases h
       have hq : r.sp.intoRequestParser = some (.ok rp) := ‹_›
       unfold Str.Parser.intoRequestParser at hq
       repeat' (split at hq)
       all_goals first | (cases hq; rfl) | cases hq)
    | cases h

theorem closeP4_reuse {r : AReq} {st : CloseSt} {m : MutexSt} {t : Transport}
    {r' : AReq} {cs' : CloseSt} {m' : MutexSt} {t' : Transport} {rp : Req.Parser}
    (h : closeP4 r m t st = (r', cs', m', t', .reuse rp)) : rp.state = .header := by
  simp only [closeP4] at h
  repeat' (split at h)
  all_goals first
    | cases h
    | exact finishEnd_reuse h

/-- `close` hands back a request parser in its initial state. -/
theorem closePoll_reuse {r : AReq} {st : CloseSt} {status : ExitStatus} {alive : Nat} {m : MutexSt}
    {t : Transport} {r' : AReq} {cs' : CloseSt} {m' : MutexSt} {t' : Transport} {rp : Req.Parser}
    (h : closePoll r st status alive m t = (r', cs', m', t', .reuse rp)) : rp.state = .header := by
  rcases closePoll_cases h with ⟨_, h1⟩ | ⟨_, r1, m1, t1, st1, _, h2⟩ |
      ⟨_, r1, m1, t1, st1, r2, m2, t2, _, _, _, h3⟩ | ⟨_, h4⟩
  · rcases (closeP1_error h1).2.2 with hh | ⟨_, hh, _⟩ | ⟨_, hh, _⟩ <;> cases hh
  · rcases (closeP2_error h2).2.2.2.2 with hh | ⟨_, hh⟩ | ⟨_, hh, _⟩ <;> cases hh
  · unfold closeFrom3 at h3
    rw [closeP3_start] at h3
    by_cases ha : alive > 0
    · simp only [ha, if_true] at h3; cases h3
    · simp only [ha, if_false] at h3; exact closeP4_reuse h3
  · exact closeP4_reuse h4

/-- One phase transition preserves the invariant. -/
theorem stepConn_inv (c : Conn) (hinv : CInv c) : CInv (stepConn c).conn := by
  obtain ⟨phase, env, scripts, stop⟩ := c
  unfold CInv at hinv ⊢
  simp only at hinv
  cases phase with
  | finished => exact hinv
  | handler r h =>
    simp only [stepConn]
    repeat' split
    all_goals trivial
  | closing r cs status alive =>
    simp only [stepConn]
    cases hcp : closePoll r cs status alive env.mutex env.tr with
    | mk r' x =>
      obtain ⟨cs', m', t', res⟩ := x
      have hb : cs = .inBoundary → BParked r.sp := by
        intro hc; subst hc; exact hinv
      cases res with
      | pending =>
        simp only [Step.conn]
        have := (closePoll_park hcp hb).1 rfl
        cases cs' <;> first | trivial | exact this rfl
      | panic s => exact hinv
      | err e => trivial
      | reuse rp =>
        simp only [Step.conn]
        show WFState rp.state
        rw [closePoll_reuse hcp]; trivial
  | parseReq rp sub =>
    cases stop with
    | true => trivial
    | false =>
      cases sub with
      | start =>
        simp only [stepConn, Bool.false_eq_true, if_false]
        cases hp : rp.parse [] with
        | mk rp' oy =>
          cases oy with
          | none => exact hinv
          | some y => exact parse_settles hinv hp
      | reading =>
        simp only [stepConn, Bool.false_eq_true, if_false]
        cases hrd : env.tr.read rp.free with
        | mk t pr =>
          cases pr with
          | pending => exact hinv
          | ready ex =>
            cases ex with
            | error e => trivial
            | ok bs =>
              cases bs with
              | nil => trivial
              | cons b bs =>
                simp only []
                cases hp : rp.parse (b :: bs) with
                | mk rp' oy =>
                  cases oy with
                  | none => exact hinv
                  | some y => exact parse_settles hinv.1 hp
      | writing rest done =>
        simp only [stepConn, Bool.false_eq_true, if_false]
        cases hwl : writeAllLoop (rest.length + 1) rest env.tr with
        | mk rest' x =>
          obtain ⟨t, res⟩ := x
          cases res with
          | pending => exact hinv
          | err e => trivial
          | panic s => exact hinv
          | ready =>
            simp only []
            cases done with
            | false => exact ⟨hinv.1, hinv.2 rfl⟩
            | true =>
              simp only [Bool.not_true, Bool.false_eq_true, if_false]
              cases rp.intoStreamParser <;> trivial

/-- **Preservation**: every poll of the connection task — whatever its result — leaves a state that
satisfies the invariant. -/
theorem pollConn_inv : ∀ (fuel : Nat) (c : Conn), CInv c → CInv (pollConn fuel c).1
  | 0, _, h => h
  | fuel + 1, c, h => by
    rw [pollConn_succ]
    have hs := stepConn_inv c h
    cases hst : stepConn c with
    | next c' => rw [hst] at hs; exact pollConn_inv fuel c' hs
    | halt c' r => rw [hst] at hs; exact hs

theorem prePoll_phase (c : Conn) (n : Nat) (sa : Option Nat) : (prePoll c n sa).phase = c.phase := by
  unfold prePoll
  split <;> rfl

/-- The executor (`runTask`: peer releases, wake-ups, the stop flag, any number of polls) preserves
the invariant. -/
theorem runTask_inv : ∀ (fuel : Nat) (c : Conn) (n : Nat) (sa : Option Nat), CInv c →
    CInv (runTask fuel c n sa).1
  | 0, _, _, _, h => h
  | fuel + 1, c, n, sa, h => by
    rw [runTask_succ]
    have hp := pollConn_inv (connFuel (prePoll c n sa)) _ (CInv_of_phase (prePoll_phase c n sa) h)
    generalize pollConn (connFuel (prePoll c n sa)) (prePoll c n sa) = x at hp
    obtain ⟨c1, res⟩ := x
    cases res with
    | finished => exact hp
    | panic s => exact hp
    | pending =>
      simp only []
      split
      · exact runTask_inv fuel _ _ _ hp
      · split
        · exact runTask_inv fuel _ _ _ (CInv_of_phase rfl hp)
        · split
          · split
            · exact runTask_inv fuel _ _ _ (CInv_of_phase rfl hp)
            · exact CInv_of_phase rfl hp
          · exact CInv_of_phase rfl hp

/-- The states a connection can be in at the start of a poll: the initial state, closed under
polls and under arbitrary changes of the environment (peer, transport script), the remaining
handler scripts and the stop flag. -/
inductive Reachable (b mc : Nat) : Conn → Prop
  | init (env : Env) (scripts : List (List HOp × Bool)) (stop : Bool) :
      Reachable b mc { phase := .parseReq (Req.Parser.new b mc) .start, env, scripts, stop }
  | poll {c : Conn} (fuel : Nat) : Reachable b mc c → Reachable b mc (pollConn fuel c).1
  | env {c : Conn} (e : Env) (scripts : List (List HOp × Bool)) (stop : Bool) :
      Reachable b mc c → Reachable b mc { c with env := e, scripts := scripts, stop := stop }

theorem reachable_inv {b mc : Nat} {c : Conn} (h : Reachable b mc c) : CInv c := by
  induction h with
  | init env scripts stop => exact CInv_init b mc env scripts stop
  | poll fuel _ ih => exact pollConn_inv fuel _ ih
  | env e scripts stop _ ih => exact CInv_of_phase rfl ih

/-! ## 2. What a parked task looks like -/

/-- **The task owes the client nothing.** -/
def OwesNothing : Phase → Prop
  /- `parse_request`: suspended in its read, not in `write_all` of a reply -/
  | .parseReq _ sub => sub = .reading
  /- handler (`read`, `fill_buf`, `writeable()`): the stream parser's reply buffer is empty, and the
     operation at the head of the script is one that reads -/
  | .handler r h => r.sp.output = [] ∧ ∃ op rest, h.ops = op :: rest ∧ isReadOp op = true
  /- `close`: in `writeable().await` with an empty reply buffer, or in `record_boundary().await`
     (which reads without flushing: the documented exemption, see `boundary_park_mid_record`) -/
  | .closing r cs _ _ => (cs = .inWriteable ∧ r.sp.output = []) ∨ cs = .inBoundary
  | .finished => False

/-- **Everything read has been processed**: the parser of the phase has nothing buffered that it
could still process (see `RpSettled`, `Quiescent`, `Quiescent.parse_nil`). -/
def Processed : Phase → Prop
  | .parseReq rp _ => RpSettled rp
  | .handler r _ => Quiescent r.sp ∧ r.sp.stream ≠ none
  | .closing r _ _ _ => Quiescent r.sp
  | .finished => False

/-- The `record_boundary()` exemption applies only in the middle of a record. -/
def MidRecord : Phase → Prop
  | .closing r .inBoundary _ _ => r.sp.isRecordBoundary = false
  | _ => True

/-- Outcome of (part of) a poll: the waker was not parked, or the poll is `Pending` with the transport
drained and the task owing nothing. -/
def ParkOut (c' : Conn) (res : PRes) : Prop :=
  c'.env.tr.readWaker = false ∨
    (res = .pending ∧ c'.env.tr.input = [] ∧ OwesNothing c'.phase ∧ Processed c'.phase ∧
      MidRecord c'.phase)

def StepPark : Step → Prop
  | .next c1 => c1.env.tr.readWaker = false
  | .halt c1 res => ParkOut c1 res

theorem stepConn_park (c : Conn) (hinv : CInv c) (h0 : c.env.tr.readWaker = false) :
    StepPark (stepConn c) := by
  obtain ⟨phase, env, scripts, stop⟩ := c
  unfold CInv at hinv
  simp only at hinv h0
  cases phase with
  | finished => exact Or.inl h0
  | handler r h =>
    simp only [stepConn]
    cases hhp : handlerPoll (1000 + env.tr.input.length * 4 + (env.segs.map (·.2.length)).sum * 4 + r.sp.cap * 4 + scriptCost h) r h env with
    | mk r' x =>
      obtain ⟨h', e', res⟩ := x
      have hp := handlerPoll_park _ _ _ _ hhp h0
      cases res with
      | pending =>
        simp only [StepPark]
        rcases hp with hp | ⟨_, hk, hops⟩
        · exact Or.inl hp
        · exact Or.inr ⟨rfl, hk.drained, ⟨hk.out, hops⟩, ⟨hk.quiet, hk.active⟩, trivial⟩
      | panic s => exact Or.inl (noPark hp nofun)
      | done res =>
        have h1 : e'.tr.readWaker = false := noPark hp nofun
        cases res with
        | ok st => exact h1
        | error x =>
          simp only []
          split
          · exact h1
          · exact Or.inl h1
  | closing r cs status alive =>
    simp only [stepConn]
    cases hcp : closePoll r cs status alive env.mutex env.tr with
    | mk r' x =>
      obtain ⟨cs', m', t', res⟩ := x
      have hb : cs = .inBoundary → BParked r.sp := by
        intro hc; subst hc; exact hinv
      have hp := (closePoll_park hcp hb).2 h0
      cases res with
      | pending =>
        simp only [StepPark]
        rcases hp with hp | ⟨_, hin, ⟨hc, hk⟩ | ⟨hc, hk⟩⟩
        · exact Or.inl hp
        · subst hc
          exact Or.inr ⟨rfl, hin, Or.inl ⟨rfl, hk.out⟩, hk.quiet, trivial⟩
        · subst hc
          exact Or.inr ⟨rfl, hin, Or.inr rfl, hk.quiet, hk.mid⟩
      | panic s => exact Or.inl (noPark hp nofun)
      | err e => exact Or.inl (noPark hp nofun)
      | reuse rp => exact noPark hp nofun
  | parseReq rp sub =>
    cases stop with
    | true => exact Or.inl h0
    | false =>
      cases sub with
      | start =>
        simp only [stepConn, Bool.false_eq_true, if_false]
        cases hp : rp.parse [] with
        | mk rp' oy =>
          cases oy with
          | none => exact Or.inl h0
          | some y => exact h0
      | reading =>
        simp only [stepConn, Bool.false_eq_true, if_false]
        cases hrd : env.tr.read rp.free with
        | mk t pr =>
          have hp := read_park hrd h0
          cases pr with
          | pending =>
            simp only [StepPark]
            rcases hp with hp | ⟨_, hin⟩
            · exact Or.inl hp
            · exact Or.inr ⟨rfl, hin, rfl, hinv.2, trivial⟩
          | ready ex =>
            have h1 : t.readWaker = false := noPark hp nofun
            cases ex with
            | error e => exact Or.inl h1
            | ok bs =>
              cases bs with
              | nil => exact Or.inl h1
              | cons b bs =>
                simp only []
                cases hp : rp.parse (b :: bs) with
                | mk rp' oy =>
                  cases oy with
                  | none => exact Or.inl h1
                  | some y => exact h1
      | writing rest done =>
        simp only [stepConn, Bool.false_eq_true, if_false]
        cases hwl : writeAllLoop (rest.length + 1) rest env.tr with
        | mk rest' x =>
          obtain ⟨t, res⟩ := x
          have h1 : t.readWaker = false := (writeAllLoop_rw _ _ _ hwl).trans h0
          cases res with
          | pending => exact Or.inl h1
          | err e => exact Or.inl h1
          | panic s => exact Or.inl h1
          | ready =>
            simp only []
            cases done with
            | false => exact h1
            | true =>
              simp only [Bool.not_true, Bool.false_eq_true, if_false]
              cases rp.intoStreamParser with
              | error e => exact Or.inl h1
              | ok sp => exact h1

/-- The whole poll: if it started with the waker not parked, it ends with the waker not parked, or
`Pending` in a state that owes nothing. -/
theorem pollConn_park : ∀ (fuel : Nat) (c : Conn), CInv c → c.env.tr.readWaker = false →
    ParkOut (pollConn fuel c).1 (pollConn fuel c).2
  | 0, _, _, h0 => Or.inl h0
  | fuel + 1, c, hinv, h0 => by
    rw [pollConn_succ]
    have hs := stepConn_inv c hinv
    have hp := stepConn_park c hinv h0
    cases hst : stepConn c with
    | next c' => rw [hst] at hs hp; exact pollConn_park fuel c' hs hp
    | halt c' r => rw [hst] at hp; exact hp

/-! ## 3. The theorems -/

section Main
variable {fuel : Nat} {c c' : Conn}

/-- **C08 (1).**  A poll that ends `Pending` with the task's waker parked on a transport read —
i.e. the task is suspended waiting for further input from the client — leaves the task owing the
client nothing: see `OwesNothing`.

Hypotheses: `CInv c` (holds for the initial state and is preserved by polls and by the
environment: `reachable_inv`), and `readWaker = false` before the poll, which identifies the park as
having happened in this poll (the executor polls the task after a peer release, which clears the
flag, or after a transient `Pending`, during which it was never set). -/
theorem parked_owes_nothing (hinv : CInv c) (h0 : c.env.tr.readWaker = false)
    (h : pollConn fuel c = (c', .pending)) (hw : c'.env.tr.readWaker = true) :
    OwesNothing c'.phase := by
  have hp := pollConn_park fuel c hinv h0
  rw [h] at hp
  rcases hp with hp | ⟨_, _, ho, _, _⟩
  · rw [hp] at hw; cases hw
  · exact ho

/-- `parked_owes_nothing`, phase by phase. -/
theorem parked_parseReq (hinv : CInv c) (h0 : c.env.tr.readWaker = false)
    (h : pollConn fuel c = (c', .pending)) (hw : c'.env.tr.readWaker = true)
    {rp : Req.Parser} {sub : PRSub} (hph : c'.phase = .parseReq rp sub) : sub = .reading := by
  have := parked_owes_nothing hinv h0 h hw
  rw [hph] at this; exact this

theorem parked_handler (hinv : CInv c) (h0 : c.env.tr.readWaker = false)
    (h : pollConn fuel c = (c', .pending)) (hw : c'.env.tr.readWaker = true)
    {r : AReq} {hs : HState} (hph : c'.phase = .handler r hs) :
    r.sp.output = [] ∧ ∃ op rest, hs.ops = op :: rest ∧ isReadOp op = true := by
  have := parked_owes_nothing hinv h0 h hw
  rw [hph] at this; exact this

theorem parked_closing (hinv : CInv c) (h0 : c.env.tr.readWaker = false)
    (h : pollConn fuel c = (c', .pending)) (hw : c'.env.tr.readWaker = true)
    {r : AReq} {cs : CloseSt} {st : ExitStatus} {alive : Nat} (hph : c'.phase = .closing r cs st alive) :
    (cs = .inWriteable ∧ r.sp.output = []) ∨ cs = .inBoundary := by
  have := parked_owes_nothing hinv h0 h hw
  rw [hph] at this; exact this

/-- A parked task is never finished (a finished task is not `Pending`). -/
theorem parked_not_finished (hinv : CInv c) (h0 : c.env.tr.readWaker = false)
    (h : pollConn fuel c = (c', .pending)) (hw : c'.env.tr.readWaker = true) :
    c'.phase ≠ .finished := by
  intro hph
  have := parked_owes_nothing hinv h0 h hw
  rw [hph] at this; exact this

/-- **The `record_boundary()` exemption.**  `close` may be parked in `record_boundary()` with replies
still in the stream parser's buffer (the Rust: "Sending `Parser::output_buffer` is delayed to
subsequent operations") — but only while the stream parser is *not* at a record boundary: the task
waits for the rest of a record the peer has already begun to send, which a peer that sends whole
records always delivers. -/
theorem boundary_park_mid_record (hinv : CInv c) (h0 : c.env.tr.readWaker = false)
    (h : pollConn fuel c = (c', .pending)) (hw : c'.env.tr.readWaker = true)
    {r : AReq} {st : ExitStatus} {alive : Nat} (hph : c'.phase = .closing r .inBoundary st alive) :
    r.sp.isRecordBoundary = false := by
  have hp := pollConn_park fuel c hinv h0
  rw [h] at hp
  rcases hp with hp | ⟨_, _, _, _, hm⟩
  · rw [hp] at hw; cases hw
  · simp only [hph] at hm; exact hm

/-- **C08 (2).**  In the same situation everything already read has been processed: see `Processed`. -/
theorem parked_processed (hinv : CInv c) (h0 : c.env.tr.readWaker = false)
    (h : pollConn fuel c = (c', .pending)) (hw : c'.env.tr.readWaker = true) :
    Processed c'.phase := by
  have hp := pollConn_park fuel c hinv h0
  rw [h] at hp
  rcases hp with hp | ⟨_, _, _, hq, _⟩
  · rw [hp] at hw; cases hw
  · exact hq

/-- (2) for `parse_request`: re-parsing the buffered leftover yields `Ok`, not done, no output, the
same buffer, and the same state up to the `values c v 0 0 ↦ c.intoState` normalisation. -/
theorem parked_processed_parseReq (hinv : CInv c) (h0 : c.env.tr.readWaker = false)
    (h : pollConn fuel c = (c', .pending)) (hw : c'.env.tr.readWaker = true)
    {rp : Req.Parser} {sub : PRSub} (hph : c'.phase = .parseReq rp sub) :
    ∃ rp', rp.parse [] = (rp', some { done := false, output := [] }) ∧
      rp'.input = rp.input ∧ rp'.cap = rp.cap ∧ rp'.maxConns = rp.maxConns ∧
      (rp'.state = rp.state ∨
        (rp.input = [] ∧ ∃ c v, rp.state = .values c v 0 0 ∧ rp'.state = c.intoState)) := by
  have := parked_processed hinv h0 h hw
  rw [hph] at this; exact this

/-- (2) for the handler phase: a `parse` call of the stream parser with no new input — for *any*
destination, in particular the one of the parked read — returns `Ok` with no stream data
(`stream = 0`, `delivered = []`), no `stream_end`, no new output, and leaves the parser exactly as it
is (no normalisation is needed for `stream::Parser`). -/
theorem parked_processed_handler (hinv : CInv c) (h0 : c.env.tr.readWaker = false)
    (h : pollConn fuel c = (c', .pending)) (hw : c'.env.tr.readWaker = true)
    {r : AReq} {hs : HState} (hph : c'.phase = .handler r hs) (dest : Option Nat) :
    r.sp.parse [] dest =
      (r.sp, .ok { stream := 0, streamEnd := false, output := 0, delivered := [] }) := by
  have := parked_processed hinv h0 h hw
  rw [hph] at this
  obtain ⟨hq, hact⟩ := this
  rw [hq.parse_nil dest]
  have : r.sp.stream.isNone = false := by
    cases hs' : r.sp.stream with
    | none => exact absurd hs' hact
    | some s => rfl
  simp only [initStatus, this]

/-- (2) for `close` (both `writeable()` and `record_boundary()`): the same no-op, with the
`stream_end` flag the parser's stream selection implies. -/
theorem parked_processed_closing (hinv : CInv c) (h0 : c.env.tr.readWaker = false)
    (h : pollConn fuel c = (c', .pending)) (hw : c'.env.tr.readWaker = true)
    {r : AReq} {cs : CloseSt} {st : ExitStatus} {alive : Nat} (hph : c'.phase = .closing r cs st alive)
    (dest : Option Nat) :
    r.sp.parse [] dest =
      (r.sp, .ok { stream := 0, streamEnd := r.sp.stream.isNone, output := 0, delivered := [] }) := by
  have := parked_processed hinv h0 h hw
  rw [hph] at this
  exact this.parse_nil dest

/-- And nothing the peer has delivered is unread: the transport's input is empty. -/
theorem parked_drained (hinv : CInv c) (h0 : c.env.tr.readWaker = false)
    (h : pollConn fuel c = (c', .pending)) (hw : c'.env.tr.readWaker = true) :
    c'.env.tr.input = [] := by
  have hp := pollConn_park fuel c hinv h0
  rw [h] at hp
  rcases hp with hp | ⟨_, hin, _⟩
  · rw [hp] at hw; cases hw
  · exact hin

/-- Conversely, the waker is parked only by a `Pending` poll: a poll that finishes or panics leaves
`readWaker = false`. -/
theorem park_only_pending (hinv : CInv c) (h0 : c.env.tr.readWaker = false)
    {res : PRes} (h : pollConn fuel c = (c', res)) (hw : c'.env.tr.readWaker = true) : res = .pending := by
  have hp := pollConn_park fuel c hinv h0
  rw [h] at hp
  rcases hp with hp | ⟨hr, _⟩
  · rw [hp] at hw; cases hw
  · exact hr

end Main

/-! ## 4. Non-vacuity: concrete connections that park in each phase

The transport has no input and the closed-loop peer holds its next segment back (`hold := true`), so
the first transport read parks the task.  Polls that go through the well-founded `run` of the
request parser are evaluated with unfolding lemmas, the others by kernel evaluation. -/
section Examples

/-- the poll ended `Pending` with the waker parked, in a phase accepted by `p` -/
def parkedIn (x : Conn × PRes) (p : Phase → Bool) : Bool :=
  match x with
  | (c', .pending) => c'.env.tr.readWaker && p c'.phase
  | _ => false

theorem parkedIn_spec {x : Conn × PRes} {p : Phase → Bool} (h : parkedIn x p = true) :
    ∃ c', x = (c', .pending) ∧ c'.env.tr.readWaker = true ∧ p c'.phase = true := by
  obtain ⟨c', res⟩ := x
  cases res with
  | pending =>
    simp only [parkedIn, Bool.and_eq_true] at h
    exact ⟨c', rfl, h.1, h.2⟩
  | finished => cases h
  | panic s => cases h

def exTr : Transport := { input := [], endMode := .eof, rd := [], wr := [], fl := [], hold := true }
/-- Responder, KeepConn -/
def exReq : Request := { id := 1, role := 1, flags := 1, env := [] }
/-- Filter (two input streams: `writeable()` has to read `Stdin` and `Data` to their ends) -/
def exReqF : Request := { id := 1, role := 3, flags := 1, env := [] }

/-! ### `parse_request` -/

/-- a fresh connection -/
def ex0 : Conn := { phase := .parseReq (Req.Parser.new 0 1) .start, env := { tr := exTr }, scripts := [] }

theorem run_header_nil (mc : Nat) : run .header [] mc = { rem := [], st := .header, out := [] } := by
  rw [run]; rfl

theorem new_parse_nil :
    (Req.Parser.new 0 1).parse [] = (Req.Parser.new 0 1, some { done := false, output := [] }) := by
  unfold Req.Parser.parse
  simp only [Req.Parser.new, List.append_nil, run_header_nil]
  decide

/-- a connection suspended in `reading` -/
def exR : Conn := { phase := .parseReq (Req.Parser.new 0 1) .reading, env := { tr := exTr }, scripts := [] }

/-- The first poll of a fresh connection: initial `parse(0)`, nothing to write, read — parked in
`reading`. -/
theorem ex0_parks : ∃ c', pollConn 4 ex0 = (c', .pending) ∧ c'.env.tr.readWaker = true ∧
    c'.phase = .parseReq (Req.Parser.new 0 1) .reading := by
  have h : pollConn 4 ex0 = pollConn 2 exR := by
    rw [C08.parse_before_read 3 ex0 _ _ _ rfl rfl new_parse_nil,
      C08.output_written_before_read 2 _ _ [] rfl rfl [] exTr rfl]
    rfl
  exact ⟨_, h.trans rfl, rfl, rfl⟩

/-- hypotheses of the theorems hold … -/
example : CInv ex0 ∧ ex0.env.tr.readWaker = false := ⟨CInv_init 0 1 _ _ _, rfl⟩
/-- … and so do their conclusions. -/
example : ∃ c', pollConn 4 ex0 = (c', .pending) ∧ OwesNothing c'.phase ∧ Processed c'.phase ∧
    c'.env.tr.input = [] := by
  obtain ⟨c', h, hw, _⟩ := ex0_parks
  exact ⟨c', h, parked_owes_nothing (CInv_init 0 1 _ _ _) rfl h hw,
    parked_processed (CInv_init 0 1 _ _ _) rfl h hw, parked_drained (CInv_init 0 1 _ _ _) rfl h hw⟩

/-- `exR` (the state the poll above leaves, up to the trace) polled again after a spurious wake-up:
parks again -/
theorem exR_inv : CInv exR :=
  ⟨trivial, _, new_parse_nil, rfl, rfl, rfl, Or.inl rfl⟩

example : ∃ c', pollConn 1 exR = (c', .pending) ∧ c'.env.tr.readWaker = true ∧
    c'.phase = .parseReq (Req.Parser.new 0 1) .reading := ⟨_, rfl, rfl, rfl⟩

example : (Req.Parser.new 0 1).parse [] = (Req.Parser.new 0 1, some { done := false, output := [] }) ∧
    RpSettled (Req.Parser.new 0 1) := ⟨new_parse_nil, exR_inv.2⟩

/-! ### handler -/

/-- the handler script is `[readAll]`; no input yet -/
def exH : Conn :=
  { phase := .handler (AReq.new (Str.Parser.fromParser 64 exReq [] 1)) { ops := [.readAll] },
    env := { tr := exTr }, scripts := [] }

def isHandlerPhase : Phase → Bool
  | .handler _ _ => true
  | _ => false

theorem exH_parks : ∃ c', pollConn 1 exH = (c', .pending) ∧ c'.env.tr.readWaker = true ∧
    isHandlerPhase c'.phase = true :=
  parkedIn_spec (by decide +kernel)

example : CInv exH ∧ exH.env.tr.readWaker = false := ⟨trivial, rfl⟩

example : ∃ c' r h, pollConn 1 exH = (c', .pending) ∧ c'.phase = .handler r h ∧ r.sp.output = [] ∧
    (∀ dest, r.sp.parse [] dest =
      (r.sp, .ok { stream := 0, streamEnd := false, output := 0, delivered := [] })) := by
  obtain ⟨c', h, hw, hp⟩ := exH_parks
  cases hph : c'.phase with
  | handler r hs =>
    exact ⟨c', r, hs, h, hph, (parked_handler (c := exH) trivial rfl h hw hph).1,
      parked_processed_handler (c := exH) trivial rfl h hw hph⟩
  | parseReq _ _ => rw [hph] at hp; cases hp
  | closing _ _ _ _ => rw [hph] at hp; cases hp
  | finished => rw [hph] at hp; cases hp

/-! ### `close`, suspended in `writeable()` -/

/-- a Filter request whose handler returned without reading its input streams -/
def exW : Conn :=
  { phase := .closing (AReq.new (Str.Parser.fromParser 64 exReqF [] 1)) .start (.complete 0) 0,
    env := { tr := exTr }, scripts := [] }

def isClosingIn (cs : CloseSt) : Phase → Bool
  | .closing _ cs' _ _ => decide (cs' = cs)
  | _ => false

theorem isClosingIn_spec {cs : CloseSt} {ph : Phase} (h : isClosingIn cs ph = true) :
    ∃ r st alive, ph = .closing r cs st alive := by
  cases ph with
  | closing r cs' st alive =>
    simp only [isClosingIn, decide_eq_true_eq] at h
    exact ⟨r, st, alive, by rw [h]⟩
  | parseReq _ _ => cases h
  | handler _ _ => cases h
  | finished => cases h

theorem exW_parks : ∃ c', pollConn 1 exW = (c', .pending) ∧ c'.env.tr.readWaker = true ∧
    isClosingIn .inWriteable c'.phase = true :=
  parkedIn_spec (by decide +kernel)

example : CInv exW ∧ exW.env.tr.readWaker = false := ⟨trivial, rfl⟩

example : ∃ c' r st alive, pollConn 1 exW = (c', .pending) ∧ c'.phase = .closing r .inWriteable st alive ∧
    r.sp.output = [] := by
  obtain ⟨c', h, hw, hp⟩ := exW_parks
  obtain ⟨r, st, alive, hph⟩ := isClosingIn_spec hp
  refine ⟨c', r, st, alive, h, hph, ?_⟩
  rcases parked_closing (c := exW) trivial rfl h hw hph with ⟨_, ho⟩ | hc
  · exact ho
  · cases hc

/-! ### `close`, suspended in `record_boundary()` -/

/-- the handler returned while 5 payload bytes of a record it skips are still outstanding -/
def exBsp : Str.Parser := { Str.Parser.fromParser 64 exReq [] 1 with pay := 5 }
def exB : Conn :=
  { phase := .closing (AReq.new exBsp) .start (.complete 0) 0, env := { tr := exTr }, scripts := [] }

/-- the stream parser after `set_stream(None)` -/
def exBsp0 : Str.Parser := { exBsp with stream := none }

theorem exBsp0_parse : exBsp0.parse [] none = (exBsp0, .ok (initStatus exBsp0)) :=
  Quiescent.parse_nil ⟨Or.inl rfl, rfl, by decide⟩ none

theorem exB_boundary : ∃ t', boundaryLoop 2 exBsp0 [] exTr = (exBsp0, t', .pending) ∧
    t'.readWaker = true := by
  simp only [boundaryLoop, exBsp0_parse, boundaryLoop.cont]
  exact ⟨_, rfl, rfl⟩

theorem exB_close : ∃ t', closePoll (AReq.new exBsp) .start (.complete 0) 0 none exTr =
      ({ AReq.new exBsp with sp := exBsp0 }, .inBoundary, none, t', .pending) ∧ t'.readWaker = true := by
  obtain ⟨t', hb, hw⟩ := exB_boundary
  refine ⟨t', ?_, hw⟩
  have h1 : closeP1 (AReq.new exBsp) .start none exTr = .ok (AReq.new exBsp, none, exTr, .start) := rfl
  have h2 : closeP2 (AReq.new exBsp) none exTr .start =
      .error ({ AReq.new exBsp with sp := exBsp0 }, .inBoundary, none, t', .pending) := by
    rw [closeP2_start]
    have : closeBoundary (spIgnore (AReq.new exBsp).sp) false exTr = boundaryLoop 2 exBsp0 [] exTr := rfl
    rw [this, hb]; rfl
  rw [closePoll_eq, h1]
  simp only [h2]

/-- the state the poll leaves -/
def exB' (t' : Transport) : Conn :=
  { phase := .closing { AReq.new exBsp with sp := exBsp0 } .inBoundary (.complete 0) 0,
    env := { tr := t' }, scripts := [] }

theorem exB_parks : ∃ c', pollConn 1 exB = (c', .pending) ∧ c'.env.tr.readWaker = true ∧
    c'.phase = .closing { AReq.new exBsp with sp := exBsp0 } .inBoundary (.complete 0) 0 := by
  obtain ⟨t', hc, hw⟩ := exB_close
  have hc' : closePoll (AReq.new exBsp) .start (.complete 0) 0 exB.env.mutex exB.env.tr =
      ({ AReq.new exBsp with sp := exBsp0 }, .inBoundary, none, t', .pending) := hc
  refine ⟨exB' t', ?_, hw, rfl⟩
  rw [pollConn_succ]
  have : stepConn exB = .halt (exB' t') .pending := by
    simp only [stepConn, exB] at hc' ⊢
    rw [hc']
    rfl
  rw [this]; rfl

example : CInv exB ∧ exB.env.tr.readWaker = false := ⟨trivial, rfl⟩

example : ∃ c' r st alive, pollConn 1 exB = (c', .pending) ∧ c'.phase = .closing r .inBoundary st alive ∧
    r.sp.isRecordBoundary = false ∧ r.sp.pay = 5 := by
  obtain ⟨c', h, hw, hph⟩ := exB_parks
  exact ⟨c', _, _, _, h, hph, boundary_park_mid_record (c := exB) trivial rfl h hw hph, rfl⟩

/-- the same connection polled again while still suspended in `inBoundary` (this poll starts from a
state that needs the `BParked` part of the invariant): parks again, still mid-record -/
def exB2 : Conn :=
  { phase := .closing { AReq.new exBsp with sp := exBsp0 } .inBoundary (.complete 0) 0,
    env := { tr := exTr }, scripts := [] }

theorem exB2_inv : CInv exB2 :=
  ⟨rfl, Or.inl rfl, rfl, by decide⟩

example : ∃ c', pollConn 1 exB2 = (c', .pending) ∧ c'.env.tr.readWaker = true ∧
    isClosingIn .inBoundary c'.phase = true :=
  parkedIn_spec (by decide +kernel)

/-! ### A task that still owes a reply is *not* parked

A `GetValues` query arrives before the request; the transport accepts only part of the reply.  The
poll is `Pending` in `writing` with the rest of the reply — and the waker is not parked on a read
(the transient write `Pending` has woken the task instead). -/
def exQ : Conn :=
  { phase := .parseReq (Req.Parser.new 0 1) (.writing [1, 10, 0, 0, 0, 0, 0, 0] false),
    env := { tr := { exTr with wr := [.n 3, .pending] } }, scripts := [] }

example : ∃ c' rp, pollConn 2 exQ = (c', .pending) ∧ c'.env.tr.readWaker = false ∧
    c'.env.tr.woken = true ∧ c'.phase = .parseReq rp (.writing [0, 0, 0, 0, 0] false) :=
  ⟨_, _, rfl, rfl, rfl, rfl⟩

end Examples

/-! ## 5. The flag discipline of a whole poll, and the wake-accurate executor

`runTask` clears `woken` before every poll (`prePoll`); `readWaker` is cleared only by
`Env.release` when the peer releases input (which then also sets `woken`).  A poll touches the two
flags as `Outcome` says (Proofs/C08Inv §7): not at all unless it returns `Pending`; a `Pending` is a
transient one (sets `woken` only), a parked read (sets `readWaker` only — and then the task owes
nothing), or a lock future that found the mutex taken (sets neither: nobody will wake the task). -/

/-- what holds of the connection when a read parked in this poll -/
def ConnParked (c' : Conn) : Prop :=
  c'.env.tr.input = [] ∧ OwesNothing c'.phase ∧ Processed c'.phase ∧ MidRecord c'.phase

def StepOc (c : Conn) : Step → Prop
  | .next c1 => Same c.env.tr c1.env.tr
  | .halt c1 res => Outcome c.env.tr c1.env.tr c1.env.mutex (prP res) (ConnParked c1)

theorem stepConn_oc (c : Conn) (hinv : CInv c) : StepOc c (stepConn c) := by
  obtain ⟨phase, env, scripts, stop⟩ := c
  unfold CInv at hinv
  simp only at hinv
  cases phase with
  | finished => exact Outcome.idle _ _ _
  | handler r h =>
    simp only [stepConn]
    cases hhp : handlerPoll (1000 + env.tr.input.length * 4 + (env.segs.map (·.2.length)).sum * 4 + r.sp.cap * 4 + scriptCost h) r h env with
    | mk r' x =>
      obtain ⟨h', e', res⟩ := x
      have hp := handlerPoll_oc _ _ _ _ hhp
      cases res with
      | pending =>
        exact hp.mono (fun ⟨hk, hops⟩ => ⟨hk.drained, ⟨hk.out, hops⟩, ⟨hk.quiet, hk.active⟩, trivial⟩)
      | panic s => exact Outcome.idle' hp.same _ _
      | done res =>
        have h1 : Same env.tr e'.tr := hp.same
        cases res with
        | ok st => exact h1
        | error x =>
          simp only []
          split
          · exact h1
          · exact Outcome.idle' h1 _ _
  | closing r cs status alive =>
    simp only [stepConn]
    cases hcp : closePoll r cs status alive env.mutex env.tr with
    | mk r' x =>
      obtain ⟨cs', m', t', res⟩ := x
      have hb : cs = .inBoundary → BParked r.sp := by
        intro hc; subst hc; exact hinv
      have hp := closePoll_oc hcp hb
      cases res with
      | pending =>
        refine hp.mono (fun ⟨hin, hk⟩ => ?_)
        rcases hk with ⟨hc, hk⟩ | ⟨hc, hk⟩
        · subst hc; exact ⟨hin, Or.inl ⟨rfl, hk.out⟩, hk.quiet, trivial⟩
        · subst hc; exact ⟨hin, Or.inr rfl, hk.quiet, hk.mid⟩
      | panic s => exact Outcome.idle' hp.same _ _
      | err e => exact Outcome.idle' hp.same _ _
      | reuse rp => exact hp.same
  | parseReq rp sub =>
    cases stop with
    | true => exact Outcome.idle _ _ _
    | false =>
      cases sub with
      | start =>
        simp only [stepConn, Bool.false_eq_true, if_false]
        cases hp : rp.parse [] with
        | mk rp' oy =>
          cases oy with
          | none => exact Outcome.idle _ _ _
          | some y => exact Same.refl _
      | reading =>
        simp only [stepConn, Bool.false_eq_true, if_false]
        cases hrd : env.tr.read rp.free with
        | mk t pr =>
          have hp := (read_oc hrd).anyMutex env.mutex
          cases pr with
          | pending => exact hp.mono (fun hin => ⟨hin, rfl, hinv.2, trivial⟩)
          | ready ex =>
            have h1 : Same env.tr t := hp.same
            cases ex with
            | error e => exact Outcome.idle' h1 _ _
            | ok bs =>
              cases bs with
              | nil => exact Outcome.idle' h1 _ _
              | cons b bs =>
                simp only []
                cases hp : rp.parse (b :: bs) with
                | mk rp' oy =>
                  cases oy with
                  | none => exact Outcome.idle' h1 _ _
                  | some y => exact h1
      | writing rest done =>
        simp only [stepConn, Bool.false_eq_true, if_false]
        cases hwl : writeAllLoop (rest.length + 1) rest env.tr with
        | mk rest' x =>
          obtain ⟨t, res⟩ := x
          have hp := (writeAllLoop_oc _ _ _ hwl).anyMutex env.mutex
          cases res with
          | pending => exact hp.mono (fun hf => nomatch hf)
          | err e => exact Outcome.idle' hp.same _ _
          | panic s => exact Outcome.idle' hp.same _ _
          | ready =>
            have h1 : Same env.tr t := hp.same
            simp only []
            cases done with
            | false => exact h1
            | true =>
              simp only [Bool.not_true, Bool.false_eq_true, if_false]
              cases rp.intoStreamParser with
              | error e => exact Outcome.idle' h1 _ _
              | ok sp => exact h1

/-- **The flag discipline of one poll** (no hypothesis on the flags before the poll). -/
theorem pollConn_oc : ∀ (fuel : Nat) (c : Conn), CInv c →
    Outcome c.env.tr (pollConn fuel c).1.env.tr (pollConn fuel c).1.env.mutex (prP (pollConn fuel c).2)
      (ConnParked (pollConn fuel c).1)
  | 0, _, _ => Outcome.idle _ _ _
  | fuel + 1, c, hinv => by
    rw [pollConn_succ]
    have hs := stepConn_inv c hinv
    have hp := stepConn_oc c hinv
    cases hst : stepConn c with
    | next c' => rw [hst] at hs hp; exact Outcome.pre hp (pollConn_oc fuel c' hs)
    | halt c' r => rw [hst] at hp; exact hp

section Flags
variable {fuel : Nat} {c c' : Conn} {res : PRes}

/-- `pollConn_oc` for a named result. -/
theorem poll_flags (hinv : CInv c) (h : pollConn fuel c = (c', res)) :
    Outcome c.env.tr c'.env.tr c'.env.mutex (prP res) (ConnParked c') := by
  have := pollConn_oc fuel c hinv
  rwa [h] at this

/-- A poll that does not return `Pending` touches neither flag. -/
theorem poll_done_flags (hinv : CInv c) (h : pollConn fuel c = (c', res)) (hr : res ≠ .pending) :
    c'.env.tr.woken = c.env.tr.woken ∧ c'.env.tr.readWaker = c.env.tr.readWaker := by
  have hp := poll_flags hinv h
  cases res with
  | pending => exact absurd rfl hr
  | finished => exact hp.same
  | panic s => exact hp.same

/-- **At most one of the two flags is set by a poll**: from a state with both flags clear, a poll
never returns with both `woken` and `readWaker` set. -/
theorem poll_at_most_one_flag (hinv : CInv c) (h : pollConn fuel c = (c', res))
    (hw0 : c.env.tr.woken = false) (hr0 : c.env.tr.readWaker = false) :
    ¬ (c'.env.tr.woken = true ∧ c'.env.tr.readWaker = true) := by
  rintro ⟨hw, hr⟩
  rcases poll_flags hinv h with ⟨⟨h1, _⟩, _⟩ | ⟨_, _, h2⟩ | ⟨_, _, h2, _⟩
  · rw [h1, hw0] at hw; cases hw
  · rw [h2, hr0] at hr; cases hr
  · rw [h2, hw0] at hw; cases hw

/-- **A `Pending` poll that did not wake the task** (`woken` clear after the poll; the executor
clears it before every poll): either a lock future found the mutex taken and the flags are as before
(in particular a stale `readWaker` stays set), or a read parked *in this poll* and the task owes
nothing — also when `readWaker` was already set before the poll (stale flag: the task is parked again,
with the same guarantees). -/
theorem pending_unwoken (hinv : CInv c) (h : pollConn fuel c = (c', .pending))
    (hw : c'.env.tr.woken = false) :
    (c'.env.mutex ≠ none ∧ c'.env.tr.readWaker = c.env.tr.readWaker) ∨
      (c'.env.tr.readWaker = true ∧ ConnParked c') := by
  rcases poll_flags hinv h with ⟨⟨_, h1⟩, hm⟩ | ⟨_, h2, _⟩ | ⟨_, hr, _, hk⟩
  · exact Or.inl ⟨hm rfl, h1⟩
  · rw [hw] at h2; cases h2
  · exact Or.inr ⟨hr, hk⟩

/-- The claim "a `Pending` poll that leaves `woken` clear has parked on a read" in full generality … -/
def pending_unwoken_parked_full : Prop :=
  ∀ (fuel : Nat) (c c' : Conn), CInv c → c.env.tr.woken = false → c.env.tr.readWaker = false →
    pollConn fuel c = (c', .pending) → c'.env.tr.woken = false → c'.env.tr.readWaker = true

/-- … holds whenever the mutex is free after the poll (what is excluded: the task waits for the
`futures::lock::Mutex`, which in one task can only be held by a writer that kept it across an ignored
write error — DESIGN §14.3, not a defect). -/
theorem pending_unwoken_parked_partial (hinv : CInv c) (h : pollConn fuel c = (c', .pending))
    (hw : c'.env.tr.woken = false) (hm : c'.env.mutex = none) :
    c'.env.tr.readWaker = true ∧ ConnParked c' := by
  rcases pending_unwoken hinv h hw with ⟨h1, _⟩ | h2
  · exact absurd hm h1
  · exact h2

end Flags

/-! ### The executor -/

/-- What the executor's "STALL" verdict (task `Pending`, not woken, peer releases nothing that wakes
it) means: the peer's next gate is closed on everything written so far, and either the task waits for
its own mutex, or it is parked on a read owing nothing. -/
def StallOut (c' : Conn) : Prop :=
  GateClosed c'.env ∧ c'.env.tr.woken = false ∧
    (c'.env.mutex ≠ none ∨ (c'.env.tr.readWaker = true ∧ ConnParked c'))

theorem fuel_ne_stall : "FUEL" ≠ "STALL" := by decide
theorem ret_ne_stall : "RET" ≠ "STALL" := by decide
theorem panic_ne_stall : "PANIC" ≠ "STALL" := by decide

theorem stall_leaf {c1 : Conn} {t0 : Transport}
    (hoc : Outcome t0 c1.env.tr c1.env.mutex true (ConnParked c1))
    (hw1 : c1.env.tr.woken = false) (hw2 : c1.env.release.1.tr.woken = false) :
    StallOut { c1 with env := c1.env.release.1 } := by
  obtain ⟨hm, hwk, hrw, hsame, hgate⟩ := release_spec c1.env
  refine ⟨hgate, hw2, ?_⟩
  rcases hoc with ⟨_, hmx⟩ | ⟨_, h2, _⟩ | ⟨_, hr, _, hin, ho, hpr, hmid⟩
  · exact Or.inl (by rw [hm]; exact hmx rfl)
  · rw [hw1] at h2; cases h2
  · right
    have hany : c1.env.release.2 = false := by
      cases ha : c1.env.release.2 with
      | false => rfl
      | true => rw [hw2, hw1, ha, hr] at hwk; cases hwk
    obtain ⟨hin', _⟩ := hsame hany
    refine ⟨by rw [hrw, hany]; exact hr, ?_, ho, hpr, hmid⟩
    show c1.env.release.1.tr.input = []
    rw [hin', hin]

/-- **Whenever the wake-accurate executor gives up with "STALL"** — for any stop request — the
final state is as `StallOut` says. -/
theorem runTask_stall : ∀ (fuel : Nat) (c : Conn) (n : Nat) (sa : Option Nat), CInv c →
    (runTask fuel c n sa).2 = "STALL" → StallOut (runTask fuel c n sa).1
  | 0, _, _, _, _, h => absurd h fuel_ne_stall
  | fuel + 1, c, n, sa, hinv, h => by
    rw [runTask_succ] at h ⊢
    have hinv0 := CInv_of_phase (prePoll_phase c n sa) hinv
    have hp := pollConn_inv (connFuel (prePoll c n sa)) _ hinv0
    have hoc := pollConn_oc (connFuel (prePoll c n sa)) _ hinv0
    generalize (prePoll c n sa).env.tr = t0 at hoc
    generalize pollConn (connFuel (prePoll c n sa)) (prePoll c n sa) = x at hp hoc h ⊢
    obtain ⟨c1, res⟩ := x
    cases res with
    | finished => exact absurd h ret_ne_stall
    | panic s => exact absurd h panic_ne_stall
    | pending =>
      revert h
      simp only []
      split
      · exact fun h => runTask_stall fuel _ _ _ hp h
      · rename_i hw1
        have hw1' : c1.env.tr.woken = false := by simpa using hw1
        have hleaf := stall_leaf hoc hw1'
        generalize c1.env.release = y at hleaf ⊢
        obtain ⟨env, any⟩ := y
        simp only [] at hleaf ⊢
        split
        · exact fun h => runTask_stall fuel _ _ _ (CInv_of_phase rfl hp) h
        · rename_i hw2
          have hw2' : env.tr.woken = false := by simpa using hw2
          split
          · split
            · exact fun h => runTask_stall fuel _ _ _ (CInv_of_phase rfl hp) h
            · exact fun _ => hleaf hw2'
          · exact fun _ => hleaf hw2'

section Executor
variable {fuel : Nat} {c c' : Conn} {n : Nat} {sa : Option Nat}

/-- `runTask_stall` for a named result. -/
theorem runTask_stall_out (hinv : CInv c) (h : runTask fuel c n sa = (c', "STALL")) : StallOut c' := by
  have := runTask_stall fuel c n sa hinv (by rw [h])
  rwa [h] at this

/-- **What the peer can conclude from a stall**: the gate of the first segment it still withholds is
not satisfied by everything the task has written. -/
theorem stall_means_gate_closed (hinv : CInv c) (h : runTask fuel c n sa = (c', "STALL"))
    {g : Gate} {bs : Bytes} {rest : List (Gate × Bytes)} (hs : c'.env.segs = (g, bs) :: rest) :
    g.open_ c'.env.tr.wlog = false :=
  (runTask_stall_out hinv h).1 g bs rest hs

/-- The unconditional claim: whenever the executor finds the task unrunnable with no stop request
pending — started from a state with clean flags and a free mutex, as the initial connection state
is — the task owes the client nothing. -/
def runTask_stall_owes_nothing_full : Prop :=
  ∀ (fuel : Nat) (c : Conn) (n : Nat) (c' : Conn), CInv c → c.env.tr.woken = false →
    c.env.tr.readWaker = false → c.env.mutex = none → runTask fuel c n none = (c', "STALL") →
    OwesNothing c'.phase ∧ Processed c'.phase ∧ c'.env.tr.input = []

/-- **The executor-level statement** (the strongest true variant; any stop request, no hypothesis on
the flags): if the executor gives up with "STALL" and the mutex is free, the task is parked on a read
(`readWaker`), owes the client nothing, has processed everything it read, and the transport is
drained.  Excluded: a stall with the `futures::lock::Mutex` taken — within one task that is a handler
that ignored a write error (the failed `StreamWriter` keeps the lock) and then used the `Request` or
another writer: the handler waits for itself (DESIGN §14.3 lists this as not a defect); see
`runTask_stall_owes_nothing_full_false` for the witness. -/
theorem runTask_stall_owes_nothing_partial (hinv : CInv c) (h : runTask fuel c n sa = (c', "STALL"))
    (hm : c'.env.mutex = none) :
    OwesNothing c'.phase ∧ Processed c'.phase ∧ c'.env.tr.input = [] ∧
      c'.env.tr.readWaker = true ∧ MidRecord c'.phase := by
  obtain ⟨_, _, hd⟩ := runTask_stall_out hinv h
  rcases hd with hd | ⟨hr, hin, ho, hp, hmid⟩
  · exact absurd hm hd
  · exact ⟨ho, hp, hin, hr, hmid⟩

end Executor

/-! ### Non-vacuity and the witness -/
section ExecutorExamples

/-- iterate `stepConn` through `n` transitions -/
def stepN : Nat → Conn → Conn
  | 0, c => c
  | n + 1, c => match stepConn c with
    | .next c' => stepN n c'
    | .halt c' _ => c'

def allNext : Nat → Conn → Bool
  | 0, _ => true
  | n + 1, c => match stepConn c with
    | .next c' => allNext n c'
    | .halt _ _ => false

theorem pollConn_stepN (f : Nat) : ∀ (n : Nat) (c : Conn), allNext n c = true →
    pollConn (f + n) c = pollConn f (stepN n c)
  | 0, _, _ => rfl
  | n + 1, c, h => by
    rw [show f + (n + 1) = (f + n) + 1 from rfl, pollConn_succ]
    simp only [allNext, stepN] at h ⊢
    cases hs : stepConn c with
    | next c' => rw [hs] at h; exact pollConn_stepN f n c' h
    | halt c' r => rw [hs] at h; cases h

/-- verdict "STALL", mutex free, waker parked, in a phase accepted by `p` -/
def stalledIn (x : Conn × String) (p : Phase → Bool) : Bool :=
  x.2 == "STALL" && x.1.env.mutex.isNone && x.1.env.tr.readWaker && p x.1.phase

theorem stalledIn_spec {x : Conn × String} {p : Phase → Bool} (h : stalledIn x p = true) :
    x = (x.1, "STALL") ∧ x.1.env.mutex = none ∧ x.1.env.tr.readWaker = true ∧ p x.1.phase = true := by
  obtain ⟨c, s⟩ := x
  simp only [stalledIn, Bool.and_eq_true, beq_iff_eq, Option.isNone_iff_eq_none] at h
  obtain ⟨⟨⟨h1, h2⟩, h3⟩, h4⟩ := h
  exact ⟨by rw [show s = "STALL" from h1], h2, h3, h4⟩

/-! #### A stall in the handler: the peer withholds the request body (`hold`) -/

/-- handler script `[readAll]`; the peer releases its next segment only after 1000 reply bytes -/
def exHS : Conn :=
  { phase := .handler (AReq.new (Str.Parser.fromParser 64 exReq [] 1)) { ops := [.readAll] },
    env := { tr := { input := [], endMode := .eof, rd := [], wr := [], fl := [] },
             segs := [(.bytes 1000, [1])] }, scripts := [] }

theorem exHS_stalls : stalledIn (runTask 3 exHS 0 none) isHandlerPhase = true := by decide +kernel

example : ∃ c', runTask 3 exHS 0 none = (c', "STALL") ∧ OwesNothing c'.phase ∧ Processed c'.phase ∧
    c'.env.tr.input = [] ∧ c'.env.segs = [(.bytes 1000, [1])] ∧
    (Gate.bytes 1000).open_ c'.env.tr.wlog = false := by
  obtain ⟨h, hm, _, _⟩ := stalledIn_spec exHS_stalls
  obtain ⟨ho, hp, hin, _, _⟩ := runTask_stall_owes_nothing_partial (c := exHS) trivial h hm
  have hs : (runTask 3 exHS 0 none).1.env.segs = [(.bytes 1000, [1])] := by decide +kernel
  exact ⟨_, h, ho, hp, hin, hs, stall_means_gate_closed (c := exHS) trivial h hs⟩

/-! #### A stall in `parse_request` after a complete request (KeepConn, end mode `pend`)

The request parser is `done` with a KeepConn responder request; the handler returns at once; `close`
writes the 32-byte epilogue and hands the parser back; `parse_request` parses the (empty) leftover,
has nothing to write, reads — and parks, because the client sends nothing more and keeps the
connection open.  The executor reports "STALL"; the client has received the complete reply. -/

def exK : Conn :=
  { phase := .parseReq { cap := 64, input := [], state := .done exReq, maxConns := 1 } (.writing [] true),
    env := { tr := { input := [], endMode := .pend, rd := [], wr := [], fl := [] } },
    scripts := [([.ret (.complete 0)], true)] }

def rpK : Req.Parser := { cap := 64, input := [], state := .header, maxConns := 1 }

theorem rpK_parse : rpK.parse [] = (rpK, some { done := false, output := [] }) := by
  unfold Req.Parser.parse
  simp only [rpK, List.append_nil, run_header_nil]
  decide

/-- the state in which the poll re-enters `parse_request` (after handler and `close`) -/
def exKS : Conn := stepN 3 (prePoll exK 0 none)
/-- … and in which it issues its read -/
def exKR : Conn := { exKS with phase := .parseReq rpK .reading }

theorem exKS_phase : exKS.phase = .parseReq rpK .start := by
  have h : (match exKS.phase with
      | .parseReq rp .start => decide (rp = rpK)
      | _ => false) = true := by decide +kernel
  cases hph : exKS.phase with
  | parseReq rp sub =>
    rw [hph] at h
    cases sub with
    | start => simp only [decide_eq_true_eq] at h; rw [h]
    | reading => cases h
    | writing _ _ => cases h
  | handler _ _ => rw [hph] at h; cases h
  | closing _ _ _ _ => rw [hph] at h; cases h
  | finished => rw [hph] at h; cases h

theorem exK_poll : pollConn (connFuel (prePoll exK 0 none)) (prePoll exK 0 none) =
    pollConn (connFuel (prePoll exK 0 none) - 5) exKR := by
  obtain ⟨K, hK⟩ : ∃ K, connFuel (prePoll exK 0 none) = (K + 3) + 3 :=
    ⟨connFuel (prePoll exK 0 none) - 6, by unfold connFuel; omega⟩
  have h5 : connFuel (prePoll exK 0 none) - 5 = K + 1 := by omega
  rw [h5, hK, pollConn_stepN (K + 3) 3 _ (by decide +kernel)]
  have h1 := C08.parse_before_read (K + 2) exKS _ _ _ exKS_phase (by decide +kernel) rpK_parse
  have h2 := C08.output_written_before_read (K + 1)
    { exKS with phase := .parseReq rpK (.writing [] false) } rpK [] rfl (by decide +kernel) []
    exKS.env.tr rfl
  exact h1.trans h2

theorem exK_stalls : stalledIn (runTask 3 exK 0 none)
    (fun | .parseReq _ .reading => true | _ => false) = true := by
  rw [runTask_succ, exK_poll]
  decide +kernel

example : CInv exK := ⟨trivial, nofun⟩

example : ∃ c', runTask 3 exK 0 none = (c', "STALL") ∧ OwesNothing c'.phase ∧ Processed c'.phase ∧
    c'.env.tr.input = [] ∧ c'.env.tr.wlog.length = 32 := by
  obtain ⟨h, hm, _, _⟩ := stalledIn_spec exK_stalls
  obtain ⟨ho, hp, hin, _, _⟩ := runTask_stall_owes_nothing_partial (c := exK) ⟨trivial, nofun⟩ h hm
  refine ⟨_, h, ho, hp, hin, ?_⟩
  rw [runTask_succ, exK_poll]
  decide +kernel

/-! #### The witness against the unconditional claim: a handler that waits for its own lock

Two `StreamWriter`s; the first write fails (transport error), the handler ignores the error — the
failed writer keeps the `futures::lock::Mutex` — and writes with the second writer, whose lock future
finds the mutex taken.  Nobody will ever wake the task: the executor reports "STALL", the waker is not
parked on a read, and the operation at the head of the script is a write. -/
def exL : Conn :=
  { phase := .handler (AReq.new (Str.Parser.fromParser 64 exReq [] 1))
      { ops := [.open_ 6, .open_ 6, .writeAll 0 [1], .writeAll 1 [2]], propagate := false },
    env := { tr := { input := [], endMode := .eof, rd := [], wr := [.err], fl := [] } }, scripts := [] }

theorem exL_stalls : (runTask 3 exL 0 none).2 = "STALL" ∧
    (runTask 3 exL 0 none).1.env.tr.readWaker = false ∧ (runTask 3 exL 0 none).1.env.tr.woken = false ∧
    (runTask 3 exL 0 none).1.env.mutex = some 1 := by decide +kernel

theorem exL_head : (match (runTask 3 exL 0 none).1.phase with
    | .handler _ h => h.ops.head? == some (.writeAll 1 [2])
    | _ => false) = true := by decide +kernel

theorem runTask_stall_owes_nothing_full_false : ¬ runTask_stall_owes_nothing_full := by
  intro hfull
  have h : runTask 3 exL 0 none = ((runTask 3 exL 0 none).1, "STALL") := by
    rw [← exL_stalls.1]
  obtain ⟨ho, _, _⟩ := hfull 3 exL 0 _ trivial rfl rfl rfl h
  have hh := exL_head
  cases hph : (runTask 3 exL 0 none).1.phase with
  | handler r hs =>
    rw [hph] at ho hh
    obtain ⟨_, op, rest, hops, hr⟩ := ho
    simp only [] at hh
    rw [hops] at hh
    simp only [List.head?_cons, beq_iff_eq, Option.some.injEq] at hh
    rw [hh] at hr; cases hr
  | parseReq _ _ => rw [hph] at hh; cases hh
  | closing _ _ _ _ => rw [hph] at hh; cases hh
  | finished => rw [hph] at hh; cases hh

/-- the same witness against `pending_unwoken_parked_full`: the first poll of `exL` -/
theorem pending_unwoken_parked_full_false : ¬ pending_unwoken_parked_full := by
  intro hfull
  have hc : (match pollConn 100 exL with
      | (c', .pending) => !c'.env.tr.woken && !c'.env.tr.readWaker
      | _ => false) = true := by decide +kernel
  cases hp : pollConn 100 exL with
  | mk c' res =>
    rw [hp] at hc
    cases res with
    | pending =>
      simp only [Bool.and_eq_true, Bool.not_eq_true'] at hc
      have := hfull 100 exL c' trivial rfl rfl hp hc.1
      rw [hc.2] at this; cases this
    | finished => cases hc
    | panic s => cases hc

/-- … and `runTask_stall` says exactly what happened there: the mutex is taken. -/
example : StallOut (runTask 3 exL 0 none).1 ∧ (runTask 3 exL 0 none).1.env.mutex ≠ none :=
  ⟨runTask_stall 3 exL 0 none trivial exL_stalls.1, by rw [exL_stalls.2.2.2]; exact nofun⟩

end ExecutorExamples

end Fcgi.C08Inv
