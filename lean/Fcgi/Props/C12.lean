import Fcgi.Proofs.RunLoop
/-!
# C12 — transport EOF and transport errors (async half)

Model: `Model/Async.lean`, `Model/RunLoop.lean`.  Helper lemmas: `Proofs/RunLoop.lean`.

## 9. `terminates` — fuel is never the reason for a result
The loops of the model carry a `fuel` argument whose exhaustion is reported as
`.panic "model: … fuel exhausted"` (`Run.fuelMsgs`).  With the fuel their callers pass, that branch
is unreachable: each iteration consumes at least one byte of a finite resource (the buffer for the
write loops, the pending transport input for the read loops).  Every `.panic s` that the async
functions can return is a modelled panic site of the Rust (`Run.RealSite s`), never a fuel guard.
For the handler interpreter this is proved for scripts without `readAll`
(`handlerPoll_terminates`, cost = one unit per op plus one per byte of a `writeAll`); for the
connection task `pollConn_fuel_stable` shows that the fuel value is irrelevant once a result other
than the guard is returned (the general bound on the number of phase transitions per poll is not
proved: it needs a per-request lower bound on consumed input).

## 10. EOF / errors
* `eof_in_preamble_no_handler`, `read_error_in_preamble_no_handler`
* `eof_mid_stream`, `eof_mid_stream_step`
* `eof_in_close`, `eof_in_close_step`
* `fail_stop_*`, `write_failure_finishes_*`
-/
namespace Fcgi.C12
open Fcgi Fcgi.Req Fcgi.Str Fcgi.Async Fcgi.Run

/-! ## 9. Termination: the fuel guards are unreachable -/

/-- `write_all`: with the fuel the callers pass (`buf.length + 1`) it never panics at all. -/
theorem writeAllLoop_terminates (buf : Bytes) (t : Transport) :
    ∀ s, (writeAllLoop (buf.length + 1) buf t).2.2 ≠ .panic s := by
  intro s
  cases h : writeAllLoop (buf.length + 1) buf t with
  | mk rest x => obtain ⟨t', res⟩ := x; exact (writeAllLoop_spec _ _ _ h).2.2.2 (by omega) s

/-- `poll_output`'s loop: with `output.length + 1` fuel it never panics. -/
theorem outLoop_terminates (sp : Str.Parser) (t : Transport) :
    ∀ s, (outLoop (sp.output.length + 1) sp t).2.2 ≠ .panic s := by
  intro s
  cases h : outLoop (sp.output.length + 1) sp t with
  | mk sp' x => obtain ⟨t', res⟩ := x; exact (outLoop_spec _ _ _ h).2.2.2.2 (by omega) s

/-- `StreamWriter::poll_write`'s vectored loop: the remaining header, payload and padding bytes
bound the iterations; the only panics are the two modelled sites. -/
theorem writeLoop_terminates (w : Writer) (buf : Bytes) (t : Transport) {w' : Writer} {t' : Transport}
    {s : String}
    (h : writeLoop (8 + w.contentLen + w.padLen + 1) w w.headBytes buf t = (w', t', .panic s)) :
    s ∉ fuelMsgs := by
  have := writeLoop_fuel _ _ _ _ _ h (by rw [headBytes_length]; omega)
  rcases this with rfl | rfl <;> decide

/-- `poll_input`'s loop with the fuel `poll_input` passes. -/
theorem inLoop_terminates (r : AReq) (new : Bytes) (dest : Option Nat) (m : MutexSt) (t : Transport)
    {r' : AReq} {m' : MutexSt} {t' : Transport} {s : String}
    (h : inLoop (t.input.length + 2) r new dest m t = (r', m', t', .panic s)) :
    RealSite s ∧ s ∉ fuelMsgs := by
  have := inLoop_fuel h (by omega)
  exact ⟨this, this.not_fuel⟩

/-- `record_boundary()`'s loop with the fuel `close` passes. -/
theorem boundaryLoop_terminates (sp : Str.Parser) (new : Bytes) (t : Transport)
    {sp' : Str.Parser} {t' : Transport} {s : String}
    (h : boundaryLoop (t.input.length + 2) sp new t = (sp', t', .panic s)) :
    RealSite s ∧ s ∉ fuelMsgs := by
  have := (boundaryLoop_spec _ _ _ _ h).2.2.1 (by omega) s rfl
  exact ⟨this, this.not_fuel⟩

/-- The poll functions built on these loops never report a fuel guard. -/
theorem poll_functions_terminate :
    (∀ (r : AReq) m t r' m' t' s, r.pollOutput m t = (r', m', t', .panic s) → s ∉ fuelMsgs) ∧
    (∀ (r : AReq) dest m t r' m' t' s, r.pollInput dest m t = (r', m', t', .panic s) → s ∉ fuelMsgs) ∧
    (∀ (r : AReq) st m t r' b m' t' s, r.writeablePoll st m t = (r', b, m', t', .panic s) → s ∉ fuelMsgs) ∧
    (∀ (w : Writer) me buf m t w' m' t' s, w.pollWrite me buf m t = (w', m', t', .panic s) → s ∉ fuelMsgs) ∧
    (∀ (w : Writer) me m t w' m' t' s, w.pollFlush me m t = (w', m', t', .panic s) → s ∉ fuelMsgs) ∧
    (∀ r cs status alive m t r' cs' m' t' s,
      closePoll r cs status alive m t = (r', cs', m', t', .panic s) →
        s ∉ fuelMsgs ∧ s ≠ "model: unreachable close state") := by
  refine ⟨?_, ?_, ?_, ?_, ?_, ?_⟩
  · intro r m t r' m' t' s h
    rw [(pollOutput_spec h).2.2.2.2.2 s rfl]; decide
  · intro r dest m t r' m' t' s h
    exact ((pollInput_spec h).2 s rfl).not_fuel
  · intro r st m t r' b m' t' s h
    exact ((writeablePoll_spec h).2 s rfl).not_fuel
  · intro w me buf m t w' m' t' s h
    exact (pollWrite_panic h).not_fuel
  · intro w me m t w' m' t' s h
    exact (pollFlush_panic h).not_fuel
  · intro r cs status alive m t r' cs' m' t' s h
    exact ⟨(closePoll_panic h).not_fuel, (closePoll_panic h).not_unreachable⟩

/-- The handler interpreter, for scripts without `readAll`: one unit of fuel per op plus one per byte
of a `writeAll` is enough; every panic is then a panic site of the Rust. -/
theorem handlerPoll_terminates (fuel : Nat) (r : AReq) (h : HState) (e : Env)
    {r' : AReq} {h' : HState} {e' : Env} {s : String}
    (hp : handlerPoll fuel r h e = (r', h', e', .panic s)) (hn : noReadAll h.ops)
    (hf : scriptCost h < fuel) : RealSite s ∧ s ∉ fuelMsgs :=
  ⟨handlerPoll_fuel _ _ _ _ hp hn hf, (handlerPoll_fuel _ _ _ _ hp hn hf).not_fuel⟩

/-- In particular with the fuel `pollConn` passes (`≥ 1000`) for fresh scripts of total cost `< 1000`. -/
theorem handlerPoll_terminates_pollConn (r : AReq) (ops : List HOp) (p : Bool) (e : Env)
    {r' : AReq} {h' : HState} {e' : Env} {s : String}
    (hp : handlerPoll (handlerFuel e r) r { ops := ops, propagate := p } e = (r', h', e', .panic s))
    (hn : noReadAll ops) (hf : (ops.map opCost).sum < 1000) : s ∉ fuelMsgs := by
  refine (handlerPoll_terminates _ _ _ _ hp hn ?_).2
  rw [scriptCost_fresh]; unfold handlerFuel; omega

/-- The connection task: fuel only matters through the guard — once a poll returns anything else,
every larger fuel gives the same result. -/
theorem pollConn_fuel_stable (f : Nat) (c c' : Conn) (r : PRes) (h : pollConn f c = (c', r))
    (hne : r ≠ .panic "model: connection fuel exhausted") (k : Nat) : pollConn (f + k) c = (c', r) :=
  Run.pollConn_fuel_stable f c h hne k

/-! ## 10. EOF and transport errors -/

/-- End of input while waiting for (the rest of) a request preamble: the task finishes; no handler
is started, nothing is written. -/
theorem eof_in_preamble_no_handler (fuel : Nat) (c : Conn) (rp : Req.Parser) (t : Transport)
    (hp : c.phase = .parseReq rp .reading) (hs : c.stop = false)
    (hr : c.env.tr.read rp.free = (t, .ready (.ok []))) :
    pollConn (fuel + 1) c = ({ c with phase := .finished, env := { c.env with tr := t } }, .finished) ∧
    t.wlog = c.env.tr.wlog ∧
    ∃ ev, t.events = c.env.tr.events ++ ev ∧ hsCount ev = 0 := by
  obtain ⟨phase, env, scripts, stop⟩ := c
  simp only at hp hs hr; subst hp; subst hs
  refine ⟨?_, (read_ok hr).2.1, ?_⟩
  · rw [pollConn_succ]; simp only [stepConn, hr, Bool.false_eq_true, if_false]; rfl
  · obtain ⟨n, e, q⟩ := (read_le hr).ev
    exact ⟨n, e, hsCount_eq_zero q⟩

/-- Likewise for a transport read error. -/
theorem read_error_in_preamble_no_handler (fuel : Nat) (c : Conn) (rp : Req.Parser) (t : Transport)
    (e : IoErr) (hp : c.phase = .parseReq rp .reading) (hs : c.stop = false)
    (hr : c.env.tr.read rp.free = (t, .ready (.error e))) :
    pollConn (fuel + 1) c = ({ c with phase := .finished, env := { c.env with tr := t } }, .finished) ∧
    t.wlog = c.env.tr.wlog ∧
    ∃ ev, t.events = c.env.tr.events ++ ev ∧ hsCount ev = 0 := by
  obtain ⟨phase, env, scripts, stop⟩ := c
  simp only at hp hs hr; subst hp; subst hs
  refine ⟨?_, ?_, ?_⟩
  · rw [pollConn_succ]; simp only [stepConn, hr, Bool.false_eq_true, if_false]; rfl
  · have := read_wlog env.tr rp.free; rwa [hr] at this
  · obtain ⟨n, e, q⟩ := (read_le hr).ev
    exact ⟨n, e, hsCount_eq_zero q⟩

/-- When does the scripted transport report end of input: nothing pending, the peer holds nothing
back, the stream end is an EOF, and the next scripted answer is a data answer. -/
theorem transport_eof (t : Transport) (cap : Nat) (hc : cap ≠ 0) (hi : t.input = [])
    (hh : t.hold = false) (he : t.endMode = .eof)
    (ha : t.rd.head? ≠ some .pending ∧ t.rd.head? ≠ some .err) :
    (t.read cap).2 = .ready (.ok []) := by
  unfold Transport.read
  have hc' : (cap == 0) = false := by simpa using hc
  simp only [hc', Bool.false_eq_true, if_false]
  cases hrd : t.rd with
  | nil => simp [hi, hh, he]
  | cons a rest =>
    rw [hrd] at ha
    cases a <;> simp_all

/-- One iteration of `poll_input`'s loop: a transport read of 0 bytes (after the parser asked for
more input) is `UnexpectedEof`; the result is the state right after that read. -/
theorem eof_mid_stream_step (fuel : Nat) (r : AReq) (new : Bytes) (dest : Option Nat) (m : MutexSt)
    (t : Transport) (sp : Str.Parser) (st : Status) (r1 : AReq) (m1 : MutexSt) (t1 t2 : Transport)
    (hparse : r.sp.parse new dest = (sp, .ok st)) (hmore : (st.streamEnd || decide (st.stream > 0)) = false)
    (hout : AReq.pollOutput { r with sp := sp.compress } m t = (r1, m1, t1, .ready))
    (hread : t1.read r1.sp.free = (t2, .ready (.ok []))) :
    inLoop (fuel + 1) r new dest m t = (r1, m1, t2, .err .unexpectedEof) := by
  have hout' : AReq.pollOutput { sp := sp.compress, lock := r.lock, writeable := r.writeable } m t
      = (r1, m1, t1, .ready) := hout
  simp only [inLoop, hparse, hmore, Bool.false_eq_true, if_false, hout', hread]

/-- `poll_input` returns `Ok(0)` only when the parser reported the end of the stream; it never turns
an empty transport read into a successful empty read. -/
theorem eof_mid_stream (fuel : Nat) (r : AReq) (new : Bytes) (dest : Option Nat) (m : MutexSt)
    (t : Transport) {r' : AReq} {m' : MutexSt} {t' : Transport} {d : Bytes}
    (h : inLoop fuel r new dest m t = (r', m', t', .ready 0 d)) :
    ∃ (sp0 : Str.Parser) (nw : Bytes) (sp1 : Str.Parser) (st : Status),
      sp0.parse nw dest = (sp1, .ok st) ∧ st.streamEnd = true := by
  rcases (inLoop_spec _ _ _ _ _ _ h).2.2 0 d rfl with h0 | h0
  · omega
  · exact h0

/-- `record_boundary()`: a transport read of 0 bytes is `UnexpectedEof`. -/
theorem eof_in_close_step (fuel : Nat) (sp : Str.Parser) (t t2 : Transport)
    (hb : sp.isRecordBoundary = false) (hpar : sp.parsed = [])
    (hread : t.read sp.compress.free = (t2, .ready (.ok []))) :
    boundaryLoop.cont sp t fuel = (sp.compress, t2, .err .unexpectedEof) := by
  simp [boundaryLoop.cont, hb, hpar, hread]

/-- If `record_boundary()` inside `close` fails (e.g. with `UnexpectedEof`), `close` returns that
error at once: nothing is written in this phase — no epilogue. -/
theorem eof_in_close (r : AReq) (st : CloseSt) (status : ExitStatus) (alive : Nat) (m : MutexSt)
    (t : Transport) (r1 : AReq) (m1 : MutexSt) (t1 : Transport) (st1 : CloseSt) (out : CloseOut)
    (h1 : closeP1 r st m t = .ok (r1, m1, t1, st1)) (h2 : closeP2 r1 m1 t1 st1 = .error out) :
    closePoll r st status alive m t = out ∧ out.2.2.2.1.wlog = t1.wlog := by
  obtain ⟨r', cs', m', t', res⟩ := out
  refine ⟨?_, (closeP2_error h2).1⟩
  rw [closePoll_eq', h1]
  simp only [closeFrom2, h2]

/-- The EOF case concretely: the parser is not at a record boundary, the transport is at EOF. -/
theorem eof_in_close_unexpected (sp : Str.Parser) (t t2 : Transport)
    (hread : t.read sp.free = (t2, .ready (.ok []))) :
    closeBoundary sp true t = (sp, t2, .err .unexpectedEof) := by
  simp [closeBoundary, hread]

/-! ### fail-stop: after a failed write no further write is issued -/

theorem fail_stop_writeAll_error (fuel : Nat) (buf : Bytes) (t t1 : Transport) (e : IoErr)
    (hne : buf ≠ []) (hw : t.write buf = (t1, .ready (.error e))) :
    writeAllLoop (fuel + 1) buf t = (buf, t1, .err e) := by
  have : buf.isEmpty = false := by cases buf <;> simp_all
  simp [writeAllLoop, this, hw]

theorem fail_stop_writeAll_zero (fuel : Nat) (buf : Bytes) (t t1 : Transport)
    (hne : buf ≠ []) (hw : t.write buf = (t1, .ready (.ok 0))) :
    writeAllLoop (fuel + 1) buf t = (buf, t1, .err .writeZero) := by
  have : buf.isEmpty = false := by cases buf <;> simp_all
  simp [writeAllLoop, this, hw]

theorem fail_stop_outLoop_error (fuel : Nat) (sp : Str.Parser) (t t1 : Transport) (e : IoErr)
    (hne : sp.output ≠ []) (hw : t.write sp.output = (t1, .ready (.error e))) :
    outLoop (fuel + 1) sp t = (sp, t1, .err e) := by
  have : sp.output.isEmpty = false := by cases h : sp.output <;> simp_all
  simp [outLoop, this, hw]

theorem fail_stop_outLoop_zero (fuel : Nat) (sp : Str.Parser) (t t1 : Transport)
    (hne : sp.output ≠ []) (hw : t.write sp.output = (t1, .ready (.ok 0))) :
    outLoop (fuel + 1) sp t = (sp, t1, .err .writeZero) := by
  have : sp.output.isEmpty = false := by cases h : sp.output <;> simp_all
  simp [outLoop, this, hw]

theorem fail_stop_writeLoop_error (fuel : Nat) (w : Writer) (head buf : Bytes) (t t1 : Transport) (e : IoErr)
    (hw : w.isWriting = true) (hc : w.contentLen ≤ buf.length)
    (hv : t.writeV [head.drop w.headIdx, buf.drop (buf.length - w.contentLen), zeros w.padLen] "V"
      = (t1, .ready (.error e))) :
    writeLoop (fuel + 1) w head buf t = (w, t1, .err e) := by
  have : ¬ w.contentLen > buf.length := by omega
  simp [writeLoop, hw, this, hv]

theorem fail_stop_writeLoop_zero (fuel : Nat) (w : Writer) (head buf : Bytes) (t t1 : Transport)
    (hw : w.isWriting = true) (hc : w.contentLen ≤ buf.length)
    (hv : t.writeV [head.drop w.headIdx, buf.drop (buf.length - w.contentLen), zeros w.padLen] "V"
      = (t1, .ready (.ok 0))) :
    writeLoop (fuel + 1) w head buf t = (w, t1, .err .writeZero) := by
  have : ¬ w.contentLen > buf.length := by omega
  simp [writeLoop, hw, this, hv]

/-- An error result of `write_all` means the last transport call of the poll failed: exactly a prefix
was written before, and what `write_all` returns as unwritten is the rest. -/
theorem fail_stop_writeAll (fuel : Nat) (buf : Bytes) (t : Transport) {rest : Bytes} {t' : Transport}
    {e : IoErr} (h : writeAllLoop fuel buf t = (rest, t', .err e)) :
    ((e = .transportWrite ∨ e = .connectionAborted) ∨ e = .writeZero) ∧
      ∃ done, buf = done ++ rest ∧ t'.wlog = t.wlog ++ done :=
  ⟨writeAllLoop_err _ _ _ h, (writeAllLoop_spec _ _ _ h).1⟩

/-- `parse_request`'s `write_all` fails ⇒ the connection task finishes (no handler is started). -/
theorem write_failure_finishes_parse_request (fuel : Nat) (c : Conn) (rp : Req.Parser) (rest : Bytes)
    (done : Bool) (rest' : Bytes) (t : Transport) (e : IoErr)
    (hp : c.phase = .parseReq rp (.writing rest done)) (hs : c.stop = false)
    (hw : writeAllLoop (rest.length + 1) rest c.env.tr = (rest', t, .err e)) :
    pollConn (fuel + 1) c = ({ c with phase := .finished, env := { c.env with tr := t } }, .finished) := by
  obtain ⟨phase, env, scripts, stop⟩ := c
  simp only at hp hs hw; subst hp; subst hs
  rw [pollConn_succ]; simp only [stepConn, hw, Bool.false_eq_true, if_false]; rfl

/-- `close` fails (a failed write, an EOF, writers alive, `ConnectionReset`, …) ⇒ the connection
task finishes in the state `close` left. -/
theorem close_failure_finishes (fuel : Nat) (c : Conn) (r : AReq) (cs : CloseSt) (status : ExitStatus)
    (alive : Nat) (r' : AReq) (cs' : CloseSt) (m : MutexSt) (t : Transport) (e : IoErr)
    (hp : c.phase = .closing r cs status alive)
    (hc : closePoll r cs status alive c.env.mutex c.env.tr = (r', cs', m, t, .err e)) :
    pollConn (fuel + 1) c =
      ({ c with phase := .finished, env := { c.env with mutex := m, tr := t } }, .finished) := by
  obtain ⟨phase, env, scripts, stop⟩ := c
  simp only at hp hc; subst hp
  rw [pollConn_succ]; simp only [stepConn, hc]; rfl

/-! ## 11. A transport error is never mistaken for "the client aborted this request"

`Token::run` turns a handler `Err` into `close(ABORT)` — which writes the epilogue — only for the
library's own `AbortRequest` signal (`IoErr.abortRequest`: kind `ConnectionAborted` *carrying*
`parser::Error::AbortRequest`).  A transport may fail with kind `ConnectionAborted` by itself
(`Transport.abortKind`, the `ek=a` runs of the harness); on the pinned tree the two were told apart by
kind alone and a propagated transport failure of that kind was followed by further writes (known
finding, fixed).  These theorems are what keeps that fixed in the model. -/

theorem transport_error_kinds_not_abort (t : Transport) :
    t.rdErr ≠ .abortRequest ∧ t.wrErr ≠ .abortRequest ∧ t.flErr ≠ .abortRequest := by
  unfold Transport.rdErr Transport.wrErr Transport.flErr
  refine ⟨?_, ?_, ?_⟩ <;> split <;> decide

theorem read_error_not_abort {t t' : Transport} {cap : Nat} {e : IoErr}
    (h : t.read cap = (t', .ready (.error e))) : e ≠ .abortRequest := by
  unfold Transport.read at h
  repeat' (split at h)
  all_goals (try dsimp only at h)
  repeat' (split at h)
  all_goals first
    | (cases h; exact (transport_error_kinds_not_abort _).1)
    | (cases h; done)

theorem write_error_not_abort {t : Transport} {sl : List Bytes} {tag : String} {e : IoErr}
    (h : (t.writeV sl tag).2 = .ready (.error e)) : e ≠ .abortRequest :=
  (writeV_err_kind t sl tag e h).ne_abort

theorem flush_error_not_abort {t t' : Transport} {e : IoErr}
    (h : t.flush = (t', .ready (.error e))) : e ≠ .abortRequest := by
  unfold Transport.flush at h
  repeat' (split at h)
  all_goals (try dsimp only at h)
  repeat' (split at h)
  all_goals first
    | (cases h; exact (transport_error_kinds_not_abort _).2.2)
    | (cases h; done)

/-- A handler that propagates an error which is not the library's abort signal — in particular any
transport failure, whatever its kind — ends the connection task in that very step: the phase becomes
`finished` (never `closing`), and the step writes nothing. -/
theorem propagated_error_finishes (fuel : Nat) (c : Conn) (r : AReq) (h : HState) (r' : AReq) (h' : HState)
    (e : Env) (x : IoErr) (hp : c.phase = .handler r h)
    (hh : handlerPoll ((handlerFuel c.env r + scriptOf c)) r h c.env = (r', h', e, .done (.error x)))
    (hx : x ≠ .abortRequest) :
    pollConn (fuel + 1) c = ({ c with phase := .finished, env := e.ev s!"HE(err:{showIo x})" }, .finished) ∧
    (e.ev s!"HE(err:{showIo x})").tr.wlog = e.tr.wlog := by
  obtain ⟨phase, env, scripts, stop⟩ := c
  simp only at hp hh; subst hp
  refine ⟨?_, by simp [Env.ev, Transport.ev]⟩
  rw [pollConn_succ]
  simp only [stepConn]
  simp only [handlerFuel, scriptOf] at hh
  rw [hh]
  simp [hx]
  rfl

/-- … and a failed transport write is such an error. -/
theorem propagated_write_failure_finishes (fuel : Nat) (c : Conn) (r : AReq) (h : HState) (r' : AReq)
    (h' : HState) (e : Env) (x : IoErr) (hp : c.phase = .handler r h)
    (hh : handlerPoll ((handlerFuel c.env r + scriptOf c)) r h c.env = (r', h', e, .done (.error x)))
    (hk : x = .transportWrite ∨ x = .connectionAborted ∨ x = .writeZero) :
    pollConn (fuel + 1) c = ({ c with phase := .finished, env := e.ev s!"HE(err:{showIo x})" }, .finished) ∧
    (e.ev s!"HE(err:{showIo x})").tr.wlog = e.tr.wlog :=
  propagated_error_finishes fuel c r h r' h' e x hp hh (by rcases hk with rfl | rfl | rfl <;> decide)

/-- In `close`, a failure of `writeable()` is swallowed only for the library's abort signal. -/
theorem close_swallows_only_abort {r : AReq} {cs : CloseSt} {m : MutexSt} {t : Transport}
    {x : CloseOut} (h : closeP1 r cs m t = .error x) :
    x.2.2.2.2 ≠ .err .abortRequest := by
  rcases (closeP1_error h).2.2 with hp | ⟨e, hp, hne⟩ | ⟨s, hp, _⟩
  · rw [hp]; simp
  · rw [hp]; intro hc; cases hc; exact hne rfl
  · rw [hp]; simp

/-! ## Concrete instances (non-vacuity) -/

def exReq : Request := { id := 1, role := 1, flags := 1, env := [] }
/-- a transport at end of input -/
def exTrEof : Transport := { input := [], endMode := .eof, rd := [], wr := [], fl := [] }
def exAReq : AReq := AReq.new (Str.Parser.fromParser 64 exReq [] 1)

/-- waiting for a request, the peer closes the connection -/
def exEofIdle : Conn :=
  { phase := .parseReq (Req.Parser.new 64 1) .reading, env := { tr := exTrEof }, scripts := [] }

example : ∃ t, exEofIdle.env.tr.read (Req.Parser.new 64 1).free = (t, .ready (.ok [])) := ⟨_, rfl⟩
example : ∃ c', pollConn 5 exEofIdle = (c', .finished) ∧ c'.env.tr.wlog = [] := by
  obtain ⟨t, ht⟩ : ∃ t, exEofIdle.env.tr.read (Req.Parser.new 64 1).free = (t, .ready (.ok [])) := ⟨_, rfl⟩
  obtain ⟨h1, h2, _⟩ := eof_in_preamble_no_handler 4 exEofIdle _ t rfl rfl ht
  exact ⟨_, h1, h2⟩

/-- the parser of `exAReq` has nothing buffered: `parse(0)` asks for more input -/
theorem exParse : exAReq.sp.parse [] (some 4) =
    (exAReq.sp, .ok { stream := 0, streamEnd := false, output := 0, delivered := [] }) := by
  unfold Str.Parser.parse
  rw [loop]
  rfl

/-- mid-stream EOF: the handler's `read` fails with `UnexpectedEof` -/
example : ∃ r1 m1 t2, inLoop 3 exAReq [] (some 4) none exTrEof = (r1, m1, t2, .err .unexpectedEof) :=
  ⟨_, _, _, eof_mid_stream_step 2 exAReq [] (some 4) none exTrEof _ _ _ _ _ _ exParse rfl rfl rfl⟩

/-- EOF while `close` waits for the rest of a record: `UnexpectedEof`, no epilogue -/
example : ∃ t2, closeBoundary exAReq.sp true exTrEof = (exAReq.sp, t2, .err .unexpectedEof) :=
  ⟨_, eof_in_close_unexpected _ _ _ rfl⟩
example : ∃ r' m' t', closePoll exAReq .inBoundary (.complete 0) 0 none exTrEof
    = (r', .inBoundary, m', t', .err .unexpectedEof) ∧ t'.wlog = [] := ⟨_, _, _, rfl, rfl⟩

/-- a failing transport write: `write_all` stops after that one call; the task finishes -/
example : ∃ t', writeAllLoop 3 [1, 2] { exTrEof with wr := [.err, .all] } = ([1, 2], t', .err .transportWrite) ∧
    t'.wr = [.all] ∧ t'.wlog = [] := ⟨_, rfl, rfl, rfl⟩
example : ∃ t', writeAllLoop 3 [1, 2] { exTrEof with wr := [.n 1, .zero, .all] } = ([2], t', .err .writeZero) ∧
    t'.wr = [.all] ∧ t'.wlog = [1] := ⟨_, rfl, rfl, rfl⟩
example : ∃ c', pollConn 5
    { phase := .parseReq (Req.Parser.new 64 1) (.writing [1, 2] true),
      env := { tr := { exTrEof with wr := [.err] } }, scripts := [] } = (c', .finished) ∧
    hsCount c'.env.tr.events = 0 := ⟨_, rfl, by decide⟩

/-! ## The unrestricted handler-fuel claim is false (`_full` / `_partial`) -/

/-- The unrestricted claim for the handler interpreter with the SCRIPT-INDEPENDENT fuel `handlerFuel e r` (which
is what `pollConn` passed before the model's handler fuel got the term `scriptCost h`): the fuel guard is never hit,
whatever the script.  For the fuel `pollConn` passes now, `handlerFuel e r + scriptCost h`, the claim is a THEOREM:
`C07SF.handlerPoll_terminates_actual_holds` (`Props/C07ScriptFuel.lean`). -/
def handlerPoll_terminates_full : Prop :=
  ∀ (r : AReq) (h : HState) (e : Env) (r' : AReq) (h' : HState) (e' : Env) (s : String),
    handlerPoll (handlerFuel e r) r h e = (r', h', e', .panic s) → s ∉ fuelMsgs

/-- It is false for that fuel: `1000 + 4·(pending input) + 4·(parser buffer size)`, a script of one more
trivial op than that on an idle connection exhausts it.  (A limit of the harness scripts, not of the Rust: the `_partial` form
`handlerPoll_terminates` covers every script whose cost is below the fuel.) -/
theorem handlerPoll_terminates_full_false : ¬ handlerPoll_terminates_full := by
  intro h
  have key : ∀ (n : Nat) (r : AReq) (e : Env), ∃ r' h' e',
      handlerPoll n r { ops := List.replicate (n + 1) (.consume 0) } e =
        (r', h', e', .panic "model: handler fuel exhausted") := by
    intro n
    induction n with
    | zero => intro r e; exact ⟨_, _, _, rfl⟩
    | succ k ih =>
      intro r e
      obtain ⟨r', h', e', hk⟩ := ih { r with sp := r.sp.consumeStream 0 } e
      exact ⟨r', h', e', by rw [List.replicate_succ]; simp only [handlerPoll]; exact hk⟩
  obtain ⟨r', h', e', hp⟩ := key (handlerFuel { tr := exTrEof } exAReq) exAReq { tr := exTrEof }
  exact h exAReq { ops := List.replicate (handlerFuel { tr := exTrEof } exAReq + 1) (.consume 0) } { tr := exTrEof }
    r' h' e' _ hp (by decide)

/-- the `_partial` form: scripts without `readAll` whose cost is below the fuel -/
theorem handlerPoll_terminates_partial (fuel : Nat) (r : AReq) (h : HState) (e : Env)
    {r' : AReq} {h' : HState} {e' : Env} {s : String}
    (hp : handlerPoll fuel r h e = (r', h', e', .panic s)) (hn : noReadAll h.ops)
    (hf : scriptCost h < fuel) : RealSite s ∧ s ∉ fuelMsgs :=
  handlerPoll_terminates fuel r h e hp hn hf

end Fcgi.C12
