import Fcgi.Proofs.E2EEcho
import Fcgi.Props.C07Writers4
/-!
# C07 — the ECHO Responder end to end: writes interleaved with reads

The handler `open Stdout (and Stderr); loop { read(1 byte); if none → break; write_all(that byte) }; return st`.

HOW IT IS A SCRIPT.  The model's handler scripts have no data flow (`writeAll i data` carries its data), so the echo
handler for a request with Stdin content `content` is the unrolling `E2E.echoScript content st`: for each content
byte `b`, in order, `read(1); write_all([b])`, then one more `read(1)`, drop, return — `|content| + 1` reads,
`|content|` writes, interleaved.  That this script is an echo on EVERY run — each `read(1)` returns exactly the byte
the script then writes, and the last one returns 0 — is what the proof establishes poll by poll (`E2E.read1_step`,
`E2E.pread_all`; invariant of every suspension point, `E2E.EOut`: the Stdout payload written so far = the content
delivered to the handler so far).  `m = 1` makes the unrolling independent of the transport (a `read` of up to one
byte returns exactly one byte as long as content remains); for `m > 1` the cuts depend on the chunking and the script
would have to be chosen per run.

`echo_responder_e2e`: any preamble/stream segmentation, any benign transport (partial reads and writes, `Pending`
anywhere — between and inside the 1-byte records); then one handler start, and the log is
`owedPreamble ++ (one Stdout record per content byte, in order) ++ [Stdout∅][Stderr∅][EndRequest(id, st)]`:
`payloads_echo`: the concatenation of the Stdout payloads IS the content — nothing lost, duplicated or reordered.
No size hypothesis, no fuel side condition at all (the handler fuel grows with the script since the model change).

RESTRICTION (`hquiet`): the noise inside the Stdin stream owes no reply (foreign-id records, … but no management
`GetValues`/unknown-type records inside Stdin; the preamble may have any noise).  With owed replies the log is an
interleaving of replies and handler records, which the read simulation of `Proofs/E2EStr` (`RSt`: log = base ++
replies) cannot express; the replays (`c07e-getvalues-*`) show that interleaving on the crate and in the model.
-/
namespace Fcgi.C07W
open Fcgi Fcgi.Req Fcgi.Str Fcgi.Async Fcgi.Run Fcgi.Spec Fcgi.E2E Fcgi.C07E Fcgi.C07U Fcgi.C07B

def cfgE (p : Preamble) (recs : List Rec) (content : Bytes) (body : List Rec) (pad : Bytes) (res : UInt8)
    (b mc : Nat) (st : ExitStatus) (L0 : Bytes) (h : Nat) (more : List (List HOp × Bool)) : E2E.Cfg :=
  ⟨p, recs, content, body, pad, res, [], [], [], 0, b, mc, [], st, L0, h, more,
    serAll body ++ (trec 5 p.id pad res).ser, [], (trec 5 p.id pad res).ser, [], [], echoScript content st⟩

/-- the Stdout records of the echo: one 1-byte record per content byte, in order -/
def echoRecords (id : Nat) (content : Bytes) : Bytes := content.flatMap fun b => recordOf 6 id [b]

/-- the log of the echo request -/
def echoLog (p : Preamble) (recs : List Rec) (mc : Nat) (content : Bytes) (st : ExitStatus) : Bytes :=
  owedPreamble p mc recs ++ echoRecords p.id content ++ epilogue p.id st

theorem outOf_echoW (id : Nat) (content : Bytes) : outOf id (echoW content) = echoRecords id content := by
  induction content with
  | nil => rfl
  | cons b bs ih =>
    show streamRecords 6 id [b] ++ outOf id (echoW bs) = recordOf 6 id [b] ++ echoRecords id bs
    rw [ih, streamRecords_cons _ _ (by simp), List.take_of_length_le (by simp), List.drop_of_length_le (by simp),
      streamRecords_nil, List.append_nil]

/-- **the payloads**: the records are exactly one per content byte, each carrying that byte — their payloads,
concatenated in log order, are the content -/
theorem payloads_echo (id : Nat) (content : Bytes) :
    echoRecords id content = (content.map fun b => recordOf 6 id [b]).flatten ∧
    (content.map fun b => [b]).flatten = content := by
  constructor
  · simp [echoRecords, List.flatMap]
  · induction content with
    | nil => rfl
    | cons b bs ih => simpa using ih

structure EchoOutcome (p : Preamble) (recs : List Rec) (content : Bytes) (pad : Bytes) (res : UInt8) (b mc : Nat)
    (st : ExitStatus) (more : List (List HOp × Bool)) (t : Transport) (c' : Conn) (fin : String) : Prop where
  one_handler : hsCount c'.env.tr.events = 1 ∧ startEvent p.request ∈ c'.env.tr.events
  log : c'.env.tr.wlog = t.wlog ++ echoLog p recs mc content st
  scripts : c'.scripts = more
  final : (p.flags.toNat % 2 = 0 ∧ fin = "RET" ∧ c'.phase = .finished) ∨
          (p.flags.toNat % 2 = 1 ∧ t.endMode = .eof ∧ fin = "RET" ∧ c'.phase = .finished) ∨
          (p.flags.toNat % 2 = 1 ∧ t.endMode = .pend ∧ fin = "STALL" ∧
            c'.phase = .parseReq (track (alignedBufsize b) mc (trec 5 p.id pad res).ser) .reading ∧
            c'.env.tr.input = [] ∧ c'.env.mutex = none ∧ c'.stop = false ∧ Ben c'.env.tr)

theorem lwE_eq {p : Preamble} {recs : List Rec} {content : Bytes} {body : List Rec} {pad : Bytes} {res : UInt8}
    {b mc : Nat} {st : ExitStatus} {L0 : Bytes} {h : Nat} {more : List (List HOp × Bool)} :
    (cfgE p recs content body pad res b mc st L0 h more).Lw (echoW content) [] [] =
      L0 ++ echoLog p recs mc content st := by
  show (L0 ++ owedPreamble p mc recs) ++ [] ++ outOf p.id (echoW content) ++ [] ++
    makeRequestEpilogue p.id st [RT.stdout, RT.stderr] = _
  rw [(C17.epilogue_spec p.id st _).1, outOf_echoW]
  simp [echoLog, epilogue, List.append_assoc]

/-- **C07 end to end: the echo Responder** (byte-wise, `m = 1`; Stdin noise that owes no reply). -/
theorem echo_responder_e2e {p : Preamble} {recs : List Rec} {content : Bytes} {srecs : List Rec}
    {b mc : Nat} {st : ExitStatus} {more : List (List HOp × Bool)} {t : Transport} {fuel : Nat}
    (hwf : WellFormedPreamble p recs) (hrole : p.role = 1)
    (hpairs : ∀ q ∈ p.pairs, (NV.enc q).length ≤ alignedBufsize b)
    (hnoise : NoiseFits (alignedBufsize b) recs)
    (hs : StreamRecs p.id 5 content srecs) (hsn : NoiseFits (alignedBufsize b) srecs)
    (hin : t.input = serAll recs ++ serAll srecs) (hben : Ben t) (hev : hsCount t.events = 0)
    (hfuel : t.rd.length + t.wr.length + 1 ≤ fuel)
    (hquiet : owedStream p.id 5 mc srecs = []) :
    ∃ c' fin pad res,
      runTask fuel (connS b mc t ((echoScript content st, true) :: more)) 0 none = (c', fin) ∧
      EchoOutcome p recs content pad res b mc st more t c' fin := by
  obtain ⟨body, pad, res, hpad, hbody, hsrecs⟩ := StreamRecs.split hs
  have hid := (pid_of_wf hwf).2
  have hsb : NoiseFits (alignedBufsize b) body := fun r hr => hsn r (by rw [hsrecs]; simp [hr])
  have hOt : owedStream p.id 5 mc srecs = owedStream p.id 5 mc body := by
    rw [hsrecs, owedStream_append, owedStream_term p.id 5 mc _ rfl, List.append_nil]
  have ok : EOK (cfgE p recs content body pad res b mc st t.wlog 0 more) :=
    ⟨hwf, hrole, hpairs, hnoise, hbody, hsb, hpad, rfl, rfl, rfl, rfl, hOt.symm.trans hquiet⟩
  have htwf : (trec 5 p.id pad res).WF := ⟨hid, by simp [trec], hpad⟩
  have hidle : ∀ e ∈ [trec 5 p.id pad res], IdleNoise e := by
    intro e he
    rw [List.mem_singleton.1 he]
    exact ⟨htwf, fun hx => absurd hx (by show (5 : UInt8).toNat ≠ RT.beginRequest; decide)⟩
  have hfit : NoiseFits (alignedBufsize b) [trec 5 p.id pad res] := by
    intro e he hg
    rw [List.mem_singleton.1 he] at hg
    exact absurd hg.1 (by show (5 : UInt8).toNat ≠ RT.getValues; decide)
  obtain ⟨hns, hNF⟩ := idle_front dummy_wf b mc (fun q hq => by cases hq) (dummy_fits _) hidle hfit []
  rw [C02.serAll_single] at hns hNF
  have hst : FStage (cfgE p recs content body pad res b mc st t.wlog 0 more)
      (connS b mc t ((echoScript content st, true) :: more)) :=
    .start (raw := []) rfl (by
      show [] ++ t.input = _
      rw [hin, hsrecs, C02.serAll_append, C02.serAll_single]; rfl) (Nat.zero_le _) rfl hben rfl rfl rfl hev
  obtain ⟨c', fin, hrun, hres⟩ := run_echo ok (Z := serAll dummyRecs ++ []) hns hNF
    t.endMode [] _ 0 fuel hst rfl (fun s hs => by cases hs) rfl (by show ans t + 1 ≤ fuel; unfold ans; omega)
  have hro := (run_idle_out mc [trec 5 p.id pad res] hidle).1
  rw [C02.serAll_single] at hro
  have hio : idleOwed mc [trec 5 p.id pad res] = [] := by
    simp [idleOwed, owed, trec, RT.valid, RT.getValues, RT.beginRequest]
  rcases hres with ⟨⟨⟩, hkp, hk', hem, _, _, _, hend⟩ | ⟨hfin, ⟨O1, O2, hO, _, hfu⟩, _, _⟩
  · have hout : ∀ F, F ++ (serAll dummyRecs ++ []) = (trec 5 p.id pad res).ser ++ (serAll dummyRecs ++ []) →
        (cfgE p recs content body pad res b mc st t.wlog 0 more).Lw (echoW content) [] [] ++ (run .header F mc).out =
        t.wlog ++ echoLog p recs mc content st := by
      intro F hF
      rw [List.append_cancel_right hF, hro, hio, List.append_nil, lwE_eq]
    refine ⟨c', fin, pad, res, hrun, ⟨hk'.hs, hk'.ev _ List.mem_cons_self⟩, ?_, hk'.sc, ?_⟩
    · rcases hend with ⟨_, hp⟩ | ⟨_, hf⟩
      · obtain ⟨F, hF, _, _, hlg⟩ := hp.pst
        exact hlg.trans (hout F hF)
      · obtain ⟨F, hF, hlg⟩ := hf.log
        exact hlg.trans (hout F hF)
    · rcases hend with ⟨rfl, hp⟩ | ⟨rfl, hf⟩
      · obtain ⟨F, hF, hps, hph, _⟩ := hp.pst
        have hFe : F = (trec 5 p.id pad res).ser := List.append_cancel_right hF
        subst hFe
        exact Or.inr (Or.inr ⟨hkp, hem.symm.trans hp.em, rfl, hph, hp.inp, hk'.mx, hps.stop, hps.ben⟩)
      · exact Or.inr (Or.inl ⟨hkp, hem.symm.trans hf.em, rfl, hf.ph⟩)
  · have hO' : O1 = [] ∧ O2 = [] := by
      have : O1 ++ O2 = [] := hO.trans (hOt.symm.trans hquiet)
      exact List.append_eq_nil_iff.1 this
    obtain ⟨rfl, rfl⟩ := hO'
    exact ⟨c', fin, pad, res, hrun, ⟨hfu.ev.1, hfu.ev.2⟩, by rw [hfu.log]; exact lwE_eq, hfu.sc,
      Or.inl ⟨hfu.nokeep, hfin, hfu.ph⟩⟩

/-! ## Non-vacuity -/
namespace ExampleEcho
open Fcgi.C01.Example Fcgi.C07E.Example

/-- `echo_responder_e2e` applied to the request of `Props/C07E2E` with the Stdin stream `exS` (a foreign-id Stdin
record — noise that owes nothing — in front of the record `"ABC"`), over the transport `exT` (short reads, a
`Pending` read, partial writes): the log has exactly three 1-byte Stdout records `A`, `B`, `C`, then the epilogue. -/
example : ∃ c' fin, runTask 20 (connS 64 10 exT [(echoScript [65, 66, 67] (.complete 0), true)]) 0 none = (c', fin) ∧
    c'.env.tr.wlog = owedPreamble pre 10 recs ++
      ([1, 6, 0, 1, 0, 1, 7, 0, 65, 0, 0, 0, 0, 0, 0, 0] ++ [1, 6, 0, 1, 0, 1, 7, 0, 66, 0, 0, 0, 0, 0, 0, 0] ++
       [1, 6, 0, 1, 0, 1, 7, 0, 67, 0, 0, 0, 0, 0, 0, 0]) ++ epilogue 1 (.complete 0) ∧
    hsCount c'.env.tr.events = 1 := by
  obtain ⟨c', fin, pad, res, hrun, ho⟩ := echo_responder_e2e (p := pre) (recs := recs) (content := [65, 66, 67])
    (srecs := exS) (b := 64) (mc := 10) (st := .complete 0) (more := []) (t := exT) (fuel := 20)
    recs_wf rfl (pre_pairs_fit 64) (noise_fits 64) exS_ok (exS_fits _) rfl exT_ben rfl (by decide) (exS_quiet 10)
  refine ⟨c', fin, hrun, ?_, ho.one_handler.1⟩
  rw [ho.log]
  show [] ++ (owedPreamble pre 10 recs ++ echoRecords pre.id [65, 66, 67] ++ epilogue pre.id (.complete 0)) = _
  have h : echoRecords pre.id [65, 66, 67] =
      [1, 6, 0, 1, 0, 1, 7, 0, 65, 0, 0, 0, 0, 0, 0, 0] ++ [1, 6, 0, 1, 0, 1, 7, 0, 66, 0, 0, 0, 0, 0, 0, 0] ++
       [1, 6, 0, 1, 0, 1, 7, 0, 67, 0, 0, 0, 0, 0, 0, 0] := by decide +kernel
  rw [h, List.nil_append]; rfl
end ExampleEcho

end Fcgi.C07W
