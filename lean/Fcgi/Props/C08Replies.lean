import Fcgi.Proofs.ReplyLedger

/-!
# C08 — the write log holds every reply owed for what was consumed

`Props/C08Inv.lean`: a parked task has empty reply buffers and nothing left to parse.  Here that is tied
to the WRITE LOG and to the reference semantics of the bytes consumed (`C04H.reqRef` for the request
parser, `C04H.streamReplies` = `refWire … .out` for the stream parser), for ANY transport (errors, short
reads, partial writes, a peer that withholds segments).

* **(a)** `stall_in_parse_request_log` — the executor stalls before any handler was started (first
  `parse_request` of the connection): the task is in `reading`, the transport is drained, and
  `wlog = wlog₀ ++ (reqRef mc D).out` EXACTLY, where `D` = every byte taken from the transport so far
  (`D ++ what the peer still withholds = the wire`).  `idle_queries_answered`: in particular every
  management query / unknown-type record among complete idle records consumed is answered, in order.
  Stage form for any later `parse_request`: `C08R.prled_step` / `PRLed`.
* **(b)** `handler_read_ledger` — parked in a handler read (`sp.output = []`, `Quiescent sp`): every
  reply `streamReplies E (raw₀ ++ fed)` prescribes for the bytes the stream parser was given since the
  handler started is in the log behind `wl₀`, in order (sublist: the handler's own records may be
  interleaved).  `GLed.pollInput`, `GLed.other`, `GLed.quiet`: the ledger is kept by every
  `poll_input`, by foreign writes, by `consume`.  Hypotheses: no `set_stream` since the handler
  started.
* **(c)** `record_boundary_holds_back` — `close()` in `record_boundary()`: the loop never writes; what
  it generated is `sp'.output = sp.output ++ grownAll …`, still in the buffer when it parks.
  `stall_pending_output_partial`: at a stall with the mutex free the ONLY place where generated reply
  bytes can still sit in a buffer is that one, and then the parser is in the middle of a record.
* `stall_log_has_all_owed_replies_full` (nothing generated is unflushed at such a stall) is FALSE:
  `stall_log_has_all_owed_replies_full_false`, witness = `corpus/C08_replies.txt` line 1 (crate and
  model agree): the handler returns in the middle of a Stdin record; `record_boundary()` skips to the end
  of everything buffered, which includes a complete `GetValues` query, and parks inside the next
  (partial) record with the `GetValuesResult` unflushed.
-/
namespace Fcgi.C08R
open Fcgi Fcgi.Req Fcgi.Str Fcgi.Async Fcgi.Run Fcgi.Spec

/-! ## (a) parked in `parse_request` -/

theorem firstPR_init (b mc : Nat) (env : Run.Env) (scripts : List (List HOp × Bool)) (stop : Bool) :
    FirstPR mc (hsCount env.tr.events) env.tr.wlog (wireOf env)
      { phase := .parseReq (Req.Parser.new b mc) .start, env, scripts, stop } :=
  ⟨Nat.le_refl _, fun _ => Or.inr ⟨[], ⟨rfl, Req.new_inv b mc, rfl, rfl, rfl, rfl⟩, rfl⟩⟩

/-- **(a)** From the initial connection state, any transport, any peer, any stop request: if the
executor stalls with the output mutex free and no handler has been started so far, then the task sits in
`parse_request`'s read with the transport drained, and the log is the initial log followed by EXACTLY the
replies the reference automaton prescribes for `D`, the bytes consumed so far. -/
theorem stall_in_parse_request_log {b mc : Nat} {env : Run.Env} {scripts : List (List HOp × Bool)}
    {stop : Bool} {fuel n : Nat} {sa : Option Nat} {c' : Conn}
    (h : runTask fuel { phase := .parseReq (Req.Parser.new b mc) .start, env, scripts, stop } n sa
      = (c', "STALL"))
    (hm : c'.env.mutex = none) (hhs : hsCount c'.env.tr.events = hsCount env.tr.events) :
    ∃ rp D, c'.phase = .parseReq rp .reading ∧ c'.env.tr.input = [] ∧
      D ++ (c'.env.segs.map (·.2)).flatten = wireOf env ∧
      c'.env.tr.wlog = env.tr.wlog ++ (C04H.reqRef mc D).out ∧
      rp.state = (run .header D mc).st ∧ rp.input = (run .header D mc).rem := by
  have hinv : C08Inv.CInv { phase := .parseReq (Req.Parser.new b mc) .start, env, scripts, stop } :=
    C08Inv.CInv_init b mc env scripts stop
  obtain ⟨ho, _, hin, _, _⟩ := C08Inv.runTask_stall_owes_nothing_partial hinv h hm
  have hf := firstPR_run fuel _ n sa (firstPR_init b mc env scripts stop)
  rw [h] at hf
  rcases hf.2 hhs with hfin | ⟨D, hl, hw⟩
  · rw [hfin] at ho; exact ho.elim
  · cases hph : c'.phase with
    | finished => simp [PRLed, hph] at hl
    | handler r hs => simp [PRLed, hph] at hl
    | closing r cs st al => simp [PRLed, hph] at hl
    | parseReq rp sub =>
      rw [hph] at ho
      have hsub : sub = .reading := ho
      subst hsub
      simp only [PRLed, hph, List.nil_append] at hl
      obtain ⟨hmc, ⟨_, hinp, hst⟩, hnf, hlog⟩ := hl
      rw [hmc] at hinp hst hlog
      refine ⟨rp, D, rfl, hin, ?_, ?_, ?_, hinp⟩
      · rw [← hw]; simp [wireOf, hin]
      · rw [hlog, (C04H.req_replies_hostile mc D).1]
      · rcases hst with h1 | ⟨h1, _⟩
        · exact h1
        · rw [h1] at hnf; cases hnf

/-- the loop over complete idle records: one `Spec.owed none` per record, in order, then the rest -/
theorem run_idle_list (mc : Nat) : ∀ (us : List Rec), (∀ u ∈ us, IdleNoise u) → ∀ (rest : Bytes),
    (run .header (serAll us ++ rest) mc).out = us.flatMap (owed none mc) ++ (run .header rest mc).out
  | [], _, rest => by simp [serAll]
  | u :: us, h, rest => by
    have h1 := congrArg Req.Obs.out
      (Req.obs_idle_noise u (h u List.mem_cons_self) (serAll us ++ rest) mc)
    simp only [Req.obs, Req.Obs.pre] at h1
    rw [serAll_cons, List.append_assoc, h1, run_idle_list mc us (fun x hx => h x (List.mem_cons_of_mem _ hx)) rest]
    simp

/-- **Queries before the first request are answered at every stall.**  If what was consumed starts with
the complete records `us` (management queries, unknown types, BeginRequests of unknown role, … —
`IdleNoise`), the log holds, right behind the initial log, exactly the reply owed for each of them, in
order. -/
theorem idle_queries_answered {b mc : Nat} {env : Run.Env} {scripts : List (List HOp × Bool)}
    {stop : Bool} {fuel n : Nat} {sa : Option Nat} {c' : Conn}
    (h : runTask fuel { phase := .parseReq (Req.Parser.new b mc) .start, env, scripts, stop } n sa
      = (c', "STALL"))
    (hm : c'.env.mutex = none) (hhs : hsCount c'.env.tr.events = hsCount env.tr.events)
    {us : List Rec} (hus : ∀ u ∈ us, IdleNoise u) {y : Bytes}
    (hwire : wireOf env = serAll us ++ y)
    (hcons : (serAll us).length + (c'.env.segs.map (·.2)).flatten.length ≤ (wireOf env).length) :
    ∃ more, c'.env.tr.wlog = env.tr.wlog ++ us.flatMap (owed none mc) ++ more := by
  obtain ⟨rp, D, _, _, hD, hlog, _, _⟩ := stall_in_parse_request_log h hm hhs
  -- `serAll us` is a prefix of `D`
  have hDl : (serAll us).length ≤ D.length := by
    have := congrArg List.length hD
    simp only [List.length_append] at this
    omega
  obtain ⟨z, hz⟩ : serAll us <+: D := by
    have h1 : serAll us <+: wireOf env := ⟨y, hwire.symm⟩
    have h2 : D <+: wireOf env := ⟨_, hD⟩
    exact List.prefix_of_prefix_length_le h1 h2 hDl
  refine ⟨(run .header z mc).out, ?_⟩
  rw [hlog, ← (C04H.req_replies_hostile mc D).1, ← hz, run_idle_list mc us hus z, List.append_assoc]

/-! ## (b) parked in a handler read: restated from `Proofs/ReplyLedger.lean` -/

theorem handler_read_replies_in_log {E : Str.Cfg} {sp0 sp : Str.Parser} {ops : List Op} {wl0 wl : Bytes}
    (h0 : C03SI.Start E sp0) (ho0 : sp0.output = []) (h : GLed sp0 ops sp wl0 wl)
    (hl : LegalAll sp0 ops) (hns : NoSet ops) (hq : C08Inv.Quiescent sp) (ho : sp.output = []) :
    ∃ mix, wl = wl0 ++ mix ∧ List.Sublist (C04H.streamReplies E (sp0.raw ++ Str.fedBytes ops)) mix :=
  handler_read_ledger h0 ho0 h hl hns hq ho

/-- the stream parser `from_parser` creates at the handler start satisfies the hypotheses of (b) -/
theorem handler_start_ledger (cap : Nat) (rq : Request) (input : Bytes) (mc : Nat) (wl : Bytes)
    (hlen : input.length ≤ cap) (hid : rq.id < 65536) (hrole : rq.role = 1 ∨ rq.role = 3) :
    C03SI.Start ⟨rq.id, rq.role, 5, mc⟩ (Str.Parser.fromParser cap rq input mc) ∧
    (Str.Parser.fromParser cap rq input mc).output = [] ∧
    GLed (Str.Parser.fromParser cap rq input mc) [] (Str.Parser.fromParser cap rq input mc) wl wl :=
  ⟨C03SI.start_fresh cap rq input mc hlen hid hrole, rfl, GLed.nil _ _⟩

/-! ## (c) `record_boundary()` -/

/-- **(c)** The loop of `record_boundary()` writes nothing and flushes nothing: when it parks, the reply
buffer holds what it held before followed by everything generated for the records the loop ran through
— these bytes are NOT in the log. -/
theorem record_boundary_holds_back {fuel : Nat} {sp sp' : Str.Parser} {new : Bytes} {t t' : Transport}
    (h : boundaryLoop fuel sp new t = (sp', t', .pending)) :
    ∃ ops, sp' = applyOps sp ops ∧ t'.wlog = t.wlog ∧
      sp'.output = sp.output ++ C03S.grownAll sp ops ∧
      new ++ t.input = Str.fedBytes ops ++ t'.input := by
  obtain ⟨ops, h1, _, h3, h4, h5⟩ := boundaryLoop_ops fuel sp new t h
  exact ⟨ops, h1, h3, h4, h5 (fun s hs => by cases hs)⟩

/-- the reply bytes a phase still holds in a buffer (generated, not yet handed to the transport) -/
def pendingOut : Run.Phase → Bytes
  | .parseReq _ (.writing rest _) => rest
  | .parseReq _ _ => []
  | .handler r _ => r.sp.output
  | .closing r cs _ _ =>
    match cs with
    | .writeOut rest _ => rest
    | _ => r.sp.output
  | .finished => []

/-- **Where unflushed replies can be at a stall.**  Executor stalled, mutex free: no reply bytes are
held back anywhere — except by a `close()` parked in `record_boundary()`, and then the stream parser is
in the middle of a record (one the peer has begun and not finished). -/
theorem stall_pending_output_partial {fuel n : Nat} {sa : Option Nat} {c c' : Conn} (hinv : C08Inv.CInv c)
    (h : runTask fuel c n sa = (c', "STALL")) (hm : c'.env.mutex = none) :
    pendingOut c'.phase = [] ∨
      ∃ r st al, c'.phase = .closing r .inBoundary st al ∧ r.sp.isRecordBoundary = false := by
  obtain ⟨ho, _, _, _, hmid⟩ := C08Inv.runTask_stall_owes_nothing_partial hinv h hm
  cases hph : c'.phase with
  | finished => exact Or.inl rfl
  | parseReq rp sub =>
    rw [hph] at ho
    have : sub = .reading := ho
    subst this; exact Or.inl rfl
  | handler r hs => rw [hph] at ho; exact Or.inl ho.1
  | closing r cs st al =>
    rw [hph] at ho hmid
    rcases ho with ⟨h1, h2⟩ | h1
    · subst h1; exact Or.inl h2
    · subst h1; exact Or.inr ⟨r, st, al, rfl, hmid⟩

/-- The unqualified claim: at a stall with the mutex free nothing generated is still unflushed. -/
def stall_log_has_all_owed_replies_full : Prop :=
  ∀ (fuel : Nat) (c : Conn) (n : Nat) (c' : Conn), C08Inv.CInv c → c.env.tr.woken = false →
    c.env.tr.readWaker = false → c.env.mutex = none → runTask fuel c n none = (c', "STALL") →
    c'.env.mutex = none → pendingOut c'.phase = []

/-! ### The witness (`corpus/C08_replies.txt`, line 1) -/

def wReq : Request := { id := 1, role := 1, flags := 1, env := [] }
/-- `Stdin("abcd")`, a complete record of unknown type 99 (owed: `UnknownType`; a `GetValues` query behaves
the same — corpus lines 1 and 5 — but `Vars.decimal` is defined by well-founded recursion, which `decide`
does not unfold), and the first 10 bytes of `Stdin("efgh")` -/
def wBuf : Bytes :=
  [1, 5, 0, 1, 0, 4, 0, 0, 97, 98, 99, 100] ++
  [1, 99, 0, 0, 0, 0, 0, 0] ++
  [1, 5, 0, 1, 0, 4, 0, 0, 101, 102]
/-- the stream parser of request 1 after: `from_parser` with `wBuf` buffered; the handler's `read(1)`
(`parse(0, Some(1))`); `close()`: `set_stream(None)`, `parse(0, None)` — which runs through EVERYTHING
buffered, the unknown-type record included —, `compress` -/
def wSp : Str.Parser :=
  let sp1 := ((Str.Parser.fromParser 256 wReq wBuf 3).parse [] (some 1)).1
  let sp2 := match sp1.setStream none with | .ok s => s | _ => sp1
  (sp2.parse [] none).1.compress

/-- `close()` suspended in `record_boundary()`'s read with that parser; the transport has nothing more
for now (the state the connection of `corpus/C08_replies.txt` line 2 is in when it stalls) -/
def exW : Conn :=
  { phase := .closing (AReq.new wSp) .inBoundary (.complete 0) 0,
    env := { tr := { input := [], endMode := .pend, rd := [], wr := [], fl := [] } }, scripts := [] }

theorem wSp_facts : wSp.output.length = 16 ∧ wSp.isRecordBoundary = false ∧ wSp.raw = [] ∧
    wSp.parsed = [] ∧ wSp.freeStart ≤ wSp.cap := by decide +kernel

theorem exW_inv : C08Inv.CInv exW :=
  ⟨wSp_facts.2.1, Or.inl wSp_facts.2.2.1, wSp_facts.2.2.2.1, wSp_facts.2.2.2.2⟩

theorem exW_stalls : (runTask 2 exW 0 none).2 = "STALL" ∧ (runTask 2 exW 0 none).1.env.mutex = none ∧
    (runTask 2 exW 0 none).1.env.tr.wlog = [] ∧
    (match (runTask 2 exW 0 none).1.phase with
      | .closing r .inBoundary _ _ => r.sp.output.length == 16
      | _ => false) = true := by decide +kernel

theorem stall_log_has_all_owed_replies_full_false : ¬ stall_log_has_all_owed_replies_full := by
  intro hfull
  obtain ⟨h1, h2, _, h4⟩ := exW_stalls
  have h : runTask 2 exW 0 none = ((runTask 2 exW 0 none).1, "STALL") := by rw [← h1]
  have hp := hfull 2 exW 0 _ exW_inv rfl rfl rfl h h2
  cases hph : (runTask 2 exW 0 none).1.phase with
  | closing r cs st al =>
    rw [hph] at hp h4
    cases cs <;> simp only [] at h4 <;> try cases h4
    simp only [pendingOut] at hp
    rw [hp] at h4
    cases h4
  | parseReq _ _ => rw [hph] at h4; cases h4
  | handler _ _ => rw [hph] at h4; cases h4
  | finished => rw [hph] at h4; cases h4

end Fcgi.C08R
