import Fcgi.Proofs.C12WfHandler
import Fcgi.Props.C12Inv
/-!
# C12, last clause, second half — everything written is a prefix of a well-formed record sequence

`Props/C12Inv.lean` left `prefix_wellformed_full` open.  Here it is proved for `maxConns < 2^64`
(`prefix_wellformed_partial`); the Rust type of `max_conns` is `usize`, and the bound is needed: the
`GetValuesResult` record carries the decimal rendering of `maxConns`, and a value with more than
about 65000 digits would overflow the 16-bit content length of that record (the model's `maxConns`
is an unbounded `Nat`).  `prefix_wellformed_full` itself (all `maxConns : Nat`) stays open: for
`maxConns ≥ 2^64` it is neither proved nor refuted here.

The invariant (`LI`), phase by phase, for a connection all of whose handlers propagate I/O errors
(`AllProp`); `Whole bs` means `bs = serAll rs` with every record of `rs` well formed:

* `parse_request`, `start`/`reading`: `Whole wlog`; `writing rest _`: `Whole (wlog ++ rest)` — the
  request parser's replies are whole records (`reqParse_out`), `write_all` writes a prefix of them;
* handler: `HI` — every `StreamWriter` is idle except the one addressed by the operation at the head
  of the script; `wlog = base ++ sent` where `sent` is what that writer has sent of its current record
  (`C10.WInv`), and for the `Request`: `RInv base m r` (lock consistent with the mutex; `base` and the
  stream parser's reply buffer are whole, or — while a flush is in progress — `base ++ buffer` is);
* `close`: `CloseLI` — `RInv` before the epilogue is built, `Whole (wlog ++ owed)` afterwards;
* `finished`: `Pre wlog` (a failed write leaves a prefix).

`pollConn_li`/`runTask_li`: preserved by every poll and by the executor, for arbitrary transports
(partial writes, `Pending`s, failures at any point).  Since the log only grows within a poll
(`poll_log_grows`) every intermediate log is a prefix of the log at the end of that poll, hence of the
same record sequence.

`log_only_grows_by_records`: between two poll boundaries at which nothing is in flight (the phase is
`parse_request` in `start`/`reading`) the log grew by `serAll` of well-formed records.
-/
namespace Fcgi.C12Inv
open Fcgi Fcgi.Req Fcgi.Str Fcgi.Async Fcgi.Run

/-! ## 1. The invariant -/

def PhaseLI (wlog : Bytes) (m : MutexSt) : Phase → Prop
  | .parseReq rp .start => rp.maxConns < 2 ^ 64 ∧ m = none ∧ Whole wlog
  | .parseReq rp .reading => rp.maxConns < 2 ^ 64 ∧ m = none ∧ Whole wlog
  | .parseReq rp (.writing rest _) => rp.maxConns < 2 ^ 64 ∧ m = none ∧ Whole (wlog ++ rest)
  | .handler r h => HI r h m wlog
  | .closing r cs _ _ => CloseLI wlog m r cs
  | .finished => Pre wlog

def LI (c : Conn) : Prop := PhaseLI c.env.tr.wlog c.env.mutex c.phase

theorem LI.pre {c : Conn} (h : LI c) : Pre c.env.tr.wlog := by
  unfold LI at h
  cases hph : c.phase with
  | finished => rw [hph] at h; exact h
  | handler r hs => rw [hph] at h; exact HI.pre h
  | closing r cs st alive => rw [hph] at h; exact CloseLI.pre h
  | parseReq rp sub =>
    rw [hph] at h
    cases sub with
    | start => exact h.2.2.pre
    | reading => exact h.2.2.pre
    | writing rest done => exact Pre.of_whole h.2.2

/-- The initial state of a connection whose transport has written nothing yet. -/
theorem LI_init (b mc : Nat) (env : Env) (scripts : List (List HOp × Bool)) (stop : Bool)
    (hmc : mc < 2 ^ 64) (hw : env.tr.wlog = []) (hm : env.mutex = none) :
    LI { phase := .parseReq (Req.Parser.new b mc) .start, env, scripts, stop } := by
  unfold LI
  exact ⟨hmc, hm, by rw [hw]; exact Whole.nil⟩

/-- what a poll leaves: a prefix always; the full invariant unless the poll panicked -/
def PollLI (c' : Conn) (res : PRes) : Prop :=
  Pre c'.env.tr.wlog ∧ ((∀ s, res ≠ .panic s) → LI c')

def StepLI : Step → Prop
  | .next c1 => LI c1
  | .halt c1 res => PollLI c1 res

theorem PollLI.of_li {c' : Conn} {res : PRes} (h : LI c') : PollLI c' res := ⟨h.pre, fun _ => h⟩
theorem PollLI.panic {c' : Conn} {s : String} (h : Pre c'.env.tr.wlog) : PollLI c' (.panic s) :=
  ⟨h, fun hn => absurd rfl (hn s)⟩
theorem PollLI.finished {c' : Conn} {res : PRes} (hph : c'.phase = .finished) (h : Pre c'.env.tr.wlog) :
    PollLI c' res := ⟨h, fun _ => by unfold LI; rw [hph]; exact h⟩

theorem new_rinv (sp : Str.Parser) (wlog : Bytes) (hmc : sp.maxConns < 2 ^ 64) (ho : sp.output = [])
    (hw : Whole wlog) : RInv wlog none (AReq.new sp) :=
  ⟨by simp [Consistent, AReq.new], hmc, fun h => (nomatch h), fun _ => ⟨hw, by rw [show (AReq.new sp).sp.output = [] from ho]; exact Whole.nil⟩⟩

theorem intoStreamParser_facts {rp : Req.Parser} {sp : Str.Parser} (h : rp.intoStreamParser = .ok sp) :
    sp.maxConns = rp.maxConns ∧ sp.output = [] := by
  unfold Req.Parser.intoStreamParser at h
  split at h
  · cases h; exact ⟨rfl, rfl⟩
  · cases h
  · cases h

theorem stepConn_li (c : Conn) (hinv : LI c) (hp : AllProp c) : StepLI (stepConn c) := by
  obtain ⟨phase, env, scripts, stop⟩ := c
  unfold LI at hinv
  simp only at hinv
  cases phase with
  | finished => exact PollLI.of_li hinv
  | handler r h =>
    have hprop : h.propagate = true := hp.2
    simp only [stepConn]
    cases hhp : handlerPoll (1000 + env.tr.input.length * 4 + (env.segs.map (·.2.length)).sum * 4 + r.sp.cap * 4 + scriptCost h) r h env with
    | mk r' x =>
      obtain ⟨h', e', res⟩ := x
      obtain ⟨hpre, hpend, hok, hab⟩ := handlerPoll_hi _ _ _ _ hhp hprop hinv
      cases res with
      | pending => exact PollLI.of_li (hpend rfl)
      | panic s => exact PollLI.panic hpre
      | done res =>
        cases res with
        | ok st =>
          obtain ⟨hr, hm⟩ := hok st rfl
          simp only [StepLI, LI, PhaseLI, CloseLI, CloseSt.late, Bool.false_eq_true, if_false]
          exact ⟨hr, hm⟩
        | error x =>
          simp only []
          split
          · rename_i hx
            have hxe : x = .abortRequest := by simpa using hx
            subst hxe
            obtain ⟨hr, hm⟩ := hab rfl
            simp only [StepLI, LI, PhaseLI, CloseLI, CloseSt.late, Bool.false_eq_true, if_false]
            exact ⟨hr, hm⟩
          · exact PollLI.finished rfl hpre
  | closing r cs status alive =>
    simp only [stepConn]
    cases hcp : closePoll r cs status alive env.mutex env.tr with
    | mk r' x =>
      obtain ⟨cs', m', t', res⟩ := x
      obtain ⟨hpend, hpre, hreuse⟩ := closePoll_li hinv hcp
      cases res with
      | pending => exact PollLI.of_li (hpend rfl)
      | panic s => exact PollLI.panic hpre
      | err e => exact PollLI.finished rfl hpre
      | reuse rp =>
        obtain ⟨hw, hmc, hm⟩ := hreuse rp rfl
        exact ⟨hmc, hm, hw⟩
  | parseReq rp sub =>
    cases stop with
    | true =>
      refine PollLI.finished rfl ?_
      exact (LI.pre (c := ⟨.parseReq rp sub, env, scripts, true⟩) hinv)
    | false =>
      cases sub with
      | start =>
        obtain ⟨hmc, hm, hw⟩ := hinv
        simp only [stepConn, Bool.false_eq_true, if_false]
        cases hpp : rp.parse [] with
        | mk rp' oy =>
          cases oy with
          | none => exact PollLI.panic hw.pre
          | some y =>
            obtain ⟨ho, hmc'⟩ := reqParse_out hmc hpp
            exact ⟨by rw [hmc']; exact hmc, hm, hw.append ho⟩
      | reading =>
        obtain ⟨hmc, hm, hw⟩ := hinv
        simp only [stepConn, Bool.false_eq_true, if_false]
        cases hrd : env.tr.read rp.free with
        | mk t pr =>
          have hlog : t.wlog = env.tr.wlog := read_wlog' hrd
          have hw' : Whole t.wlog := by rw [hlog]; exact hw
          cases pr with
          | pending => exact PollLI.of_li (c' := ⟨.parseReq rp .reading, { env with tr := t }, scripts, false⟩) ⟨hmc, hm, hw'⟩
          | ready ex =>
            cases ex with
            | error e => exact PollLI.finished rfl hw'.pre
            | ok bs =>
              cases bs with
              | nil => exact PollLI.finished rfl hw'.pre
              | cons b bs =>
                simp only []
                cases hpp : rp.parse (b :: bs) with
                | mk rp' oy =>
                  cases oy with
                  | none => exact PollLI.panic hw'.pre
                  | some y =>
                    obtain ⟨ho, hmc'⟩ := reqParse_out hmc hpp
                    exact ⟨by rw [hmc']; exact hmc, hm, hw'.append ho⟩
      | writing rest done =>
        obtain ⟨hmc, hm, hw⟩ := hinv
        simp only [stepConn, Bool.false_eq_true, if_false]
        cases hwl : writeAllLoop (rest.length + 1) rest env.tr with
        | mk rest' x =>
          obtain ⟨t, res⟩ := x
          obtain ⟨⟨dn, hd, hl⟩, _, hrdy, _⟩ := writeAllLoop_spec _ _ _ hwl
          have hw' : Whole (t.wlog ++ rest') := by
            rw [hl, List.append_assoc, ← hd]; exact hw
          cases res with
          | pending =>
            exact PollLI.of_li (c' := ⟨.parseReq rp (.writing rest' done), { env with tr := t }, scripts, false⟩)
              ⟨hmc, hm, hw'⟩
          | err e => exact PollLI.finished rfl (Pre.of_whole hw')
          | panic s => exact PollLI.panic (Pre.of_whole hw')
          | ready =>
            have hw2 : Whole t.wlog := by
              have := hrdy rfl; subst this; simpa using hw'
            simp only []
            cases done with
            | false => exact ⟨hmc, hm, hw2⟩
            | true =>
              simp only [Bool.not_true, Bool.false_eq_true, if_false]
              cases hsp : rp.intoStreamParser with
              | error e => exact PollLI.finished rfl hw2.pre
              | ok sp =>
                obtain ⟨h1, h2⟩ := intoStreamParser_facts hsp
                have hr : RInv t.wlog none (AReq.new sp) := new_rinv sp _ (by rw [h1]; exact hmc) h2 hw2
                cases scripts with
                | nil =>
                  show HI _ _ _ _
                  simp only [hm]
                  exact HI.of_idle ⟨Or.inl rfl, fun j w hw => by simp at hw⟩ hr
                | cons s ss =>
                  obtain ⟨o, p⟩ := s
                  show HI _ _ _ _
                  simp only [hm]
                  exact HI.of_idle ⟨Or.inl rfl, fun j w hw => by simp at hw⟩ hr

/-- **Every poll** keeps the invariant (and leaves a prefix of whole records even when it panics). -/
theorem pollConn_li : ∀ (fuel : Nat) (c : Conn), LI c → AllProp c →
    PollLI (pollConn fuel c).1 (pollConn fuel c).2
  | 0, _, h, _ => PollLI.panic h.pre
  | fuel + 1, c, h, hp => by
    rw [pollConn_succ]
    have hs := stepConn_li c h hp
    have hw := stepConn_w c hp
    cases hst : stepConn c with
    | next c' => rw [hst] at hs hw; exact pollConn_li fuel c' hs hw.2
    | halt c' r => rw [hst] at hs; exact hs

theorem LI_of_frame {c c' : Conn} (h1 : c'.phase = c.phase) (h2 : c'.env.mutex = c.env.mutex)
    (h3 : c'.env.tr.wlog = c.env.tr.wlog) (h : LI c) : LI c' := by
  unfold LI at *; rw [h1, h2, h3]; exact h

theorem release_frame (e : Env) : e.release.1.mutex = e.mutex ∧ e.release.1.tr.wlog = e.tr.wlog :=
  ⟨(release_spec' e), (release_events e).2⟩
where
  release_spec' (e : Env) : e.release.1.mutex = e.mutex := by
    unfold Env.release
    have : ∀ (fuel : Nat) (e : Env) (any : Bool), (Env.release.go fuel e any).1.mutex = e.mutex := by
      intro fuel
      induction fuel with
      | zero => intro e any; unfold Env.release.go; rfl
      | succ n ih =>
        intro e any
        obtain ⟨tr, mutex, segs⟩ := e
        cases segs with
        | nil => unfold Env.release.go; rfl
        | cons p rest =>
          obtain ⟨g, bs⟩ := p
          simp only [Env.release.go]
          split
          · exact ih _ true
          · rfl
    have h := this (e.segs.length + 1) e false
    generalize Env.release.go (e.segs.length + 1) e false = x at h
    obtain ⟨e', any⟩ := x
    exact h

theorem prePoll_li (c : Conn) (n : Nat) (sa : Option Nat) (h : LI c) : LI (prePoll c n sa) := by
  have key : ∀ c0 : Conn, LI c0 →
      LI (match c0.env.release with
        | (env, _) => ({ c0 with env := ({ env with tr := { env.tr with woken := false } } : Env).ev s!"|{n}" } : Conn)) := by
    intro c0 h0
    obtain ⟨f1, f2⟩ := release_frame c0.env
    generalize c0.env.release = x at f1 f2
    obtain ⟨e', any⟩ := x
    exact LI_of_frame (c := c0) rfl f1 f2 h0
  unfold prePoll
  split
  · exact key _ (LI_of_frame (c := c) rfl rfl rfl h)
  · exact key _ h

/-- **Every run of the executor** leaves a prefix of whole, well-formed records. -/
theorem runTask_li : ∀ (fuel : Nat) (c : Conn) (n : Nat) (sa : Option Nat), LI c → AllProp c →
    Pre (runTask fuel c n sa).1.env.tr.wlog
  | 0, _, _, _, h, _ => h.pre
  | fuel + 1, c, n, sa, h, hp => by
    rw [runTask_succ]
    have h0 := prePoll_li c n sa h
    have hp0 : AllProp (prePoll c n sa) :=
      allProp_of_frame (prePoll_frame c n sa).1 (prePoll_frame c n sa).2 hp
    have hli := pollConn_li (connFuel (prePoll c n sa)) _ h0 hp0
    have hap := pollConn_allProp (connFuel (prePoll c n sa)) _ hp0
    generalize pollConn (connFuel (prePoll c n sa)) (prePoll c n sa) = x at hli hap ⊢
    obtain ⟨c1, res⟩ := x
    cases res with
    | finished => exact hli.1
    | panic s => exact hli.1
    | pending =>
      have h1 : LI c1 := hli.2 (fun s hs => nomatch hs)
      simp only []
      split
      · exact runTask_li fuel _ _ _ h1 hap
      · have hf := release_frame c1.env
        generalize c1.env.release = y at hf ⊢
        obtain ⟨env, any⟩ := y
        simp only [] at hf ⊢
        have h2 : LI { c1 with env := env } := LI_of_frame (c := c1) rfl hf.1 hf.2 h1
        have hp2 : AllProp { c1 with env := env } := allProp_of_frame rfl rfl hap
        split
        · exact runTask_li fuel _ _ _ h2 hp2
        · split
          · split
            · exact runTask_li fuel _ _ _ h2 hp2
            · exact h2.pre
          · exact h2.pre

/-! ## 2. The theorems -/

/-- `prefix_wellformed_full` restricted to `maxConns < 2^64` (the Rust `usize`). -/
def prefix_wellformed_u64 : Prop :=
  ∀ (fuel b mc : Nat) (env : Env) (scripts : List (List HOp × Bool)) (n : Nat) (sa : Option Nat),
    mc < 2 ^ 64 → env.tr.wlog = [] → env.mutex = none → (∀ s ∈ scripts, s.2 = true) →
    ∃ (rs : List Spec.Rec) (rest : Bytes), (∀ r ∈ rs, r.WF) ∧
      (runTask fuel { phase := .parseReq (Req.Parser.new b mc) .start, env, scripts } n sa).1.env.tr.wlog ++ rest
        = Spec.serAll rs

/-- **C12, last clause, second half.**  In every run of the executor from the initial connection
state — any transport script (partial writes, `Pending`s, failures), any peer, any handler scripts
that propagate I/O errors, any stop request — the write log is a prefix of `serAll rs` for a list
`rs` of well-formed records.  (Strongest proved variant of `prefix_wellformed_full`; excluded:
`maxConns ≥ 2^64`, see the file header.) -/
theorem prefix_wellformed_partial : prefix_wellformed_u64 := by
  intro fuel b mc env scripts n sa hmc hw hm hs
  have h := runTask_li fuel _ n sa (LI_init b mc env scripts false hmc hw hm) ⟨hs, trivial⟩
  obtain ⟨rest, rs, hwf, he⟩ := h
  exact ⟨rs, rest, hwf, he⟩

/-- the same for a single poll from any state satisfying the invariant -/
theorem poll_prefix_wellformed {fuel : Nat} {c c' : Conn} {res : PRes} (h : LI c) (hp : AllProp c)
    (hpoll : pollConn fuel c = (c', res)) :
    ∃ (rs : List Spec.Rec) (rest : Bytes), (∀ r ∈ rs, r.WF) ∧ c'.env.tr.wlog ++ rest = Spec.serAll rs := by
  have := (pollConn_li fuel c h hp).1
  rw [hpoll] at this
  obtain ⟨rest, rs, hwf, he⟩ := this
  exact ⟨rs, rest, hwf, he⟩

/-- nothing is in flight: `parse_request` is about to parse or to read -/
def Quiet (c : Conn) : Prop :=
  ∃ rp, c.phase = .parseReq rp .start ∨ c.phase = .parseReq rp .reading

theorem whole_suffix {a b : Bytes} (ha : Whole a) (hab : Whole (a ++ b)) : Whole b := by
  obtain ⟨ra, wa, ea⟩ := ha
  obtain ⟨rab, wab, eab⟩ := hab
  -- records are self-delimiting: peel the records of `a` off `a ++ b`
  induction ra generalizing a rab with
  | nil =>
    simp only [Spec.serAll, List.flatMap_nil] at ea
    subst ea
    exact ⟨rab, wab, by simpa using eab⟩
  | cons r ra ih =>
    cases rab with
    | nil =>
      simp only [Spec.serAll, List.flatMap_nil, List.flatMap_cons] at ea eab
      rw [ea] at eab
      have : (r.ser ++ List.flatMap Spec.Rec.ser ra ++ b).length = 0 := by rw [eab]; rfl
      simp [Spec.Rec.ser] at this
    | cons r' rab =>
      have hr := wa r (List.mem_cons_self ..)
      have hr' := wab r' (List.mem_cons_self ..)
      simp only [Spec.serAll, List.flatMap_cons] at ea eab
      -- both start with a serialised well-formed record: the two records coincide
      have hser : ∀ (x y : Spec.Rec) (u v : Bytes), x.WF → y.WF → x.ser ++ u = y.ser ++ v →
          x.ser = y.ser ∧ u = v := by
        intro x y u v hx hy he
        have hlen : x.ser.length = y.ser.length := by
          obtain ⟨_, hxc, hxp⟩ := hx
          obtain ⟨_, hyc, hyp⟩ := hy
          simp only [Spec.Rec.ser, List.append_assoc, List.cons_append, List.nil_append, toBe16,
            List.cons.injEq] at he
          obtain ⟨_, _, _, _, h4, h5, h6, _, _⟩ := he
          have e4 := congrArg UInt8.toNat h4
          have e5 := congrArg UInt8.toNat h5
          have e6 := congrArg UInt8.toNat h6
          simp only [UInt8.toNat_ofNat'] at e4 e5 e6
          simp only [Spec.Rec.ser, List.length_append, List.length_cons, List.length_nil, toBe16]
          omega
        have h1 := List.append_inj he hlen
        exact h1
      rw [ea, List.append_assoc] at eab
      obtain ⟨_, htail⟩ := hser r r' _ _ hr hr' eab
      exact ih (a := List.flatMap Spec.Rec.ser ra) (fun x hx => wa x (List.mem_cons_of_mem _ hx)) rfl rab
        (fun x hx => wab x (List.mem_cons_of_mem _ hx)) htail

/-- **The log only grows by whole records**: between two poll boundaries at which nothing is in
flight, the log grew by `serAll` of well-formed records. -/
theorem log_only_grows_by_records {fuel : Nat} {c c' : Conn} {res : PRes} (h : LI c) (hp : AllProp c)
    (hq : Quiet c) (hpoll : pollConn fuel c = (c', res)) (hnp : ∀ s, res ≠ .panic s) (hq' : Quiet c') :
    ∃ d rs, c'.env.tr.wlog = c.env.tr.wlog ++ d ∧ (∀ r ∈ rs, r.WF) ∧ d = Spec.serAll rs := by
  obtain ⟨d, hd⟩ := poll_log_grows hpoll
  have hli := (pollConn_li fuel c h hp).2
  rw [hpoll] at hli
  have h' : LI c' := hli hnp
  have hw : Whole c.env.tr.wlog := by
    obtain ⟨rp, hph | hph⟩ := hq <;> (unfold LI at h; rw [hph] at h; exact h.2.2)
  have hw' : Whole c'.env.tr.wlog := by
    obtain ⟨rp, hph | hph⟩ := hq' <;> (unfold LI at h'; rw [hph] at h'; exact h'.2.2)
  rw [hd] at hw'
  obtain ⟨rs, hwf, he⟩ := whole_suffix hw hw'
  exact ⟨d, rs, hd, hwf, he⟩

/-! ## 3. Non-vacuity -/
section Examples

/-- the hypotheses of `prefix_wellformed_partial` are satisfiable: a fresh connection, any scripts
that propagate -/
example : ∃ (rs : List Spec.Rec) (rest : Bytes), (∀ r ∈ rs, r.WF) ∧
    (runTask 7 { phase := .parseReq (Req.Parser.new 0 1) .start, env := { tr := trE false },
                 scripts := [([.open_ 6, .writeAll 0 [1, 2, 3], .ret (.complete 0)], true)] } 0 none).1.env.tr.wlog
      ++ rest = Spec.serAll rs :=
  prefix_wellformed_partial 7 0 1 { tr := trE false } _ 0 none (by decide) rfl rfl (by decide)

/-- `exCl5` (`Props/C12Inv`): the handler returns, the transport takes 5 bytes of the 32-byte epilogue
and then fails.  The state satisfies the invariant; the run ends with a 5-byte log — a proper prefix
of a record — which is a prefix of a well-formed record sequence. -/
theorem exCl5_li : LI exCl5 := by
  show HI _ _ _ _
  exact HI.of_idle ⟨Or.inl rfl, fun j w hw => by simp at hw⟩
    (new_rinv _ _ (by decide) rfl Whole.nil)

example : (runTask 3 exCl5 0 none).1.env.tr.wlog.length = 5 ∧
    ∃ (rs : List Spec.Rec) (rest : Bytes), (∀ r ∈ rs, r.WF) ∧
      (runTask 3 exCl5 0 none).1.env.tr.wlog ++ rest = Spec.serAll rs := by
  refine ⟨by decide +kernel, ?_⟩
  obtain ⟨rest, rs, hwf, he⟩ := runTask_li 3 exCl5 0 none exCl5_li ⟨nofun, rfl⟩
  exact ⟨rs, rest, hwf, he⟩

/-- the generators: every reply the library can emit is a whole record -/
example : Whole (UnknownType.toRecord 99 0) ∧ Whole (Vars.responseRecord 7 10) ∧
    Whole (makeRequestEpilogue 1 (.complete 0) [RT.stdout, RT.stderr]) ∧
    Whole (recordOf RT.stdout 1 [1, 2, 3]) :=
  ⟨whole_unknown _ _, whole_response _ _ (by decide), whole_epilogue _ _ _, whole_recordOf _ _ _ (by decide)⟩

end Examples

end Fcgi.C12Inv
