import Fcgi.Proofs.E2EAbortFill
import Fcgi.Props.C11E2E
/-!
# C11 — AbortRequest for a Responder that reads through `fill_buf`: end to end

The Headline's C11 not-proved list: "a Responder that … reads through `fill_buf` … when the abort arrives: poll level
only".  `Props/C11E2E.abort_mid_stream_e2e` is the handler that reads with `read` (`readAll`).  Here the handler reads
with `fill_buf` (`AsyncBufRead::poll_fill_buf` = `poll_input(None)`; script `.fill :: rest`, errors propagated):

`abort_fill_e2e`: a Responder request (with or without KEEP_CONN), the wire = preamble ++ records `body` ++
`AbortRequest(id)`, where `body` carries NO Stdin content of the request (`Body id 5 [] body`: management records,
foreign-id records, … — any noise within the buffer bound, owing replies or not), any benign transport.  Then:

* exactly ONE handler start; its `fill_buf` fails with `ConnectionAborted` (the library's `abort-request` error: replay
  `f!abort-request`) — whatever the chunking, possibly after `Pending`s —, the handler returns the error (`rest` is
  never run), `Token::run` calls `close(ExitStatus::ABORT)`;
* the log is exactly `owedPreamble ++ owedStream id 5 mc body ++ [Stdout∅][Stderr∅][EndRequest(id, "ABRT",
  RequestComplete)]`: ONE EndRequest, with the distinguished abort application status (`C11E.epilogue_abort`);
* the `AbortRequest` record is retained in the buffer: with KEEP_CONN the connection is REUSED and the next
  `parse_request` swallows it as idle noise without reply (parked, `STALL`, or `RET` if the peer closed); without
  KEEP_CONN the task returns after the epilogue.

WEAKER than "after a prefix of the content": the abort arrives before any OWN Stdin content.  With content in front of
the abort the number of `fill_buf`/`consume` rounds depends on the chunking (a script without data flow cannot follow
it), and the fill simulation under an abort (`pollInput_simA0`) exists only for "nothing delivered yet".
-/
namespace Fcgi.C11E
open Fcgi Fcgi.Req Fcgi.Str Fcgi.Async Fcgi.Run Fcgi.Spec Fcgi.E2E Fcgi.C07E

/-- the configuration: no own content before the abort, handler `.fill :: rest`, status `ABORT` -/
def cfgAF (p : Preamble) (recs : List Rec) (body : List Rec) (a : Rec)
    (b mc : Nat) (rest : List HOp) (L0 : Bytes) (h : Nat) (more : List (List HOp × Bool)) : E2E.Cfg :=
  ⟨p, recs, [], body, [], 0, [], [], [], 0, b, mc, [], ExitStatus.abort, L0, h, more,
    serAll body ++ (a.ser ++ []), [], a.ser ++ [], owedStream p.id 5 mc body, [], .fill :: rest⟩

structure AbortFillOutcome (p : Preamble) (recs body : List Rec) (a : Rec) (b mc : Nat)
    (more : List (List HOp × Bool)) (t : Transport) (c' : Conn) (fin : String) : Prop where
  one_handler : hsCount c'.env.tr.events = 1 ∧ startEvent p.request ∈ c'.env.tr.events
  /-- ONE EndRequest, with the abort status -/
  log : c'.env.tr.wlog = t.wlog ++ (owedPreamble p mc recs ++ owedStream p.id 5 mc body ++ epilogue p.id ExitStatus.abort)
  scripts : c'.scripts = more
  final : (p.flags.toNat % 2 = 0 ∧ fin = "RET" ∧ c'.phase = .finished) ∨
          (p.flags.toNat % 2 = 1 ∧ t.endMode = .eof ∧ fin = "RET" ∧ c'.phase = .finished) ∨
          (p.flags.toNat % 2 = 1 ∧ t.endMode = .pend ∧ fin = "STALL" ∧
            c'.phase = .parseReq (track (alignedBufsize b) mc a.ser) .reading ∧
            c'.env.tr.input = [] ∧ c'.env.mutex = none ∧ c'.stop = false ∧ Ben c'.env.tr)

/-- **C11 end to end: AbortRequest hits a Responder inside `fill_buf`.** -/
theorem abort_fill_e2e {p : Preamble} {recs : List Rec} {body : List Rec} {a : Rec}
    {b mc : Nat} {rest : List HOp} {more : List (List HOp × Bool)} {t : Transport} {fuel : Nat}
    (hwf : WellFormedPreamble p recs) (hrole : p.role = 1)
    (hpairs : ∀ q ∈ p.pairs, (NV.enc q).length ≤ alignedBufsize b)
    (hnoise : NoiseFits (alignedBufsize b) recs)
    (hbody : Body p.id 5 [] body) (hbn : NoiseFits (alignedBufsize b) body) (ha : IsAbort p.id a)
    (hin : t.input = serAll recs ++ (serAll body ++ a.ser)) (hben : Ben t) (hev : hsCount t.events = 0)
    (hfuel : t.rd.length + t.wr.length + 1 ≤ fuel) :
    ∃ c' fin, runTask fuel (connS b mc t ((.fill :: rest, true) :: more)) 0 none = (c', fin) ∧
      AbortFillOutcome p recs body a b mc more t c' fin := by
  have hid := (pid_of_wf hwf).2
  have ok : AFOK (cfgAF p recs body a b mc rest t.wlog 0 more) a [] rest :=
    ⟨⟨hwf, hrole, hpairs, hnoise, hbody, hbn, ha, rfl, rfl, rfl, Or.inl ⟨rfl, rfl⟩⟩, rfl, rfl⟩
  have haidle : IdleNoise a := isAbort_idle ha hid
  have hidle : ∀ e ∈ [a], IdleNoise e := fun e he => by rw [List.mem_singleton.1 he]; exact haidle
  have hfit : NoiseFits (alignedBufsize b) [a] := by
    intro e he hg
    rw [List.mem_singleton.1 he] at hg
    have h1 : a.rtype.toNat = RT.getValues := hg.1
    rw [ha.1] at h1
    exact absurd h1 (by decide)
  obtain ⟨hns, hNF⟩ := idle_front dummy_wf b mc (fun q hq => by cases hq) (dummy_fits _) hidle hfit []
  rw [C02.serAll_single] at hns hNF
  have hU : (cfgAF p recs body a b mc rest t.wlog 0 more).U = a.ser := List.append_nil _
  have hst : FStage (cfgAF p recs body a b mc rest t.wlog 0 more) (connS b mc t ((.fill :: rest, true) :: more)) :=
    .start (raw := []) rfl (by
      show [] ++ t.input = serAll recs ++ (serAll body ++ (a.ser ++ []))
      rw [hin, List.append_nil]; rfl) (Nat.zero_le _) rfl hben rfl rfl rfl hev
  obtain ⟨c', fin, hrun, hres⟩ := run_abort_fill ok (Z := serAll dummyRecs ++ [])
    (by rw [hU]; exact hns) (by rw [hU]; exact hNF)
    t.endMode [] _ 0 fuel hst rfl (fun s hs => by cases hs) rfl (by show ans t + 1 ≤ fuel; unfold ans; omega)
  have hro := (run_idle_out mc [a] hidle).1
  rw [C02.serAll_single] at hro
  have hio : idleOwed mc [a] = [] := by
    simp [idleOwed, isAbort_owed ha]
  have hLf : (cfgAF p recs body a b mc rest t.wlog 0 more).LfFill =
      t.wlog ++ (owedPreamble p mc recs ++ owedStream p.id 5 mc body ++ epilogue p.id ExitStatus.abort) := by
    show ((t.wlog ++ owedPreamble p mc recs) ++ owedStream p.id 5 mc body ++
      makeRequestEpilogue p.id ExitStatus.abort [RT.stdout, RT.stderr]) = _
    rw [epilogue_eq]; simp only [List.append_assoc]
  rcases hres with ⟨⟨⟩, hkp, hk', hem, _, _, _, hend⟩ | ⟨hfin, hfu, _, _⟩
  · have hout : ∀ F, F ++ (serAll dummyRecs ++ []) =
          (cfgAF p recs body a b mc rest t.wlog 0 more).U ++ (serAll dummyRecs ++ []) →
        (cfgAF p recs body a b mc rest t.wlog 0 more).LfFill ++ (run .header F mc).out =
        t.wlog ++ (owedPreamble p mc recs ++ owedStream p.id 5 mc body ++ epilogue p.id ExitStatus.abort) := by
      intro F hF
      rw [List.append_cancel_right hF, hU, hro, hio, List.append_nil, hLf]
    refine ⟨c', fin, hrun, ⟨hk'.hs, hk'.ev _ List.mem_cons_self⟩, ?_, hk'.sc, ?_⟩
    · rcases hend with ⟨_, hp⟩ | ⟨_, hf⟩
      · obtain ⟨F, hF, _, _, hlg⟩ := hp.pst
        exact hlg.trans (hout F hF)
      · obtain ⟨F, hF, hlg⟩ := hf.log
        exact hlg.trans (hout F hF)
    · rcases hend with ⟨rfl, hp⟩ | ⟨rfl, hf⟩
      · obtain ⟨F, hF, hps, hph, _⟩ := hp.pst
        have hFe : F = a.ser := by rw [← hU]; exact List.append_cancel_right hF
        subst hFe
        exact Or.inr (Or.inr ⟨hkp, hem.symm.trans hp.em, rfl, hph, hp.inp, hk'.mx, hps.stop, hps.ben⟩)
      · exact Or.inr (Or.inl ⟨hkp, hem.symm.trans hf.em, rfl, hf.ph⟩)
  · exact ⟨c', fin, hrun, ⟨hfu.ev.1, hfu.ev.2⟩, by rw [hfu.log]; exact hLf, hfu.sc,
      Or.inl ⟨hfu.nokeep, hfin, hfu.ph⟩⟩

namespace ExampleAbortFill
open Fcgi.C01.Example Fcgi.C07E.Example

/-- noise in front of the abort: a `GetValues(MAX_CONNS)` query (owes a reply) and an unknown-type record for another id
(owes an `UnknownType` reply) -/
def afBody : List Rec :=
  [ { rtype := 9, id := 0, content := NV.enc (Vars.nameMaxConns, []), pad := [] },
    { rtype := 77, id := 3, content := [1, 2], pad := [] } ]
def afRec : Rec := { rtype := 2, id := 1, content := [], pad := [] }

def afT : Transport :=
  { input := serAll recs ++ (serAll afBody ++ afRec.ser), endMode := .pend,
    rd := [.n 10, .pending, .n 7, .all, .n 3], wr := [.n 5, .pending, .all, .n 1, .pending], fl := [] }

theorem afBody_ok : Body 1 5 [] afBody := by
  refine .noise _ ⟨⟨by decide, by decide +kernel, by decide⟩, by decide⟩ ?_
  refine .noise _ ⟨⟨by decide, by decide, by decide⟩, by decide⟩ ?_
  exact .nil

theorem afBody_fits : NoiseFits (alignedBufsize 64) afBody := by
  refine noiseFits_of_content (fun r hr _ _ => ?_)
  simp only [afBody, List.mem_cons, List.not_mem_nil, or_false] at hr
  rcases hr with rfl | rfl <;> decide +kernel

/-- the request of `Props/C07E2E` (KEEP_CONN), two noise records, an `AbortRequest` for it; the handler does
`fill_buf`, `consume(1)`, returns `Complete(0)`, propagating errors: ONE handler start, `consume` and the return are
never reached, the log is the replies owed to the noise and ONE epilogue with `EndRequest(1, ABORT)`; the task is
parked in the next `parse_request`, which has swallowed the `AbortRequest`. -/
example : ∃ c', runTask 20 (connS 64 10 afT [([.fill, .consume 1, .ret (.complete 0)], true)]) 0 none = (c', "STALL") ∧
    c'.env.tr.wlog = owedPreamble pre 10 recs ++ owedStream 1 5 10 afBody ++ epilogue 1 ExitStatus.abort ∧
    owedStream 1 5 10 afBody ≠ [] ∧
    hsCount c'.env.tr.events = 1 ∧
    c'.phase = .parseReq (track 64 10 afRec.ser) .reading ∧ c'.env.tr.input = [] := by
  obtain ⟨c', fin, hrun, ho⟩ := abort_fill_e2e (p := pre) (recs := recs) (body := afBody) (a := afRec)
    (b := 64) (mc := 10) (rest := [.consume 1, .ret (.complete 0)]) (more := []) (t := afT) (fuel := 20)
    recs_wf rfl (pre_pairs_fit 64) (noise_fits 64) afBody_ok afBody_fits ⟨rfl, rfl, by decide, by decide⟩ rfl
    ⟨by decide, by decide, rfl, by decide⟩ rfl (by decide)
  rcases ho.final with ⟨h, _⟩ | ⟨_, h, _⟩ | ⟨_, _, hfin, hph, hin, _⟩
  · exact absurd h (by decide)
  · exact absurd h (by decide)
  · subst hfin
    exact ⟨c', hrun, by rw [ho.log]; rfl, by decide +kernel, ho.one_handler.1, hph, hin⟩
end ExampleAbortFill

end Fcgi.C11E
