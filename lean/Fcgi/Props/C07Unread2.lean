import Fcgi.Proofs.E2EPrefixConn
import Fcgi.Props.C07Unread
/-!
# C07 / C05 — the handler reads a strict prefix of its input

A well-formed Responder request with KEEP_CONN (any preamble segmentation and noise, any Stdin
segmentation with reply-owing noise, ANY transport chunking without error answers) whose handler is
`[.read n, .ret st]` (`readSome`): one `read` of up to `n` bytes, then it returns.

`close()`: `writeable()` is ready (a Responder), `set_stream(None)`, and `record_boundary()` runs the
stream parser in ignore mode over whatever is buffered / arrives until it stands between two
records.  How far that is depends on the chunking — so the theorems are existential in a split

    srecs = s₁ ++ s₂          (of the stream's RECORD LIST)

* `unread_prefix_e2e`: one handler start; the `read` returned a prefix `d` of the content (empty only
  if the content is); the request consumed exactly the records `s₁` — the replies owed for the noise
  in `s₁` are written BEFORE the epilogue —, the next `parse_request` was handed exactly the bytes
  `serAll s₂` (it stands at `track … (serAll s₂)`): a record boundary of the original wire, no byte
  lost, duplicated or reordered; the replies for the noise in `s₂` come AFTER the epilogue (the next
  request parser answers them as idle noise).  `prefix_replies_conserved`: together they are the
  replies owed for the whole stream.
* `unread_prefix_chain_e2e`: the chain step — a closed-loop client sends further keep-alive requests
  `x :: xs` (each read to its end or left wholly unread, `UReq`) after the prefix-read request: each
  is served exactly as alone (its segment `UReq.Seg`), whatever `s₂` was left.
* `unread_filter_e2e_full`: a Filter left unread (`[.ret st]`) — statement only, NOT proved.
-/
namespace Fcgi.C07U
open Fcgi Fcgi.Req Fcgi.Str Fcgi.Async Fcgi.Run Fcgi.Spec Fcgi.E2E Fcgi.C07E

/-- the handler: one `read` of up to `n` bytes, then `Ok(st)` -/
abbrev readSome (n : Nat) (st : ExitStatus) : List HOp := [.read n, .ret st]

/-- The trace event of a `read` that returned `bytes`. -/
abbrev readSomeEvent (bytes : Bytes) : String := rdEvent bytes

/-- the configuration of a Responder request whose handler is `readSome n st`; `body`, `pad`, `res`:
the Stdin records before the terminator, the terminator's padding and reserved byte -/
def cfgP (p : Preamble) (recs : List Rec) (content : Bytes) (body : List Rec) (pad : Bytes) (res : UInt8)
    (b mc n : Nat) (st : ExitStatus) (L0 : Bytes) (h : Nat) (more : List (List HOp × Bool)) : E2E.Cfg :=
  ⟨p, recs, content, body, pad, res, [], [], [], 0, b, mc, [], st, L0, h, more,
    serAll body ++ ({ rtype := 5, id := p.id, content := [], pad := pad, reserved := res } : Rec).ser,
    [], [], [], [], readSome n st⟩

/-- records none of which is a BeginRequest are owed, as idle noise, exactly what they are owed inside
the Stdin stream of request `id` -/
theorem idleOwed_eq_owedStream5 (id mc : Nat) {rs : List Rec}
    (hnb : ∀ r ∈ rs, r.rtype.toNat ≠ RT.beginRequest) : idleOwed mc rs = owedStream id 5 mc rs := by
  have key : ∀ r : Rec, r.rtype.toNat ≠ RT.beginRequest →
      owed none mc r = (if r.rtype.toNat == 5 && r.id == id then [] else owed (some id) mc r) := by
    intro r hb
    have hcur : owed none mc r = owed (some id) mc r := by
      simp only [owed]
      split
      · rfl
      · split
        · rfl
        · rw [if_neg (by simpa using hb), if_neg (by simpa using hb)]
    split
    · rename_i hc
      simp only [Bool.and_eq_true, beq_iff_eq] at hc
      exact C04.owed_other none mc r (by rw [hc.1]; decide) (by rw [hc.1]; decide)
        (fun hx => absurd (hc.1 ▸ hx.1) (by decide))
    · exact hcur
  induction rs with
  | nil => rfl
  | cons r rs ih =>
    have h1 := key r (hnb r List.mem_cons_self)
    have h2 := ih (fun x hx => hnb x (List.mem_cons_of_mem _ hx))
    simp only [idleOwed, owedStream, List.flatMap_cons] at h2 ⊢
    rw [h1, h2]

/-- **No reply lost or duplicated**: the replies written before and after the epilogue are together
the replies owed for the whole stream. -/
theorem prefix_replies_conserved (id mc : Nat) (s₁ s₂ : List Rec) :
    owedStream id 5 mc s₁ ++ owedStream id 5 mc s₂ = owedStream id 5 mc (s₁ ++ s₂) := by
  simp [owedStream, List.flatMap_append]

/-- … and no byte of the wire: the bytes consumed by the request followed by the bytes handed to the
next request parser are the stream's wire. -/
theorem prefix_wire_conserved (s₁ s₂ : List Rec) : serAll s₁ ++ serAll s₂ = serAll (s₁ ++ s₂) :=
  (C02.serAll_append s₁ s₂).symm

/-- the hypotheses on the request, as `POK` -/
theorem pok_of {p : Preamble} {recs : List Rec} {content : Bytes} {body : List Rec} {pad : Bytes} {res : UInt8}
    {b mc n : Nat} {st : ExitStatus} (L0 : Bytes) (h : Nat) (more : List (List HOp × Bool)) (hn : 0 < n)
    (hwf : WellFormedPreamble p recs) (hrole : p.role = 1)
    (hpairs : ∀ q ∈ p.pairs, (NV.enc q).length ≤ alignedBufsize b)
    (hnoise : NoiseFits (alignedBufsize b) recs) (hpad : pad.length < 256) (hbody : Body p.id 5 content body)
    (hstr : StreamRecs p.id 5 content
      (body ++ [{ rtype := UInt8.ofNat 5, id := p.id, content := [], pad := pad, reserved := res }]))
    (hsn : NoiseFits (alignedBufsize b)
      (body ++ [{ rtype := UInt8.ofNat 5, id := p.id, content := [], pad := pad, reserved := res }])) :
    POK (cfgP p recs content body pad res b mc n st L0 h more) n :=
  ⟨hwf, hrole, hpairs, hnoise, hbody, fun r hr hg => hsn r (List.mem_append_left _ hr) hg, hpad, rfl, rfl,
    streamRecs_stdin (pid_of_wf hwf).2 hstr, rfl, hn⟩

/-- what the run of a prefix-read request ends in -/
structure PrefixOutcome (p : Preamble) (recs : List Rec) (content : Bytes) (srecs s₁ s₂ : List Rec) (d : Bytes)
    (b mc : Nat) (st : ExitStatus) (more : List (List HOp × Bool)) (t : Transport) (c' : Conn) (fin : String) :
    Prop where
  /-- the request consumed the records `s₁`, the records `s₂` are left -/
  split : srecs = s₁ ++ s₂
  /-- the `read` returned `d`: a prefix of the Stdin content, empty only if the content is -/
  read : d <+: content ∧ (d = [] → content = []) ∧ readSomeEvent d ∈ c'.env.tr.events
  /-- exactly one handler start, for the request sent -/
  one_handler : hsCount c'.env.tr.events = 1 ∧ startEvent p.request ∈ c'.env.tr.events
  /-- the log: preamble replies, the replies owed for `s₁`, the epilogue, the replies owed for `s₂` -/
  log : c'.env.tr.wlog = t.wlog ++ (owedPreamble p mc recs ++ owedStream p.id 5 mc s₁ ++ epilogue p.id st ++
    owedStream p.id 5 mc s₂)
  scripts : c'.scripts = more
  /-- the next `parse_request` was handed exactly the bytes `serAll s₂`, has swallowed them and waits
  for the next request on an empty transport — or the peer has closed and the task returned -/
  final : (t.endMode = .eof ∧ fin = "RET" ∧ c'.phase = .finished) ∨
          (t.endMode = .pend ∧ fin = "STALL" ∧
            c'.phase = .parseReq (track (alignedBufsize b) mc (serAll s₂)) .reading ∧
            c'.env.tr.input = [] ∧ c'.env.mutex = none ∧ c'.stop = false ∧ Ben c'.env.tr)

/-- the log of the request when `close` is done -/
theorem gC_LU_eq {p : Preamble} {recs : List Rec} {content : Bytes} {body : List Rec} {pad : Bytes} {res : UInt8}
    {b mc n : Nat} {st : ExitStatus} {L0 : Bytes} {h : Nat} {more : List (List HOp × Bool)} (left s1 s2 : List Rec)
    (hl : ∀ e ∈ left, IdleNoise e) :
    (gC ((cfgP p recs content body pad res b mc n st L0 h more).front left) s1 s2).LU =
      L0 ++ idleOwed mc left ++ (owedPreamble p mc recs ++ owedStream p.id 5 mc s1 ++ epilogue p.id st) := by
  rw [gC_LU, E2E.Cfg.front_L1 _ hl, owedI_eq_owedStream]
  show L0 ++ idleOwed mc left ++ owedPreamble p mc recs ++ owedStream p.id 5 mc s1 ++
    makeRequestEpilogue p.id st [RT.stdout, RT.stderr] = _
  rw [epilogue_eq]
  simp only [List.append_assoc]

/-- **C07/C05 end to end: the handler reads a strict prefix of Stdin.**

A Responder request with KEEP_CONN: well-formed preamble (any segmentation, any noise within the C06
bound), a Stdin stream with ANY segmentation and ANY noise (management `GetValues` bodies within the
same bound) except BeginRequest records (`hnb`, forced as in `unread_request_e2e`), all of it in the
transport; ANY transport chunking without error answers; the handler does one `read` of up to
`n > 0` bytes and returns `st`.  Then there are a split `srecs = s₁ ++ s₂` of the stream's record
list and `d` with `PrefixOutcome`: the `read` got the prefix `d` of the content; `close()` consumed
the stream exactly up to the record boundary between `s₁` and `s₂` — the replies for the noise in
`s₁` precede the epilogue, the next `parse_request` was handed exactly `serAll s₂` and answered its
noise after the epilogue; the task is parked in that `parse_request` (or returned at end-of-file). -/
theorem unread_prefix_e2e {p : Preamble} {recs : List Rec} {content : Bytes} {srecs : List Rec}
    {b mc n : Nat} {st : ExitStatus} {more : List (List HOp × Bool)} {t : Transport} {fuel : Nat}
    (hn : 0 < n)
    (hwf : WellFormedPreamble p recs) (hrole : p.role = 1) (hk : p.flags.toNat % 2 = 1)
    (hpairs : ∀ q ∈ p.pairs, (NV.enc q).length ≤ alignedBufsize b)
    (hnoise : NoiseFits (alignedBufsize b) recs)
    (hstr : StreamRecs p.id 5 content srecs) (hsn : NoiseFits (alignedBufsize b) srecs)
    (hnb : ∀ r ∈ srecs, r.rtype.toNat ≠ RT.beginRequest)
    (hin : t.input = serAll recs ++ serAll srecs) (hben : Ben t) (hev : hsCount t.events = 0)
    (hfuel : t.rd.length + t.wr.length + 1 ≤ fuel)
    (hsize : 6 * t.input.length + 26 ≤ 100000) :
    ∃ c' fin s₁ s₂ d, runTask fuel (connS b mc t ((readSome n st, true) :: more)) 0 none = (c', fin) ∧
      PrefixOutcome p recs content srecs s₁ s₂ d b mc st more t c' fin := by
  have hidle := srecs_idle hwf hstr hnb
  obtain ⟨body, pad, res, hpad, hbody, hsrecs⟩ := StreamRecs.split hstr
  subst hsrecs
  have ok := pok_of (mc := mc) (st := st) t.wlog 0 more hn hwf hrole hpairs hnoise hpad hbody hstr hsn
  have hmem : ∀ s1 s2 : List Rec, (cfgP p recs content body pad res b mc n st t.wlog 0 more).R = s1 ++ s2 →
      ∀ e ∈ s2, e ∈ body ++ [{ rtype := UInt8.ofNat 5, id := p.id, content := [], pad := pad, reserved := res }] := by
    intro s1 s2 hsp e he
    have : e ∈ (cfgP p recs content body pad res b mc n st t.wlog 0 more).R := by
      rw [hsp]; exact List.mem_append_right _ he
    exact this
  have hgood : ∀ s1 s2 : List Rec, (cfgP p recs content body pad res b mc n st t.wlog 0 more).R = s1 ++ s2 →
      GoodNext (alignedBufsize b) mc s2 (serAll dummyRecs ++ []) := fun s1 s2 hsp =>
    idle_front dummy_wf b mc (fun q hq => by cases hq) (dummy_fits _) (fun e he => hidle e (hmem s1 s2 hsp e he))
      (fun e he hg => hsn e (hmem s1 s2 hsp e he) hg) []
  have hst : PStage (cfgP p recs content body pad res b mc n st t.wlog 0 more) n
      (connS b mc t ((readSome n st, true) :: more)) :=
    .start (raw := []) rfl (by show [] ++ t.input = _; rw [hin, C02.serAll_append, C02.serAll_single]; rfl)
      (Nat.zero_le _) rfl hben rfl rfl rfl hev
  obtain ⟨c', fin, hrun, s1, s2, d, hsp, hd1, hd2, hkp, hem, _, _, _, hend⟩ :=
    run_prefix ok hk (Z := serAll dummyRecs ++ []) (fun s1 s2 h => (hgood s1 s2 h).1) (fun s1 s2 h => (hgood s1 s2 h).2)
      t.endMode [] _ 0 fuel hst rfl (fun s hs => by cases hs) rfl (by show ans t + 1 ≤ fuel; unfold ans; omega) hsize
  have hs2 : ∀ e ∈ s2, IdleNoise e := fun e he => hidle e (hmem s1 s2 hsp e he)
  have hnb2 : ∀ r ∈ s2, r.rtype.toNat ≠ RT.beginRequest := fun e he => hnb e (hmem s1 s2 hsp e he)
  have hLU := gC_LU_eq (p := p) (recs := recs) (content := content) (body := body) (pad := pad) (res := res)
    (b := b) (mc := mc) (n := n) (st := st) (L0 := t.wlog) (h := 0) (more := more) [] s1 s2 (fun _ h => nomatch h)
  have hLU' : (gC (cfgP p recs content body pad res b mc n st t.wlog 0 more) s1 s2).LU =
      t.wlog ++ (owedPreamble p mc recs ++ owedStream p.id 5 mc s1 ++ epilogue p.id st) := by
    have e : (cfgP p recs content body pad res b mc n st t.wlog 0 more).front [] =
        cfgP p recs content body pad res b mc n st t.wlog 0 more := rfl
    rw [e] at hLU
    rw [hLU]; simp [idleOwed]
  have hout : ∀ F, F ++ (serAll dummyRecs ++ []) = serAll s2 ++ (serAll dummyRecs ++ []) →
      (gC (cfgP p recs content body pad res b mc n st t.wlog 0 more) s1 s2).LU ++ (run .header F mc).out =
      t.wlog ++ (owedPreamble p mc recs ++ owedStream p.id 5 mc s1 ++ epilogue p.id st ++
          owedStream p.id 5 mc s2) := by
    intro F hF
    rw [List.append_cancel_right hF, (run_idle_out mc s2 hs2).1, hLU', idleOwed_eq_owedStream5 p.id mc hnb2]
    simp only [List.append_assoc]
  refine ⟨c', fin, s1, s2, d, hrun, hsp, ⟨hd1, hd2, hkp.ev _ (by simp)⟩,
    ⟨hkp.hs, hkp.ev _ List.mem_cons_self⟩, ?_, hkp.sc, ?_⟩
  · rcases hend with ⟨_, hp⟩ | ⟨_, hf⟩
    · obtain ⟨F, hF, _, _, hlg⟩ := hp.pst
      rw [hlg]; exact hout F hF
    · obtain ⟨F, hF, hlg⟩ := hf.log
      rw [hlg]; exact hout F hF
  · rcases hend with ⟨rfl, hp⟩ | ⟨rfl, hf⟩
    · obtain ⟨F, hF, hps, hph, _⟩ := hp.pst
      have hFe : F = serAll s2 := List.append_cancel_right hF
      subst hFe
      exact Or.inr ⟨hem.symm.trans hp.em, rfl, hph, hp.inp, hkp.mx, hps.stop, hps.ben⟩
    · exact Or.inl ⟨hem.symm.trans hf.em, rfl, hf.ph⟩

/-! ## The chain step -/

/-- every request of a `UReq` chain is served, with what follows it on the wire -/
theorem hall_of_ok {b mc : Nat} (x : UReq) (xs : List UReq) (hok : ∀ y ∈ x :: xs, y.OK b) :
    ∀ ys y zs, (UReq.spec mc x) :: xs.map (UReq.spec mc) = ys ++ y :: zs →
      Serves (alignedBufsize b) mc y (nextW (serAll dummyRecs ++ []) zs) ∧ LeftOK (alignedBufsize b) y.left := by
  intro ys y zs he
  have he' : (x :: xs).map (UReq.spec mc) = ys ++ y :: zs := he
  obtain ⟨l1, l2, hl, h1, h2⟩ := List.map_eq_append_iff.1 he'
  cases l2 with
  | nil => cases h2
  | cons y0 l3 =>
    simp only [List.map_cons, List.cons.injEq] at h2
    obtain ⟨rfl, rfl⟩ := h2
    have hy0 : y0.OK b := hok y0 (by rw [hl]; simp)
    refine ⟨serves_of_ok hy0 ?_, leftOK_of_ok hy0⟩
    cases l3 with
    | nil =>
      have hl0 := leftOK_of_ok hy0
      exact idle_front dummy_wf b mc (fun _ hq => nomatch hq) (dummy_fits _) hl0.1 hl0.2 []
    | cons y1 l4 =>
      have hy1 : y1.OK b := hok y1 (by rw [hl]; simp)
      exact goodNext_of_ok hy1 (leftOK_of_ok hy0)

theorem lastLeft_specs (mc : Nat) (x : UReq) (xs : List UReq) :
    lastLeft (xs.map (UReq.spec mc)) (UReq.spec mc x).left = ((x :: xs).getLast (by simp)).left := by
  induction xs generalizing x with
  | nil => rfl
  | cons y ys ih => simp only [List.map_cons, lastLeft, List.getLast_cons_cons]; exact ih y

/-- **C05/C07: after a prefix-read request, the next requests are served exactly as alone.**

A closed-loop client (`closedLoop`: the next request is sent when the task has parked) sends the
prefix-read request of `unread_prefix_e2e` and then the keep-alive requests `x :: xs`, each a request
of `Props/C07E2E` read to its end or a Responder request left wholly unread (`UReq.OK`).  Then, for
a split `srecs = s₁ ++ s₂` (`s₂` = what the first request's `close()` left to the next request
parser): `1 + k` handler starts, each with its request; the log is the first request's segment
(`… owedStream s₁ ++ epilogue ++ owedStream s₂`) followed by the `k` segments `UReq.Seg` — each exactly
what a connection serving that request alone writes —; all scripts are consumed; the task is parked
inside `parse_request` behind what the last request left unread. -/
theorem unread_prefix_chain_e2e {p : Preamble} {recs : List Rec} {content : Bytes} {srecs : List Rec}
    {b mc n : Nat} {st : ExitStatus} (x : UReq) (xs : List UReq) {t : Transport} {fuel : Nat}
    (hn : 0 < n)
    (hwf : WellFormedPreamble p recs) (hrole : p.role = 1) (hk : p.flags.toNat % 2 = 1)
    (hpairs : ∀ q ∈ p.pairs, (NV.enc q).length ≤ alignedBufsize b)
    (hnoise : NoiseFits (alignedBufsize b) recs)
    (hstr : StreamRecs p.id 5 content srecs) (hsn : NoiseFits (alignedBufsize b) srecs)
    (hnb : ∀ r ∈ srecs, r.rtype.toNat ≠ RT.beginRequest)
    (hok : ∀ y ∈ x :: xs, y.OK b)
    (hin : t.input = serAll recs ++ serAll srecs) (hben : Ben t) (hem : t.endMode = .pend)
    (hev : hsCount t.events = 0) (hfuel : t.rd.length + t.wr.length + 1 ≤ fuel)
    (hsize : 6 * t.input.length + 26 ≤ 100000) :
    ∃ c' s₁ s₂ d A,
      closedLoop fuel ((x :: xs).map UReq.wire)
        (connS b mc t ((readSome n st, true) :: (x :: xs).map UReq.handler)) 0 = (c', "STALL") ∧
      srecs = s₁ ++ s₂ ∧ d <+: content ∧ readSomeEvent d ∈ c'.env.tr.events ∧
      SegsAll mc (x :: xs) A ∧
      c'.env.tr.wlog = t.wlog ++ (owedPreamble p mc recs ++ owedStream p.id 5 mc s₁ ++ epilogue p.id st ++
        owedStream p.id 5 mc s₂) ++ A ∧
      hsCount c'.env.tr.events = 1 + (x :: xs).length ∧
      startEvent p.request ∈ c'.env.tr.events ∧
      (∀ y ∈ x :: xs, startEvent y.p.request ∈ c'.env.tr.events) ∧ c'.scripts = [] ∧
      c'.env.tr.input = [] ∧
      c'.phase = .parseReq (track (alignedBufsize b) mc (serAll ((x :: xs).getLast (by simp)).left)) .reading := by
  have hidle := srecs_idle hwf hstr hnb
  obtain ⟨body, pad, res, hpad, hbody, hsrecs⟩ := StreamRecs.split hstr
  subst hsrecs
  have ok := pok_of (mc := mc) (st := st) t.wlog 0 (((x :: xs).map (UReq.spec mc)).map RSpec.handler) hn hwf hrole
    hpairs hnoise hpad hbody hstr hsn
  -- the first request
  have hstart : StartAt (alignedBufsize b) mc [] t.wlog
      ((readSome n st, true) :: ((x :: xs).map (UReq.spec mc)).map RSpec.handler) 0 [] (ans t)
      (serAll recs ++ (serAll body ++
        ({ rtype := 5, id := p.id, content := [], pad := pad, reserved := res } : Rec).ser))
      (connS b mc t ((readSome n st, true) :: ((x :: xs).map (UReq.spec mc)).map RSpec.handler)) :=
    Or.inr ⟨rfl, rfl, by show t.input = _; rw [hin, C02.serAll_append, C02.serAll_single]; rfl, rfl, hben, rfl, rfl, rfl, hev,
      (fun _ hs => nomatch hs), rfl, hem, Nat.le_refl _⟩
  have hleft0 : LeftOK (alignedBufsize b) [] := ⟨(fun _ he => nomatch he), (fun _ hr => nomatch hr)⟩
  have hR : ∀ e ∈ (cfgP p recs content body pad res b mc n st t.wlog 0
      (((x :: xs).map (UReq.spec mc)).map RSpec.handler)).R, IdleNoise e := fun e he => hidle e he
  have hlo : ∀ s1 s2 : List Rec, (cfgP p recs content body pad res b mc n st t.wlog 0
      (((x :: xs).map (UReq.spec mc)).map RSpec.handler)).R = s1 ++ s2 → LeftOK (alignedBufsize b) s2 := by
    intro s1 s2 hsp
    have hm : ∀ e ∈ s2, e ∈ (cfgP p recs content body pad res b mc n st t.wlog 0
        (((x :: xs).map (UReq.spec mc)).map RSpec.handler)).R := fun e he => by
      rw [hsp]; exact List.mem_append_right _ he
    exact ⟨fun e he => hidle e (hm e he), fun e he hg => hsn e (hm e he) hg⟩
  have hsz : 6 * (cfgP p recs content body pad res b mc n st t.wlog 0
      (((x :: xs).map (UReq.spec mc)).map RSpec.handler)).W.length + 26 ≤ 100000 := by
    have : (cfgP p recs content body pad res b mc n st t.wlog 0
      (((x :: xs).map (UReq.spec mc)).map RSpec.handler)).W = t.input := by
      rw [hin, C02.serAll_append, C02.serAll_single]; rfl
    rw [this]; exact hsize
  obtain ⟨c1, s1, s2, d, hrun1, hsp, hd1, _, hd3, hw1⟩ := serve_prefix_core ok hk (left := []) hleft0
    (Z := x.wire) hR (fun s1 s2 hsp => goodNext_of_ok (hok x List.mem_cons_self) (hlo s1 s2 hsp)) 0 fuel
    (by simp [idleOwed]; rfl) hstart (by unfold ans; omega) hsz
  have hnb2 : ∀ r ∈ s2, r.rtype.toNat ≠ RT.beginRequest := fun e he => hnb e (by
    have : e ∈ (cfgP p recs content body pad res b mc n st t.wlog 0
        (((x :: xs).map (UReq.spec mc)).map RSpec.handler)).R := by rw [hsp]; exact List.mem_append_right _ he
    exact this)
  have hLU := gC_LU_eq (p := p) (recs := recs) (content := content) (body := body) (pad := pad) (res := res)
    (b := b) (mc := mc) (n := n) (st := st) (L0 := t.wlog) (h := 0)
    (more := ((x :: xs).map (UReq.spec mc)).map RSpec.handler) [] s1 s2 (fun _ h => nomatch h)
  have hLw : (gC ((cfgP p recs content body pad res b mc n st t.wlog 0
      (((x :: xs).map (UReq.spec mc)).map RSpec.handler)).front []) s1 s2).LU ++ idleOwed mc s2 =
      t.wlog ++ (owedPreamble p mc recs ++ owedStream p.id 5 mc s1 ++ epilogue p.id st ++ owedStream p.id 5 mc s2) := by
    rw [hLU, idleOwed_eq_owedStream5 p.id mc hnb2]; simp [idleOwed]
  have hw1' : Waiting (alignedBufsize b) mc s2
      (t.wlog ++ (owedPreamble p mc recs ++ owedStream p.id 5 mc s1 ++ epilogue p.id st ++ owedStream p.id 5 mc s2))
      (((x :: xs).map (UReq.spec mc)).map RSpec.handler) 1 [hsEvent p.request, rdEvent d] (ans t) c1 := by
    rw [← hLw]
    have hev' : ∀ s ∈ [hsEvent p.request, rdEvent d], s ∈ c1.env.tr.events := by
      intro s hs
      rcases List.mem_cons.1 hs with rfl | hs
      · exact hw1.ev _ List.mem_cons_self
      · rw [List.mem_singleton.1 hs]; exact hd3
    exact { hw1 with ev := hev' }
  -- the others
  obtain ⟨c', A, hrun, hseg, hw⟩ := chain_serves (alignedBufsize b) mc (serAll dummyRecs ++ [])
    (xs.map (UReq.spec mc)) (UReq.spec mc x) s2 _ 1 [hsEvent p.request, rdEvent d] (ans t) (feed c1 x.wire) 1000 fuel
    (hall_of_ok x xs hok) (hlo s1 s2 hsp) (Or.inl ⟨c1, hw1', rfl⟩) (by unfold ans; omega)
  have hrun' : closedLoop fuel ((x :: xs).map UReq.wire)
      (connS b mc t ((readSome n st, true) :: (x :: xs).map UReq.handler)) 0 = (c', "STALL") := by
    have e : (x :: xs).map UReq.handler = ((x :: xs).map (UReq.spec mc)).map RSpec.handler := by
      rw [List.map_map]; rfl
    rw [e]
    show closedLoop fuel (x.wire :: xs.map UReq.wire) _ 0 = _
    rw [closedLoop, hrun1]
    simp only [if_true]
    rw [← hrun, List.map_map]; rfl
  have hlast := lastLeft_specs mc x xs
  have hevd : readSomeEvent d ∈ c'.env.tr.events :=
    hw.ev _ (mem_evsAfter _ _ _ (Or.inl (by simp)))
  refine ⟨c', s1, s2, d, A, hrun', hsp, hd1, hevd, segAll_specs mc (x :: xs) A hseg, hw.log, ?_, ?_, ?_, hw.sc, hw.inp, ?_⟩
  · have := hw.hs; simpa [Nat.add_comm] using this
  · exact hw.ev _ (mem_evsAfter _ _ _ (Or.inl List.mem_cons_self))
  · intro y hy
    exact hw.ev _ (mem_evsAfter _ _ _ (Or.inr ⟨UReq.spec mc y, List.mem_map_of_mem hy, rfl⟩))
  · rw [← hlast]; exact hw.ph

/-! ## What is not proved -/

/-- **A Filter left wholly unread** (`[.ret st]`, role 3) — statement only, NOT proved.  `close()`'s
`writeable()` then runs in buffering mode: `set_stream(Data)` (the Stdin records are passed over),
`poll_input(None)` until Data content is buffered or the Data stream ends; then `set_stream(None)`
drops what was buffered and `record_boundary()` returns at a record boundary.  Expected shape (it is
what the compiled model driver and the real crate print on the replayed cases
`c07-filter-unread-*`, see the report): a split of the record list of BOTH streams, the consumed
part containing all of Stdin; replies for `s₁` before the epilogue, for `s₂` after it.  The proof
needs `Proofs/E2EPrefixStr`'s `R2` for the start state "stream parser in stream 8 from the start of
Stdin" and a simulation of `poll_input(None)`; the `record_boundary()` part (`bloop_sim`) carries
over unchanged. -/
def unread_filter_e2e_full : Prop :=
  ∀ (p : Preamble) (recs : List Rec) (content : Bytes) (srecs : List Rec) (content2 : Bytes) (drecs : List Rec)
    (b mc : Nat) (st : ExitStatus) (t : Transport) (fuel : Nat),
    WellFormedPreamble p recs → p.role = 3 → p.flags.toNat % 2 = 1 →
    (∀ q ∈ p.pairs, (NV.enc q).length ≤ alignedBufsize b) → NoiseFits (alignedBufsize b) recs →
    StreamRecs p.id 5 content srecs → NoiseFits (alignedBufsize b) srecs →
    StreamRecs p.id 8 content2 drecs → NoiseFits (alignedBufsize b) drecs →
    (∀ r ∈ srecs ++ drecs, r.rtype.toNat ≠ RT.beginRequest) →
    t.input = serAll recs ++ (serAll srecs ++ serAll drecs) → Ben t → t.endMode = .pend → hsCount t.events = 0 →
    t.rd.length + t.wr.length + 1 ≤ fuel → 6 * t.input.length + 26 ≤ 100000 →
    ∃ c' d₁ s₂, runTask fuel (connS b mc t [([.ret st], true)]) 0 none = (c', "STALL") ∧
      drecs = d₁ ++ s₂ ∧
      c'.env.tr.wlog = t.wlog ++ (owedPreamble p mc recs ++
        (owedStream p.id 5 mc srecs ++ owedStream p.id 8 mc d₁) ++ epilogue p.id st ++ idleOwed mc s₂) ∧
      hsCount c'.env.tr.events = 1 ∧ c'.env.tr.input = [] ∧
      c'.phase = .parseReq (track (alignedBufsize b) mc (serAll s₂)) .reading

/-! ## Non-vacuity -/
namespace Example
open Fcgi.C01.Example Fcgi.C07E.Example

/-- `unread_prefix_e2e` applied to the request of `Props/C07E2E` whose Stdin stream `nS` carries a
management `GetValues` record in front of the data record `"ABC"` and an unknown-type record behind
it; the handler reads up to 2 bytes and returns `Complete(3)`.  On this transport (as a line of the
driver protocol, `# case c07-prefix-10,P,7,A,3`: `t.run B=64 mc=10 in=<hex> end=pend rd=10,P,7,A,3
wr=5,P,A,1,P fl=- stop=none h=r2,Xcomplete:3`) the compiled model driver and the real crate (harness
`--replay`) both print `… HS(1,1,41:62) W32:32 R61:29 r=2:4142 HE(ok:complete:3) W16:16 W32:32 R64:W
STALL`: the whole stream was buffered, `record_boundary()` swallows it (`s₂ = []`), both noise
replies precede the epilogue.  With `rd=10,P,7,55,26,34,7,A` both print `… R64:34 HS(1,1,41:62)
r=1:41 HE(ok:complete:3) R64:7 W32:32 W32:32 R60:16 W16:16 R64:W STALL`: `record_boundary()` stops behind
the data record, `s₂ = [unknown-type record, terminator]`, the reply `W16` for the unknown-type record
comes AFTER the epilogue — the split depends on the chunking. -/
example : ∃ c' s₁ s₂ d, runTask 20 (connS 64 10 nT [(readSome 2 (.complete 3), true)]) 0 none = (c', "STALL") ∧
    nS = s₁ ++ s₂ ∧ d <+: [65, 66, 67] ∧ d ≠ [] ∧ readSomeEvent d ∈ c'.env.tr.events ∧
    c'.env.tr.wlog = owedPreamble pre 10 recs ++ owedStream 1 5 10 s₁ ++
      [1, 6, 0, 1, 0, 0, 0, 0, 1, 7, 0, 1, 0, 0, 0, 0, 1, 3, 0, 1, 0, 8, 0, 0, 0, 0, 0, 3, 0, 0, 0, 0] ++
      owedStream 1 5 10 s₂ ∧
    c'.phase = .parseReq (track 64 10 (serAll s₂)) .reading ∧
    hsCount c'.env.tr.events = 1 ∧ c'.env.tr.input = [] := by
  obtain ⟨c', fin, s1, s2, d, hrun, ho⟩ := unread_prefix_e2e (p := pre) (recs := recs) (content := [65, 66, 67])
    (srecs := nS) (b := 64) (mc := 10) (n := 2) (st := .complete 3) (more := []) (t := nT) (fuel := 20)
    (by decide) recs_wf rfl (by decide) (pre_pairs_fit 64) (noise_fits 64) nS_ok nS_fits
    nS_noBegin rfl ⟨by decide, by decide, rfl, by decide⟩ rfl (by decide) (by decide +kernel)
  rcases ho.final with ⟨h, _⟩ | ⟨_, hfin, hph, hin, _⟩
  · exact absurd h (by decide)
  · subst hfin
    refine ⟨c', s1, s2, d, hrun, ho.split, ho.read.1, fun hd => absurd (ho.read.2.1 hd) (by decide), ho.read.2.2, ?_,
      hph, ho.one_handler.1, hin⟩
    rw [ho.log]
    show [] ++ (owedPreamble pre 10 recs ++ owedStream 1 5 10 s1 ++ epilogue 1 (.complete 3) ++ owedStream 1 5 10 s2) = _
    rw [List.nil_append]
    rfl

/-- `unread_prefix_chain_e2e` applied: the prefix-read request, then the unread request `u1` and the
Authorizer request `q2`: three handler starts, the two later requests' segments are exactly those of
`k_requests_unread_e2e_partial`. -/
example : ∃ c' s₁ s₂ A, closedLoop 20 [u1.wire, q2.wire]
      (connS 64 10 nT [(readSome 2 (.complete 3), true), u1.handler, q2.handler]) 0 = (c', "STALL") ∧
    nS = s₁ ++ s₂ ∧ SegsAll 10 [u1, .full q2] A ∧
    c'.env.tr.wlog = (owedPreamble pre 10 recs ++ owedStream 1 5 10 s₁ ++ epilogue 1 (.complete 3) ++
      owedStream 1 5 10 s₂) ++ A ∧
    hsCount c'.env.tr.events = 3 ∧ c'.scripts = [] ∧ c'.env.tr.input = [] := by
  obtain ⟨c', s1, s2, d, A, hrun, hsp, _, _, hseg, hlog, hhs, _, _, hsc, hin, _⟩ :=
    unread_prefix_chain_e2e (p := pre) (recs := recs) (content := [65, 66, 67])
    (srecs := nS) (b := 64) (mc := 10) (n := 2) (st := .complete 3) u1 [.full q2] (t := nT) (fuel := 20)
    (by decide) recs_wf rfl (by decide) (pre_pairs_fit 64) (noise_fits 64) nS_ok nS_fits nS_noBegin
    (fun y hy => by
      simp only [List.mem_cons, List.not_mem_nil, or_false] at hy
      rcases hy with rfl | rfl
      · exact u1_ok
      · exact ⟨q2_ok, by decide⟩)
    rfl ⟨by decide, by decide, rfl, by decide⟩ rfl rfl (by decide) (by decide +kernel)
  exact ⟨c', s1, s2, A, hrun, hsp, hseg, by rw [hlog]; exact congrArg (· ++ A) (List.nil_append _), hhs, hsc, hin⟩

end Example

end Fcgi.C07U
