import Fcgi.Props.C18Held
import Fcgi.Props.C05Chain5
/-!
# C18 / C03 — after `set_stream(None)`

`Props/C03StrSet.lean` and `Props/C18Held.lean` leave `set_stream(None)` out.  What existed already:
`C18.none_absorbing`, `C18.setStream_some_of_none_rejected`, `C18.setStream_rejected_unchanged` (no stream is ever
selected again), and — in `Proofs/IgnoreMode.lean`, `Proofs/LoopAppend.lean`, used by `Props/C05Chain2…5` for
well-formed Stdin / Data wires — the "ignore mode" `Str.Ign p` (`stream = none ∧ state ≠ Stream`): no operation
delivers a byte (`ops_ign`); the replies for a well-formed Stdin stream skipped to its record boundary are exactly the
owed ones (`ignore_replies`, `ignore_cross_replies`).  Added here:

* `StateOK` — `stream = none → state ≠ Stream` is an invariant of every legal history from `from_parser`
  (`stateOK_ops`), so `set_stream(None)` enters ignore mode from EVERY reachable state, a held-back one included
  (`set_none_ign`);
* `after_none` — after `set_stream(None)`, over ANY legal history (further `set_stream` calls included — `Some(_)` is
  rejected, `None` a no-op): still ignore mode, nothing delivered; `none_parse_reports_end`: every `parse` call that
  returns `Ok` returns `stream = 0`, `stream_end = true`, nothing in `dest`, the stream buffer untouched;
* the contrast with `C18Held`: with no active stream NO header is held back (`none_not_held`); a header that WAS held
  back is, after `set_stream(None)`, consumed by the next `parse_head` as a record to skip, without a reply
  (`held_then_none_consumes`), and the parser goes on behind it — records of all the request's input streams are
  skipped, everything else is dispatched by the same code as before (`parse_head` looks at the active stream only in
  the input-stream branch);
* chunking: `none_split_at_boundary` (= `Str.parse_append_ign`): a call over `a ++ b` is the call over `a` followed by
  the call over `b` when the first ends on a record boundary with everything consumed.  The unrestricted statement
  `none_chunk_invariance_full` (any two legal drained histories in ignore mode over the same bytes agree on replies,
  unread bytes and position) is stated and NOT proved here — neither refuted: the `values` / padding / short-header
  stops are the same code as with an active stream, for which `C03SI.str_chunk_invariance` holds; the proof needs the
  reference simulation of `Proofs/StrHostile.lean` redone without `Match.strm` (its reference would be
  `refWire ⟨id, role, 0, mc⟩`: with a stream type that is no input stream every own input-stream record classifies as
  noise).  Nothing in this file was found false.

Non-vacuity: `Example` — the held-back `Data` header of `C18Held.Example.p1`, `set_stream(None)`, then a GetValues
record arrives and IS answered by the call that feeds it, the parser ends on a record boundary;
`set_stream(Some(Data))` afterwards is `Err`; `chunked_same`: the same bytes in four odd chunks give the same replies
and end state.  Replayed on the crate: `/verif/.run/replay-c18-none.ops` (2 cases, model = crate).
-/
namespace Fcgi.C18N
open Fcgi Fcgi.Str Fcgi.Spec
open Fcgi.Req (Request PErr)

/-! ## `stream = none → state ≠ Stream` is an invariant -/

def StateOK (p : Parser) : Prop := p.stream = none → p.state ≠ .stream

theorem stateOK_fromParser (cap : Nat) (req : Request) (input : Bytes) (mc : Nat) :
    StateOK (Parser.fromParser cap req input mc) := fun _ => by simp [Parser.fromParser]

theorem stateOK_step {p : Parser} (hinv : SInv p) (h : StateOK p) {op : Op} (hl : Legal p op) :
    StateOK (applyOp p op) := by
  cases op with
  | parse new dest =>
    by_cases hs : p.stream = none
    · exact fun _ => (parse_ign_nodata hinv ⟨hs, h hs⟩ hl).1.2
    · intro hn
      exact absurd ((C18.parse_keeps_stream p new dest).symm.trans hn) hs
  | consumeStream amt => exact h
  | compress => exact h
  | consumeOutput amt => exact h
  | setStream st =>
    simp only [applyOp]
    cases hs : p.setStream st with
    | ok p' =>
      rcases setStream_ok_cases hs with ⟨-, rfl⟩ | ⟨-, rfl, -⟩
      · exact h
      · intro _
        show (if p.state == .stream then SState.skip else p.state) ≠ .stream
        cases p.state <;> simp
    | rejected => exact h
    | panic s => exact h

theorem stateOK_ops {p : Parser} (hinv : SInv p) (h : StateOK p) : ∀ {ops : List Op}, LegalAll p ops →
    StateOK (applyOps p ops) ∧ SInv (applyOps p ops) := by
  intro ops
  induction ops generalizing p with
  | nil => intro _; exact ⟨h, hinv⟩
  | cons op t ih => intro hl; exact ih (step_safe hinv hl.1).1 (stateOK_step hinv h hl.1) hl.2

/-- **`set_stream(None)` enters ignore mode from every reachable state** (mid-record, held back, …). -/
theorem set_none_ign {p : Parser} (h : StateOK p) : Ign (applyOp p (.setStream none)) := ign_of_setNone p h

/-! ## After `set_stream(None)` -/

/-- **Permanently closed.**  After `set_stream(None)`, over any legal history — `parse` with any new input,
`consume_*`, `compress`, and further `set_stream` calls: still no active stream, and no byte is delivered. -/
theorem after_none {p : Parser} (hinv : SInv p) (h : StateOK p) {ops : List Op}
    (hl : LegalAll (applyOp p (.setStream none)) ops) :
    Ign (applyOps (applyOp p (.setStream none)) ops) ∧
    deliveredOps (applyOp p (.setStream none)) ops = [] :=
  ops_ign ops _ (step_safe hinv (op := .setStream none) trivial).1 (set_none_ign h) hl

/-- every later `set_stream(Some(_))` is `Err(SequenceError)` and changes nothing -/
theorem none_set_some_rejected {p : Parser} (h : Ign p) (s : Nat) :
    p.setStream (some s) = .rejected ∧ applyOp p (.setStream (some s)) = p := by
  have := C18.setStream_some_of_none_rejected p s h.1
  exact ⟨this, by simp [applyOp, this]⟩

/-- **What a `parse` call reports in ignore mode**: `Ok` means `stream = 0`, `stream_end = true`, nothing written
into `dest`, the stream buffer untouched. -/
theorem none_parse_reports_end {p : Parser} (hinv : SInv p) (h : Ign p) {new : Bytes} {dest : Option Nat}
    (hl : Legal p (.parse new dest)) {q : Parser} {st : Status} (hp : p.parse new dest = (q, .ok st)) :
    st.stream = 0 ∧ st.streamEnd = true ∧ st.delivered = [] ∧ q.parsed = p.parsed ∧ Ign q := by
  have heq := parse_eq_loop p new dest hinv.1 hl.1 hl.2
  have hf := SInv_feed hinv hl.2
  have hnp : ∀ s, (loop (p.feed new) dest (initStatus p)).2 ≠ .panic s := by
    intro s hs
    exact (step_safe hinv (show Legal p (.parse new dest) from hl)).2 ⟨s, by rw [heq]; exact hs⟩
  obtain ⟨a, b, c⟩ := loop_ign _ (p.feed new) dest (initStatus p) (Nat.le_refl _) hf h hnp
  have hg := loop_good (p.feed new) dest (initStatus p)
  rw [← heq, hp] at a b c hg
  obtain ⟨⟨d', hrel⟩, -⟩ := hg
  have hd : st.delivered = [] := c st rfl
  have hpar : q.parsed = p.parsed := b
  have hcnt := hrel.cnt
  have hse := hrel.se (by simp [initStatus, h.1])
  rw [hd, hpar] at hcnt
  simp only [initStatus, Parser.feed, List.length_nil] at hcnt
  exact ⟨by omega, hse, hd, hpar, a⟩

/-! ## No header is held back any more -/

theorem none_not_held {p : Parser} (h : p.stream = none) : ¬ HeldBack p := by
  rintro ⟨b0, b1, b2, b3, b4, b5, b6, b7, rest, head, -, -, -, -, hc⟩
  rw [h, Str.cmp_none] at hc
  rcases hc with ⟨hc, -⟩ | hc <;> cases hc

/-- **A header that was held back is released by `set_stream(None)`**: the unparsed bytes are untouched by the
switch, the header is no longer held back, and the next `parse_head` consumes it as the header of a record to SKIP
(state `Skip`, no reply queued) and goes on. -/
theorem held_then_none_consumes {p : Parser} (hinv : SInv p) (h : C18H.Held p) (d : Option Nat) (r : Status) :
    let q := applyOp p (.setStream none)
    q.raw = p.raw ∧ q.output = p.output ∧ ¬ HeldBack q ∧ q.isRecordBoundary = true ∧
    ∃ q', parseHead q d r = .cont q' d r ∧ q'.raw.length + 8 = p.raw.length ∧ q'.state = .skip ∧
      q'.output = p.output ∧ q'.stream = none := by
  obtain ⟨b0, b1, b2, b3, b4, b5, b6, b7, rest, head, e, hraw, hh, hid, hstr, -⟩ := HeldBack.stream hinv h.held
  obtain ⟨_, _, _, _, _, _, _, _, _, head', hraw', hh', hin, -, -⟩ := h.held
  have e1 : head' = head := by
    rw [hraw] at hraw'
    injection hraw' with a1 t1; injection t1 with a2 t2; injection t2 with a3 t3; injection t3 with a4 t4
    injection t4 with a5 t5; injection t5 with a6 t6; injection t6 with a7 t7; injection t7 with a8 t8
    subst a1 a2 a3 a4 a5 a6 a7 a8
    rw [hh] at hh'
    exact (Except.ok.inj (Option.some.inj hh')).symm
  subst e1
  have hq : applyOp p (.setStream none) = p.switchTo none := by
    simp only [applyOp, setStream_none]
    rw [if_neg (by rw [hstr]; simp)]
  intro q
  have hqe : q = p.switchTo none := hq
  have hb := h.bdry
  refine ⟨by rw [hqe]; rfl, by rw [hqe]; rfl, none_not_held (by rw [hqe]; rfl), by rw [hqe]; exact hb, ?_⟩
  have hcond : (RT.isInputStream head'.rtype && head'.requestId == (p.switchTo none).request.id) = true := by
    have : (p.switchTo none).request = p.request := rfl
    simp [hin, hid, this]
  have hrq : (p.switchTo none).raw = b0 :: b1 :: b2 :: b3 :: b4 :: b5 :: b6 :: b7 :: rest := hraw
  rw [hqe]
  refine ⟨{ { p.switchTo none with state := .skip, pay := head'.contentLength, pad := head'.paddingLength } with
      raw := rest, g1 := (p.switchTo none).g1 + 8 }, ?_, ?_, ?_, ?_, ?_⟩
  · simp only [parseHead, hrq, hh, hcond, if_true]
    have hc : cmpInputStreams (p.switchTo none).request.role head'.rtype (p.switchTo none).stream = some .lt := rfl
    rw [hc]
  · simp [hraw]
  · rfl
  · rfl
  · rfl

/-! ## Chunking -/

/-- **Splitting a call at a record boundary** (re-export of `Str.parse_append_ign`). -/
theorem none_split_at_boundary {p : Parser} {a b : Bytes} {q : Parser} {st : Status} (hinv : SInv p) (hig : Ign p)
    (hfree : (a ++ b).length ≤ p.free) (ha : p.parse a none = (q, .ok st)) (hc : Clean q) :
    (p.parse (a ++ b) none).1 = (q.parse b none).1 ∧
      okRes (p.parse (a ++ b) none).2 = okRes (q.parse b none).2 :=
  parse_append_ign hinv hig hfree ha hc

/-- The unrestricted chunk invariance in ignore mode: two legal drained histories over the same bytes leave the same
replies, the same unread bytes and the same position.  NOT proved here and not refuted (see the module doc). -/
def none_chunk_invariance_full : Prop :=
  ∀ (p : Parser) (ops₁ ops₂ : List Op), SInv p → Ign p → p.isRecordBoundary = true →
    LegalAll p ops₁ → LegalAll p ops₂ → fedBytes ops₁ = fedBytes ops₂ →
    Drained (applyOps p ops₁) → Drained (applyOps p ops₂) →
    C03S.grownAll p ops₁ = C03S.grownAll p ops₂ ∧ (applyOps p ops₁).raw = (applyOps p ops₂).raw ∧
      (applyOps p ops₁).pay = (applyOps p ops₂).pay ∧ (applyOps p ops₁).pad = (applyOps p ops₂).pad

/-! ## Non-vacuity: Held on a `Data` header, `set_stream(None)`, a GetValues behind it IS answered -/
namespace Example
open Fcgi.C18 Fcgi.C18H.Example

theorem p1_stateOK : StateOK p1 := fun h => by cases h

/-- `p1` (Filter, "AB" buffered, standing in front of the held-back `Data "xyz"` record) after `set_stream(None)` -/
def n1 : Parser := applyOp p1 (.setStream none)

theorem n1_ign : Ign n1 := set_none_ign p1_stateOK

/-- `held_then_none_consumes` applied -/
theorem n1_released : n1.raw = p1.raw ∧ ¬ HeldBack n1 :=
  let h := held_then_none_consumes p1_inv p1_held none (initStatus n1)
  ⟨h.1, h.2.2.1⟩

/-- the GetValues record arrives: the call that feeds it skips the `Data` record, ANSWERS the GetValues (32 bytes of
GetValuesResult), reports `stream = 0, end = true`, consumes everything and stands on a record boundary; the "AB" still
in the stream buffer was discarded by the switch -/
theorem behind_answered_after_none :
    (n1.parse gv none).2 = .ok { stream := 0, streamEnd := true, output := 32, delivered := [] } ∧
    (n1.parse gv none).1.output =
      [1, 10, 0, 0, 0, 18, 6, 0, 14, 2, 70, 67, 71, 73, 95, 77, 65, 88, 95, 67, 79, 78, 78, 83, 49, 48, 0, 0, 0, 0, 0, 0] ∧
    (n1.parse gv none).1.raw = [] ∧ (n1.parse gv none).1.isRecordBoundary = true ∧
    (n1.parse gv none).1.parsed = [] := by
  decide +kernel

/-- afterwards `set_stream(Some(Data))` is rejected, and more `Data` is skipped silently -/
theorem after_none_rejected :
    isRejected ((n1.parse gv none).1.setStream (some 8)) = true ∧
    ((n1.parse gv none).1.parse more (some 4)).2 = .ok { stream := 0, streamEnd := true, output := 0, delivered := [] } := by
  decide +kernel

/-- `after_none` and `none_parse_reports_end` applied to that history -/
theorem history_applied :
    deliveredOps n1 [.parse gv none, .setStream (some 8), .parse more (some 4), .consumeOutput 32] = [] :=
  (after_none p1_inv p1_stateOK (ops := [.parse gv none, .setStream (some 8), .parse more (some 4), .consumeOutput 32])
    (by decide +kernel)).2

/-- an instance of the (unproved) `none_chunk_invariance_full`: the bytes `gv ++ more` behind `set_stream(None)` in two
calls and in four odd chunks (cuts inside the GetValues header, inside its body, inside a `Data` header) — the same
replies, the same unread bytes, the same position (second case of the replay file) -/
theorem chunked_same :
    (applyOps n1 [.parse gv none, .parse more (some 4)]).output =
      (applyOps n1 [.parse (gv.take 3) none, .parse ((gv.drop 3).take 16) (some 2),
        .parse (gv.drop 19 ++ more.take 5) none, .parse (more.drop 5) none]).output ∧
    (applyOps n1 [.parse gv none, .parse more (some 4)]).raw =
      (applyOps n1 [.parse (gv.take 3) none, .parse ((gv.drop 3).take 16) (some 2),
        .parse (gv.drop 19 ++ more.take 5) none, .parse (more.drop 5) none]).raw ∧
    (applyOps n1 [.parse (gv.take 3) none, .parse ((gv.drop 3).take 16) (some 2),
        .parse (gv.drop 19 ++ more.take 5) none, .parse (more.drop 5) none]).isRecordBoundary = true := by
  decide +kernel

end Example

end Fcgi.C18N
