import Fcgi.Proofs.ReqSplit
import Fcgi.Props.C03Req
/-!
# C03 (request parser) — chunk invariance

How the input byte string is cut into `parse` calls does not matter.

* `run_split` (from `Proofs/ReqSplit`): the `State::drive` loop is resumable.
* `run_chunks`: folding the loop over chunks (each time on "leftover ++ chunk") equals one run on
  the concatenation, provided the last chunk is non-empty.
* `chunk_invariance`: buffer-aware statement for `request::Parser`.  Two legal feedings (every
  chunk non-empty and within the free buffer space at the time it is fed; feeding stops once the
  parser reports completion) of the same bytes end with the same state — the same request, or the
  same fatal error, `StuckOnInput` included —, the same unread bytes (leftover ++ bytes not fed)
  and the same output.
* `leftover_is_unread_suffix`: after completion, `input` is exactly what the one-shot run over the
  fed bytes leaves: `fed = consumed ++ input`.
-/
namespace Fcgi.C03
open Fcgi Fcgi.Req

/-! ## 1. The loop over chunks, no buffer bound -/

/-- One more chunk: drive the state reached so far on what was left followed by the chunk. -/
def accRun (mc : Nat) (acc : Out) (c : Bytes) : Out :=
  { run acc.st (acc.rem ++ c) mc with out := acc.out ++ (run acc.st (acc.rem ++ c) mc).out }

/-- Feed the chunks one after the other, carrying the unconsumed bytes along. -/
def runChunks (st : State) (mc : Nat) (cs : List Bytes) : Out :=
  cs.foldl (accRun mc) { rem := [], st := st, out := [] }

theorem foldl_accRun (mc : Nat) (cs : List Bytes) (l : Bytes) (hl : l ≠ []) :
    ∀ acc : Out, WFState acc.st → acc.panic = none →
      (cs ++ [l]).foldl (accRun mc) acc =
        { run acc.st (acc.rem ++ (cs ++ [l]).flatten) mc with
          out := acc.out ++ (run acc.st (acc.rem ++ (cs ++ [l]).flatten) mc).out } := by
  induction cs with
  | nil => intro acc _ _; simp [accRun]
  | cons c cs ih =>
    intro acc hw hp
    obtain ⟨hpanic, hw', _⟩ := run_ok (acc.rem ++ c) mc hw
    have hne : (cs ++ [l]).flatten ≠ [] := by simp [hl]
    have hs := run_split hw (acc.rem ++ c) (cs ++ [l]).flatten mc hne
    simp only [List.cons_append, List.foldl_cons, List.flatten_cons]
    rw [ih (accRun mc acc c) hw' hpanic, ← List.append_assoc, hs]
    simp only [accRun, List.append_assoc]

/-- **Chunk invariance of the loop.**  Feeding chunk after chunk — the chunks may even be empty, as
long as the last one is not — gives the remainder, state and total output of one run over the
concatenation. -/
theorem run_chunks {st : State} (hw : WFState st) (mc : Nat) (cs : List Bytes) (l : Bytes)
    (hl : l ≠ []) : runChunks st mc (cs ++ [l]) = run st (cs ++ [l]).flatten mc := by
  unfold runChunks
  rw [foldl_accRun mc cs l hl _ hw rfl]
  simp only [List.nil_append]

/-- The same for a non-empty list of non-empty chunks. -/
theorem run_chunks' {st : State} (hw : WFState st) (mc : Nat) (cs : List Bytes) (hcs : cs ≠ [])
    (hne : ∀ c ∈ cs, c ≠ []) : runChunks st mc cs = run st cs.flatten mc := by
  have h := run_chunks hw mc cs.dropLast (cs.getLast hcs) (hne _ (List.getLast_mem hcs))
  rwa [List.dropLast_concat_getLast hcs] at h

/-- With no chunk at all nothing is driven; a run on no data may move a resting values state on
(`run_nil`), so the side condition of `run_chunks` cannot simply be dropped. -/
theorem runChunks_nil (st : State) (mc : Nat) :
    runChunks st mc [] = { rem := [], st := st, out := [] } := rfl

/-! ## 2. Feeding a `request::Parser` -/

/-- Feed the chunks, one `parse` call each, and stop as soon as the parser has reported completion
(a request or a fatal error): the caller stops reading after `done`.  Result: the parser, the
concatenated output, and the chunks that were not fed.  (A panicking call — impossible for legal
feedings, `parse_total` — also stops.) -/
def feedAll : Parser → List Bytes → Parser × Bytes × List Bytes
  | p, [] => (p, [], [])
  | p, c :: cs =>
    if p.state.isFinal then (p, [], c :: cs)
    else
      match p.parse c with
      | (p', some y) => ((feedAll p' cs).1, y.output ++ (feedAll p' cs).2.1, (feedAll p' cs).2.2)
      | (p', none) => (p', [], c :: cs)

/-- A feeding is legal if every chunk that is actually fed is non-empty and fits the free space of
the input buffer at that moment (`input_buffer().len()`). -/
def LegalFeed : Parser → List Bytes → Prop
  | _, [] => True
  | p, c :: cs =>
    p.state.isFinal = true ∨ (c ≠ [] ∧ c.length ≤ p.free ∧ LegalFeed (p.parse c).1 cs)

/-- What a feeding amounts to: the final parser with the bytes not fed appended to its unread
input (so `intoRequest` yields the request and *all* bytes after the preamble, or the error), and
the concatenated output. -/
def settled (p : Parser) (cs : List Bytes) : Parser × Bytes :=
  ({ (feedAll p cs).1 with input := (feedAll p cs).1.input ++ (feedAll p cs).2.2.flatten },
    (feedAll p cs).2.1)

/-- `into_request` after the feeding, with the bytes not fed appended to the leftover. -/
def outcome (p : Parser) (cs : List Bytes) : Except PErr (Request × Bytes) × Bytes :=
  ((settled p cs).1.intoRequest, (settled p cs).2)

theorem legalFeed_of_legal {p : Parser} {cs : List Bytes} (h : Legal p cs)
    (hne : ∀ c ∈ cs, c ≠ []) : LegalFeed p cs := by
  induction cs generalizing p with
  | nil => trivial
  | cons c cs ih =>
    exact Or.inr ⟨hne c (by simp), h.1, ih h.2 (fun x hx => hne x (by simp [hx]))⟩

theorem feedAll_final {p : Parser} (hf : p.state.isFinal = true) (cs : List Bytes) :
    feedAll p cs = (p, [], cs) := by
  cases cs with
  | nil => rfl
  | cons c cs => simp only [feedAll, hf, if_true]

theorem feedAll_cons {p p' : Parser} {c : Bytes} {y : Yield} (cs : List Bytes)
    (hf : p.state.isFinal = false) (h : p.parse c = (p', some y)) :
    feedAll p (c :: cs) =
      ((feedAll p' cs).1, y.output ++ (feedAll p' cs).2.1, (feedAll p' cs).2.2) := by
  simp only [feedAll, hf, Bool.false_eq_true, if_false, h]

theorem settled_final {p : Parser} (hf : p.state.isFinal = true) (cs : List Bytes) :
    settled p cs = ({ p with input := p.input ++ cs.flatten }, []) := by
  simp only [settled, feedAll_final hf]

theorem settled_cons {p p' : Parser} {c : Bytes} {y : Yield} (cs : List Bytes)
    (hf : p.state.isFinal = false) (h : p.parse c = (p', some y)) :
    settled p (c :: cs) = ((settled p' cs).1, y.output ++ (settled p' cs).2) := by
  simp only [settled, feedAll_cons cs hf h]

/-! ### One call, in terms of `run` -/

/-- A call that does not end in `StuckOnInput`. -/
theorem parse_unstuck {p : Parser} {new : Bytes} (hp : PInv p) (hn : new.length ≤ p.free)
    (h : (run p.state (p.input ++ new) p.maxConns).st.isFinal = true ∨
      (run p.state (p.input ++ new) p.maxConns).rem.length < p.cap) :
    p.parse new =
      ({ p with input := (run p.state (p.input ++ new) p.maxConns).rem,
                state := (run p.state (p.input ++ new) p.maxConns).st },
        some { done := (run p.state (p.input ++ new) p.maxConns).st.isFinal,
               output := (run p.state (p.input ++ new) p.maxConns).out }) := by
  rw [parse_eq hp hn, if_neg]
  rcases h with h | h
  · simp [h]
  · simp only [Bool.and_eq_true, Bool.not_eq_eq_eq_not, Bool.not_true, beq_iff_eq, not_and]
    intro _; omega

/-- **Splitting a call.**  A legal call with `a ++ b` (`b` non-empty) is the call with `a` followed
— unless that already completed — by the call with `b`; the latter is legal, and the call with `a`
cannot end in `StuckOnInput` (the buffer still had room for `b`). -/
theorem parse_split {p : Parser} {a b : Bytes} (hp : PInv p) (hb : b ≠ [])
    (hn : (a ++ b).length ≤ p.free) :
    ∃ p1 o1, p.parse a = (p1, some { done := p1.state.isFinal, output := o1 }) ∧ PInv p1 ∧
      a.length ≤ p.free ∧
      ((p1.state.isFinal = true ∧
          p.parse (a ++ b) = ({ p1 with input := p1.input ++ b }, some { done := true, output := o1 })) ∨
       (p1.state.isFinal = false ∧ b.length ≤ p1.free ∧
          ∃ p2 y2, p1.parse b = (p2, some y2) ∧
            p.parse (a ++ b) = (p2, some { done := y2.done, output := o1 ++ y2.output }))) := by
  obtain ⟨hcap, hw, h24⟩ := hp
  have hp : PInv p := ⟨hcap, hw, h24⟩
  have hbl : 0 < b.length := List.length_pos_iff.mpr hb
  simp only [List.length_append, Parser.free] at hn
  have ha : a.length ≤ p.free := by simp only [Parser.free]; omega
  obtain ⟨_, hw1, hsuf1⟩ := run_ok (p.input ++ a) p.maxConns hw
  have hle1 := hsuf1.length_le
  simp only [List.length_append] at hle1
  have hsplit := run_split hw (p.input ++ a) b p.maxConns hb
  rw [List.append_assoc] at hsplit
  have h1 := parse_unstuck hp ha (Or.inr (by omega))
  generalize hR1 : run p.state (p.input ++ a) p.maxConns = R1 at *
  have hp1 : PInv { p with input := R1.rem, state := R1.st } := ⟨by simp only []; omega, hw1, h24⟩
  refine ⟨_, _, h1, hp1, ha, ?_⟩
  have hab : (a ++ b).length ≤ p.free := by simp only [List.length_append, Parser.free]; omega
  cases hf : R1.st.isFinal with
  | true =>
    left
    refine ⟨rfl, ?_⟩
    rw [run_final _ _ hf] at hsplit
    rw [parse_unstuck hp hab (Or.inl (by rw [hsplit]; exact hf)), hsplit]
    simp only [hf, List.append_nil]
  | false =>
    right
    have hb1 : b.length ≤ ({ p with input := R1.rem, state := R1.st } : Parser).free := by
      simp only [Parser.free]; omega
    refine ⟨rfl, hb1, ?_⟩
    rw [parse_eq hp1 hb1, parse_eq hp hab, hsplit]
    simp only []
    split
    · exact ⟨_, _, rfl, rfl⟩
    · exact ⟨_, _, rfl, rfl⟩

/-! ### Refining a feeding -/

/-- Cutting the first chunk in two gives a legal feeding with the same result. -/
theorem settled_refine {p : Parser} {a b : Bytes} (cs : List Bytes) (hp : PInv p) (ha : a ≠ [])
    (hb : b ≠ []) (hl : LegalFeed p ((a ++ b) :: cs)) :
    LegalFeed p (a :: b :: cs) ∧ settled p ((a ++ b) :: cs) = settled p (a :: b :: cs) := by
  cases hf : p.state.isFinal with
  | true =>
    refine ⟨Or.inl hf, ?_⟩
    rw [settled_final hf, settled_final hf]
    simp
  | false =>
    rcases hl with hl | ⟨_, hn, hl⟩
    · rw [hf] at hl; cases hl
    obtain ⟨p1, o1, h1, hp1, han, hc⟩ := parse_split hp hb hn
    have e1 : (p.parse a).1 = p1 := by rw [h1]
    rcases hc with ⟨hf1, hab⟩ | ⟨hf1, hbn, p2, y2, h2, hab⟩
    · refine ⟨Or.inr ⟨ha, han, by rw [e1]; exact Or.inl hf1⟩, ?_⟩
      rw [settled_cons cs hf hab, settled_cons (b :: cs) hf h1, settled_final hf1,
        settled_final (p := { p1 with input := p1.input ++ b }) hf1]
      simp
    · have e2 : (p1.parse b).1 = p2 := by rw [h2]
      have e3 : (p.parse (a ++ b)).1 = p2 := by rw [hab]
      rw [e3] at hl
      refine ⟨Or.inr ⟨ha, han, by rw [e1]; exact Or.inr ⟨hb, hbn, by rw [e2]; exact hl⟩⟩, ?_⟩
      rw [settled_cons cs hf hab, settled_cons (b :: cs) hf h1, settled_cons cs hf1 h2]
      simp

/-- The finest feeding: one byte per call. -/
def singles (w : Bytes) : List Bytes := w.map (fun x => [x])

theorem flatten_singles (w : Bytes) : (singles w).flatten = w := by
  induction w with
  | nil => rfl
  | cons x w ih => simp only [singles, List.map_cons, List.flatten_cons] at ih ⊢; rw [ih]; rfl

/-- Every legal feeding amounts to the byte-by-byte feeding of the same bytes. -/
theorem settled_singles (n : Nat) : ∀ (p : Parser) (cs : List Bytes), PInv p → LegalFeed p cs →
    cs.flatten.length = n → settled p cs = settled p (singles cs.flatten) := by
  induction n using Nat.strongRecOn with
  | _ n ih =>
    intro p cs hp hl hn
    cases hf : p.state.isFinal with
    | true => rw [settled_final hf, settled_final hf, flatten_singles]
    | false =>
      cases cs with
      | nil => rfl
      | cons c cs =>
        have hl0 := hl
        rcases hl with hl | ⟨hc, hcn, hl⟩
        · rw [hf] at hl; cases hl
        cases c with
        | nil => exact absurd rfl hc
        | cons x t =>
          -- a feeding `[x] :: cs'` with the same result, `cs'` carrying the rest of the bytes
          have key : ∃ cs', LegalFeed p ([x] :: cs') ∧ cs'.flatten = t ++ cs.flatten ∧
              settled p ((x :: t) :: cs) = settled p ([x] :: cs') := by
            cases t with
            | nil => exact ⟨cs, hl0, rfl, rfl⟩
            | cons y t' =>
              obtain ⟨a, b⟩ := settled_refine (a := [x]) (b := y :: t') cs hp (by simp) (by simp) hl0
              exact ⟨(y :: t') :: cs, a, rfl, b⟩
          obtain ⟨cs', hl', hfl, hs⟩ := key
          rcases hl' with hl' | ⟨_, hxn, hl'⟩
          · rw [hf] at hl'; cases hl'
          obtain ⟨y, hy, hp'⟩ := parse_total hp hxn
          have hpar : p.parse [x] = ((p.parse [x]).1, some y) := by rw [← hy]
          have hflat : ((x :: t) :: cs).flatten = x :: cs'.flatten := by
            rw [hfl]; rfl
          rw [hs, hflat]
          show settled p ([x] :: cs') = settled p ([x] :: singles cs'.flatten)
          rw [settled_cons cs' hf hpar, settled_cons (singles cs'.flatten) hf hpar]
          have hlen : cs'.flatten.length < n := by
            rw [← hn, hflat]; simp
          rw [ih _ hlen _ cs' hp' hl' rfl]

/-- **Chunk invariance of the request parser (buffer-aware, `StuckOnInput` included).**
Two legal feedings of the same bytes into the same parser (any parser satisfying the bookkeeping
invariant, in particular `Parser::new`) end in the same state — the same request or the same fatal
error —, with the same unread bytes (leftover followed by the bytes not fed), the same buffer
parameters, and the same concatenated output. -/
theorem chunk_invariance {p : Parser} {cs cs' : List Bytes} (hp : PInv p) (hl : LegalFeed p cs)
    (hl' : LegalFeed p cs') (hw : cs.flatten = cs'.flatten) : settled p cs = settled p cs' := by
  rw [settled_singles _ p cs hp hl rfl, settled_singles _ p cs' hp hl' rfl, hw]

/-- In terms of `into_request`: both feedings yield the same request with the same unread bytes,
or the same error (`StuckOnInput`, `Interrupted` if the bytes did not suffice, …), and the same
output. -/
theorem chunk_invariance_outcome {p : Parser} {cs cs' : List Bytes} (hp : PInv p)
    (hl : LegalFeed p cs) (hl' : LegalFeed p cs') (hw : cs.flatten = cs'.flatten) :
    outcome p cs = outcome p cs' := by
  unfold outcome; rw [chunk_invariance hp hl hl' hw]

/-- The statement for a freshly created parser. -/
theorem chunk_invariance_new (b mc : Nat) {cs cs' : List Bytes}
    (hl : LegalFeed (Parser.new b mc) cs) (hl' : LegalFeed (Parser.new b mc) cs')
    (hw : cs.flatten = cs'.flatten) :
    outcome (Parser.new b mc) cs = outcome (Parser.new b mc) cs' :=
  chunk_invariance_outcome (new_inv b mc) hl hl' hw

/-! ### The byte-by-byte feeding is always available -/

/-- After a legal call, an unfinished parser has room for at least one more byte: a full buffer
without completion is exactly `StuckOnInput`. -/
theorem parse_room {p : Parser} {new : Bytes} (hp : PInv p) (hn : new.length ≤ p.free) :
    (p.parse new).1.state.isFinal = false → (p.parse new).1.input.length < (p.parse new).1.cap := by
  obtain ⟨_, _, hsuf⟩ := run_ok (p.input ++ new) p.maxConns hp.2.1
  have hle := hsuf.length_le
  have h1 := hp.1
  simp only [List.length_append, Parser.free] at hle hn
  rw [parse_eq hp hn]
  split
  · intro h; cases h
  · rename_i hc
    intro hf
    simp only [hf, Bool.not_false, Bool.true_and, beq_iff_eq] at hc ⊢
    omega

theorem legalFeed_singles (w : Bytes) : ∀ (p : Parser), PInv p →
    (p.state.isFinal = false → p.input.length < p.cap) → LegalFeed p (singles w) := by
  induction w with
  | nil => intro p _ _; trivial
  | cons x w ih =>
    intro p hp hroom
    cases hf : p.state.isFinal with
    | true => exact Or.inl hf
    | false =>
      have hn : ([x] : Bytes).length ≤ p.free := by
        have := hroom hf; simp only [Parser.free, List.length_singleton]; omega
      obtain ⟨y, _, hp'⟩ := parse_total hp hn
      exact Or.inr ⟨by simp, hn, ih _ hp' (parse_room hp hn)⟩

/-- Hence every legal feeding of `w` into a fresh parser amounts to *the* byte-by-byte feeding of
`w`, which is legal: the result is a function of `w` alone. -/
theorem settled_new_canonical (b mc : Nat) {cs : List Bytes}
    (hl : LegalFeed (Parser.new b mc) cs) :
    LegalFeed (Parser.new b mc) (singles cs.flatten) ∧
      settled (Parser.new b mc) cs = settled (Parser.new b mc) (singles cs.flatten) :=
  ⟨legalFeed_singles _ _ (new_inv b mc) (fun _ => by
      have := alignedBufsize_ge b
      simp only [Parser.new, List.length_nil]; omega),
    settled_singles _ _ cs (new_inv b mc) hl rfl⟩

/-! ### The same for `feed` of `C03Req` (calls continue after completion) -/

/-- If the caller keeps calling after completion (all calls legal), the parser ends up as
`settled` says: later calls only append to the unread input (`final_sticky_feed`). -/
theorem feed_eq_settled : ∀ (cs : List Bytes) (p : Parser), PInv p → Legal p cs →
    feed p cs = (settled p cs).1 := by
  intro cs
  induction cs with
  | nil => intro p _ _; cases p; simp [feed, settled, feedAll]
  | cons c cs ih =>
    intro p hp hl
    cases hf : p.state.isFinal with
    | true => rw [final_sticky_feed _ hp hf hl, settled_final hf]
    | false =>
      obtain ⟨y, hy, hp'⟩ := parse_total hp hl.1
      have hpar : p.parse c = ((p.parse c).1, some y) := by rw [← hy]
      rw [settled_cons cs hf hpar]
      exact ih _ hp' hl.2

/-- Chunk invariance for `feed`: two sequences of legal calls with non-empty inputs carrying the
same bytes leave the same parser. -/
theorem feed_chunk_invariance {p : Parser} {cs cs' : List Bytes} (hp : PInv p) (hl : Legal p cs)
    (hl' : Legal p cs') (hne : ∀ c ∈ cs, c ≠ []) (hne' : ∀ c ∈ cs', c ≠ [])
    (hw : cs.flatten = cs'.flatten) : feed p cs = feed p cs' := by
  rw [feed_eq_settled cs p hp hl, feed_eq_settled cs' p hp hl',
    chunk_invariance hp (legalFeed_of_legal hl hne) (legalFeed_of_legal hl' hne') hw]

/-! ## 3. The leftover is the unread suffix -/

theorem feedAll_done_run {r : Request} : ∀ (cs : List Bytes) (p : Parser), PInv p → LegalFeed p cs →
    (feedAll p cs).1.state = .done r →
    ∃ fed, cs = fed ++ (feedAll p cs).2.2 ∧ (∀ c ∈ fed, c ≠ []) ∧
      (fed = [] → p.state = .done r ∧ feedAll p cs = (p, [], cs)) ∧
      run p.state (p.input ++ fed.flatten) p.maxConns =
        { rem := (feedAll p cs).1.input, st := .done r, out := (feedAll p cs).2.1 } := by
  intro cs
  induction cs with
  | nil =>
    intro p _ _ hd
    simp only [feedAll] at hd
    refine ⟨[], rfl, by simp, fun _ => ⟨hd, rfl⟩, ?_⟩
    simp only [feedAll, List.flatten_nil, List.append_nil]
    rw [hd]; exact run_final _ _ rfl
  | cons c cs ih =>
    intro p hp hl hd
    cases hf : p.state.isFinal with
    | true =>
      rw [feedAll_final hf] at hd ⊢
      simp only at hd
      refine ⟨[], rfl, by simp, fun _ => ⟨hd, rfl⟩, ?_⟩
      simp only [List.flatten_nil, List.append_nil]
      rw [hd]; exact run_final _ _ rfl
    | false =>
      rcases hl with hl | ⟨hc, hcn, hl⟩
      · rw [hf] at hl; cases hl
      obtain ⟨y, hy, hp'⟩ := parse_total hp hcn
      have hpar : p.parse c = ((p.parse c).1, some y) := by rw [← hy]
      rw [feedAll_cons cs hf hpar] at hd ⊢
      simp only at hd ⊢
      obtain ⟨fed', hcs, hne, hnil, hrun⟩ := ih _ hp' hl hd
      refine ⟨c :: fed', by rw [List.cons_append, ← hcs], ?_, (fun h => by cases h), ?_⟩
      · intro x hx
        rcases List.mem_cons.mp hx with rfl | hx
        · exact hc
        · exact hne x hx
      · -- the call with `c`, in terms of `run`
        obtain ⟨hpanic, hw1, _⟩ := run_ok (p.input ++ c) p.maxConns hp.2.1
        have hpe := parse_eq hp hcn
        generalize hR : run p.state (p.input ++ c) p.maxConns = R at *
        by_cases hstuck : (!R.st.isFinal && R.rem.length == p.cap) = true
        · -- `StuckOnInput` is final and not `done`
          exfalso
          rw [if_pos hstuck] at hpe
          have hfin : (p.parse c).1.state.isFinal = true := by rw [hpe]; rfl
          rw [feedAll_final hfin] at hd
          rw [hpe] at hd
          cases hd
        · rw [if_neg hstuck] at hpe
          have e1 : (p.parse c).1.state = R.st := by rw [hpe]
          have e2 : (p.parse c).1.input = R.rem := by rw [hpe]
          have e3 : (p.parse c).1.maxConns = p.maxConns := by rw [hpe]
          have e4 : y.output = R.out := by
            have : (p.parse c).2 = some y := hy
            rw [hpe] at this; cases this; rfl
          rw [e1, e2, e3] at hrun
          cases fed' with
          | nil =>
            obtain ⟨hst, hfa⟩ := hnil rfl
            rw [hfa]
            simp only [List.flatten_cons, List.flatten_nil, List.append_nil, hR, e2, e4]
            rw [e1] at hst
            cases R
            simp only at hst hpanic ⊢
            rw [hst, hpanic]
          | cons f fs =>
            have hfl : (f :: fs).flatten ≠ [] := by
              have := hne f (by simp)
              simp [this]
            have hs := run_split hp.2.1 (p.input ++ c) (f :: fs).flatten p.maxConns hfl
            rw [hR, hrun] at hs
            rw [List.flatten_cons, ← List.append_assoc, hs, e4]

/-- **The leftover is the unread suffix** (for C05).  After a legal feeding that ended with a
completed request, the parser's unread input is exactly what the one-shot run over the bytes fed
leaves: `fed = consumed ++ input`, where `consumed` is the prefix that run consumes; the request
and the output are those of that run, and the bytes not fed follow. -/
theorem leftover_is_unread_suffix {p : Parser} {cs : List Bytes} {r : Request} (hp : PInv p)
    (hl : LegalFeed p cs) (hd : (feedAll p cs).1.state = .done r) :
    ∃ fed consumed, cs = fed ++ (feedAll p cs).2.2 ∧
      p.input ++ fed.flatten = consumed ++ (feedAll p cs).1.input ∧
      run p.state (p.input ++ fed.flatten) p.maxConns =
        { rem := (feedAll p cs).1.input, st := .done r, out := (feedAll p cs).2.1 } := by
  obtain ⟨fed, hcs, _, _, hrun⟩ := feedAll_done_run cs p hp hl hd
  obtain ⟨_, _, ⟨consumed, hc⟩⟩ := run_ok (p.input ++ fed.flatten) p.maxConns hp.2.1
  rw [hrun] at hc
  exact ⟨fed, consumed, hcs, hc, hrun⟩

/-- For a fresh parser: `fed = consumed ++ input`, all bytes `= consumed ++ input ++ not fed`. -/
theorem leftover_is_unread_suffix_new (b mc : Nat) {cs : List Bytes} {r : Request}
    (hl : LegalFeed (Parser.new b mc) cs)
    (hd : (feedAll (Parser.new b mc) cs).1.state = .done r) :
    ∃ fed consumed, cs = fed ++ (feedAll (Parser.new b mc) cs).2.2 ∧
      fed.flatten = consumed ++ (feedAll (Parser.new b mc) cs).1.input ∧
      cs.flatten = consumed ++ ((feedAll (Parser.new b mc) cs).1.input ++
        (feedAll (Parser.new b mc) cs).2.2.flatten) ∧
      run .header fed.flatten mc =
        { rem := (feedAll (Parser.new b mc) cs).1.input, st := .done r,
          out := (feedAll (Parser.new b mc) cs).2.1 } := by
  obtain ⟨fed, consumed, hcs, hc, hrun⟩ := leftover_is_unread_suffix (new_inv b mc) hl hd
  rw [show (Parser.new b mc).input = [] from rfl, List.nil_append] at hc hrun
  rw [show (Parser.new b mc).state = .header from rfl, show (Parser.new b mc).maxConns = mc from rfl] at hrun
  refine ⟨fed, consumed, hcs, hc, ?_, hrun⟩
  conv => lhs; rw [hcs]
  rw [List.flatten_append, hc, List.append_assoc]

/-! ## 4. `run_split`, the counterexample for the empty continuation -/

/-- `Req.run_split` restated here: resumability of `State::drive`. -/
theorem run_split {st : State} (hw : WFState st) (d1 d2 : Bytes) (mc : Nat) (h2 : d2 ≠ []) :
    run st (d1 ++ d2) mc =
      { run (run st d1 mc).st ((run st d1 mc).rem ++ d2) mc with
        out := (run st d1 mc).out ++ (run (run st d1 mc).st ((run st d1 mc).rem ++ d2) mc).out } :=
  Req.run_split hw d1 d2 mc h2

/-- Without `d2 ≠ []` the statement is false (`Req.run_split_full_false`: an empty `GetValues`
record with nothing after it); what holds instead is `Req.run_split_nil`. -/
theorem run_split_full_false : ¬ Req.run_split_full := Req.run_split_full_false

/-! ## 5. Non-vacuity: concrete bytes

`BeginRequest` (id 1, responder), a `Params` record with the single pair `("A", "B")` whose name
length uses the four-byte form, and the empty `Params` record that ends the stream.  `run` and
`NV.all` are defined by well-founded recursion, which `decide` does not unfold; the values below
are computed with the unfolding lemmas instead. -/
namespace Examples

def begin_ : Bytes := [1, 1, 0, 1, 0, 8, 0, 0,  0, 1, 0, 0, 0, 0, 0, 0]
def phdr : Bytes := [1, 4, 0, 1, 0, 7, 0, 0]
def payload : Bytes := [0x80, 0, 0, 1, 1, 0x41, 0x42]
def endrec : Bytes := [1, 4, 0, 1, 0, 0, 0, 0]
/-- The whole preamble, 39 bytes. -/
def wire : Bytes := begin_ ++ phdr ++ payload ++ endrec
def i0 : Inner := { req := { id := 1, role := 1, flags := 0, env := [] }, buffer := [] }
def req : Request := { id := 1, role := 1, flags := 0, env := [([0x41], [0x42])] }

theorem cgivar_A : makeCgivar [0x41] = [0x41] := by
  simp [makeCgivar, lossy, upper, upperByte]

theorem all_payload : NV.all payload = ([([0x41], [0x42])], []) := by
  rw [C16.all_some (show NV.next payload = some (([0x41], [0x42]), []) by decide), all_nil]

theorem ps_payload : parseStream i0 payload true = .ok { req := req, buffer := [] } 7 := by
  rw [parseStream_eq i0 payload true (by decide)]
  simp only [psSpec, if_true, i0, List.nil_append, all_payload]
  have : envExtend [] [([0x41], [0x42])] = [([0x41], [0x42])] := by
    simp [envExtend, envInsert, cgivar_A]
  rw [this]; rfl

theorem wf_header : WFState .header := trivial
theorem wf_i0 (pay : Nat) (h : pay < 65536) : WFState (.params i0 pay 0) :=
  ⟨h, by decide, show NV.next [] = none by decide⟩

/-- From the middle of the Params payload on: the pair is decoded, the empty record completes. -/
theorem run_payload : run (.params i0 7 0) (payload ++ endrec) 1 =
    { rem := [], st := .done req, out := [] } := by
  refine run_cont_empty (o := []) ?_
  rw [step_params, paramsDrive_eq,
    payloadPhase_ge (i' := { req := req, buffer := [] }) (n := 7) (by decide) (by decide) ps_payload]
  decide

/-- From the Params record header on. -/
theorem run_params : run (.params i0 0 0) (phdr ++ payload ++ endrec) 1 =
    { rem := [], st := .done req, out := [] } := by
  have h : step (.params i0 0 0) (phdr ++ payload ++ endrec) 1 =
      (.cont (payload ++ endrec) (.params i0 7 0), []) := by decide
  rw [run_cont (wf_i0 0 (by decide)) h (by decide), run_payload]; rfl

/-- One shot. -/
theorem run_wire : run .header wire 1 = { rem := [], st := .done req, out := [] } := by
  have h : step .header wire 1 = (.cont (phdr ++ payload ++ endrec) (.params i0 0 0), []) := by decide
  rw [run_cont wf_header h (by decide), run_params]; rfl

/-- Cut in the middle of the Params record header (after 19 bytes): the three header bytes stay
unconsumed, the state waits for a header. -/
theorem run_cut_header : run .header (wire.take 19) 1 =
    { rem := [1, 4, 0], st := .params i0 0 0, out := [] } := by
  have h : step .header (wire.take 19) 1 = (.cont [1, 4, 0] (.params i0 0 0), []) := by decide
  have h2 : step (.params i0 0 0) [1, 4, 0] 1 = (.brk [1, 4, 0] (.params i0 0 0), []) := by decide
  rw [run_cont wf_header h (by decide), run_brk rfl h2]; rfl

theorem parseStream_prefix : parseStream i0 [0x80, 0] false = .ok i0 0 := by
  rw [parseStream_eq i0 _ false (by decide)]
  have h1 : NV.next (i0.buffer ++ [0x80, 0]) = none := by decide
  have h2 : stall i0.buffer.length (i0.buffer ++ [0x80, 0]) = 0 := by decide
  simp only [psSpec, Bool.false_eq_true, if_false, h1, if_true, h2]
  rfl

/-- Cut in the middle of the four-byte name length (after 26 bytes): the two bytes of the
length prefix stay unconsumed, the state is inside the Params payload. -/
theorem run_cut_prefix : run .header (wire.take 26) 1 =
    { rem := [0x80, 0], st := .params i0 7 0, out := [] } := by
  have h : step .header (wire.take 26) 1 = (.cont (phdr ++ [0x80, 0]) (.params i0 0 0), []) := by
    decide
  have h2 : step (.params i0 0 0) (phdr ++ [0x80, 0]) 1 = (.cont [0x80, 0] (.params i0 7 0), []) := by
    decide
  have h3 : step (.params i0 7 0) [0x80, 0] 1 = (.brk [0x80, 0] (.params i0 7 0), []) := by
    rw [step_params, paramsDrive_eq, payloadPhase_lt (by decide) (by decide) parseStream_prefix]
    rfl
  rw [run_cont wf_header h (by decide), run_cont (wf_i0 0 (by decide)) h2 (by decide), run_brk rfl h3]
  rfl

/-- Both sides of `run_split`, computed, for the cut inside the record header … -/
example :
    run .header (wire.take 19 ++ wire.drop 19) 1 = { rem := [], st := .done req, out := [] } ∧
    run .header (wire.take 19) 1 = { rem := [1, 4, 0], st := .params i0 0 0, out := [] } ∧
    run (.params i0 0 0) ([1, 4, 0] ++ wire.drop 19) 1 = { rem := [], st := .done req, out := [] } :=
  ⟨by rw [List.take_append_drop]; exact run_wire, run_cut_header, run_params⟩

/-- … and for the cut inside the length prefix. -/
example :
    run .header (wire.take 26 ++ wire.drop 26) 1 = { rem := [], st := .done req, out := [] } ∧
    run .header (wire.take 26) 1 = { rem := [0x80, 0], st := .params i0 7 0, out := [] } ∧
    run (.params i0 7 0) ([0x80, 0] ++ wire.drop 26) 1 = { rem := [], st := .done req, out := [] } :=
  ⟨by rw [List.take_append_drop]; exact run_wire, run_cut_prefix, run_payload⟩

/-- `run_split` instantiated at the two cuts (its hypotheses are satisfiable). -/
example : ∀ k ∈ [19, 26],
    run .header (wire.take k ++ wire.drop k) 1 =
      { run (run .header (wire.take k) 1).st ((run .header (wire.take k) 1).rem ++ wire.drop k) 1 with
        out := (run .header (wire.take k) 1).out ++
          (run (run .header (wire.take k) 1).st ((run .header (wire.take k) 1).rem ++ wire.drop k) 1).out } := by
  intro k hk
  refine run_split wf_header _ _ 1 ?_
  simp only [List.mem_cons, List.not_mem_nil, or_false] at hk
  rcases hk with rfl | rfl <;> decide

/-- `run_chunks` instantiated: three chunks, cut at both places. -/
example : runChunks .header 1 [wire.take 19, (wire.drop 19).take 7, wire.drop 26] =
    { rem := [], st := .done req, out := [] } := by
  have h := run_chunks wf_header 1 [wire.take 19, (wire.drop 19).take 7] (wire.drop 26)
    (by decide)
  have hfl : ([wire.take 19, (wire.drop 19).take 7] ++ [wire.drop 26]).flatten = wire := by decide
  rw [hfl, run_wire] at h
  exact h

/-! ### `request::Parser`: `Parser::new` with the minimal 24-byte buffer -/

def p0 : Parser := { cap := 24, input := [], state := .header, maxConns := 1 }
def p1 : Parser := { cap := 24, input := [1, 4, 0], state := .params i0 0 0, maxConns := 1 }
def p2 : Parser := { cap := 24, input := [], state := .done req, maxConns := 1 }
theorem new01 : Parser.new 0 1 = p0 := by decide
theorem p0_inv : PInv p0 := new01 ▸ C03.new_inv 0 1
theorem p1_inv : PInv p1 := ⟨by decide, wf_i0 0 (by decide), by decide⟩

/-- First call: 19 bytes, cut inside the Params record header. -/
theorem parse_a : p0.parse (wire.take 19) = (p1, some { done := false, output := [] }) := by
  have hr : run p0.state (p0.input ++ wire.take 19) p0.maxConns =
      { rem := [1, 4, 0], st := .params i0 0 0, out := [] } := run_cut_header
  rw [parse_unstuck p0_inv (by decide) (Or.inr (by rw [hr]; decide)), hr]
  rfl

theorem parse_b : p1.parse (wire.drop 19) = (p2, some { done := true, output := [] }) := by
  have hr : run p1.state (p1.input ++ wire.drop 19) p1.maxConns =
      { rem := [], st := .done req, out := [] } := run_params
  rw [parse_unstuck p1_inv (by decide) (Or.inl (by rw [hr]; rfl)), hr]
  rfl

theorem legal_A : LegalFeed p0 [wire.take 19, wire.drop 19] :=
  Or.inr ⟨by decide, by decide, by
    rw [parse_a]; exact Or.inr ⟨by decide, by decide, trivial⟩⟩

theorem outcome_A : outcome p0 [wire.take 19, wire.drop 19] = (.ok (req, []), []) := by
  have h1 : settled p0 [wire.take 19, wire.drop 19] = (p2, []) := by
    rw [settled_cons _ rfl parse_a, settled_cons _ rfl parse_b, settled_final rfl]
    rfl
  simp only [outcome, h1]
  rfl

/-- `chunk_invariance` instantiated: hence feeding the 39 bytes one at a time (legal by
`legalFeed_singles`) yields the same request, no leftover, no output. -/
example : outcome p0 (singles wire) = (.ok (req, []), []) := by
  rw [← outcome_A]
  exact (chunk_invariance_outcome p0_inv legal_A
    (legalFeed_singles _ _ p0_inv (fun _ => by decide)) (by rw [flatten_singles]; decide)).symm

/-- Params record announcing 100 bytes; its first pair announces a 50-byte name and a 40-byte value -/
def bighdr : Bytes := [1, 4, 0, 1, 0, 100, 0, 0]
def big : Bytes := [50, 40] ++ List.replicate 22 0x61
def p3 : Parser := { cap := 24, input := [], state := .params i0 100 0, maxConns := 1 }
def p4 : Parser := { cap := 24, input := big, state := .fatal .stuckOnInput, maxConns := 1 }
theorem p3_inv : PInv p3 := ⟨by decide, wf_i0 100 (by decide), by decide⟩

theorem run_big_hdr : run .header (begin_ ++ bighdr) 1 = { rem := [], st := .params i0 100 0, out := [] } := by
  have h : step .header (begin_ ++ bighdr) 1 = (.cont bighdr (.params i0 0 0), []) := by decide
  have h2 : step (.params i0 0 0) bighdr 1 = (.cont [] (.params i0 100 0), []) := by decide
  rw [run_cont wf_header h (by decide), run_cont_empty h2]; rfl

theorem parseStream_big : parseStream i0 big false = .ok i0 0 := by
  rw [parseStream_eq i0 _ false (by decide)]
  have h1 : NV.next (i0.buffer ++ big) = none := by decide
  have h2 : stall i0.buffer.length (i0.buffer ++ big) = 0 := by decide
  simp only [psSpec, Bool.false_eq_true, if_false, h1, if_true, h2]
  rfl

theorem run_big : run (.params i0 100 0) big 1 = { rem := big, st := .params i0 100 0, out := [] } := by
  refine run_brk rfl ?_
  rw [step_params, paramsDrive_eq, payloadPhase_lt (by decide) (by decide) parseStream_big]
  rfl

theorem parse_c1 : p0.parse (begin_ ++ bighdr) = (p3, some { done := false, output := [] }) := by
  have hr : run p0.state (p0.input ++ (begin_ ++ bighdr)) p0.maxConns =
      { rem := [], st := .params i0 100 0, out := [] } := run_big_hdr
  rw [parse_unstuck p0_inv (by decide) (Or.inr (by rw [hr]; decide)), hr]
  rfl

theorem parse_c2 : p3.parse big = (p4, some { done := true, output := [] }) := by
  have hr : run p3.state (p3.input ++ big) p3.maxConns =
      { rem := big, st := .params i0 100 0, out := [] } := run_big
  rw [parse_eq p3_inv (by decide), hr]
  rfl

theorem legal_S : LegalFeed p0 [begin_ ++ bighdr, big] :=
  Or.inr ⟨by decide, by decide, by
    rw [parse_c1]; exact Or.inr ⟨by decide, by decide, trivial⟩⟩

theorem outcome_S : outcome p0 [begin_ ++ bighdr, big] = (.error .stuckOnInput, []) := by
  have h1 : settled p0 [begin_ ++ bighdr, big] = (p4, []) := by
    rw [settled_cons _ rfl parse_c1, settled_cons _ rfl parse_c2, settled_final rfl]
    rfl
  simp only [outcome, h1]
  rfl

/-- `chunk_invariance` instantiated on a feeding that ends in `StuckOnInput` (the second call
fills the 24-byte buffer with a pair that cannot be consumed before all of its 92 bytes are
there): the byte-by-byte feeding reports the same error. -/
example : outcome p0 (singles (begin_ ++ bighdr ++ big)) = (.error .stuckOnInput, []) := by
  rw [← outcome_S]
  exact (chunk_invariance_outcome p0_inv legal_S
    (legalFeed_singles _ _ p0_inv (fun _ => by decide)) (by rw [flatten_singles]; decide)).symm

end Examples

end Fcgi.C03
