import Fcgi.Proofs.E2EScriptIndepR
import Fcgi.Props.C12Chain2
/-!
# C12 — a failing write in the last request of a chain, the fault in the script FROM THE START

`Props/C12Chain2.write_error_in_last_request_e2e` runs the first `k` requests on the benign script and puts the failing
answer into the script at the hand-over.  Here the WHOLE run — `k` complete keep-alive requests, then one more complete
request `y`, one `closedLoop` call — is on the transport `t` whose write script `pre ++ bad :: post` has the failing
answer (`.err` or `.zero`) from the start.

The new ingredient is `Proofs/E2EScriptIndep`: **a run that ends with write answers left does not depend on what is
appended to the write script** (`E2E.runTask_app`, `E2E.closedLoop_app`, for every function of the model down to
`writeV`; `Indep3.runTask_dich` is the special case of an appended script that starts with a failing answer, with a
second alternative "or the failing answer was consumed" — which the hypothesis "answers are left" excludes).  So the
prefix run on `t` IS the benign prefix run on `{t with wr := pre}` with `bad :: post` still appended, provided the
benign prefix leaves at least one answer of `pre`.

`write_error_in_last_request_e2e_whole`: let the benign prefix (on `{t with wr := pre}`) consume `n` write answers and
leave `i = |pre| - n ≥ 1` of them (`hrem`; so `bad` is the `i`-th answer, `i ≥ 1`, of the last request's own output —
NOT its very first one: with `i = 0` the benign prefix ends with an EMPTY script and "it never asked for an answer
beyond its script" is not derivable from the scripts alone; that case stays with `Props/C12Chain2`).  Then the whole
closed-loop run on `t` ends as in `Props/C12Chain2`: the failing answer is never reached (all `k + 1` requests
answered, the task parked, `bad :: post` still in the script), or it is consumed: `RET`, phase `finished`, the log is
the `k` complete segments and a byte prefix of the complete answer to `y`, the failing call was the last transport
write, `k` or `k + 1` handler starts, the error is the one `bad` produces.

`read_error_in_last_request_at_index_e2e_whole`: the same for an erroring READ answer, with `Proofs/E2EScriptIndepR`
(the same development for the read script: `E2E.runTask_appR`, `E2E.closedLoop_appR`): the read script
`pre ++ .err :: post` from the start, the benign prefix leaving `i ≥ 1` read answers of `pre`.
(The flush script plays no role: none of these runs flushes.)
-/
namespace Fcgi.C12E
open Fcgi Fcgi.Req Fcgi.Str Fcgi.Async Fcgi.Run Fcgi.Spec Fcgi.E2E Fcgi.C07E Fcgi.C07U Fcgi.C12Inv Fcgi.Indep3 Fcgi.EofErr

/-- the last leg of a closed-loop run -/
theorem closedLoop_snoc (fuel : Nat) (w : Bytes) : ∀ (ws : List Bytes) (c : Conn) (n : Nat),
    closedLoop fuel (ws ++ [w]) c n =
      (if (closedLoop fuel ws c n).2 = "STALL" then
        runTask fuel (E2E.feed (closedLoop fuel ws c n).1 w) (n + 1000 * (ws.length + 1)) none
       else closedLoop fuel ws c n)
  | [], c, n => by
    simp only [List.nil_append, closedLoop, List.length_nil]
    by_cases hf : (runTask fuel c n none).2 = "STALL"
    · simp only [hf, if_true]
    · simp only [hf, if_false]
  | v :: ws, c, n => by
    simp only [List.cons_append, closedLoop]
    by_cases hf : (runTask fuel c n none).2 = "STALL"
    · simp only [hf, if_true]
      rw [closedLoop_snoc fuel w ws (E2E.feed (runTask fuel c n none).1 v) (n + 1000)]
      have e : n + 1000 + 1000 * (ws.length + 1) = n + 1000 * ((v :: ws).length + 1) := by
        simp only [List.length_cons]; omega
      rw [e]
    · simp only [hf, if_false]

/-- **the last leg** from a parked chain state, for any poll number: the write script `pre' ++ bad :: post`,
`pre'` benign -/
theorem write_error_leg {b mc : Nat} (y : UReq) {Lw : Bytes} {h : Nat} {evs : List String} {A0 : Nat} {c₁ : Conn}
    {fuel : Nat} (n0 : Nat) (pre' : List WrAns) (bad : WrAns) (post : List WrAns) (hbad : bad = .err ∨ bad = .zero)
    (hoky : y.OKu b)
    (hw : Waiting (alignedBufsize b) mc [] Lw [y.handler] h evs A0 c₁)
    (hpre : ∀ a ∈ pre', a ≠ WrAns.err ∧ a ≠ WrAns.zero)
    (hf : c₁.env.tr.rd.length + pre'.length + 1 ≤ fuel) :
    ∃ c' fin Ay, runTask fuel (feedW c₁ y.wire (pre' ++ bad :: post)) n0 none = (c', fin) ∧ y.Seg mc Ay ∧
      ((fin = "STALL" ∧ c'.env.tr.wlog = Lw ++ Ay ∧ hsCount c'.env.tr.events = h + 1 ∧
          ∃ rest, c'.env.tr.wr = rest ++ bad :: post) ∨
       (fin = "RET" ∧ c'.phase = .finished ∧
        (∃ w, c'.env.tr.wlog = Lw ++ w ∧ w <+: Ay) ∧
        h ≤ hsCount c'.env.tr.events ∧ hsCount c'.env.tr.events ≤ h + 1 ∧
        (∃ e inH, WrErrOf bad e ∧ (inH = true → ∃ evs, c'.env.tr.events = evs ++ [handlerErrEv e])) ∧
        (∃ t1 t2, Clean (feedW c₁ y.wire (pre' ++ bad :: post)).env.tr t1 ∧ FailCall t1 t2 ∧
          WSame t2 c'.env.tr ∧ c'.env.tr.wlog = t1.wlog))) := by
  have hwW : Waiting (alignedBufsize b) mc [] Lw [y.handler] h evs (c₁.env.tr.rd.length + pre'.length) (setWr c₁ pre') :=
    ⟨hw.ph, hw.nf, hw.rem, hw.inp, hw.log, hw.logL, hw.stop,
      ⟨hw.ben.rd, hpre, hw.ben.hold, hw.ben.em⟩, hw.sc, hw.mtx, hw.hs, hw.ev, hw.segs, hw.em, Nat.le_refl _⟩
  have hsv := (hall_of_oku (mc := mc) y [] (fun z hz => by rw [List.mem_singleton.1 hz]; exact hoky)
    [] (UReq.spec mc y) [] rfl).1
  obtain ⟨c2, Ay, hrun2, hsegy, hw2⟩ := hsv [] Lw [] h evs (c₁.env.tr.rd.length + pre'.length)
    (E2E.feed (setWr c₁ pre') y.wire) n0 fuel
    ⟨(fun _ he => nomatch he), (fun _ hr => nomatch hr)⟩ (Or.inl ⟨_, hwW, rfl⟩) hf
  have hX : Bad ⟨[], bad :: post, []⟩ :=
    ⟨Or.inl rfl, Or.inr ⟨bad, post, rfl, by rcases hbad with rfl | rfl <;> rfl⟩, Or.inl rfl⟩
  have hc := feedW_ext c₁ y.wire pre' (bad :: post)
  have hp : AllProp (E2E.feed (setWr c₁ pre') y.wire) := by
    obtain ⟨phase, env, scripts, stop⟩ := c₁
    have h1 := hw.ph
    have h3 := hw.sc
    simp only at h1 h3
    subst h1 h3
    exact ⟨fun s hs => by
      have hs' : s = y.handler := by simpa [E2E.feed, setWr] using hs
      rw [hs']; exact uhandler_prop y, trivial⟩
  have hlog0 : (feedW c₁ y.wire (pre' ++ bad :: post)).env.tr.wlog = Lw := hw.log
  have hhs0 : hsCount (feedW c₁ y.wire (pre' ++ bad :: post)).env.tr.events = h := hw.hs
  rcases Indep3.runTask_dich hX fuel (E2E.feed (setWr c₁ pre') y.wire) n0 none hp with hsame | ⟨c3, h3, hhit⟩
  · rw [hrun2] at hsame
    exact ⟨extC ⟨[], bad :: post, []⟩ c2, "STALL", Ay, by rw [hc]; exact hsame, hsegy,
      Or.inl ⟨rfl, hw2.log, hw2.hs, c2.env.tr.wr, rfl⟩⟩
  · rw [hrun2] at hhit
    simp only at hhit
    have hp2 : AllProp (feedW c₁ y.wire (pre' ++ bad :: post)) := by
      rw [hc]; exact ⟨hp.1, hp.2⟩
    have hrun3 : runTask fuel (feedW c₁ y.wire (pre' ++ bad :: post)) n0 none = (c3, "RET") := by
      rw [hc]; exact h3
    obtain ⟨⟨w, hw'⟩, hge⟩ := Indep3.runTask_grow fuel (feedW c₁ y.wire (pre' ++ bad :: post)) n0 none
    rw [hrun3] at hw' hge
    simp only at hw' hge
    rw [hlog0] at hw'
    rw [hhs0] at hge
    have hpre2 := hhit.rel.log
    rw [hw', hw2.log] at hpre2
    have hwf' : WriteFailed (feedW c₁ y.wire (pre' ++ bad :: post)).env.tr c3.env.tr := by
      rcases hhit.rel.used with ⟨_, _, h, _⟩ | ⟨b', post', h, hsuf⟩ | ⟨_, _, h, _⟩
      · cases h
      · simp only [List.cons.injEq] at h
        obtain ⟨rfl, rfl⟩ := h
        obtain ⟨z, hz⟩ := hsuf
        left
        refine ⟨pre' ++ bad :: z, ?_, bad, by simp, by rcases hbad with rfl | rfl <;> rfl⟩
        show pre' ++ bad :: post = _
        rw [← hz]; simp
      · cases h
    obtain ⟨_, _, t1, t2, hcl, hfc, hws, hlog⟩ := runTask_write_failure hp2 hrun3 hwf'
    obtain ⟨e, inH, he, hlast⟩ := hhit.err
    have he' : WrErrOf bad e := by
      rcases he with ⟨⟨_, h⟩, _⟩ | ⟨⟨_, h⟩, h2⟩ | ⟨⟨_, h⟩, h2⟩ | ⟨⟨_, h⟩, _⟩
      · cases h
      · simp only [List.cons.injEq] at h; exact Or.inl ⟨h.1, h2⟩
      · simp only [List.cons.injEq] at h; exact Or.inr ⟨h.1, h2⟩
      · cases h
    have hhs := hhit.rel.hs
    rw [hw2.hs] at hhs
    exact ⟨c3, "RET", Ay, hrun3, hsegy, Or.inr ⟨rfl, hhit.ph,
      ⟨w, hw', (List.prefix_append_right_inj _).1 hpre2⟩, hge, hhs, ⟨e, inH, he', hlast⟩, t1, t2, hcl, hfc, hws, hlog⟩⟩

theorem setWr_self (c : Conn) : setWr c c.env.tr.wr = c := rfl

/-- **C12 end to end: a failing write answer in the last request of a chain — the WHOLE run on the script that has the
failing answer from the start.** -/
theorem write_error_in_last_request_e2e_whole {b mc : Nat} (x : UReq) (xs : List UReq) (y : UReq) {t : Transport}
    {fuel : Nat} (pre post : List WrAns) (bad : WrAns) (hbad : bad = .err ∨ bad = .zero)
    (hwr : t.wr = pre ++ bad :: post)
    (hok : ∀ z ∈ x :: xs, z.OKu b) (hoky : y.OKu b) (hleft : ((x :: xs).getLast (by simp)).left = [])
    (hin : t.input = x.wire) (hben : Ben { t with wr := pre }) (hem : t.endMode = .pend) (hev : hsCount t.events = 0)
    (hfuel : t.rd.length + pre.length + 1 ≤ fuel) :
    ∃ c₁ A n,
      -- the benign prefix (on the script truncated in front of the failing answer): `n` answers consumed
      closedLoop fuel (xs.map UReq.wire) (connS b mc { t with wr := pre } ((x :: xs).map UReq.handler ++ [y.handler])) 0 =
        (c₁, "STALL") ∧
      SegsAll mc (x :: xs) A ∧ c₁.env.tr.wr = pre.drop n ∧ n + c₁.env.tr.wr.length = pre.length ∧
      -- if it leaves at least one answer: the failing answer is answer `|pre| - n ≥ 1` of the last request's own output
      (c₁.env.tr.wr ≠ [] →
        ∃ c' fin Ay,
          closedLoop fuel (xs.map UReq.wire ++ [y.wire]) (connS b mc t ((x :: xs).map UReq.handler ++ [y.handler])) 0 =
            (c', fin) ∧
          y.Seg mc Ay ∧
          ((fin = "STALL" ∧ c'.env.tr.wlog = t.wlog ++ A ++ Ay ∧ hsCount c'.env.tr.events = (x :: xs).length + 1 ∧
              ∃ rest, c'.env.tr.wr = rest ++ bad :: post) ∨
           (fin = "RET" ∧ c'.phase = .finished ∧
            (∃ w, c'.env.tr.wlog = t.wlog ++ A ++ w ∧ w <+: Ay) ∧
            (x :: xs).length ≤ hsCount c'.env.tr.events ∧ hsCount c'.env.tr.events ≤ (x :: xs).length + 1 ∧
            (∃ e inH, WrErrOf bad e ∧ (inH = true → ∃ evs, c'.env.tr.events = evs ++ [handlerErrEv e])) ∧
            (∃ t0 t1 t2, Clean t0 t1 ∧ FailCall t1 t2 ∧ WSame t2 c'.env.tr ∧ c'.env.tr.wlog = t1.wlog)))) := by
  obtain ⟨c₁, A, hrun, hseg, hw, ⟨n, hn1, hn2⟩, _, _⟩ :=
    chain_prefix_s (mc := mc) (t := { t with wr := pre }) x xs [y.handler] hok hleft hin hben hem hev hfuel
  refine ⟨c₁, A, n, hrun, hseg, hn1, hn2, fun hrem => ?_⟩
  -- the prefix on the faulty script
  have ht : t = appW (bad :: post) { t with wr := pre } := by
    obtain ⟨input, endMode, rd, wr, fl, wlog, events, hold, woken, readWaker, abortKind⟩ := t
    simp only at hwr
    subst hwr
    simp [ext]
  have hc : connS b mc t ((x :: xs).map UReq.handler ++ [y.handler]) =
      appC (bad :: post) (connS b mc { t with wr := pre } ((x :: xs).map UReq.handler ++ [y.handler])) := by
    conv => lhs; rw [ht]
    rfl
  have hpre := closedLoop_app (bad :: post) fuel (xs.map UReq.wire)
    (connS b mc { t with wr := pre } ((x :: xs).map UReq.handler ++ [y.handler])) 0 (by rw [hrun]; exact hrem)
  rw [hrun] at hpre
  simp only at hpre
  -- the last leg
  have hans := hw.ans
  obtain ⟨c', fin, Ay, hleg, hsy, hcase⟩ := write_error_leg (mc := mc) y (fuel := fuel)
    (0 + 1000 * ((xs.map UReq.wire).length + 1)) c₁.env.tr.wr bad post hbad hoky hw hw.ben.wr (by
      unfold ans at hans
      show c₁.env.tr.rd.length + c₁.env.tr.wr.length + 1 ≤ fuel
      have : ({ t with wr := pre } : Transport).rd.length + ({ t with wr := pre } : Transport).wr.length = t.rd.length + pre.length := rfl
      omega)
  have hfeed : E2E.feed (appC (bad :: post) c₁) y.wire = feedW c₁ y.wire (c₁.env.tr.wr ++ bad :: post) := by
    rw [feedW_ext, setWr_self]; rfl
  refine ⟨c', fin, Ay, ?_, hsy, ?_⟩
  · rw [closedLoop_snoc, hc, hpre]
    simp only [if_true]
    rw [hfeed]
    exact hleg
  · have hlog : c₁.env.tr.wlog = t.wlog ++ A := hw.log
    rcases hcase with ⟨h1, h2, h3, h4⟩ | ⟨h1, h2, h3, h4, h5, h6, t1, t2, h7⟩
    · exact Or.inl ⟨h1, h2, h3, h4⟩
    · exact Or.inr ⟨h1, h2, h3, h4, h5, h6, _, t1, t2, h7⟩


/-! ## The read error -/

theorem setRd_self (c : Conn) : setRd c c.env.tr.rd = c := rfl

/-- **the last leg** for a read script `pre' ++ .err :: post`, any poll number -/
theorem read_error_leg {b mc : Nat} (y : UReq) {Lw : Bytes} {h : Nat} {evs : List String} {A0 : Nat} {c₁ : Conn}
    {fuel : Nat} (n0 : Nat) (pre' : List RdAns) (post : List RdAns)
    (hoky : y.OKu b)
    (hw : Waiting (alignedBufsize b) mc [] Lw [y.handler] h evs A0 c₁)
    (hpre : ∀ a ∈ pre', a ≠ RdAns.err)
    (hf : pre'.length + c₁.env.tr.wr.length + 1 ≤ fuel) :
    ∃ c' fin Ay, runTask fuel (feedR c₁ y.wire (pre' ++ .err :: post)) n0 none = (c', fin) ∧ y.Seg mc Ay ∧
      ((fin = "STALL" ∧ c'.env.tr.wlog = Lw ++ Ay ∧ hsCount c'.env.tr.events = h + 1 ∧
          ∃ rest, c'.env.tr.rd = rest ++ .err :: post) ∨
       (fin = "RET" ∧ c'.phase = .finished ∧
        (∃ w, c'.env.tr.wlog = Lw ++ w ∧ w <+: Ay) ∧
        h ≤ hsCount c'.env.tr.events ∧ hsCount c'.env.tr.events ≤ h + 1 ∧
        (∃ e inH, (e = .connectionAborted ∨ e = .transportRead) ∧
          (inH = true → ∃ evs, c'.env.tr.events = evs ++ [handlerErrEv e])))) := by
  have hwW : Waiting (alignedBufsize b) mc [] Lw [y.handler] h evs (pre'.length + c₁.env.tr.wr.length) (setRd c₁ pre') :=
    ⟨hw.ph, hw.nf, hw.rem, hw.inp, hw.log, hw.logL, hw.stop,
      ⟨hpre, hw.ben.wr, hw.ben.hold, hw.ben.em⟩, hw.sc, hw.mtx, hw.hs, hw.ev, hw.segs, hw.em, Nat.le_refl _⟩
  have hsv := (hall_of_oku (mc := mc) y [] (fun z hz => by rw [List.mem_singleton.1 hz]; exact hoky)
    [] (UReq.spec mc y) [] rfl).1
  obtain ⟨c2, Ay, hrun2, hsegy, hw2⟩ := hsv [] Lw [] h evs (pre'.length + c₁.env.tr.wr.length)
    (E2E.feed (setRd c₁ pre') y.wire) n0 fuel
    ⟨(fun _ he => nomatch he), (fun _ hr => nomatch hr)⟩ (Or.inl ⟨_, hwW, rfl⟩) hf
  have hX : Bad ⟨.err :: post, [], []⟩ := ⟨Or.inr ⟨post, rfl⟩, Or.inl rfl, Or.inl rfl⟩
  have hc := feedR_ext c₁ y.wire pre' (.err :: post)
  have hp : AllProp (E2E.feed (setRd c₁ pre') y.wire) := by
    obtain ⟨phase, env, scripts, stop⟩ := c₁
    have h1 := hw.ph
    have h3 := hw.sc
    simp only at h1 h3
    subst h1 h3
    exact ⟨fun s hs => by
      have hs' : s = y.handler := by simpa [E2E.feed, setRd] using hs
      rw [hs']; exact uhandler_prop y, trivial⟩
  have hlog0 : (feedR c₁ y.wire (pre' ++ .err :: post)).env.tr.wlog = Lw := hw.log
  have hhs0 : hsCount (feedR c₁ y.wire (pre' ++ .err :: post)).env.tr.events = h := hw.hs
  rcases Indep3.runTask_dich hX fuel (E2E.feed (setRd c₁ pre') y.wire) n0 none hp with hsame | ⟨c3, h3, hhit⟩
  · rw [hrun2] at hsame
    exact ⟨extC ⟨.err :: post, [], []⟩ c2, "STALL", Ay, by rw [hc]; exact hsame, hsegy,
      Or.inl ⟨rfl, hw2.log, hw2.hs, c2.env.tr.rd, rfl⟩⟩
  · rw [hrun2] at hhit
    simp only at hhit
    have hrun3 : runTask fuel (feedR c₁ y.wire (pre' ++ .err :: post)) n0 none = (c3, "RET") := by
      rw [hc]; exact h3
    obtain ⟨⟨w, hw'⟩, hge⟩ := Indep3.runTask_grow fuel (feedR c₁ y.wire (pre' ++ .err :: post)) n0 none
    rw [hrun3] at hw' hge
    simp only at hw' hge
    rw [hlog0] at hw'
    rw [hhs0] at hge
    have hpre2 := hhit.rel.log
    rw [hw', hw2.log] at hpre2
    obtain ⟨e, inH, he, hlast⟩ := hhit.err
    have he' : e = .connectionAborted ∨ e = .transportRead := by
      rcases he with ⟨_, h2⟩ | ⟨⟨_, h⟩, _⟩ | ⟨⟨_, h⟩, _⟩ | ⟨⟨_, h⟩, _⟩
      · exact h2
      · cases h
      · cases h
      · cases h
    have hhs := hhit.rel.hs
    rw [hw2.hs] at hhs
    exact ⟨c3, "RET", Ay, hrun3, hsegy, Or.inr ⟨rfl, hhit.ph,
      ⟨w, hw', (List.prefix_append_right_inj _).1 hpre2⟩, hge, hhs, ⟨e, inH, he', hlast⟩⟩⟩

/-- **C12 end to end: an erroring read answer in the last request of a chain — the WHOLE run on the read script that has
the error from the start.** -/
theorem read_error_in_last_request_at_index_e2e_whole {b mc : Nat} (x : UReq) (xs : List UReq) (y : UReq) {t : Transport}
    {fuel : Nat} (pre post : List RdAns) (hrd : t.rd = pre ++ .err :: post)
    (hok : ∀ z ∈ x :: xs, z.OKu b) (hoky : y.OKu b) (hleft : ((x :: xs).getLast (by simp)).left = [])
    (hin : t.input = x.wire) (hben : Ben { t with rd := pre }) (hem : t.endMode = .pend) (hev : hsCount t.events = 0)
    (hfuel : pre.length + t.wr.length + 1 ≤ fuel) :
    ∃ c₁ A n,
      closedLoop fuel (xs.map UReq.wire) (connS b mc { t with rd := pre } ((x :: xs).map UReq.handler ++ [y.handler])) 0 =
        (c₁, "STALL") ∧
      SegsAll mc (x :: xs) A ∧ c₁.env.tr.rd = pre.drop n ∧ n + c₁.env.tr.rd.length = pre.length ∧
      (c₁.env.tr.rd ≠ [] →
        ∃ c' fin Ay,
          closedLoop fuel (xs.map UReq.wire ++ [y.wire]) (connS b mc t ((x :: xs).map UReq.handler ++ [y.handler])) 0 =
            (c', fin) ∧
          y.Seg mc Ay ∧
          ((fin = "STALL" ∧ c'.env.tr.wlog = t.wlog ++ A ++ Ay ∧ hsCount c'.env.tr.events = (x :: xs).length + 1 ∧
              ∃ rest, c'.env.tr.rd = rest ++ .err :: post) ∨
           (fin = "RET" ∧ c'.phase = .finished ∧
            (∃ w, c'.env.tr.wlog = t.wlog ++ A ++ w ∧ w <+: Ay) ∧
            (x :: xs).length ≤ hsCount c'.env.tr.events ∧ hsCount c'.env.tr.events ≤ (x :: xs).length + 1 ∧
            (∃ e inH, (e = .connectionAborted ∨ e = .transportRead) ∧
              (inH = true → ∃ evs, c'.env.tr.events = evs ++ [handlerErrEv e]))))) := by
  obtain ⟨c₁, A, hrun, hseg, hw, _, _, ⟨n, hn1, hn2⟩⟩ :=
    chain_prefix_s (mc := mc) (t := { t with rd := pre }) x xs [y.handler] hok hleft hin hben hem hev hfuel
  refine ⟨c₁, A, n, hrun, hseg, hn1, hn2, fun hrem => ?_⟩
  have ht : t = appR (.err :: post) { t with rd := pre } := by
    obtain ⟨input, endMode, rd, wr, fl, wlog, events, hold, woken, readWaker, abortKind⟩ := t
    simp only at hrd
    subst hrd
    simp [ext]
  have hc : connS b mc t ((x :: xs).map UReq.handler ++ [y.handler]) =
      appCR (.err :: post) (connS b mc { t with rd := pre } ((x :: xs).map UReq.handler ++ [y.handler])) := by
    conv => lhs; rw [ht]
    rfl
  have hpre := closedLoop_appR (.err :: post) fuel (xs.map UReq.wire)
    (connS b mc { t with rd := pre } ((x :: xs).map UReq.handler ++ [y.handler])) 0 (by rw [hrun]; exact hrem)
  rw [hrun] at hpre
  simp only at hpre
  have hans := hw.ans
  obtain ⟨c', fin, Ay, hleg, hsy, hcase⟩ := read_error_leg (mc := mc) y (fuel := fuel)
    (0 + 1000 * ((xs.map UReq.wire).length + 1)) c₁.env.tr.rd post hoky hw hw.ben.rd (by
      unfold ans at hans
      have : ({ t with rd := pre } : Transport).rd.length + ({ t with rd := pre } : Transport).wr.length = pre.length + t.wr.length := rfl
      omega)
  have hfeed : E2E.feed (appCR (.err :: post) c₁) y.wire = feedR c₁ y.wire (c₁.env.tr.rd ++ .err :: post) := by
    rw [feedR_ext, setRd_self]; rfl
  refine ⟨c', fin, Ay, ?_, hsy, ?_⟩
  · rw [closedLoop_snoc, hc, hpre]
    simp only [if_true]
    rw [hfeed]
    exact hleg
  · have hlog : c₁.env.tr.wlog = t.wlog ++ A := hw.log
    rcases hcase with ⟨h1, h2, h3, h4⟩ | ⟨h1, h2, h3, h4, h5, h6⟩
    · exact Or.inl ⟨h1, h2, h3, h4⟩
    · exact Or.inr ⟨h1, h2, h3, h4, h5, h6⟩


/-! ## Non-vacuity: `ExampleChain2` with the fault in the script from the start -/
namespace ExampleChain3
open Fcgi.C01.Example Fcgi.C07E.Example ExampleChain ExampleChain2

/-- the benign part of the write script: 11 answers (replay `c12chain2-k1-err-at-2nd-write-of-2nd-request`: the first
request consumes 10 of them, so `hrem` holds and the failing answer is the 2nd own write answer of the second
request) -/
def preW : List WrAns := [.n 5, .pending, .all, .n 1, .pending, .n 7, .n 9, .all, .all, .all, .all]
/-- `exT2` with the write script `preW ++ [.err]`: the failing answer is in the script FROM THE START -/
def exT4 : Transport := { exT2 with wr := preW ++ [.err] }

/-- `q1` answered, then `q1` again, ONE closed-loop run on the faulty script: all hypotheses of
`write_error_in_last_request_e2e_whole` hold; if the benign prefix leaves an answer of `preW`, the whole run ends
parked with both requests answered, or returned with at most 2 handler starts and a prefix of the second answer -/
example : ∃ c₁ n, closedLoop 20 [] (connS 64 10 { exT4 with wr := preW }
      ([UReq.full q1].map UReq.handler ++ [(UReq.full q1).handler])) 0 = (c₁, "STALL") ∧
    c₁.env.tr.wr = preW.drop n ∧
    (c₁.env.tr.wr ≠ [] →
      ∃ c' fin, closedLoop 20 [q1.wire] (connS 64 10 exT4
          ([UReq.full q1].map UReq.handler ++ [(UReq.full q1).handler])) 0 = (c', fin) ∧
        hsCount c'.env.tr.events ≤ 2 ∧ (fin = "STALL" ∨ (fin = "RET" ∧ c'.phase = .finished))) := by
  obtain ⟨c₁, A, n, h1, _, h3, _, hw⟩ :=
    write_error_in_last_request_e2e_whole (b := 64) (mc := 10) (.full q1) [] (.full q1) (t := exT4) (fuel := 20)
      preW [] .err (Or.inl rfl) rfl
      (fun y hy => by rw [List.mem_singleton.1 hy]; exact ⟨q1_oku _, by decide⟩) ⟨q1_oku _, by decide⟩
      rfl rfl ⟨by decide, by decide, rfl, by decide⟩ rfl rfl (by decide)
  refine ⟨c₁, n, h1, h3, fun hrem => ?_⟩
  obtain ⟨c', fin, Ay, hrun, _, hcase⟩ := hw hrem
  refine ⟨c', fin, hrun, ?_, ?_⟩
  · rcases hcase with ⟨_, _, h, _⟩ | ⟨_, _, _, _, h, _⟩
    · rw [h]; decide
    · exact h
  · rcases hcase with ⟨h, _⟩ | ⟨h, hph, _⟩
    · exact Or.inl h
    · exact Or.inr ⟨h, hph⟩
end ExampleChain3

end Fcgi.C12E
