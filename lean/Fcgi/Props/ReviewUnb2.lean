import Fcgi.Props.ReviewUnb
import Fcgi.Props.C07Writers2
import Fcgi.Props.C11FilterAnysize
import Fcgi.Props.HeadlineUnb
/-!
# Review, round 2 (see `lean/UNBOUNDED_REVIEW.md`, section "Round 2")

Fresh instantiations of `C07W.single_request_writers_flush_e2e` and `C07W.writers_flush_chain_e2e` on the
connection of `Props/ReviewUnb` (id 7, buffer 64, noise that owes replies in the preamble AND mid-Stdin, short reads,
Pendings), with a script that: flushes Stderr FIRST (before any write), has a flush answered `Pending` between two
Stderr writes, an empty Stdout write, a 70 000-byte Stdout write (two records), and a last flush answered
`Pending` and then by the default answer.  Plus three sanity lemmas about `E2E.writesOf` / `fcost`.
Driver lines: `/verif/.run/replay-review-unb2.ops`.
-/
namespace Fcgi.ReviewUnb2
open Fcgi Fcgi.Req Fcgi.Str Fcgi.Async Fcgi.Run Fcgi.Spec Fcgi.E2E Fcgi.C07E Fcgi.C07U Fcgi.C07W Fcgi.ReviewUnb

/-! ## `writesOf` only erases flushes; `fcost` is `wcostAll` plus the number of flushes -/

def isFlush : WOp → Bool
  | .f _ => true
  | .w _ _ => false

/-- the writes of `writesOf W`, re-embedded, are exactly the non-flush ops of `W`, in order -/
theorem writesOf_spec : ∀ W : FList, (E2E.writesOf W).map (fun x => WOp.w x.1 x.2) = W.filter (fun o => !isFlush o)
  | [] => rfl
  | .w i d :: W => by simp [E2E.writesOf, isFlush, writesOf_spec W]
  | .f i :: W => by simp [E2E.writesOf, isFlush, writesOf_spec W]

/-- a flush-free script is the script of `Props/C07Writers`, and `writesOf` is then the identity -/
theorem flushfree_script (W : WList) (st : ExitStatus) :
    fscriptW (W.map (fun x => WOp.w x.1 x.2)) st = C07W.wscript W st := by
  simp [fscriptW, otailF, ftail, C07W.wscript, otail, wtail, wops, List.map_map, Function.comp_def, WOp.hop]

theorem flushfree_writes : ∀ W : WList, E2E.writesOf (W.map (fun x => WOp.w x.1 x.2)) = W
  | [] => rfl
  | x :: W => by simp [E2E.writesOf, flushfree_writes W]

theorem fcost_spec : ∀ W : FList, fcost W = wcostAll (E2E.writesOf W) + (W.filter isFlush).length
  | [] => rfl
  | .w i d :: W => by simp [fcost, E2E.writesOf, wcostAll, isFlush, fcost_spec W]; omega
  | .f i :: W => by
    have := fcost_spec W
    simp only [fcost, E2E.writesOf, List.filter, isFlush, List.length_cons]; omega

/-! ## The fresh script -/

def big : Bytes := List.replicate 70000 120

/-- flush Stderr first; Stderr "e1"; flush Stderr (answered `Pending`); Stderr "e2"; an empty Stdout write; 70 000
bytes to Stdout; flush Stdout -/
def rvF : FList := [.f 1, .w 1 [101, 49], .f 1, .w 1 [101, 50], .w 0 [], .w 0 big, .f 0]

/-- the transport of `ReviewUnb.rvT` with flush answers: `Ok` for the first flush, `Pending, Ok` for the second (the one
between the two Stderr writes), `Pending` for the third, which is then answered by the default -/
def rvT2 : Transport := { rvT with fl := [.ok, .pending, .ok, .pending] }

theorem rvT2_ben : Ben rvT2 := ⟨by decide, by decide, rfl, by decide⟩

theorem big_len : big.length = 70000 := List.length_replicate ..

theorem rvF_cost : fcost rvF + 20 ≤ 1000 := by
  simp only [rvF, fcost, big_len, List.length_cons, List.length_nil, wcost]
  decide

theorem rvF_writes : E2E.writesOf rvF = [(1, [101, 49]), (1, [101, 50]), (0, []), (0, big)] := rfl

/-- a second handler script waiting behind the first (never started here; it propagates errors, as `hmore` wants) -/
def rvMore : List (List HOp × Bool) := [(fscriptW [.f 0] (.complete 9), true)]

theorem rv_flush : ∃ c' fin O₁ O₂ pad res,
    runTask 20 (connS 64 10 rvT2 ((fscriptW rvF (.complete 5), true) :: rvMore)) 0 none = (c', fin) ∧
    O₁ ++ O₂ = owedStream 7 5 10 rvS ∧
    WritersOutcome rvPre rvRecs [104, 101, 108, 108, 111] [(1, [101, 49]), (1, [101, 50]), (0, []), (0, big)]
      O₁ O₂ pad res 64 10 (.complete 5) rvMore rvT2 c' fin :=
  single_request_writers_flush_e2e (p := rvPre) (recs := rvRecs) (content := [104, 101, 108, 108, 111]) (srecs := rvS)
    (b := 64) (mc := 10) (W := rvF) (st := .complete 5) (more := rvMore) (t := rvT2) (fuel := 20)
    rvRecs_wf rfl rvPairs_fit rvRecs_fits rvS_ok rvS_fits rfl rvT2_ben rfl (by decide)
    (fun s hs => by rw [List.mem_singleton.1 hs]) (by decide) rvF_cost

/-- what the four writes put on the wire: two Stderr records, nothing for the empty write, and the 70 000 bytes as a
full 65 535-byte Stdout record followed by a 4 465-byte one -/
theorem rv_flush_out : outOf 7 (E2E.writesOf rvF) =
    recordOf 7 7 [101, 49] ++ recordOf 7 7 [101, 50] ++
      (recordOf 6 7 (big.take 65535) ++ recordOf 6 7 (big.drop 65535)) := by
  rw [rvF_writes]
  rw [outOf_small 7 1 (by decide) (by decide), outOf_small 7 1 (by decide) (by decide), outOf_empty]
  have h0 : big ≠ [] := by intro h; have := congrArg List.length h; simp [big_len] at this
  have h1 : big.drop 65535 ≠ [] := by
    intro h; have := congrArg List.length h; simp [big_len] at this
  have h2 : (big.drop 65535).length ≤ 65535 := by simp [big_len]
  rw [outOf_cons, streamRecords_cons _ _ h0, streamRecords_cons _ _ h1,
    List.take_of_length_le h2, List.drop_of_length_le h2, streamRecords_nil]
  simp [outOf]

/-! ## The chain step: the flushing request, then `ReviewUnb.rvQ1` on the same connection -/

theorem rv_flush_chain : ∃ c' O₁ O₂ A,
    closedLoop 20 [(UReq.full rvQ1).wire]
      (connS 64 10 rvT2 ((fscriptW rvF (.complete 5), true) :: [(UReq.full rvQ1).handler])) 0 = (c', "STALL") ∧
    O₁ ++ O₂ = owedStream 7 5 10 rvS ∧
    c'.env.tr.wlog = rvT2.wlog ++ expectedLogW rvPre rvRecs 10 (E2E.writesOf rvF) (.complete 5) O₁ O₂ ++ A ∧
    hsCount c'.env.tr.events = 2 := by
  obtain ⟨c', O1, O2, A, h1, h2, _, h4, h5, _⟩ := writers_flush_chain_e2e (p := rvPre) (recs := rvRecs)
    (content := [104, 101, 108, 108, 111]) (srecs := rvS) (b := 64) (mc := 10) (W := rvF) (st := .complete 5)
    (UReq.full rvQ1) [] (t := rvT2) (fuel := 20) rvRecs_wf rfl rfl rvPairs_fit rvRecs_fits rvS_ok rvS_fits
    (fun y hy => by rw [List.mem_singleton.1 hy]; exact ⟨rvQ1_ok, rfl⟩) rfl rvT2_ben rfl rfl (by decide) (by decide)
    rvF_cost
  exact ⟨c', O1, O2, A, h1, h2, h4, h5⟩

/-! ## The six size-free twins of `HeadlineUnb` imply the `HeadlineExtra` citations they replace -/

theorem sent_ok_u {b : Nat} {q : Sent} (ok : q.OK b) : q.OKu b := by
  obtain ⟨hwf, hpairs, hnoise, hsn, hdn, _, hrole⟩ := ok
  refine ⟨hwf, hpairs, hnoise, hsn, hdn, ?_⟩
  cases q with
  | responder p recs content body pad res data st => exact ⟨hrole.1, hrole.2.1, by have := hrole.2.2; omega⟩
  | authorizer p recs data st => exact ⟨hrole.1, by have := hrole.2; omega⟩
  | filter p recs content body pad res content2 body2 pad2 res2 data st =>
    exact ⟨hrole.1, hrole.2.1, hrole.2.2.1, by have := hrole.2.2.2; omega⟩

theorem extra1 : type_of% @HeadlineExtra.C06_stuck_pair_e2e := by
  intros; apply HeadlineUnb.C06_stuck_pair_e2e <;> assumption
theorem extra2 : type_of% @HeadlineExtra.C06_fatal_preamble_e2e := by
  intros; apply HeadlineUnb.C06_fatal_preamble_e2e <;> assumption
theorem extra3 : type_of% @HeadlineExtra.C11_abort_in_params_alone_e2e := by
  intros; apply HeadlineUnb.C11_abort_in_params_alone_e2e <;> assumption
theorem extra4 : type_of% @HeadlineExtra.C11_abort_own_status_next_e2e := by
  intros; apply HeadlineUnb.C11_abort_own_status_next_e2e <;> first | assumption | exact sent_ok_u ‹_›
theorem extra5 : type_of% @HeadlineExtra.C12_read_error_at_index_e2e := by
  intros; apply HeadlineUnb.C12_read_error_at_index_e2e <;> first | assumption | omega
theorem extra6 : type_of% @HeadlineExtra.C12_read_err_in_preamble_e2e := by
  intros; apply HeadlineUnb.C12_read_err_in_preamble_e2e <;> assumption

end Fcgi.ReviewUnb2
