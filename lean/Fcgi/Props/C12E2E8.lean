import Fcgi.Proofs.E2EAuthErr
import Fcgi.Props.C12E2E2

/-!
# C12 — Authorizer with tail traffic, the transport FAILS behind the delivered bytes (`err` mode)

The read-error analogue of the PIECES of `C12E2E6` (`record_boundary_eof`, `close_eof_poll`,
`close_unexpected_eof_returns`): the transport (`BenE`, `endMode = .err`) delivers what it has and
answers the next read with its read error `rdErr t` (`rdErr_kinds`: `ConnectionAborted` if the
transport's `abortKind` is set, `TransportRead` otherwise).

* `record_boundary_err` — `record_boundary()` of `close()` on a cut tail: at a record boundary |
  transient `Pending` | `Err(rdErr)` — exactly the transport's error, never `UnexpectedEof` — with the
  input used up and the parser inside a record; the write log is untouched;
* `close_err_poll` — one poll of `close()`: suspended again | the task ends `finished` with the log
  untouched (the error leaves `close()` before its phases 3/4: no queued reply, no terminator, no
  `EndRequest`) | `record_boundary()` succeeded at a boundary of the tail;
* `close_read_error_returns` — the executor: a task suspended in `record_boundary()` at the end of the
  delivered input returns `RET`, `finished`, log unchanged, no handler start.

NOT done (the whole-run closed forms of `C12E2E7` for `err` mode): they need the `BenE` versions of
the other agent's `fstage_first`, `uclose_out'`/`uclose_core'`/`lstage_poll3` and of the executor
`run_stages3` (all stated for `Ben`, which excludes `endMode = err`); the last leg — the
`parse_request` of a reused connection whose read fails: swallowed, `RET` — is `trunc_runE`
(`Proofs/E2ETrunc2ErrRun`), the handler's reads of an Authorizer touch no transport (`areadsT`).
-/
namespace Fcgi.C12E
open Fcgi Fcgi.Req Fcgi.Str Fcgi.Async Fcgi.Run Fcgi.Spec Fcgi.E2E

/-- **`record_boundary()` on a cut wire, the transport fails behind it.** -/
theorem record_boundary_err {id mc cap : Nat} {R : List Rec} (hc : R2Ctx id mc cap R) {lost : Bytes}
    {sp sp' : Str.Parser} {t t' : Transport} {G dO : Bytes} {res : ORes}
    (hb : BenE t) (hem : t.endMode = .err) (hr2 : R2 id mc cap R sp G (t.input ++ lost) dO)
    (h : closeBoundary sp false t = (sp', t', res)) :
    t'.wlog = t.wlog ∧
    ((res = .ready ∧ sp'.isRecordBoundary = true) ∨
     (res = .pending ∧ t'.woken = true ∧ ans t' < ans t ∧ sp'.isRecordBoundary = false) ∨
     (res = .err t'.rdErr ∧ (t'.rdErr = .connectionAborted ∨ t'.rdErr = .transportRead) ∧ t'.input = [] ∧
        lost ≠ [] ∧ sp'.isRecordBoundary = false)) := by
  obtain ⟨_, hwl, _, hres⟩ := close_boundary_err hc hb hem hr2 (fun h => by cases h) h
  refine ⟨hwl, ?_⟩
  rcases hres with h | ⟨a, b, c, d, _⟩ | ⟨a, b, c, d, _⟩
  · exact Or.inl h
  · exact Or.inr (Or.inl ⟨a, b, c, d⟩)
  · exact Or.inr (Or.inr ⟨a, rdErr_kinds t', b, c, d⟩)

/-- **One poll of `close()` on a cut tail in `err` mode.** -/
theorem close_err_poll {id mc cap : Nat} {R : List Rec} (hc : R2Ctx id mc cap R) {lost : Bytes}
    {st : ExitStatus} {c : Conn} (h : ACloseR id mc cap R lost st c) :
    (∃ c', stepConn c = .halt c' .pending ∧ ACloseR id mc cap R lost st c' ∧
        c'.env.tr.wlog = c.env.tr.wlog ∧ c'.env.tr.woken = true ∧ ans c'.env.tr < ans c.env.tr) ∨
    (∃ c', stepConn c = .halt c' .finished ∧ c'.phase = .finished ∧
        c'.env.tr.wlog = c.env.tr.wlog ∧ c'.env.tr.input = [] ∧ lost ≠ []) ∨
    (∃ r cs sp' t', c.phase = .closing r cs st 0 ∧
        closePoll r cs st 0 c.env.mutex c.env.tr = closeTail r c.env.mutex st (sp', t', .ready) ∧
        sp'.isRecordBoundary = true ∧ t'.wlog = c.env.tr.wlog) := by
  rcases aclose_err_poll hc h with ⟨c', a, b, _, d, e, f⟩ | ⟨c', a, b, _, d, e, f⟩ | ⟨r, cs, sp', t', _, _, a, b, c0, d, _⟩
  · exact Or.inl ⟨c', a, b, d, e, f⟩
  · exact Or.inr (Or.inl ⟨c', a, b, d, e, f⟩)
  · exact Or.inr (Or.inr ⟨r, cs, sp', t', a, b, c0, d⟩)

/-- **The task returns** from a `close()` suspended in `record_boundary()` when the transport fails. -/
theorem close_read_error_returns {st : ExitStatus} {c : Conn} {r : AReq} (n fuel : Nat)
    (hph : c.phase = .closing r .inBoundary st 0) (hfree : 0 < r.sp.free)
    (hin : c.env.tr.input = []) (hem : c.env.tr.endMode = .err) (hb : BenE c.env.tr) (hsegs : c.env.segs = [])
    (hf : ans c.env.tr + 1 ≤ fuel) :
    ∃ c', runTask fuel c n none = (c', "RET") ∧ c'.phase = .finished ∧ c'.env.tr.wlog = c.env.tr.wlog ∧
      c'.env.tr.input = [] ∧ hsCount c'.env.tr.events = hsCount c.env.tr.events ∧ c'.scripts = c.scripts :=
  berr_run (ans c.env.tr) c n fuel ⟨⟨r, hph, hfree⟩, hin, hem, hb, rfl, rfl⟩ hsegs (Nat.le_refl _) hf

/-- non-vacuity: a fresh `Request` suspended in `record_boundary()`, the transport aborts -/
example : ∃ c', runTask 3 ⟨.closing (AReq.new (Str.Parser.fromParser 64 { id := 1, role := 2, flags := 1, env := [] } [] 10))
      .inBoundary (.complete 0) 0,
      { tr := { input := [], endMode := .err, rd := [.pending], wr := [], fl := [], abortKind := true }, segs := [] },
      [], false⟩ 0 none = (c', "RET") ∧ c'.phase = .finished ∧ c'.env.tr.wlog = [] :=
  let ⟨c', h1, h2, h3, _⟩ := close_read_error_returns (st := .complete 0) 0 3 rfl (by decide) rfl rfl
    ⟨by decide, by decide, rfl⟩ rfl (by decide)
  ⟨c', h1, h2, h3⟩

end Fcgi.C12E
