import Fcgi.Proofs.E2EBufRead1NF
import Fcgi.Proofs.E2EBufRead3NF
import Fcgi.Props.C07NoFuel5

/-!
# C07 — the two remaining `AsyncBufRead` theorems WITHOUT the model-fuel hypothesis

* `single_request_bufread_e2e_nofuel` = `single_request_bufread_e2e_unbounded` (`Props/C07Unbounded.lean`) minus
  `hhf : 2·n + wcost |data| + 10 ≤ 1000`: any number `n` of scripted `fill_buf`/`consume` rounds (still `|content| ≤ n`, a
  hypothesis about the SCRIPT: it reads to end of stream), any output `data`.  Engine `Proofs/E2EBufRead1NF.lean`.
* `bufread_part_e2e_nofuel` = `bufread_part_e2e_unbounded` minus `hhf : 2·n + 10 ≤ 1000`: any number of rounds.
  Engine `Proofs/E2EBufRead3NF.lean`.

Both bounds were artefacts of the handler fuel of the model, which since the script-dependent fuel (`scriptCost`) always
suffices.  With `Props/C07NoFuel5.bufread_then_readall_e2e_nofuel` no `AsyncBufRead` theorem has a cost hypothesis left.
-/
namespace Fcgi.C07B
open Fcgi Fcgi.Req Fcgi.Str Fcgi.Async Fcgi.Run Fcgi.Spec Fcgi.E2E Fcgi.C07E Fcgi.C07U

/-- **`single_request_bufread_e2e_unbounded` without `hhf`.** -/
theorem single_request_bufread_e2e_nofuel {p : Preamble} {recs : List Rec} {content : Bytes} {srecs : List Rec}
    {b mc n k : Nat} {data : Bytes} {st : ExitStatus} {more : List (List HOp × Bool)} {t : Transport} {fuel : Nat}
    (hwf : WellFormedPreamble p recs) (hrole : p.role = 1)
    (hpairs : ∀ q ∈ p.pairs, (NV.enc q).length ≤ alignedBufsize b)
    (hnoise : NoiseFits (alignedBufsize b) recs)
    (hs : StreamRecs p.id 5 content srecs) (hsn : NoiseFits (alignedBufsize b) srecs)
    (hk : 0 < k) (hn : content.length ≤ n)
    (hin : t.input = serAll recs ++ serAll srecs) (hben : Ben t) (hev : hsCount t.events = 0)
    (hfuel : t.rd.length + t.wr.length + 1 ≤ fuel) :
    ∃ c' fin O₁ O₂ shown pad res,
      runTask fuel (connS b mc t ((bscript n k data st, true) :: more)) 0 none = (c', fin) ∧
      O₁ ++ O₂ = owedStream p.id 5 mc srecs ∧
      BufReadOutcome p recs content k shown O₁ O₂ pad res b mc data st more t c' fin := by
  obtain ⟨body, pad, res, hpad, hbody, hsrecs⟩ := StreamRecs.split hs
  have hid := (pid_of_wf hwf).2
  have hsb : NoiseFits (alignedBufsize b) body := fun r hr => hsn r (by rw [hsrecs]; simp [hr])
  have ok : BROKN (cfgBR p recs content body pad res b mc n k data st t.wlog 0 more) n k :=
    ⟨hwf, hrole, hpairs, hnoise, hbody, hsb, hpad, rfl, rfl, rfl, rfl, hk, hn⟩
  have hOt : owedStream p.id 5 mc srecs = owedStream p.id 5 mc body := by
    rw [hsrecs, owedStream_append, owedStream_term p.id 5 mc _ rfl, List.append_nil]
  have htwf : (trec 5 p.id pad res).WF := ⟨hid, by simp [trec], hpad⟩
  have hidle : ∀ e ∈ [trec 5 p.id pad res], IdleNoise e := by
    intro e he
    rw [List.mem_singleton.1 he]
    exact ⟨htwf, fun hx => absurd hx (by show (5 : UInt8).toNat ≠ RT.beginRequest; decide)⟩
  have hfit : NoiseFits (alignedBufsize b) [trec 5 p.id pad res] := by
    intro e he hg
    rw [List.mem_singleton.1 he] at hg
    exact absurd hg.1 (by show (5 : UInt8).toNat ≠ RT.getValues; decide)
  obtain ⟨hns, hNF⟩ := idle_front dummy_wf b mc (fun q hq => by cases hq) (dummy_fits _) hidle hfit []
  rw [C02.serAll_single] at hns hNF
  have hst : FStage (cfgBR p recs content body pad res b mc n k data st t.wlog 0 more)
      (connS b mc t ((bscript n k data st, true) :: more)) :=
    .start (raw := []) rfl (by
      show [] ++ t.input = _
      rw [hin, hsrecs, C02.serAll_append, C02.serAll_single]; rfl) (Nat.zero_le _) rfl hben rfl rfl rfl hev
  obtain ⟨c', fin, hrun, hres⟩ := run_bufreadNF' ok (Z := serAll dummyRecs ++ []) hns hNF
    t.endMode [] _ 0 fuel hst rfl (fun s hs => by cases hs) rfl (by show ans t + 1 ≤ fuel; unfold ans; omega)
  have hro := (run_idle_out mc [trec 5 p.id pad res] hidle).1
  rw [C02.serAll_single] at hro
  have hio : idleOwed mc [trec 5 p.id pad res] = [] := by
    simp [idleOwed, owed, trec, RT.valid, RT.getValues, RT.beginRequest]
  rcases hres with ⟨⟨O1, O2, shown⟩, ⟨hkp, hO, hcont⟩, hk', hem, _, _, _, hend⟩ | ⟨hfin, ⟨O1, O2, shown, hO, hseen, hfu⟩, _, _⟩
  · have hout : ∀ F, F ++ (serAll dummyRecs ++ []) = (trec 5 p.id pad res).ser ++ (serAll dummyRecs ++ []) →
        (cfgBR p recs content body pad res b mc n k data st t.wlog 0 more).Lb O1 O2 ++ (run .header F mc).out =
        t.wlog ++ expectedLogN p recs mc data st O1 O2 := by
      intro F hF
      rw [List.append_cancel_right hF, hro, hio, List.append_nil, lb_eq]
    refine ⟨c', fin, O1, O2, shown, pad, res, hrun, hO.trans hOt.symm, ⟨hk'.hs, hk'.ev _ List.mem_cons_self⟩,
      ⟨hcont, fun s hs => hk'.ev _ (by simp [List.mem_map]; exact Or.inr (Or.inr ⟨s, hs, rfl⟩))⟩,
      hk'.ev _ (by simp), ?_, hk'.sc, ?_⟩
    · rcases hend with ⟨_, hp⟩ | ⟨_, hf⟩
      · obtain ⟨F, hF, _, _, hlg⟩ := hp.pst
        exact hlg.trans (hout F hF)
      · obtain ⟨F, hF, hlg⟩ := hf.log
        exact hlg.trans (hout F hF)
    · rcases hend with ⟨rfl, hp⟩ | ⟨rfl, hf⟩
      · obtain ⟨F, hF, hps, hph, _⟩ := hp.pst
        have hFe : F = (trec 5 p.id pad res).ser := List.append_cancel_right hF
        subst hFe
        exact Or.inr (Or.inr ⟨hkp, hem.symm.trans hp.em, rfl, hph, hp.inp, hk'.mx, hps.stop, hps.ben⟩)
      · exact Or.inr (Or.inl ⟨hkp, hem.symm.trans hf.em, rfl, hf.ph⟩)
  · exact ⟨c', fin, O1, O2, shown, pad, res, hrun, hO.trans hOt.symm, ⟨hfu.ev.1, hfu.ev.2⟩, ⟨hseen.1, hseen.2.1⟩,
      hseen.2.2, by rw [hfu.log, lb_eq], hfu.sc, Or.inl ⟨hfu.nokeep, hfin, hfu.ph⟩⟩

/-- **`bufread_part_e2e_unbounded` without `hhf`.** -/
theorem bufread_part_e2e_nofuel {p : Preamble} {recs : List Rec} {content : Bytes} {srecs : List Rec}
    {b mc n k : Nat} {st : ExitStatus} {more : List (List HOp × Bool)} {t : Transport} {fuel : Nat}
    (hwf : WellFormedPreamble p recs) (hrole : p.role = 1)
    (hpairs : ∀ q ∈ p.pairs, (NV.enc q).length ≤ alignedBufsize b)
    (hnoise : NoiseFits (alignedBufsize b) recs)
    (hs : StreamRecs p.id 5 content srecs) (hsn : NoiseFits (alignedBufsize b) srecs)
    (hnb : ∀ r ∈ srecs, r.rtype.toNat ≠ RT.beginRequest)
    (hin : t.input = serAll recs ++ serAll srecs) (hben : Ben t) (hev : hsCount t.events = 0)
    (hfuel : t.rd.length + t.wr.length + 1 ≤ fuel) :
    ∃ c' fin s₁ s₂ shown,
      runTask fuel (connS b mc t ((rounds n k ++ [.ret st], true) :: more)) 0 none = (c', fin) ∧
      BufReadPartOutcome p recs content srecs s₁ s₂ k shown b mc st more t c' fin := by
  obtain ⟨body, pad, res, hpad, hbody, hsrecs⟩ := StreamRecs.split hs
  have hid := (pid_of_wf hwf).2
  have hsb : NoiseFits (alignedBufsize b) body := fun r hr => hsn r (by rw [hsrecs]; simp [hr])
  have hstr := streamRecs_stdin hid hs
  have hR : (cfgBR3 p recs content body pad res b mc n k st t.wlog 0 more).R = srecs := by rw [hsrecs]; rfl
  have ok : BR3OKN (cfgBR3 p recs content body pad res b mc n k st t.wlog 0 more) n k :=
    ⟨hwf, hrole, hpairs, hnoise, hbody, hsb, hpad, rfl, rfl, by rw [hR]; exact hstr, rfl⟩
  have hwfs : ∀ r ∈ srecs, r.WF := fun r hr => (hstr r hr).1
  have hidle : ∀ s1 s2 : List Rec, (cfgBR3 p recs content body pad res b mc n k st t.wlog 0 more).R = s1 ++ s2 →
      ∀ e ∈ s2, IdleNoise e := by
    intro s1 s2 hsp e he
    have hm : e ∈ srecs := by rw [← hR, hsp]; exact List.mem_append_right _ he
    exact ⟨hwfs e hm, fun hx => absurd hx (hnb e hm)⟩
  have hfit : ∀ s1 s2 : List Rec, (cfgBR3 p recs content body pad res b mc n k st t.wlog 0 more).R = s1 ++ s2 →
      NoiseFits (alignedBufsize b) s2 := by
    intro s1 s2 hsp e he hg
    exact hsn e (by rw [← hR, hsp]; exact List.mem_append_right _ he) hg
  have hfront : ∀ s1 s2, (cfgBR3 p recs content body pad res b mc n k st t.wlog 0 more).R = s1 ++ s2 → _ :=
    fun s1 s2 hsp => idle_front dummy_wf b mc (fun q hq => by cases hq) (dummy_fits _) (hidle s1 s2 hsp) (hfit s1 s2 hsp) []
  have hst : FStage (cfgBR3 p recs content body pad res b mc n k st t.wlog 0 more)
      (connS b mc t ((rounds n k ++ [.ret st], true) :: more)) :=
    .start (raw := []) rfl (by
      show [] ++ t.input = _
      rw [hin, hsrecs, C02.serAll_append, C02.serAll_single]; rfl) (Nat.zero_le _) rfl hben rfl rfl rfl hev
  obtain ⟨c', fin, hrun, hres⟩ := run_bufread3NF' ok (Z := serAll dummyRecs ++ [])
    (fun s1 s2 hsp => (hfront s1 s2 hsp).1) (fun s1 s2 hsp => (hfront s1 s2 hsp).2)
    t.endMode [] _ 0 fuel hst rfl (fun s hs => by cases hs) rfl (by show ans t + 1 ≤ fuel; unfold ans; omega)
  rcases hres with ⟨⟨s1, s2, shown⟩, ⟨hsp, hpre, hkeep⟩, hk', hem, _, _, _, hend⟩ | ⟨hfin, ⟨s1, s2, hsp, ⟨shown, q1, q2⟩, hfu⟩, _, _⟩
  · have hro := (run_idle_out mc s2 (hidle s1 s2 hsp)).1
    have hout : ∀ F, F ++ (serAll dummyRecs ++ []) = serAll s2 ++ (serAll dummyRecs ++ []) →
        (gC (cfgBR3 p recs content body pad res b mc n k st t.wlog 0 more) s1 s2).LU ++ (run .header F mc).out =
        t.wlog ++ (owedPreamble p mc recs ++ owedI p.id mc s1 ++ epilogue p.id st ++ idleOwed mc s2) := by
      intro F hF
      rw [List.append_cancel_right hF, hro, lu3_eq]
      simp only [List.append_assoc]
    refine ⟨c', fin, s1, s2, shown, hrun, by rw [← hR]; exact hsp,
      ⟨hpre, fun s hs => hk'.ev _ (by simp [List.mem_map]; exact Or.inr ⟨s, hs, rfl⟩)⟩,
      ⟨hk'.hs, hk'.ev _ List.mem_cons_self⟩, hk'.sc, Or.inl ⟨hkeep, ?_, ?_⟩⟩
    · rcases hend with ⟨_, hp⟩ | ⟨_, hf⟩
      · obtain ⟨F, hF, _, _, hlg⟩ := hp.pst
        exact hlg.trans (hout F hF)
      · obtain ⟨F, hF, hlg⟩ := hf.log
        exact hlg.trans (hout F hF)
    · rcases hend with ⟨rfl, hp⟩ | ⟨rfl, hf⟩
      · obtain ⟨F, hF, hps, hph, _⟩ := hp.pst
        have hFe : F = serAll s2 := List.append_cancel_right hF
        subst hFe
        exact Or.inr ⟨hem.symm.trans hp.em, rfl, hph, hp.inp, hk'.mx, hps.stop, hps.ben⟩
      · exact Or.inl ⟨hem.symm.trans hf.em, rfl, hf.ph⟩
  · exact ⟨c', fin, s1, s2, shown, hrun, by rw [← hR]; exact hsp, ⟨q1, q2⟩, ⟨hfu.ev.1, hfu.ev.2⟩, hfu.sc,
      Or.inr ⟨hfu.nokeep, hfin, hfu.ph, by rw [hfu.log, lu3_eq]⟩⟩

namespace ExampleNoFuel7
open Fcgi.C07E.Example Fcgi.C07B.Example Fcgi.C07B.Example2 Fcgi.C07E.ExampleNoFuel

/-- the old `hhf` of `single_request_bufread_e2e_unbounded` fails for `n = 100000` rounds … -/
theorem old_hhf_fails_rounds (d : Bytes) : ¬ (2 * 100000 + wcost d.length + 10 ≤ 1000) := by omega

/-- … and for five rounds with `bigData` (70 000 000 bytes) -/
theorem old_hhf_fails_big : ¬ (2 * 5 + wcost bigData.length + 10 ≤ 1000) := by
  rw [bigData_len]; unfold wcost; omega

/-- the old `hhf` of `bufread_part_e2e_unbounded` fails for `n = 100000` rounds -/
theorem old_hhf_part_fails : ¬ (2 * 100000 + 10 ≤ 1000) := by omega

/-- `single_request_bufread_e2e_nofuel` applies for EVERY number of rounds `n ≥ |content| = 5` and every output `data`
(in particular `n = 100000`, `data = bigData`): one handler start -/
example (n : Nat) (hn : 5 ≤ n) (data : Bytes) : ∃ c' fin,
    runTask 20 (connS 64 10 bT [(bscript n 1 data (.complete 3), true)]) 0 none = (c', fin) ∧
    hsCount c'.env.tr.events = 1 := by
  obtain ⟨c', fin, O1, O2, shown, pad, res, hrun, _, ho⟩ := single_request_bufread_e2e_nofuel (p := preB) (recs := recsB)
    (content := [65, 66, 67, 68, 69]) (srecs := sB) (b := 64) (mc := 10) (n := n) (k := 1) (data := data)
    (st := .complete 3) (more := []) (t := bT) (fuel := 20)
    recsB_wf rfl (fun q hq => by cases hq) (no_getValues_fits (by decide)) sB_ok (no_getValues_fits (by decide))
    (by decide) hn rfl ⟨by decide, by decide, rfl, by decide⟩ rfl (by decide)
  exact ⟨c', fin, hrun, ho.one_handler.1⟩

/-- `bufread_part_e2e_nofuel` applies for EVERY number of rounds `n` (in particular `n = 100000`) -/
example (n : Nat) : ∃ c' fin s₁ s₂ shown,
    runTask 20 (connS 64 10 bT [(rounds n 2 ++ [.ret (.complete 3)], true)]) 0 none = (c', fin) ∧
    BufReadPartOutcome preB recsB [65, 66, 67, 68, 69] sB s₁ s₂ 2 shown 64 10 (.complete 3) [] bT c' fin :=
  bufread_part_e2e_nofuel (p := preB) (recs := recsB)
    (content := [65, 66, 67, 68, 69]) (srecs := sB) (b := 64) (mc := 10) (n := n) (k := 2)
    (st := .complete 3) (more := []) (t := bT) (fuel := 20)
    recsB_wf rfl (fun q hq => by cases hq) (no_getValues_fits (by decide)) sB_ok (no_getValues_fits (by decide))
    sB_noBegin rfl ⟨by decide, by decide, rfl, by decide⟩ rfl (by decide)

end ExampleNoFuel7

end Fcgi.C07B
