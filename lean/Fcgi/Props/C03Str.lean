import Fcgi.Proofs.StrBasics
/-!
# C03 (stream parser part) — `stream::Parser` never panics on a legal call; exact accounting

All statements are about the literal model `Model/StreamParser.lean`, in which every Rust panic
site is an explicit `.panic` outcome.  Foundation: `Proofs/StrBasics.lean`.

* `fromParser_inv`, `parse_total`, `iter_ok`, `loop_ok`, `*_inv`, `trace_total` — totality and the
  geometry invariant;
* `counts_exact`, `counts_err`, `bytes_conserved` — `Status` counts are exact (also used by C04);
* `err_sticky`, `err_state_*` — a fatal error is permanent;
* `consume_output_fifo`, `output_ledger_step`, `output_ledger` — the reply buffer is a FIFO (C04).
-/
namespace Fcgi.C03S
open Fcgi Fcgi.Str
open Fcgi.Req (Request PErr)

/-! ## A.1 The invariant and its establishment -/

/-- `SInv` spelled out (it is exactly the requested conjunction; no extra conjunct was needed). -/
theorem SInv_iff (p : Parser) :
    SInv p ↔ (p.freeStart ≤ p.cap ∧ p.pay < 65536 ∧ p.pad < 256 ∧
      (match p.state with | .values v => v < 8 | _ => True) ∧
      (p.stream = none ∨ ∃ s, p.stream = some s ∧ s ∈ inputStreams p.request.role) ∧
      p.request.id < 65536) := Iff.rfl

theorem fromParser_inv (cap : Nat) (req : Request) (input : Bytes) (mc : Nat)
    (hlen : input.length ≤ cap) (hid : req.id < 65536) :
    SInv (Parser.fromParser cap req input mc) := SInv_fromParser cap req input mc hlen hid

/-! ## A.2 Totality -/

/-- One loop iteration from an invariant state: no panic, invariant and geometry kept, and a
`Continue` strictly shortens `raw` (so the model's progress guard cannot fail). -/
theorem iter_ok (p : Parser) (dest : Option Nat) (res : Status) (hinv : SInv p) :
    match iter p dest res with
    | .cont p' _ _ => SInv p' ∧ p'.freeStart = p.freeStart ∧ p'.cap = p.cap ∧
        p'.raw.length < p.raw.length
    | .stop p' _ => SInv p' ∧ p'.freeStart = p.freeStart ∧ p'.cap = p.cap
    | .err p' _ => SInv p' ∧ p'.freeStart = p.freeStart ∧ p'.cap = p.cap
    | .panic _ => False := by
  have h := iter_good p dest res
  revert h
  generalize iter p dest res = it
  cases it with
  | cont p' d' r' => exact fun h => ⟨h.2.2 hinv, h.1.fs, h.1.cap, h.2.1⟩
  | stop p' r' => exact fun h => ⟨h.2 hinv, h.1.choose_spec.fs, h.1.choose_spec.cap⟩
  | err p' e =>
    rintro ⟨⟨d', r', hr⟩, h2, -⟩
    exact ⟨h2 hinv, hr.fs, hr.cap⟩
  | panic s => exact fun h => h hinv

/-- The progress guard of `loop` never fails — for any state, not only invariant ones. -/
theorem iter_progress (p : Parser) (dest : Option Nat) (res : Status) {p' : Parser}
    {d' : Option Nat} {r' : Status} (h : iter p dest res = .cont p' d' r') :
    p'.raw.length < p.raw.length := by
  have hg := iter_good p dest res
  rw [h] at hg
  exact hg.2.1

theorem loop_ok (p : Parser) (dest : Option Nat) (res : Status) (hinv : SInv p) :
    match loop p dest res with
    | (p', .ok _) => SInv p' ∧ p'.freeStart = p.freeStart ∧ p'.cap = p.cap
    | (p', .err _) => SInv p' ∧ p'.freeStart = p.freeStart ∧ p'.cap = p.cap
    | (_, .panic _) => False := by
  have h := loop_good p dest res
  revert h
  generalize loop p dest res = out
  obtain ⟨p', pr⟩ := out
  cases pr with
  | ok st => exact fun h => ⟨h.2 hinv, h.1.choose_spec.fs, h.1.choose_spec.cap⟩
  | err e =>
    rintro ⟨⟨d', r', hr⟩, h2, -⟩
    exact ⟨h2 hinv, hr.fs, hr.cap⟩
  | panic s => exact fun h => h.2 hinv

/-- Every legal `parse` call returns `Ok` or `Err`, keeps the invariant, accounts exactly the new
input (`free_start += new_input`) and does not touch capacity, request, active stream, config. -/
theorem parse_total (p : Parser) (new : Bytes) (dest : Option Nat) (hinv : SInv p)
    (hd : dest = none ∨ p.parsed = []) (hfree : new.length ≤ p.free) :
    match p.parse new dest with
    | (p', .ok _) => SInv p' ∧ p'.freeStart = p.freeStart + new.length ∧ p'.cap = p.cap ∧
        p'.request = p.request ∧ p'.stream = p.stream ∧ p'.maxConns = p.maxConns ∧ p'.g0 = p.g0
    | (p', .err _) => SInv p' ∧ p'.freeStart = p.freeStart + new.length ∧ p'.cap = p.cap ∧
        p'.request = p.request ∧ p'.stream = p.stream ∧ p'.maxConns = p.maxConns ∧ p'.g0 = p.g0
    | (_, .panic _) => False := by
  have h := parse_good p new dest hinv.1 hd hfree
  have hf := SInv_feed hinv hfree
  have hfs : (p.feed new).freeStart = p.freeStart + new.length := by
    simp [Parser.feed, Parser.freeStart]; omega
  revert h
  generalize p.parse new dest = out
  obtain ⟨p', pr⟩ := out
  cases pr with
  | ok st =>
    rintro ⟨⟨d', hr⟩, h2⟩
    exact ⟨h2 hf, hr.fs.trans hfs, hr.cap, hr.req, hr.strm, hr.mc, hr.g0⟩
  | err e =>
    rintro ⟨⟨d', r', hr⟩, h2, -⟩
    exact ⟨h2 hf, hr.fs.trans hfs, hr.cap, hr.req, hr.strm, hr.mc, hr.g0⟩
  | panic s => exact fun h => h.2 hf

theorem consumeStream_inv {p : Parser} (h : SInv p) (amt : Nat) : SInv (p.consumeStream amt) :=
  SInv_consumeStream h amt
theorem compress_inv {p : Parser} (h : SInv p) : SInv p.compress := SInv_compress h
theorem consumeOutput_inv {p : Parser} (h : SInv p) (amt : Nat) : SInv (p.consumeOutput amt) :=
  SInv_consumeOutput h amt
theorem discardStream_inv {p : Parser} (h : SInv p) : SInv p.discardStream := SInv_discardStream h
theorem setStream_inv {p p' : Parser} {st : Option Nat} (h : SInv p)
    (hr : p.setStream st = .ok p') : SInv p' := SInv_setStream h hr

/-- `compress` really frees the gaps: afterwards `free = cap - (parsed + raw)`. -/
theorem compress_free (p : Parser) :
    p.compress.free = p.cap - (p.parsed.length + p.raw.length) ∧ p.compress.parsed = p.parsed ∧
      p.compress.raw = p.raw ∧ p.compress.output = p.output := by
  simp [Parser.compress, Parser.free, Parser.freeStart]

/-- `set_stream` with `None` or an input-stream type never panics from an invariant state. -/
theorem setStream_total {p : Parser} (hinv : SInv p) (st : Option Nat)
    (hst : ∀ s, st = some s → RT.isInputStream s = true) :
    (∃ p', p.setStream st = .ok p' ∧ SInv p') ∨ p.setStream st = .rejected := by
  have hl : Legal p (.setStream st) := by
    cases st with
    | none => trivial
    | some s => exact hst s rfl
  have h := step_safe hinv hl
  simp only [applyOp, Panics] at h
  cases hr : p.setStream st with
  | ok p' => rw [hr] at h; exact Or.inl ⟨p', rfl, h.1⟩
  | rejected => exact Or.inr rfl
  | panic s => rw [hr] at h; exact absurd ⟨s, rfl⟩ h.2

/-- Whole traces: starting from a freshly created parser (or any invariant state), any sequence of
legal calls — `parse` with `new ≤ input_buffer().len()` and (`dest = None` or an empty stream
buffer), `consume_stream`, `compress`, `consume_output`, `set_stream` with `None` or an
input-stream type — never panics, and the invariant holds afterwards. -/
theorem trace_total {p : Parser} (hinv : SInv p) {ops : List Op} (hl : LegalAll p ops) :
    SInv (applyOps p ops) ∧ ¬ PanicsAny p ops := trace_safe hinv hl

/-! ## A.3 Exact accounting -/

theorem counts_exact {p p' : Parser} {new : Bytes} {dest : Option Nat} {st : Status}
    (hcap : p.freeStart ≤ p.cap) (hd : dest = none ∨ p.parsed = []) (hfree : new.length ≤ p.free)
    (h : p.parse new dest = (p', .ok st)) :
    (∃ o, p'.output = p.output ++ o ∧ o.length = st.output) ∧
    (dest = none → ∃ d, p'.parsed = p.parsed ++ d ∧ d.length = st.stream ∧ st.delivered = []) ∧
    (∀ n, dest = some n → p'.parsed = [] ∧ p.parsed = [] ∧ st.delivered.length = st.stream ∧
      st.stream ≤ n) ∧
    (∃ consumed, p.raw ++ new = consumed ++ p'.raw) := by
  have hg := parse_good p new dest hcap hd hfree
  rw [h] at hg
  obtain ⟨⟨d', hr⟩, -⟩ := hg
  refine ⟨?_, ?_, ?_, ?_⟩
  · obtain ⟨o, ho⟩ := hr.out_pre
    refine ⟨o, ho.symm, ?_⟩
    have h1 := hr.out_len
    have h2 := congrArg List.length ho
    simp [Parser.feed, initStatus] at h1 h2; omega
  · intro hn
    obtain ⟨d, hd'⟩ := hr.par_pre
    have h1 := hr.cnt
    have h2 := congrArg List.length hd'
    have h3 := hr.dnone hn
    simp only [initStatus] at h3
    simp [Parser.feed, initStatus, h3] at h1 h2
    exact ⟨d, hd'.symm, by omega, h3⟩
  · intro n hn
    have hp : p.parsed = [] := by
      rcases hd with hd | hd
      · rw [hd] at hn; cases hn
      · exact hd
    have h1 := hr.cnt
    have h2 := hr.dpar (by rw [hn]; rfl)
    have h3 := hr.dcap
    simp only [Parser.feed] at h2
    simp [Parser.feed, initStatus, h2, hp, hn] at h1 h3
    exact ⟨h2.trans hp, hp, by omega, by omega⟩
  · obtain ⟨c, hc⟩ := hr.raw_suf
    exact ⟨c, hc.symm⟩

/-- On `Err`: output only grows at its tail, `parsed` only grows at its tail, raw input is
consumed from the front. -/
theorem counts_err {p p' : Parser} {new : Bytes} {dest : Option Nat} {e : PErr}
    (hcap : p.freeStart ≤ p.cap) (hd : dest = none ∨ p.parsed = []) (hfree : new.length ≤ p.free)
    (h : p.parse new dest = (p', .err e)) :
    (∃ o, p'.output = p.output ++ o) ∧ (∃ d, p'.parsed = p.parsed ++ d) ∧
    (dest ≠ none → p'.parsed = []) ∧
    (∃ consumed, p.raw ++ new = consumed ++ p'.raw) := by
  have hg := parse_good p new dest hcap hd hfree
  rw [h] at hg
  obtain ⟨⟨d', r', hr⟩, -⟩ := hg
  refine ⟨?_, ?_, ?_, ?_⟩
  · obtain ⟨o, ho⟩ := hr.out_pre; exact ⟨o, ho.symm⟩
  · obtain ⟨d, hd'⟩ := hr.par_pre; exact ⟨d, hd'.symm⟩
  · intro hn
    have hp : p.parsed = [] := by
      rcases hd with hd | hd
      · exact absurd hd hn
      · exact hd
    have := hr.dpar (by cases dest with | none => exact absurd rfl hn | some n => rfl)
    exact this.trans hp
  · obtain ⟨c, hc⟩ := hr.raw_suf; exact ⟨c, hc.symm⟩

/-- Byte conservation, for either outcome: the unparsed input afterwards is a suffix of the
unparsed input before followed by the new bytes — nothing is reordered, duplicated or invented. -/
theorem bytes_conserved {p : Parser} {new : Bytes} {dest : Option Nat}
    (hcap : p.freeStart ≤ p.cap) (hd : dest = none ∨ p.parsed = []) (hfree : new.length ≤ p.free) :
    ∃ consumed, p.raw ++ new = consumed ++ (p.parse new dest).1.raw := by
  have hg := parse_good p new dest hcap hd hfree
  revert hg
  generalize p.parse new dest = out
  obtain ⟨p', pr⟩ := out
  have key : ∀ d' r', Rel (p.feed new) dest (initStatus p) p' d' r' →
      ∃ consumed, p.raw ++ new = consumed ++ p'.raw := by
    intro d' r' hr
    obtain ⟨c, hc⟩ := hr.raw_suf; exact ⟨c, hc.symm⟩
  cases pr with
  | ok st => rintro ⟨⟨d', hr⟩, -⟩; exact key _ _ hr
  | err e => rintro ⟨⟨d', r', hr⟩, -⟩; exact key _ _ hr
  | panic s => rintro ⟨⟨d', r', hr⟩, -⟩; exact key _ _ hr

/-! ## A.4 Errors are sticky -/

/-- The state a failed `parse` leaves behind: at a record boundary, with the offending header
still at the head of `raw`. -/
def ErrState (q : Parser) (e : PErr) : Prop :=
  SInv q ∧ q.pay = 0 ∧ q.pad = 0 ∧ headErr q.raw q.request.id = some e

/-- What `ErrState` means on the wire; `Error::Protocol` cannot occur. -/
theorem ErrState.wire {q : Parser} {e : PErr} (h : ErrState q e) :
    ∃ b0 b1 b2 b3 b4 b5 b6 b7 rest, q.raw = b0 :: b1 :: b2 :: b3 :: b4 :: b5 :: b6 :: b7 :: rest ∧
      ((b0.toNat ≠ 1 ∧ e = .unknownVersion b0) ∨
       (b0.toNat = 1 ∧ b1.toNat = RT.abortRequest ∧ be16 b2 b3 = q.request.id ∧ e = .abortRequest)) :=
  headErr_some h.2.2.2

theorem err_enters {p p' : Parser} {new : Bytes} {dest : Option Nat} {e : PErr} (hinv : SInv p)
    (hd : dest = none ∨ p.parsed = []) (hfree : new.length ≤ p.free)
    (h : p.parse new dest = (p', .err e)) : ErrState p' e := by
  have hg := parse_good p new dest hinv.1 hd hfree
  rw [h] at hg
  obtain ⟨-, h2, h3, h4, h5⟩ := hg
  exact ⟨h2 (SInv_feed hinv hfree), h3, h4, h5⟩

/-- In an error state every legal `parse` returns the same error, appends nothing to `output`
or `parsed`, only accounts the new input, and the state is again an error state. -/
theorem err_state_parse {q : Parser} {e : PErr} (h : ErrState q e) (new : Bytes)
    (dest : Option Nat) (hd : dest = none ∨ q.parsed = []) (hfree : new.length ≤ q.free) :
    q.parse new dest = (q.feed new, .err e) ∧ ErrState (q.feed new) e := by
  obtain ⟨h1, h2, h3, h4⟩ := h
  exact ⟨err_repeat h2 h3 h4 new dest h1.1 hd hfree,
    SInv_feed h1 hfree, h2, h3, headErr_append new h4⟩

/-- The other operations do not leave the error state either. -/
theorem err_state_op {q : Parser} {e : PErr} (h : ErrState q e) {op : Op} (hl : Legal q op) :
    ErrState (applyOp q op) e := by
  obtain ⟨h1, h2, h3, h4⟩ := h
  cases op with
  | parse new dest =>
    obtain ⟨ha, hb⟩ := err_state_parse ⟨h1, h2, h3, h4⟩ new dest hl.1 hl.2
    simp only [applyOp, ha]; exact hb
  | consumeStream amt => exact ⟨SInv_consumeStream h1 amt, h2, h3, h4⟩
  | compress => exact ⟨SInv_compress h1, h2, h3, h4⟩
  | consumeOutput amt => exact ⟨h1, h2, h3, h4⟩
  | setStream st =>
    simp only [applyOp]
    cases hr : q.setStream st with
    | ok p' =>
      refine ⟨SInv_setStream h1 hr, ?_⟩
      rcases setStream_ok_cases hr with ⟨-, rfl⟩ | ⟨-, rfl, -⟩
      · exact ⟨h2, h3, h4⟩
      · exact ⟨h2, h3, h4⟩
    | rejected => exact ⟨h1, h2, h3, h4⟩
    | panic s => exact ⟨h1, h2, h3, h4⟩

theorem err_sticky {p p' : Parser} {new : Bytes} {dest : Option Nat} {e : PErr} (hinv : SInv p)
    (hd : dest = none ∨ p.parsed = []) (hfree : new.length ≤ p.free)
    (h : p.parse new dest = (p', .err e)) :
    p'.pay = 0 ∧ p'.pad = 0 ∧ headErr p'.raw p'.request.id = some e ∧
    (∀ dest', (dest' = none ∨ p'.parsed = []) → p'.parse [] dest' = (p', .err e)) ∧
    (∀ new' dest', (dest' = none ∨ p'.parsed = []) → new'.length ≤ p'.free →
      (p'.parse new' dest').2 = .err e ∧ (p'.parse new' dest').1.output = p'.output ∧
      (p'.parse new' dest').1.parsed = p'.parsed ∧
      (p'.parse new' dest').1.raw = p'.raw ++ new') := by
  have hs := err_enters hinv hd hfree h
  refine ⟨hs.2.1, hs.2.2.1, hs.2.2.2, ?_, ?_⟩
  · intro dest' hd'
    have := (err_state_parse hs [] dest' hd' (by simp)).1
    simpa using this
  · intro new' dest' hd' hfree'
    rw [(err_state_parse hs new' dest' hd' hfree').1]
    exact ⟨rfl, rfl, rfl, rfl⟩

/-- After an error, any legal trace keeps failing with the same error on every `parse`. -/
theorem err_sticky_trace {q : Parser} {e : PErr} (h : ErrState q e) {ops : List Op}
    (hl : LegalAll q ops) : ErrState (applyOps q ops) e := by
  induction ops generalizing q with
  | nil => exact h
  | cons op t ih => exact ih (err_state_op h hl.1) hl.2

/-! ## A.5 The reply buffer is a FIFO (C04) -/

theorem consume_output_fifo (p : Parser) (k : Nat) :
    (p.consumeOutput k).output = p.output.drop k ∧ (p.consumeOutput k).raw = p.raw ∧
    (p.consumeOutput k).parsed = p.parsed ∧ (p.consumeOutput k).stream = p.stream := by
  simp [Parser.consumeOutput]

/-- Bytes an operation appends to `output`. -/
def outGrowth (p : Parser) : Op → Bytes
  | .parse new dest => (p.parse new dest).1.output.drop p.output.length
  | _ => []

/-- Bytes an operation removes from the front of `output` (handed to the transport). -/
def outSent (p : Parser) : Op → Bytes
  | .consumeOutput k => p.output.take k
  | _ => []

/-- One step of the ledger: what was sent by this step followed by what is still queued equals
what was queued before followed by what this step produced.  Holds for every operation and every
state (legal or not). -/
theorem output_ledger_step (p : Parser) (op : Op) :
    outSent p op ++ (applyOp p op).output = p.output ++ outGrowth p op := by
  cases op with
  | parse new dest =>
    obtain ⟨o, ho⟩ := (parse_frame p new dest).2.2.2.2.2.1
    simp only [outSent, outGrowth, applyOp, List.nil_append]
    rw [← ho]; simp
  | consumeStream amt => simp [outSent, outGrowth, applyOp, Parser.consumeStream]
  | compress => simp [outSent, outGrowth, applyOp, Parser.compress]
  | consumeOutput amt => simp [outSent, outGrowth, applyOp, Parser.consumeOutput]
  | setStream st =>
    simp only [outSent, outGrowth, applyOp, List.nil_append, List.append_nil]
    cases hr : p.setStream st with
    | ok p' =>
      rcases setStream_ok_cases hr with ⟨-, rfl⟩ | ⟨-, rfl, -⟩
      · rfl
      · rfl
    | rejected => rfl
    | panic s => rfl

/-- For a successful `parse`, the growth is exactly `Status::output` bytes. -/
theorem outGrowth_parse_len {p p' : Parser} {new : Bytes} {dest : Option Nat} {st : Status}
    (hcap : p.freeStart ≤ p.cap) (hd : dest = none ∨ p.parsed = []) (hfree : new.length ≤ p.free)
    (h : p.parse new dest = (p', .ok st)) :
    (outGrowth p (.parse new dest)).length = st.output := by
  obtain ⟨⟨o, ho, hl⟩, -⟩ := counts_exact hcap hd hfree h
  simp [outGrowth, h, ho, hl]

def sentAll : Parser → List Op → Bytes
  | _, [] => []
  | p, op :: t => outSent p op ++ sentAll (applyOp p op) t

def grownAll : Parser → List Op → Bytes
  | _, [] => []
  | p, op :: t => outGrowth p op ++ grownAll (applyOp p op) t

/-- Over any interleaving of operations: everything sent so far followed by what is still queued is
the initial queue followed by all replies generated, in generation order. -/
theorem output_ledger (p : Parser) (ops : List Op) :
    sentAll p ops ++ (applyOps p ops).output = p.output ++ grownAll p ops := by
  induction ops generalizing p with
  | nil => simp [sentAll, grownAll]
  | cons op t ih =>
    simp only [sentAll, grownAll, applyOps_cons, List.append_assoc]
    rw [ih, ← List.append_assoc, output_ledger_step, List.append_assoc]

/-! ## Concrete instances (non-vacuity) -/

section Examples

def exReq : Request := { id := 1, role := 1, flags := 0, env := [] }
/-- `GetValues(FCGI_MPXS_CONNS = "")` (management record, id 0) followed by a header with version 2. -/
def exInput : Bytes :=
  [1, 9, 0, 0, 0, 17, 7, 0] ++ [15, 0] ++ "FCGI_MPXS_CONNS".toUTF8.toList ++ [0, 0, 0, 0, 0, 0, 0] ++
  [2, 5, 0, 1, 0, 0, 0, 0]
def ex : Parser := Parser.fromParser 128 exReq [] 10

example : SInv ex := fromParser_inv _ _ _ _ (by decide) (by decide)
example : exInput.length ≤ ex.free := by decide +kernel

/-- The GetValues record is answered (a 32-byte GetValuesResult record), then the foreign version
byte is fatal; the offending header stays at the head of `raw`. -/
example : (ex.parse exInput none).2 = .err (.unknownVersion 2) ∧
    (ex.parse exInput none).1.raw = [2, 5, 0, 1, 0, 0, 0, 0] ∧
    (ex.parse exInput none).1.output.length = 32 ∧
    (ex.parse exInput none).1.pay = 0 ∧ (ex.parse exInput none).1.pad = 0 := by
  decide +kernel

/-- The error repeats, with and without further input, and the reply buffer does not grow. -/
example : ((ex.parse exInput none).1.parse [] none).2 = .err (.unknownVersion 2) ∧
    ((ex.parse exInput none).1.parse [1, 5, 0, 1] (some 10)).2 = .err (.unknownVersion 2) ∧
    ((ex.parse exInput none).1.parse [1, 5, 0, 1] (some 10)).1.output = (ex.parse exInput none).1.output := by
  decide +kernel

/-- An `AbortRequest` for this request is the other fatal header. -/
example : (ex.parse [1, 2, 0, 1, 0, 0, 0, 0] none).2 = .err .abortRequest := by decide +kernel

/-- Exact counts on a successful call: 3 payload bytes of Stdin into a 2-byte `dest`. -/
example : (ex.parse [1, 5, 0, 1, 0, 3, 5, 0, 7, 8, 9] (some 2)).2 =
    .ok { stream := 2, streamEnd := false, output := 0, delivered := [7, 8] } ∧
    (ex.parse [1, 5, 0, 1, 0, 3, 5, 0, 7, 8, 9] (some 2)).1.raw = [9] ∧
    (ex.parse [1, 5, 0, 1, 0, 3, 5, 0, 7, 8, 9] (some 2)).1.pay = 1 := by
  decide +kernel

/-- The preconditions are needed: `dest` with a non-empty stream buffer is the Rust `assert!`. -/
example : (({ ex with parsed := [1] } : Parser).parse [] (some 4)).2 =
    .panic "stream.rs:335 stream_buffer must be fully consumed" := by decide +kernel

end Examples

end Fcgi.C03S
