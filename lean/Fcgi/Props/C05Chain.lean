import Fcgi.Proofs.ChainReads
import Fcgi.Props.C02
/-!
# C05 at the sync level — k requests on one shared buffer, arbitrary reads

The conversion chain `request::Parser → stream::Parser → request::Parser → …` of the synchronous API,
composed from the model functions (`C05C.turn`, `C05C.chain`): per request the caller feeds the
request parser in arbitrary chunks until it reports the request, converts, runs an ARBITRARY legal
operation history on the stream parser (`Str.Op`: `parse` with either destination and any new input,
`consume_stream`, `compress`, `consume_output`, `set_stream`), and converts back
(`into_request_parser` succeeds: record boundary, output buffer empty).  Any amount of look-ahead
may be buffered at every hand-off.

* `k_requests_any_reads` (1), (3), (4): the requests are the preambles' requests — what separate
  connections yield —; every hand-off carries exactly the unread suffix of the wire, at a record
  boundary of the wire where the API demands one; the records a request leaves unread are answered
  by the NEXT request parser as idle noise (`idleOwed`), in front of its own preamble's replies.
  Hypotheses: the records behind a preamble contain no BeginRequest of a valid role or wrong length
  (`Spec1.OK`, forced, known from `Props/C07Unread`), and per turn `NoOverrun`.
* `NoOverrun` is FORCED: `k_requests_any_reads_full_false` — a caller that stops in the middle of a
  record and then skips to the record boundary (`set_stream(None)`, `parse`) with the next request
  already buffered makes the stream parser swallow that request.  Replayed on the crate (sync ops
  and the async `close()`): identical.
* `NoOverrun` holds (`noOverruns_of_within`) when the stream parser is never given bytes beyond its
  request's records — any history, any stop —, and (`noOverruns_of_active`) with ANY look-ahead when
  every `parse` is made with the stream active and the hand-over is at a record boundary
  (`ActiveReads`): then also (2) the bytes delivered are a prefix of the stream content, all of it
  once `stream_end` was reported, and the stream parser generated exactly the replies owed for the
  records it consumed (`active_reads_facts`).
-/
namespace Fcgi.C05C
open Fcgi Fcgi.Req Fcgi.Str Fcgi.Spec
open Fcgi.E2E (idleOwed serAll_app)

/-! ## The theorems -/

/-- **k requests, any reads.**  `qs`: the requests on the wire (preamble records, then the records
up to the next preamble); `ts`: what the caller does for the first `k = ts.length` of them; `rp`:
the first request parser (state `Header`; any look-ahead `rp.input`, possibly starting with records
`u` left unread by an earlier request); `fut`: the bytes not fed during the `k` turns. -/
theorem k_requests_any_reads {cap mc : Nat} {ts : List Turn} {qs : List Spec1} {os : List Obs}
    {rp rpK : Req.Parser} {u : List Rec} {fut : Bytes}
    (hqs : ∀ q ∈ qs, q.OK) (hp : PInv rp) (hst : rp.state = .header) (hmc : rp.maxConns = mc)
    (hcap : rp.cap = cap) (hu : ∀ e ∈ u, IdleNoise e) (hlen : ts.length ≤ qs.length)
    (hwire : rp.input ++ ts.flatMap Turn.fed ++ fut = serAll (u ++ wireRecs qs))
    (hleg : ChainLegal rp ts) (hch : chain rp ts = some (os, rpK)) (hno : NoOverruns cap mc qs ts os) :
    -- (1) the requests, in order
    os.map (·.r) = (qs.take os.length).map (·.p.request) ∧
    -- (3), (4) per request: replies of the request parser, the hand-offs (see `Results`)
    Results cap mc u qs ts os ∧
    -- (3) the last hand-off: unread records of the last request served, then the requests not served
    (∃ uK, (∀ e ∈ uK, IdleNoise e) ∧ rpK.input ++ fut = serAll (uK ++ wireRecs (qs.drop ts.length))) ∧
    PInv rpK ∧ rpK.state = .header ∧ rpK.maxConns = mc ∧ rpK.cap = cap := by
  obtain ⟨h1, h2, h3, h4, h5, h6⟩ := chain_spec ts qs os rp u fut rpK hqs hp hst hmc hcap hu hlen hwire hleg hch hno
  exact ⟨results_requests os qs ts u h1, h1, h6, h2, h3, h4, h5⟩

/-- every stream parser of the chain is only ever given bytes of its own request's records (a
client that does not send the next request before the answer) -/
def WithinAll : List Spec1 → List Turn → List Obs → Prop
  | q :: qs, t :: ts, o :: os => o.sp.raw ++ C05.fedBytes t.ops <+: serAll q.srecs ∧ WithinAll qs ts os
  | _, _, _ => True

theorem noOverruns_of_within {cap mc : Nat} : ∀ (qs : List Spec1) (ts : List Turn) (os : List Obs),
    WithinAll qs ts os → NoOverruns cap mc qs ts os
  | [], _, _, _ => trivial
  | _ :: _, [], _, _ => trivial
  | _ :: _, _ :: _, [], _ => trivial
  | _ :: qs, _ :: ts, _ :: os, h => ⟨fun _ => noOverrun_of_within h.1, noOverruns_of_within qs ts os h.2⟩

/-- every turn reads with the stream active and hands over at a record boundary -/
def ActiveAll : List Spec1 → List Turn → Prop
  | q :: qs, t :: ts =>
    (∃ s content body term more A Bq, ActiveReads q t s content body term more A Bq) ∧ ActiveAll qs ts
  | _, _ => True

theorem noOverruns_of_active {cap mc : Nat} : ∀ (qs : List Spec1) (ts : List Turn) (os : List Obs),
    (∀ q ∈ qs, q.OK) → ActiveAll qs ts → NoOverruns cap mc qs ts os
  | [], _, _, _, _ => trivial
  | _ :: _, [], _, _, _ => trivial
  | _ :: _, _ :: _, [], _, _ => trivial
  | q :: qs, t :: ts, o :: os, hq, h => by
    obtain ⟨⟨s, content, body, term, more, A, Bq, ha⟩, h2⟩ := h
    have hqs' : ∀ x ∈ qs, x.OK := fun x hx => hq x (List.mem_cons_of_mem _ hx)
    exact ⟨fun hf => (front_reads (hq q List.mem_cons_self) (wireRecs_wf hqs') hf ha).2.2.1,
      noOverruns_of_active qs ts os hqs' h2⟩

/-- **(2), and the stream parser's share of (4)**, for a turn of the chain that reads with the stream
active (`Front` is part of `Results`): the bytes delivered to the caller are a prefix of the stream
content; a `parse` that reports `stream_end` has — cumulatively — delivered all of it; the replies
generated are a prefix of those owed for the stream's noise; and when the hand-over is at a record
boundary: exactly the records `d` were consumed, the bytes delivered are the content up to there
(`cr` = the content of the unread records), the replies generated are exactly those owed for `d`. -/
theorem active_reads_facts {cap mc : Nat} {q : Spec1} {later : List Rec} {t : Turn} {o : Obs} (hq : q.OK)
    (hlater : ∀ r ∈ later, r.WF) (hf : Front cap mc q later t o)
    {s : Nat} {content : Bytes} {body : List Rec} {term : Rec} {more : List Rec} {A Bq : List Op}
    (ha : ActiveReads q t s content body term more A Bq) :
    (deliveredOps o.sp t.ops <+: content ∧ EveryParse (EndExact content) [] o.sp A) ∧
    C03S.grownAll o.sp t.ops <+: owedStream q.p.id s mc body ∧
    (o.spEnd.isRecordBoundary = true → ∃ d rs cr, body = d ++ rs ∧ Body q.p.id s cr rs ∧
      deliveredOps o.sp t.ops ++ cr = content ∧
      C03S.grownAll o.sp t.ops = owedStream q.p.id s mc d ∧
      o.sp.raw ++ C05.fedBytes t.ops = serAll d ++ o.spEnd.raw) := by
  obtain ⟨h1, h2, -, h4⟩ := front_reads hq hlater hf ha
  exact ⟨h1, h2, h4⟩

/-- **k requests, reads with the stream active, ANY look-ahead.** -/
theorem k_requests_active_reads {cap mc : Nat} {ts : List Turn} {qs : List Spec1} {os : List Obs}
    {rp rpK : Req.Parser} {u : List Rec} {fut : Bytes}
    (hqs : ∀ q ∈ qs, q.OK) (hp : PInv rp) (hst : rp.state = .header) (hmc : rp.maxConns = mc)
    (hcap : rp.cap = cap) (hu : ∀ e ∈ u, IdleNoise e) (hlen : ts.length ≤ qs.length)
    (hwire : rp.input ++ ts.flatMap Turn.fed ++ fut = serAll (u ++ wireRecs qs))
    (hleg : ChainLegal rp ts) (hch : chain rp ts = some (os, rpK)) (hact : ActiveAll qs ts) :
    os.map (·.r) = (qs.take os.length).map (·.p.request) ∧ Results cap mc u qs ts os ∧
    (∃ uK, (∀ e ∈ uK, IdleNoise e) ∧ rpK.input ++ fut = serAll (uK ++ wireRecs (qs.drop ts.length))) :=
  let h := k_requests_any_reads hqs hp hst hmc hcap hu hlen hwire hleg hch (noOverruns_of_active qs ts os hqs hact)
  ⟨h.1, h.2.1, h.2.2.1⟩

/-! ## The statement without `NoOverrun`, and why it fails -/

/-- The unrestricted wish (conclusion (1) only): whatever the caller does on the stream parsers and
whatever is buffered at the hand-offs, the requests served are the first requests sent.  FALSE —
`k_requests_any_reads_full_false`. -/
def k_requests_any_reads_full : Prop :=
  ∀ (cap mc : Nat) (ts : List Turn) (qs : List Spec1) (os : List Obs) (rp rpK : Req.Parser) (fut : Bytes),
    (∀ q ∈ qs, q.OK) → PInv rp → rp.state = .header → rp.maxConns = mc → rp.cap = cap →
    ts.length ≤ qs.length → rp.input ++ ts.flatMap Turn.fed ++ fut = serAll (wireRecs qs) →
    ChainLegal rp ts → chain rp ts = some (os, rpK) →
    os.map (·.r) = (qs.take os.length).map (·.p.request)

namespace Example
open Fcgi.C05.Examples

/-- `BeginRequest(id 1, Responder, KEEP_CONN)` -/
def beginK : Rec :=
  { rtype := 1, id := 1, content := toBe16 1 ++ [1] ++ [0, 0, 0, 0, 0], pad := [], reserved := 0 }
def preK : Bytes := beginK.ser ++ exEndParams.ser
def reqK : Request := Request.new 1 { role := 1, flags := 1 }

theorem run_preK (mc : Nat) : run .header preK mc = ⟨[], .done reqK, [], none⟩ := by
  unfold preK beginK
  rw [header_begin 1 1 1 [0, 0, 0, 0, 0] [] 0 _ mc ⟨by decide, by decide⟩ rfl rfl (by decide)]
  have := params_done { req := reqK, buffer := [] } (innerOK_nil _) [] 0 [] mc (by decide) (by decide)
  rw [List.append_nil] at this
  exact this

def p0 : Preamble := { id := 1, role := 1, flags := 0, pairs := [] }
def pK : Preamble := { id := 1, role := 1, flags := 1, pairs := [] }

theorem wf0 : WellFormedPreamble p0 [exBegin, exEndParams] :=
  .begin [] 0 [0, 0, 0, 0, 0] rfl (by decide) (by decide) (by decide) (fun q hq => by cases hq) (.done [] 0 (by decide))
theorem wfK : WellFormedPreamble pK [beginK, exEndParams] :=
  .begin [] 0 [0, 0, 0, 0, 0] rfl (by decide) (by decide) (by decide) (fun q hq => by cases hq) (.done [] 0 (by decide))

theorem idle_stdin : IdleNoise exStdin ∧ IdleNoise exStdinEnd :=
  ⟨⟨⟨by decide, by decide, by decide⟩, fun h => absurd h (by decide)⟩,
    ⟨⟨by decide, by decide, by decide⟩, fun h => absurd h (by decide)⟩⟩

/-- request 1: Stdin "hi", then the end of Stdin; requests 2 and 3: empty Stdin; 3 has KEEP_CONN -/
def q1 : Spec1 := ⟨p0, [exBegin, exEndParams], [exStdin, exStdinEnd]⟩
def q2 : Spec1 := ⟨p0, [exBegin, exEndParams], [exStdinEnd]⟩
def q3 : Spec1 := ⟨pK, [beginK, exEndParams], [exStdinEnd]⟩

theorem q_ok : ∀ q ∈ [q1, q2, q3], q.OK := by
  intro q hq
  simp only [List.mem_cons, List.not_mem_nil, or_false] at hq
  rcases hq with rfl | rfl | rfl
  · exact ⟨wf0, fun r hr => by
      simp only [q1, List.mem_cons, List.not_mem_nil, or_false] at hr
      rcases hr with rfl | rfl
      · exact idle_stdin.1
      · exact idle_stdin.2⟩
  · exact ⟨wf0, fun r hr => by
      simp only [q2, List.mem_cons, List.not_mem_nil, or_false] at hr
      subst hr; exact idle_stdin.2⟩
  · exact ⟨wfK, fun r hr => by
      simp only [q3, List.mem_cons, List.not_mem_nil, or_false] at hr
      subst hr; exact idle_stdin.2⟩

def w1 : Bytes := exPre ++ serAll [exStdin, exStdinEnd]
def w2 : Bytes := exPre ++ serAll [exStdinEnd]
def w3 : Bytes := preK ++ serAll [exStdinEnd]

/-- The caller of request 1 reads ONE byte of the two-byte Stdin record, then skips to the record
boundary as `close()` does: `set_stream(None)`, `parse`. -/
def opsMid : List Op := [.parse [] (some 1), .setStream none, .parse [] none]

/-- requests 1 and 2 arrive together (request 2 is look-ahead); request 3 arrives later -/
def tsBad : List Turn := [⟨[w1 ++ w2], opsMid⟩, ⟨[w3], []⟩]

def rp0 : Req.Parser := Req.Parser.fromParser 256 [] 3

def sp1 : Str.Parser := Str.Parser.fromParser 256 exReq (serAll [exStdin, exStdinEnd] ++ w2) 3

/-- the whole of request 2 is gone: the next request parser gets an EMPTY buffer -/
theorem sp1_handover : (applyOps sp1 opsMid).intoRequestParser = some (.ok (Req.Parser.fromParser 256 [] 3)) := by
  have h := (C05.into_request_parser_cases (applyOps sp1 opsMid)).2.2 (by decide +kernel) (by decide +kernel)
  rw [show (applyOps sp1 opsMid).cap = 256 from by decide +kernel,
    show (applyOps sp1 opsMid).raw = [] from by decide +kernel,
    show (applyOps sp1 opsMid).maxConns = 3 from by decide +kernel] at h
  exact h

theorem run1 : run .header ([] ++ (w1 ++ w2)) 3 = ⟨serAll [exStdin, exStdinEnd] ++ w2, .done exReq, [], none⟩ := by
  have := C05.run_pre_rest (rest := serAll [exStdin, exStdinEnd] ++ w2) (ex_pre 3)
  simpa [w1, List.append_assoc] using this

def o1 : Obs := ⟨exReq, [], sp1, applyOps sp1 opsMid⟩

theorem turn1 : turn rp0 ⟨[w1 ++ w2], opsMid⟩ = some (o1, rp0) ∧
    (LegalAll sp1 opsMid → TurnLegal rp0 ⟨[w1 ++ w2], opsMid⟩) :=
  turn_one (cap := 256) (mc := 3) (inp := []) (new := w1 ++ w2) (by decide) (by decide +kernel)
    (by decide +kernel) run1 opsMid sp1_handover

def sp3 : Str.Parser := Str.Parser.fromParser 256 reqK (serAll [exStdinEnd]) 3

theorem sp3_handover : (applyOps sp3 []).intoRequestParser =
    some (.ok (Req.Parser.fromParser 256 (serAll [exStdinEnd]) 3)) :=
  (C05.into_request_parser_cases sp3).2.2 rfl rfl

theorem run3 : run .header ([] ++ w3) 3 = ⟨serAll [exStdinEnd], .done reqK, [], none⟩ := by
  have := C05.run_pre_rest (rest := serAll [exStdinEnd]) (run_preK 3)
  simpa [w3] using this

def o3 : Obs := ⟨reqK, [], sp3, applyOps sp3 []⟩

theorem turn3 : turn rp0 ⟨[w3], []⟩ = some (o3, Req.Parser.fromParser 256 (serAll [exStdinEnd]) 3) ∧
    (LegalAll sp3 [] → TurnLegal rp0 ⟨[w3], []⟩) :=
  turn_one (cap := 256) (mc := 3) (inp := []) (new := w3) (by decide) (by decide +kernel)
    (by decide +kernel) run3 [] sp3_handover

/-- what the chain yields: request 1, then request **3** -/
theorem chain_bad : ∃ os rpK, chain rp0 tsBad = some (os, rpK) ∧ os.map (·.r) = [exReq, reqK] := by
  refine ⟨[o1, o3], Req.Parser.fromParser 256 (serAll [exStdinEnd]) 3, ?_, rfl⟩
  simp only [chain, tsBad, turn1.1, turn3.1]

theorem legal_bad : ChainLegal rp0 tsBad := by
  refine ⟨turn1.2 (by decide +kernel), ?_⟩
  intro o rp' h
  rw [turn1.1] at h
  injection h with h
  injection h with _ h2
  subst h2
  exact ⟨turn3.2 trivial, fun _ _ _ => trivial⟩

/-- **`k_requests_any_reads_full` is false.**  Three requests; the first two arrive together.  The
caller of request 1 reads one byte of its Stdin record and skips to the record boundary with
`set_stream(None)`, `parse` — which, the stream being ignored, runs through EVERYTHING buffered:
the rest of Stdin and the whole of request 2 (its `BeginRequest` carries the id of the request in
progress and is skipped without a reply).  The second request served is request 3.  -/
theorem k_requests_any_reads_full_false : ¬ k_requests_any_reads_full := by
  intro h
  obtain ⟨os, rpK, hch, hos⟩ := chain_bad
  have := h 256 3 tsBad [q1, q2, q3] os rp0 rpK [] q_ok
    (C03.fromParser_inv (input := []) 3 (Nat.zero_le _) (by decide)) rfl rfl rfl (by decide)
    (by decide +kernel) legal_bad hch
  rw [hos] at this
  have hlen : os.length = 2 := by
    have := congrArg List.length hos
    simpa using this
  rw [hlen] at this
  exact absurd this (by decide)

/-! ### Non-vacuity of the positive theorems: the same three requests, read differently -/

/-- Request 1 and the first 30 bytes of request 2 arrive together; request 1's caller reads "hi" into
a 2-byte destination (twice: data, then `stream_end`) and hands over with the stream still active;
the rest of request 2 arrives; its caller reads nothing.  Request 3 is not served (not fed). -/
def opsRead : List Op := [.parse [] (some 2), .parse [] (some 2)]
def tsGood : List Turn := [⟨[w1 ++ w2.take 30], opsRead⟩, ⟨[w2.drop 30], []⟩]

def spG : Str.Parser := Str.Parser.fromParser 256 exReq (serAll [exStdin, exStdinEnd] ++ w2.take 30) 3
def rpG : Req.Parser := Req.Parser.fromParser 256 (serAll [exStdinEnd] ++ w2.take 30) 3

theorem spG_handover : (applyOps spG opsRead).intoRequestParser = some (.ok rpG) := by
  have h := (C05.into_request_parser_cases (applyOps spG opsRead)).2.2 (by decide +kernel) (by decide +kernel)
  rw [show (applyOps spG opsRead).cap = 256 from by decide +kernel,
    show (applyOps spG opsRead).raw = serAll [exStdinEnd] ++ w2.take 30 from by decide +kernel,
    show (applyOps spG opsRead).maxConns = 3 from by decide +kernel] at h
  exact h

theorem runG1 : run .header ([] ++ (w1 ++ w2.take 30)) 3 =
    ⟨serAll [exStdin, exStdinEnd] ++ w2.take 30, .done exReq, [], none⟩ := by
  have := C05.run_pre_rest (rest := serAll [exStdin, exStdinEnd] ++ w2.take 30) (ex_pre 3)
  simpa [w1, List.append_assoc] using this

def oG1 : Obs := ⟨exReq, [], spG, applyOps spG opsRead⟩

theorem turnG1 : turn rp0 ⟨[w1 ++ w2.take 30], opsRead⟩ = some (oG1, rpG) ∧
    (LegalAll spG opsRead → TurnLegal rp0 ⟨[w1 ++ w2.take 30], opsRead⟩) :=
  turn_one (cap := 256) (mc := 3) (inp := []) (new := w1 ++ w2.take 30) (by decide) (by decide +kernel)
    (by decide +kernel) runG1 opsRead spG_handover

def spG2 : Str.Parser := Str.Parser.fromParser 256 exReq (serAll [exStdinEnd]) 3

theorem runG2 : run .header ((serAll [exStdinEnd] ++ w2.take 30) ++ w2.drop 30) 3 =
    ⟨serAll [exStdinEnd], .done exReq, [], none⟩ := by
  have h1 : (serAll [exStdinEnd] ++ w2.take 30) ++ w2.drop 30 = serAll [exStdinEnd] ++ (exPre ++ serAll [exStdinEnd]) := by
    rw [List.append_assoc, List.take_append_drop]; rfl
  rw [h1, C05.stale_all_skipped [exStdinEnd] (fun r hr => by rw [List.mem_singleton.1 hr]; exact ex_stale.2)]
  exact C05.run_pre_rest (ex_pre 3)

def oG2 : Obs := ⟨exReq, [], spG2, applyOps spG2 []⟩

theorem turnG2 : turn rpG ⟨[w2.drop 30], []⟩ = some (oG2, Req.Parser.fromParser 256 (serAll [exStdinEnd]) 3) ∧
    (LegalAll spG2 [] → TurnLegal rpG ⟨[w2.drop 30], []⟩) :=
  turn_one (cap := 256) (mc := 3) (inp := serAll [exStdinEnd] ++ w2.take 30) (new := w2.drop 30) (by decide)
    (by decide +kernel) (by decide +kernel) runG2 [] ((C05.into_request_parser_cases spG2).2.2 rfl rfl)

theorem chain_good : chain rp0 tsGood = some ([oG1, oG2], Req.Parser.fromParser 256 (serAll [exStdinEnd]) 3) := by
  simp only [chain, tsGood, turnG1.1, turnG2.1]

theorem legal_good : ChainLegal rp0 tsGood := by
  refine ⟨turnG1.2 (by decide +kernel), ?_⟩
  intro o rp' h
  rw [turnG1.1] at h
  injection h with h
  injection h with _ h2
  subst h2
  exact ⟨turnG2.2 trivial, fun _ _ _ => trivial⟩

theorem active_good : ActiveAll [q1, q2, q3] tsGood := by
  refine ⟨⟨5, [104, 105], [exStdin], exStdinEnd, [], opsRead, [], rfl, rfl, by decide, ?_,
      ⟨⟨by decide, by decide, by decide⟩, rfl, rfl, rfl⟩, rfl, fun s h => (by simp [opsRead] at h), fun _ h => (by cases h)⟩,
    ⟨5, [], [], exStdinEnd, [], [], [], rfl, rfl, by decide, .nil,
      ⟨⟨by decide, by decide, by decide⟩, rfl, rfl, rfl⟩, rfl, fun s h => (by cases h), fun _ h => (by cases h)⟩, trivial⟩
  exact Body.chunk [104, 105] [0, 0, 0, 0, 0, 0] 0 (by decide) (by decide) .nil

/-- `k_requests_active_reads` applied: requests 1 and 2 (of 3 on the wire) are served although
request 2's bytes were buffered while request 1's stream was read; the last request parser holds the
unread end-of-Stdin record of request 2, and request 3 is still to come. -/
example : [oG1, oG2].map (·.r) = [p0.request, p0.request] ∧ Results 256 3 [] [q1, q2, q3] tsGood [oG1, oG2] ∧
    ∃ uK, (∀ e ∈ uK, IdleNoise e) ∧
      (Req.Parser.fromParser 256 (serAll [exStdinEnd]) 3).input ++ w3 = serAll (uK ++ wireRecs [q3]) :=
  k_requests_active_reads (cap := 256) (mc := 3) (u := []) (fut := w3) q_ok
    (C03.fromParser_inv (input := []) 3 (Nat.zero_le _) (by decide)) rfl rfl rfl (fun _ h => by cases h)
    (by decide) (by decide +kernel) legal_good chain_good active_good

/-- `active_reads_facts` on turn 1: "hi" was delivered, all of it, and the Stdin data record consumed. -/
example : deliveredOps spG opsRead = [104, 105] ∧ (applyOps spG opsRead).isRecordBoundary = true := by
  decide +kernel

end Example

end Fcgi.C05C
