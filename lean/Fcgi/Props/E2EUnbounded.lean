import Fcgi.Proofs.E2EUnb
import Fcgi.Props.C07Unbounded
import Fcgi.Props.C07Authorizer
import Fcgi.Props.C11E2E
import Fcgi.Props.C11Filter4Chain
/-!
# The remaining end-to-end theorems without the size side conditions

The lifting of `Props/C07Unbounded` continued: each theorem below is the registered theorem of the same name
(without the suffix `_unbounded`) with the hypothesis `hsize : 6·|input| + 26 ≤ 100000` (resp. `4·|input| + 17`)
dropped; proofs are verbatim up to the primed executors of `Proofs/E2EUnb`, `Proofs/E2E*` (`Halts.pollB`:
`connFuel c ≥ 6·|input| + 26` for every `c`).  `UReq.OKu` is `UReq.OK` without the size conjuncts.
-/
namespace Fcgi.C07U
open Fcgi Fcgi.Req Fcgi.Str Fcgi.Async Fcgi.Run Fcgi.Spec Fcgi.E2E Fcgi.C07E

/-- `UReq.OK` without the size conjuncts (and with the `b`-free fuel bound of `Sent.OKu`). -/
def UReq.OKu (b : Nat) : UReq → Prop
  | .full q => q.OKu b ∧ q.p.flags.toNat % 2 = 1
  | .unread p recs content srecs data st hs =>
    NoRead hs data st ∧ WellFormedPreamble p recs ∧ p.role = 1 ∧ p.flags.toNat % 2 = 1 ∧
    (∀ q ∈ p.pairs, (NV.enc q).length ≤ alignedBufsize b) ∧ NoiseFits (alignedBufsize b) recs ∧
    StreamRecs p.id 5 content srecs ∧ NoiseFits (alignedBufsize b) srecs ∧
    (∀ r ∈ srecs, r.rtype.toNat ≠ RT.beginRequest) ∧
    wcost data.length + 4 ≤ 1000

/-- `serves_full` without the size hypothesis. -/
theorem serves_full_u {b mc : Nat} {q : Sent} (hq : q.OKu b) (hk : q.p.flags.toNat % 2 = 1) (Z : Bytes) :
    Serves (alignedBufsize b) mc ((UReq.full q).spec mc) Z := by
  intro left Lw sc h evs A0 c n fuel hleft hstart hf
  obtain ⟨L, hLw⟩ := startAt_base hstart hleft.1
  have ok := cfg_ok_u (mc := mc) hq L h sc
  have hleft' : LeftOK (alignedBufsize (q.cfg b mc L h sc).b) left := by rw [cfg_b]; exact hleft
  have hstart' : StartAt (q.cfg b mc L h sc).cap (q.cfg b mc L h sc).mc left Lw
      (((q.cfg b mc L h sc).hscript, true) :: (q.cfg b mc L h sc).more) (q.cfg b mc L h sc).hs0 evs A0
      (q.cfg b mc L h sc).W c := by
    rw [E2E.Cfg.cap, cfg_b, cfg_mc, cfg_hscript, cfg_more, cfg_hs0, cfg_W]; exact hstart
  obtain ⟨c', O1, O2, hrun, hO, hw, _⟩ := serve_full_core' ok (by rw [cfg_p]; exact hk) hleft' n fuel
    (by rw [cfg_L0, cfg_mc]; exact hLw) hstart' hf
  rw [cfg_Ot] at hO
  refine ⟨c', expectedLogN q.p q.recs mc q.data q.st O1 O2, hrun, ⟨O1, O2, hO, rfl⟩, ?_⟩
  have hL3 : ((q.cfg b mc L h sc).front left).L3 O1 O2 = Lw ++ expectedLogN q.p q.recs mc q.data q.st O1 O2 := by
    rw [L3_eq]
    show (q.cfg b mc L h sc).L0 ++ expectedLogN (q.cfg b mc L h sc).p (left ++ (q.cfg b mc L h sc).recs)
      (q.cfg b mc L h sc).mc (q.cfg b mc L h sc).data (q.cfg b mc L h sc).st O1 O2 = _
    rw [cfg_L0, cfg_p, cfg_recs, cfg_mc, cfg_data, cfg_st, hLw]
    simp only [expectedLogN, owedPreamble_idle q.p mc left hleft.1, List.append_assoc]
  rw [hL3, E2E.Cfg.cap, cfg_b, cfg_mc, cfg_more, cfg_hs0, cfg_p] at hw
  exact hw

/-- `serves_unread` without the size hypothesis. -/
theorem serves_unread_u {b mc : Nat} {p : Preamble} {recs : List Rec} {content : Bytes} {srecs : List Rec}
    {data : Bytes} {st : ExitStatus} {hs : List HOp}
    (hx : (UReq.unread p recs content srecs data st hs).OKu b) {Z : Bytes}
    (hZ : GoodNext (alignedBufsize b) mc srecs Z) :
    Serves (alignedBufsize b) mc ((UReq.unread p recs content srecs data st hs).spec mc) Z := by
  obtain ⟨hnr, hwf, hrole, hk, hpairs, hnoise, hstr, hsn, hnb, hhf⟩ := hx
  intro left Lw sc h evs A0 c n fuel hleft hstart hf
  obtain ⟨L, hLw⟩ := startAt_base hstart hleft.1
  have hidle := srecs_idle hwf hstr hnb
  have ok : UOK (cfgU p recs srecs b mc data st hs L h sc) :=
    ⟨hwf, hrole, hpairs, hnoise, rfl, rfl, rfl, rfl, hnr, hhf⟩
  obtain ⟨c', hrun, hw⟩ := serve_unread_core' ok hk (left := left) hleft (Z := Z) hidle hZ n fuel hLw hstart hf
  refine ⟨c', _, hrun, rfl, ?_⟩
  have hLU : ((cfgU p recs srecs b mc data st hs L h sc).front left).LU ++ idleOwed mc srecs =
      Lw ++ (owedPreamble p mc recs ++ streamRecords 6 p.id data ++ epilogue p.id st ++ owedStream p.id 5 mc srecs) := by
    show (((cfgU p recs srecs b mc data st hs L h sc).front left).L1 ++ streamRecords 6 p.id data ++
      makeRequestEpilogue p.id st [RT.stdout, RT.stderr]) ++ idleOwed mc srecs = _
    rw [E2E.Cfg.front_L1 _ hleft.1, epilogue_eq,
      idleOwed_eq_owedStream hstr (by decide) (by decide) (by decide) (by decide) hnb, hLw]
    simp only [List.append_assoc]
    rfl
  have hw' : Waiting (alignedBufsize b) mc srecs
      (((cfgU p recs srecs b mc data st hs L h sc).front left).LU ++ idleOwed mc srecs) sc (h + 1)
      (hsEvent p.request :: evs) A0 c' := hw
  rw [hLU] at hw'
  exact hw'

/-- `goodNext_of_ok` without the size hypothesis. -/
theorem goodNext_of_oku {b mc : Nat} {x : UReq} (hx : x.OKu b) {left : List Rec} (hl : LeftOK (alignedBufsize b) left) :
    GoodNext (alignedBufsize b) mc left x.wire := by
  cases x with
  | full q =>
    obtain ⟨hwf, hpairs, hnoise, _⟩ := hx.1
    exact idle_front hwf b mc hpairs hnoise hl.1 hl.2 _
  | unread p recs content srecs data st hs =>
    obtain ⟨_, hwf, _, _, hpairs, hnoise, _⟩ := hx
    exact idle_front hwf b mc hpairs hnoise hl.1 hl.2 _

/-- `leftOK_of_ok` without the size hypothesis. -/
theorem leftOK_of_oku {b : Nat} {x : UReq} (hx : x.OKu b) : LeftOK (alignedBufsize b) x.left := by
  cases x with
  | full q => exact ⟨(fun _ he => nomatch he), (fun _ hr => nomatch hr)⟩
  | unread p recs content srecs data st hs =>
    obtain ⟨_, hwf, _, _, _, _, hstr, hsn, hnb, _⟩ := hx
    exact ⟨srecs_idle hwf hstr hnb, hsn⟩

/-- `serves_of_ok` without the size hypothesis. -/
theorem serves_of_oku {b mc : Nat} {x : UReq} (hx : x.OKu b) {Z : Bytes}
    (hZ : GoodNext (alignedBufsize b) mc x.left Z) : Serves (alignedBufsize b) mc (x.spec mc) Z := by
  cases x with
  | full q => exact serves_full_u hx.1 hx.2 Z
  | unread p recs content srecs data st hs => exact serves_unread_u hx hZ

/-- `hall_of_ok` without the size hypothesis. -/
theorem hall_of_oku {b mc : Nat} (x : UReq) (xs : List UReq) (hok : ∀ y ∈ x :: xs, y.OKu b) :
    ∀ ys y zs, (UReq.spec mc x) :: xs.map (UReq.spec mc) = ys ++ y :: zs →
      Serves (alignedBufsize b) mc y (nextW (serAll dummyRecs ++ []) zs) ∧ LeftOK (alignedBufsize b) y.left := by
  intro ys y zs he
  have he' : (x :: xs).map (UReq.spec mc) = ys ++ y :: zs := he
  obtain ⟨l1, l2, hl, h1, h2⟩ := List.map_eq_append_iff.1 he'
  cases l2 with
  | nil => cases h2
  | cons y0 l3 =>
    simp only [List.map_cons, List.cons.injEq] at h2
    obtain ⟨rfl, rfl⟩ := h2
    have hy0 : y0.OKu b := hok y0 (by rw [hl]; simp)
    refine ⟨serves_of_oku hy0 ?_, leftOK_of_oku hy0⟩
    cases l3 with
    | nil =>
      have hl0 := leftOK_of_oku hy0
      exact idle_front dummy_wf b mc (fun _ hq => nomatch hq) (dummy_fits _) hl0.1 hl0.2 []
    | cons y1 l4 =>
      have hy1 : y1.OKu b := hok y1 (by rw [hl]; simp)
      exact goodNext_of_oku hy1 (leftOK_of_oku hy0)

/-- `k_requests_unread_e2e_partial` without the size hypothesis. -/
theorem k_requests_unread_e2e_partial_unbounded {b mc : Nat} (x : UReq) (xs : List UReq) {t : Transport} {fuel : Nat}
    (hok : ∀ y ∈ x :: xs, y.OKu b)
    (hin : t.input = x.wire) (hben : Ben t) (hem : t.endMode = .pend) (hev : hsCount t.events = 0)
    (hfuel : t.rd.length + t.wr.length + 1 ≤ fuel) :
    ∃ c' A, closedLoop fuel (xs.map UReq.wire) (connS b mc t ((x :: xs).map UReq.handler)) 0 = (c', "STALL") ∧
      SegsAll mc (x :: xs) A ∧ c'.env.tr.wlog = t.wlog ++ A ∧
      hsCount c'.env.tr.events = (x :: xs).length ∧
      (∀ y ∈ x :: xs, startEvent y.p.request ∈ c'.env.tr.events) ∧ c'.scripts = [] ∧
      c'.env.tr.input = [] ∧
      c'.phase = .parseReq (track (alignedBufsize b) mc (serAll ((x :: xs).getLast (by simp)).left)) .reading := by
  have hstart : StartAt (alignedBufsize b) mc [] t.wlog (((x :: xs).map (UReq.spec mc)).map RSpec.handler) 0 [] (ans t)
      ((UReq.spec mc x).W) (connS b mc t ((x :: xs).map UReq.handler)) := by
    refine Or.inr ⟨rfl, rfl, hin, rfl, hben, rfl, ?_, rfl, hev, (fun _ hs => nomatch hs), rfl, hem, Nat.le_refl _⟩
    show (x :: xs).map UReq.handler = _
    rw [List.map_map]; rfl
  have hall : ∀ ys y zs, (UReq.spec mc x) :: xs.map (UReq.spec mc) = ys ++ y :: zs →
      Serves (alignedBufsize b) mc y (nextW (serAll dummyRecs ++ []) zs) ∧ LeftOK (alignedBufsize b) y.left := by
    intro ys y zs he
    have he' : (x :: xs).map (UReq.spec mc) = ys ++ y :: zs := he
    obtain ⟨l1, l2, hl, h1, h2⟩ := List.map_eq_append_iff.1 he'
    cases l2 with
    | nil => cases h2
    | cons y0 l3 =>
      simp only [List.map_cons, List.cons.injEq] at h2
      obtain ⟨rfl, rfl⟩ := h2
      have hy0 : y0.OKu b := hok y0 (by rw [hl]; simp)
      refine ⟨serves_of_oku hy0 ?_, leftOK_of_oku hy0⟩
      cases l3 with
      | nil =>
        have hl0 := leftOK_of_oku hy0
        exact idle_front dummy_wf b mc (fun _ hq => nomatch hq) (dummy_fits _) hl0.1 hl0.2 []
      | cons y1 l4 =>
        have hy1 : y1.OKu b := hok y1 (by rw [hl]; simp)
        exact goodNext_of_oku hy1 (leftOK_of_oku hy0)
  obtain ⟨c', A, hrun, hseg, hw⟩ := chain_serves (alignedBufsize b) mc (serAll dummyRecs ++ [])
    (xs.map (UReq.spec mc)) (UReq.spec mc x) [] t.wlog 0 [] (ans t) _ 0 fuel hall
    ⟨(fun _ he => nomatch he), (fun _ hr => nomatch hr)⟩ hstart (by unfold ans; omega)
  have hrun' : closedLoop fuel (xs.map UReq.wire) (connS b mc t ((x :: xs).map UReq.handler)) 0 = (c', "STALL") := by
    rw [← hrun, List.map_map]; rfl
  have hlast : lastLeft (xs.map (UReq.spec mc)) (UReq.spec mc x).left = ((x :: xs).getLast (by simp)).left := by
    clear hrun hrun' hw hseg hall hstart hok hin
    induction xs generalizing x with
    | nil => rfl
    | cons y ys ih => simp only [List.map_cons, lastLeft, List.getLast_cons_cons]; exact ih y
  refine ⟨c', A, hrun', segAll_specs mc (x :: xs) A hseg, hw.log, ?_, ?_, hw.sc, hw.inp, ?_⟩
  · have := hw.hs; simpa using this
  · intro y hy
    exact hw.ev _ (mem_evsAfter _ _ _ (Or.inr ⟨UReq.spec mc y, List.mem_map_of_mem hy, rfl⟩))
  · rw [← hlast]; exact hw.ph

/-- `unread_prefix_chain_e2e` without the size hypothesis. -/
theorem unread_prefix_chain_e2e_unbounded {p : Preamble} {recs : List Rec} {content : Bytes} {srecs : List Rec}
    {b mc n : Nat} {st : ExitStatus} (x : UReq) (xs : List UReq) {t : Transport} {fuel : Nat}
    (hn : 0 < n)
    (hwf : WellFormedPreamble p recs) (hrole : p.role = 1) (hk : p.flags.toNat % 2 = 1)
    (hpairs : ∀ q ∈ p.pairs, (NV.enc q).length ≤ alignedBufsize b)
    (hnoise : NoiseFits (alignedBufsize b) recs)
    (hstr : StreamRecs p.id 5 content srecs) (hsn : NoiseFits (alignedBufsize b) srecs)
    (hnb : ∀ r ∈ srecs, r.rtype.toNat ≠ RT.beginRequest)
    (hok : ∀ y ∈ x :: xs, y.OKu b)
    (hin : t.input = serAll recs ++ serAll srecs) (hben : Ben t) (hem : t.endMode = .pend)
    (hev : hsCount t.events = 0) (hfuel : t.rd.length + t.wr.length + 1 ≤ fuel) :
    ∃ c' s₁ s₂ d A,
      closedLoop fuel ((x :: xs).map UReq.wire)
        (connS b mc t ((readSome n st, true) :: (x :: xs).map UReq.handler)) 0 = (c', "STALL") ∧
      srecs = s₁ ++ s₂ ∧ d <+: content ∧ readSomeEvent d ∈ c'.env.tr.events ∧
      SegsAll mc (x :: xs) A ∧
      c'.env.tr.wlog = t.wlog ++ (owedPreamble p mc recs ++ owedStream p.id 5 mc s₁ ++ epilogue p.id st ++
        owedStream p.id 5 mc s₂) ++ A ∧
      hsCount c'.env.tr.events = 1 + (x :: xs).length ∧
      startEvent p.request ∈ c'.env.tr.events ∧
      (∀ y ∈ x :: xs, startEvent y.p.request ∈ c'.env.tr.events) ∧ c'.scripts = [] ∧
      c'.env.tr.input = [] ∧
      c'.phase = .parseReq (track (alignedBufsize b) mc (serAll ((x :: xs).getLast (by simp)).left)) .reading := by
  have hidle := srecs_idle hwf hstr hnb
  obtain ⟨body, pad, res, hpad, hbody, hsrecs⟩ := StreamRecs.split hstr
  subst hsrecs
  have ok := pok_of (mc := mc) (st := st) t.wlog 0 (((x :: xs).map (UReq.spec mc)).map RSpec.handler) hn hwf hrole
    hpairs hnoise hpad hbody hstr hsn
  -- the first request
  have hstart : StartAt (alignedBufsize b) mc [] t.wlog
      ((readSome n st, true) :: ((x :: xs).map (UReq.spec mc)).map RSpec.handler) 0 [] (ans t)
      (serAll recs ++ (serAll body ++
        ({ rtype := 5, id := p.id, content := [], pad := pad, reserved := res } : Rec).ser))
      (connS b mc t ((readSome n st, true) :: ((x :: xs).map (UReq.spec mc)).map RSpec.handler)) :=
    Or.inr ⟨rfl, rfl, by show t.input = _; rw [hin, C02.serAll_append, C02.serAll_single]; rfl, rfl, hben, rfl, rfl, rfl, hev,
      (fun _ hs => nomatch hs), rfl, hem, Nat.le_refl _⟩
  have hleft0 : LeftOK (alignedBufsize b) [] := ⟨(fun _ he => nomatch he), (fun _ hr => nomatch hr)⟩
  have hR : ∀ e ∈ (cfgP p recs content body pad res b mc n st t.wlog 0
      (((x :: xs).map (UReq.spec mc)).map RSpec.handler)).R, IdleNoise e := fun e he => hidle e he
  have hlo : ∀ s1 s2 : List Rec, (cfgP p recs content body pad res b mc n st t.wlog 0
      (((x :: xs).map (UReq.spec mc)).map RSpec.handler)).R = s1 ++ s2 → LeftOK (alignedBufsize b) s2 := by
    intro s1 s2 hsp
    have hm : ∀ e ∈ s2, e ∈ (cfgP p recs content body pad res b mc n st t.wlog 0
        (((x :: xs).map (UReq.spec mc)).map RSpec.handler)).R := fun e he => by
      rw [hsp]; exact List.mem_append_right _ he
    exact ⟨fun e he => hidle e (hm e he), fun e he hg => hsn e (hm e he) hg⟩
  obtain ⟨c1, s1, s2, d, hrun1, hsp, hd1, _, hd3, hw1⟩ := serve_prefix_core' ok hk (left := []) hleft0
    (Z := x.wire) hR (fun s1 s2 hsp => goodNext_of_oku (hok x List.mem_cons_self) (hlo s1 s2 hsp)) 0 fuel
    (by simp [idleOwed]; rfl) hstart (by unfold ans; omega)
  have hnb2 : ∀ r ∈ s2, r.rtype.toNat ≠ RT.beginRequest := fun e he => hnb e (by
    have : e ∈ (cfgP p recs content body pad res b mc n st t.wlog 0
        (((x :: xs).map (UReq.spec mc)).map RSpec.handler)).R := by rw [hsp]; exact List.mem_append_right _ he
    exact this)
  have hLU := gC_LU_eq (p := p) (recs := recs) (content := content) (body := body) (pad := pad) (res := res)
    (b := b) (mc := mc) (n := n) (st := st) (L0 := t.wlog) (h := 0)
    (more := ((x :: xs).map (UReq.spec mc)).map RSpec.handler) [] s1 s2 (fun _ h => nomatch h)
  have hLw : (gC ((cfgP p recs content body pad res b mc n st t.wlog 0
      (((x :: xs).map (UReq.spec mc)).map RSpec.handler)).front []) s1 s2).LU ++ idleOwed mc s2 =
      t.wlog ++ (owedPreamble p mc recs ++ owedStream p.id 5 mc s1 ++ epilogue p.id st ++ owedStream p.id 5 mc s2) := by
    rw [hLU, idleOwed_eq_owedStream5 p.id mc hnb2]; simp [idleOwed]
  have hw1' : Waiting (alignedBufsize b) mc s2
      (t.wlog ++ (owedPreamble p mc recs ++ owedStream p.id 5 mc s1 ++ epilogue p.id st ++ owedStream p.id 5 mc s2))
      (((x :: xs).map (UReq.spec mc)).map RSpec.handler) 1 [hsEvent p.request, rdEvent d] (ans t) c1 := by
    rw [← hLw]
    have hev' : ∀ s ∈ [hsEvent p.request, rdEvent d], s ∈ c1.env.tr.events := by
      intro s hs
      rcases List.mem_cons.1 hs with rfl | hs
      · exact hw1.ev _ List.mem_cons_self
      · rw [List.mem_singleton.1 hs]; exact hd3
    exact { hw1 with ev := hev' }
  -- the others
  obtain ⟨c', A, hrun, hseg, hw⟩ := chain_serves (alignedBufsize b) mc (serAll dummyRecs ++ [])
    (xs.map (UReq.spec mc)) (UReq.spec mc x) s2 _ 1 [hsEvent p.request, rdEvent d] (ans t) (feed c1 x.wire) 1000 fuel
    (hall_of_oku x xs hok) (hlo s1 s2 hsp) (Or.inl ⟨c1, hw1', rfl⟩) (by unfold ans; omega)
  have hrun' : closedLoop fuel ((x :: xs).map UReq.wire)
      (connS b mc t ((readSome n st, true) :: (x :: xs).map UReq.handler)) 0 = (c', "STALL") := by
    have e : (x :: xs).map UReq.handler = ((x :: xs).map (UReq.spec mc)).map RSpec.handler := by
      rw [List.map_map]; rfl
    rw [e]
    show closedLoop fuel (x.wire :: xs.map UReq.wire) _ 0 = _
    rw [closedLoop, hrun1]
    simp only [if_true]
    rw [← hrun, List.map_map]; rfl
  have hlast := lastLeft_specs mc x xs
  have hevd : readSomeEvent d ∈ c'.env.tr.events :=
    hw.ev _ (mem_evsAfter _ _ _ (Or.inl (by simp)))
  refine ⟨c', s1, s2, d, A, hrun', hsp, hd1, hevd, segAll_specs mc (x :: xs) A hseg, hw.log, ?_, ?_, ?_, hw.sc, hw.inp, ?_⟩
  · have := hw.hs; simpa [Nat.add_comm] using this
  · exact hw.ev _ (mem_evsAfter _ _ _ (Or.inl List.mem_cons_self))
  · intro y hy
    exact hw.ev _ (mem_evsAfter _ _ _ (Or.inr ⟨UReq.spec mc y, List.mem_map_of_mem hy, rfl⟩))
  · rw [← hlast]; exact hw.ph

/-- `unread_filter_e2e_partial` without the size hypothesis. -/
theorem unread_filter_e2e_partial_unbounded {p : Preamble} {recs : List Rec} {content : Bytes} {srecs drecs : List Rec}
    {b mc : Nat} {st : ExitStatus} {more : List (List HOp × Bool)} {t : Transport} {fuel : Nat}
    (hwf : WellFormedPreamble p recs) (hrole : p.role = 3) (hk : p.flags.toNat % 2 = 1)
    (hpairs : ∀ q ∈ p.pairs, (NV.enc q).length ≤ alignedBufsize b)
    (hnoise : NoiseFits (alignedBufsize b) recs)
    (hs : StreamRecs p.id 5 content srecs) (hsn : NoiseFits (alignedBufsize b) srecs)
    (hd : StreamRecs p.id 8 [] drecs) (hdn : NoiseFits (alignedBufsize b) drecs)
    (hin : t.input = serAll recs ++ (serAll srecs ++ serAll drecs)) (hben : Ben t) (hev : hsCount t.events = 0)
    (hfuel : t.rd.length + t.wr.length + 1 ≤ fuel) :
    ∃ c' fin d₁ tm, runTask fuel (connS b mc t (([.ret st], true) :: more)) 0 none = (c', fin) ∧
      drecs = d₁ ++ [tm] ∧ tm.rtype = 8 ∧ tm.id = p.id ∧ tm.content = [] ∧
      FilterUnreadOutcome p recs srecs d₁ tm b mc st more t c' fin := by
  have hid := (pid_of_wf hwf).2
  obtain ⟨body, pad, res, hpad, hbody, hsrecs⟩ := StreamRecs.split hs
  obtain ⟨body2, pad2, res2, hpad2, hbody2, hdrecs⟩ := StreamRecs.split hd
  subst hsrecs hdrecs
  have ok : FUOK (cfgFU p recs content body pad res body2 pad2 res2 b mc st t.wlog 0 more) :=
    ⟨hwf, hrole, hpairs, hnoise, streamRecs_stdin hid hs, fun r hr hg => hsn r (List.mem_append_left _ hr) hg, rfl,
      hbody2, fun r hr hg => hdn r (List.mem_append_left _ hr) hg, hpad2, rfl, rfl, rfl⟩
  have htw : ({ rtype := 8, id := p.id, content := [], pad := pad2, reserved := res2 } : Rec).WF :=
    ⟨hid, by simp, hpad2⟩
  have hidle : ∀ e ∈ [({ rtype := 8, id := p.id, content := [], pad := pad2, reserved := res2 } : Rec)], IdleNoise e := by
    intro e he
    rw [List.mem_singleton.1 he]
    exact ⟨htw, fun hx => absurd hx (by show ¬ ((8 : UInt8).toNat = RT.beginRequest); decide)⟩
  have hfit1 : NoiseFits (alignedBufsize b) [({ rtype := 8, id := p.id, content := [], pad := pad2, reserved := res2 } : Rec)] := by
    intro e he hg
    rw [List.mem_singleton.1 he] at hg
    exact absurd hg.1 (by simp [RT.getValues])
  obtain ⟨hns, hNF⟩ := idle_front dummy_wf b mc (fun q hq => by cases hq) (dummy_fits _) hidle hfit1 []
  rw [C02.serAll_single] at hns hNF
  have hst : FStage (cfgFU p recs content body pad res body2 pad2 res2 b mc st t.wlog 0 more)
      (connS b mc t (([.ret st], true) :: more)) :=
    .start (raw := []) rfl (by
      show [] ++ t.input = _
      rw [hin, C02.serAll_append, C02.serAll_single, C02.serAll_append, C02.serAll_single, List.append_assoc (serAll body)]
      rfl)
      (Nat.zero_le _) rfl hben rfl rfl rfl hev
  obtain ⟨c', fin, hrun, _, _, hkp, hem, _, _, _, hend⟩ := run_filter0' ok hk (Z := serAll dummyRecs ++ []) hns hNF
    t.endMode [] _ 0 fuel hst rfl (fun s hs => by cases hs) rfl (by show ans t + 1 ≤ fuel; unfold ans; omega)
  have hLU : (gF (cfgFU p recs content body pad res body2 pad2 res2 b mc st t.wlog 0 more)).LU =
      t.wlog ++ (owedPreamble p mc recs ++
        (owedStream p.id 5 mc (body ++ [{ rtype := UInt8.ofNat 5, id := p.id, content := [], pad := pad, reserved := res }]) ++
          owedStream p.id 8 mc body2) ++ epilogue p.id st) := by
    rw [gF, gC_LU]
    show (t.wlog ++ owedPreamble p mc recs) ++
      owedI p.id mc ((body ++ [{ rtype := 5, id := p.id, content := [], pad := pad, reserved := res }]) ++ body2) ++
      makeRequestEpilogue p.id st [RT.stdout, RT.stderr] = _
    rw [epilogue_eq, ← owedI_eq_owedStream, ← owedI_eq_owedStream8]
    simp only [owedI, List.flatMap_append, List.append_assoc]
    rfl
  have hout : ∀ F, F ++ (serAll dummyRecs ++ []) =
      ({ rtype := 8, id := p.id, content := [], pad := pad2, reserved := res2 } : Rec).ser ++ (serAll dummyRecs ++ []) →
      (gF (cfgFU p recs content body pad res body2 pad2 res2 b mc st t.wlog 0 more)).LU ++ (run .header F mc).out =
      t.wlog ++ (owedPreamble p mc recs ++
        (owedStream p.id 5 mc (body ++ [{ rtype := UInt8.ofNat 5, id := p.id, content := [], pad := pad, reserved := res }]) ++
          owedStream p.id 8 mc body2) ++ epilogue p.id st) := by
    intro F hF
    have hro := (run_idle_out mc _ hidle).1
    rw [C02.serAll_single] at hro
    have hz : idleOwed mc [({ rtype := 8, id := p.id, content := [], pad := pad2, reserved := res2 } : Rec)] = [] := by
      simp only [idleOwed, List.flatMap_cons, List.flatMap_nil, List.append_nil]
      exact C04.owed_other none mc _ (by show RT.valid (8 : UInt8).toNat = true; decide)
        (by show (8 : UInt8).toNat ≠ RT.beginRequest; decide)
        (fun hx => absurd hx.1 (by show ¬ ((8 : UInt8).toNat = RT.getValues); decide))
    rw [List.append_cancel_right hF, hro, hz, List.append_nil, hLU]
  refine ⟨c', fin, body2, _, hrun, rfl, rfl, rfl, rfl, ⟨hkp.hs, hkp.ev _ List.mem_cons_self⟩, ?_, hkp.sc, ?_⟩
  · rcases hend with ⟨_, hp⟩ | ⟨_, hf⟩
    · obtain ⟨F, hF, _, _, hlg⟩ := hp.pst
      have hlg' : c'.env.tr.wlog = (gF (cfgFU p recs content body pad res body2 pad2 res2 b mc st t.wlog 0 more)).LU ++
          (run .header F mc).out := hlg
      rw [hlg']; exact hout F hF
    · obtain ⟨F, hF, hlg⟩ := hf.log
      have hlg' : c'.env.tr.wlog = (gF (cfgFU p recs content body pad res body2 pad2 res2 b mc st t.wlog 0 more)).LU ++
          (run .header F mc).out := hlg
      rw [hlg']; exact hout F hF
  · rcases hend with ⟨rfl, hp⟩ | ⟨rfl, hf⟩
    · obtain ⟨F, hF, hps, hph, _⟩ := hp.pst
      have hFe : F = ({ rtype := 8, id := p.id, content := [], pad := pad2, reserved := res2 } : Rec).ser :=
        List.append_cancel_right hF
      subst hFe
      exact Or.inr ⟨hem.symm.trans hp.em, rfl, hph, hp.inp, hkp.mx, hps.stop, hps.ben⟩
    · exact Or.inl ⟨hem.symm.trans hf.em, rfl, hf.ph⟩

/-- `unread_filter_chain_e2e_partial` without the size hypothesis. -/
theorem unread_filter_chain_e2e_partial_unbounded {p : Preamble} {recs : List Rec} {content : Bytes} {srecs drecs : List Rec}
    {b mc : Nat} {st : ExitStatus} (x : UReq) (xs : List UReq) {t : Transport} {fuel : Nat}
    (hwf : WellFormedPreamble p recs) (hrole : p.role = 3) (hk : p.flags.toNat % 2 = 1)
    (hpairs : ∀ q ∈ p.pairs, (NV.enc q).length ≤ alignedBufsize b)
    (hnoise : NoiseFits (alignedBufsize b) recs)
    (hs : StreamRecs p.id 5 content srecs) (hsn : NoiseFits (alignedBufsize b) srecs)
    (hd : StreamRecs p.id 8 [] drecs) (hdn : NoiseFits (alignedBufsize b) drecs)
    (hok : ∀ y ∈ x :: xs, y.OKu b)
    (hin : t.input = serAll recs ++ (serAll srecs ++ serAll drecs)) (hben : Ben t) (hem : t.endMode = .pend)
    (hev : hsCount t.events = 0) (hfuel : t.rd.length + t.wr.length + 1 ≤ fuel) :
    ∃ c' d₁ tm A,
      closedLoop fuel ((x :: xs).map UReq.wire)
        (connS b mc t (([.ret st], true) :: (x :: xs).map UReq.handler)) 0 = (c', "STALL") ∧
      drecs = d₁ ++ [tm] ∧
      SegsAll mc (x :: xs) A ∧
      c'.env.tr.wlog = t.wlog ++ (owedPreamble p mc recs ++
        (owedStream p.id 5 mc srecs ++ owedStream p.id 8 mc d₁) ++ epilogue p.id st) ++ A ∧
      hsCount c'.env.tr.events = 1 + (x :: xs).length ∧
      startEvent p.request ∈ c'.env.tr.events ∧
      (∀ y ∈ x :: xs, startEvent y.p.request ∈ c'.env.tr.events) ∧ c'.scripts = [] ∧
      c'.env.tr.input = [] ∧
      c'.phase = .parseReq (track (alignedBufsize b) mc (serAll ((x :: xs).getLast (by simp)).left)) .reading := by
  have hid := (pid_of_wf hwf).2
  obtain ⟨body, pad, res, hpad, hbody, hsrecs⟩ := StreamRecs.split hs
  obtain ⟨body2, pad2, res2, hpad2, hbody2, hdrecs⟩ := StreamRecs.split hd
  subst hsrecs hdrecs
  have ok : FUOK (cfgFU p recs content body pad res body2 pad2 res2 b mc st t.wlog 0
      (((x :: xs).map (UReq.spec mc)).map RSpec.handler)) :=
    ⟨hwf, hrole, hpairs, hnoise, streamRecs_stdin hid hs, fun r hr hg => hsn r (List.mem_append_left _ hr) hg, rfl,
      hbody2, fun r hr hg => hdn r (List.mem_append_left _ hr) hg, hpad2, rfl, rfl, rfl⟩
  have htw : ({ rtype := 8, id := p.id, content := [], pad := pad2, reserved := res2 } : Rec).WF :=
    ⟨hid, by simp, hpad2⟩
  have hT : IdleNoise ({ rtype := 8, id := p.id, content := [], pad := pad2, reserved := res2 } : Rec) :=
    ⟨htw, fun hx => absurd hx (by show ¬ ((8 : UInt8).toNat = RT.beginRequest); decide)⟩
  have hlo : LeftOK (alignedBufsize b) [({ rtype := 8, id := p.id, content := [], pad := pad2, reserved := res2 } : Rec)] :=
    ⟨fun e he => by rw [List.mem_singleton.1 he]; exact hT, fun e he hg => by
      rw [List.mem_singleton.1 he] at hg
      exact absurd hg.1 (by simp [RT.getValues])⟩
  have hW : (cfgFU p recs content body pad res body2 pad2 res2 b mc st t.wlog 0
      (((x :: xs).map (UReq.spec mc)).map RSpec.handler)).W = t.input := by
    rw [hin, C02.serAll_append, C02.serAll_single, C02.serAll_append, C02.serAll_single, List.append_assoc (serAll body)]
    rfl
  have hstart : StartAt (alignedBufsize b) mc [] t.wlog
      (([.ret st], true) :: ((x :: xs).map (UReq.spec mc)).map RSpec.handler) 0 [] (ans t)
      (cfgFU p recs content body pad res body2 pad2 res2 b mc st t.wlog 0
        (((x :: xs).map (UReq.spec mc)).map RSpec.handler)).W
      (connS b mc t (([.ret st], true) :: ((x :: xs).map (UReq.spec mc)).map RSpec.handler)) :=
    Or.inr ⟨rfl, rfl, by show t.input = _; rw [hW], rfl, hben, rfl, rfl, rfl, hev,
      (fun _ hs => nomatch hs), rfl, hem, Nat.le_refl _⟩
  have hleft0 : LeftOK (alignedBufsize b) [] := ⟨(fun _ he => nomatch he), (fun _ hr => nomatch hr)⟩
  obtain ⟨c1, hrun1, hw1⟩ := serve_filter0_core' ok hk (left := []) hleft0 (Z := x.wire) hT
    (goodNext_of_oku (hok x List.mem_cons_self) hlo) 0 fuel (by simp [idleOwed]; rfl) hstart (by unfold ans; omega)
  have hz : idleOwed mc [({ rtype := 8, id := p.id, content := [], pad := pad2, reserved := res2 } : Rec)] = [] := by
    simp only [idleOwed, List.flatMap_cons, List.flatMap_nil, List.append_nil]
    exact C04.owed_other none mc _ (by show RT.valid (8 : UInt8).toNat = true; decide)
      (by show (8 : UInt8).toNat ≠ RT.beginRequest; decide)
      (fun hx => absurd hx.1 (by show ¬ ((8 : UInt8).toNat = RT.getValues); decide))
  have hLU : (gF ((cfgFU p recs content body pad res body2 pad2 res2 b mc st t.wlog 0
      (((x :: xs).map (UReq.spec mc)).map RSpec.handler)).front [])).LU ++
      idleOwed mc [({ rtype := 8, id := p.id, content := [], pad := pad2, reserved := res2 } : Rec)] =
      t.wlog ++ (owedPreamble p mc recs ++
        (owedStream p.id 5 mc (body ++ [{ rtype := UInt8.ofNat 5, id := p.id, content := [], pad := pad, reserved := res }]) ++
          owedStream p.id 8 mc body2) ++ epilogue p.id st) := by
    rw [hz, List.append_nil, gF, gC_LU]
    show (t.wlog ++ owedPreamble p mc ([] ++ recs)) ++
      owedI p.id mc ((body ++ [{ rtype := 5, id := p.id, content := [], pad := pad, reserved := res }]) ++ body2) ++
      makeRequestEpilogue p.id st [RT.stdout, RT.stderr] = _
    rw [epilogue_eq, ← owedI_eq_owedStream, ← owedI_eq_owedStream8]
    simp only [owedI, List.flatMap_append, List.append_assoc, List.nil_append]
    rfl
  have hw1' : Waiting (alignedBufsize b) mc
      [({ rtype := 8, id := p.id, content := [], pad := pad2, reserved := res2 } : Rec)]
      (t.wlog ++ (owedPreamble p mc recs ++
        (owedStream p.id 5 mc (body ++ [{ rtype := UInt8.ofNat 5, id := p.id, content := [], pad := pad, reserved := res }]) ++
          owedStream p.id 8 mc body2) ++ epilogue p.id st))
      (((x :: xs).map (UReq.spec mc)).map RSpec.handler) 1 [hsEvent p.request] (ans t) c1 := by
    rw [← hLU]; exact hw1
  obtain ⟨c', A, hrun, hseg, hw⟩ := chain_serves (alignedBufsize b) mc (serAll dummyRecs ++ [])
    (xs.map (UReq.spec mc)) (UReq.spec mc x) _ _ 1 [hsEvent p.request] (ans t) (feed c1 x.wire) 1000 fuel
    (hall_of_oku x xs hok) hlo (Or.inl ⟨c1, hw1', rfl⟩) (by unfold ans; omega)
  have hrun' : closedLoop fuel ((x :: xs).map UReq.wire)
      (connS b mc t (([.ret st], true) :: (x :: xs).map UReq.handler)) 0 = (c', "STALL") := by
    have e : (x :: xs).map UReq.handler = ((x :: xs).map (UReq.spec mc)).map RSpec.handler := by
      rw [List.map_map]; rfl
    rw [e]
    show closedLoop fuel (x.wire :: xs.map UReq.wire) _ 0 = _
    rw [closedLoop, hrun1]
    simp only [if_true]
    rw [← hrun, List.map_map]; rfl
  have hlast := lastLeft_specs mc x xs
  refine ⟨c', body2, _, A, hrun', rfl, segAll_specs mc (x :: xs) A hseg, hw.log, ?_, ?_, ?_, hw.sc, hw.inp, ?_⟩
  · have := hw.hs; simpa [Nat.add_comm] using this
  · exact hw.ev _ (mem_evsAfter _ _ _ (Or.inl List.mem_cons_self))
  · intro y hy
    exact hw.ev _ (mem_evsAfter _ _ _ (Or.inr ⟨UReq.spec mc y, List.mem_map_of_mem hy, rfl⟩))
  · rw [← hlast]; exact hw.ph

/-- `unread_filter_e2e` without the size hypothesis. -/
theorem unread_filter_e2e_unbounded {p : Preamble} {recs : List Rec} {content : Bytes} {srecs : List Rec}
    {content2 : Bytes} {drecs : List Rec}
    {b mc : Nat} {st : ExitStatus} {more : List (List HOp × Bool)} {t : Transport} {fuel : Nat}
    (hwf : WellFormedPreamble p recs) (hrole : p.role = 3) (hk : p.flags.toNat % 2 = 1)
    (hpairs : ∀ q ∈ p.pairs, (NV.enc q).length ≤ alignedBufsize b)
    (hnoise : NoiseFits (alignedBufsize b) recs)
    (hs : StreamRecs p.id 5 content srecs) (hsn : NoiseFits (alignedBufsize b) srecs)
    (hd : StreamRecs p.id 8 content2 drecs) (hdn : NoiseFits (alignedBufsize b) drecs)
    (hnb : ∀ r ∈ drecs, r.rtype.toNat ≠ RT.beginRequest)
    (hin : t.input = serAll recs ++ (serAll srecs ++ serAll drecs)) (hben : Ben t) (hev : hsCount t.events = 0)
    (hfuel : t.rd.length + t.wr.length + 1 ≤ fuel) :
    ∃ c' fin d₁ s₂, runTask fuel (connS b mc t (([.ret st], true) :: more)) 0 none = (c', fin) ∧
      FilterOutcome p recs srecs drecs d₁ s₂ b mc st more t c' fin := by
  have hid := (pid_of_wf hwf).2
  have hidle : ∀ r ∈ drecs, IdleNoise r := idle_of_noBegin (streamRecs_wf hid (by decide) hd) hnb
  obtain ⟨body, pad, res, hpad, hbody, hsrecs⟩ := StreamRecs.split hs
  obtain ⟨body2, pad2, res2, hpad2, hbody2, hdrecs⟩ := StreamRecs.split hd
  subst hsrecs hdrecs
  have ok := fgok_of (mc := mc) (st := st) t.wlog 0 more hwf hrole hpairs hnoise hs hsn hpad2 hbody2 hd hdn
  have hmem : ∀ d1 s2 : List Rec, (cfgFG p recs content body pad res content2 body2 pad2 res2 b mc st t.wlog 0 more).R2 =
      d1 ++ s2 → ∀ e ∈ s2,
      e ∈ body2 ++ [{ rtype := UInt8.ofNat 8, id := p.id, content := [], pad := pad2, reserved := res2 }] := by
    intro d1 s2 hsp e he
    have : e ∈ (cfgFG p recs content body pad res content2 body2 pad2 res2 b mc st t.wlog 0 more).R2 := by
      rw [hsp]; exact List.mem_append_right _ he
    exact this
  have hgood : ∀ d1 s2 : List Rec, (cfgFG p recs content body pad res content2 body2 pad2 res2 b mc st t.wlog 0 more).R2 =
      d1 ++ s2 → GoodNext (alignedBufsize b) mc s2 (serAll dummyRecs ++ []) := fun d1 s2 hsp =>
    idle_front dummy_wf b mc (fun q hq => by cases hq) (dummy_fits _) (fun e he => hidle e (hmem d1 s2 hsp e he))
      (fun e he hg => hdn e (hmem d1 s2 hsp e he) hg) []
  have hst : FStage (cfgFG p recs content body pad res content2 body2 pad2 res2 b mc st t.wlog 0 more)
      (connS b mc t (([.ret st], true) :: more)) :=
    .start (raw := []) rfl (by
      show [] ++ t.input = _
      rw [hin, C02.serAll_append, C02.serAll_single, C02.serAll_append, C02.serAll_single, List.append_assoc (serAll body)]
      rfl) (Nat.zero_le _) rfl hben rfl rfl rfl hev
  obtain ⟨c', fin, hrun, ⟨d1, s2⟩, hsp, hkp, hem, _, _, _, hend⟩ :=
    run_filterG' ok hk (Z := serAll dummyRecs ++ []) (fun d1 s2 h => (hgood d1 s2 h).1) (fun d1 s2 h => (hgood d1 s2 h).2)
      t.endMode [] _ 0 fuel hst rfl (fun s hs => by cases hs) rfl (by show ans t + 1 ≤ fuel; unfold ans; omega)
  have hsp' : body2 ++ [{ rtype := UInt8.ofNat 8, id := p.id, content := [], pad := pad2, reserved := res2 }] = d1 ++ s2 := hsp
  have hs2 : ∀ e ∈ s2, IdleNoise e := fun e he => hidle e (hmem d1 s2 hsp e he)
  have hLU := gC_LU_filter (p := p) (recs := recs) (content := content) (body := body) (pad := pad) (res := res)
    (content2 := content2) (body2 := body2) (pad2 := pad2) (res2 := res2)
    (b := b) (mc := mc) (st := st) (L0 := t.wlog) (h := 0) (more := more) [] d1 s2 (fun _ h => nomatch h)
  have hout : ∀ F, F ++ (serAll dummyRecs ++ []) = serAll s2 ++ (serAll dummyRecs ++ []) →
      (gC (cfgFG p recs content body pad res content2 body2 pad2 res2 b mc st t.wlog 0 more)
        ((cfgFG p recs content body pad res content2 body2 pad2 res2 b mc st t.wlog 0 more).R ++ d1) s2).LU ++
        (run .header F mc).out =
      t.wlog ++ (owedPreamble p mc recs ++
        (owedStream p.id 5 mc (body ++ [{ rtype := UInt8.ofNat 5, id := p.id, content := [], pad := pad, reserved := res }]) ++
          owedStream p.id 8 mc d1) ++ epilogue p.id st ++ idleOwed mc s2) := by
    intro F hF
    have e : (cfgFG p recs content body pad res content2 body2 pad2 res2 b mc st t.wlog 0 more).front [] =
        cfgFG p recs content body pad res content2 body2 pad2 res2 b mc st t.wlog 0 more := rfl
    rw [e] at hLU
    have hLU' : (gC (cfgFG p recs content body pad res content2 body2 pad2 res2 b mc st t.wlog 0 more)
        ((cfgFG p recs content body pad res content2 body2 pad2 res2 b mc st t.wlog 0 more).R ++ d1) s2).LU =
        t.wlog ++ idleOwed mc [] ++ (owedPreamble p mc recs ++
          (owedStream p.id 5 mc (body ++ [{ rtype := UInt8.ofNat 5, id := p.id, content := [], pad := pad, reserved := res }]) ++
            owedStream p.id 8 mc d1) ++ epilogue p.id st) := hLU
    rw [List.append_cancel_right hF, (run_idle_out mc s2 hs2).1, hLU']
    simp only [idleOwed, List.flatMap_nil, List.append_nil, List.append_assoc]
  refine ⟨c', fin, d1, s2, hrun, hsp', ⟨hkp.hs, hkp.ev _ List.mem_cons_self⟩, ?_, hkp.sc, ?_⟩
  · rcases hend with ⟨_, hp⟩ | ⟨_, hf⟩
    · obtain ⟨F, hF, _, _, hlg⟩ := hp.pst
      exact hlg.trans (hout F hF)
    · obtain ⟨F, hF, hlg⟩ := hf.log
      exact hlg.trans (hout F hF)
  · rcases hend with ⟨rfl, hp⟩ | ⟨rfl, hf⟩
    · obtain ⟨F, hF, hps, hph, _⟩ := hp.pst
      have hFe : F = serAll s2 := List.append_cancel_right hF
      subst hFe
      exact Or.inr ⟨hem.symm.trans hp.em, rfl, hph, hp.inp, hkp.mx, hps.stop, hps.ben⟩
    · exact Or.inl ⟨hem.symm.trans hf.em, rfl, hf.ph⟩

/-- `unread_filter_chain_e2e` without the size hypothesis. -/
theorem unread_filter_chain_e2e_unbounded {p : Preamble} {recs : List Rec} {content : Bytes} {srecs : List Rec}
    {content2 : Bytes} {drecs : List Rec}
    {b mc : Nat} {st : ExitStatus} (x : UReq) (xs : List UReq) {t : Transport} {fuel : Nat}
    (hwf : WellFormedPreamble p recs) (hrole : p.role = 3) (hk : p.flags.toNat % 2 = 1)
    (hpairs : ∀ q ∈ p.pairs, (NV.enc q).length ≤ alignedBufsize b)
    (hnoise : NoiseFits (alignedBufsize b) recs)
    (hs : StreamRecs p.id 5 content srecs) (hsn : NoiseFits (alignedBufsize b) srecs)
    (hd : StreamRecs p.id 8 content2 drecs) (hdn : NoiseFits (alignedBufsize b) drecs)
    (hnb : ∀ r ∈ drecs, r.rtype.toNat ≠ RT.beginRequest)
    (hok : ∀ y ∈ x :: xs, y.OKu b)
    (hin : t.input = serAll recs ++ (serAll srecs ++ serAll drecs)) (hben : Ben t) (hem : t.endMode = .pend)
    (hev : hsCount t.events = 0) (hfuel : t.rd.length + t.wr.length + 1 ≤ fuel) :
    ∃ c' d₁ s₂ A,
      closedLoop fuel ((x :: xs).map UReq.wire)
        (connS b mc t (([.ret st], true) :: (x :: xs).map UReq.handler)) 0 = (c', "STALL") ∧
      drecs = d₁ ++ s₂ ∧
      SegsAll mc (x :: xs) A ∧
      c'.env.tr.wlog = t.wlog ++ (owedPreamble p mc recs ++
        (owedStream p.id 5 mc srecs ++ owedStream p.id 8 mc d₁) ++ epilogue p.id st ++ owedStream p.id 8 mc s₂) ++ A ∧
      hsCount c'.env.tr.events = 1 + (x :: xs).length ∧
      startEvent p.request ∈ c'.env.tr.events ∧
      (∀ y ∈ x :: xs, startEvent y.p.request ∈ c'.env.tr.events) ∧ c'.scripts = [] ∧
      c'.env.tr.input = [] ∧
      c'.phase = .parseReq (track (alignedBufsize b) mc (serAll ((x :: xs).getLast (by simp)).left)) .reading := by
  have hid := (pid_of_wf hwf).2
  have hidle : ∀ r ∈ drecs, IdleNoise r := idle_of_noBegin (streamRecs_wf hid (by decide) hd) hnb
  obtain ⟨body, pad, res, hpad, hbody, hsrecs⟩ := StreamRecs.split hs
  obtain ⟨body2, pad2, res2, hpad2, hbody2, hdrecs⟩ := StreamRecs.split hd
  subst hsrecs hdrecs
  have ok := fgok_of (mc := mc) (st := st) t.wlog 0 (((x :: xs).map (UReq.spec mc)).map RSpec.handler)
    hwf hrole hpairs hnoise hs hsn hpad2 hbody2 hd hdn
  have hW : (cfgFG p recs content body pad res content2 body2 pad2 res2 b mc st t.wlog 0
      (((x :: xs).map (UReq.spec mc)).map RSpec.handler)).W = t.input := by
    rw [hin, C02.serAll_append, C02.serAll_single, C02.serAll_append, C02.serAll_single, List.append_assoc (serAll body)]
    rfl
  have hstart : StartAt (alignedBufsize b) mc [] t.wlog
      (([.ret st], true) :: ((x :: xs).map (UReq.spec mc)).map RSpec.handler) 0 [] (ans t)
      (cfgFG p recs content body pad res content2 body2 pad2 res2 b mc st t.wlog 0
        (((x :: xs).map (UReq.spec mc)).map RSpec.handler)).W
      (connS b mc t (([.ret st], true) :: ((x :: xs).map (UReq.spec mc)).map RSpec.handler)) :=
    Or.inr ⟨rfl, rfl, by show t.input = _; rw [hW], rfl, hben, rfl, rfl, rfl, hev,
      (fun _ hs => nomatch hs), rfl, hem, Nat.le_refl _⟩
  have hleft0 : LeftOK (alignedBufsize b) [] := ⟨(fun _ he => nomatch he), (fun _ hr => nomatch hr)⟩
  have hlo : ∀ d1 s2 : List Rec, (cfgFG p recs content body pad res content2 body2 pad2 res2 b mc st t.wlog 0
      (((x :: xs).map (UReq.spec mc)).map RSpec.handler)).R2 = d1 ++ s2 → LeftOK (alignedBufsize b) s2 := by
    intro d1 s2 hsp
    have hm : ∀ e ∈ s2, e ∈ (cfgFG p recs content body pad res content2 body2 pad2 res2 b mc st t.wlog 0
        (((x :: xs).map (UReq.spec mc)).map RSpec.handler)).R2 := fun e he => by
      rw [hsp]; exact List.mem_append_right _ he
    exact ⟨fun e he => hidle e (hm e he), fun e he hg => hdn e (hm e he) hg⟩
  obtain ⟨c1, d1, s2, hrun1, hsp, hw1⟩ := serve_filterG_core' ok hk (left := []) hleft0
    (Z := x.wire) (fun e he => hidle e he)
    (fun d1 s2 hsp => goodNext_of_oku (hok x List.mem_cons_self) (hlo d1 s2 hsp)) 0 fuel
    (by simp [idleOwed]; rfl) hstart (by unfold ans; omega)
  have hsp' : body2 ++ [{ rtype := UInt8.ofNat 8, id := p.id, content := [], pad := pad2, reserved := res2 }] = d1 ++ s2 := hsp
  have hnb2 : ∀ r ∈ s2, r.rtype.toNat ≠ RT.beginRequest := fun e he => hnb e (by
    rw [hsp']; exact List.mem_append_right _ he)
  have hLU := gC_LU_filter (p := p) (recs := recs) (content := content) (body := body) (pad := pad) (res := res)
    (content2 := content2) (body2 := body2) (pad2 := pad2) (res2 := res2)
    (b := b) (mc := mc) (st := st) (L0 := t.wlog) (h := 0)
    (more := ((x :: xs).map (UReq.spec mc)).map RSpec.handler) [] d1 s2 (fun _ h => nomatch h)
  have hLw : (gC ((cfgFG p recs content body pad res content2 body2 pad2 res2 b mc st t.wlog 0
      (((x :: xs).map (UReq.spec mc)).map RSpec.handler)).front [])
      ((cfgFG p recs content body pad res content2 body2 pad2 res2 b mc st t.wlog 0
      (((x :: xs).map (UReq.spec mc)).map RSpec.handler)).R ++ d1) s2).LU ++ idleOwed mc s2 =
      t.wlog ++ (owedPreamble p mc recs ++
        (owedStream p.id 5 mc (body ++ [{ rtype := UInt8.ofNat 5, id := p.id, content := [], pad := pad, reserved := res }]) ++
          owedStream p.id 8 mc d1) ++ epilogue p.id st ++ owedStream p.id 8 mc s2) := by
    have hLU' : (gC ((cfgFG p recs content body pad res content2 body2 pad2 res2 b mc st t.wlog 0
      (((x :: xs).map (UReq.spec mc)).map RSpec.handler)).front [])
      ((cfgFG p recs content body pad res content2 body2 pad2 res2 b mc st t.wlog 0
      (((x :: xs).map (UReq.spec mc)).map RSpec.handler)).R ++ d1) s2).LU = _ := hLU
    rw [hLU', idleOwed_eq_owedStream8 p.id mc hnb2]
    simp only [idleOwed, List.flatMap_nil, List.append_nil, List.append_assoc]
  have hw1' : Waiting (alignedBufsize b) mc s2
      (t.wlog ++ (owedPreamble p mc recs ++
        (owedStream p.id 5 mc (body ++ [{ rtype := UInt8.ofNat 5, id := p.id, content := [], pad := pad, reserved := res }]) ++
          owedStream p.id 8 mc d1) ++ epilogue p.id st ++ owedStream p.id 8 mc s2))
      (((x :: xs).map (UReq.spec mc)).map RSpec.handler) 1 [hsEvent p.request] (ans t) c1 := by
    rw [← hLw]; exact hw1
  obtain ⟨c', A, hrun, hseg, hw⟩ := chain_serves (alignedBufsize b) mc (serAll dummyRecs ++ [])
    (xs.map (UReq.spec mc)) (UReq.spec mc x) s2 _ 1 [hsEvent p.request] (ans t) (feed c1 x.wire) 1000 fuel
    (hall_of_oku x xs hok) (hlo d1 s2 hsp) (Or.inl ⟨c1, hw1', rfl⟩) (by unfold ans; omega)
  have hrun' : closedLoop fuel ((x :: xs).map UReq.wire)
      (connS b mc t (([.ret st], true) :: (x :: xs).map UReq.handler)) 0 = (c', "STALL") := by
    have e : (x :: xs).map UReq.handler = ((x :: xs).map (UReq.spec mc)).map RSpec.handler := by
      rw [List.map_map]; rfl
    rw [e]
    show closedLoop fuel (x.wire :: xs.map UReq.wire) _ 0 = _
    rw [closedLoop, hrun1]
    simp only [if_true]
    rw [← hrun, List.map_map]; rfl
  have hlast := lastLeft_specs mc x xs
  refine ⟨c', d1, s2, A, hrun', hsp', segAll_specs mc (x :: xs) A hseg, hw.log, ?_, ?_, ?_, hw.sc, hw.inp, ?_⟩
  · have := hw.hs; simpa [Nat.add_comm] using this
  · exact hw.ev _ (mem_evsAfter _ _ _ (Or.inl List.mem_cons_self))
  · intro y hy
    exact hw.ev _ (mem_evsAfter _ _ _ (Or.inr ⟨UReq.spec mc y, List.mem_map_of_mem hy, rfl⟩))
  · rw [← hlast]; exact hw.ph

/-- `unread_prefix_write_e2e` without the size hypothesis. -/
theorem unread_prefix_write_e2e_unbounded {p : Preamble} {recs : List Rec} {content : Bytes} {srecs : List Rec}
    {b mc n : Nat} {data : Bytes} {st : ExitStatus} {more : List (List HOp × Bool)} {t : Transport} {fuel : Nat}
    (hn : 0 < n)
    (hwf : WellFormedPreamble p recs) (hrole : p.role = 1) (hk : p.flags.toNat % 2 = 1)
    (hpairs : ∀ q ∈ p.pairs, (NV.enc q).length ≤ alignedBufsize b)
    (hnoise : NoiseFits (alignedBufsize b) recs)
    (hstr : StreamRecs p.id 5 content srecs) (hsn : NoiseFits (alignedBufsize b) srecs)
    (hnb : ∀ r ∈ srecs, r.rtype.toNat ≠ RT.beginRequest)
    (hin : t.input = serAll recs ++ serAll srecs) (hben : Ben t) (hev : hsCount t.events = 0)
    (hfuel : t.rd.length + t.wr.length + 1 ≤ fuel)
    (hhf : wcost data.length + 6 ≤ 1000) :
    ∃ c' fin s₁ s₂ O₁ O₂ d, runTask fuel (connS b mc t ((readThenWrite n data st, true) :: more)) 0 none = (c', fin) ∧
      PrefixWriteOutcome p recs content srecs s₁ s₂ O₁ O₂ d b mc data st more t c' fin := by
  have hidle := srecs_idle hwf hstr hnb
  obtain ⟨body, pad, res, hpad, hbody, hsrecs⟩ := StreamRecs.split hstr
  subst hsrecs
  have ok : PWOK (cfgPW p recs content body pad res b mc n data st t.wlog 0 more) n :=
    ⟨hwf, hrole, hpairs, hnoise, hbody, fun r hr hg => hsn r (List.mem_append_left _ hr) hg, hpad, rfl, rfl,
      streamRecs_stdin (pid_of_wf hwf).2 hstr, rfl, hn, hhf⟩
  have hmem : ∀ s1 s2 : List Rec, (cfgPW p recs content body pad res b mc n data st t.wlog 0 more).R = s1 ++ s2 →
      ∀ e ∈ s2, e ∈ body ++ [{ rtype := UInt8.ofNat 5, id := p.id, content := [], pad := pad, reserved := res }] := by
    intro s1 s2 hsp e he
    have : e ∈ (cfgPW p recs content body pad res b mc n data st t.wlog 0 more).R := by
      rw [hsp]; exact List.mem_append_right _ he
    exact this
  have hgood : ∀ s1 s2 : List Rec, (cfgPW p recs content body pad res b mc n data st t.wlog 0 more).R = s1 ++ s2 →
      GoodNext (alignedBufsize b) mc s2 (serAll dummyRecs ++ []) := fun s1 s2 hsp =>
    idle_front dummy_wf b mc (fun q hq => by cases hq) (dummy_fits _) (fun e he => hidle e (hmem s1 s2 hsp e he))
      (fun e he hg => hsn e (hmem s1 s2 hsp e he) hg) []
  have hst : FStage (cfgPW p recs content body pad res b mc n data st t.wlog 0 more)
      (connS b mc t ((readThenWrite n data st, true) :: more)) :=
    .start (raw := []) rfl (by show [] ++ t.input = _; rw [hin, C02.serAll_append, C02.serAll_single]; rfl)
      (Nat.zero_le _) rfl hben rfl rfl rfl hev
  obtain ⟨c', fin, hrun, i, hi, hkp, hem, _, _, _, hend⟩ :=
    run_prefixW' ok hk (Z := serAll dummyRecs ++ []) (fun s1 s2 h => (hgood s1 s2 h).1) (fun s1 s2 h => (hgood s1 s2 h).2)
      t.endMode [] _ 0 fuel hst rfl (fun s hs => by cases hs) rfl (by show ans t + 1 ≤ fuel; unfold ans; omega)
  obtain ⟨hsp, hO, hd1, hd2⟩ := hi
  have hs2 : ∀ e ∈ i.s2, IdleNoise e := fun e he => hidle e (hmem i.s1 i.s2 hsp e he)
  have hnb2 : ∀ r ∈ i.s2, r.rtype.toNat ≠ RT.beginRequest := fun e he => hnb e (hmem i.s1 i.s2 hsp e he)
  have hout : ∀ F, F ++ (serAll dummyRecs ++ []) = serAll i.s2 ++ (serAll dummyRecs ++ []) →
      ((cfgPW p recs content body pad res b mc n data st t.wlog 0 more).L1 ++ i.O1) ++
        (cfgPW p recs content body pad res b mc n data st t.wlog 0 more).D ++ i.O2 ++
        (cfgPW p recs content body pad res b mc n data st t.wlog 0 more).epi ++ (run .header F mc).out =
      t.wlog ++ (owedPreamble p mc recs ++ i.O1 ++ streamRecords 6 p.id data ++ i.O2 ++ epilogue p.id st ++
        owedStream p.id 5 mc i.s2) := by
    intro F hF
    rw [List.append_cancel_right hF, (run_idle_out mc i.s2 hs2).1, idleOwed_eq_owedStream5 p.id mc hnb2]
    show ((t.wlog ++ owedPreamble p mc recs) ++ i.O1) ++ streamRecords 6 p.id data ++ i.O2 ++
      makeRequestEpilogue p.id st [RT.stdout, RT.stderr] ++ _ = _
    rw [epilogue_eq]
    simp only [List.append_assoc]
  refine ⟨c', fin, i.s1, i.s2, i.O1, i.O2, i.d, hrun, hsp, hO.trans (owedI_eq_owedStream p.id mc i.s1),
    ⟨hd1, hd2, hkp.ev _ (by simp)⟩, ⟨hkp.hs, hkp.ev _ List.mem_cons_self⟩, ?_, hkp.sc, ?_⟩
  · rcases hend with ⟨_, hp⟩ | ⟨_, hf⟩
    · obtain ⟨F, hF, _, _, hlg⟩ := hp.pst
      exact hlg.trans (hout F hF)
    · obtain ⟨F, hF, hlg⟩ := hf.log
      exact hlg.trans (hout F hF)
  · rcases hend with ⟨rfl, hp⟩ | ⟨rfl, hf⟩
    · obtain ⟨F, hF, hps, hph, _⟩ := hp.pst
      have hFe : F = serAll i.s2 := List.append_cancel_right hF
      subst hFe
      exact Or.inr ⟨hem.symm.trans hp.em, rfl, hph, hp.inp, hkp.mx, hps.stop, hps.ben⟩
    · exact Or.inl ⟨hem.symm.trans hf.em, rfl, hf.ph⟩

/-- `unread_prefix_write_chain_e2e` without the size hypothesis. -/
theorem unread_prefix_write_chain_e2e_unbounded {p : Preamble} {recs : List Rec} {content : Bytes} {srecs : List Rec}
    {b mc n : Nat} {data : Bytes} {st : ExitStatus} (x : UReq) (xs : List UReq) {t : Transport} {fuel : Nat}
    (hn : 0 < n)
    (hwf : WellFormedPreamble p recs) (hrole : p.role = 1) (hk : p.flags.toNat % 2 = 1)
    (hpairs : ∀ q ∈ p.pairs, (NV.enc q).length ≤ alignedBufsize b)
    (hnoise : NoiseFits (alignedBufsize b) recs)
    (hstr : StreamRecs p.id 5 content srecs) (hsn : NoiseFits (alignedBufsize b) srecs)
    (hnb : ∀ r ∈ srecs, r.rtype.toNat ≠ RT.beginRequest)
    (hok : ∀ y ∈ x :: xs, y.OKu b)
    (hin : t.input = serAll recs ++ serAll srecs) (hben : Ben t) (hem : t.endMode = .pend)
    (hev : hsCount t.events = 0) (hfuel : t.rd.length + t.wr.length + 1 ≤ fuel)
    (hhf : wcost data.length + 6 ≤ 1000) :
    ∃ c' s₁ s₂ O₁ O₂ d A,
      closedLoop fuel ((x :: xs).map UReq.wire)
        (connS b mc t ((readThenWrite n data st, true) :: (x :: xs).map UReq.handler)) 0 = (c', "STALL") ∧
      srecs = s₁ ++ s₂ ∧ O₁ ++ O₂ = owedStream p.id 5 mc s₁ ∧ d <+: content ∧ readSomeEvent d ∈ c'.env.tr.events ∧
      SegsAll mc (x :: xs) A ∧
      c'.env.tr.wlog = t.wlog ++ (owedPreamble p mc recs ++ O₁ ++ streamRecords 6 p.id data ++ O₂ ++ epilogue p.id st ++
        owedStream p.id 5 mc s₂) ++ A ∧
      hsCount c'.env.tr.events = 1 + (x :: xs).length ∧
      startEvent p.request ∈ c'.env.tr.events ∧
      (∀ y ∈ x :: xs, startEvent y.p.request ∈ c'.env.tr.events) ∧ c'.scripts = [] ∧
      c'.env.tr.input = [] ∧
      c'.phase = .parseReq (track (alignedBufsize b) mc (serAll ((x :: xs).getLast (by simp)).left)) .reading := by
  have hidle := srecs_idle hwf hstr hnb
  obtain ⟨body, pad, res, hpad, hbody, hsrecs⟩ := StreamRecs.split hstr
  subst hsrecs
  have ok : PWOK (cfgPW p recs content body pad res b mc n data st t.wlog 0
      (((x :: xs).map (UReq.spec mc)).map RSpec.handler)) n :=
    ⟨hwf, hrole, hpairs, hnoise, hbody, fun r hr hg => hsn r (List.mem_append_left _ hr) hg, hpad, rfl, rfl,
      streamRecs_stdin (pid_of_wf hwf).2 hstr, rfl, hn, hhf⟩
  -- the first request
  have hstart : StartAt (alignedBufsize b) mc [] t.wlog
      ((readThenWrite n data st, true) :: ((x :: xs).map (UReq.spec mc)).map RSpec.handler) 0 [] (ans t)
      (serAll recs ++ (serAll body ++
        ({ rtype := 5, id := p.id, content := [], pad := pad, reserved := res } : Rec).ser))
      (connS b mc t ((readThenWrite n data st, true) :: ((x :: xs).map (UReq.spec mc)).map RSpec.handler)) :=
    Or.inr ⟨rfl, rfl, by show t.input = _; rw [hin, C02.serAll_append, C02.serAll_single]; rfl, rfl, hben, rfl, rfl, rfl, hev,
      (fun _ hs => nomatch hs), rfl, hem, Nat.le_refl _⟩
  have hleft0 : LeftOK (alignedBufsize b) [] := ⟨(fun _ he => nomatch he), (fun _ hr => nomatch hr)⟩
  have hR : ∀ e ∈ (cfgPW p recs content body pad res b mc n data st t.wlog 0
      (((x :: xs).map (UReq.spec mc)).map RSpec.handler)).R, IdleNoise e := fun e he => hidle e he
  have hlo : ∀ s1 s2 : List Rec, (cfgPW p recs content body pad res b mc n data st t.wlog 0
      (((x :: xs).map (UReq.spec mc)).map RSpec.handler)).R = s1 ++ s2 → LeftOK (alignedBufsize b) s2 := by
    intro s1 s2 hsp
    have hm : ∀ e ∈ s2, e ∈ (cfgPW p recs content body pad res b mc n data st t.wlog 0
        (((x :: xs).map (UReq.spec mc)).map RSpec.handler)).R := fun e he => by
      rw [hsp]; exact List.mem_append_right _ he
    exact ⟨fun e he => hidle e (hm e he), fun e he hg => hsn e (hm e he) hg⟩
  obtain ⟨c1, i, hrun1, ⟨hsp, hO, hd1, _⟩, hd3, hw1⟩ := serve_prefixW_core' ok hk (left := []) hleft0
    (Z := x.wire) hR (fun s1 s2 hsp => goodNext_of_oku (hok x List.mem_cons_self) (hlo s1 s2 hsp)) 0 fuel
    (by simp [idleOwed]; rfl) hstart (by unfold ans; omega)
  have hnb2 : ∀ r ∈ i.s2, r.rtype.toNat ≠ RT.beginRequest := fun e he => hnb e (by
    have : e ∈ (cfgPW p recs content body pad res b mc n data st t.wlog 0
        (((x :: xs).map (UReq.spec mc)).map RSpec.handler)).R := by rw [hsp]; exact List.mem_append_right _ he
    exact this)
  have hLw : (((cfgPW p recs content body pad res b mc n data st t.wlog 0
      (((x :: xs).map (UReq.spec mc)).map RSpec.handler)).front []).L1 ++ i.O1) ++
      (cfgPW p recs content body pad res b mc n data st t.wlog 0
      (((x :: xs).map (UReq.spec mc)).map RSpec.handler)).D ++ i.O2 ++
      (cfgPW p recs content body pad res b mc n data st t.wlog 0
      (((x :: xs).map (UReq.spec mc)).map RSpec.handler)).epi ++ idleOwed mc i.s2 =
      t.wlog ++ (owedPreamble p mc recs ++ i.O1 ++ streamRecords 6 p.id data ++ i.O2 ++ epilogue p.id st ++
        owedStream p.id 5 mc i.s2) := by
    rw [idleOwed_eq_owedStream5 p.id mc hnb2]
    show ((t.wlog ++ owedPreamble p mc ([] ++ recs)) ++ i.O1) ++ streamRecords 6 p.id data ++ i.O2 ++
      makeRequestEpilogue p.id st [RT.stdout, RT.stderr] ++ _ = _
    rw [epilogue_eq]
    simp only [List.append_assoc, List.nil_append]
  have hw1' : Waiting (alignedBufsize b) mc i.s2
      (t.wlog ++ (owedPreamble p mc recs ++ i.O1 ++ streamRecords 6 p.id data ++ i.O2 ++ epilogue p.id st ++
        owedStream p.id 5 mc i.s2))
      (((x :: xs).map (UReq.spec mc)).map RSpec.handler) 1 [hsEvent p.request, rdEvent i.d] (ans t) c1 := by
    rw [← hLw]
    have hev' : ∀ s ∈ [hsEvent p.request, rdEvent i.d], s ∈ c1.env.tr.events := by
      intro s hs
      rcases List.mem_cons.1 hs with rfl | hs
      · exact hw1.ev _ List.mem_cons_self
      · rw [List.mem_singleton.1 hs]; exact hd3
    exact { hw1 with ev := hev' }
  -- the others
  obtain ⟨c', A, hrun, hseg, hw⟩ := chain_serves (alignedBufsize b) mc (serAll dummyRecs ++ [])
    (xs.map (UReq.spec mc)) (UReq.spec mc x) i.s2 _ 1 [hsEvent p.request, rdEvent i.d] (ans t) (feed c1 x.wire) 1000 fuel
    (hall_of_oku x xs hok) (hlo i.s1 i.s2 hsp) (Or.inl ⟨c1, hw1', rfl⟩) (by unfold ans; omega)
  have hrun' : closedLoop fuel ((x :: xs).map UReq.wire)
      (connS b mc t ((readThenWrite n data st, true) :: (x :: xs).map UReq.handler)) 0 = (c', "STALL") := by
    have e : (x :: xs).map UReq.handler = ((x :: xs).map (UReq.spec mc)).map RSpec.handler := by
      rw [List.map_map]; rfl
    rw [e]
    show closedLoop fuel (x.wire :: xs.map UReq.wire) _ 0 = _
    rw [closedLoop, hrun1]
    simp only [if_true]
    rw [← hrun, List.map_map]; rfl
  have hlast := lastLeft_specs mc x xs
  have hevd : readSomeEvent i.d ∈ c'.env.tr.events :=
    hw.ev _ (mem_evsAfter _ _ _ (Or.inl (by simp)))
  refine ⟨c', i.s1, i.s2, i.O1, i.O2, i.d, A, hrun', hsp, hO.trans (owedI_eq_owedStream p.id mc i.s1), hd1, hevd, segAll_specs mc (x :: xs) A hseg, hw.log, ?_, ?_, ?_, hw.sc, hw.inp, ?_⟩
  · have := hw.hs; simpa [Nat.add_comm] using this
  · exact hw.ev _ (mem_evsAfter _ _ _ (Or.inl List.mem_cons_self))
  · intro y hy
    exact hw.ev _ (mem_evsAfter _ _ _ (Or.inr ⟨UReq.spec mc y, List.mem_map_of_mem hy, rfl⟩))
  · rw [← hlast]; exact hw.ph


/-- `authorizer_tail_e2e` without the size hypothesis. -/
theorem authorizer_tail_e2e_unbounded {p : Preamble} {recs tail : List Rec} {b mc : Nat} {rd : ARead} {wr : Bool}
    {data : Bytes} {st : ExitStatus} {more : List (List HOp × Bool)} {t : Transport} {fuel : Nat}
    (hwf : WellFormedPreamble p recs) (hrole : p.role = 2)
    (hpairs : ∀ q ∈ p.pairs, (NV.enc q).length ≤ alignedBufsize b)
    (hnoise : NoiseFits (alignedBufsize b) recs)
    (htail : ∀ r ∈ tail, StreamNoise p.id r) (htn : NoiseFits (alignedBufsize b) tail)
    (hnb : ∀ r ∈ tail, r.rtype.toNat ≠ RT.beginRequest)
    (hwd : wr = false → data = [])
    (hin : t.input = serAll recs ++ serAll tail) (hben : Ben t) (hev : hsCount t.events = 0)
    (hfuel : t.rd.length + t.wr.length + 1 ≤ fuel)
    (hhf : wcost data.length + 8 ≤ 1000) :
    ∃ c' fin t₁ t₂ O₁ O₂, runTask fuel (connS b mc t ((aHandler rd wr data st, true) :: more)) 0 none = (c', fin) ∧
      AuthTailOutcome p recs tail t₁ t₂ O₁ O₂ rd b mc data st more t c' fin := by
  have hidle : ∀ r ∈ tail, IdleNoise r := idle_of_noBegin (fun r hr => (htail r hr).1) hnb
  have ok := aok_of (mc := mc) (rd := rd) (st := st) t.wlog 0 more hwf hrole hpairs hnoise htail htn hwd hhf
  have hmem : ∀ t1 t2 : List Rec, (cfgA p recs tail b mc rd wr data st t.wlog 0 more).body = t1 ++ t2 →
      ∀ e ∈ t2, e ∈ tail := by
    intro t1 t2 hsp e he
    have : e ∈ (cfgA p recs tail b mc rd wr data st t.wlog 0 more).body := by rw [hsp]; exact List.mem_append_right _ he
    exact this
  have hgood : ∀ t1 t2 : List Rec, (cfgA p recs tail b mc rd wr data st t.wlog 0 more).body = t1 ++ t2 →
      GoodNext (alignedBufsize b) mc t2 (serAll dummyRecs ++ []) := fun t1 t2 hsp =>
    idle_front dummy_wf b mc (fun q hq => by cases hq) (dummy_fits _) (fun e he => hidle e (hmem t1 t2 hsp e he))
      (fun e he hg => htn e (hmem t1 t2 hsp e he) hg) []
  have hst : FStage (cfgA p recs tail b mc rd wr data st t.wlog 0 more)
      (connS b mc t ((aHandler rd wr data st, true) :: more)) :=
    .start (raw := []) rfl (by show [] ++ t.input = _; rw [hin]; rfl) (Nat.zero_le _) rfl hben rfl rfl rfl hev
  obtain ⟨c', fin, hrun, hres⟩ :=
    run_auth' ok (Z := serAll dummyRecs ++ []) (fun t1 t2 h => (hgood t1 t2 h).1) (fun t1 t2 h => (hgood t1 t2 h).2)
      t.endMode [] _ 0 fuel hst rfl (fun s hs => by cases hs) rfl (by show ans t + 1 ≤ fuel; unfold ans; omega)
  have hLeq : ∀ O1 O2 : Bytes, ((cfgA p recs tail b mc rd wr data st t.wlog 0 more).L1 ++ O1) ++
      (cfgA p recs tail b mc rd wr data st t.wlog 0 more).D ++ O2 ++
      (cfgA p recs tail b mc rd wr data st t.wlog 0 more).epi =
      t.wlog ++ (owedPreamble p mc recs ++ O1 ++ streamRecords 6 p.id data ++ O2 ++ epilogue p.id st) := by
    intro O1 O2
    show ((t.wlog ++ owedPreamble p mc recs) ++ O1) ++ streamRecords 6 p.id data ++ O2 ++
      makeRequestEpilogue p.id st [RT.stdout, RT.stderr] = _
    rw [epilogue_eq]
    simp only [List.append_assoc]
  rcases hres with ⟨i, ⟨⟨hsp, hO⟩, hk⟩, hkp, hem, _, _, _, hend⟩ | ⟨hfin, ⟨s1, s2, O1, O2, hsp, hO, hrd, hfu⟩, _, _⟩
  · have hs2 : ∀ e ∈ i.t2, IdleNoise e := fun e he => hidle e (hmem i.t1 i.t2 hsp e he)
    have hout : ∀ F, F ++ (serAll dummyRecs ++ []) = serAll i.t2 ++ (serAll dummyRecs ++ []) →
        AIdx.L (cfgA p recs tail b mc rd wr data st t.wlog 0 more) i ++ (run .header F mc).out =
        t.wlog ++ (owedPreamble p mc recs ++ i.O1 ++ streamRecords 6 p.id data ++ i.O2 ++ epilogue p.id st ++
          idleOwed mc i.t2) := by
      intro F hF
      rw [List.append_cancel_right hF, (run_idle_out mc i.t2 hs2).1, AIdx.L, hLeq]
      simp only [List.append_assoc]
    refine ⟨c', fin, i.t1, i.t2, i.O1, i.O2, hrun, hsp, hO, fun s hs => hkp.ev _ (List.mem_cons_of_mem _ hs),
      ⟨hkp.hs, hkp.ev _ List.mem_cons_self⟩, hkp.sc, Or.inl ⟨hk, ?_, ?_⟩⟩
    · rcases hend with ⟨_, hp⟩ | ⟨_, hf⟩
      · obtain ⟨F, hF, _, _, hlg⟩ := hp.pst
        exact hlg.trans (hout F hF)
      · obtain ⟨F, hF, hlg⟩ := hf.log
        exact hlg.trans (hout F hF)
    · rcases hend with ⟨rfl, hp⟩ | ⟨rfl, hf⟩
      · obtain ⟨F, hF, hps, hph, _⟩ := hp.pst
        have hFe : F = serAll i.t2 := List.append_cancel_right hF
        subst hFe
        exact Or.inr ⟨hem.symm.trans hp.em, rfl, hph, hp.inp, hkp.mx, hps.stop, hps.ben⟩
      · exact Or.inl ⟨hem.symm.trans hf.em, rfl, hf.ph⟩
  · refine ⟨c', fin, s1, s2, O1, O2, hrun, hsp, hO, fun s hs => hrd s hs, ⟨hfu.ev.1, hfu.ev.2⟩, hfu.sc,
      Or.inr ⟨hfu.nokeep, hfin, hfu.ph, ?_⟩⟩
    rw [hfu.log, gD_LU]
    exact hLeq O1 O2

/-- `authorizer_tail_chain_e2e` without the size hypothesis. -/
theorem authorizer_tail_chain_e2e_unbounded {p : Preamble} {recs tail : List Rec} {b mc : Nat} {rd : ARead} {wr : Bool}
    {data : Bytes} {st : ExitStatus} (x : UReq) (xs : List UReq) {t : Transport} {fuel : Nat}
    (hwf : WellFormedPreamble p recs) (hrole : p.role = 2) (hk : p.flags.toNat % 2 = 1)
    (hpairs : ∀ q ∈ p.pairs, (NV.enc q).length ≤ alignedBufsize b)
    (hnoise : NoiseFits (alignedBufsize b) recs)
    (htail : ∀ r ∈ tail, StreamNoise p.id r) (htn : NoiseFits (alignedBufsize b) tail)
    (hnb : ∀ r ∈ tail, r.rtype.toNat ≠ RT.beginRequest)
    (hwd : wr = false → data = [])
    (hok : ∀ y ∈ x :: xs, y.OKu b)
    (hin : t.input = serAll recs ++ serAll tail) (hben : Ben t) (hem : t.endMode = .pend)
    (hev : hsCount t.events = 0) (hfuel : t.rd.length + t.wr.length + 1 ≤ fuel)
    (hhf : wcost data.length + 8 ≤ 1000) :
    ∃ c' t₁ t₂ O₁ O₂ A,
      closedLoop fuel ((x :: xs).map UReq.wire)
        (connS b mc t ((aHandler rd wr data st, true) :: (x :: xs).map UReq.handler)) 0 = (c', "STALL") ∧
      tail = t₁ ++ t₂ ∧ O₁ ++ O₂ = owedActive p.id mc t₁ ∧ (∀ s ∈ rd.evs, s ∈ c'.env.tr.events) ∧
      SegsAll mc (x :: xs) A ∧
      c'.env.tr.wlog = t.wlog ++ (owedPreamble p mc recs ++ O₁ ++ streamRecords 6 p.id data ++ O₂ ++ epilogue p.id st ++
        idleOwed mc t₂) ++ A ∧
      hsCount c'.env.tr.events = 1 + (x :: xs).length ∧
      startEvent p.request ∈ c'.env.tr.events ∧
      (∀ y ∈ x :: xs, startEvent y.p.request ∈ c'.env.tr.events) ∧ c'.scripts = [] ∧
      c'.env.tr.input = [] ∧
      c'.phase = .parseReq (track (alignedBufsize b) mc (serAll ((x :: xs).getLast (by simp)).left)) .reading := by
  have hidle : ∀ r ∈ tail, IdleNoise r := idle_of_noBegin (fun r hr => (htail r hr).1) hnb
  have ok := aok_of (mc := mc) (rd := rd) (st := st) t.wlog 0 (((x :: xs).map (UReq.spec mc)).map RSpec.handler)
    hwf hrole hpairs hnoise htail htn hwd hhf
  have hstart : StartAt (alignedBufsize b) mc [] t.wlog
      ((aHandler rd wr data st, true) :: ((x :: xs).map (UReq.spec mc)).map RSpec.handler) 0 [] (ans t)
      (serAll recs ++ serAll tail)
      (connS b mc t ((aHandler rd wr data st, true) :: ((x :: xs).map (UReq.spec mc)).map RSpec.handler)) :=
    Or.inr ⟨rfl, rfl, hin, rfl, hben, rfl, rfl, rfl, hev, (fun _ hs => nomatch hs), rfl, hem, Nat.le_refl _⟩
  have hleft0 : LeftOK (alignedBufsize b) [] := ⟨(fun _ he => nomatch he), (fun _ hr => nomatch hr)⟩
  have hlo : ∀ t1 t2 : List Rec, (cfgA p recs tail b mc rd wr data st t.wlog 0
      (((x :: xs).map (UReq.spec mc)).map RSpec.handler)).body = t1 ++ t2 → LeftOK (alignedBufsize b) t2 := by
    intro t1 t2 hsp
    have hm : ∀ e ∈ t2, e ∈ tail := fun e he => by
      have : e ∈ (cfgA p recs tail b mc rd wr data st t.wlog 0
        (((x :: xs).map (UReq.spec mc)).map RSpec.handler)).body := by rw [hsp]; exact List.mem_append_right _ he
      exact this
    exact ⟨fun e he => hidle e (hm e he), fun e he hg => htn e (hm e he) hg⟩
  obtain ⟨c1, i, hrun1, ⟨hsp, hO⟩, hrdev, hw1⟩ := serve_auth_core' ok hk (left := []) hleft0
    (Z := x.wire) (fun e he => hidle e he)
    (fun t1 t2 hsp => goodNext_of_oku (hok x List.mem_cons_self) (hlo t1 t2 hsp)) 0 fuel
    (by simp [idleOwed]; rfl) hstart (by unfold ans; omega)
  have hLw : AIdx.L ((cfgA p recs tail b mc rd wr data st t.wlog 0
      (((x :: xs).map (UReq.spec mc)).map RSpec.handler)).front []) i ++ idleOwed mc i.t2 =
      t.wlog ++ (owedPreamble p mc recs ++ i.O1 ++ streamRecords 6 p.id data ++ i.O2 ++ epilogue p.id st ++
        idleOwed mc i.t2) := by
    show ((t.wlog ++ owedPreamble p mc ([] ++ recs)) ++ i.O1) ++ streamRecords 6 p.id data ++ i.O2 ++
      makeRequestEpilogue p.id st [RT.stdout, RT.stderr] ++ _ = _
    rw [epilogue_eq]
    simp only [List.append_assoc, List.nil_append]
  have hw1' : Waiting (alignedBufsize b) mc i.t2
      (t.wlog ++ (owedPreamble p mc recs ++ i.O1 ++ streamRecords 6 p.id data ++ i.O2 ++ epilogue p.id st ++
        idleOwed mc i.t2))
      (((x :: xs).map (UReq.spec mc)).map RSpec.handler) 1 (hsEvent p.request :: rd.evs) (ans t) c1 := by
    rw [← hLw]
    have hev' : ∀ s ∈ hsEvent p.request :: rd.evs, s ∈ c1.env.tr.events := by
      intro s hs
      rcases List.mem_cons.1 hs with rfl | hs
      · exact hw1.ev _ List.mem_cons_self
      · exact hrdev s hs
    exact { hw1 with ev := hev' }
  obtain ⟨c', A, hrun, hseg, hw⟩ := chain_serves (alignedBufsize b) mc (serAll dummyRecs ++ [])
    (xs.map (UReq.spec mc)) (UReq.spec mc x) i.t2 _ 1 (hsEvent p.request :: rd.evs) (ans t) (feed c1 x.wire) 1000 fuel
    (hall_of_oku x xs hok) (hlo i.t1 i.t2 hsp) (Or.inl ⟨c1, hw1', rfl⟩) (by unfold ans; omega)
  have hrun' : closedLoop fuel ((x :: xs).map UReq.wire)
      (connS b mc t ((aHandler rd wr data st, true) :: (x :: xs).map UReq.handler)) 0 = (c', "STALL") := by
    have e : (x :: xs).map UReq.handler = ((x :: xs).map (UReq.spec mc)).map RSpec.handler := by
      rw [List.map_map]; rfl
    rw [e]
    show closedLoop fuel (x.wire :: xs.map UReq.wire) _ 0 = _
    rw [closedLoop, hrun1]
    simp only [if_true]
    rw [← hrun, List.map_map]; rfl
  have hlast := lastLeft_specs mc x xs
  refine ⟨c', i.t1, i.t2, i.O1, i.O2, A, hrun', hsp, hO,
    fun s hs => hw.ev _ (mem_evsAfter _ _ _ (Or.inl (List.mem_cons_of_mem _ hs))),
    segAll_specs mc (x :: xs) A hseg, hw.log, ?_, ?_, ?_, hw.sc, hw.inp, ?_⟩
  · have := hw.hs; simpa [Nat.add_comm] using this
  · exact hw.ev _ (mem_evsAfter _ _ _ (Or.inl List.mem_cons_self))
  · intro y hy
    exact hw.ev _ (mem_evsAfter _ _ _ (Or.inr ⟨UReq.spec mc y, List.mem_map_of_mem hy, rfl⟩))
  · rw [← hlast]; exact hw.ph

end Fcgi.C07U

/-! ## C11: `AbortRequest` (`Props/C11E2E`)

Neither `hsize` nor `hhf`: `AbOK` lost its field `hfu` (`bread_core` uses the `4·cap` term of the handler fuel). -/
namespace Fcgi.C11E
open Fcgi Fcgi.Req Fcgi.Str Fcgi.Async Fcgi.Run Fcgi.Spec Fcgi.E2E Fcgi.C07E

/-- `abort_in_params_e2e` without the size hypothesis. -/
theorem abort_in_params_e2e_unbounded {p : Preamble} {hd suf : List Rec} {a : Rec} {b mc : Nat} {q : Sent}
    {t : Transport} {fuel : Nat}
    (hwf : WellFormedPreamble p (hd ++ suf)) (hsuf : suf ≠ []) (hbeg : ∃ r ∈ hd, ¬ IdleNoise r)
    (ha : IsAbort p.id a)
    (hpairs : ∀ x ∈ p.pairs, (NV.enc x).length ≤ alignedBufsize b)
    (hnoise : NoiseFits (alignedBufsize b) (hd ++ suf))
    (hq : q.OKu b)
    (hin : t.input = serAll hd ++ a.ser ++ q.wire) (hben : Ben t) (hev : hsCount t.events = 0)
    (hfuel : t.rd.length + t.wr.length + 1 ≤ fuel) :
    ∃ c' fin O₁ O₂, runTask fuel (connS b mc t [q.handler]) 0 none = (c', fin) ∧
      O₁ ++ O₂ = q.owed mc ∧
      OutcomeG q.p q.reads b mc t.wlog
        (owedPreamble p mc hd ++ abortReply p.id ++ expectedLogN q.p q.recs mc q.data q.st O₁ O₂) t c' fin := by
  have hab := absorb_abort (b := b) hwf hsuf hbeg ha hpairs hnoise mc
  have ok := cfg_ok_u (mc := mc) hq (t.wlog ++ (owedPreamble p mc hd ++ abortReply p.id)) 0 []
  have hab' : Absorb (q.cfg b mc (t.wlog ++ (owedPreamble p mc hd ++ abortReply p.id)) 0 []).cap
      (q.cfg b mc (t.wlog ++ (owedPreamble p mc hd ++ abortReply p.id)) 0 []).mc (serAll hd ++ a.ser)
      (owedPreamble p mc hd ++ abortReply p.id) := by
    rw [E2E.Cfg.cap, cfg_b, cfg_mc]; exact hab
  have hpre : APre (serAll hd ++ a.ser) t.wlog
      (q.cfg b mc (t.wlog ++ (owedPreamble p mc hd ++ abortReply p.id)) 0 []) (connS b mc t [q.handler]) := by
    refine ⟨Or.inr ⟨[], ?_, ?_, Nat.zero_le _, rfl, hben, rfl⟩, ?_, rfl, ?_⟩
    · show Phase.parseReq (Req.Parser.new b mc) .start = _
      rw [E2E.Cfg.cap, cfg_b, cfg_mc]; rfl
    · show [] ++ t.input = _
      rw [cfg_W, hin, List.nil_append]
    · show [q.handler] = _
      rw [cfg_more, cfg_hscript]
    · rw [cfg_hs0]; exact hev
  have hend := run_absorbed' ok hab' (cfg_L0 ..) (connS b mc t [q.handler]) 0 fuel hpre rfl
    (by show ans t + 1 ≤ fuel; unfold ans; omega)
  obtain ⟨c', fin, O1, O2, hrun, hO, _, hre, ho⟩ := outcome_of_end hend (cfg_hs0 ..)
  rw [cfg_Ot] at hO
  rw [cfg_p, cfg_recs, cfg_data, cfg_st, cfg_mc, cfg_b, cfg_L0] at ho
  refine ⟨c', fin, O1, O2, hrun, hO, ho.one_handler, fun d hd => hre _ ?_, ?_, ho.final⟩
  · rw [cfg_revs]; exact List.mem_map_of_mem hd
  · rw [ho.log]; simp only [List.append_assoc]

/-- `abort_in_params_alone_e2e` without the size hypothesis. -/
theorem abort_in_params_alone_e2e_unbounded {p : Preamble} {hd suf : List Rec} {a : Rec} {b mc : Nat}
    {sc : List (List HOp × Bool)} {t : Transport} {fuel : Nat}
    (hwf : WellFormedPreamble p (hd ++ suf)) (hsuf : suf ≠ []) (hbeg : ∃ r ∈ hd, ¬ IdleNoise r)
    (ha : IsAbort p.id a)
    (hpairs : ∀ x ∈ p.pairs, (NV.enc x).length ≤ alignedBufsize b)
    (hnoise : NoiseFits (alignedBufsize b) (hd ++ suf))
    (hin : t.input = serAll hd ++ a.ser) (hben : Ben t) (hev : hsCount t.events = 0)
    (hfuel : t.rd.length + t.wr.length + 1 ≤ fuel) :
    ∃ c' fin, runTask fuel (connS b mc t sc) 0 none = (c', fin) ∧
      c'.env.tr.wlog = t.wlog ++ (owedPreamble p mc hd ++ abortReply p.id) ∧
      hsCount c'.env.tr.events = 0 ∧ c'.scripts = sc ∧
      ((t.endMode = .eof ∧ fin = "RET" ∧ c'.phase = .finished) ∨
       (t.endMode = .pend ∧ fin = "STALL" ∧
         c'.phase = .parseReq ⟨alignedBufsize b, [], .header, mc⟩ .reading ∧ c'.env.tr.input = [])) := by
  have hab := absorb_abort (b := b) hwf hsuf hbeg ha hpairs hnoise mc
  have hat : ATail (alignedBufsize b) mc (serAll hd ++ a.ser) t.wlog (connS b mc t sc) :=
    Or.inr ⟨[], rfl, by show [] ++ t.input = _; rw [hin]; rfl, Nat.zero_le _, rfl, hben, rfl⟩
  obtain ⟨c', fin, hrun, hlog, hk, hfin⟩ := run_tail' (alignedBufsize_ge b) hab (sc := sc) (h0 := 0) (evs := [])
    (em := t.endMode) (connS b mc t sc) 0 fuel hat ⟨rfl, hev, fun s hs => (by cases hs), rfl⟩ rfl
    (by show ans t + 1 ≤ fuel; unfold ans; omega)
  refine ⟨c', fin, hrun, hlog, hk.hs, hk.sc, ?_⟩
  rcases hfin with ⟨h1, h2, h3⟩ | ⟨h1, h2, h3, h4⟩
  · exact Or.inl ⟨h3, h1, h2⟩
  · exact Or.inr ⟨h4, h1, h2, h3⟩

/-- `foreign_abort_ignored_e2e` without the size hypothesis. -/
theorem foreign_abort_ignored_e2e_unbounded {p : Preamble} {recs : List Rec} {content : Bytes} {s1 s2 : List Rec}
    {f : Rec} {b mc : Nat} {data : Bytes} {st : ExitStatus} {t : Transport} {fuel : Nat}
    (hwf : WellFormedPreamble p recs) (hrole : p.role = 1)
    (hpairs : ∀ q ∈ p.pairs, (NV.enc q).length ≤ alignedBufsize b)
    (hnoise : NoiseFits (alignedBufsize b) recs)
    (hs : StreamRecs p.id 5 content (s1 ++ s2)) (hs2 : s2 ≠ [])
    (hsn : NoiseFits (alignedBufsize b) (s1 ++ s2)) (hf : ForeignAbort p.id f)
    (hin : t.input = serAll recs ++ serAll (s1 ++ f :: s2)) (hben : Ben t) (hev : hsCount t.events = 0)
    (hfuel : t.rd.length + t.wr.length + 1 ≤ fuel)
   
    (hhf : wcost data.length + 12 ≤ 1000) :
    ∃ c' fin O₁ O₂, runTask fuel (conn0 b mc t data st) 0 none = (c', fin) ∧
      O₁ ++ O₂ = owedStream p.id 5 mc (s1 ++ s2) ∧
      OutcomeN p content b mc t.wlog (expectedLogN p recs mc data st O₁ O₂) t c' fin := by
  have := single_request_e2e_unbounded (mc := mc) (data := data) (st := st) hwf hrole hpairs hnoise
    (streamRecs_insert hf.noise s1 hs hs2) (noiseFits_insert hf hsn) hin hben hev hfuel hhf
  rw [owedStream_insert hf] at this
  exact this

/-- `abort_core_nokeep` without the size hypothesis. -/
theorem abort_core_nokeep_unbounded {p : Preamble} {recs : List Rec} {c1 : Bytes} {body : List Rec} {a : Rec}
    {tail : Bytes} {b mc : Nat} {stA : ExitStatus} {pr : Bool} {rest : List HOp} {t : Transport} {fuel : Nat}
    (hwf : WellFormedPreamble p recs) (hrole : p.role = 1) (hnk : p.flags.toNat % 2 = 0)
    (hpairs : ∀ q ∈ p.pairs, (NV.enc q).length ≤ alignedBufsize b)
    (hnoise : NoiseFits (alignedBufsize b) recs)
    (hbody : Body p.id 5 c1 body) (hbn : NoiseFits (alignedBufsize b) body) (ha : IsAbort p.id a)
    (hmode : (pr = true ∧ stA = ExitStatus.abort) ∨ (pr = false ∧ rest = [.ret stA]))
    (hin : t.input = serAll recs ++ (serAll body ++ (a.ser ++ tail))) (hben : Ben t)
    (hev : hsCount t.events = 0) (hfuel : t.rd.length + t.wr.length + 1 ≤ fuel) :
    ∃ c' O₁ O₂, runTask fuel (connS b mc t [(.readAll :: rest, pr)]) 0 none = (c', "RET") ∧
      O₁ ++ O₂ = owedStream p.id 5 mc body ∧
      c'.env.tr.wlog = t.wlog ++ (owedPreamble p mc recs ++ O₁ ++ O₂ ++ epilogue p.id stA) ∧
      c'.phase = .finished ∧ hsCount c'.env.tr.events = 1 ∧ AbortedOutcome p c1 c' := by
  have ok : AbOK (cfgAb p recs c1 body a tail b mc stA rest t.wlog 0 []) a tail pr rest :=
    ⟨hwf, hrole, hpairs, hnoise, hbody, hbn, ha, rfl, rfl, rfl, hmode⟩
  have hst : BStage (cfgAb p recs c1 body a tail b mc stA rest t.wlog 0 []) pr rest
      (connS b mc t [(.readAll :: rest, pr)]) :=
    .start (raw := []) rfl (by show [] ++ t.input = _; rw [hin]; rfl) (Nat.zero_le _) rfl hben rfl rfl rfl hev
  obtain ⟨c', O1, O2, hrun, hO, hfin⟩ := run_abort_nokeep' ok hnk _ 0 fuel hst rfl
    (by show ans t + 1 ≤ fuel; unfold ans; omega)
  refine ⟨c', O1, O2, hrun, hO, ?_, hfin.ph, hfin.ev.1, hfin.ev.2, hfin.ra⟩
  rw [hfin.log]
  show ((t.wlog ++ owedPreamble p mc recs) ++ O1 ++ O2 ++ makeRequestEpilogue p.id stA [RT.stdout, RT.stderr]) = _
  rw [epilogue_eq]
  simp only [List.append_assoc]

/-- `abort_mid_stream_e2e` without the size hypothesis. -/
theorem abort_mid_stream_e2e_unbounded {p : Preamble} {recs : List Rec} {c1 : Bytes} {body : List Rec} {a : Rec}
    {tail : Bytes} {b mc : Nat} {data : Bytes} {st : ExitStatus} {t : Transport} {fuel : Nat}
    (hwf : WellFormedPreamble p recs) (hrole : p.role = 1) (hnk : p.flags.toNat % 2 = 0)
    (hpairs : ∀ q ∈ p.pairs, (NV.enc q).length ≤ alignedBufsize b)
    (hnoise : NoiseFits (alignedBufsize b) recs)
    (hbody : Body p.id 5 c1 body) (hbn : NoiseFits (alignedBufsize b) body) (ha : IsAbort p.id a)
    (hin : t.input = serAll recs ++ (serAll body ++ (a.ser ++ tail))) (hben : Ben t)
    (hev : hsCount t.events = 0) (hfuel : t.rd.length + t.wr.length + 1 ≤ fuel) :
    ∃ c' O₁ O₂, runTask fuel (conn0 b mc t data st) 0 none = (c', "RET") ∧
      O₁ ++ O₂ = owedStream p.id 5 mc body ∧
      c'.env.tr.wlog = t.wlog ++ (owedPreamble p mc recs ++ O₁ ++ O₂ ++ epilogue p.id ExitStatus.abort) ∧
      c'.phase = .finished ∧ hsCount c'.env.tr.events = 1 ∧ AbortedOutcome p c1 c' :=
  abort_core_nokeep_unbounded (pr := true) (rest := [.open_ 6, .writeAll 0 data, .dropW 0, .ret st]) hwf hrole hnk hpairs
    hnoise hbody hbn ha (Or.inl ⟨rfl, rfl⟩) hin hben hev hfuel

/-- `abort_own_status_e2e` without the size hypothesis. -/
theorem abort_own_status_e2e_unbounded {p : Preamble} {recs : List Rec} {c1 : Bytes} {body : List Rec} {a : Rec}
    {tail : Bytes} {b mc : Nat} {st : ExitStatus} {t : Transport} {fuel : Nat}
    (hwf : WellFormedPreamble p recs) (hrole : p.role = 1) (hnk : p.flags.toNat % 2 = 0)
    (hpairs : ∀ q ∈ p.pairs, (NV.enc q).length ≤ alignedBufsize b)
    (hnoise : NoiseFits (alignedBufsize b) recs)
    (hbody : Body p.id 5 c1 body) (hbn : NoiseFits (alignedBufsize b) body) (ha : IsAbort p.id a)
    (hin : t.input = serAll recs ++ (serAll body ++ (a.ser ++ tail))) (hben : Ben t)
    (hev : hsCount t.events = 0) (hfuel : t.rd.length + t.wr.length + 1 ≤ fuel) :
    ∃ c' O₁ O₂, runTask fuel (connS b mc t [([.readAll, .ret st], false)]) 0 none = (c', "RET") ∧
      O₁ ++ O₂ = owedStream p.id 5 mc body ∧
      c'.env.tr.wlog = t.wlog ++ (owedPreamble p mc recs ++ O₁ ++ O₂ ++ epilogue p.id st) ∧
      c'.phase = .finished ∧ hsCount c'.env.tr.events = 1 ∧ AbortedOutcome p c1 c' :=
  abort_core_nokeep_unbounded (pr := false) (rest := [.ret st]) hwf hrole hnk hpairs
    hnoise hbody hbn ha (Or.inr ⟨rfl, rfl⟩) hin hben hev hfuel

/-- `abort_mid_stream_prefix_e2e` without the size hypothesis. -/
theorem abort_mid_stream_prefix_e2e_unbounded {p : Preamble} {recs : List Rec} {content : Bytes} {body suf : List Rec}
    {a : Rec} {tail : Bytes} {b mc : Nat} {data : Bytes} {st : ExitStatus} {t : Transport} {fuel : Nat}
    (hwf : WellFormedPreamble p recs) (hrole : p.role = 1) (hnk : p.flags.toNat % 2 = 0)
    (hpairs : ∀ q ∈ p.pairs, (NV.enc q).length ≤ alignedBufsize b)
    (hnoise : NoiseFits (alignedBufsize b) recs)
    (hs : StreamRecs p.id 5 content (body ++ suf)) (hsuf : suf ≠ [])
    (hbn : NoiseFits (alignedBufsize b) body) (ha : IsAbort p.id a)
    (hin : t.input = serAll recs ++ (serAll body ++ (a.ser ++ tail))) (hben : Ben t)
    (hev : hsCount t.events = 0) (hfuel : t.rd.length + t.wr.length + 1 ≤ fuel) :
    ∃ c' O₁ O₂ acc, runTask fuel (conn0 b mc t data st) 0 none = (c', "RET") ∧
      O₁ ++ O₂ = owedStream p.id 5 mc body ∧ acc <+: content ∧ raEvent acc ∈ c'.env.tr.events ∧
      startEvent p.request ∈ c'.env.tr.events ∧ hsCount c'.env.tr.events = 1 ∧
      c'.env.tr.wlog = t.wlog ++ (owedPreamble p mc recs ++ O₁ ++ O₂ ++ epilogue p.id ExitStatus.abort) ∧
      c'.phase = .finished := by
  obtain ⟨c1, c2, hc, hbody⟩ := body_of_prefix body hs hsuf
  obtain ⟨c', O1, O2, hrun, hO, hlog, hph, hhs, hst, acc, lost, hacc, hmem⟩ :=
    abort_mid_stream_e2e_unbounded (mc := mc) (data := data) (st := st) hwf hrole hnk hpairs hnoise hbody hbn ha hin hben hev hfuel
  exact ⟨c', O1, O2, acc, hrun, hO, ⟨lost ++ c2, by rw [hc, ← hacc, List.append_assoc]⟩, hmem, hst, hhs, hlog, hph⟩

/-- `abort_core_next` without the size hypothesis. -/
theorem abort_core_next_unbounded {p : Preamble} {recs : List Rec} {c1 : Bytes} {body : List Rec} {a : Rec}
    {b mc : Nat} {stA : ExitStatus} {pr : Bool} {rest : List HOp} {q : Sent} {t : Transport} {fuel : Nat}
    (hwf : WellFormedPreamble p recs) (hrole : p.role = 1) (hk : p.flags.toNat % 2 = 1)
    (hpairs : ∀ x ∈ p.pairs, (NV.enc x).length ≤ alignedBufsize b)
    (hnoise : NoiseFits (alignedBufsize b) recs)
    (hbody : Body p.id 5 c1 body) (hbn : NoiseFits (alignedBufsize b) body) (ha : IsAbort p.id a)
    (hmode : (pr = true ∧ stA = ExitStatus.abort) ∨ (pr = false ∧ rest = [.ret stA]))
    (hq : q.OKu b)
    (hin : t.input = serAll recs ++ (serAll body ++ (a.ser ++ q.wire))) (hben : Ben t)
    (hev : hsCount t.events = 0) (hfuel : t.rd.length + t.wr.length + 1 ≤ fuel) :
    ∃ c' fin O₁ O₂ P₁ P₂, runTask fuel (connS b mc t [(.readAll :: rest, pr), q.handler]) 0 none = (c', fin) ∧
      O₁ ++ O₂ = owedStream p.id 5 mc body ∧ P₁ ++ P₂ = q.owed mc ∧
      c'.env.tr.wlog = t.wlog ++ (owedPreamble p mc recs ++ O₁ ++ O₂ ++ epilogue p.id stA ++
        expectedLogN q.p q.recs mc q.data q.st P₁ P₂) ∧
      hsCount c'.env.tr.events = 2 ∧ AbortedOutcome p c1 c' ∧ NextOutcome q b mc t c' fin := by
  have hid := (pid_of_wf hwf).2
  have ok : AbOK (cfgAb p recs c1 body a q.wire b mc stA rest t.wlog 0 [q.handler]) a q.wire pr rest :=
    ⟨hwf, hrole, hpairs, hnoise, hbody, hbn, ha, rfl, rfl, rfl, hmode⟩
  have hn : NextOK (cfgAb p recs c1 body a q.wire b mc stA rest t.wlog 0 [q.handler])
      (withRec (q.cfg b mc [] 1 []) a) := by
    refine ⟨withRec_ok (cfg_ok_u hq _ _ _) ha hid, cfg_b .., cfg_mc .., cfg_hs0 .., ?_, ?_, hk⟩
    · show [q.handler] = (((q.cfg b mc [] 1 []).hscript, true) :: (q.cfg b mc [] 1 []).more)
      rw [cfg_more, cfg_hscript]
    · show a.ser ++ q.wire = serAll (a :: (q.cfg b mc [] 1 []).recs) ++ (q.cfg b mc [] 1 []).X
      rw [serAll_cons, List.append_assoc]
      show a.ser ++ q.wire = a.ser ++ (q.cfg b mc [] 1 []).W
      rw [cfg_W]
  have hst : BStage (cfgAb p recs c1 body a q.wire b mc stA rest t.wlog 0 [q.handler]) pr rest
      (connS b mc t [(.readAll :: rest, pr), q.handler]) :=
    .start (raw := []) rfl (by show [] ++ t.input = _; rw [hin]; rfl) (Nat.zero_le _) rfl hben rfl rfl rfl hev
  obtain ⟨c', fin, O1, O2, P1, P2, hrun, hO, hP, hem, hra, hhs, hres⟩ :=
    run_abort_next' ok hn t.endMode _ 0 fuel hst rfl rfl (by show ans t + 1 ≤ fuel; unfold ans; omega)
  have hPq : P1 ++ P2 = q.owed mc := by rw [hP]; exact cfg_Ot ..
  -- the log
  have hlogeq : ((withRec (q.cfg b mc [] 1 []) a).at
        ((cfgAb p recs c1 body a q.wire b mc stA rest t.wlog 0 [q.handler]).LA O1 O2)).L3 P1 P2 =
      t.wlog ++ (owedPreamble p mc recs ++ O1 ++ O2 ++ epilogue p.id stA ++
        expectedLogN q.p q.recs mc q.data q.st P1 P2) := by
    rw [L3_eq]
    show (((t.wlog ++ owedPreamble p mc recs) ++ O1 ++ O2 ++ makeRequestEpilogue p.id stA [RT.stdout, RT.stderr])) ++
      expectedLogN (q.cfg b mc [] 1 []).p (a :: (q.cfg b mc [] 1 []).recs) (q.cfg b mc [] 1 []).mc
        (q.cfg b mc [] 1 []).data (q.cfg b mc [] 1 []).st P1 P2 = _
    rw [epilogue_eq, cfg_p, cfg_recs, cfg_mc, cfg_data, cfg_st]
    simp only [expectedLogN, owedPreamble_abort ha hid, List.append_assoc]
  have hrevs : ∀ (evs : ∀ s ∈ (q.cfg b mc [] 1 []).revs, s ∈ c'.env.tr.events), ∀ d ∈ q.reads,
      readEvent d ∈ c'.env.tr.events := by
    intro evs d hd
    exact evs _ (by rw [cfg_revs]; exact List.mem_map_of_mem hd)
  rcases hres with ⟨rfl, hfin⟩ | ⟨rfl, hpk⟩
  · have hev2 : hsCount c'.env.tr.events = 2 := by
      have := hfin.ev.1
      rw [show ((withRec (q.cfg b mc [] 1 []) a).at _).hs0 = 1 from cfg_hs0 ..] at this
      exact this
    refine ⟨c', "RET", O1, O2, P1, P2, hrun, hO, hPq, hfin.log.trans hlogeq, hev2, ⟨hhs, hra⟩,
      ⟨by have := hfin.ev.2; rwa [show ((withRec (q.cfg b mc [] 1 []) a).at _).p = q.p from cfg_p ..] at this,
        hrevs hfin.re, ?_⟩⟩
    have hwhy := hfin.why
    rw [show ((withRec (q.cfg b mc [] 1 []) a).at _).p = q.p from cfg_p ..] at hwhy
    rcases hwhy with hk0 | ⟨hk1, he⟩
    · exact Or.inl ⟨hk0, rfl, hfin.ph⟩
    · exact Or.inr (Or.inl ⟨hk1, hem.symm.trans he, rfl, hfin.ph⟩)
  · have hev2 : hsCount c'.env.tr.events = 2 := by
      have := hpk.ev.1
      rw [show ((withRec (q.cfg b mc [] 1 []) a).at _).hs0 = 1 from cfg_hs0 ..] at this
      exact this
    refine ⟨c', "STALL", O1, O2, P1, P2, hrun, hO, hPq, hpk.log.trans hlogeq, hev2, ⟨hhs, hra⟩,
      ⟨by have := hpk.ev.2; rwa [show ((withRec (q.cfg b mc [] 1 []) a).at _).p = q.p from cfg_p ..] at this,
        hrevs hpk.re, ?_⟩⟩
    have hkeep := hpk.keep
    rw [show ((withRec (q.cfg b mc [] 1 []) a).at _).p = q.p from cfg_p ..] at hkeep
    have hph := hpk.ph
    rw [show ((withRec (q.cfg b mc [] 1 []) a).at
          ((cfgAb p recs c1 body a q.wire b mc stA rest t.wlog 0 [q.handler]).LA O1 O2)).cap = alignedBufsize b from by
        show alignedBufsize (q.cfg b mc [] 1 []).b = _; rw [cfg_b],
      show ((withRec (q.cfg b mc [] 1 []) a).at
          ((cfgAb p recs c1 body a q.wire b mc stA rest t.wlog 0 [q.handler]).LA O1 O2)).mc = mc from cfg_mc ..] at hph
    exact Or.inr (Or.inr ⟨hkeep, hem.symm.trans hpk.em, rfl, hph, hpk.inp⟩)

/-- `abort_mid_stream_next_e2e` without the size hypothesis. -/
theorem abort_mid_stream_next_e2e_unbounded {p : Preamble} {recs : List Rec} {c1 : Bytes} {body : List Rec} {a : Rec}
    {b mc : Nat} {data : Bytes} {st : ExitStatus} {q : Sent} {t : Transport} {fuel : Nat}
    (hwf : WellFormedPreamble p recs) (hrole : p.role = 1) (hk : p.flags.toNat % 2 = 1)
    (hpairs : ∀ x ∈ p.pairs, (NV.enc x).length ≤ alignedBufsize b)
    (hnoise : NoiseFits (alignedBufsize b) recs)
    (hbody : Body p.id 5 c1 body) (hbn : NoiseFits (alignedBufsize b) body) (ha : IsAbort p.id a)
    (hq : q.OKu b)
    (hin : t.input = serAll recs ++ (serAll body ++ (a.ser ++ q.wire))) (hben : Ben t)
    (hev : hsCount t.events = 0) (hfuel : t.rd.length + t.wr.length + 1 ≤ fuel) :
    ∃ c' fin O₁ O₂ P₁ P₂,
      runTask fuel (connS b mc t [(canonical data st, true), q.handler]) 0 none = (c', fin) ∧
      O₁ ++ O₂ = owedStream p.id 5 mc body ∧ P₁ ++ P₂ = q.owed mc ∧
      c'.env.tr.wlog = t.wlog ++ (owedPreamble p mc recs ++ O₁ ++ O₂ ++ epilogue p.id ExitStatus.abort ++
        expectedLogN q.p q.recs mc q.data q.st P₁ P₂) ∧
      hsCount c'.env.tr.events = 2 ∧ AbortedOutcome p c1 c' ∧ NextOutcome q b mc t c' fin :=
  abort_core_next_unbounded (pr := true) (rest := [.open_ 6, .writeAll 0 data, .dropW 0, .ret st]) hwf hrole hk hpairs hnoise
    hbody hbn ha (Or.inl ⟨rfl, rfl⟩) hq hin hben hev hfuel

/-- `abort_own_status_next_e2e` without the size hypothesis. -/
theorem abort_own_status_next_e2e_unbounded {p : Preamble} {recs : List Rec} {c1 : Bytes} {body : List Rec} {a : Rec}
    {b mc : Nat} {st : ExitStatus} {q : Sent} {t : Transport} {fuel : Nat}
    (hwf : WellFormedPreamble p recs) (hrole : p.role = 1) (hk : p.flags.toNat % 2 = 1)
    (hpairs : ∀ x ∈ p.pairs, (NV.enc x).length ≤ alignedBufsize b)
    (hnoise : NoiseFits (alignedBufsize b) recs)
    (hbody : Body p.id 5 c1 body) (hbn : NoiseFits (alignedBufsize b) body) (ha : IsAbort p.id a)
    (hq : q.OKu b)
    (hin : t.input = serAll recs ++ (serAll body ++ (a.ser ++ q.wire))) (hben : Ben t)
    (hev : hsCount t.events = 0) (hfuel : t.rd.length + t.wr.length + 1 ≤ fuel) :
    ∃ c' fin O₁ O₂ P₁ P₂,
      runTask fuel (connS b mc t [([.readAll, .ret st], false), q.handler]) 0 none = (c', fin) ∧
      O₁ ++ O₂ = owedStream p.id 5 mc body ∧ P₁ ++ P₂ = q.owed mc ∧
      c'.env.tr.wlog = t.wlog ++ (owedPreamble p mc recs ++ O₁ ++ O₂ ++ epilogue p.id st ++
        expectedLogN q.p q.recs mc q.data q.st P₁ P₂) ∧
      hsCount c'.env.tr.events = 2 ∧ AbortedOutcome p c1 c' ∧ NextOutcome q b mc t c' fin :=
  abort_core_next_unbounded (pr := false) (rest := [.ret st]) hwf hrole hk hpairs hnoise
    hbody hbn ha (Or.inr ⟨rfl, rfl⟩) hq hin hben hev hfuel

/-- `abort_core_alone` without the size hypothesis. -/
theorem abort_core_alone_unbounded {p : Preamble} {recs : List Rec} {c1 : Bytes} {body : List Rec} {a : Rec}
    {b mc : Nat} {stA : ExitStatus} {pr : Bool} {rest : List HOp} {more : List (List HOp × Bool)}
    {t : Transport} {fuel : Nat}
    (hwf : WellFormedPreamble p recs) (hrole : p.role = 1) (hk : p.flags.toNat % 2 = 1)
    (hpairs : ∀ x ∈ p.pairs, (NV.enc x).length ≤ alignedBufsize b)
    (hnoise : NoiseFits (alignedBufsize b) recs)
    (hbody : Body p.id 5 c1 body) (hbn : NoiseFits (alignedBufsize b) body) (ha : IsAbort p.id a)
    (hmode : (pr = true ∧ stA = ExitStatus.abort) ∨ (pr = false ∧ rest = [.ret stA]))
    (hin : t.input = serAll recs ++ (serAll body ++ a.ser)) (hben : Ben t)
    (hev : hsCount t.events = 0) (hfuel : t.rd.length + t.wr.length + 1 ≤ fuel) :
    ∃ c' fin O₁ O₂, runTask fuel (connS b mc t ((.readAll :: rest, pr) :: more)) 0 none = (c', fin) ∧
      O₁ ++ O₂ = owedStream p.id 5 mc body ∧
      c'.env.tr.wlog = t.wlog ++ (owedPreamble p mc recs ++ O₁ ++ O₂ ++ epilogue p.id stA) ∧
      hsCount c'.env.tr.events = 1 ∧ c'.scripts = more ∧ AbortedOutcome p c1 c' ∧
      ((t.endMode = .eof ∧ fin = "RET" ∧ c'.phase = .finished) ∨
       (t.endMode = .pend ∧ fin = "STALL" ∧
         c'.phase = .parseReq ⟨alignedBufsize b, [], .header, mc⟩ .reading ∧ c'.env.tr.input = [])) := by
  have ok : AbOK (cfgAb p recs c1 body a [] b mc stA rest t.wlog 0 more) a [] pr rest :=
    ⟨hwf, hrole, hpairs, hnoise, hbody, hbn, ha, rfl, rfl, rfl, hmode⟩
  have hst : BStage (cfgAb p recs c1 body a [] b mc stA rest t.wlog 0 more) pr rest
      (connS b mc t ((.readAll :: rest, pr) :: more)) :=
    .start (raw := []) rfl (by show [] ++ t.input = _; rw [hin]; simp [cfgAb, E2E.Cfg.W]) (Nat.zero_le _) rfl hben
      rfl rfl rfl hev
  obtain ⟨c', fin, O1, O2, acc, lost, hrun, hO, hacc, hlog, hkp, hfin⟩ :=
    run_abort_alone' ok hk t.endMode _ 0 fuel hst rfl rfl (by show ans t + 1 ≤ fuel; unfold ans; omega)
  refine ⟨c', fin, O1, O2, hrun, hO, ?_, hkp.hs, hkp.sc, ⟨hkp.ev _ List.mem_cons_self, acc, lost, hacc, hkp.ev _ (List.mem_cons_of_mem _ List.mem_cons_self)⟩, ?_⟩
  · rw [hlog]
    show ((t.wlog ++ owedPreamble p mc recs) ++ O1 ++ O2 ++ makeRequestEpilogue p.id stA [RT.stdout, RT.stderr]) = _
    rw [epilogue_eq]
    simp only [List.append_assoc]
  · rcases hfin with ⟨h1, h2, h3⟩ | ⟨h1, h2, h3, h4⟩
    · exact Or.inl ⟨h3, h1, h2⟩
    · exact Or.inr ⟨h4, h1, h2, h3⟩

/-- `abort_mid_stream_alone_e2e` without the size hypothesis. -/
theorem abort_mid_stream_alone_e2e_unbounded {p : Preamble} {recs : List Rec} {c1 : Bytes} {body : List Rec} {a : Rec}
    {b mc : Nat} {data : Bytes} {st : ExitStatus} {more : List (List HOp × Bool)} {t : Transport} {fuel : Nat}
    (hwf : WellFormedPreamble p recs) (hrole : p.role = 1) (hk : p.flags.toNat % 2 = 1)
    (hpairs : ∀ x ∈ p.pairs, (NV.enc x).length ≤ alignedBufsize b)
    (hnoise : NoiseFits (alignedBufsize b) recs)
    (hbody : Body p.id 5 c1 body) (hbn : NoiseFits (alignedBufsize b) body) (ha : IsAbort p.id a)
    (hin : t.input = serAll recs ++ (serAll body ++ a.ser)) (hben : Ben t)
    (hev : hsCount t.events = 0) (hfuel : t.rd.length + t.wr.length + 1 ≤ fuel) :
    ∃ c' fin O₁ O₂, runTask fuel (connS b mc t ((canonical data st, true) :: more)) 0 none = (c', fin) ∧
      O₁ ++ O₂ = owedStream p.id 5 mc body ∧
      c'.env.tr.wlog = t.wlog ++ (owedPreamble p mc recs ++ O₁ ++ O₂ ++ epilogue p.id ExitStatus.abort) ∧
      hsCount c'.env.tr.events = 1 ∧ c'.scripts = more ∧ AbortedOutcome p c1 c' ∧
      ((t.endMode = .eof ∧ fin = "RET" ∧ c'.phase = .finished) ∨
       (t.endMode = .pend ∧ fin = "STALL" ∧
         c'.phase = .parseReq ⟨alignedBufsize b, [], .header, mc⟩ .reading ∧ c'.env.tr.input = [])) :=
  abort_core_alone_unbounded (pr := true) (rest := [.open_ 6, .writeAll 0 data, .dropW 0, .ret st]) hwf hrole hk hpairs hnoise
    hbody hbn ha (Or.inl ⟨rfl, rfl⟩) hin hben hev hfuel

/-- `abort_own_status_alone_e2e` without the size hypothesis. -/
theorem abort_own_status_alone_e2e_unbounded {p : Preamble} {recs : List Rec} {c1 : Bytes} {body : List Rec} {a : Rec}
    {b mc : Nat} {st : ExitStatus} {more : List (List HOp × Bool)} {t : Transport} {fuel : Nat}
    (hwf : WellFormedPreamble p recs) (hrole : p.role = 1) (hk : p.flags.toNat % 2 = 1)
    (hpairs : ∀ x ∈ p.pairs, (NV.enc x).length ≤ alignedBufsize b)
    (hnoise : NoiseFits (alignedBufsize b) recs)
    (hbody : Body p.id 5 c1 body) (hbn : NoiseFits (alignedBufsize b) body) (ha : IsAbort p.id a)
    (hin : t.input = serAll recs ++ (serAll body ++ a.ser)) (hben : Ben t)
    (hev : hsCount t.events = 0) (hfuel : t.rd.length + t.wr.length + 1 ≤ fuel) :
    ∃ c' fin O₁ O₂, runTask fuel (connS b mc t (([.readAll, .ret st], false) :: more)) 0 none = (c', fin) ∧
      O₁ ++ O₂ = owedStream p.id 5 mc body ∧
      c'.env.tr.wlog = t.wlog ++ (owedPreamble p mc recs ++ O₁ ++ O₂ ++ epilogue p.id st) ∧
      hsCount c'.env.tr.events = 1 ∧ c'.scripts = more ∧ AbortedOutcome p c1 c' ∧
      ((t.endMode = .eof ∧ fin = "RET" ∧ c'.phase = .finished) ∨
       (t.endMode = .pend ∧ fin = "STALL" ∧
         c'.phase = .parseReq ⟨alignedBufsize b, [], .header, mc⟩ .reading ∧ c'.env.tr.input = [])) :=
  abort_core_alone_unbounded (pr := false) (rest := [.ret st]) hwf hrole hk hpairs hnoise
    hbody hbn ha (Or.inr ⟨rfl, rfl⟩) hin hben hev hfuel

end Fcgi.C11E

/-! ## C11 for a Filter: the abort table (`Props/C11Filter`, `2`, `3`, `4`, `4Chain`) -/
namespace Fcgi.C11F
open Fcgi Fcgi.Req Fcgi.Str Fcgi.Async Fcgi.Run Fcgi.Spec Fcgi.E2E Fcgi.C07E Fcgi.C07U

/-- `filter_abort_noread_e2e` without the size hypothesis. -/
theorem filter_abort_noread_e2e_unbounded {p : Preamble} {recs pre : List Rec} {a : Rec} {post : List Rec}
    {b mc : Nat} {st : ExitStatus} {more : List (List HOp × Bool)} {t : Transport} {fuel : Nat}
    (hwf : WellFormedPreamble p recs) (hrole : p.role = 3)
    (hpairs : ∀ q ∈ p.pairs, (NV.enc q).length ≤ alignedBufsize b)
    (hnoise : NoiseFits (alignedBufsize b) recs)
    (hpre : ∀ r ∈ pre, StdinRec p.id r) (hpf : NoiseFits (alignedBufsize b) pre) (ha : IsAbort p.id a)
    (hpost : ∀ r ∈ post, r.WF) (hpostf : NoiseFits (alignedBufsize b) post)
    (hnb : ∀ r ∈ post, r.rtype.toNat ≠ RT.beginRequest)
    (hin : t.input = serAll recs ++ (serAll (pre ++ [a]) ++ serAll post)) (hben : Ben t)
    (hev : hsCount t.events = 0) (hfuel : t.rd.length + t.wr.length + 1 ≤ fuel) :
    ∃ c' fin, runTask fuel (connS b mc t (([.ret st], true) :: more)) 0 none = (c', fin) ∧
      FilterAbortOutcome p recs pre a post b mc st more t c' fin := by
  have hid := (pid_of_wf hwf).2
  have hwa := isAbort_wf ha hid
  have hidleA : IdleNoise a := ⟨hwa, fun hx => absurd hx (by rw [ha.1]; decide)⟩
  have hidle : ∀ e ∈ a :: post, IdleNoise e := by
    intro e he
    rcases List.mem_cons.1 he with rfl | he
    · exact hidleA
    · exact idle_of_noBegin hpost hnb e he
  have hfit : NoiseFits (alignedBufsize b) (a :: post) := by
    intro e he hg
    rcases List.mem_cons.1 he with rfl | he
    · exact absurd hg.1 (by rw [ha.1]; decide)
    · exact hpostf e he hg
  have ok := faok_of (post := post) (mc := mc) (st := st) t.wlog 0 more hwf hrole hpairs hnoise hpre hpf ha
  obtain ⟨hns, hNF⟩ := idle_front dummy_wf b mc (fun q hq => by cases hq) (dummy_fits _) hidle hfit []
  rw [serAll_cons] at hns hNF
  have hst : FStage (cfgFA p recs pre a post b mc st t.wlog 0 more) (connS b mc t (([.ret st], true) :: more)) :=
    .start (raw := []) rfl (by show [] ++ t.input = _; rw [hin]; rfl) (Nat.zero_le _) rfl hben rfl rfl rfl hev
  obtain ⟨c', fin, hrun, hres⟩ := run_filterA' ok (Z := serAll dummyRecs ++ []) hns hNF
    t.endMode [] _ 0 fuel hst rfl (fun s hs => by cases hs) rfl (by show ans t + 1 ≤ fuel; unfold ans; omega)
  have hLf := lfa_eq (p := p) (recs := recs) (pre := pre) (a := a) (post := post) (b := b) (mc := mc) (st := st)
    (L0 := t.wlog) (h := 0) (more := more) [] (fun _ h => nomatch h)
  have hLf' : (cfgFA p recs pre a post b mc st t.wlog 0 more).LfA =
      t.wlog ++ (owedPreamble p mc recs ++ owedActive p.id mc pre ++ endRequest p.id st) := by
    have e : (cfgFA p recs pre a post b mc st t.wlog 0 more).front [] = cfgFA p recs pre a post b mc st t.wlog 0 more := rfl
    rw [e] at hLf
    rw [hLf]; simp [idleOwed]
  rcases hres with ⟨_, hk, hkp, hem, _, _, _, hend⟩ | ⟨hfin, hfu, _, _⟩
  · have hout : ∀ F, F ++ (serAll dummyRecs ++ []) = a.ser ++ serAll post ++ (serAll dummyRecs ++ []) →
        (cfgFA p recs pre a post b mc st t.wlog 0 more).LfA ++ (run .header F mc).out =
        t.wlog ++ (owedPreamble p mc recs ++ owedActive p.id mc pre ++ endRequest p.id st ++ idleOwed mc post) := by
      intro F hF
      have hro := (run_idle_out mc (a :: post) hidle).1
      rw [serAll_cons] at hro
      rw [List.append_cancel_right hF, hro, hLf', idleOwed_cons, owed_idle_abort ha, List.nil_append]
      simp only [List.append_assoc]
    refine ⟨c', fin, hrun, ⟨hkp.hs, hkp.ev _ List.mem_cons_self⟩, hkp.sc, Or.inl ⟨hk, ?_, ?_⟩⟩
    · rcases hend with ⟨_, hp⟩ | ⟨_, hf⟩
      · obtain ⟨F, hF, _, _, hlg⟩ := hp.pst
        exact hlg.trans (hout F hF)
      · obtain ⟨F, hF, hlg⟩ := hf.log
        exact hlg.trans (hout F hF)
    · rcases hend with ⟨rfl, hp⟩ | ⟨rfl, hf⟩
      · obtain ⟨F, hF, hps, hph, _⟩ := hp.pst
        have hFe : F = a.ser ++ serAll post := List.append_cancel_right hF
        subst hFe
        exact Or.inr ⟨hem.symm.trans hp.em, rfl, hph, hp.inp, hkp.mx, hps.stop, hps.ben⟩
      · exact Or.inl ⟨hem.symm.trans hf.em, rfl, hf.ph⟩
  · exact ⟨c', fin, hrun, ⟨hfu.ev.1, hfu.ev.2⟩, hfu.sc, Or.inr ⟨hfu.nokeep, hfin, hfu.ph, hfu.log.trans hLf'⟩⟩

/-- `filter_abort_noread_chain_e2e` without the size hypothesis. -/
theorem filter_abort_noread_chain_e2e_unbounded {p : Preamble} {recs pre : List Rec} {a : Rec} {post : List Rec}
    {b mc : Nat} {st : ExitStatus} (x : UReq) (xs : List UReq) {t : Transport} {fuel : Nat}
    (hwf : WellFormedPreamble p recs) (hrole : p.role = 3) (hk : p.flags.toNat % 2 = 1)
    (hpairs : ∀ q ∈ p.pairs, (NV.enc q).length ≤ alignedBufsize b)
    (hnoise : NoiseFits (alignedBufsize b) recs)
    (hpre : ∀ r ∈ pre, StdinRec p.id r) (hpf : NoiseFits (alignedBufsize b) pre) (ha : IsAbort p.id a)
    (hpost : ∀ r ∈ post, r.WF) (hpostf : NoiseFits (alignedBufsize b) post)
    (hnb : ∀ r ∈ post, r.rtype.toNat ≠ RT.beginRequest)
    (hok : ∀ y ∈ x :: xs, y.OKu b)
    (hin : t.input = serAll recs ++ (serAll (pre ++ [a]) ++ serAll post)) (hben : Ben t) (hem : t.endMode = .pend)
    (hev : hsCount t.events = 0) (hfuel : t.rd.length + t.wr.length + 1 ≤ fuel) :
    ∃ c' A,
      closedLoop fuel ((x :: xs).map UReq.wire)
        (connS b mc t (([.ret st], true) :: (x :: xs).map UReq.handler)) 0 = (c', "STALL") ∧
      SegsAll mc (x :: xs) A ∧
      c'.env.tr.wlog = t.wlog ++ (owedPreamble p mc recs ++ owedActive p.id mc pre ++ endRequest p.id st ++
        idleOwed mc post) ++ A ∧
      hsCount c'.env.tr.events = 1 + (x :: xs).length ∧
      startEvent p.request ∈ c'.env.tr.events ∧
      (∀ y ∈ x :: xs, startEvent y.p.request ∈ c'.env.tr.events) ∧ c'.scripts = [] ∧
      c'.env.tr.input = [] ∧
      c'.phase = .parseReq (track (alignedBufsize b) mc (serAll ((x :: xs).getLast (by simp)).left)) .reading := by
  have hid := (pid_of_wf hwf).2
  have hwa := isAbort_wf ha hid
  have hidle : ∀ e ∈ a :: post, IdleNoise e := by
    intro e he
    rcases List.mem_cons.1 he with rfl | he
    · exact ⟨hwa, fun hx => absurd hx (by rw [ha.1]; decide)⟩
    · exact idle_of_noBegin hpost hnb e he
  have hfit : NoiseFits (alignedBufsize b) (a :: post) := by
    intro e he hg
    rcases List.mem_cons.1 he with rfl | he
    · exact absurd hg.1 (by rw [ha.1]; decide)
    · exact hpostf e he hg
  have hlo : LeftOK (alignedBufsize b) (a :: post) := ⟨hidle, hfit⟩
  have ok := faok_of (post := post) (mc := mc) (st := st) t.wlog 0 (((x :: xs).map (UReq.spec mc)).map RSpec.handler)
    hwf hrole hpairs hnoise hpre hpf ha
  have hstart : StartAt (alignedBufsize b) mc [] t.wlog
      (([.ret st], true) :: ((x :: xs).map (UReq.spec mc)).map RSpec.handler) 0 [] (ans t)
      (serAll recs ++ (serAll (pre ++ [a]) ++ serAll post))
      (connS b mc t (([.ret st], true) :: ((x :: xs).map (UReq.spec mc)).map RSpec.handler)) :=
    Or.inr ⟨rfl, rfl, hin, rfl, hben, rfl, rfl, rfl, hev, (fun _ hs => nomatch hs), rfl, hem, Nat.le_refl _⟩
  have hleft0 : LeftOK (alignedBufsize b) [] := ⟨(fun _ he => nomatch he), (fun _ hr => nomatch hr)⟩
  obtain ⟨c1, hrun1, hw1⟩ := serve_filterA_core' ok hk (left := []) hleft0 (Z := x.wire) hidle
    (goodNext_of_oku (hok x List.mem_cons_self) hlo) 0 fuel (by simp [idleOwed]; rfl) hstart (by unfold ans; omega)
  have hLf := lfa_eq (p := p) (recs := recs) (pre := pre) (a := a) (post := post) (b := b) (mc := mc) (st := st)
    (L0 := t.wlog) (h := 0) (more := ((x :: xs).map (UReq.spec mc)).map RSpec.handler) [] (fun _ h => nomatch h)
  have hLw : ((cfgFA p recs pre a post b mc st t.wlog 0 (((x :: xs).map (UReq.spec mc)).map RSpec.handler)).front []).LfA ++
      idleOwed mc (a :: post) =
      t.wlog ++ (owedPreamble p mc recs ++ owedActive p.id mc pre ++ endRequest p.id st ++ idleOwed mc post) := by
    rw [hLf, idleOwed_cons, owed_idle_abort ha, List.nil_append]
    simp [idleOwed, List.append_assoc]
  have hw1' : Waiting (alignedBufsize b) mc (a :: post)
      (t.wlog ++ (owedPreamble p mc recs ++ owedActive p.id mc pre ++ endRequest p.id st ++ idleOwed mc post))
      (((x :: xs).map (UReq.spec mc)).map RSpec.handler) 1 [hsEvent p.request] (ans t) c1 := by
    rw [← hLw]; exact hw1
  obtain ⟨c', A, hrun, hseg, hw⟩ := chain_serves (alignedBufsize b) mc (serAll dummyRecs ++ [])
    (xs.map (UReq.spec mc)) (UReq.spec mc x) (a :: post) _ 1 [hsEvent p.request] (ans t) (feed c1 x.wire) 1000 fuel
    (hall_of_oku x xs hok) hlo (Or.inl ⟨c1, hw1', rfl⟩) (by unfold ans; omega)
  have hrun' : closedLoop fuel ((x :: xs).map UReq.wire)
      (connS b mc t (([.ret st], true) :: (x :: xs).map UReq.handler)) 0 = (c', "STALL") := by
    have e : (x :: xs).map UReq.handler = ((x :: xs).map (UReq.spec mc)).map RSpec.handler := by
      rw [List.map_map]; rfl
    rw [e]
    show closedLoop fuel (x.wire :: xs.map UReq.wire) _ 0 = _
    rw [closedLoop, hrun1]
    simp only [if_true]
    rw [← hrun, List.map_map]; rfl
  have hlast := lastLeft_specs mc x xs
  refine ⟨c', A, hrun', segAll_specs mc (x :: xs) A hseg, hw.log, ?_, ?_, ?_, hw.sc, hw.inp, ?_⟩
  · have := hw.hs; simpa [Nat.add_comm] using this
  · exact hw.ev _ (mem_evsAfter _ _ _ (Or.inl List.mem_cons_self))
  · intro y hy
    exact hw.ev _ (mem_evsAfter _ _ _ (Or.inr ⟨UReq.spec mc y, List.mem_map_of_mem hy, rfl⟩))
  · rw [← hlast]; exact hw.ph

/-- `filter_abort_stdin_e2e` without `hsize` (`K·|input| + M ≤ 100000`), but NOT size-free: the bound moved to
`|Stdin wire| ≤ 31000` (`hX31`; keeps it).  The size-free version is `filter_abort_stdin_e2e_anysize` in
`Props/C11FilterAnysize.lean`. -/
theorem filter_abort_stdin_e2e_unbounded {p : Preamble} {recs pre : List Rec} {a : Rec} {post : List Rec}
    {b mc : Nat} {content : Bytes} {s0 : ExitStatus} {pr : Bool} {more : List (List HOp × Bool)} {t : Transport} {fuel : Nat}
    (hwf : WellFormedPreamble p recs) (hrole : p.role = 3)
    (hpairs : ∀ q ∈ p.pairs, (NV.enc q).length ≤ alignedBufsize b)
    (hnoise : NoiseFits (alignedBufsize b) recs)
    (hbody : Body p.id 5 content pre) (hpf : NoiseFits (alignedBufsize b) pre) (ha : IsAbort p.id a)
    (hpost : ∀ r ∈ post, r.WF) (hpostf : NoiseFits (alignedBufsize b) post)
    (hnb : ∀ r ∈ post, r.rtype.toNat ≠ RT.beginRequest)
    (hin : t.input = serAll recs ++ (serAll (pre ++ [a]) ++ serAll post)) (hben : Ben t)
    (hev : hsCount t.events = 0) (hfuel : t.rd.length + t.wr.length + 1 ≤ fuel)
    (hX31 : (serAll (pre ++ [a]) ++ serAll post).length ≤ 31000) :
    ∃ c' fin, runTask fuel (connS b mc t ((rscript s0, pr) :: more)) 0 none = (c', fin) ∧
      FilterAbortOutcome p recs pre a post b mc (closeStatus pr s0) more t c' fin := by
  have hid := (pid_of_wf hwf).2
  have hwa := isAbort_wf ha hid
  have hidleA : IdleNoise a := ⟨hwa, fun hx => absurd hx (by rw [ha.1]; decide)⟩
  have hidle : ∀ e ∈ a :: post, IdleNoise e := by
    intro e he
    rcases List.mem_cons.1 he with rfl | he
    · exact hidleA
    · exact idle_of_noBegin hpost hnb e he
  have hfit : NoiseFits (alignedBufsize b) (a :: post) := by
    intro e he hg
    rcases List.mem_cons.1 he with rfl | he
    · exact absurd hg.1 (by rw [ha.1]; decide)
    · exact hpostf e he hg
  have ok := fr1ok_of (post := post) (mc := mc) (s0 := s0) (pr := pr) t.wlog 0 more hwf hrole hpairs hnoise hbody hpf ha hX31
  obtain ⟨hns, hNF⟩ := idle_front dummy_wf b mc (fun q hq => by cases hq) (dummy_fits _) hidle hfit []
  rw [serAll_cons] at hns hNF
  have hst : FStageP (cfgFR p recs content pre a post b mc s0 (closeStatus pr s0) t.wlog 0 more) pr (connS b mc t ((rscript s0, pr) :: more)) :=
    .start (raw := []) rfl (by show [] ++ t.input = _; rw [hin]; rfl) (Nat.zero_le _) rfl hben rfl rfl rfl hev
  obtain ⟨c', fin, hrun, hres⟩ := run_filterR1' ok (Z := serAll dummyRecs ++ []) hns hNF
    t.endMode [] _ 0 fuel hst rfl (fun s hs => by cases hs) rfl (by show ans t + 1 ≤ fuel; unfold ans; omega)
  have hLf := lfo1_eq (p := p) (recs := recs) (content := content) (pre := pre) (a := a) (post := post) (b := b) (mc := mc) (s0 := s0) (stc := closeStatus pr s0)
    (L0 := t.wlog) (h := 0) (more := more) [] (fun _ h => nomatch h)
  have hLf' : (cfgFR p recs content pre a post b mc s0 (closeStatus pr s0) t.wlog 0 more).LfO (cfgFR p recs content pre a post b mc s0 (closeStatus pr s0) t.wlog 0 more).Ow1 =
      t.wlog ++ (owedPreamble p mc recs ++ owedActive p.id mc pre ++ endRequest p.id (closeStatus pr s0)) := by
    have e : (cfgFR p recs content pre a post b mc s0 (closeStatus pr s0) t.wlog 0 more).front [] = cfgFR p recs content pre a post b mc s0 (closeStatus pr s0) t.wlog 0 more := rfl
    rw [e] at hLf
    rw [hLf]; simp [idleOwed]
  rcases hres with ⟨_, hk, hkp, hem, _, _, _, hend⟩ | ⟨hfin, hfu, _, _⟩
  · have hout : ∀ F, F ++ (serAll dummyRecs ++ []) = a.ser ++ serAll post ++ (serAll dummyRecs ++ []) →
        (cfgFR p recs content pre a post b mc s0 (closeStatus pr s0) t.wlog 0 more).LfO (cfgFR p recs content pre a post b mc s0 (closeStatus pr s0) t.wlog 0 more).Ow1 ++ (run .header F mc).out =
        t.wlog ++ (owedPreamble p mc recs ++ owedActive p.id mc pre ++ endRequest p.id (closeStatus pr s0) ++ idleOwed mc post) := by
      intro F hF
      have hro := (run_idle_out mc (a :: post) hidle).1
      rw [serAll_cons] at hro
      rw [List.append_cancel_right hF, hro, hLf', idleOwed_cons, owed_idle_abort ha, List.nil_append]
      simp only [List.append_assoc]
    refine ⟨c', fin, hrun, ⟨hkp.hs, hkp.ev _ List.mem_cons_self⟩, hkp.sc, Or.inl ⟨hk, ?_, ?_⟩⟩
    · rcases hend with ⟨_, hp⟩ | ⟨_, hf⟩
      · obtain ⟨F, hF, _, _, hlg⟩ := hp.pst
        exact hlg.trans (hout F hF)
      · obtain ⟨F, hF, hlg⟩ := hf.log
        exact hlg.trans (hout F hF)
    · rcases hend with ⟨rfl, hp⟩ | ⟨rfl, hf⟩
      · obtain ⟨F, hF, hps, hph, _⟩ := hp.pst
        have hFe : F = a.ser ++ serAll post := List.append_cancel_right hF
        subst hFe
        exact Or.inr ⟨hem.symm.trans hp.em, rfl, hph, hp.inp, hkp.mx, hps.stop, hps.ben⟩
      · exact Or.inl ⟨hem.symm.trans hf.em, rfl, hf.ph⟩
  · exact ⟨c', fin, hrun, ⟨hfu.ev.1, hfu.ev.2⟩, hfu.sc, Or.inr ⟨hfu.nokeep, hfin, hfu.ph, hfu.log.trans hLf'⟩⟩

/-- `filter_abort_stdin_chain_e2e` without `hsize` (`K·|input| + M ≤ 100000`), but NOT size-free: the bound moved to
`|Stdin wire| ≤ 31000` (`hX31`; keeps it).  The size-free version is `filter_abort_stdin_chain_e2e_anysize` in
`Props/C11FilterAnysize.lean`. -/
theorem filter_abort_stdin_chain_e2e_unbounded {p : Preamble} {recs pre : List Rec} {a : Rec} {post : List Rec}
    {b mc : Nat} {content : Bytes} {s0 : ExitStatus} {pr : Bool} (x : UReq) (xs : List UReq) {t : Transport} {fuel : Nat}
    (hwf : WellFormedPreamble p recs) (hrole : p.role = 3) (hk : p.flags.toNat % 2 = 1)
    (hpairs : ∀ q ∈ p.pairs, (NV.enc q).length ≤ alignedBufsize b)
    (hnoise : NoiseFits (alignedBufsize b) recs)
    (hbody : Body p.id 5 content pre) (hpf : NoiseFits (alignedBufsize b) pre) (ha : IsAbort p.id a)
    (hpost : ∀ r ∈ post, r.WF) (hpostf : NoiseFits (alignedBufsize b) post)
    (hnb : ∀ r ∈ post, r.rtype.toNat ≠ RT.beginRequest)
    (hok : ∀ y ∈ x :: xs, y.OKu b)
    (hin : t.input = serAll recs ++ (serAll (pre ++ [a]) ++ serAll post)) (hben : Ben t) (hem : t.endMode = .pend)
    (hev : hsCount t.events = 0) (hfuel : t.rd.length + t.wr.length + 1 ≤ fuel)
    (hX31 : (serAll (pre ++ [a]) ++ serAll post).length ≤ 31000) :
    ∃ c' A,
      closedLoop fuel ((x :: xs).map UReq.wire)
        (connS b mc t ((rscript s0, pr) :: (x :: xs).map UReq.handler)) 0 = (c', "STALL") ∧
      SegsAll mc (x :: xs) A ∧
      c'.env.tr.wlog = t.wlog ++ (owedPreamble p mc recs ++ owedActive p.id mc pre ++ endRequest p.id (closeStatus pr s0) ++
        idleOwed mc post) ++ A ∧
      hsCount c'.env.tr.events = 1 + (x :: xs).length ∧
      startEvent p.request ∈ c'.env.tr.events ∧
      (∀ y ∈ x :: xs, startEvent y.p.request ∈ c'.env.tr.events) ∧ c'.scripts = [] ∧
      c'.env.tr.input = [] ∧
      c'.phase = .parseReq (track (alignedBufsize b) mc (serAll ((x :: xs).getLast (by simp)).left)) .reading := by
  have hid := (pid_of_wf hwf).2
  have hwa := isAbort_wf ha hid
  have hidle : ∀ e ∈ a :: post, IdleNoise e := by
    intro e he
    rcases List.mem_cons.1 he with rfl | he
    · exact ⟨hwa, fun hx => absurd hx (by rw [ha.1]; decide)⟩
    · exact idle_of_noBegin hpost hnb e he
  have hfit : NoiseFits (alignedBufsize b) (a :: post) := by
    intro e he hg
    rcases List.mem_cons.1 he with rfl | he
    · exact absurd hg.1 (by rw [ha.1]; decide)
    · exact hpostf e he hg
  have hlo : LeftOK (alignedBufsize b) (a :: post) := ⟨hidle, hfit⟩
  have ok := fr1ok_of (post := post) (mc := mc) (s0 := s0) (pr := pr) t.wlog 0 (((x :: xs).map (UReq.spec mc)).map RSpec.handler)
    hwf hrole hpairs hnoise hbody hpf ha hX31
  have hstart : StartAt (alignedBufsize b) mc [] t.wlog
      ((rscript s0, pr) :: ((x :: xs).map (UReq.spec mc)).map RSpec.handler) 0 [] (ans t)
      (serAll recs ++ (serAll (pre ++ [a]) ++ serAll post))
      (connS b mc t ((rscript s0, pr) :: ((x :: xs).map (UReq.spec mc)).map RSpec.handler)) :=
    Or.inr ⟨rfl, rfl, hin, rfl, hben, rfl, rfl, rfl, hev, (fun _ hs => nomatch hs), rfl, hem, Nat.le_refl _⟩
  have hleft0 : LeftOK (alignedBufsize b) [] := ⟨(fun _ he => nomatch he), (fun _ hr => nomatch hr)⟩
  obtain ⟨c1, hrun1, hw1⟩ := serve_filterR1_core' ok hk (left := []) hleft0 (Z := x.wire) hidle
    (goodNext_of_oku (hok x List.mem_cons_self) hlo) 0 fuel (by simp [idleOwed]; rfl) hstart (by unfold ans; omega)
  have hLf := lfo1_eq (p := p) (recs := recs) (content := content) (pre := pre) (a := a) (post := post) (b := b) (mc := mc) (s0 := s0) (stc := closeStatus pr s0)
    (L0 := t.wlog) (h := 0) (more := ((x :: xs).map (UReq.spec mc)).map RSpec.handler) [] (fun _ h => nomatch h)
  have hLw : ((cfgFR p recs content pre a post b mc s0 (closeStatus pr s0) t.wlog 0 (((x :: xs).map (UReq.spec mc)).map RSpec.handler)).front []).LfO (cfgFR p recs content pre a post b mc s0 (closeStatus pr s0) t.wlog 0 (((x :: xs).map (UReq.spec mc)).map RSpec.handler)).Ow1 ++
      idleOwed mc (a :: post) =
      t.wlog ++ (owedPreamble p mc recs ++ owedActive p.id mc pre ++ endRequest p.id (closeStatus pr s0) ++ idleOwed mc post) := by
    rw [hLf, idleOwed_cons, owed_idle_abort ha, List.nil_append]
    simp [idleOwed, List.append_assoc]
  have hw1' : Waiting (alignedBufsize b) mc (a :: post)
      (t.wlog ++ (owedPreamble p mc recs ++ owedActive p.id mc pre ++ endRequest p.id (closeStatus pr s0) ++ idleOwed mc post))
      (((x :: xs).map (UReq.spec mc)).map RSpec.handler) 1 [hsEvent p.request] (ans t) c1 := by
    rw [← hLw]; exact hw1
  obtain ⟨c', A, hrun, hseg, hw⟩ := chain_serves (alignedBufsize b) mc (serAll dummyRecs ++ [])
    (xs.map (UReq.spec mc)) (UReq.spec mc x) (a :: post) _ 1 [hsEvent p.request] (ans t) (feed c1 x.wire) 1000 fuel
    (hall_of_oku x xs hok) hlo (Or.inl ⟨c1, hw1', rfl⟩) (by unfold ans; omega)
  have hrun' : closedLoop fuel ((x :: xs).map UReq.wire)
      (connS b mc t ((rscript s0, pr) :: (x :: xs).map UReq.handler)) 0 = (c', "STALL") := by
    have e : (x :: xs).map UReq.handler = ((x :: xs).map (UReq.spec mc)).map RSpec.handler := by
      rw [List.map_map]; rfl
    rw [e]
    show closedLoop fuel (x.wire :: xs.map UReq.wire) _ 0 = _
    rw [closedLoop, hrun1]
    simp only [if_true]
    rw [← hrun, List.map_map]; rfl
  have hlast := lastLeft_specs mc x xs
  refine ⟨c', A, hrun', segAll_specs mc (x :: xs) A hseg, hw.log, ?_, ?_, ?_, hw.sc, hw.inp, ?_⟩
  · have := hw.hs; simpa [Nat.add_comm] using this
  · exact hw.ev _ (mem_evsAfter _ _ _ (Or.inl List.mem_cons_self))
  · intro y hy
    exact hw.ev _ (mem_evsAfter _ _ _ (Or.inr ⟨UReq.spec mc y, List.mem_map_of_mem hy, rfl⟩))
  · rw [← hlast]; exact hw.ph


/-- `filter_abort_gap_e2e` without `hsize` (`K·|input| + M ≤ 100000`), but NOT size-free: the bound moved to
`|Stdin wire| ≤ 31000` (`hX31`; keeps it).  The size-free version is `filter_abort_gap_e2e_anysize` in
`Props/C11FilterAnysize.lean`. -/
theorem filter_abort_gap_e2e_unbounded {p : Preamble} {recs sbody mid : List Rec} {pad : Bytes} {res : UInt8} {a : Rec} {post : List Rec}
    {b mc : Nat} {content : Bytes} {s0 : ExitStatus} {pr : Bool} {more : List (List HOp × Bool)} {t : Transport} {fuel : Nat}
    (hwf : WellFormedPreamble p recs) (hrole : p.role = 3)
    (hpairs : ∀ q ∈ p.pairs, (NV.enc q).length ≤ alignedBufsize b)
    (hnoise : NoiseFits (alignedBufsize b) recs)
    (hbody : Body p.id 5 content sbody) (hpf : NoiseFits (alignedBufsize b) sbody) (hpad : pad.length < 256)
    (hmid : ∀ r ∈ mid, StdinRec p.id r) (hmf : NoiseFits (alignedBufsize b) mid) (ha : IsAbort p.id a)
    (hpost : ∀ r ∈ post, r.WF) (hpostf : NoiseFits (alignedBufsize b) post)
    (hnb : ∀ r ∈ post, r.rtype.toNat ≠ RT.beginRequest)
    (hin : t.input = serAll recs ++ (gapX p.id sbody pad res mid a post)) (hben : Ben t)
    (hev : hsCount t.events = 0) (hfuel : t.rd.length + t.wr.length + 1 ≤ fuel)
    (hX31 : (gapX p.id sbody pad res mid a post).length ≤ 31000) :
    ∃ c' fin, runTask fuel (connS b mc t ((rscript s0, pr) :: more)) 0 none = (c', fin) ∧
      FilterAbortOutcome p recs (gapPre p.id sbody pad res mid) a post b mc (closeStatus pr s0) more t c' fin := by
  have hid := (pid_of_wf hwf).2
  have hwa := isAbort_wf ha hid
  have hidleA : IdleNoise a := ⟨hwa, fun hx => absurd hx (by rw [ha.1]; decide)⟩
  have hidle : ∀ e ∈ a :: post, IdleNoise e := by
    intro e he
    rcases List.mem_cons.1 he with rfl | he
    · exact hidleA
    · exact idle_of_noBegin hpost hnb e he
  have hfit : NoiseFits (alignedBufsize b) (a :: post) := by
    intro e he hg
    rcases List.mem_cons.1 he with rfl | he
    · exact absurd hg.1 (by rw [ha.1]; decide)
    · exact hpostf e he hg
  have ok := fr2ok_of (post := post) (mc := mc) (s0 := s0) (pr := pr) t.wlog 0 more hwf hrole hpairs hnoise hbody hpf hpad hmid hmf hpost hpostf ha hX31
  obtain ⟨hns, hNF⟩ := idle_front dummy_wf b mc (fun q hq => by cases hq) (dummy_fits _) hidle hfit []
  rw [serAll_cons] at hns hNF
  have hst : FStageP (cfgFR2 p recs content sbody pad res mid a post b mc s0 (closeStatus pr s0) t.wlog 0 more) pr (connS b mc t ((rscript s0, pr) :: more)) :=
    .start (raw := []) rfl (by show [] ++ t.input = _; rw [hin]; rfl) (Nat.zero_le _) rfl hben rfl rfl rfl hev
  obtain ⟨c', fin, hrun, hres⟩ := run_filterR2' ok (Z := serAll dummyRecs ++ []) hns hNF
    t.endMode [] _ 0 fuel hst rfl (fun s hs => by cases hs) rfl (by show ans t + 1 ≤ fuel; unfold ans; omega)
  have hLf := lfo2_eq (p := p) (recs := recs) (content := content) (sbody := sbody) (pad := pad) (res := res) (mid := mid) (a := a) (post := post) (b := b) (mc := mc) (s0 := s0) (stc := closeStatus pr s0)
    (L0 := t.wlog) (h := 0) (more := more) [] (fun _ h => nomatch h)
  have hLf' : (cfgFR2 p recs content sbody pad res mid a post b mc s0 (closeStatus pr s0) t.wlog 0 more).LfO ((cfgFR2 p recs content sbody pad res mid a post b mc s0 (closeStatus pr s0) t.wlog 0 more).Ow2 mid) =
      t.wlog ++ (owedPreamble p mc recs ++ owedActive p.id mc (gapPre p.id sbody pad res mid) ++ endRequest p.id (closeStatus pr s0)) := by
    have e : (cfgFR2 p recs content sbody pad res mid a post b mc s0 (closeStatus pr s0) t.wlog 0 more).front [] = cfgFR2 p recs content sbody pad res mid a post b mc s0 (closeStatus pr s0) t.wlog 0 more := rfl
    rw [e] at hLf
    rw [hLf]; simp [idleOwed]
  rcases hres with ⟨_, hk, hkp, hem, _, _, _, hend⟩ | ⟨hfin, hfu, _, _⟩
  · have hout : ∀ F, F ++ (serAll dummyRecs ++ []) = a.ser ++ serAll post ++ (serAll dummyRecs ++ []) →
        (cfgFR2 p recs content sbody pad res mid a post b mc s0 (closeStatus pr s0) t.wlog 0 more).LfO ((cfgFR2 p recs content sbody pad res mid a post b mc s0 (closeStatus pr s0) t.wlog 0 more).Ow2 mid) ++ (run .header F mc).out =
        t.wlog ++ (owedPreamble p mc recs ++ owedActive p.id mc (gapPre p.id sbody pad res mid) ++ endRequest p.id (closeStatus pr s0) ++ idleOwed mc post) := by
      intro F hF
      have hro := (run_idle_out mc (a :: post) hidle).1
      rw [serAll_cons] at hro
      rw [List.append_cancel_right hF, hro, hLf', idleOwed_cons, owed_idle_abort ha, List.nil_append]
      simp only [List.append_assoc]
    refine ⟨c', fin, hrun, ⟨hkp.hs, hkp.ev _ List.mem_cons_self⟩, hkp.sc, Or.inl ⟨hk, ?_, ?_⟩⟩
    · rcases hend with ⟨_, hp⟩ | ⟨_, hf⟩
      · obtain ⟨F, hF, _, _, hlg⟩ := hp.pst
        exact hlg.trans (hout F hF)
      · obtain ⟨F, hF, hlg⟩ := hf.log
        exact hlg.trans (hout F hF)
    · rcases hend with ⟨rfl, hp⟩ | ⟨rfl, hf⟩
      · obtain ⟨F, hF, hps, hph, _⟩ := hp.pst
        have hFe : F = a.ser ++ serAll post := List.append_cancel_right hF
        subst hFe
        exact Or.inr ⟨hem.symm.trans hp.em, rfl, hph, hp.inp, hkp.mx, hps.stop, hps.ben⟩
      · exact Or.inl ⟨hem.symm.trans hf.em, rfl, hf.ph⟩
  · exact ⟨c', fin, hrun, ⟨hfu.ev.1, hfu.ev.2⟩, hfu.sc, Or.inr ⟨hfu.nokeep, hfin, hfu.ph, hfu.log.trans hLf'⟩⟩

/-- `filter_abort_gap_chain_e2e` without `hsize` (`K·|input| + M ≤ 100000`), but NOT size-free: the bound moved to
`|Stdin wire| ≤ 31000` (`hX31`; keeps it).  The size-free version is `filter_abort_gap_chain_e2e_anysize` in
`Props/C11FilterAnysize.lean`. -/
theorem filter_abort_gap_chain_e2e_unbounded {p : Preamble} {recs sbody mid : List Rec} {pad : Bytes} {res : UInt8} {a : Rec} {post : List Rec}
    {b mc : Nat} {content : Bytes} {s0 : ExitStatus} {pr : Bool} (x : UReq) (xs : List UReq) {t : Transport} {fuel : Nat}
    (hwf : WellFormedPreamble p recs) (hrole : p.role = 3) (hk : p.flags.toNat % 2 = 1)
    (hpairs : ∀ q ∈ p.pairs, (NV.enc q).length ≤ alignedBufsize b)
    (hnoise : NoiseFits (alignedBufsize b) recs)
    (hbody : Body p.id 5 content sbody) (hpf : NoiseFits (alignedBufsize b) sbody) (hpad : pad.length < 256)
    (hmid : ∀ r ∈ mid, StdinRec p.id r) (hmf : NoiseFits (alignedBufsize b) mid) (ha : IsAbort p.id a)
    (hpost : ∀ r ∈ post, r.WF) (hpostf : NoiseFits (alignedBufsize b) post)
    (hnb : ∀ r ∈ post, r.rtype.toNat ≠ RT.beginRequest)
    (hok : ∀ y ∈ x :: xs, y.OKu b)
    (hin : t.input = serAll recs ++ (gapX p.id sbody pad res mid a post)) (hben : Ben t) (hem : t.endMode = .pend)
    (hev : hsCount t.events = 0) (hfuel : t.rd.length + t.wr.length + 1 ≤ fuel)
    (hX31 : (gapX p.id sbody pad res mid a post).length ≤ 31000) :
    ∃ c' A,
      closedLoop fuel ((x :: xs).map UReq.wire)
        (connS b mc t ((rscript s0, pr) :: (x :: xs).map UReq.handler)) 0 = (c', "STALL") ∧
      SegsAll mc (x :: xs) A ∧
      c'.env.tr.wlog = t.wlog ++ (owedPreamble p mc recs ++ owedActive p.id mc (gapPre p.id sbody pad res mid) ++ endRequest p.id (closeStatus pr s0) ++
        idleOwed mc post) ++ A ∧
      hsCount c'.env.tr.events = 1 + (x :: xs).length ∧
      startEvent p.request ∈ c'.env.tr.events ∧
      (∀ y ∈ x :: xs, startEvent y.p.request ∈ c'.env.tr.events) ∧ c'.scripts = [] ∧
      c'.env.tr.input = [] ∧
      c'.phase = .parseReq (track (alignedBufsize b) mc (serAll ((x :: xs).getLast (by simp)).left)) .reading := by
  have hid := (pid_of_wf hwf).2
  have hwa := isAbort_wf ha hid
  have hidle : ∀ e ∈ a :: post, IdleNoise e := by
    intro e he
    rcases List.mem_cons.1 he with rfl | he
    · exact ⟨hwa, fun hx => absurd hx (by rw [ha.1]; decide)⟩
    · exact idle_of_noBegin hpost hnb e he
  have hfit : NoiseFits (alignedBufsize b) (a :: post) := by
    intro e he hg
    rcases List.mem_cons.1 he with rfl | he
    · exact absurd hg.1 (by rw [ha.1]; decide)
    · exact hpostf e he hg
  have hlo : LeftOK (alignedBufsize b) (a :: post) := ⟨hidle, hfit⟩
  have ok := fr2ok_of (post := post) (mc := mc) (s0 := s0) (pr := pr) t.wlog 0 (((x :: xs).map (UReq.spec mc)).map RSpec.handler)
    hwf hrole hpairs hnoise hbody hpf hpad hmid hmf hpost hpostf ha hX31
  have hstart : StartAt (alignedBufsize b) mc [] t.wlog
      ((rscript s0, pr) :: ((x :: xs).map (UReq.spec mc)).map RSpec.handler) 0 [] (ans t)
      (serAll recs ++ (gapX p.id sbody pad res mid a post))
      (connS b mc t ((rscript s0, pr) :: ((x :: xs).map (UReq.spec mc)).map RSpec.handler)) :=
    Or.inr ⟨rfl, rfl, hin, rfl, hben, rfl, rfl, rfl, hev, (fun _ hs => nomatch hs), rfl, hem, Nat.le_refl _⟩
  have hleft0 : LeftOK (alignedBufsize b) [] := ⟨(fun _ he => nomatch he), (fun _ hr => nomatch hr)⟩
  obtain ⟨c1, hrun1, hw1⟩ := serve_filterR2_core' ok hk (left := []) hleft0 (Z := x.wire) hidle
    (goodNext_of_oku (hok x List.mem_cons_self) hlo) 0 fuel (by simp [idleOwed]; rfl) hstart (by unfold ans; omega)
  have hLf := lfo2_eq (p := p) (recs := recs) (content := content) (sbody := sbody) (pad := pad) (res := res) (mid := mid) (a := a) (post := post) (b := b) (mc := mc) (s0 := s0) (stc := closeStatus pr s0)
    (L0 := t.wlog) (h := 0) (more := ((x :: xs).map (UReq.spec mc)).map RSpec.handler) [] (fun _ h => nomatch h)
  have hLw : ((cfgFR2 p recs content sbody pad res mid a post b mc s0 (closeStatus pr s0) t.wlog 0 (((x :: xs).map (UReq.spec mc)).map RSpec.handler)).front []).LfO ((cfgFR2 p recs content sbody pad res mid a post b mc s0 (closeStatus pr s0) t.wlog 0 (((x :: xs).map (UReq.spec mc)).map RSpec.handler)).Ow2 mid) ++
      idleOwed mc (a :: post) =
      t.wlog ++ (owedPreamble p mc recs ++ owedActive p.id mc (gapPre p.id sbody pad res mid) ++ endRequest p.id (closeStatus pr s0) ++ idleOwed mc post) := by
    rw [hLf, idleOwed_cons, owed_idle_abort ha, List.nil_append]
    simp [idleOwed, List.append_assoc]
  have hw1' : Waiting (alignedBufsize b) mc (a :: post)
      (t.wlog ++ (owedPreamble p mc recs ++ owedActive p.id mc (gapPre p.id sbody pad res mid) ++ endRequest p.id (closeStatus pr s0) ++ idleOwed mc post))
      (((x :: xs).map (UReq.spec mc)).map RSpec.handler) 1 [hsEvent p.request] (ans t) c1 := by
    rw [← hLw]; exact hw1
  obtain ⟨c', A, hrun, hseg, hw⟩ := chain_serves (alignedBufsize b) mc (serAll dummyRecs ++ [])
    (xs.map (UReq.spec mc)) (UReq.spec mc x) (a :: post) _ 1 [hsEvent p.request] (ans t) (feed c1 x.wire) 1000 fuel
    (hall_of_oku x xs hok) hlo (Or.inl ⟨c1, hw1', rfl⟩) (by unfold ans; omega)
  have hrun' : closedLoop fuel ((x :: xs).map UReq.wire)
      (connS b mc t ((rscript s0, pr) :: (x :: xs).map UReq.handler)) 0 = (c', "STALL") := by
    have e : (x :: xs).map UReq.handler = ((x :: xs).map (UReq.spec mc)).map RSpec.handler := by
      rw [List.map_map]; rfl
    rw [e]
    show closedLoop fuel (x.wire :: xs.map UReq.wire) _ 0 = _
    rw [closedLoop, hrun1]
    simp only [if_true]
    rw [← hrun, List.map_map]; rfl
  have hlast := lastLeft_specs mc x xs
  refine ⟨c', A, hrun', segAll_specs mc (x :: xs) A hseg, hw.log, ?_, ?_, ?_, hw.sc, hw.inp, ?_⟩
  · have := hw.hs; simpa [Nat.add_comm] using this
  · exact hw.ev _ (mem_evsAfter _ _ _ (Or.inl List.mem_cons_self))
  · intro y hy
    exact hw.ev _ (mem_evsAfter _ _ _ (Or.inr ⟨UReq.spec mc y, List.mem_map_of_mem hy, rfl⟩))
  · rw [← hlast]; exact hw.ph


/-- `filter_abort_data_e2e` without the size hypothesis. -/
theorem filter_abort_data_e2e_unbounded {p : Preamble} {recs sbody dbody : List Rec} {pad : Bytes} {res : UInt8} {a : Rec}
    {post : List Rec} {b mc : Nat} {content c2 : Bytes} {s0 : ExitStatus} {pr : Bool}
    {more : List (List HOp × Bool)} {t : Transport} {fuel : Nat}
    (hwf : WellFormedPreamble p recs) (hrole : p.role = 3)
    (hpairs : ∀ q ∈ p.pairs, (NV.enc q).length ≤ alignedBufsize b)
    (hnoise : NoiseFits (alignedBufsize b) recs)
    (hbody : Body p.id 5 content sbody) (hpf : NoiseFits (alignedBufsize b) sbody) (hpad : pad.length < 256)
    (hdb : Body p.id 8 c2 dbody) (hdf : NoiseFits (alignedBufsize b) dbody) (ha : IsAbort p.id a)
    (hpost : ∀ r ∈ post, r.WF) (hpostf : NoiseFits (alignedBufsize b) post)
    (hnb : ∀ r ∈ post, r.rtype.toNat ≠ RT.beginRequest)
    (hin : t.input = serAll recs ++ gapX p.id sbody pad res dbody a post) (hben : Ben t)
    (hev : hsCount t.events = 0) (hfuel : t.rd.length + t.wr.length + 1 ≤ fuel) :
    ∃ c' fin, runTask fuel (connS b mc t ((rscript s0, pr) :: more)) 0 none = (c', fin) ∧
      FilterAbortDataOutcome p recs (gapPre p.id sbody pad res dbody) c2 a post b mc (closeStatus pr s0) more t
        c' fin := by
  have hid := (pid_of_wf hwf).2
  have hwa := isAbort_wf ha hid
  have hidleA : IdleNoise a := ⟨hwa, fun hx => absurd hx (by rw [ha.1]; decide)⟩
  have hidle : ∀ e ∈ a :: post, IdleNoise e := by
    intro e he
    rcases List.mem_cons.1 he with rfl | he
    · exact hidleA
    · exact idle_of_noBegin hpost hnb e he
  have hfit : NoiseFits (alignedBufsize b) (a :: post) := by
    intro e he hg
    rcases List.mem_cons.1 he with rfl | he
    · exact absurd hg.1 (by rw [ha.1]; decide)
    · exact hpostf e he hg
  have ok := fr3ok_of (res := res) (post := post) (mc := mc) (s0 := s0) (pr := pr) t.wlog 0 more hwf hrole hpairs hnoise hbody
    hpf hpad hdb hdf hpost hpostf ha
  obtain ⟨hns, hNF⟩ := idle_front dummy_wf b mc (fun q hq => by cases hq) (dummy_fits _) hidle hfit []
  rw [serAll_cons] at hns hNF
  have hst : FStageP (cfgFR3 p recs content sbody pad res c2 dbody a post b mc s0 (closeStatus pr s0) t.wlog 0 more)
      pr (connS b mc t ((rscript s0, pr) :: more)) :=
    .start (raw := []) rfl (by show [] ++ t.input = _; rw [hin]; rfl) (Nat.zero_le _) rfl hben rfl rfl rfl hev
  obtain ⟨c', fin, hrun, hres⟩ := run_filterR3' ok (Z := serAll dummyRecs ++ []) hns hNF
    t.endMode [] _ 0 fuel hst rfl (fun s hs => by cases hs) rfl (by show ans t + 1 ≤ fuel; unfold ans; omega)
  have hLf : ∀ acc, (cfgFR3 p recs content sbody pad res c2 dbody a post b mc s0 (closeStatus pr s0) t.wlog 0 more).Lf3
      dbody acc = t.wlog ++ (owedPreamble p mc recs ++ owedActive p.id mc (gapPre p.id sbody pad res dbody) ++
        epilogueFor p.id (closeStatus pr s0) (!acc.isEmpty)) := by
    intro acc
    have h := lf3_eq (p := p) (recs := recs) (content := content) (c2 := c2) (sbody := sbody) (pad := pad) (res := res)
      (dbody := dbody) (a := a) (post := post) (b := b) (mc := mc) (s0 := s0) (stc := closeStatus pr s0)
      (L0 := t.wlog) (h := 0) (more := more) [] (fun _ h => nomatch h) acc
    have e : (cfgFR3 p recs content sbody pad res c2 dbody a post b mc s0 (closeStatus pr s0) t.wlog 0 more).front [] =
      cfgFR3 p recs content sbody pad res c2 dbody a post b mc s0 (closeStatus pr s0) t.wlog 0 more := rfl
    rw [e] at h
    rw [h]; simp [idleOwed]
  rcases hres with ⟨acc, ⟨hk, lost, hal⟩, hkp, hem, _, _, _, hend⟩ | ⟨hfin, hfu, _, _⟩
  · have hout : ∀ F, F ++ (serAll dummyRecs ++ []) = a.ser ++ serAll post ++ (serAll dummyRecs ++ []) →
        (cfgFR3 p recs content sbody pad res c2 dbody a post b mc s0 (closeStatus pr s0) t.wlog 0 more).Lf3 dbody acc ++
          (run .header F mc).out =
        t.wlog ++ (owedPreamble p mc recs ++ owedActive p.id mc (gapPre p.id sbody pad res dbody) ++
          epilogueFor p.id (closeStatus pr s0) (!acc.isEmpty) ++ idleOwed mc post) := by
      intro F hF
      have hro := (run_idle_out mc (a :: post) hidle).1
      rw [serAll_cons] at hro
      rw [List.append_cancel_right hF, hro, hLf, idleOwed_cons, owed_idle_abort ha, List.nil_append]
      simp only [List.append_assoc]
    refine ⟨c', fin, hrun, ⟨hkp.hs, hkp.ev _ List.mem_cons_self⟩, hkp.sc, acc, lost, hal,
      hkp.ev _ (by simp), Or.inl ⟨hk, ?_, ?_⟩⟩
    · rcases hend with ⟨_, hp⟩ | ⟨_, hf⟩
      · obtain ⟨F, hF, _, _, hlg⟩ := hp.pst
        exact hlg.trans (hout F hF)
      · obtain ⟨F, hF, hlg⟩ := hf.log
        exact hlg.trans (hout F hF)
    · rcases hend with ⟨rfl, hp⟩ | ⟨rfl, hf⟩
      · obtain ⟨F, hF, hps, hph, _⟩ := hp.pst
        have hFe : F = a.ser ++ serAll post := List.append_cancel_right hF
        subst hFe
        exact Or.inr ⟨hem.symm.trans hp.em, rfl, hph, hp.inp, hkp.mx, hps.stop, hps.ben⟩
      · exact Or.inl ⟨hem.symm.trans hf.em, rfl, hf.ph⟩
  · obtain ⟨acc, lost, hal, hra, h3⟩ := hfu
    have key : ∀ Lf, FinE (cfgFR3 p recs content sbody pad res c2 dbody a post b mc s0 (closeStatus pr s0) t.wlog 0 more)
        Lf c' →
        Lf = (cfgFR3 p recs content sbody pad res c2 dbody a post b mc s0 (closeStatus pr s0) t.wlog 0 more).Lf3 dbody acc →
        FilterAbortDataOutcome p recs (gapPre p.id sbody pad res dbody) c2 a post b mc (closeStatus pr s0) more t
          c' fin := by
      intro Lf hf hL
      exact ⟨⟨hf.ev.1, hf.ev.2⟩, hf.sc, acc, lost, hal, hra,
        Or.inr ⟨hf.nokeep, hfin, hf.ph, by rw [hf.log, hL, hLf]⟩⟩
    refine ⟨c', fin, hrun, ?_⟩
    rcases h3 with ⟨ha0, hf⟩ | ⟨ha0, hf⟩
    · exact key _ hf (by simp [E2E.Cfg.Lf3, ha0])
    · exact key _ hf (by simp [E2E.Cfg.Lf3, ha0])

/-- `filter_abort_data_chain_e2e` without the size hypothesis. -/
theorem filter_abort_data_chain_e2e_unbounded {p : Preamble} {recs sbody dbody : List Rec} {pad : Bytes} {res : UInt8} {a : Rec} {post : List Rec}
    {b mc : Nat} {content c2 : Bytes} {s0 : ExitStatus} {pr : Bool} (x : UReq) (xs : List UReq) {t : Transport} {fuel : Nat}
    (hwf : WellFormedPreamble p recs) (hrole : p.role = 3) (hk : p.flags.toNat % 2 = 1)
    (hpairs : ∀ q ∈ p.pairs, (NV.enc q).length ≤ alignedBufsize b)
    (hnoise : NoiseFits (alignedBufsize b) recs)
    (hbody : Body p.id 5 content sbody) (hpf : NoiseFits (alignedBufsize b) sbody) (hpad : pad.length < 256)
    (hdb : Body p.id 8 c2 dbody) (hdf : NoiseFits (alignedBufsize b) dbody) (ha : IsAbort p.id a)
    (hpost : ∀ r ∈ post, r.WF) (hpostf : NoiseFits (alignedBufsize b) post)
    (hnb : ∀ r ∈ post, r.rtype.toNat ≠ RT.beginRequest)
    (hok : ∀ y ∈ x :: xs, y.OKu b)
    (hin : t.input = serAll recs ++ (gapX p.id sbody pad res dbody a post)) (hben : Ben t) (hem : t.endMode = .pend)
    (hev : hsCount t.events = 0) (hfuel : t.rd.length + t.wr.length + 1 ≤ fuel) :
    ∃ c' A acc lost, acc ++ lost = c2 ∧ raEvent acc ∈ c'.env.tr.events ∧
      closedLoop fuel ((x :: xs).map UReq.wire)
        (connS b mc t ((rscript s0, pr) :: (x :: xs).map UReq.handler)) 0 = (c', "STALL") ∧
      SegsAll mc (x :: xs) A ∧
      c'.env.tr.wlog = t.wlog ++ (owedPreamble p mc recs ++ owedActive p.id mc (gapPre p.id sbody pad res dbody) ++ epilogueFor p.id (closeStatus pr s0) (!acc.isEmpty) ++
        idleOwed mc post) ++ A ∧
      hsCount c'.env.tr.events = 1 + (x :: xs).length ∧
      startEvent p.request ∈ c'.env.tr.events ∧
      (∀ y ∈ x :: xs, startEvent y.p.request ∈ c'.env.tr.events) ∧ c'.scripts = [] ∧
      c'.env.tr.input = [] ∧
      c'.phase = .parseReq (track (alignedBufsize b) mc (serAll ((x :: xs).getLast (by simp)).left)) .reading := by
  have hid := (pid_of_wf hwf).2
  have hwa := isAbort_wf ha hid
  have hidle : ∀ e ∈ a :: post, IdleNoise e := by
    intro e he
    rcases List.mem_cons.1 he with rfl | he
    · exact ⟨hwa, fun hx => absurd hx (by rw [ha.1]; decide)⟩
    · exact idle_of_noBegin hpost hnb e he
  have hfit : NoiseFits (alignedBufsize b) (a :: post) := by
    intro e he hg
    rcases List.mem_cons.1 he with rfl | he
    · exact absurd hg.1 (by rw [ha.1]; decide)
    · exact hpostf e he hg
  have hlo : LeftOK (alignedBufsize b) (a :: post) := ⟨hidle, hfit⟩
  have ok := fr3ok_of (res := res) (post := post) (mc := mc) (s0 := s0) (pr := pr) t.wlog 0 (((x :: xs).map (UReq.spec mc)).map RSpec.handler)
    hwf hrole hpairs hnoise hbody hpf hpad hdb hdf hpost hpostf ha
  have hstart : StartAt (alignedBufsize b) mc [] t.wlog
      ((rscript s0, pr) :: ((x :: xs).map (UReq.spec mc)).map RSpec.handler) 0 [] (ans t)
      (serAll recs ++ (gapX p.id sbody pad res dbody a post))
      (connS b mc t ((rscript s0, pr) :: ((x :: xs).map (UReq.spec mc)).map RSpec.handler)) :=
    Or.inr ⟨rfl, rfl, hin, rfl, hben, rfl, rfl, rfl, hev, (fun _ hs => nomatch hs), rfl, hem, Nat.le_refl _⟩
  have hleft0 : LeftOK (alignedBufsize b) [] := ⟨(fun _ he => nomatch he), (fun _ hr => nomatch hr)⟩
  obtain ⟨c1, acc, lost, hrun1, hal, hw1⟩ := serve_filterR3_core' ok hk (left := []) hleft0 (Z := x.wire) hidle
    (goodNext_of_oku (hok x List.mem_cons_self) hlo) 0 fuel (by simp [idleOwed]; rfl) hstart (by unfold ans; omega)
  have hLf := lf3_eq (p := p) (recs := recs) (content := content) (c2 := c2) (sbody := sbody) (pad := pad) (res := res)
    (dbody := dbody) (a := a) (post := post) (b := b) (mc := mc) (s0 := s0) (stc := closeStatus pr s0)
    (L0 := t.wlog) (h := 0) (more := ((x :: xs).map (UReq.spec mc)).map RSpec.handler) [] (fun _ h => nomatch h) acc
  have hLw : ((cfgFR3 p recs content sbody pad res c2 dbody a post b mc s0 (closeStatus pr s0) t.wlog 0 (((x :: xs).map (UReq.spec mc)).map RSpec.handler)).front []).Lf3 dbody acc ++
      idleOwed mc (a :: post) =
      t.wlog ++ (owedPreamble p mc recs ++ owedActive p.id mc (gapPre p.id sbody pad res dbody) ++ epilogueFor p.id (closeStatus pr s0) (!acc.isEmpty) ++ idleOwed mc post) := by
    rw [hLf, idleOwed_cons, owed_idle_abort ha, List.nil_append]
    simp [idleOwed, List.append_assoc]
  have hw1' : Waiting (alignedBufsize b) mc (a :: post)
      (t.wlog ++ (owedPreamble p mc recs ++ owedActive p.id mc (gapPre p.id sbody pad res dbody) ++ epilogueFor p.id (closeStatus pr s0) (!acc.isEmpty) ++ idleOwed mc post))
      (((x :: xs).map (UReq.spec mc)).map RSpec.handler) 1 [hsEvent p.request, raEvent acc] (ans t) c1 := by
    rw [← hLw]; exact hw1
  obtain ⟨c', A, hrun, hseg, hw⟩ := chain_serves (alignedBufsize b) mc (serAll dummyRecs ++ [])
    (xs.map (UReq.spec mc)) (UReq.spec mc x) (a :: post) _ 1 [hsEvent p.request, raEvent acc] (ans t) (feed c1 x.wire) 1000 fuel
    (hall_of_oku x xs hok) hlo (Or.inl ⟨c1, hw1', rfl⟩) (by unfold ans; omega)
  have hrun' : closedLoop fuel ((x :: xs).map UReq.wire)
      (connS b mc t ((rscript s0, pr) :: (x :: xs).map UReq.handler)) 0 = (c', "STALL") := by
    have e : (x :: xs).map UReq.handler = ((x :: xs).map (UReq.spec mc)).map RSpec.handler := by
      rw [List.map_map]; rfl
    rw [e]
    show closedLoop fuel (x.wire :: xs.map UReq.wire) _ 0 = _
    rw [closedLoop, hrun1]
    simp only [if_true]
    rw [← hrun, List.map_map]; rfl
  have hlast := lastLeft_specs mc x xs
  refine ⟨c', A, acc, lost, hal, ?_, hrun', segAll_specs mc (x :: xs) A hseg, hw.log, ?_, ?_, ?_, hw.sc, hw.inp, ?_⟩
  · exact hw.ev _ (mem_evsAfter _ _ _ (Or.inl (by simp)))
  · have := hw.hs; simpa [Nat.add_comm] using this
  · exact hw.ev _ (mem_evsAfter _ _ _ (Or.inl List.mem_cons_self))
  · intro y hy
    exact hw.ev _ (mem_evsAfter _ _ _ (Or.inr ⟨UReq.spec mc y, List.mem_map_of_mem hy, rfl⟩))
  · rw [← hlast]; exact hw.ph



/-- `filter_abort_table` without `hsize` (`K·|input| + M ≤ 100000`), but NOT size-free: the bound moved to
`|Stdin wire| ≤ 31000` (`hX31`; rows (a)/(b), placements (i)/(ii) keep it).  The size-free version is `filter_abort_table_anysize` in
`Props/C11FilterAnysize.lean`. -/
theorem filter_abort_table_unbounded :
    -- row (c): the handler never reads; (i), (ii), (iii) with no Data content before the abort record
    (∀ {p : Preamble} {recs pre : List Rec} {a : Rec} {post : List Rec} {b mc : Nat} {st : ExitStatus}
      {more : List (List HOp × Bool)} {t : Transport} {fuel : Nat},
      WellFormedPreamble p recs → p.role = 3 → (∀ q ∈ p.pairs, (NV.enc q).length ≤ alignedBufsize b) →
      NoiseFits (alignedBufsize b) recs → (∀ r ∈ pre, StdinRec p.id r) → NoiseFits (alignedBufsize b) pre →
      IsAbort p.id a → (∀ r ∈ post, r.WF) → NoiseFits (alignedBufsize b) post →
      (∀ r ∈ post, r.rtype.toNat ≠ RT.beginRequest) →
      t.input = serAll recs ++ (serAll (pre ++ [a]) ++ serAll post) → Ben t → hsCount t.events = 0 →
      t.rd.length + t.wr.length + 1 ≤ fuel →
      ∃ c' fin, runTask fuel (connS b mc t (([.ret st], true) :: more)) 0 none = (c', fin) ∧
        EndOnce p recs mc st t c') ∧
    -- rows (a) (`pr = true`) and (b) (`pr = false`), placement (i)
    (∀ {p : Preamble} {recs pre : List Rec} {a : Rec} {post : List Rec} {b mc : Nat} {content : Bytes}
      {s0 : ExitStatus} {pr : Bool} {more : List (List HOp × Bool)} {t : Transport} {fuel : Nat},
      WellFormedPreamble p recs → p.role = 3 → (∀ q ∈ p.pairs, (NV.enc q).length ≤ alignedBufsize b) →
      NoiseFits (alignedBufsize b) recs → Body p.id 5 content pre → NoiseFits (alignedBufsize b) pre →
      IsAbort p.id a → (∀ r ∈ post, r.WF) → NoiseFits (alignedBufsize b) post →
      (∀ r ∈ post, r.rtype.toNat ≠ RT.beginRequest) →
      t.input = serAll recs ++ (serAll (pre ++ [a]) ++ serAll post) → Ben t → hsCount t.events = 0 →
      t.rd.length + t.wr.length + 1 ≤ fuel → (serAll (pre ++ [a]) ++ serAll post).length ≤ 31000 →
      ∃ c' fin, runTask fuel (connS b mc t ((rscript s0, pr) :: more)) 0 none = (c', fin) ∧
        EndOnce p recs mc (closeStatus pr s0) t c') ∧
    -- rows (a), (b), placement (ii)
    (∀ {p : Preamble} {recs sbody mid : List Rec} {pad : Bytes} {res : UInt8} {a : Rec} {post : List Rec}
      {b mc : Nat} {content : Bytes}
      {s0 : ExitStatus} {pr : Bool} {more : List (List HOp × Bool)} {t : Transport} {fuel : Nat},
      WellFormedPreamble p recs → p.role = 3 → (∀ q ∈ p.pairs, (NV.enc q).length ≤ alignedBufsize b) →
      NoiseFits (alignedBufsize b) recs → Body p.id 5 content sbody → NoiseFits (alignedBufsize b) sbody →
      pad.length < 256 → (∀ r ∈ mid, StdinRec p.id r) → NoiseFits (alignedBufsize b) mid →
      IsAbort p.id a → (∀ r ∈ post, r.WF) → NoiseFits (alignedBufsize b) post →
      (∀ r ∈ post, r.rtype.toNat ≠ RT.beginRequest) →
      t.input = serAll recs ++ gapX p.id sbody pad res mid a post → Ben t → hsCount t.events = 0 →
      t.rd.length + t.wr.length + 1 ≤ fuel → (gapX p.id sbody pad res mid a post).length ≤ 31000 →
      ∃ c' fin, runTask fuel (connS b mc t ((rscript s0, pr) :: more)) 0 none = (c', fin) ∧
        EndOnce p recs mc (closeStatus pr s0) t c') ∧
    -- rows (a), (b), placement (iii): Data records (content `c2`, possibly empty) before the abort record
    (∀ {p : Preamble} {recs sbody dbody : List Rec} {pad : Bytes} {res : UInt8} {a : Rec} {post : List Rec}
      {b mc : Nat} {content c2 : Bytes}
      {s0 : ExitStatus} {pr : Bool} {more : List (List HOp × Bool)} {t : Transport} {fuel : Nat},
      WellFormedPreamble p recs → p.role = 3 → (∀ q ∈ p.pairs, (NV.enc q).length ≤ alignedBufsize b) →
      NoiseFits (alignedBufsize b) recs → Body p.id 5 content sbody → NoiseFits (alignedBufsize b) sbody →
      pad.length < 256 → Body p.id 8 c2 dbody → NoiseFits (alignedBufsize b) dbody →
      IsAbort p.id a → (∀ r ∈ post, r.WF) → NoiseFits (alignedBufsize b) post →
      (∀ r ∈ post, r.rtype.toNat ≠ RT.beginRequest) →
      t.input = serAll recs ++ gapX p.id sbody pad res dbody a post → Ben t → hsCount t.events = 0 →
      t.rd.length + t.wr.length + 1 ≤ fuel →
      ∃ c' fin, runTask fuel (connS b mc t ((rscript s0, pr) :: more)) 0 none = (c', fin) ∧
        EndOnce p recs mc (closeStatus pr s0) t c') ∧
    -- the status
    (∀ s0, closeStatus true s0 = ExitStatus.abort ∧ closeStatus false s0 = s0) := by
  refine ⟨?_, ?_, ?_, ?_, closeStatus_spec⟩
  · intro p recs pre a post b mc st more t fuel hwf hrole hpairs hnoise hpre hpf ha hpost hpostf hnb hin hben hev
      hfuel
    obtain ⟨c', fin, hrun, ho⟩ := filter_abort_noread_e2e_unbounded (more := more) hwf hrole hpairs hnoise hpre hpf ha hpost
      hpostf hnb hin hben hev hfuel
    exact ⟨c', fin, hrun, endOnce_of_outcome (pid_of_wf hwf).2 (fun r hr => (hpre r hr).1) hnb ho⟩
  · intro p recs pre a post b mc content s0 pr more t fuel hwf hrole hpairs hnoise hbody hpf ha hpost hpostf hnb
      hin hben hev hfuel hX31
    obtain ⟨c', fin, hrun, ho⟩ := filter_abort_stdin_e2e_unbounded (more := more) hwf hrole hpairs hnoise hbody hpf ha hpost
      hpostf hnb hin hben hev hfuel hX31
    exact ⟨c', fin, hrun, endOnce_of_outcome (pid_of_wf hwf).2 (body_wf (pid_of_wf hwf).2 hbody) hnb ho⟩
  · intro p recs sbody mid pad res a post b mc content s0 pr more t fuel hwf hrole hpairs hnoise hbody hpf hpad
      hmid hmf ha hpost hpostf hnb hin hben hev hfuel hX31
    obtain ⟨c', fin, hrun, ho⟩ := filter_abort_gap_e2e_unbounded (more := more) hwf hrole hpairs hnoise hbody hpf hpad hmid hmf
      ha hpost hpostf hnb hin hben hev hfuel hX31
    exact ⟨c', fin, hrun, endOnce_of_outcome (pid_of_wf hwf).2
      (gapPre_wf (pid_of_wf hwf).2 (body_wf (pid_of_wf hwf).2 hbody) hpad (fun r hr => (hmid r hr).1)) hnb ho⟩
  · intro p recs sbody dbody pad res a post b mc content c2 s0 pr more t fuel hwf hrole hpairs hnoise hbody hpf hpad
      hdb hdf ha hpost hpostf hnb hin hben hev hfuel
    obtain ⟨c', fin, hrun, ho⟩ := filter_abort_data_e2e_unbounded (more := more) hwf hrole hpairs hnoise hbody hpf hpad hdb hdf
      ha hpost hpostf hnb hin hben hev hfuel
    exact ⟨c', fin, hrun, endOnce_of_dataOutcome (pid_of_wf hwf).2
      (gapPre_wf (pid_of_wf hwf).2 (body_wf (pid_of_wf hwf).2 hbody) hpad (body_wf (pid_of_wf hwf).2 hdb)) hnb ho⟩

/-- `filter_abort_data_noread_e2e` without the size hypothesis. -/
theorem filter_abort_data_noread_e2e_unbounded {p : Preamble} {recs sbody dbody : List Rec} {pad : Bytes} {res : UInt8}
    {a : Rec} {post : List Rec} {b mc : Nat} {content c2 : Bytes} {st : ExitStatus}
    {more : List (List HOp × Bool)} {t : Transport} {fuel : Nat}
    (hwf : WellFormedPreamble p recs) (hrole : p.role = 3)
    (hpairs : ∀ q ∈ p.pairs, (NV.enc q).length ≤ alignedBufsize b)
    (hnoise : NoiseFits (alignedBufsize b) recs)
    (hbody : Body p.id 5 content sbody) (hpf : NoiseFits (alignedBufsize b) sbody) (hpad : pad.length < 256)
    (hdb : Body p.id 8 c2 dbody) (hdf : NoiseFits (alignedBufsize b) dbody)
    (hnbd : ∀ r ∈ dbody, r.rtype.toNat ≠ RT.beginRequest) (ha : IsAbort p.id a)
    (hpost : ∀ r ∈ post, r.WF) (hpostf : NoiseFits (alignedBufsize b) post)
    (hnb : ∀ r ∈ post, r.rtype.toNat ≠ RT.beginRequest)
    (hpost5 : ∀ r ∈ post, ¬ (r.rtype.toNat = 5 ∧ r.id = p.id))
    (hin : t.input = serAll recs ++ gapX p.id sbody pad res dbody a post) (hben : Ben t)
    (hev : hsCount t.events = 0) (hfuel : t.rd.length + t.wr.length + 1 ≤ fuel) :
    ∃ c' fin, runTask fuel (connS b mc t (([.ret st], true) :: more)) 0 none = (c', fin) ∧
      FilterAbortSplitOutcome p recs sbody pad res dbody a post b mc st more t c' fin := by
  have hid := (pid_of_wf hwf).2
  have hwa := isAbort_wf ha hid
  have hdwf := body_wf hid hdb
  have hidle : ∀ s2, s2 <:+ dbody → ∀ e ∈ s2 ++ a :: post, IdleNoise e := by
    intro s2 hs2 e he
    rcases List.mem_append.1 he with he | he
    · exact ⟨hdwf e (hs2.subset he), fun hx => absurd hx (hnbd e (hs2.subset he))⟩
    · rcases List.mem_cons.1 he with rfl | he
      · exact ⟨hwa, fun hx => absurd hx (by rw [ha.1]; decide)⟩
      · exact idle_of_noBegin hpost hnb e he
  have hfit : ∀ s2, s2 <:+ dbody → NoiseFits (alignedBufsize b) (s2 ++ a :: post) := by
    intro s2 hs2 e he hg
    rcases List.mem_append.1 he with he | he
    · exact hdf e (hs2.subset he) hg
    · rcases List.mem_cons.1 he with rfl | he
      · exact absurd hg.1 (by rw [ha.1]; decide)
      · exact hpostf e he hg
  have ok := fr4ok_of (content := content) (pad := pad) (res := res) (post := post) (mc := mc) (st := st) t.wlog 0 more
    hwf hrole hpairs hnoise hbody hpf hpad hdb hdf hpost hpost5 ha
  have hfront : ∀ s2, s2 <:+ dbody → _ := fun s2 hs2 =>
    idle_front dummy_wf b mc (fun q hq => by cases hq) (dummy_fits _) (hidle s2 hs2) (hfit s2 hs2) []
  have hst : FStage (cfgFR4 p recs content sbody pad res c2 dbody a post b mc st t.wlog 0 more)
      (connS b mc t (([.ret st], true) :: more)) :=
    .start (raw := []) rfl (by show [] ++ t.input = _; rw [hin, dataX4_eq]; rfl) (Nat.zero_le _) rfl hben rfl rfl rfl hev
  obtain ⟨c', fin, hrun, hres⟩ := run_filterR4' ok (Z := serAll dummyRecs ++ [])
    (fun s2 hs2 => (hfront s2 hs2).1) (fun s2 hs2 => (hfront s2 hs2).2)
    t.endMode [] _ 0 fuel hst rfl (fun s hs => by cases hs) rfl (by show ans t + 1 ≤ fuel; unfold ans; omega)
  rcases hres with ⟨⟨full, d1, s2⟩, ⟨hk, hsp, hfs⟩, hkp, hem, _, _, _, hend⟩ | ⟨hfin, ⟨full, d1, s2, ⟨hsp, hfs⟩, hfu⟩, _, _⟩
  · have hsuf : s2 <:+ dbody := ⟨d1, hsp.symm⟩
    have hout : ∀ F, F ++ (serAll dummyRecs ++ []) = serAll (s2 ++ a :: post) ++ (serAll dummyRecs ++ []) →
        (cfgFR4 p recs content sbody pad res c2 dbody a post b mc st t.wlog 0 more).Lf4 full d1 ++
          (run .header F mc).out =
        t.wlog ++ (owedPreamble p mc recs ++ owedActive p.id mc (gapPre p.id sbody pad res d1) ++
          epilogueFor p.id st full ++ idleOwed mc (s2 ++ a :: post)) := by
      intro F hF
      have hro := (run_idle_out mc (s2 ++ a :: post) (hidle s2 hsuf)).1
      rw [List.append_cancel_right hF, hro, lf4_eq]
      simp only [List.append_assoc]
    refine ⟨c', fin, hrun, ⟨hkp.hs, hkp.ev _ List.mem_cons_self⟩, hkp.sc, full, d1, s2, hsp, hfs, Or.inl ⟨hk, ?_, ?_⟩⟩
    · rcases hend with ⟨_, hp⟩ | ⟨_, hf⟩
      · obtain ⟨F, hF, _, _, hlg⟩ := hp.pst
        exact hlg.trans (hout F hF)
      · obtain ⟨F, hF, hlg⟩ := hf.log
        exact hlg.trans (hout F hF)
    · rcases hend with ⟨rfl, hp⟩ | ⟨rfl, hf⟩
      · obtain ⟨F, hF, hps, hph, _⟩ := hp.pst
        have hFe : F = serAll (s2 ++ a :: post) := List.append_cancel_right hF
        subst hFe
        exact Or.inr ⟨hem.symm.trans hp.em, rfl, hph, hp.inp, hkp.mx, hps.stop, hps.ben⟩
      · exact Or.inl ⟨hem.symm.trans hf.em, rfl, hf.ph⟩
  · exact ⟨c', fin, hrun, ⟨hfu.ev.1, hfu.ev.2⟩, hfu.sc, full, d1, s2, hsp, hfs,
      Or.inr ⟨hfu.nokeep, hfin, hfu.ph, by rw [hfu.log, lf4_eq]⟩⟩

/-- `filter_abort_table_full` without `hsize` (`K·|input| + M ≤ 100000`), but NOT size-free: the bound moved to
`|Stdin wire| ≤ 31000` (`hX31`; rows (a)/(b), placements (i)/(ii) keep it).  The size-free version is `filter_abort_table_full_anysize` in
`Props/C11FilterAnysize.lean`. -/
theorem filter_abort_table_full_unbounded :
    (∀ {p : Preamble} {recs sbody dbody : List Rec} {pad : Bytes} {res : UInt8} {a : Rec} {post : List Rec}
      {b mc : Nat} {content c2 : Bytes} {st : ExitStatus} {more : List (List HOp × Bool)} {t : Transport}
      {fuel : Nat},
      WellFormedPreamble p recs → p.role = 3 → (∀ q ∈ p.pairs, (NV.enc q).length ≤ alignedBufsize b) →
      NoiseFits (alignedBufsize b) recs → Body p.id 5 content sbody → NoiseFits (alignedBufsize b) sbody →
      pad.length < 256 → Body p.id 8 c2 dbody → NoiseFits (alignedBufsize b) dbody →
      (∀ r ∈ dbody, r.rtype.toNat ≠ RT.beginRequest) → IsAbort p.id a →
      (∀ r ∈ post, r.WF) → NoiseFits (alignedBufsize b) post → (∀ r ∈ post, r.rtype.toNat ≠ RT.beginRequest) →
      (∀ r ∈ post, ¬ (r.rtype.toNat = 5 ∧ r.id = p.id)) →
      t.input = serAll recs ++ gapX p.id sbody pad res dbody a post → Ben t → hsCount t.events = 0 →
      t.rd.length + t.wr.length + 1 ≤ fuel →
      ∃ c' fin, runTask fuel (connS b mc t (([.ret st], true) :: more)) 0 none = (c', fin) ∧
        EndOnce p recs mc st t c') ∧
    -- … and all the other cells
    ((∀ {p : Preamble} {recs pre : List Rec} {a : Rec} {post : List Rec} {b mc : Nat} {st : ExitStatus}
      {more : List (List HOp × Bool)} {t : Transport} {fuel : Nat},
      WellFormedPreamble p recs → p.role = 3 → (∀ q ∈ p.pairs, (NV.enc q).length ≤ alignedBufsize b) →
      NoiseFits (alignedBufsize b) recs → (∀ r ∈ pre, StdinRec p.id r) → NoiseFits (alignedBufsize b) pre →
      IsAbort p.id a → (∀ r ∈ post, r.WF) → NoiseFits (alignedBufsize b) post →
      (∀ r ∈ post, r.rtype.toNat ≠ RT.beginRequest) →
      t.input = serAll recs ++ (serAll (pre ++ [a]) ++ serAll post) → Ben t → hsCount t.events = 0 →
      t.rd.length + t.wr.length + 1 ≤ fuel →
      ∃ c' fin, runTask fuel (connS b mc t (([.ret st], true) :: more)) 0 none = (c', fin) ∧
        EndOnce p recs mc st t c') ∧
    (∀ {p : Preamble} {recs pre : List Rec} {a : Rec} {post : List Rec} {b mc : Nat} {content : Bytes}
      {s0 : ExitStatus} {pr : Bool} {more : List (List HOp × Bool)} {t : Transport} {fuel : Nat},
      WellFormedPreamble p recs → p.role = 3 → (∀ q ∈ p.pairs, (NV.enc q).length ≤ alignedBufsize b) →
      NoiseFits (alignedBufsize b) recs → Body p.id 5 content pre → NoiseFits (alignedBufsize b) pre →
      IsAbort p.id a → (∀ r ∈ post, r.WF) → NoiseFits (alignedBufsize b) post →
      (∀ r ∈ post, r.rtype.toNat ≠ RT.beginRequest) →
      t.input = serAll recs ++ (serAll (pre ++ [a]) ++ serAll post) → Ben t → hsCount t.events = 0 →
      t.rd.length + t.wr.length + 1 ≤ fuel → (serAll (pre ++ [a]) ++ serAll post).length ≤ 31000 →
      ∃ c' fin, runTask fuel (connS b mc t ((rscript s0, pr) :: more)) 0 none = (c', fin) ∧
        EndOnce p recs mc (closeStatus pr s0) t c') ∧
    (∀ {p : Preamble} {recs sbody mid : List Rec} {pad : Bytes} {res : UInt8} {a : Rec} {post : List Rec}
      {b mc : Nat} {content : Bytes}
      {s0 : ExitStatus} {pr : Bool} {more : List (List HOp × Bool)} {t : Transport} {fuel : Nat},
      WellFormedPreamble p recs → p.role = 3 → (∀ q ∈ p.pairs, (NV.enc q).length ≤ alignedBufsize b) →
      NoiseFits (alignedBufsize b) recs → Body p.id 5 content sbody → NoiseFits (alignedBufsize b) sbody →
      pad.length < 256 → (∀ r ∈ mid, StdinRec p.id r) → NoiseFits (alignedBufsize b) mid →
      IsAbort p.id a → (∀ r ∈ post, r.WF) → NoiseFits (alignedBufsize b) post →
      (∀ r ∈ post, r.rtype.toNat ≠ RT.beginRequest) →
      t.input = serAll recs ++ gapX p.id sbody pad res mid a post → Ben t → hsCount t.events = 0 →
      t.rd.length + t.wr.length + 1 ≤ fuel → (gapX p.id sbody pad res mid a post).length ≤ 31000 →
      ∃ c' fin, runTask fuel (connS b mc t ((rscript s0, pr) :: more)) 0 none = (c', fin) ∧
        EndOnce p recs mc (closeStatus pr s0) t c') ∧
    (∀ {p : Preamble} {recs sbody dbody : List Rec} {pad : Bytes} {res : UInt8} {a : Rec} {post : List Rec}
      {b mc : Nat} {content c2 : Bytes}
      {s0 : ExitStatus} {pr : Bool} {more : List (List HOp × Bool)} {t : Transport} {fuel : Nat},
      WellFormedPreamble p recs → p.role = 3 → (∀ q ∈ p.pairs, (NV.enc q).length ≤ alignedBufsize b) →
      NoiseFits (alignedBufsize b) recs → Body p.id 5 content sbody → NoiseFits (alignedBufsize b) sbody →
      pad.length < 256 → Body p.id 8 c2 dbody → NoiseFits (alignedBufsize b) dbody →
      IsAbort p.id a → (∀ r ∈ post, r.WF) → NoiseFits (alignedBufsize b) post →
      (∀ r ∈ post, r.rtype.toNat ≠ RT.beginRequest) →
      t.input = serAll recs ++ gapX p.id sbody pad res dbody a post → Ben t → hsCount t.events = 0 →
      t.rd.length + t.wr.length + 1 ≤ fuel →
      ∃ c' fin, runTask fuel (connS b mc t ((rscript s0, pr) :: more)) 0 none = (c', fin) ∧
        EndOnce p recs mc (closeStatus pr s0) t c') ∧
    (∀ s0, closeStatus true s0 = ExitStatus.abort ∧ closeStatus false s0 = s0)) := by
  refine ⟨?_, filter_abort_table_unbounded⟩
  intro p recs sbody dbody pad res a post b mc content c2 st more t fuel hwf hrole hpairs hnoise hbody hpf hpad hdb hdf
    hnbd ha hpost hpostf hnb hpost5 hin hben hev hfuel
  obtain ⟨c', fin, hrun, ho⟩ := filter_abort_data_noread_e2e_unbounded (more := more) hwf hrole hpairs hnoise hbody hpf hpad hdb
    hdf hnbd ha hpost hpostf hnb hpost5 hin hben hev hfuel
  have hid := (pid_of_wf hwf).2
  exact ⟨c', fin, hrun, endOnce_of_splitOutcome hid (body_wf hid hbody) hpad (body_wf hid hdb) hnbd ha hnb ho⟩

/-- `filter_abort_data_noread_chain_e2e` without the size hypothesis. -/
theorem filter_abort_data_noread_chain_e2e_unbounded {p : Preamble} {recs sbody dbody : List Rec} {pad : Bytes} {res : UInt8}
    {a : Rec} {post : List Rec} {b mc : Nat} {content c2 : Bytes} {st : ExitStatus}
    (x : UReq) (xs : List UReq) {t : Transport} {fuel : Nat}
    (hwf : WellFormedPreamble p recs) (hrole : p.role = 3) (hk : p.flags.toNat % 2 = 1)
    (hpairs : ∀ q ∈ p.pairs, (NV.enc q).length ≤ alignedBufsize b)
    (hnoise : NoiseFits (alignedBufsize b) recs)
    (hbody : Body p.id 5 content sbody) (hpf : NoiseFits (alignedBufsize b) sbody) (hpad : pad.length < 256)
    (hdb : Body p.id 8 c2 dbody) (hdf : NoiseFits (alignedBufsize b) dbody)
    (hnbd : ∀ r ∈ dbody, r.rtype.toNat ≠ RT.beginRequest) (ha : IsAbort p.id a)
    (hpost : ∀ r ∈ post, r.WF) (hpostf : NoiseFits (alignedBufsize b) post)
    (hnb : ∀ r ∈ post, r.rtype.toNat ≠ RT.beginRequest)
    (hpost5 : ∀ r ∈ post, ¬ (r.rtype.toNat = 5 ∧ r.id = p.id))
    (hok : ∀ y ∈ x :: xs, y.OKu b)
    (hin : t.input = serAll recs ++ gapX p.id sbody pad res dbody a post) (hben : Ben t) (hem : t.endMode = .pend)
    (hev : hsCount t.events = 0) (hfuel : t.rd.length + t.wr.length + 1 ≤ fuel) :
    ∃ c' A full d1 s2, dbody = d1 ++ s2 ∧ (full = false → s2 = []) ∧
      closedLoop fuel ((x :: xs).map UReq.wire)
        (connS b mc t (([.ret st], true) :: (x :: xs).map UReq.handler)) 0 = (c', "STALL") ∧
      SegsAll mc (x :: xs) A ∧
      c'.env.tr.wlog = t.wlog ++ (owedPreamble p mc recs ++ owedActive p.id mc (gapPre p.id sbody pad res d1) ++
        epilogueFor p.id st full ++ idleOwed mc (s2 ++ a :: post)) ++ A ∧
      hsCount c'.env.tr.events = 1 + (x :: xs).length ∧
      startEvent p.request ∈ c'.env.tr.events ∧
      (∀ y ∈ x :: xs, startEvent y.p.request ∈ c'.env.tr.events) ∧ c'.scripts = [] ∧
      c'.env.tr.input = [] ∧
      c'.phase = .parseReq (track (alignedBufsize b) mc (serAll ((x :: xs).getLast (by simp)).left)) .reading := by
  have hid := (pid_of_wf hwf).2
  have hwa := isAbort_wf ha hid
  have hdwf := body_wf hid hdb
  have hidle : ∀ s2, s2 <:+ dbody → ∀ e ∈ s2 ++ a :: post, IdleNoise e := by
    intro s2 hs2 e he
    rcases List.mem_append.1 he with he | he
    · exact ⟨hdwf e (hs2.subset he), fun hx => absurd hx (hnbd e (hs2.subset he))⟩
    · rcases List.mem_cons.1 he with rfl | he
      · exact ⟨hwa, fun hx => absurd hx (by rw [ha.1]; decide)⟩
      · exact idle_of_noBegin hpost hnb e he
  have hfit : ∀ s2, s2 <:+ dbody → NoiseFits (alignedBufsize b) (s2 ++ a :: post) := by
    intro s2 hs2 e he hg
    rcases List.mem_append.1 he with he | he
    · exact hdf e (hs2.subset he) hg
    · rcases List.mem_cons.1 he with rfl | he
      · exact absurd hg.1 (by rw [ha.1]; decide)
      · exact hpostf e he hg
  have hlo : ∀ s2, s2 <:+ dbody → LeftOK (alignedBufsize b) (s2 ++ a :: post) := fun s2 hs2 => ⟨hidle s2 hs2, hfit s2 hs2⟩
  have ok := fr4ok_of (content := content) (pad := pad) (res := res) (post := post) (mc := mc) (st := st) t.wlog 0
    (((x :: xs).map (UReq.spec mc)).map RSpec.handler) hwf hrole hpairs hnoise hbody hpf hpad hdb hdf hpost hpost5 ha
  have hstart : StartAt (alignedBufsize b) mc [] t.wlog
      (([.ret st], true) :: ((x :: xs).map (UReq.spec mc)).map RSpec.handler) 0 [] (ans t)
      (serAll recs ++ dataX4 p.id sbody pad res dbody a post)
      (connS b mc t (([.ret st], true) :: ((x :: xs).map (UReq.spec mc)).map RSpec.handler)) :=
    Or.inr ⟨rfl, rfl, by show t.input = _; rw [hin, dataX4_eq], rfl, hben, rfl, rfl, rfl, hev, (fun _ hs => nomatch hs), rfl, hem,
      Nat.le_refl _⟩
  have hleft0 : LeftOK (alignedBufsize b) [] := ⟨(fun _ he => nomatch he), (fun _ hr => nomatch hr)⟩
  obtain ⟨c1, full, d1, s2, hrun1, ⟨hsp, hfs⟩, hw1⟩ := serve_filterR4_core' ok hk (left := []) hleft0 (Z := x.wire)
    hidle (fun s2 hs2 => goodNext_of_oku (hok x List.mem_cons_self) (hlo s2 hs2)) 0 fuel (by simp [idleOwed]; rfl)
    hstart (by unfold ans; omega)
  have hsuf : s2 <:+ dbody := ⟨d1, hsp.symm⟩
  have hLw : ((cfgFR4 p recs content sbody pad res c2 dbody a post b mc st t.wlog 0
        (((x :: xs).map (UReq.spec mc)).map RSpec.handler)).front []).Lf4 full d1 ++ idleOwed mc (s2 ++ a :: post) =
      t.wlog ++ (owedPreamble p mc recs ++ owedActive p.id mc (gapPre p.id sbody pad res d1) ++
        epilogueFor p.id st full ++ idleOwed mc (s2 ++ a :: post)) := by
    have e : (cfgFR4 p recs content sbody pad res c2 dbody a post b mc st t.wlog 0
        (((x :: xs).map (UReq.spec mc)).map RSpec.handler)).front [] =
      cfgFR4 p recs content sbody pad res c2 dbody a post b mc st t.wlog 0
        (((x :: xs).map (UReq.spec mc)).map RSpec.handler) := rfl
    rw [e, lf4_eq]
    simp only [List.append_assoc]
  have hw1' : Waiting (alignedBufsize b) mc (s2 ++ a :: post)
      (t.wlog ++ (owedPreamble p mc recs ++ owedActive p.id mc (gapPre p.id sbody pad res d1) ++
        epilogueFor p.id st full ++ idleOwed mc (s2 ++ a :: post)))
      (((x :: xs).map (UReq.spec mc)).map RSpec.handler) 1 [hsEvent p.request] (ans t) c1 := by
    rw [← hLw]; exact hw1
  obtain ⟨c', A, hrun, hseg, hw⟩ := chain_serves (alignedBufsize b) mc (serAll dummyRecs ++ [])
    (xs.map (UReq.spec mc)) (UReq.spec mc x) (s2 ++ a :: post) _ 1 [hsEvent p.request] (ans t) (feed c1 x.wire) 1000 fuel
    (hall_of_oku x xs hok) (hlo s2 hsuf) (Or.inl ⟨c1, hw1', rfl⟩) (by unfold ans; omega)
  have hrun' : closedLoop fuel ((x :: xs).map UReq.wire)
      (connS b mc t (([.ret st], true) :: (x :: xs).map UReq.handler)) 0 = (c', "STALL") := by
    have e : (x :: xs).map UReq.handler = ((x :: xs).map (UReq.spec mc)).map RSpec.handler := by
      rw [List.map_map]; rfl
    rw [e]
    show closedLoop fuel (x.wire :: xs.map UReq.wire) _ 0 = _
    rw [closedLoop, hrun1]
    simp only [if_true]
    rw [← hrun, List.map_map]; rfl
  have hlast := lastLeft_specs mc x xs
  refine ⟨c', A, full, d1, s2, hsp, hfs, hrun', segAll_specs mc (x :: xs) A hseg, hw.log, ?_, ?_, ?_, hw.sc, hw.inp, ?_⟩
  · have := hw.hs; simpa [Nat.add_comm] using this
  · exact hw.ev _ (mem_evsAfter _ _ _ (Or.inl List.mem_cons_self))
  · intro y hy
    exact hw.ev _ (mem_evsAfter _ _ _ (Or.inr ⟨UReq.spec mc y, List.mem_map_of_mem hy, rfl⟩))
  · rw [← hlast]; exact hw.ph

end Fcgi.C11F

/-! ## Non-vacuity: the 65 535-byte record of `C07U.ExampleBig`, a 64 KiB buffer -/
namespace Fcgi.UnbExamples
open Fcgi Fcgi.Req Fcgi.Str Fcgi.Async Fcgi.Run Fcgi.Spec Fcgi.E2E Fcgi.C07E Fcgi.C07U
open Fcgi.C01.Example Fcgi.C07E.Example Fcgi.C07U.ExampleBig

/-- C11 (`abort_mid_stream_e2e_unbounded`): the 65 535-byte record, then `AbortRequest`; no `hsize`, no `hhf`. -/
def bigAb : Transport :=
  { input := serAll C11E.Example.recsN ++ (serAll [({ rtype := 5, id := 1, content := big, pad := [0] } : Rec)] ++
      (C11E.Example.ab.ser ++ [9, 9, 9])), endMode := .pend,
    rd := [.n 20, .pending, .n 40000, .n 1, .pending, .all], wr := [.n 5, .pending, .all, .n 1], fl := [] }

theorem bigBody : Body 1 5 big [({ rtype := 5, id := 1, content := big, pad := [0] } : Rec)] := by
  have h := Body.chunk (id := 1) (s := 5) big [0] 0 (by rw [big_len]; omega) (by decide) .nil
  rw [List.append_nil] at h
  exact h

example : ∃ c', runTask 20 (conn0 65536 10 bigAb [104, 105] (.complete 0)) 0 none = (c', "RET") ∧
    c'.phase = .finished ∧ hsCount c'.env.tr.events = 1 := by
  obtain ⟨c', O1, O2, hrun, _, _, hph, hhs, _⟩ := C11E.abort_mid_stream_e2e_unbounded (p := C11E.Example.preN)
    (recs := C11E.Example.recsN) (c1 := big) (body := [({ rtype := 5, id := 1, content := big, pad := [0] } : Rec)])
    (a := C11E.Example.ab) (tail := [9, 9, 9]) (b := 65536) (mc := 10) (data := [104, 105]) (st := .complete 0)
    (t := bigAb) (fuel := 20) C11E.Example.recsN_wf rfl (by decide) (fun q hq => by cases hq)
    (no_getValues_fits (by decide)) bigBody
    (by
      intro r hr hg; exfalso
      obtain ⟨h1, _⟩ := hg
      rw [List.mem_singleton.1 hr] at h1
      simp [RT.getValues] at h1)
    C11E.Example.ab_is rfl ⟨by decide, by decide, rfl, by decide⟩ rfl (by decide)
  exact ⟨c', hrun, hph, hhs⟩
end Fcgi.UnbExamples
