import Fcgi.Props.E2EUnbounded
import Fcgi.Props.C07NoFuel

/-!
# C11 end to end without the model-fuel hypothesis

`foreign_abort_ignored_e2e_nofuel` = `foreign_abort_ignored_e2e_unbounded` (`Props/E2EUnbounded.lean`) minus
`hhf : wcost |data| + 12 ≤ 1000` — the only C11 theorem with a cost hypothesis of its own (the other abort theorems lost
theirs with `AbOK.hfu`).  The follow-up requests of `abort_in_params_e2e`, `abort_mid_stream_next_e2e`,
`abort_own_status_next_e2e` are still `Sent.OKu` (cost field inside): their continuation runs through
`E2E.run_from_out'` / `run_abort_next'` over `Cfg.OK`, not yet transformed.
-/
namespace Fcgi.C11E
open Fcgi Fcgi.Req Fcgi.Str Fcgi.Async Fcgi.Run Fcgi.Spec Fcgi.E2E Fcgi.C07E

/-- **`foreign_abort_ignored_e2e_unbounded` without `hhf`.** -/
theorem foreign_abort_ignored_e2e_nofuel {p : Preamble} {recs : List Rec} {content : Bytes} {s1 s2 : List Rec}
    {f : Rec} {b mc : Nat} {data : Bytes} {st : ExitStatus} {t : Transport} {fuel : Nat}
    (hwf : WellFormedPreamble p recs) (hrole : p.role = 1)
    (hpairs : ∀ q ∈ p.pairs, (NV.enc q).length ≤ alignedBufsize b)
    (hnoise : NoiseFits (alignedBufsize b) recs)
    (hs : StreamRecs p.id 5 content (s1 ++ s2)) (hs2 : s2 ≠ [])
    (hsn : NoiseFits (alignedBufsize b) (s1 ++ s2)) (hf : ForeignAbort p.id f)
    (hin : t.input = serAll recs ++ serAll (s1 ++ f :: s2)) (hben : Ben t) (hev : hsCount t.events = 0)
    (hfuel : t.rd.length + t.wr.length + 1 ≤ fuel) :
    ∃ c' fin O₁ O₂, runTask fuel (conn0 b mc t data st) 0 none = (c', fin) ∧
      O₁ ++ O₂ = owedStream p.id 5 mc (s1 ++ s2) ∧
      OutcomeN p content b mc t.wlog (expectedLogN p recs mc data st O₁ O₂) t c' fin := by
  have := single_request_e2e_nofuel (mc := mc) (data := data) (st := st) hwf hrole hpairs hnoise
    (streamRecs_insert hf.noise s1 hs hs2) (noiseFits_insert hf hsn) hin hben hev hfuel
  rw [owedStream_insert hf] at this
  exact this

/-! ## Non-vacuity: the hypothesis bundle with 70 000 000 bytes of output -/
namespace ExampleNoFuel11
open Fcgi.C07E.ExampleNoFuel

/-- for every well-formed request with a foreign AbortRequest inside its Stdin stream and the handler output `bigData`,
the old `hhf` is false and the `_nofuel` theorem still yields the run -/
example {p : Preamble} {recs : List Rec} {content : Bytes} {s1 s2 : List Rec} {f : Rec} {b mc : Nat} {st : ExitStatus}
    {t : Transport} {fuel : Nat} (hwf : WellFormedPreamble p recs) (hrole : p.role = 1)
    (hpairs : ∀ q ∈ p.pairs, (NV.enc q).length ≤ alignedBufsize b) (hnoise : NoiseFits (alignedBufsize b) recs)
    (hs : StreamRecs p.id 5 content (s1 ++ s2)) (hs2 : s2 ≠ []) (hsn : NoiseFits (alignedBufsize b) (s1 ++ s2))
    (hf : ForeignAbort p.id f) (hin : t.input = serAll recs ++ serAll (s1 ++ f :: s2)) (hben : Ben t)
    (hev : hsCount t.events = 0) (hfuel : t.rd.length + t.wr.length + 1 ≤ fuel) :
    ¬ (wcost bigData.length + 12 ≤ 1000) ∧
    ∃ c' fin, runTask fuel (conn0 b mc t bigData st) 0 none = (c', fin) ∧ hsCount c'.env.tr.events = 1 := by
  refine ⟨old_hhf_fails, ?_⟩
  obtain ⟨c', fin, O1, O2, hrun, _, ho⟩ := foreign_abort_ignored_e2e_nofuel (mc := mc) (data := bigData) (st := st)
    hwf hrole hpairs hnoise hs hs2 hsn hf hin hben hev hfuel
  exact ⟨c', fin, hrun, ho.one_handler.1⟩

end ExampleNoFuel11

end Fcgi.C11E
