import Fcgi.Props.C10Clone2
import Fcgi.Proofs.C12Wf
import Fcgi.Props.C03Str
/-!
# C10 — the request's own replies are WHOLE records, and no writer's bytes fall inside them

`Props/C10.lean` treats what `Request::poll_output` writes as opaque chunks: every `opoll` of the system model `Sys`
completes an entry `Entry.reply bs`, `bs` = the bytes that ONE poll wrote.  One poll may write only a PART of the
parser's reply buffer (partial write, then `Pending`), so a single `reply` entry is in general not a sequence of whole
records.  What is whole is what the request writes during one HOLDING of the mutex.  Here that is composed:

* C04 side (`Proofs/C12Wf.lean`, re-exported): the stream parser's reply buffer only ever grows by whole, well-formed
  records (`strParse_out`: UnknownType, EndRequest(CantMpxConn), GetValuesResult; needs `maxConns < 2^64`, the Rust
  type is `usize`).  `grown_whole`: along ANY history of parser operations all replies generated form a `Whole` byte
  string; `parser_output_ledger_whole`: `sent ++ buffer` is `Whole` if the buffer was at the start; so the buffer is
  `Whole` whenever what was sent so far is (`parser_output_whole`) — in particular as long as nothing was consumed.
* mutex side (`pollOutput_keeps`): a `poll_output` that does not return `Ready` does not give the mutex up.
* **composition** (`replies_one_holding`): in `Sys` (any number of writers, the request's `poll_output`, any poll order,
  any write splitting, well-behaved callers), started with a `Whole` reply buffer `out0`:
  the completed entries, concatenated, are `D₁ ++ R ++ D₂` with `D₁`, `D₂` whole records (of the writers), and `R` the
  bytes the request has written, `R ++ (what is left in the buffer) = out0`; and while `R` is a proper, non-empty part
  of `out0` the request HOLDS the mutex and nothing follows `R` (`D₂ = []`): no writer's byte falls inside the
  replies, which are written over as many polls as the transport needs, in ONE holding.
* **log level** (`completed_whole`, `log_whole_when_free`): whenever the request does not hold the mutex, the completed
  entries (records AND reply chunks) concatenate to whole well-formed records; when the mutex is free the log itself is
  the initial log followed by whole well-formed records.  (`log_during_holding`: while the request holds the mutex the
  log is `… ++ D₁ ++ R`, `R` a prefix of `out0`.)

Scope: the fixed-writer system `Sys` of `Props/C10.lean` (the clone/drop variant `Sys2` has the same `step` for polls;
not lifted here).  In `Sys` the parser is not fed, so the reply buffer never grows during a run; the parser-side
lemmas say what happens between runs.
-/
namespace Fcgi.C10R
open Fcgi Fcgi.Async Fcgi.C10
open Fcgi.C12Inv (Whole AllWF whole_recordOf strParse_out OutW)

/-! ## 1. C04 side: the reply buffer consists of whole records -/

open Fcgi.Str in
theorem outGrowth_whole (p : Str.Parser) (op : Op) (hmc : p.maxConns < 2 ^ 64) :
    Whole (C03S.outGrowth p op) ∧ (applyOp p op).maxConns = p.maxConns := by
  cases op with
  | parse new dest =>
    obtain ⟨⟨o, ho, hw⟩, hm⟩ := strParse_out p new dest hmc
    refine ⟨?_, hm⟩
    simp only [C03S.outGrowth, ho, List.drop_left]
    exact hw
  | consumeStream amt => exact ⟨Whole.nil, rfl⟩
  | compress => exact ⟨Whole.nil, rfl⟩
  | consumeOutput amt => exact ⟨Whole.nil, rfl⟩
  | setStream s =>
    refine ⟨Whole.nil, ?_⟩
    simp only [applyOp]
    cases hs : p.setStream s with
    | ok p' =>
      rcases setStream_ok_cases hs with ⟨-, rfl⟩ | ⟨-, rfl, -⟩
      · rfl
      · rfl
    | rejected => rfl
    | panic s => rfl

open Fcgi.Str in
/-- **All replies the stream parser generates along any history of operations form whole, well-formed records.** -/
theorem grown_whole (ops : List Op) : ∀ (p : Str.Parser), p.maxConns < 2 ^ 64 → Whole (C03S.grownAll p ops) := by
  induction ops with
  | nil => intro p _; exact Whole.nil
  | cons op t ih =>
    intro p hmc
    obtain ⟨hw, hm⟩ := outGrowth_whole p op hmc
    exact hw.append (ih _ (by rw [hm]; exact hmc))

open Fcgi.Str in
/-- what was handed to the transport so far, followed by what is still queued, is whole -/
theorem parser_output_ledger_whole (p : Str.Parser) (ops : List Op) (hmc : p.maxConns < 2 ^ 64)
    (h0 : Whole p.output) : Whole (C03S.sentAll p ops ++ (applyOps p ops).output) := by
  rw [C03S.output_ledger]
  exact h0.append (grown_whole ops p hmc)

open Fcgi.Str in
/-- **`OutWF`**: the reply buffer is whole as long as nothing of it was consumed (the state in which the request
acquires the mutex for the first time); in general it is whole whenever what was consumed so far is
(`parser_output_ledger_whole`: `consume_output` may stop inside a record — that is the partial write). -/
theorem parser_output_whole (p : Str.Parser) (ops : List Op) (hmc : p.maxConns < 2 ^ 64)
    (h0 : Whole p.output) (hns : C03S.sentAll p ops = []) : Whole (applyOps p ops).output := by
  have := parser_output_ledger_whole p ops hmc h0
  rwa [hns, List.nil_append] at this

/-! ## 2. Mutex side -/

/-- **The request keeps the mutex until its buffer is empty**: a `poll_output` leaves the mutex as it was, or leaves
it with the request, unless it returns `Ready`. -/
theorem pollOutput_keeps (r : AReq) (m : MutexSt) (t : Transport) (hc : Consistent 0 r.lock m)
    {r' : AReq} {m' : MutexSt} {t' : Transport} {o : ORes}
    (h : r.pollOutput m t = (r', m', t', o)) : m' = m ∨ m' = some 0 ∨ o = .ready := by
  by_cases hne : r.sp.output = []
  · have he : r.sp.output.isEmpty = true := by simp [hne]
    unfold AReq.pollOutput at h
    simp only [he, if_true] at h
    split at h <;> cases h <;> exact Or.inl rfl
  · rw [pollOutput_nonempty r m t hne] at h
    have hc0 : Consistent 0 (lock0 r.lock) m := by
      unfold Consistent lock0 at *
      cases hl : r.lock <;> simp_all
    obtain ⟨-, hgot, hnot⟩ := lockPoll_spec _ m 0 hc0
    generalize lock0 r.lock = l0 at *
    split at h
    · rename_i hg
      obtain ⟨-, h2, -, -⟩ := hnot hg
      cases h
      exact Or.inl h2
    · rename_i hg
      have hg' : (lockPoll l0 m 0).2.2 = true := by simpa using hg
      obtain ⟨-, h2, -⟩ := hgot hg'
      rcases hl' : outLoop (r.sp.output.length + 1) r.sp t with ⟨sp3, t3, o3⟩
      rw [hl'] at h
      cases o3 with
      | ready => cases h; exact Or.inr (Or.inr rfl)
      | pending => cases h; exact Or.inr (Or.inl h2)
      | err e => cases h; exact Or.inr (Or.inl h2)
      | panic s => cases h; exact Or.inr (Or.inl h2)

/-! ## 3. The composition in the system model -/

/-- Where the request's reply bytes sit among the completed entries (`B` = all completed entries concatenated). -/
def RQ (out0 : Bytes) (s : Sys) (B : Bytes) : Prop :=
  ∃ D1 R D2, B = D1 ++ R ++ D2 ∧ Whole D1 ∧ Whole D2 ∧ R ++ s.req.sp.output = out0 ∧
    (R ≠ [] → s.req.sp.output ≠ [] → s.mutex = some 0 ∧ D2 = [])

/-- a poll of a writer leaves the request alone -/
theorem step_req_writer (s : Sys) {op : Op} (h : op ≠ .opoll) : (step s op).req = s.req := by
  cases op with
  | wpoll i buf => simp only [step]; split <;> rfl
  | fpoll i => simp only [step]; split <;> rfl
  | opoll => exact absurd rfl h

/-- what a poll of a writer completes: nothing, or one record -/
theorem emitted_writer (s : Sys) {op : Op} (h : op ≠ .opoll) :
    emitted s op = [] ∨ ∃ i rt id pl, emitted s op = [.record i rt id pl] := by
  cases op with
  | wpoll i buf =>
    simp only [emitted]
    split
    · exact Or.inl rfl
    · split
      · exact Or.inr ⟨_, _, _, _, rfl⟩
      · exact Or.inl rfl
  | fpoll i => exact Or.inl rfl
  | opoll => exact absurd rfl h

theorem append_cancel_mid {a b c d : Bytes} (h : a ++ b = a ++ c ++ d) : b = c ++ d := by
  rw [List.append_assoc] at h; exact List.append_cancel_left h

/-- **One poll.** -/
theorem rq_step {g : Ghost} {s : Sys} {done cur out0 B : Bytes} (hL : LogInv g s done cur) {op : Op}
    (hok : OpOK g s op) (hq : RQ out0 s B)
    (hrec : ∀ i rt id pl, Entry.record i rt id pl ∈ emitted s op → pl.length ≤ 65535) :
    RQ out0 (step s op) (B ++ (emitted s op).flatMap Entry.bytes) := by
  obtain ⟨D1, R, D2, hB, w1, w2, hR, hcl⟩ := hq
  obtain ⟨cur', hL'⟩ := logInv_step hL op hok
  have f := stepFacts s op hL.own
  -- `E ++ cur' = cur ++ delta`
  have hbal : (emitted s op).flatMap Entry.bytes ++ cur' = cur ++ delta s op := by
    have h1 := hL'.log
    rw [f.log, hL.log, List.append_assoc, List.append_assoc] at h1
    exact (List.append_cancel_left h1).symm
  by_cases hop : op = .opoll
  · subst hop
    have hE : (emitted s .opoll).flatMap Entry.bytes = delta s .opoll := by simp [emitted, Entry.bytes]
    rw [hE]
    have hpre := reply_is_output_prefix s hL.own
    rcases hp : s.req.pollOutput s.mutex s.t with ⟨r', m', t', o⟩
    have hs : step s .opoll = { s with req := r', mutex := m', t := t' } := by simp [step, hp]
    obtain ⟨⟨-, -, d1, hd1, hwr⟩, d2, hd2, -, hrdy, -⟩ := pollOutput_own s.req s.mutex s.t hL.own.req hp
    have hkeep := pollOutput_keeps s.req s.mutex s.t hL.own.req hp
    have e1 : delta s .opoll = d1 := delta_of (by rw [hs]; exact hd1)
    rw [← e1] at hwr
    have hreq' : (step s .opoll).req = r' := by rw [hs]
    have hmut' : (step s .opoll).mutex = m' := by rw [hs]
    rw [hreq'] at hpre
    by_cases hd : delta s .opoll = []
    · -- nothing written by this poll
      rw [hd, List.append_nil]
      rw [hd, List.nil_append] at hpre
      refine ⟨D1, R, D2, hB, w1, w2, by rw [hreq', ← hpre]; exact hR, ?_⟩
      intro hRn hon
      rw [hreq', ← hpre] at hon
      obtain ⟨hm0, hD2⟩ := hcl hRn hon
      refine ⟨?_, hD2⟩
      rw [hmut']
      rcases hkeep with h | h | h
      · rw [h]; exact hm0
      · exact h
      · exact absurd (by rw [hpre]; exact (hrdy h).1) hon
    · -- this poll wrote `delta ≠ []`
      obtain ⟨-, hm'⟩ := hwr hd
      have hon : s.req.sp.output ≠ [] := by
        intro h0; rw [h0] at hpre
        exact hd (List.append_eq_nil_iff.1 hpre.symm).1
      have hcl' : ∀ R' : Bytes, R' ≠ [] → (step s .opoll).req.sp.output ≠ [] →
          (step s .opoll).mutex = some 0 ∧ ([] : Bytes) = [] := by
        intro R' _ ho'
        rw [hreq'] at ho'
        rw [hmut']
        rcases hm' with h | ⟨-, h⟩
        · exact ⟨h, rfl⟩
        · exact absurd (hrdy h).1 ho'
      by_cases hRe : R = []
      · subst hRe
        refine ⟨D1 ++ D2, delta s .opoll, [], by rw [hB]; simp, w1.append w2, Whole.nil, ?_, hcl' _⟩
        rw [hreq', ← hpre]; simpa using hR
      · obtain ⟨-, hD2⟩ := hcl hRe hon
        subst hD2
        refine ⟨D1, R ++ delta s .opoll, [], by rw [hB]; simp, w1, Whole.nil, ?_, hcl' _⟩
        rw [hreq', List.append_assoc, ← hpre]; exact hR
  · -- a poll of writer `i` (owner id `i + 1`)
    have hreq := step_req_writer s hop
    have hown : op.owner ≠ 0 := by cases op <;> simp [Op.owner] at * <;> exact absurd rfl hop
    by_cases hlk : R ≠ [] ∧ s.req.sp.output ≠ []
    · -- the request is in the middle of its replies: the writer can do nothing
      obtain ⟨hm0, hD2⟩ := hcl hlk.1 hlk.2
      have hcur : cur = [] := hL.quiet (fun i buf hmi _ => by rw [hm0] at hmi; cases hmi)
      have hdel : delta s op = [] := by
        apply Classical.byContradiction
        intro hne
        rcases (f.writes hne).1 with h | h
        · rw [hm0] at h; cases h
        · rw [hm0] at h; exact hown (Option.some.inj h).symm
      rw [hcur, hdel] at hbal
      have hE : (emitted s op).flatMap Entry.bytes = [] := (List.append_eq_nil_iff.1 hbal).1
      rw [hE, List.append_nil]
      refine ⟨D1, R, D2, hB, w1, w2, by rw [hreq]; exact hR, fun _ _ => ⟨?_, hD2⟩⟩
      rcases f.mutex with h | ⟨h, -⟩
      · rw [h]; exact hm0
      · rw [hm0] at h
        rcases h with h | h
        · cases h
        · exact absurd (Option.some.inj h).symm hown
    · -- the request is not in the middle of its replies: the record (if any) goes behind
      have hW : Whole ((emitted s op).flatMap Entry.bytes) := by
        rcases emitted_writer s hop with h | ⟨i, rt, id, pl, h⟩
        · rw [h]; exact Whole.nil
        · rw [h]
          simp only [List.flatMap_cons, List.flatMap_nil, List.append_nil, Entry.bytes]
          exact whole_recordOf rt id pl (hrec i rt id pl (by rw [h]; exact List.mem_singleton.2 rfl))
      refine ⟨D1, R, D2 ++ (emitted s op).flatMap Entry.bytes, by rw [hB]; simp, w1, w2.append hW,
        by rw [hreq]; exact hR, ?_⟩
      intro hRn hon
      rw [hreq] at hon
      exact absurd ⟨hRn, hon⟩ hlk

/-- **Any schedule.** -/
theorem rq_run (out0 : Bytes) (ops : List Op) : ∀ (g : Ghost) (s : Sys) (done cur B : Bytes),
    LogInv g s done cur → WellBehaved g s ops →
    (∀ i rt id pl, Entry.record i rt id pl ∈ completed s ops → pl.length ≤ 65535) →
    RQ out0 s B → RQ out0 (run s ops) (B ++ (completed s ops).flatMap Entry.bytes) := by
  induction ops with
  | nil => intro g s done cur B _ _ _ hq; simpa [completed, run] using hq
  | cons op ops ih =>
    intro g s done cur B hL hwb hrec hq
    obtain ⟨hok, hrest⟩ := hwb
    obtain ⟨cur1, hL1⟩ := logInv_step hL op hok
    have h1 := rq_step hL hok hq (fun i rt id pl hm => hrec i rt id pl (by
      simp only [completed, List.mem_append]; exact Or.inl hm))
    have h2 := ih _ _ _ _ _ hL1 hrest (fun i rt id pl hm => hrec i rt id pl (by
      simp only [completed, List.mem_append]; exact Or.inr hm)) h1
    simpa [completed, run, List.flatMap_append, List.append_assoc] using h2

/-- the hypotheses of `C10.no_interleave`, plus: the request's reply buffer holds whole records at the start -/
structure StartOK (s : Sys) : Prop where
  own : OwnInv s
  idle : ∀ (i : Nat) (w : Writer), s.writers[i]? = some w → w.isWriting = false
  out : Whole s.req.sp.output

/-- **The request's replies, one holding of the mutex.**  Any number of writers, the request's `poll_output`, polled in
any order by well-behaved callers, the transport splitting and delaying writes at will.  Then the completed entries
(complete stream records of the writers, and the chunks written by the `poll_output`s) concatenate to
`D₁ ++ R ++ D₂`: `D₁`, `D₂` whole well-formed records; `R` = everything the request wrote = the part of its reply
buffer `out0` (whole records, C04) that is no longer in the buffer; and as long as `R` is neither empty nor all of `out0`
the request holds the mutex and `R` is the END of what was completed — the replies go out in one holding, possibly over
many polls, and no writer's byte falls inside them. -/
theorem replies_one_holding (s : Sys) (ops : List Op) (h0 : StartOK s)
    (hwb : WellBehaved (fun _ => none) s ops) :
    ∃ D1 R D2, (completed s ops).flatMap Entry.bytes = D1 ++ R ++ D2 ∧ Whole D1 ∧ Whole D2 ∧
      R ++ (run s ops).req.sp.output = s.req.sp.output ∧
      (R ≠ [] → (run s ops).req.sp.output ≠ [] → (run s ops).mutex = some 0 ∧ D2 = []) := by
  have hL : LogInv (fun _ => none) s s.t.wlog [] :=
    ⟨h0.own, by simp, fun i w hw _ => h0.idle i w hw, fun i w buf _ hg => (by cases hg), fun _ => rfl⟩
  have hrec : ∀ i rt id pl, Entry.record i rt id pl ∈ completed s ops → pl.length ≤ 65535 := by
    intro i rt id pl hm
    obtain ⟨buf, w, -, -, -, -, -, -, hlen⟩ := completed_records ops _ s _ _ hL hwb i rt id pl hm
    rw [hlen]; omega
  have := rq_run s.req.sp.output ops _ s _ _ [] hL hwb hrec
    ⟨[], [], [], rfl, Whole.nil, Whole.nil, rfl, fun h => absurd rfl h⟩
  simpa using this

/-- **Log level, counting reply holdings.**  Whenever the request does not hold the mutex, everything completed so far —
stream records and reply chunks together — is a concatenation of complete, well-formed records. -/
theorem completed_whole (s : Sys) (ops : List Op) (h0 : StartOK s)
    (hwb : WellBehaved (fun _ => none) s ops) (hm : (run s ops).mutex ≠ some 0) :
    Whole ((completed s ops).flatMap Entry.bytes) := by
  obtain ⟨D1, R, D2, hB, w1, w2, hR, hcl⟩ := replies_one_holding s ops h0 hwb
  rw [hB]
  by_cases hRe : R = []
  · rw [hRe, List.append_nil]; exact w1.append w2
  · by_cases hon : (run s ops).req.sp.output = []
    · rw [hon, List.append_nil] at hR
      rw [hR]; exact (w1.append h0.out).append w2
    · exact absurd (hcl hRe hon).1 hm

/-- … so when the mutex is free the byte log is the initial log followed by complete, well-formed records. -/
theorem log_whole_when_free (s : Sys) (ops : List Op) (h0 : StartOK s)
    (hwb : WellBehaved (fun _ => none) s ops) (hfree : (run s ops).mutex = none) :
    ∃ W, (run s ops).t.wlog = s.t.wlog ++ W ∧ Whole W :=
  ⟨_, complete_when_free s ops h0.own h0.idle hwb hfree,
    completed_whole s ops h0 hwb (by rw [hfree]; exact fun h => by cases h)⟩

/-- While the request holds the mutex the log ends in the part `R` of its replies written so far (a prefix of the whole
records `out0`), preceded by whole records only. -/
theorem log_during_holding (s : Sys) (ops : List Op) (h0 : StartOK s)
    (hwb : WellBehaved (fun _ => none) s ops) (hm : (run s ops).mutex = some 0)
    (hon : (run s ops).req.sp.output ≠ []) :
    ∃ D R, (run s ops).t.wlog = s.t.wlog ++ D ++ R ∧ Whole D ∧
      R ++ (run s ops).req.sp.output = s.req.sp.output := by
  obtain ⟨cur, hlog, hc⟩ := no_interleave s ops h0.own h0.idle hwb
  have hcur : cur = [] := by
    rcases hc with hc | ⟨i, _, _, hmi, _⟩
    · exact hc
    · rw [hm] at hmi; cases hmi
  obtain ⟨D1, R, D2, hB, w1, w2, hR, hcl⟩ := replies_one_holding s ops h0 hwb
  rw [hcur, List.append_nil, hB] at hlog
  by_cases hRe : R = []
  · subst hRe
    exact ⟨D1 ++ D2, [], by rw [hlog]; simp, w1.append w2, hR⟩
  · obtain ⟨-, hD2⟩ := hcl hRe hon
    subst hD2
    exact ⟨D1, R, by rw [hlog]; simp, w1, hR⟩

end Fcgi.C10R
