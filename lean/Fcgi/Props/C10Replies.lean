import Fcgi.Props.C10Clone2
import Fcgi.Proofs.C12Wf
import Fcgi.Props.C03Str
/-!
# C10 — the request's own replies are WHOLE records, and no writer's bytes fall inside them

`Props/C10.lean` treats what `Request::poll_output` writes as opaque chunks: every `opoll` of the system model `Sys`
completes an entry `Entry.reply bs`, `bs` = the bytes that ONE poll wrote.  One poll may write only a PART of the
parser's reply buffer (partial write, then `Pending`), so a single `reply` entry is in general not a sequence of whole
records.  What is whole is what the request writes during one HOLDING of the mutex.  Here that is composed:

* C04 side (`Proofs/C12Wf.lean`, re-exported): the stream parser's reply buffer only ever grows by whole, well-formed
  records (`strParse_out`: UnknownType, EndRequest(CantMpxConn), GetValuesResult; needs `maxConns < 2^64`, the Rust
  type is `usize`).  `grown_whole`: along ANY history of parser operations all replies generated form a `Whole` byte
  string; `parser_output_ledger_whole`: `sent ++ buffer` is `Whole` if the buffer was at the start; so the buffer is
  `Whole` whenever what was sent so far is (`parser_output_whole`) — in particular as long as nothing was consumed.
* mutex side (`pollOutput_keeps`): a `poll_output` that does not return `Ready` does not give the mutex up.
* **composition** (`replies_one_holding`): in `Sys` (any number of writers, the request's `poll_output`, any poll order,
  any write splitting, well-behaved callers), started with a `Whole` reply buffer `out0`:
  the completed entries, concatenated, are `D₁ ++ R ++ D₂` with `D₁`, `D₂` whole records (of the writers), and `R` the
  bytes the request has written, `R ++ (what is left in the buffer) = out0`; and while `R` is a proper, non-empty part
  of `out0` the request HOLDS the mutex and nothing follows `R` (`D₂ = []`): no writer's byte falls inside the
  replies, which are written over as many polls as the transport needs, in ONE holding.
* **log level** (`completed_whole`, `log_whole_when_free`): whenever the request does not hold the mutex, the completed
  entries (records AND reply chunks) concatenate to whole well-formed records; when the mutex is free the log itself is
  the initial log followed by whole well-formed records.  (`log_during_holding`: while the request holds the mutex the
  log is `… ++ D₁ ++ R`, `R` a prefix of `out0`.)

Non-vacuity: `Example` (a 16-byte reply written as 5 + 11 bytes with a writer waiting on the mutex; the same with a
clone taken mid-holding; the parser side on three queued replies).  The scenario is replayed on the crate through
`poll_input` (which calls `poll_output`): `/verif/.run/replay-c10-replies.ops`, model = crate.

Scope: the fixed-writer system `Sys` of `Props/C10.lean`, and (§4, `…2`) the variant `Sys2` with clones and drops at any
moment.  In `Sys` the parser is not fed, so the reply buffer never grows during a run; the parser-side
lemmas say what happens between runs.
-/
namespace Fcgi.C10R
open Fcgi Fcgi.Async Fcgi.C10
open Fcgi.C12Inv (Whole AllWF whole_recordOf strParse_out OutW)

/-! ## 1. C04 side: the reply buffer consists of whole records -/

open Fcgi.Str in
theorem outGrowth_whole (p : Str.Parser) (op : Str.Op) (hmc : p.maxConns < 2 ^ 64) :
    Whole (C03S.outGrowth p op) ∧ (applyOp p op).maxConns = p.maxConns := by
  cases op with
  | parse new dest =>
    obtain ⟨⟨o, ho, hw⟩, hm⟩ := strParse_out p new dest hmc
    refine ⟨?_, hm⟩
    simp only [C03S.outGrowth, ho, List.drop_left]
    exact hw
  | consumeStream amt => exact ⟨Whole.nil, rfl⟩
  | compress => exact ⟨Whole.nil, rfl⟩
  | consumeOutput amt => exact ⟨Whole.nil, rfl⟩
  | setStream s =>
    refine ⟨Whole.nil, ?_⟩
    simp only [applyOp]
    cases hs : p.setStream s with
    | ok p' =>
      rcases setStream_ok_cases hs with ⟨-, rfl⟩ | ⟨-, rfl, -⟩
      · rfl
      · rfl
    | rejected => rfl
    | panic s => rfl

open Fcgi.Str in
/-- **All replies the stream parser generates along any history of operations form whole, well-formed records.** -/
theorem grown_whole (ops : List Str.Op) : ∀ (p : Str.Parser), p.maxConns < 2 ^ 64 → Whole (C03S.grownAll p ops) := by
  induction ops with
  | nil => intro p _; exact Whole.nil
  | cons op t ih =>
    intro p hmc
    obtain ⟨hw, hm⟩ := outGrowth_whole p op hmc
    exact hw.append (ih _ (by rw [hm]; exact hmc))

open Fcgi.Str in
/-- what was handed to the transport so far, followed by what is still queued, is whole -/
theorem parser_output_ledger_whole (p : Str.Parser) (ops : List Str.Op) (hmc : p.maxConns < 2 ^ 64)
    (h0 : Whole p.output) : Whole (C03S.sentAll p ops ++ (applyOps p ops).output) := by
  rw [C03S.output_ledger]
  exact h0.append (grown_whole ops p hmc)

open Fcgi.Str in
/-- **`OutWF`**: the reply buffer is whole as long as nothing of it was consumed (the state in which the request
acquires the mutex for the first time); in general it is whole whenever what was consumed so far is
(`parser_output_ledger_whole`: `consume_output` may stop inside a record — that is the partial write). -/
theorem parser_output_whole (p : Str.Parser) (ops : List Str.Op) (hmc : p.maxConns < 2 ^ 64)
    (h0 : Whole p.output) (hns : C03S.sentAll p ops = []) : Whole (applyOps p ops).output := by
  have := parser_output_ledger_whole p ops hmc h0
  rwa [hns, List.nil_append] at this

/-! ## 2. Mutex side -/

/-- **The request keeps the mutex until its buffer is empty**: a `poll_output` leaves the mutex as it was, or leaves
it with the request, unless it returns `Ready`. -/
theorem pollOutput_keeps (r : AReq) (m : MutexSt) (t : Transport) (hc : Consistent 0 r.lock m)
    {r' : AReq} {m' : MutexSt} {t' : Transport} {o : ORes}
    (h : r.pollOutput m t = (r', m', t', o)) : m' = m ∨ m' = some 0 ∨ o = .ready := by
  by_cases hne : r.sp.output = []
  · have he : r.sp.output.isEmpty = true := by simp [hne]
    unfold AReq.pollOutput at h
    simp only [he, if_true] at h
    split at h <;> cases h <;> exact Or.inl rfl
  · rw [pollOutput_nonempty r m t hne] at h
    have hc0 : Consistent 0 (lock0 r.lock) m := by
      unfold Consistent lock0 at *
      cases hl : r.lock <;> simp_all
    obtain ⟨-, hgot, hnot⟩ := lockPoll_spec _ m 0 hc0
    generalize lock0 r.lock = l0 at *
    split at h
    · rename_i hg
      obtain ⟨-, h2, -, -⟩ := hnot hg
      cases h
      exact Or.inl h2
    · rename_i hg
      have hg' : (lockPoll l0 m 0).2.2 = true := by simpa using hg
      obtain ⟨-, h2, -⟩ := hgot hg'
      rcases hl' : outLoop (r.sp.output.length + 1) r.sp t with ⟨sp3, t3, o3⟩
      rw [hl'] at h
      cases o3 with
      | ready => cases h; exact Or.inr (Or.inr rfl)
      | pending => cases h; exact Or.inr (Or.inl h2)
      | err e => cases h; exact Or.inr (Or.inl h2)
      | panic s => cases h; exact Or.inr (Or.inl h2)

/-! ## 3. The composition in the system model -/

/-- Where the request's reply bytes sit among the completed entries (`B` = all completed entries concatenated). -/
def RQ (out0 : Bytes) (s : Sys) (B : Bytes) : Prop :=
  ∃ D1 R D2, B = D1 ++ R ++ D2 ∧ Whole D1 ∧ Whole D2 ∧ R ++ s.req.sp.output = out0 ∧
    (R ≠ [] → s.req.sp.output ≠ [] → s.mutex = some 0 ∧ D2 = [])

/-- a poll of a writer leaves the request alone -/
theorem step_req_writer (s : Sys) {op : Op} (h : op ≠ .opoll) : (step s op).req = s.req := by
  cases op with
  | wpoll i buf => simp only [step]; split <;> rfl
  | fpoll i => simp only [step]; split <;> rfl
  | opoll => exact absurd rfl h

/-- what a poll of a writer completes: nothing, or one record -/
theorem emitted_writer (s : Sys) {op : Op} (h : op ≠ .opoll) :
    emitted s op = [] ∨ ∃ i rt id pl, emitted s op = [.record i rt id pl] := by
  cases op with
  | wpoll i buf =>
    simp only [emitted]
    split
    · exact Or.inl rfl
    · split
      · exact Or.inr ⟨_, _, _, _, rfl⟩
      · exact Or.inl rfl
  | fpoll i => exact Or.inl rfl
  | opoll => exact absurd rfl h

theorem append_cancel_mid {a b c d : Bytes} (h : a ++ b = a ++ c ++ d) : b = c ++ d := by
  rw [List.append_assoc] at h; exact List.append_cancel_left h

/-- **One poll.** -/
theorem rq_step {g : Ghost} {s : Sys} {done cur out0 B : Bytes} (hL : LogInv g s done cur) {op : Op}
    (hok : OpOK g s op) (hq : RQ out0 s B)
    (hrec : ∀ i rt id pl, Entry.record i rt id pl ∈ emitted s op → pl.length ≤ 65535) :
    RQ out0 (step s op) (B ++ (emitted s op).flatMap Entry.bytes) := by
  obtain ⟨D1, R, D2, hB, w1, w2, hR, hcl⟩ := hq
  obtain ⟨cur', hL'⟩ := logInv_step hL op hok
  have f := stepFacts s op hL.own
  -- `E ++ cur' = cur ++ delta`
  have hbal : (emitted s op).flatMap Entry.bytes ++ cur' = cur ++ delta s op := by
    have h1 := hL'.log
    rw [f.log, hL.log, List.append_assoc, List.append_assoc] at h1
    exact (List.append_cancel_left h1).symm
  by_cases hop : op = .opoll
  · subst hop
    have hE : (emitted s .opoll).flatMap Entry.bytes = delta s .opoll := by simp [emitted, Entry.bytes]
    rw [hE]
    have hpre := reply_is_output_prefix s hL.own
    rcases hp : s.req.pollOutput s.mutex s.t with ⟨r', m', t', o⟩
    have hs : step s .opoll = { s with req := r', mutex := m', t := t' } := by simp [step, hp]
    obtain ⟨⟨-, -, d1, hd1, hwr⟩, d2, hd2, -, hrdy, -⟩ := pollOutput_own s.req s.mutex s.t hL.own.req hp
    have hkeep := pollOutput_keeps s.req s.mutex s.t hL.own.req hp
    have e1 : delta s .opoll = d1 := delta_of (by rw [hs]; exact hd1)
    rw [← e1] at hwr
    have hreq' : (step s .opoll).req = r' := by rw [hs]
    have hmut' : (step s .opoll).mutex = m' := by rw [hs]
    rw [hreq'] at hpre
    by_cases hd : delta s .opoll = []
    · -- nothing written by this poll
      rw [hd, List.append_nil]
      rw [hd, List.nil_append] at hpre
      refine ⟨D1, R, D2, hB, w1, w2, by rw [hreq', ← hpre]; exact hR, ?_⟩
      intro hRn hon
      rw [hreq', ← hpre] at hon
      obtain ⟨hm0, hD2⟩ := hcl hRn hon
      refine ⟨?_, hD2⟩
      rw [hmut']
      rcases hkeep with h | h | h
      · rw [h]; exact hm0
      · exact h
      · exact absurd (by rw [hpre]; exact (hrdy h).1) hon
    · -- this poll wrote `delta ≠ []`
      obtain ⟨-, hm'⟩ := hwr hd
      have hon : s.req.sp.output ≠ [] := by
        intro h0; rw [h0] at hpre
        exact hd (List.append_eq_nil_iff.1 hpre.symm).1
      have hcl' : ∀ R' : Bytes, R' ≠ [] → (step s .opoll).req.sp.output ≠ [] →
          (step s .opoll).mutex = some 0 ∧ ([] : Bytes) = [] := by
        intro R' _ ho'
        rw [hreq'] at ho'
        rw [hmut']
        rcases hm' with h | ⟨-, h⟩
        · exact ⟨h, rfl⟩
        · exact absurd (hrdy h).1 ho'
      by_cases hRe : R = []
      · subst hRe
        refine ⟨D1 ++ D2, delta s .opoll, [], by rw [hB]; simp, w1.append w2, Whole.nil, ?_, hcl' _⟩
        rw [hreq', ← hpre]; simpa using hR
      · obtain ⟨-, hD2⟩ := hcl hRe hon
        subst hD2
        refine ⟨D1, R ++ delta s .opoll, [], by rw [hB]; simp, w1, Whole.nil, ?_, hcl' _⟩
        rw [hreq', List.append_assoc, ← hpre]; exact hR
  · -- a poll of writer `i` (owner id `i + 1`)
    have hreq := step_req_writer s hop
    have hown : op.owner ≠ 0 := by cases op <;> simp [Op.owner] at * <;> exact absurd rfl hop
    by_cases hlk : R ≠ [] ∧ s.req.sp.output ≠ []
    · -- the request is in the middle of its replies: the writer can do nothing
      obtain ⟨hm0, hD2⟩ := hcl hlk.1 hlk.2
      have hcur : cur = [] := hL.quiet (fun i buf hmi _ => by rw [hm0] at hmi; cases hmi)
      have hdel : delta s op = [] := by
        apply Classical.byContradiction
        intro hne
        rcases (f.writes hne).1 with h | h
        · rw [hm0] at h; cases h
        · rw [hm0] at h; exact hown (Option.some.inj h).symm
      rw [hcur, hdel] at hbal
      have hE : (emitted s op).flatMap Entry.bytes = [] := (List.append_eq_nil_iff.1 hbal).1
      rw [hE, List.append_nil]
      refine ⟨D1, R, D2, hB, w1, w2, by rw [hreq]; exact hR, fun _ _ => ⟨?_, hD2⟩⟩
      rcases f.mutex with h | ⟨h, -⟩
      · rw [h]; exact hm0
      · rw [hm0] at h
        rcases h with h | h
        · cases h
        · exact absurd (Option.some.inj h).symm hown
    · -- the request is not in the middle of its replies: the record (if any) goes behind
      have hW : Whole ((emitted s op).flatMap Entry.bytes) := by
        rcases emitted_writer s hop with h | ⟨i, rt, id, pl, h⟩
        · rw [h]; exact Whole.nil
        · rw [h]
          simp only [List.flatMap_cons, List.flatMap_nil, List.append_nil, Entry.bytes]
          exact whole_recordOf rt id pl (hrec i rt id pl (by rw [h]; exact List.mem_singleton.2 rfl))
      refine ⟨D1, R, D2 ++ (emitted s op).flatMap Entry.bytes, by rw [hB]; simp, w1, w2.append hW,
        by rw [hreq]; exact hR, ?_⟩
      intro hRn hon
      rw [hreq] at hon
      exact absurd ⟨hRn, hon⟩ hlk

/-- **Any schedule.** -/
theorem rq_run (out0 : Bytes) (ops : List Op) : ∀ (g : Ghost) (s : Sys) (done cur B : Bytes),
    LogInv g s done cur → WellBehaved g s ops →
    (∀ i rt id pl, Entry.record i rt id pl ∈ completed s ops → pl.length ≤ 65535) →
    RQ out0 s B → RQ out0 (run s ops) (B ++ (completed s ops).flatMap Entry.bytes) := by
  induction ops with
  | nil => intro g s done cur B _ _ _ hq; simpa [completed, run] using hq
  | cons op ops ih =>
    intro g s done cur B hL hwb hrec hq
    obtain ⟨hok, hrest⟩ := hwb
    obtain ⟨cur1, hL1⟩ := logInv_step hL op hok
    have h1 := rq_step hL hok hq (fun i rt id pl hm => hrec i rt id pl (by
      simp only [completed, List.mem_append]; exact Or.inl hm))
    have h2 := ih _ _ _ _ _ hL1 hrest (fun i rt id pl hm => hrec i rt id pl (by
      simp only [completed, List.mem_append]; exact Or.inr hm)) h1
    simpa [completed, run, List.flatMap_append, List.append_assoc] using h2

/-- the hypotheses of `C10.no_interleave`, plus: the request's reply buffer holds whole records at the start -/
structure StartOK (s : Sys) : Prop where
  own : OwnInv s
  idle : ∀ (i : Nat) (w : Writer), s.writers[i]? = some w → w.isWriting = false
  out : Whole s.req.sp.output

/-- **The request's replies, one holding of the mutex.**  Any number of writers, the request's `poll_output`, polled in
any order by well-behaved callers, the transport splitting and delaying writes at will.  Then the completed entries
(complete stream records of the writers, and the chunks written by the `poll_output`s) concatenate to
`D₁ ++ R ++ D₂`: `D₁`, `D₂` whole well-formed records; `R` = everything the request wrote = the part of its reply
buffer `out0` (whole records, C04) that is no longer in the buffer; and as long as `R` is neither empty nor all of `out0`
the request holds the mutex and `R` is the END of what was completed — the replies go out in one holding, possibly over
many polls, and no writer's byte falls inside them. -/
theorem replies_one_holding (s : Sys) (ops : List Op) (h0 : StartOK s)
    (hwb : WellBehaved (fun _ => none) s ops) :
    ∃ D1 R D2, (completed s ops).flatMap Entry.bytes = D1 ++ R ++ D2 ∧ Whole D1 ∧ Whole D2 ∧
      R ++ (run s ops).req.sp.output = s.req.sp.output ∧
      (R ≠ [] → (run s ops).req.sp.output ≠ [] → (run s ops).mutex = some 0 ∧ D2 = []) := by
  have hL : LogInv (fun _ => none) s s.t.wlog [] :=
    ⟨h0.own, by simp, fun i w hw _ => h0.idle i w hw, fun i w buf _ hg => (by cases hg), fun _ => rfl⟩
  have hrec : ∀ i rt id pl, Entry.record i rt id pl ∈ completed s ops → pl.length ≤ 65535 := by
    intro i rt id pl hm
    obtain ⟨buf, w, -, -, -, -, -, -, hlen⟩ := completed_records ops _ s _ _ hL hwb i rt id pl hm
    rw [hlen]; omega
  have := rq_run s.req.sp.output ops _ s _ _ [] hL hwb hrec
    ⟨[], [], [], rfl, Whole.nil, Whole.nil, rfl, fun h => absurd rfl h⟩
  rw [List.nil_append] at this
  exact this

/-- **Log level, counting reply holdings.**  Whenever the request does not hold the mutex, everything completed so far —
stream records and reply chunks together — is a concatenation of complete, well-formed records. -/
theorem completed_whole (s : Sys) (ops : List Op) (h0 : StartOK s)
    (hwb : WellBehaved (fun _ => none) s ops) (hm : (run s ops).mutex ≠ some 0) :
    Whole ((completed s ops).flatMap Entry.bytes) := by
  obtain ⟨D1, R, D2, hB, w1, w2, hR, hcl⟩ := replies_one_holding s ops h0 hwb
  rw [hB]
  by_cases hRe : R = []
  · rw [hRe, List.append_nil]; exact w1.append w2
  · by_cases hon : (run s ops).req.sp.output = []
    · rw [hon, List.append_nil] at hR
      rw [hR]; exact (w1.append h0.out).append w2
    · exact absurd (hcl hRe hon).1 hm

/-- … so when the mutex is free the byte log is the initial log followed by complete, well-formed records. -/
theorem log_whole_when_free (s : Sys) (ops : List Op) (h0 : StartOK s)
    (hwb : WellBehaved (fun _ => none) s ops) (hfree : (run s ops).mutex = none) :
    ∃ W, (run s ops).t.wlog = s.t.wlog ++ W ∧ Whole W :=
  ⟨_, complete_when_free s ops h0.own h0.idle hwb hfree,
    completed_whole s ops h0 hwb (by rw [hfree]; exact fun h => by cases h)⟩

/-- While the request holds the mutex the log ends in the part `R` of its replies written so far (a prefix of the whole
records `out0`), preceded by whole records only. -/
theorem log_during_holding (s : Sys) (ops : List Op) (h0 : StartOK s)
    (hwb : WellBehaved (fun _ => none) s ops) (hm : (run s ops).mutex = some 0)
    (hon : (run s ops).req.sp.output ≠ []) :
    ∃ D R, (run s ops).t.wlog = s.t.wlog ++ D ++ R ∧ Whole D ∧
      R ++ (run s ops).req.sp.output = s.req.sp.output := by
  obtain ⟨cur, hlog, hc⟩ := no_interleave s ops h0.own h0.idle hwb
  have hcur : cur = [] := by
    rcases hc with hc | ⟨i, _, _, hmi, _⟩
    · exact hc
    · rw [hm] at hmi; cases hmi
  obtain ⟨D1, R, D2, hB, w1, w2, hR, hcl⟩ := replies_one_holding s ops h0 hwb
  rw [hcur, List.append_nil, hB] at hlog
  by_cases hRe : R = []
  · subst hRe
    exact ⟨D1 ++ D2, [], by rw [hlog]; simp, w1.append w2, hR⟩
  · obtain ⟨-, hD2⟩ := hcl hRe hon
    subst hD2
    exact ⟨D1, R, by rw [hlog]; simp, w1, hR⟩

/-! ## 4. The same with clones and drops at any moment (`Sys2`) -/

theorem rq_step2 {g : Ghost} {s : Sys2} {done cur out0 B : Bytes} (hL : LogInv g s.sys done cur) {op : Op2}
    (hok : OpOK2 g s op) (hq : RQ out0 s.sys B)
    (hrec : ∀ i rt id pl, Entry.record i rt id pl ∈ emitted2 s op → pl.length ≤ 65535) :
    RQ out0 (step2 s op).sys (B ++ (emitted2 s op).flatMap Entry.bytes) := by
  unfold OpOK2 at hok
  unfold emitted2 at hrec
  unfold step2 emitted2
  by_cases hb : op.blocked s = true
  · simp only [hb, if_true]
    simpa using hq
  · simp only [hb, if_false, Bool.false_eq_true] at hok hrec ⊢
    cases op with
    | old o => exact rq_step hL hok hq hrec
    | clone i =>
      simp only
      cases hw : s.sys.writers[i]? with
      | none => simpa using hq
      | some w => simpa [RQ] using hq
    | drop i =>
      simp only
      cases hw : s.sys.writers[i]? with
      | none => simpa using hq
      | some w =>
        obtain ⟨D1, R, D2, hB, w1, w2, hR, hcl⟩ := hq
        refine ⟨D1, R, D2, by simpa using hB, w1, w2, hR, fun hRn hon => ?_⟩
        obtain ⟨hm0, hD2⟩ := hcl hRn hon
        refine ⟨?_, hD2⟩
        show lockDrop w.lock s.sys.mutex = some 0
        have hc := hL.own.writers i w hw
        unfold Consistent at hc
        cases hl : w.lock with
        | held => rw [hm0] at hc; have := hc.1 hl; cases this
        | none => rw [hm0]; rfl
        | polling => rw [hm0]; rfl

theorem rq_run2 (out0 : Bytes) (ops : List Op2) : ∀ (g : Ghost) (s : Sys2) (done cur B : Bytes),
    LogInv g s.sys done cur → WellBehaved2 g s ops →
    (∀ i rt id pl, Entry.record i rt id pl ∈ completed2 s ops → pl.length ≤ 65535) →
    RQ out0 s.sys B → RQ out0 (run2 s ops).sys (B ++ (completed2 s ops).flatMap Entry.bytes) := by
  induction ops with
  | nil => intro g s done cur B _ _ _ hq; simpa [completed2, run2] using hq
  | cons op ops ih =>
    intro g s done cur B hL hwb hrec hq
    obtain ⟨hok, hrest⟩ := hwb
    obtain ⟨cur1, hL1⟩ := logInv_step2 hL op hok
    have h1 := rq_step2 hL hok hq (fun i rt id pl hm => hrec i rt id pl (by
      simp only [completed2, List.mem_append]; exact Or.inl hm))
    have h2 := ih _ _ _ _ _ hL1 hrest (fun i rt id pl hm => hrec i rt id pl (by
      simp only [completed2, List.mem_append]; exact Or.inr hm)) h1
    simpa [completed2, run2, List.flatMap_append, List.append_assoc] using h2

/-- `replies_one_holding` with clones taken and writers dropped at any moment. -/
theorem replies_one_holding2 (s : Sys2) (ops : List Op2) (h0 : StartOK s.sys)
    (hwb : WellBehaved2 (fun _ => none) s ops) :
    ∃ D1 R D2, (completed2 s ops).flatMap Entry.bytes = D1 ++ R ++ D2 ∧ Whole D1 ∧ Whole D2 ∧
      R ++ (run2 s ops).sys.req.sp.output = s.sys.req.sp.output ∧
      (R ≠ [] → (run2 s ops).sys.req.sp.output ≠ [] → (run2 s ops).sys.mutex = some 0 ∧ D2 = []) := by
  have hL : LogInv (fun _ => none) s.sys s.sys.t.wlog [] :=
    ⟨h0.own, by simp, fun i w hw _ => h0.idle i w hw, fun i w buf _ hg => (by cases hg), fun _ => rfl⟩
  have hrec : ∀ i rt id pl, Entry.record i rt id pl ∈ completed2 s ops → pl.length ≤ 65535 := by
    intro i rt id pl hm
    obtain ⟨buf, w, -, -, -, -, -, -, hlen⟩ := completed_records2 ops _ s _ _ hL hwb i rt id pl hm
    rw [hlen]; omega
  have := rq_run2 s.sys.req.sp.output ops _ s _ _ [] hL hwb hrec
    ⟨[], [], [], rfl, Whole.nil, Whole.nil, rfl, fun h => absurd rfl h⟩
  rw [List.nil_append] at this
  exact this

theorem completed_whole2 (s : Sys2) (ops : List Op2) (h0 : StartOK s.sys)
    (hwb : WellBehaved2 (fun _ => none) s ops) (hm : (run2 s ops).sys.mutex ≠ some 0) :
    Whole ((completed2 s ops).flatMap Entry.bytes) := by
  obtain ⟨D1, R, D2, hB, w1, w2, hR, hcl⟩ := replies_one_holding2 s ops h0 hwb
  rw [hB]
  by_cases hRe : R = []
  · rw [hRe, List.append_nil]; exact w1.append w2
  · by_cases hon : (run2 s ops).sys.req.sp.output = []
    · rw [hon, List.append_nil] at hR
      rw [hR]; exact (w1.append h0.out).append w2
    · exact absurd (hcl hRe hon).1 hm

/-- With clones and drops: when the mutex is free the byte log is the initial log followed by complete, well-formed
records — stream records of originals and clones, and the request's replies. -/
theorem log_whole_when_free2 (s : Sys2) (ops : List Op2) (h0 : StartOK s.sys)
    (hwb : WellBehaved2 (fun _ => none) s ops) (hfree : (run2 s ops).sys.mutex = none) :
    ∃ W, (run2 s ops).sys.t.wlog = s.sys.t.wlog ++ W ∧ Whole W :=
  ⟨_, complete_when_free2 s ops h0.own h0.idle hwb hfree,
    completed_whole2 s ops h0 hwb (by rw [hfree]; exact fun h => by cases h)⟩

/-! ## Non-vacuity: a reply written in two partial writes, a writer waiting on the mutex meanwhile -/
namespace Example
open Fcgi.C12Inv (whole_unknown)

/-- decidable `WellBehaved` for concrete schedules -/
def wbb : Ghost → Sys → List Op → Bool
  | _, _, [] => true
  | g, s, op :: ops => opOKb g s op && wbb (gstep g s op) (step s op) ops

theorem wbb_sound : ∀ (ops : List Op) (g : Ghost) (s : Sys), wbb g s ops = true → WellBehaved g s ops := by
  intro ops
  induction ops with
  | nil => intro g s _; trivial
  | cons op ops ih =>
    intro g s h
    simp only [wbb, Bool.and_eq_true] at h
    exact ⟨opOKb_sound h.1, ih _ _ h.2⟩

/-- One Stdout writer of request 7.  The request's parser has one reply queued: `UnknownType(99)` for id 0 (16 bytes).
The transport accepts 5 bytes, answers `Pending`, then accepts 11 bytes, then everything. -/
def xSys : Sys :=
  { writers := [{ rtype := RT.stdout, id := 7 }],
    req := { sp := { Str.Parser.fromParser 64 { id := 7, role := 1, flags := 0, env := [] } [] 10 with
                     output := UnknownType.toRecord 99 0 },
             writeable := true },
    mutex := none,
    t := { input := [], endMode := .pend, rd := [], wr := [.n 5, .pending, .n 11], fl := [] } }

/-- `poll_output` (takes the mutex, 5 bytes out, `Pending`); the writer's `poll_write("AB")` has to wait; `poll_output`
again (the other 11 bytes, `Ready`, mutex released); the writer's `poll_write("AB")` again (its record) -/
def xOps : List Op := [.opoll, .wpoll 0 [0x41, 0x42], .opoll, .wpoll 0 [0x41, 0x42]]

theorem xStart : StartOK xSys := by
  refine ⟨⟨fun i w hi => ?_, by unfold Consistent; decide, fun j hj => by cases hj⟩, fun i w hi => ?_,
    whole_unknown 99 0⟩
  · match i, hi with
    | 0, hi => cases hi; unfold Consistent; decide
    | n + 1, hi => simp [xSys] at hi
  · match i, hi with
    | 0, hi => cases hi; rfl
    | n + 1, hi => simp [xSys] at hi

theorem xWB : WellBehaved (fun _ => none) xSys xOps := wbb_sound _ _ _ (by decide)

/-- after the first two polls: 5 of the 16 reply bytes are on the wire, the request holds the mutex, the writer waits
(lock future `Polling`, nothing written) -/
theorem x_mid :
    (run xSys (xOps.take 2)).t.wlog = [1, 11, 0, 0, 0] ∧ (run xSys (xOps.take 2)).mutex = some 0 ∧
    ((run xSys (xOps.take 2)).writers[0]?.map (·.lock)) = some .polling ∧
    (run xSys (xOps.take 2)).req.sp.output.length = 11 := by decide

/-- the two reply chunks are separate entries: 5 bytes, then 11 bytes — neither is a whole record … -/
theorem x_entries : (completed xSys xOps).map Entry.bytes =
    [[1, 11, 0, 0, 0], [8, 0, 0, 99, 0, 0, 0, 0, 0, 0, 0], recordOf 6 7 [0x41, 0x42]] := by decide

/-- … but the holding is: `replies_one_holding` / `log_whole_when_free` applied — the log is the whole reply record
followed by the writer's whole record -/
theorem x_log : ∃ W, (run xSys xOps).t.wlog = xSys.t.wlog ++ W ∧ Whole W :=
  log_whole_when_free xSys xOps xStart xWB (by decide)

theorem x_log_bytes : (run xSys xOps).t.wlog = UnknownType.toRecord 99 0 ++ recordOf 6 7 [0x41, 0x42] := by decide

/-- in the middle of the holding: `log_during_holding` applied -/
theorem x_holding : ∃ D R, (run xSys (xOps.take 2)).t.wlog = xSys.t.wlog ++ D ++ R ∧ Whole D ∧
    R ++ (run xSys (xOps.take 2)).req.sp.output = xSys.req.sp.output :=
  log_during_holding xSys (xOps.take 2) xStart (wbb_sound _ _ _ (by decide)) (by decide) (by decide)

/-- The same with a clone taken WHILE the request is in the middle of its replies: the clone's write waits, the source
is dropped at the end. -/
def x2 : Sys2 := ⟨xSys, []⟩
def xOps2 : List Op2 :=
  [.old .opoll, .clone 0, .old (.wpoll 1 [0x58, 0x59]), .old .opoll, .old (.wpoll 1 [0x58, 0x59]), .drop 0]

theorem x2_log : ∃ W, (run2 x2 xOps2).sys.t.wlog = x2.sys.t.wlog ++ W ∧ Whole W :=
  log_whole_when_free2 x2 xOps2 xStart (wellBehaved2b_sound _ _ _ (by decide)) (by decide)

theorem x2_log_bytes : (run2 x2 xOps2).sys.t.wlog = UnknownType.toRecord 99 0 ++ recordOf 6 7 [0x58, 0x59] ∧
    (run2 x2 (xOps2.take 3)).sys.mutex = some 0 ∧ (run2 x2 (xOps2.take 3)).sys.t.wlog = [1, 11, 0, 0, 0] := by
  decide

/-! ### The parser side on an instance -/

/-- a Responder's stream parser is fed, in two chunks, a `GetValues(FCGI_MAX_CONNS)` record, an unknown type 99 and a
`BeginRequest` of a foreign id: three replies are queued -/
def pOps : List Str.Op :=
  [.parse [1, 9, 0, 0, 0, 16, 0, 0, 14, 0, 70, 67, 71, 73, 95, 77, 65, 88, 95, 67] none,
   .parse [79, 78, 78, 83, 1, 99, 0, 0, 0, 0, 0, 0, 1, 1, 0, 5, 0, 8, 0, 0, 0, 1, 0, 0, 0, 0, 0, 0] (some 4),
   .compress]
def pP : Str.Parser := Str.Parser.fromParser 128 { id := 1, role := 1, flags := 0, env := [] } [] 10

/-- `parser_output_whole` applied: the 64 queued bytes are whole well-formed records (`OutWF` at acquisition) -/
theorem p_whole : Whole (Str.applyOps pP pOps).output ∧ (Str.applyOps pP pOps).output.length = 64 :=
  ⟨parser_output_whole pP pOps (by decide) Whole.nil (by decide +kernel), by decide +kernel⟩

end Example

end Fcgi.C10R
