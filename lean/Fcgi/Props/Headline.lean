import Fcgi.Props.C01
import Fcgi.Props.C01Chunked
import Fcgi.Props.C02
import Fcgi.Props.C03Req
import Fcgi.Props.C03Str
import Fcgi.Props.C03Chunk
import Fcgi.Props.C03StrInv
import Fcgi.Props.C03StrSet
import Fcgi.Props.C03StrNone
import Fcgi.Props.C04
import Fcgi.Props.C04Hostile
import Fcgi.Props.C05
import Fcgi.Props.C05Chain
import Fcgi.Props.C05Chain2
import Fcgi.Props.C05Chain3
import Fcgi.Props.C05Chain4
import Fcgi.Props.C05Chain5
import Fcgi.Props.C07Unread
import Fcgi.Props.C07Unread2
import Fcgi.Props.C07Unread3
import Fcgi.Props.C07Unread4
import Fcgi.Props.C06
import Fcgi.Props.C06Suff
import Fcgi.Props.C06E2E
import Fcgi.Props.C06Unbounded
import Fcgi.Props.C07
import Fcgi.Props.C07E2E
import Fcgi.Props.C07Authorizer
import Fcgi.Props.C07BufRead
import Fcgi.Props.C07BufRead2
import Fcgi.Props.C07Unbounded
import Fcgi.Props.C07Writers
import Fcgi.Props.C07Writers2
import Fcgi.Props.C07Writers3
import Fcgi.Props.C07Writers4
import Fcgi.Props.C07ScriptFuel
import Fcgi.Props.C07Echo
import Fcgi.Props.C07NoFuel
import Fcgi.Props.C07Echo2
import Fcgi.Props.C07NoFuel2
import Fcgi.Props.C07Echo3
import Fcgi.Props.C07NoFuel3
import Fcgi.Props.C07NoFuel4
import Fcgi.Props.C07NoFuel5
import Fcgi.Props.C07NoFuel6
import Fcgi.Props.C08
import Fcgi.Props.C08Inv
import Fcgi.Props.C08Replies
import Fcgi.Props.C08Replies2
import Fcgi.Props.C08Replies3
import Fcgi.Props.C09
import Fcgi.Props.C09E2E
import Fcgi.Props.C09Gate
import Fcgi.Props.C09Gate2
import Fcgi.Props.C09Gate3
import Fcgi.Props.C10
import Fcgi.Props.C10Clone
import Fcgi.Props.C10Clone2
import Fcgi.Props.C10Replies
import Fcgi.Props.C11
import Fcgi.Props.C11E2E
import Fcgi.Props.C11Filter
import Fcgi.Props.C11Filter2
import Fcgi.Props.C11Filter3
import Fcgi.Props.C11Filter4
import Fcgi.Props.C11Filter4Chain
import Fcgi.Props.E2EUnbounded
import Fcgi.Props.C11FilterAnysize
import Fcgi.Props.C11NoFuel
import Fcgi.Props.C11Unread
import Fcgi.Props.C11NoFuel2
import Fcgi.Props.C11Abort2
import Fcgi.Props.C11Abort3
import Fcgi.Props.C12
import Fcgi.Props.C12Inv
import Fcgi.Props.C12Wf
import Fcgi.Props.C12E2E
import Fcgi.Props.C12E2E2
import Fcgi.Props.C12E2E3
import Fcgi.Props.C12E2E4
import Fcgi.Props.C12E2E5
import Fcgi.Props.C12E2E6
import Fcgi.Props.C12E2E7
import Fcgi.Props.C12E2E8
import Fcgi.Props.C12E2E9
import Fcgi.Props.C12Fuel
import Fcgi.Props.C12Unbounded
import Fcgi.Props.C12Chain
import Fcgi.Props.C12NoFuel
import Fcgi.Props.C12Chain2
import Fcgi.Props.C12Chain3
import Fcgi.Props.C12Chain4
import Fcgi.Props.C12NoFuel2
import Fcgi.Props.C12NoFuel3
import Fcgi.Props.C12Chain5
import Fcgi.Props.C12NoFuel4
import Fcgi.Props.C13
import Fcgi.Props.C13Conn
import Fcgi.Props.C14b
import Fcgi.Props.C14a
import Fcgi.Props.C14aFalse
import Fcgi.Props.NonVacuity
import Fcgi.Props.C14E2E
import Fcgi.Props.C14E2E2
import Fcgi.Props.C14E2E3
import Fcgi.Props.C14Unbounded
import Fcgi.Props.C14NoFuel
import Fcgi.Props.C15
import Fcgi.Props.C16
import Fcgi.Props.C17
import Fcgi.Props.C18
import Fcgi.Props.C18Held
import Fcgi.Props.C18None
import Fcgi.Props.C18None2
import Fcgi.Props.C19
import Fcgi.Props.C20
import Fcgi.Props.C07NoFuel7

/-!
# Headline — one checked statement per property

For each of the 20 properties `C01 … C20` (texts in `/verif/properties.jsonl`) this file gives

* a section comment quoting the property and naming, clause by clause, the registered theorem(s)
  that prove the clause, under which hypotheses, and what is NOT a theorem (carried by the
  differential run + oracle, or trusted);
* `CxxClauseN : Prop` — the STATEMENT of the strongest existing theorem for the clause, restated here
  verbatim (same binders, same namespace/`open` context as in its Props file; where the original is
  stated through a named `Prop` such as `C01_full`, that definition's body), with
  `CxxClauseN_holds : CxxClauseN := @<the theorem>`;
* `Fcgi.Headline.Cxx_headline : Cxx.Clause1 ∧ … ∧ Cxx.ClauseN`.

Revised after the adversarial audit `HEADLINE_REVIEW.md`: conjuncts whose prose claimed more than their
statement were replaced by theorems that say it (five compositions from `Props/HeadlineExtra.lean` are
reproved here, since that file imports this one) or their prose was weakened; registered theorems the
review found missing were added; the 'not proved' lists follow the review's '(3) nothing' items.

Cross-cutting scope of the end-to-end clauses (C07, C09, C11, C12, C14): `Ben t` = a transport without
error answers (arbitrary read/write splitting, transient Pendings) — faults are C12; `NoiseFits` =
management GetValues bodies whose undecodable tail fits the buffer; the CANONICAL handler families
only (named per clause); single request unless a clause says otherwise.  The end-to-end conjuncts of C06, C07, C11, C12 and C14 are the
`_unbounded` versions (`Props/C06Unbounded.lean`, `Props/C07Unbounded.lean`, `Props/E2EUnbounded.lean`,
`Props/C12Unbounded.lean`, `Props/C14Unbounded.lean`): no bound on the wire length or the buffer size; MODEL FUEL: the model's
handler fuel pays for what is left of the handler script (`Model/RunLoop.lean`, `Props/C07ScriptFuel.lean`: the fuel
guard is unreachable for every script), so no statement about the model NEEDS a fuel hypothesis any more.  `hhf` is
GONE from the core family (C07 Clauses 1–4, `Props/C07NoFuel.lean`: single request of every role, k keep-alive
requests) and from the echo Responder (C07 Clauses 21, 23, 25, 26) and the Filter gate theorems (C09 Clauses 11–17).  It is also gone from C07 Clause 6 (`C07NoFuel2`), C11 Clause 5
(`C11NoFuel`), C12 Clauses 1, 5, 9, 10 (`C12NoFuel`: Responder EOF / failure at any offset, write error, read error at
any index) and C14 Clauses 1–2 (`C14NoFuel`).  The chain bundles are `Sent.OKn` / `UReq.OKn`
(no cost field; `Props/C07NoFuel.lean`, `C07NoFuel6.lean`, `C11NoFuel2.lean`, `C12NoFuel2.lean`, `C12NoFuel3.lean`).  C12 Clauses 2, 3 lost it in
`Props/C12NoFuel4.lean`, C07 Clauses 10 and 12 (the `AsyncBufRead` handlers; it bounded the number of `fill_buf`/`consume`
rounds) in `Props/C07NoFuel7.lean`.  NO conjunct of this file has a cost hypothesis `hhf` of its own any more (Clause 10
keeps `|content| ≤ n`, a hypothesis about the script: it reads to end of stream).
`C11Clause7` is the `_anysize` table of
`Props/C11FilterAnysize.lean` (no `|Stdin wire| ≤ 31000`).

So this file type-checks only as long as the cited theorems keep stating what is written here.
Nothing new is proved.  Everything is about the Lean MODEL of the crate; that the model is the code
is the business of the differential run (`./check Cxx`, DESIGN.md §14), not of this file.
-/

-- binder names are kept as in the originals although a restated `Prop` does not use them
set_option linter.unusedVariables false


/-! # C01

**Property.**
> For every well-formed request preamble - a BeginRequest record followed by a Params stream, with any
> management or unknown-type records in between - the request parser finishes holding exactly the request
> id, role and flags that were sent and an environment equal to the last-value-wins map of the transmitted
> name-value pairs (names lossily UTF-8 decoded, ASCII-uppercased and matched case-insensitively). The
> result does not depend on how the Params payload is cut into records, how much padding each record
> carries, or how the byte stream is cut into reads, provided the buffer satisfies the documented size
> bound.

**Clause by clause.**
* “finishes holding exactly the request id, role and flags … and an environment equal to the last-value-wins
  map (names lossily decoded, uppercased, matched case-insensitively)” — Clause 3 (`C01_fields`): `req.env =
  envExtend [] p.pairs` — the MODEL's own fold; Clause 4 reads that list as a map: lookup by normalised name
  = the value of the LAST pair with that normalised name (case-insensitivity of the key comparison itself
  rests on `C19.owned_eq_iff`); Clause 2 (`C01_oneshot`): the reference run over the whole wire ends `done`
  with it and emits exactly `owedPreamble`.  Lossy UTF-8 decoding is an executed external the theorems are
  parametric in.
* “does not depend on how the Params payload is cut into records, how much padding each record carries, or
  how the byte stream is cut into reads, provided the buffer satisfies the documented size bound” — Clause 1
  (`C01_full_holds`): `WellFormedPreamble p recs` is ANY segmentation/padding/noise presentation of `p`;
  `chunks` any list of NON-EMPTY reads; the conclusion is conditional on `Spec.feed … = some` (it is `none`
  only if a chunk exceeds the free space — the caller's precondition — or `parse` panics, excluded by C03
  Clause 1); hypotheses: every pair's encoding ≤ `alignedBufsize b` (weaker than the documented bound, C06
  Clause 2) and every management GetValues body ≤ the buffer (scope).

**The conjuncts of `C01_headline`.**
1. `C01.C01_full_holds` — any segmentation, padding, noise and any legal read chunking within the buffer
   bound: the request parser ends `done` with the spec request (id, role, flags, last-value-wins environment)
   and has emitted exactly the owed replies
2. `C01.C01_oneshot` — one-shot reference run over the whole wire: final state `done` with the spec request,
   replies exactly `owedPreamble`
3. `C01.C01_fields` — the fields of the spec request: id, role, flags as sent; environment = last-value-wins
   fold of the normalised pairs
4. `HeadlineExtra.C01_env_last_value_wins`, reproved here — the environment READ AS A MAP: the value under a
   normalised name `k` (`makeCgivar` = uppercase of the lossy decoding) is the value of the LAST transmitted
   pair whose normalised name is `k`, `none` if there is none — an independent characterisation of the model's
   fold `envExtend`

**Modelling assumptions (obligations.json).**
* lossy UTF-8 decoding is an executed external (theorems are parametric in it)
* HashMap keyed by OwnedVarName = association list keyed by the normalised name (justified by
  C19.owned_eq_iff)
* management GetValues bodies among the preamble's records: every undecodable tail of a body prefix is
  shorter than the buffer (NoiseFits) — implied by NoiseSmall: the body is a sequence of pairs each within
  the bound (any total length, also far longer than the buffer: complete pairs are released as parsed) or is
  at most L+8 by…

**Not proved as theorems — carried by the differential run + oracle, or trusted.**
* the crate's parser = the model: differential run (`./check C01`), incl. the HashMap-as-association-list
  abstraction (justified by `C19.owned_eq_iff`)

-/

section
namespace Fcgi.C01
open Fcgi Fcgi.Req Fcgi.Spec
/-- any segmentation, padding, noise and any legal read chunking within the buffer bound: the request parser ends `done` with the spec request (id, role, flags, last-value-wins environment) and has emitted exactly the owed replies  (= `Fcgi.C01.C01_full_holds`, `Props/C01.lean`) -/
def C01Clause1 : Prop :=
  ∀ (p : Preamble) (recs : List Rec) (extra : Bytes) (chunks : List Bytes) (b mc : Nat),
    WellFormedPreamble p recs →
    (∀ q ∈ p.pairs, (NV.enc q).length ≤ alignedBufsize b) →
    (∀ r ∈ recs, r.rtype.toNat = RT.getValues → r.id = 0 → r.content.length ≤ alignedBufsize b) →
    chunks.flatten = serAll recs ++ extra →
    (∀ c ∈ chunks, c ≠ []) →
    ∀ p' out, Spec.feed (Parser.new b mc) chunks = some (p', out) →
      p'.state = .done p.request ∧ out = owedPreamble p mc recs ∧ ∃ k, p'.input = extra.take k

theorem C01Clause1_holds : C01Clause1 := by
  unfold C01Clause1
  exact @C01_full_holds

end Fcgi.C01
end

section
namespace Fcgi.C01
open Fcgi Fcgi.Req Fcgi.Spec
/-- one-shot reference run over the whole wire: final state `done` with the spec request, replies exactly `owedPreamble`  (= `Fcgi.C01.C01_oneshot`, `Props/C01.lean`) -/
def C01Clause2 : Prop :=
  ∀ {p : Preamble} {recs : List Rec} (h : WellFormedPreamble p recs)
    (extra : Bytes) (mc : Nat),
    run .header (serAll recs ++ extra) mc =
      ⟨extra, .done p.request, owedPreamble p mc recs, none⟩

theorem C01Clause2_holds : C01Clause2 := by
  unfold C01Clause2
  exact @C01_oneshot

end Fcgi.C01
end

section
namespace Fcgi.C01
open Fcgi Fcgi.Req Fcgi.Spec
/-- the fields of the spec request: id, role, flags as sent; environment = last-value-wins fold of the normalised pairs  (= `Fcgi.C01.C01_fields`, `Props/C01.lean`) -/
def C01Clause3 : Prop :=
  ∀ {p : Preamble} {recs : List Rec} (h : WellFormedPreamble p recs)
    (extra : Bytes) (mc : Nat),
    ∃ req, (run .header (serAll recs ++ extra) mc).st = .done req ∧
      req.id = p.id ∧ req.role = p.role ∧ req.flags = p.flags ∧
      req.env = envExtend [] p.pairs ∧
      (run .header (serAll recs ++ extra) mc).rem = extra ∧
      (run .header (serAll recs ++ extra) mc).panic = none

theorem C01Clause3_holds : C01Clause3 := by
  unfold C01Clause3
  exact @C01_fields

end Fcgi.C01
end

section
namespace Fcgi.Headline
open Fcgi Fcgi.Req Fcgi.Spec
/-- the value stored under key `k` (keys are the normalised names) -/
def envLookup (env : List (Bytes × Bytes)) (k : Bytes) : Option Bytes :=
  (env.find? (fun e => e.1 == k)).map (·.2)

theorem envLookup_insert (env : List (Bytes × Bytes)) (k' v k : Bytes) :
    envLookup (envInsert env k' v) k = if k' = k then some v else envLookup env k := by
  unfold envLookup envInsert
  by_cases hany : env.any (fun e => e.1 == k') = true
  · rw [if_pos hany, List.find?_map]
    by_cases hk : k' = k
    · subst hk
      rw [if_pos rfl]
      have hfun : ((fun e : Bytes × Bytes => e.1 == k') ∘ fun e => if (e.1 == k') = true then (k', v) else e) =
          fun e => e.1 == k' := by
        funext e
        simp only [Function.comp]
        split <;> simp_all
      rw [hfun]
      obtain ⟨e, he, hek⟩ := List.any_eq_true.1 hany
      cases hf : env.find? (fun e => e.1 == k') with
      | none => exact absurd hek (by simpa using List.find?_eq_none.1 hf e he)
      | some x =>
        have hx : x.1 = k' := by simpa using List.find?_some hf
        simp [hx]
    · rw [if_neg hk]
      have hfun : ((fun e : Bytes × Bytes => e.1 == k) ∘ fun e => if (e.1 == k') = true then (k', v) else e) =
          fun e => e.1 == k := by
        funext e
        simp only [Function.comp]
        split
        · rename_i h
          have : e.1 = k' := by simpa using h
          simp [this]
        · rfl
      rw [hfun]
      cases hf : env.find? (fun e => e.1 == k) with
      | none => rfl
      | some x =>
        have hx : x.1 = k := by simpa using List.find?_some hf
        have : ¬ x.1 = k' := by rw [hx]; exact fun h => hk h.symm
        simp [this]
  · rw [if_neg hany, List.find?_append]
    have hnone : ∀ e ∈ env, ¬ (e.1 == k') = true := by
      intro e he h
      exact hany (List.any_eq_true.2 ⟨e, he, h⟩)
    by_cases hk : k' = k
    · subst hk
      rw [if_pos rfl]
      have : env.find? (fun e => e.1 == k') = none := List.find?_eq_none.2 (by simpa using hnone)
      simp [this]
    · rw [if_neg hk]
      have : ([(k', v)] : List (Bytes × Bytes)).find? (fun e => e.1 == k) = none := by
        simp [hk]
      rw [this, Option.or_none]

/-- **Last value wins, per normalised name**: after `params.extend(pairs)` the value under key `k` is the
value of the LAST transmitted pair whose normalised name (`makeCgivar` = uppercase of the lossy
decoding) is `k`; keys that no pair has keep their old value. -/
theorem envLookup_extend (ps : List (Bytes × Bytes)) : ∀ (env : List (Bytes × Bytes)) (k : Bytes),
    envLookup (envExtend env ps) k =
      match ps.reverse.find? (fun q => makeCgivar q.1 == k) with
      | some q => some q.2
      | none => envLookup env k := by
  induction ps with
  | nil => intro env k; rfl
  | cons p ps ih =>
    intro env k
    rw [envExtend_cons, ih, List.reverse_cons, List.find?_append, envLookup_insert]
    cases hf : ps.reverse.find? (fun q => makeCgivar q.1 == k) with
    | some q => rfl
    | none =>
      by_cases hk : makeCgivar p.1 = k
      · simp [hk]
      · simp [hk]

/-- the environment READ AS A MAP: the value under a normalised name `k` (`makeCgivar` = uppercase of the lossy decoding) is the value of the LAST transmitted pair whose normalised name is `k`, `none` if there is none — an independent characterisation of the model's fold `envExtend`  (`HeadlineExtra.C01_env_last_value_wins`, reproved here) -/
def C01Clause4 : Prop :=
  ∀ (p : Preamble) (k : Bytes),
    envLookup p.request.env k = (p.pairs.reverse.find? (fun q => makeCgivar q.1 == k)).map (·.2)

theorem C01Clause4_holds : C01Clause4 := by
  unfold C01Clause4
  intro p k
  show envLookup (envExtend [] p.pairs) k = _
  rw [envLookup_extend]
  cases p.pairs.reverse.find? (fun q => makeCgivar q.1 == k) <;> rfl
end Fcgi.Headline
end

namespace Fcgi.Headline
/-- **C01** — see the section comment above for the clause-by-clause reading. -/
theorem C01_headline :
    Fcgi.C01.C01Clause1 ∧
    Fcgi.C01.C01Clause2 ∧
    Fcgi.C01.C01Clause3 ∧
    Fcgi.Headline.C01Clause4 :=
  ⟨Fcgi.C01.C01Clause1_holds, Fcgi.C01.C01Clause2_holds, Fcgi.C01.C01Clause3_holds, Fcgi.Headline.C01Clause4_holds⟩
end Fcgi.Headline


/-! # C02

**Property.**
> For every request and every well-formed sequence of input-stream records for it, the bytes the stream
> parser delivers for the active stream are exactly the concatenation of that stream's record payloads in
> order, each byte delivered once, and end-of-stream is reported exactly when the stream's empty terminating
> record (or the first record of a later stream) is reached. This holds regardless of record segmentation
> and padding, of interleaved management, unknown-type or foreign-id records, of read chunking, of whether
> data is delivered into caller buffers of any size or into the internal buffer, and of when the caller
> consumes or compacts that buffer.

**Clause by clause.**
* “the bytes delivered are exactly the concatenation of that stream's record payloads in order, each byte
  once” — Clauses 1–2 (`delivered_prefix`, `each_byte_once`) for EVERY legal operation history (`LegalAll`:
  parse into caller buffers of any size or the internal buffer, consume, compress — in any order), any
  record segmentation/padding/noise (`StreamRecs`), any chunking (`fedBytes ops` a prefix of the wire).
* “end-of-stream is reported exactly when the empty terminating record (or the first record of a later
  stream) is reached” — Clauses 3–5 (`end_reported`, `end_reported_dest`, `end_by_later_stream`); 'exactly'
  = `EveryParse (EndExact content)` inside Clause 1: no earlier parse reports the end.
* “regardless of interleaved management, unknown-type or foreign-id records” — `StreamRecs` allows them;
  Clause 6 (`stream_replies_exact`): at the moment the parser stands in front of the terminating record they
  have been answered exactly as owed.
* “… and of when the caller consumes or compacts, `set_stream`” — SCOPE: all six clauses are for histories
  WITHOUT `set_stream` (`NoSet`); `set_stream` is C18 and `C03SS.*` / C05 Clause 6.

**The conjuncts of `C02_headline`.**
1. `C02.delivered_prefix` — after any legal operation history the bytes delivered so far are a prefix of the
   stream content
2. `C02.each_byte_once` — … each byte once: delivered ++ buffered ++ still to come = content
3. `C02.end_reported` — liveness: once everything up to the end mark has been fed, end-of-stream is reported
   with all content delivered
4. `C02.end_reported_dest` — the same when data is delivered into caller buffers
5. `C02.end_by_later_stream` — the first record of a later stream ends the current one
6. `C02.stream_replies_exact` — for histories that END with the parser standing in front of the stream's
   terminating record: the replies emitted are exactly those owed for the interleaved noise, and everything was
   delivered (the per-prefix ledger is `Str.ops_sim`, not a conjunct)

**Modelling assumptions (obligations.json).**
* semi-abstract buffer geometry: gap contents abstracted (copy_within ranges exercised by the correspondence
  on buffer contents)
* liveness (end_reported) is for 'everything up to the end mark's header has been fed'; a destination of
  length 0 never progresses (inherent)

**Not proved as theorems — carried by the differential run + oracle, or trusted.**
* buffer geometry is semi-abstract (gap contents); the copy ranges are exercised by the differential run
* a destination of length 0 never progresses (inherent; excluded from the liveness clauses)

-/

section
namespace Fcgi.C02
open Fcgi Fcgi.Str Fcgi.Spec
open Fcgi.Req (Request PErr)
/-- after any legal operation history the bytes delivered so far are a prefix of the stream content  (= `Fcgi.C02.delivered_prefix`, `Props/C02.lean`) -/
def C02Clause1 : Prop :=
  ∀ {id s mc : Nat} {content : Bytes} {recs : List Rec} {p0 : Parser}
    (h0 : Start p0 id s mc) (hrecs : StreamRecs id s content recs) (tail : Bytes)
    (ops : List Op) (hl : LegalAll p0 ops) (hns : NoSet ops)
    (hfed : p0.raw ++ fedBytes ops <+: serAll recs ++ tail),
    deliveredOps p0 ops <+: content ∧ EveryParse (EndExact content) [] p0 ops

theorem C02Clause1_holds : C02Clause1 := by
  unfold C02Clause1
  exact @delivered_prefix

end Fcgi.C02
end

section
namespace Fcgi.C02
open Fcgi Fcgi.Str Fcgi.Spec
open Fcgi.Req (Request PErr)
/-- … each byte once: delivered ++ buffered ++ still to come = content  (= `Fcgi.C02.each_byte_once`, `Props/C02.lean`) -/
def C02Clause2 : Prop :=
  ∀ {id s mc : Nat} {content : Bytes} {recs : List Rec} {p0 : Parser}
    (h0 : Start p0 id s mc) (hrecs : StreamRecs id s content recs) (tail : Bytes)
    (a b : List Op) (hl : LegalAll p0 (a ++ b)) (hns : NoSet (a ++ b))
    (hfed : p0.raw ++ fedBytes (a ++ b) <+: serAll recs ++ tail),
    ∃ rest, content = deliveredOps p0 a ++ (deliveredOps (applyOps p0 a) b ++ rest)

theorem C02Clause2_holds : C02Clause2 := by
  unfold C02Clause2
  exact @each_byte_once

end Fcgi.C02
end

section
namespace Fcgi.C02
open Fcgi Fcgi.Str Fcgi.Spec
open Fcgi.Req (Request PErr)
/-- liveness: once everything up to the end mark has been fed, end-of-stream is reported with all content delivered  (= `Fcgi.C02.end_reported`, `Props/C02.lean`) -/
def C02Clause3 : Prop :=
  ∀ {id s mc : Nat} {content : Bytes} {recs : List Rec} {p0 : Parser}
    (h0 : Start p0 id s mc) (hrecs : StreamRecs id s content recs) (tail x : Bytes)
    (ops : List Op) (new : Bytes) (hl : LegalAll p0 (ops ++ [.parse new none])) (hns : NoSet ops)
    (hfed : p0.raw ++ fedBytes (ops ++ [.parse new none]) ++ x = serAll recs ++ tail)
    (hall : x.length ≤ tail.length),
    ∃ q' st, (applyOps p0 ops).parse new none = (q', .ok st) ∧ st.streamEnd = true ∧
      deliveredOps p0 (ops ++ [.parse new none]) = content

theorem C02Clause3_holds : C02Clause3 := by
  unfold C02Clause3
  exact @end_reported

end Fcgi.C02
end

section
namespace Fcgi.C02
open Fcgi Fcgi.Str Fcgi.Spec
open Fcgi.Req (Request PErr)
/-- the same when data is delivered into caller buffers  (= `Fcgi.C02.end_reported_dest`, `Props/C02.lean`) -/
def C02Clause4 : Prop :=
  ∀ {id s mc : Nat} {content : Bytes} {recs : List Rec} {p0 : Parser}
    (h0 : Start p0 id s mc) (hrecs : StreamRecs id s content recs) (tail x : Bytes)
    (ops : List Op) (hl : LegalAll p0 ops) (hns : NoSet ops)
    (hfed : p0.raw ++ fedBytes ops ++ x = serAll recs ++ tail) (hall : x.length ≤ tail.length)
    (hpar : (applyOps p0 ops).parsed = []) {n : Nat} (hn : 0 < n),
    ∃ k, k ≤ content.length ∧ ∃ q' st,
      (applyOps p0 (ops ++ drainOps n k)).parse [] (some n) = (q', .ok st) ∧
      st.streamEnd = true ∧ deliveredOps p0 (ops ++ drainOps n (k + 1)) = content

theorem C02Clause4_holds : C02Clause4 := by
  unfold C02Clause4
  exact @end_reported_dest

end Fcgi.C02
end

section
namespace Fcgi.C02
open Fcgi Fcgi.Str Fcgi.Spec
open Fcgi.Req (Request PErr)
/-- the first record of a later stream ends the current one  (= `Fcgi.C02.end_by_later_stream`, `Props/C02.lean`) -/
def C02Clause5 : Prop :=
  ∀ {id mc : Nat} {content : Bytes} {body : List Rec} {p0 : Parser}
    (h0 : Start p0 id 5 mc) (hrole : p0.request.role = 3) (hb : Body id 5 content body)
    (d : Rec) (hd : d.WF) (hdid : d.id = id) (hdt : d.rtype.toNat = 8) (tail : Bytes),
    (∀ ops, LegalAll p0 ops → NoSet ops →
      p0.raw ++ fedBytes ops <+: serAll body ++ (d.ser ++ tail) →
      deliveredOps p0 ops <+: content ∧ EveryParse (EndExact content) [] p0 ops) ∧
    (∀ ops new x, LegalAll p0 (ops ++ [.parse new none]) → NoSet ops →
      p0.raw ++ fedBytes (ops ++ [.parse new none]) ++ x = serAll body ++ (d.ser ++ tail) →
      x.length ≤ d.content.length + d.pad.length + tail.length →
      ∃ q' st, (applyOps p0 ops).parse new none = (q', .ok st) ∧ st.streamEnd = true ∧
        deliveredOps p0 (ops ++ [.parse new none]) = content ∧
        -- the `Data` record is still unconsumed in front of the parser
        q'.pay = 0 ∧ q'.pad = 0 ∧ q'.raw ++ x = d.ser ++ tail)

theorem C02Clause5_holds : C02Clause5 := by
  unfold C02Clause5
  exact @end_by_later_stream

end Fcgi.C02
end

section
namespace Fcgi.C02
open Fcgi Fcgi.Str Fcgi.Spec
open Fcgi.Req (Request PErr)
/-- for histories that END with the parser standing in front of the stream's terminating record: the replies emitted are exactly those owed for the interleaved noise, and everything was delivered (the per-prefix ledger is `Str.ops_sim`, not a conjunct)  (= `Fcgi.C02.stream_replies_exact`, `Props/C02.lean`) -/
def C02Clause6 : Prop :=
  ∀ {id s mc : Nat} {content : Bytes} {recs : List Rec} {p0 : Parser}
    (h0 : Start p0 id s mc) (hrecs : StreamRecs id s content recs) (tail x : Bytes)
    (ops : List Op) (hl : LegalAll p0 ops) (hns : NoSet ops)
    (hfed : p0.raw ++ fedBytes ops ++ x = serAll recs ++ tail)
    (hpos : ∀ body term, recs = body ++ [term] →
      (applyOps p0 ops).pay = 0 ∧ (applyOps p0 ops).pad = 0 ∧
      (applyOps p0 ops).raw ++ x = term.ser ++ tail),
    C03S.sentAll p0 ops ++ (applyOps p0 ops).output = p0.output ++ owedStream id s mc recs ∧
      deliveredOps p0 ops = content

theorem C02Clause6_holds : C02Clause6 := by
  unfold C02Clause6
  exact @stream_replies_exact

end Fcgi.C02
end

namespace Fcgi.Headline
/-- **C02** — see the section comment above for the clause-by-clause reading. -/
theorem C02_headline :
    Fcgi.C02.C02Clause1 ∧
    Fcgi.C02.C02Clause2 ∧
    Fcgi.C02.C02Clause3 ∧
    Fcgi.C02.C02Clause4 ∧
    Fcgi.C02.C02Clause5 ∧
    Fcgi.C02.C02Clause6 :=
  ⟨Fcgi.C02.C02Clause1_holds, Fcgi.C02.C02Clause2_holds, Fcgi.C02.C02Clause3_holds, Fcgi.C02.C02Clause4_holds, Fcgi.C02.C02Clause5_holds, Fcgi.C02.C02Clause6_holds⟩
end Fcgi.Headline


/-! # C03

**Property.**
> For any byte sequence whatsoever, fed in any chunking through any sequence of calls that respects the
> documented preconditions, both parsers return from every call without panicking, hanging or corrupting
> their buffer bookkeeping. The final outcome - the parsed request or the specific fatal error, the bytes
> emitted toward the client and, on success, the stream bytes delivered and the unread remainder - is
> determined by the byte sequence and the configuration alone, never by the chunking; when a call fails, the
> stream bytes reported before it are a prefix of the stream's true content. A fatal error, once reported,
> is reported again by every later call and no further output is produced.

**Clause by clause.**
* “both parsers return from every call without panicking, hanging or corrupting their buffer bookkeeping” —
  Clause 1 (`feed_total`, request parser: `PInv` kept, every call returns a value) and Clause 2
  (`trace_total`, stream parser: `SInv` kept, `¬ PanicsAny`) for every legal history; termination is by
  construction (total functions; the progress guards are shown unreachable in C12 Clause 8).
* “the final outcome is determined by the byte sequence and the configuration alone, never by the chunking”
  — Clause 3 (`chunk_invariance`, request parser: `settled` = state, output, leftover, incl. StuckOnInput;
  chunks NON-EMPTY — an extra `parse([])` can move a resting intermediate state, `run_split_full_false`) and
  Clause 4 (`str_chunk_invariance`, stream parser: two drained histories without `set_stream` over the same
  bytes; one switch: `C03SS.early_switch_invariance`; `set_stream(None)` histories: C05Chain2).  Equal
  reported stream bytes EVEN when a call fails is false (`str_chunk_invariance_full_false`, replayed on the
  crate) — the property only asks for:
* “when a call fails, the stream bytes reported before it are a prefix of the stream's true content” —
  Clause 5 (`prefix_on_error`).
* “a fatal error, once reported, is reported again by every later call and no further output is produced” —
  Clauses 6–8 (`C03.fatal_sticky`, `C03SI.fatal_sticky`, `fatal_silent`).

**The conjuncts of `C03_headline`.**
1. `C03.feed_total` — request parser: every legal call returns, invariant kept (no panic, bookkeeping
   intact)
2. `C03S.trace_total` — stream parser: every legal operation history runs without panic and keeps the buffer
   invariant
3. `C03.chunk_invariance` — request parser: the outcome (request or fatal error, output, leftover) is
   independent of the chunking — for feeds of NON-EMPTY chunks (`LegalFeed`; an extra `parse([])` can move a
   resting intermediate state, `run_split_full_false`)
4. `C03SI.str_chunk_invariance` — stream parser: two legal drained histories WITHOUT `set_stream` over the
   same bytes have the same outcome (one switch: `C03SS.early_switch_invariance`)
5. `C03SI.prefix_on_error` — when a call fails, the stream bytes reported before are a prefix of the true
   content
6. `C03.fatal_sticky` — request parser: a fatal error is reported again by every later call, no further
   output
7. `C03SI.fatal_sticky` — stream parser: a fatal error is sticky
8. `C03SI.fatal_silent` — … and silent: no output after it

**Modelling assumptions (obligations.json).**
* usize is 64 bit
* HashMap = association list with replace-on-equal-key
* compact_str from_utf8_lossy as modelled in Model/Lossy.lean (executed, never reasoned about)

**Not proved as theorems — carried by the differential run + oracle, or trusted.**
* 'any byte sequence' for the stream parser is relative to the byte-level reference `refWire` (unique
  decomposition of ANY byte string, `C03SI.decomposition_unique`)
* usize = 64 bit
* conversions attempted at non-final states: `C03.interrupted` (registered, not a conjunct)

-/

section
namespace Fcgi.C03
open Fcgi Fcgi.Req
/-- request parser: every legal call returns, invariant kept (no panic, bookkeeping intact)  (= `Fcgi.C03.feed_total`, `Props/C03Req.lean`) -/
def C03Clause1 : Prop :=
  ∀ {p : Parser} (ns : List Bytes) (hp : PInv p) (hl : Legal p ns),
    PInv (feed p ns) ∧
      ∀ k, k < ns.length → ∃ y, ((feed p (ns.take k)).parse (ns.getD k [])).2 = some y

theorem C03Clause1_holds : C03Clause1 := by
  unfold C03Clause1
  exact @feed_total

end Fcgi.C03
end

section
namespace Fcgi.C03S
open Fcgi Fcgi.Str
open Fcgi.Req (Request PErr)
/-- stream parser: every legal operation history runs without panic and keeps the buffer invariant  (= `Fcgi.C03S.trace_total`, `Props/C03Str.lean`) -/
def C03Clause2 : Prop :=
  ∀ {p : Parser} (hinv : SInv p) {ops : List Op} (hl : LegalAll p ops),
    SInv (applyOps p ops) ∧ ¬ PanicsAny p ops

theorem C03Clause2_holds : C03Clause2 := by
  unfold C03Clause2
  exact @trace_total

end Fcgi.C03S
end

section
namespace Fcgi.C03
open Fcgi Fcgi.Req
/-- request parser: the outcome (request or fatal error, output, leftover) is independent of the chunking — for feeds of NON-EMPTY chunks (`LegalFeed`; an extra `parse([])` can move a resting intermediate state, `run_split_full_false`)  (= `Fcgi.C03.chunk_invariance`, `Props/C03Chunk.lean`) -/
def C03Clause3 : Prop :=
  ∀ {p : Parser} {cs cs' : List Bytes} (hp : PInv p) (hl : LegalFeed p cs)
    (hl' : LegalFeed p cs') (hw : cs.flatten = cs'.flatten),
    settled p cs = settled p cs'

theorem C03Clause3_holds : C03Clause3 := by
  unfold C03Clause3
  exact @chunk_invariance

end Fcgi.C03
end

section
namespace Fcgi.C03SI
open Fcgi Fcgi.Str Fcgi.Spec
open Fcgi.Req (Request PErr)
/-- stream parser: two legal drained histories WITHOUT `set_stream` over the same bytes have the same outcome (one switch: `C03SS.early_switch_invariance`)  (= `Fcgi.C03SI.str_chunk_invariance`, `Props/C03StrInv.lean`) -/
def C03Clause4 : Prop :=
  ∀ {E : Cfg} {p0 : Parser} (h0 : Start E p0) {ops₁ ops₂ : List Op}
    (hl₁ : LegalAll p0 ops₁) (hl₂ : LegalAll p0 ops₂) (hns₁ : NoSet ops₁) (hns₂ : NoSet ops₂)
    (hfed : fedBytes ops₁ = fedBytes ops₂)
    (hd₁ : Drained (applyOps p0 ops₁)) (hd₂ : Drained (applyOps p0 ops₂)),
    outcome p0 ops₁ = outcome p0 ops₂ ∧
    (FirstErrInternal p0 ops₁ → FirstErrInternal p0 ops₂ → availOps p0 ops₁ = availOps p0 ops₂) ∧
    ((∀ e, (outcome p0 ops₁).probe ≠ .err e) →
      deliveredOps p0 ops₁ = deliveredOps p0 ops₂ ∧ availOps p0 ops₁ = availOps p0 ops₂) ∧
    (deliveredOps p0 ops₁ <+: deliveredOps p0 ops₂ ∨ deliveredOps p0 ops₂ <+: deliveredOps p0 ops₁)

theorem C03Clause4_holds : C03Clause4 := by
  unfold C03Clause4
  exact @str_chunk_invariance

end Fcgi.C03SI
end

section
namespace Fcgi.C03SI
open Fcgi Fcgi.Str Fcgi.Spec
open Fcgi.Req (Request PErr)
/-- when a call fails, the stream bytes reported before are a prefix of the true content  (= `Fcgi.C03SI.prefix_on_error`, `Props/C03StrInv.lean`) -/
def C03Clause5 : Prop :=
  ∀ {E : Cfg} {p0 : Parser} (h0 : Start E p0) (ops : List Op)
    (new : Bytes) (dest : Option Nat) (hl : LegalAll p0 (ops ++ [.parse new dest])) (hns : NoSet ops)
    {q' : Parser} {e : PErr} (hp : (applyOps p0 ops).parse new dest = (q', .err e)) (x : Bytes),
    deliveredOps p0 ops <+:
      (refWire E (p0.raw ++ fedBytes (ops ++ [.parse new dest]) ++ x)).content

theorem C03Clause5_holds : C03Clause5 := by
  unfold C03Clause5
  exact @prefix_on_error

end Fcgi.C03SI
end

section
namespace Fcgi.C03
open Fcgi Fcgi.Req
/-- request parser: a fatal error is reported again by every later call, no further output  (= `Fcgi.C03.fatal_sticky`, `Props/C03Req.lean`) -/
def C03Clause6 : Prop :=
  ∀ {p : Parser} {new : Bytes} {e : PErr} (hp : PInv p)
    (hs : p.state = .fatal e) (hn : new.length ≤ p.free),
    (p.parse new).2 = some { done := true, output := [] } ∧
      (p.parse new).1.state = .fatal e ∧
      (p.parse new).1.intoRequest = .error e ∧ p.intoRequest = .error e

theorem C03Clause6_holds : C03Clause6 := by
  unfold C03Clause6
  exact @fatal_sticky

end Fcgi.C03
end

section
namespace Fcgi.C03SI
open Fcgi Fcgi.Str Fcgi.Spec
open Fcgi.Req (Request PErr)
/-- stream parser: a fatal error is sticky  (= `Fcgi.C03SI.fatal_sticky`, `Props/C03StrInv.lean`) -/
def C03Clause7 : Prop :=
  ∀ {p p' : Parser} {new : Bytes} {dest : Option Nat} {e : PErr} (hinv : SInv p)
    (hd : dest = none ∨ p.parsed = []) (hfree : new.length ≤ p.free)
    (h : p.parse new dest = (p', .err e)),
    p'.pay = 0 ∧ p'.pad = 0 ∧ headErr p'.raw p'.request.id = some e ∧
    (∀ dest', (dest' = none ∨ p'.parsed = []) → p'.parse [] dest' = (p', .err e)) ∧
    (∀ new' dest', (dest' = none ∨ p'.parsed = []) → new'.length ≤ p'.free →
      (p'.parse new' dest').2 = .err e ∧ (p'.parse new' dest').1.output = p'.output ∧
      (p'.parse new' dest').1.parsed = p'.parsed ∧
      (p'.parse new' dest').1.raw = p'.raw ++ new')

theorem C03Clause7_holds : C03Clause7 := by
  unfold C03Clause7
  exact @fatal_sticky

end Fcgi.C03SI
end

section
namespace Fcgi.C03SI
open Fcgi Fcgi.Str Fcgi.Spec
open Fcgi.Req (Request PErr)
/-- … and silent: no output after it  (= `Fcgi.C03SI.fatal_silent`, `Props/C03StrInv.lean`) -/
def C03Clause8 : Prop :=
  ∀ {q : Parser} {e : PErr} (h : C03S.ErrState q e) {t : List Op}
    (hl : LegalAll q t),
    availOps q t = [] ∧ C03S.grownAll q t = [] ∧ deliveredOps q t = [] ∧
      C03S.ErrState (applyOps q t) e

theorem C03Clause8_holds : C03Clause8 := by
  unfold C03Clause8
  exact @fatal_silent

end Fcgi.C03SI
end

namespace Fcgi.Headline
/-- **C03** — see the section comment above for the clause-by-clause reading. -/
theorem C03_headline :
    Fcgi.C03.C03Clause1 ∧
    Fcgi.C03S.C03Clause2 ∧
    Fcgi.C03.C03Clause3 ∧
    Fcgi.C03SI.C03Clause4 ∧
    Fcgi.C03SI.C03Clause5 ∧
    Fcgi.C03.C03Clause6 ∧
    Fcgi.C03SI.C03Clause7 ∧
    Fcgi.C03SI.C03Clause8 :=
  ⟨Fcgi.C03.C03Clause1_holds, Fcgi.C03S.C03Clause2_holds, Fcgi.C03.C03Clause3_holds, Fcgi.C03SI.C03Clause4_holds, Fcgi.C03SI.C03Clause5_holds, Fcgi.C03.C03Clause6_holds, Fcgi.C03SI.C03Clause7_holds, Fcgi.C03SI.C03Clause8_holds⟩
end Fcgi.Headline


/-! # C04

**Property.**
> While either parser is active, each GetValues query with a non-empty body, each record of unknown type,
> each BeginRequest for a second request id, each BeginRequest with an unknown role and each AbortRequest
> received during the Params stream elicits exactly one reply with the record type, request id, protocol
> status and body the FastCGI specification prescribes; replies appear in arrival order and the parsers emit
> no other bytes toward the client. The output byte counts the parsers report equal the bytes they actually
> appended.

**Clause by clause.**
* “each GetValues query with a non-empty body, each record of unknown type, each BeginRequest for a second
  id, each BeginRequest with an unknown role and each AbortRequest during Params elicits exactly one reply
  with the prescribed type, id, status and body; in arrival order; no other bytes” — Request parser, ANY
  byte string: Clause 1 (`req_replies_hostile`: output = the reference automaton's), any chunking of non-
  empty chunks: Clause 2.  Stream PARSER, any bytes: Clause 3 (parser output over a legal,
  `set_stream`-free, drained history = `streamReplies`), built on the reference-level Clause 7.  Both
  references are defined record by record over the unique decomposition; the per-record tables are
  `C04.owed_*`.  Clause 4 (`replies_exact_oneshot`): the well-formed case; Clause 5: AbortRequest in Params.
* “the output byte counts the parsers report equal the bytes they actually appended” — Clause 6
  (`C03S.counts_exact`, stream parser; the request parser's `Yield.output` IS the byte list, by construction
  of the model).

**The conjuncts of `C04_headline`.**
1. `C04H.req_replies_hostile` — request parser, ANY byte string: the output is exactly what the reference
   automaton prescribes over the unique record decomposition
2. `C04H.req_replies_chunked` — … under any legal chunking of NON-EMPTY chunks into a fresh parser that does
   not get stuck
3. `HeadlineExtra.C04_stream_replies_parser` = `C03SI.drained_outcome` ∘ `C04H.stream_replies_hostile`,
   reproved here — stream PARSER, any bytes: for every legal history without `set_stream` that has processed
   what it was fed, the reply bytes the parser generated are exactly `streamReplies` of the bytes it holds and
   was fed — one `Spec.owed` per record, in order, nothing else
4. `C04.replies_exact_oneshot` — well-formed preamble: replies = `owedPreamble`, in arrival order, nothing
   else
5. `C04.abort_during_params` — AbortRequest during Params: exactly one EndRequest(RequestComplete)
6. `C03S.counts_exact` — the reported output counts equal the bytes appended
7. `C04H.stream_replies_hostile` — reference level only (no parser, no history in this statement): the byte-
   level reference `refWire` emits exactly `streamReplies`; used by the clause above

**Modelling assumptions (obligations.json).**
* id echoed for unknown types with a non-zero id is the repo's own pinned behaviour (specification silent)
* request parser: replies_exact_oneshot + chunk_invariance (C03) give exactness under any chunking; stream
  parser: stream_replies_exact over any legal operation history
* ANY input (Props/C04Hostile): `req_replies_hostile` — for every byte string the request parser's output is
  what the phase automaton `reqRef` prescribes over the unique record decomposition (check order of
  `headerDrive`: version, type range, BeginRequest length, body present, unknown role — also for id 0 —,
  null id), with the …

**Not proved as theorems — carried by the differential run + oracle, or trusted.**
* the id echoed for unknown types with a non-zero id is the crate's pinned behaviour (the specification is
  silent)

-/

section
namespace Fcgi.C04H
open Fcgi Fcgi.Str Fcgi.Spec Fcgi.C03SI
open Fcgi.Req (Request PErr)
section Request
open Fcgi.Req
/-- request parser, ANY byte string: the output is exactly what the reference automaton prescribes over the unique record decomposition  (= `Fcgi.C04H.req_replies_hostile`, `Props/C04Hostile.lean`) -/
def C04Clause1 : Prop :=
  ∀ (mc : Nat) (w : Bytes),
    (run .header w mc).out = (reqRef mc w).out ∧
    phaseOf (run .header w mc).st = (reqRef mc w).phase ∧
    ((reqRef mc w).phase.isFinal = true → (run .header w mc).rem = (reqRef mc w).unread) ∧
    (run .header w mc).panic = none

theorem C04Clause1_holds : C04Clause1 := by
  unfold C04Clause1
  exact @req_replies_hostile

end Request
end Fcgi.C04H
end

section
namespace Fcgi.C04H
open Fcgi Fcgi.Str Fcgi.Spec Fcgi.C03SI
open Fcgi.Req (Request PErr)
section Request
open Fcgi.Req
/-- … under any legal chunking of NON-EMPTY chunks into a fresh parser that does not get stuck  (= `Fcgi.C04H.req_replies_chunked`, `Props/C04Hostile.lean`) -/
def C04Clause2 : Prop :=
  ∀ (b mc : Nat) {cs : List Bytes} (hl : C03.LegalFeed (Parser.new b mc) cs)
    (hne : cs ≠ []) (hns : C06.NoStuck (Parser.new b mc) cs.flatten),
    ∃ fed rest, cs = fed ++ rest ∧ fed.flatten ≠ [] ∧
      (C03.feedAll (Parser.new b mc) cs).2.1 = (reqRef mc fed.flatten).out ∧
      phaseOf (C03.feedAll (Parser.new b mc) cs).1.state = (reqRef mc fed.flatten).phase ∧
      (rest ≠ [] → (reqRef mc fed.flatten).phase.isFinal = true)

theorem C04Clause2_holds : C04Clause2 := by
  unfold C04Clause2
  exact @req_replies_chunked

end Request
end Fcgi.C04H
end

section
namespace Fcgi.Headline
open Fcgi Fcgi.Str Fcgi.Spec Fcgi.C03SI

/-- stream PARSER, any bytes: for every legal history without `set_stream` that has processed what it was fed, the reply bytes the parser generated are exactly `streamReplies` of the bytes it holds and was fed — one `Spec.owed` per record, in order, nothing else  (`HeadlineExtra.C04_stream_replies_parser` = `C03SI.drained_outcome` ∘ `C04H.stream_replies_hostile`, reproved here) -/
def C04Clause3 : Prop :=
  ∀ {E : Cfg} {p0 : Str.Parser} (h0 : Start E p0) (ops : List Op)
    (hl : LegalAll p0 ops) (hns : NoSet ops) (hdr : Drained (applyOps p0 ops)),
    C03S.grownAll p0 ops = C04H.streamReplies E (p0.raw ++ fedBytes ops)

theorem C04Clause3_holds : C04Clause3 := by
  unfold C04Clause3
  intro E p0 h0 ops hl hns hdr
  have h := congrArg Outcome.out (drained_outcome h0 ops hl hns hdr).1
  simp only [outcome, refOutcome] at h
  rw [h, C04H.stream_replies_hostile]
end Fcgi.Headline
end

section
namespace Fcgi.C04
open Fcgi Fcgi.Req Fcgi.Spec
/-- well-formed preamble: replies = `owedPreamble`, in arrival order, nothing else  (= `Fcgi.C04.replies_exact_oneshot`, `Props/C04.lean`) -/
def C04Clause4 : Prop :=
  ∀ {p : Preamble} {recs : List Rec} (h : WellFormedPreamble p recs)
    (extra : Bytes) (mc : Nat),
    (run .header (serAll recs ++ extra) mc).out = owedPreamble p mc recs

theorem C04Clause4_holds : C04Clause4 := by
  unfold C04Clause4
  exact @replies_exact_oneshot

end Fcgi.C04
end

section
namespace Fcgi.C04
open Fcgi Fcgi.Req Fcgi.Spec
/-- AbortRequest during Params: exactly one EndRequest(RequestComplete)  (= `Fcgi.C04.abort_during_params`, `Props/C04.lean`) -/
def C04Clause5 : Prop :=
  ∀ (i : Inner) (hi : InnerOK i) (c padb : Bytes) (res : UInt8)
    (rest : Bytes) (mc : Nat) (hc : c.length < 65536) (hp : padb.length < 256)
    (hid : i.req.id < 65536),
    run (.params i 0 0) (Rec.ser { rtype := 2, id := i.req.id, content := c, pad := padb,
                                   reserved := res } ++ rest) mc =
      pre (EndRequest.toRecord { appStatus := 0, protocolStatus := 0 } i.req.id)
        (run .header rest mc)

theorem C04Clause5_holds : C04Clause5 := by
  unfold C04Clause5
  exact @abort_during_params

end Fcgi.C04
end

section
namespace Fcgi.C03S
open Fcgi Fcgi.Str
open Fcgi.Req (Request PErr)
/-- the reported output counts equal the bytes appended  (= `Fcgi.C03S.counts_exact`, `Props/C03Str.lean`) -/
def C04Clause6 : Prop :=
  ∀ {p p' : Parser} {new : Bytes} {dest : Option Nat} {st : Status}
    (hcap : p.freeStart ≤ p.cap) (hd : dest = none ∨ p.parsed = []) (hfree : new.length ≤ p.free)
    (h : p.parse new dest = (p', .ok st)),
    (∃ o, p'.output = p.output ++ o ∧ o.length = st.output) ∧
    (dest = none → ∃ d, p'.parsed = p.parsed ++ d ∧ d.length = st.stream ∧ st.delivered = []) ∧
    (∀ n, dest = some n → p'.parsed = [] ∧ p.parsed = [] ∧ st.delivered.length = st.stream ∧
      st.stream ≤ n) ∧
    (∃ consumed, p.raw ++ new = consumed ++ p'.raw)

theorem C04Clause6_holds : C04Clause6 := by
  unfold C04Clause6
  exact @counts_exact

end Fcgi.C03S
end

section
namespace Fcgi.C04H
open Fcgi Fcgi.Str Fcgi.Spec Fcgi.C03SI
open Fcgi.Req (Request PErr)
/-- reference level only (no parser, no history in this statement): the byte-level reference `refWire` emits exactly `streamReplies`; used by the clause above  (= `Fcgi.C04H.stream_replies_hostile`, `Props/C04Hostile.lean`) -/
def C04Clause7 : Prop :=
  ∀ (E : Cfg) (w : Bytes),
    (refWire E w).out = streamReplies E w

theorem C04Clause7_holds : C04Clause7 := by
  unfold C04Clause7
  exact @stream_replies_hostile

end Fcgi.C04H
end

namespace Fcgi.Headline
/-- **C04** — see the section comment above for the clause-by-clause reading. -/
theorem C04_headline :
    Fcgi.C04H.C04Clause1 ∧
    Fcgi.C04H.C04Clause2 ∧
    Fcgi.Headline.C04Clause3 ∧
    Fcgi.C04.C04Clause4 ∧
    Fcgi.C04.C04Clause5 ∧
    Fcgi.C03S.C04Clause6 ∧
    Fcgi.C04H.C04Clause7 :=
  ⟨Fcgi.C04H.C04Clause1_holds, Fcgi.C04H.C04Clause2_holds, Fcgi.Headline.C04Clause3_holds, Fcgi.C04.C04Clause4_holds, Fcgi.C04.C04Clause5_holds, Fcgi.C03S.C04Clause6_holds, Fcgi.C04H.C04Clause7_holds⟩
end Fcgi.Headline


/-! # C05

**Property.**
> Whenever a parser finishes or is converted - request parser to request plus leftover, request parser to
> stream parser, stream parser back to request parser, or stream parser to leftover input - the bytes not
> yet interpreted are exactly the unread suffix of what was fed, in order. Consequently a connection
> carrying k sequential requests, processed through the conversion chain with one shared buffer, yields the
> same k environments and stream contents as k separate connections, even when a request's input streams are
> left partly or wholly unread.

**Clause by clause.**
* “whenever a parser finishes or is converted … the bytes not yet interpreted are exactly the unread suffix
  of what was fed, in order” — Clauses 1–4: the four conversions (each: if the conversion succeeds the
  result holds `p.input` / `p.raw`); Clause 5 (`chain_suffix`): a suffix (existential); exactly WHICH:
  Clause 6 and `C03.leftover_is_unread_suffix`.
* “a connection carrying k sequential requests through the chain with one shared buffer yields the same k
  environments and stream contents as k separate connections, even when input streams are left partly or
  wholly unread” — Environments, replies, hand-offs: Clause 6 (`k_requests_any_reads`; hypothesis
  `NoOverruns` — refuted without it — and `Spec1.OK`; conditional on `chain … = some`).  Stream CONTENTS:
  Clauses 7–8 (delivered bytes are a prefix of the contents, whatever the caller does) and Clause 9
  (`active_reads_facts`: equal to the contents when every read is made with the stream active).  Open
  (obligations.json): Filter turns with a mid-record drop.  The async-level version is C07
  (`k_requests_e2e`, `unread_*_chain_e2e`).

**The conjuncts of `C05_headline`.**
1. `C05.into_stream_parser` — request parser → stream parser: the unread suffix is handed over
2. `C05.into_request_parser` — stream parser → request parser: what is buffered is the unread suffix
3. `C05.into_input` — stream parser → leftover input
4. `C05.into_request` — request parser → request plus leftover
5. `C05.chain_suffix` — along the conversion chain what the next request parser holds is A suffix of what
   was fed (`consumed₁`, `consumed₂` existential; WHICH suffix: Clause 6 and `C03.leftover_is_unread_suffix`)
6. `C05C.k_requests_any_reads` — k sequential requests through the chain with one shared buffer, ANY amount
   read of each stream: the k requests (environments) are those of the preambles, every hand-off is the unread
   suffix at a record boundary, unread records are answered by the next request parser (stream CONTENTS: the
   next three clauses)
7. `C05C.responder_delivered_any` — stream contents, Responder turn: whatever the caller does on the stream
   parser, the bytes delivered are a prefix of the Stdin content
8. `C05C.filter_delivered_any` — stream contents, Filter turn: delivered bytes are a prefix of the Stdin
   content followed by a prefix of the Data content
9. `C05C.active_reads_facts` — … and with every read made while the stream is active and the hand-over at a
   record boundary, the delivered bytes ARE the contents (under `ActiveReads`)

**Modelling assumptions (obligations.json).**
* one-request-at-a-time client: look-ahead at the stream->request hand-off only contains unread records of
  the finished request (stale records), never the next request
* k_requests_full as first formalised (no side condition on what follows the preamble) is refuted: unread
  management records are answered by the next request parser; k_requests_partial (stale stream records)
  holds for every k
* the property's consequence at the level of the async layer — k keep-alive requests on one connection, each
  read to the end, read partly, or left wholly unread, give the same handler starts and per-request log
  segments as k separate connections, and every hand-off happens on a record boundary of the wire with
  exactly the unrea…

**Not proved as theorems — carried by the differential run + oracle, or trusted.**
* an unread BeginRequest among stale records starts the next request instead of being rejected (the one case
  where the answer depends on whether the handler read its input; excluded by hypothesis, documented in
  DESIGN §14.4)

-/

section
namespace Fcgi.C05
open Fcgi Fcgi.Req Fcgi.Spec
open Fcgi.Str (SInv Op applyOp applyOps Legal LegalAll)
/-- request parser → stream parser: the unread suffix is handed over  (= `Fcgi.C05.into_stream_parser`, `Props/C05.lean`) -/
def C05Clause1 : Prop :=
  ∀ {p : Req.Parser} {sp : Str.Parser} (h : p.intoStreamParser = .ok sp),
    ∃ r, p.state = .done r ∧ sp = Str.Parser.fromParser p.cap r p.input p.maxConns ∧
      sp.raw = p.input ∧ sp.parsed = [] ∧ sp.output = [] ∧ sp.cap = p.cap ∧ sp.request = r ∧
      sp.maxConns = p.maxConns ∧ sp.isRecordBoundary = true ∧
      sp.stream = nextInputStream r.role none

theorem C05Clause1_holds : C05Clause1 := by
  unfold C05Clause1
  exact @into_stream_parser

end Fcgi.C05
end

section
namespace Fcgi.C05
open Fcgi Fcgi.Req Fcgi.Spec
open Fcgi.Str (SInv Op applyOp applyOps Legal LegalAll)
/-- stream parser → request parser: what is buffered is the unread suffix  (= `Fcgi.C05.into_request_parser`, `Props/C05.lean`) -/
def C05Clause2 : Prop :=
  ∀ {p : Str.Parser} {rp : Req.Parser} (hinv : SInv p) (hcap : 24 ≤ p.cap)
    (h : p.intoRequestParser = some (.ok rp)),
    rp.input = p.raw ∧ rp.cap = p.cap ∧ rp.maxConns = p.maxConns ∧ rp.state = .header ∧ PInv rp ∧
      p.isRecordBoundary = true ∧ p.output = []

theorem C05Clause2_holds : C05Clause2 := by
  unfold C05Clause2
  exact @into_request_parser

end Fcgi.C05
end

section
namespace Fcgi.C05
open Fcgi Fcgi.Req Fcgi.Spec
open Fcgi.Str (SInv Op applyOp applyOps Legal LegalAll)
/-- stream parser → leftover input  (= `Fcgi.C05.into_input`, `Props/C05.lean`) -/
def C05Clause3 : Prop :=
  ∀ {p : Str.Parser} {bs : Bytes} (h : p.intoInput = .ok bs),
    bs = p.raw ∧ p.isRecordBoundary = true

theorem C05Clause3_holds : C05Clause3 := by
  unfold C05Clause3
  exact @into_input

end Fcgi.C05
end

section
namespace Fcgi.C05
open Fcgi Fcgi.Req Fcgi.Spec
open Fcgi.Str (SInv Op applyOp applyOps Legal LegalAll)
/-- request parser → request plus leftover  (= `Fcgi.C05.into_request`, `Props/C05.lean`) -/
def C05Clause4 : Prop :=
  ∀ {p : Req.Parser} {r : Request} {left : Bytes}
    (h : p.intoRequest = .ok (r, left)),
    left = p.input ∧ p.state = .done r

theorem C05Clause4_holds : C05Clause4 := by
  unfold C05Clause4
  exact @into_request

end Fcgi.C05
end

section
namespace Fcgi.C05
open Fcgi Fcgi.Req Fcgi.Spec
open Fcgi.Str (SInv Op applyOp applyOps Legal LegalAll)
/-- along the conversion chain what the next request parser holds is A suffix of what was fed (`consumed₁`, `consumed₂` existential; WHICH suffix: Clause 6 and `C03.leftover_is_unread_suffix`)  (= `Fcgi.C05.chain_suffix`, `Props/C05.lean`) -/
def C05Clause5 : Prop :=
  ∀ {p0 : Req.Parser} {cs : List Bytes} {r : Request} {sp : Str.Parser}
    {ops : List Op} {rp : Req.Parser} (hp : PInv p0) (hst : StId p0.state)
    (hl : C03.LegalFeed p0 cs) (hd : (C03.feedAll p0 cs).1.state = .done r)
    (hsp : (C03.feedAll p0 cs).1.intoStreamParser = .ok sp) (hops : LegalAll sp ops)
    (hrp : (applyOps sp ops).intoRequestParser = some (.ok rp)),
    ∃ fed consumed₁ consumed₂,
      cs = fed ++ (C03.feedAll p0 cs).2.2 ∧
      p0.input ++ fed.flatten ++ fedBytes ops = consumed₁ ++ consumed₂ ++ rp.input ∧
      p0.input ++ fed.flatten = consumed₁ ++ sp.raw ∧
      sp.raw ++ fedBytes ops = consumed₂ ++ rp.input ∧
      rp.cap = p0.cap ∧ rp.state = .header ∧ PInv rp

theorem C05Clause5_holds : C05Clause5 := by
  unfold C05Clause5
  exact @chain_suffix

end Fcgi.C05
end

section
namespace Fcgi.C05C
open Fcgi Fcgi.Req Fcgi.Str Fcgi.Spec
open Fcgi.E2E (idleOwed serAll_app)
/-- k sequential requests through the chain with one shared buffer, ANY amount read of each stream: the k requests (environments) are those of the preambles, every hand-off is the unread suffix at a record boundary, unread records are answered by the next request parser (stream CONTENTS: the next three clauses)  (= `Fcgi.C05C.k_requests_any_reads`, `Props/C05Chain.lean`) -/
def C05Clause6 : Prop :=
  ∀ {cap mc : Nat} {ts : List Turn} {qs : List Spec1} {os : List Obs}
    {rp rpK : Req.Parser} {u : List Rec} {fut : Bytes}
    (hqs : ∀ q ∈ qs, q.OK) (hp : PInv rp) (hst : rp.state = .header) (hmc : rp.maxConns = mc)
    (hcap : rp.cap = cap) (hu : ∀ e ∈ u, IdleNoise e) (hlen : ts.length ≤ qs.length)
    (hwire : rp.input ++ ts.flatMap Turn.fed ++ fut = serAll (u ++ wireRecs qs))
    (hleg : ChainLegal rp ts) (hch : chain rp ts = some (os, rpK)) (hno : NoOverruns cap mc qs ts os),
    -- (1) the requests, in order
    os.map (·.r) = (qs.take os.length).map (·.p.request) ∧
    -- (3), (4) per request: replies of the request parser, the hand-offs (see `Results`)
    Results cap mc u qs ts os ∧
    -- (3) the last hand-off: unread records of the last request served, then the requests not served
    (∃ uK, (∀ e ∈ uK, IdleNoise e) ∧ rpK.input ++ fut = serAll (uK ++ wireRecs (qs.drop ts.length))) ∧
    PInv rpK ∧ rpK.state = .header ∧ rpK.maxConns = mc ∧ rpK.cap = cap

theorem C05Clause6_holds : C05Clause6 := by
  unfold C05Clause6
  exact @k_requests_any_reads

end Fcgi.C05C
end

section
namespace Fcgi.C05C
open Fcgi Fcgi.Req Fcgi.Str Fcgi.Spec Fcgi.C03SI
open Fcgi.E2E (serAll_app body_wf)
/-- stream contents, Responder turn: whatever the caller does on the stream parser, the bytes delivered are a prefix of the Stdin content  (= `Fcgi.C05C.responder_delivered_any`, `Props/C05Chain2.lean`) -/
def C05Clause7 : Prop :=
  ∀ {cap mc : Nat} {q : Spec1} {later : List Rec} {t : Turn} {o : Obs} (hq : q.OK)
    (hlater : ∀ r ∈ later, r.WF) (hrole : q.p.role = 1) (hf : Front cap mc q later t o)
    {content : Bytes} {body : List Rec} {term : Rec} {more : List Rec} (hsh : StdinShape q content body term more),
    deliveredOps o.sp t.ops <+: content

theorem C05Clause7_holds : C05Clause7 := by
  unfold C05Clause7
  exact @responder_delivered_any

end Fcgi.C05C
end

section
namespace Fcgi.C05C
open Fcgi Fcgi.Req Fcgi.Str Fcgi.Spec Fcgi.C03SI
open Fcgi.E2E (serAll_app body_wf)
/-- stream contents, Filter turn: delivered bytes are a prefix of the Stdin content followed by a prefix of the Data content  (= `Fcgi.C05C.filter_delivered_any`, `Props/C05Chain2.lean`) -/
def C05Clause8 : Prop :=
  ∀ {cap mc : Nat} {q : Spec1} {later : List Rec} {t : Turn} {o : Obs} (hq : q.OK)
    (hlater : ∀ r ∈ later, r.WF) (hrole : q.p.role = 3) (hf : Front cap mc q later t o)
    {c5 c8 : Bytes} {b5 b8 : List Rec} {t5 t8 : Rec} {more : List Rec}
    (hsh : FilterShape q c5 b5 t5 c8 b8 t8 more),
    ∃ dA dB, deliveredOps o.sp t.ops = dA ++ dB ∧ dA <+: c5 ∧ dB <+: c8

theorem C05Clause8_holds : C05Clause8 := by
  unfold C05Clause8
  exact @filter_delivered_any

end Fcgi.C05C
end

section
namespace Fcgi.C05C
open Fcgi Fcgi.Req Fcgi.Str Fcgi.Spec
open Fcgi.E2E (idleOwed serAll_app)
/-- … and with every read made while the stream is active and the hand-over at a record boundary, the delivered bytes ARE the contents (under `ActiveReads`)  (= `Fcgi.C05C.active_reads_facts`, `Props/C05Chain.lean`) -/
def C05Clause9 : Prop :=
  ∀ {cap mc : Nat} {q : Spec1} {later : List Rec} {t : Turn} {o : Obs} (hq : q.OK)
    (hlater : ∀ r ∈ later, r.WF) (hf : Front cap mc q later t o)
    {s : Nat} {content : Bytes} {body : List Rec} {term : Rec} {more : List Rec} {A Bq : List Op}
    (ha : ActiveReads q t s content body term more A Bq),
    (deliveredOps o.sp t.ops <+: content ∧ EveryParse (EndExact content) [] o.sp A) ∧
    C03S.grownAll o.sp t.ops <+: owedStream q.p.id s mc body ∧
    (o.spEnd.isRecordBoundary = true → ∃ d rs cr, body = d ++ rs ∧ Body q.p.id s cr rs ∧
      deliveredOps o.sp t.ops ++ cr = content ∧
      C03S.grownAll o.sp t.ops = owedStream q.p.id s mc d ∧
      o.sp.raw ++ C05.fedBytes t.ops = serAll d ++ o.spEnd.raw)

theorem C05Clause9_holds : C05Clause9 := by
  unfold C05Clause9
  exact @active_reads_facts

end Fcgi.C05C
end

namespace Fcgi.Headline
/-- **C05** — see the section comment above for the clause-by-clause reading. -/
theorem C05_headline :
    Fcgi.C05.C05Clause1 ∧
    Fcgi.C05.C05Clause2 ∧
    Fcgi.C05.C05Clause3 ∧
    Fcgi.C05.C05Clause4 ∧
    Fcgi.C05.C05Clause5 ∧
    Fcgi.C05C.C05Clause6 ∧
    Fcgi.C05C.C05Clause7 ∧
    Fcgi.C05C.C05Clause8 ∧
    Fcgi.C05C.C05Clause9 :=
  ⟨Fcgi.C05.C05Clause1_holds, Fcgi.C05.C05Clause2_holds, Fcgi.C05.C05Clause3_holds, Fcgi.C05.C05Clause4_holds, Fcgi.C05.C05Clause5_holds, Fcgi.C05C.C05Clause6_holds, Fcgi.C05C.C05Clause7_holds, Fcgi.C05C.C05Clause8_holds, Fcgi.C05C.C05Clause9_holds⟩
end Fcgi.Headline


/-! # C06

**Property.**
> For every configured buffer size B, a well-formed preamble in which each name-value pair's name and value
> together occupy at most B - 13 bytes is parsed to completion without a StuckOnInput error, for every
> record segmentation and read chunking. Conversely, a request parser that has not finished always offers a
> non-empty input buffer: if it cannot, it reports StuckOnInput from that very call. The effective buffer is
> never smaller than the configured size nor than the 24-byte protocol minimum, and is a multiple of 8.

**Clause by clause.**
* “a well-formed preamble in which each pair's name and value together occupy at most B − 13 bytes is parsed
  without StuckOnInput, for every segmentation and chunking” — Clause 1 (`sufficiency`: conclusion '≠
  StuckOnInput'; 'parsed to completion' is C01 Clause 1; `NoiseSmall`, non-empty chunks); Clause 2 turns the
  documented bound into the fit hypotheses; tightness: Clause 6; end to end: Clauses 7–8.
* “a request parser that has not finished always offers a non-empty input buffer: if it cannot, it reports
  StuckOnInput from that very call” — Clause 3 (`not_done_has_space`), Clause 4 (`done` ∧
  `Fatal(StuckOnInput)` ∧ `into_request = Err(StuckOnInput)`), Clause 9 (`read_has_space`: the connection
  task never offers the transport an empty buffer).
* “the effective buffer is never smaller than the configured size nor than 24, and is a multiple of 8” —
  Clause 5 (`aligned_spec`, for b + 7 < 2^64; the overflow case is `aligned_overflow`).

**The conjuncts of `C06_headline`.**
1. `C06.sufficiency` — pairs within B − 13: the preamble is parsed to completion without StuckOnInput, any
   segmentation and chunking
2. `C06.doc_bound_tight` — the documented bound `name + value + 13 ≤ B` implies the technical fit hypotheses
   used by C01/C07/C12 (nothing about tightness; tightness is Clause 7)
3. `C06.not_done_has_space` — an unfinished request parser that did not report StuckOnInput offers a non-
   empty buffer
4. `HeadlineExtra.C06_no_space_reports_stuck` = `C06.stuck_reported_at_once` + `C06.stuck_state` — if it
   cannot offer space, that very call returns `done` AND leaves `Fatal(StuckOnInput)`, which `into_request`
   returns
5. `C06.aligned_spec` — the effective buffer: ≥ configured, ≥ 24, multiple of 8
6. `C06.sufficiency_tight` — tightness: the fit condition is also necessary
7. `C06E.stuck_preamble_e2e_unbounded` — end to end: a unit that does not fit — the task returns, no
   handler, the replies owed so far
8. `C06E.fatal_preamble_e2e_unbounded` — end to end: a fatal preamble — RET, no handler, exactly the
   reference output
9. `C06E.read_has_space` — `parse_request` never offers the transport an empty buffer

**Modelling assumptions (obligations.json).**
* usize is 64 bit
* management GetValues bodies among the preamble's records: every undecodable tail of a body prefix is
  shorter than the buffer (NoiseFits) — implied by NoiseSmall: the body is a sequence of pairs each within
  the bound (any total length, also far longer than the buffer: complete pairs are released as parsed) or is
  at most L+8 by…
* Props/C06E2E (Proofs/E2EFatal, E2EStuck, E2EStuckPair): the property at the ASYNC level —
  `stuck_preamble_e2e` / `stuck_pair_e2e`: a preamble with a pair that does not fit the effective buffer,
  any record segmentation, any benign transport: runTask ends RET/finished, NO handler start, scripts
  untouched, log = the replies prod…

**Not proved as theorems — carried by the differential run + oracle, or trusted.**
* management GetValues bodies must fit (`NoiseSmall`); a hostile oversized pair is C03's StuckOnInput

-/

section
namespace Fcgi.C06
open Fcgi Fcgi.Req Fcgi.Spec Fcgi.C03 Fcgi.VarInt
/-- pairs within B − 13: the preamble is parsed to completion without StuckOnInput, any segmentation and chunking  (= `Fcgi.C06.sufficiency`, `Props/C06Suff.lean`) -/
def C06Clause1 : Prop :=
  ∀ {p : Preamble} {recs : List Rec} (h : WellFormedPreamble p recs)
    (extra : Bytes) (b mc : Nat)
    (hpairs : ∀ q ∈ p.pairs, q.1.length + q.2.length + 13 ≤ b)
    (hnoise : NoiseSmall (b - 13) recs) {cs : List Bytes}
    (hl : LegalFeed (Parser.new b mc) cs) (hW : cs.flatten = serAll recs ++ extra),
    (feedAll (Parser.new b mc) cs).1.state ≠ .fatal .stuckOnInput

theorem C06Clause1_holds : C06Clause1 := by
  unfold C06Clause1
  exact @sufficiency

end Fcgi.C06
end

section
namespace Fcgi.C06
open Fcgi Fcgi.Req Fcgi.Spec Fcgi.C03 Fcgi.VarInt
/-- the documented bound `name + value + 13 ≤ B` implies the technical fit hypotheses used by C01/C07/C12 (nothing about tightness; tightness is Clause 7)  (= `Fcgi.C06.doc_bound_tight`, `Props/C06Suff.lean`) -/
def C06Clause2 : Prop :=
  ∀ {p : Preamble} {recs : List Rec} (h : WellFormedPreamble p recs) (b : Nat)
    (hpairs : ∀ q ∈ p.pairs, q.1.length + q.2.length + 13 ≤ b)
    (hnoise : NoiseSmall (b - 13) recs),
    (∀ q ∈ p.pairs, (NV.enc q).length ≤ alignedBufsize b) ∧ NoiseFits (alignedBufsize b) recs

theorem C06Clause2_holds : C06Clause2 := by
  unfold C06Clause2
  exact @doc_bound_tight

end Fcgi.C06
end

section
namespace Fcgi.C06
open Fcgi Fcgi.Req
/-- an unfinished request parser that did not report StuckOnInput offers a non-empty buffer  (= `Fcgi.C06.not_done_has_space`, `Props/C06.lean`) -/
def C06Clause3 : Prop :=
  ∀ {p p' : Parser} {new : Bytes} {y : Yield} (hp : PInv p)
    (hn : new.length ≤ p.free) (h : p.parse new = (p', some y)) (hd : y.done = false),
    0 < p'.free

theorem C06Clause3_holds : C06Clause3 := by
  unfold C06Clause3
  exact @not_done_has_space

end Fcgi.C06
end

section
namespace Fcgi.Headline
open Fcgi Fcgi.Req

/-- if it cannot offer space, that very call returns `done` AND leaves `Fatal(StuckOnInput)`, which `into_request` returns  (`HeadlineExtra.C06_no_space_reports_stuck` = `C06.stuck_reported_at_once` + `C06.stuck_state`) -/
def C06Clause4 : Prop :=
  ∀ {p p' : Req.Parser} {new : Bytes} {y : Yield} (hp : PInv p)
    (hn : new.length ≤ p.free) (h : p.parse new = (p', some y)) (hfree : p'.free = 0)
    (hnf : (run p.state (p.input ++ new) p.maxConns).st.isFinal = false),
    y.done = true ∧ p'.state = .fatal .stuckOnInput ∧ p'.intoRequest = .error .stuckOnInput

theorem C06Clause4_holds : C06Clause4 := by
  unfold C06Clause4
  intro p p' new y hp hn h hfree hnf
  exact ⟨C06.stuck_reported_at_once hp hn h hfree, C06.stuck_state hp hn h hfree hnf⟩
end Fcgi.Headline
end

section
namespace Fcgi.C06
open Fcgi Fcgi.Req
/-- the effective buffer: ≥ configured, ≥ 24, multiple of 8  (= `Fcgi.C06.aligned_spec`, `Props/C06.lean`) -/
def C06Clause5 : Prop :=
  ∀ (b : Nat) (h : b + 7 < 2 ^ 64),
    alignedBufsize b % 8 = 0 ∧ 24 ≤ alignedBufsize b ∧ b ≤ alignedBufsize b ∧
      (alignedBufsize b < b + 8 ∨ alignedBufsize b = 24)

theorem C06Clause5_holds : C06Clause5 := by
  unfold C06Clause5
  exact @aligned_spec

end Fcgi.C06
end

section
namespace Fcgi.C06
open Fcgi Fcgi.Req Fcgi.Spec Fcgi.C03 Fcgi.VarInt
/-- tightness: the fit condition is also necessary  (= `Fcgi.C06.sufficiency_tight`, `Props/C06Suff.lean`) -/
def C06Clause6 : Prop :=
  ∀ {p : Preamble} {recs : List Rec} (h : WellFormedPreamble p recs)
    (extra : Bytes) (b mc : Nat)
    (hpairs : ∀ q ∈ p.pairs, (NV.enc q).length ≤ alignedBufsize b)
    (hnoise : NoiseFits (alignedBufsize b) recs) {cs : List Bytes}
    (hl : LegalFeed (Parser.new b mc) cs) (hW : cs.flatten <+: serAll recs ++ extra),
    (feedAll (Parser.new b mc) cs).1.state ≠ .fatal .stuckOnInput

theorem C06Clause6_holds : C06Clause6 := by
  unfold C06Clause6
  exact @sufficiency_tight

end Fcgi.C06
end

section
namespace Fcgi.C06E
open Fcgi Fcgi.Req Fcgi.Str Fcgi.Async Fcgi.Run Fcgi.Spec Fcgi.E2E Fcgi.C07E Fcgi.C06 Fcgi.VarInt
/-- end to end: a unit that does not fit — the task returns, no handler, the replies owed so far  (= `Fcgi.C06E.stuck_preamble_e2e_unbounded`, `Props/C06Unbounded.lean`) -/
def C06Clause7 : Prop :=
  ∀ {Wk W O : Bytes} (b mc : Nat) (scripts : List (List HOp × Bool)) (t : Transport)
    (fuel : Nat) (K : SCtx (alignedBufsize b) mc Wk W O)
    (hin : t.input = W) (hb : Ben t)
    (hfuel : t.rd.length + t.wr.length + 1 ≤ fuel),
    ∃ c', runTask fuel (connS b mc t scripts) 0 none = (c', "RET") ∧ c'.phase = .finished ∧
      hsCount c'.env.tr.events = hsCount t.events ∧ c'.scripts = scripts ∧
      c'.env.tr.wlog = t.wlog ++ O

theorem C06Clause7_holds : C06Clause7 := by
  unfold C06Clause7
  exact @stuck_preamble_e2e_unbounded

end Fcgi.C06E
end

section
namespace Fcgi.C06E
open Fcgi Fcgi.Req Fcgi.Str Fcgi.Async Fcgi.Run Fcgi.Spec Fcgi.E2E Fcgi.C07E Fcgi.C06 Fcgi.VarInt
/-- end to end: a fatal preamble — RET, no handler, exactly the reference output  (= `Fcgi.C06E.fatal_preamble_e2e_unbounded`, `Props/C06Unbounded.lean`) -/
def C06Clause8 : Prop :=
  ∀ {Wf Z : Bytes} {e : PErr} (b mc : Nat) (scripts : List (List HOp × Bool))
    (t : Transport) (fuel : Nat)
    (hfat : (run .header Wf mc).st = .fatal e) (hsmall : Wf.length < alignedBufsize b)
    (hin : t.input = Wf ++ Z) (hb : Ben t)
    (hfuel : t.rd.length + t.wr.length + 1 ≤ fuel),
    ∃ c', runTask fuel (connS b mc t scripts) 0 none = (c', "RET") ∧ c'.phase = .finished ∧
      hsCount c'.env.tr.events = hsCount t.events ∧ c'.scripts = scripts ∧
      c'.env.tr.wlog = t.wlog ++ (run .header Wf mc).out ∧
      (run .header Wf mc).out = (C04H.reqRef mc Wf).out

theorem C06Clause8_holds : C06Clause8 := by
  unfold C06Clause8
  exact @fatal_preamble_e2e_unbounded

end Fcgi.C06E
end

section
namespace Fcgi.C06E
open Fcgi Fcgi.Req Fcgi.Str Fcgi.Async Fcgi.Run Fcgi.Spec Fcgi.E2E Fcgi.C07E Fcgi.C06 Fcgi.VarInt
/-- `parse_request` never offers the transport an empty buffer  (= `Fcgi.C06E.read_has_space`, `Props/C06E2E.lean`) -/
def C06Clause9 : Prop :=
  ∀ {c : Conn} {rp : Req.Parser} (h : RGood c) (hp : c.phase = .parseReq rp .reading),
    0 < rp.free

theorem C06Clause9_holds : C06Clause9 := by
  unfold C06Clause9
  exact @read_has_space

end Fcgi.C06E
end

namespace Fcgi.Headline
/-- **C06** — see the section comment above for the clause-by-clause reading. -/
theorem C06_headline :
    Fcgi.C06.C06Clause1 ∧
    Fcgi.C06.C06Clause2 ∧
    Fcgi.C06.C06Clause3 ∧
    Fcgi.Headline.C06Clause4 ∧
    Fcgi.C06.C06Clause5 ∧
    Fcgi.C06.C06Clause6 ∧
    Fcgi.C06E.C06Clause7 ∧
    Fcgi.C06E.C06Clause8 ∧
    Fcgi.C06E.C06Clause9 :=
  ⟨Fcgi.C06.C06Clause1_holds, Fcgi.C06.C06Clause2_holds, Fcgi.C06.C06Clause3_holds, Fcgi.Headline.C06Clause4_holds, Fcgi.C06.C06Clause5_holds, Fcgi.C06.C06Clause6_holds, Fcgi.C06E.C06Clause7_holds, Fcgi.C06E.C06Clause8_holds, Fcgi.C06E.C06Clause9_holds⟩
end Fcgi.Headline


/-! # C07

**Property.**
> For a client that keeps at most one request outstanding per connection, every request whose preamble
> arrives completely causes exactly one handler invocation, which sees exactly that request's environment
> and input streams; it is answered - after all handler output and all pending management replies - by empty
> Stdout and Stderr records followed by exactly one EndRequest carrying the handler's exit status and the
> request's id. The connection then serves the next request if and only if the request set the keep-
> connection flag and no I/O error occurred, even when the handler left input unread, for every way the
> transport splits or delays reads and writes.

**Clause by clause.**
* “every request whose preamble arrives completely causes exactly one handler invocation, which sees exactly
  that request's environment and input streams” — Clauses 1–3 (`single_request_e2e_full_holds` /
  `_authorizer` / `_filter`): `hsCount = 1`, the `HS(…)` event carries the spec request, the `readAll`s
  return the contents; for the role's canonical handler over ANY benign transport (arbitrary read/write
  splitting, transient Pendings).
* “answered — after all handler output and all pending management replies — by empty Stdout and Stderr
  records followed by exactly one EndRequest carrying the handler's exit status and the request's id” — the
  `log` field of the same theorems: `owedPreamble ++ O₁ ++ Stdout records ++ O₂ ++ [Stdout∅, Stderr∅,
  EndRequest(id, st)]`.
* “the connection then serves the next request iff the request set the keep-connection flag and no I/O error
  occurred, even when the handler left input unread” — 'only if': Clause 5 (step level: going on from
  `close` ⇒ KEEP_CONN ∧ no writer alive ∧ output ++ epilogue fully written); both directions at run level:
  the `final` fields of Clauses 1–4 (`k_requests_e2e`: k mixed requests); the error half is C12.  Unread
  input: Clauses 6–9 (`unread_request_e2e`, `unread_prefix_e2e_full_holds`, `authorizer_tail_e2e_unbounded`,
  `unread_filter_e2e_unbounded`; hypothesis `hnb`: no BeginRequest among the unread records — forced).
* “for every way the transport splits or delays reads and writes; handler families” — every e2e clause: `Ben
  t` (arbitrary splitting, transient Pendings, no faults) and the canonical handler family: `readAll` + one
  Stdout `write_all` + `ret` (Clauses 1–4), non-reading / prefix-reading (6–9), `AsyncBufRead` handlers
  (Clauses 10–12), two writers with any sequence of `write_all`s and `flush`es (Clauses 13–20,
  `Props/C07Writers.lean` … `C07Writers4.lean`; 17–18, 20: a Filter), the echo Responder — writes
  interleaved with reads (Clauses 21–22, `Props/C07Echo.lean`).  All e2e clauses are size-free: no bound on
  the wire length or the buffer.  MODEL FUEL: since the model's handler fuel pays for what is left of the
  handler script (`Props/C07ScriptFuel.lean`), NO clause of C07 has a cost hypothesis `hhf` any more:
  Clauses 1–4 (`Props/C07NoFuel.lean`), 6, 13–18 and 21–26 have none; Clauses 10–12
  (`Props/C07NoFuel7.lean`, `C07NoFuel5.lean`: any number of `fill_buf`/`consume` rounds; Clause 10 still
  needs `|content| ≤ n`, a hypothesis about the script) neither; Clause 6 is the `_nofuel` version of
  `Props/C07NoFuel2.lean`; Clauses 13–18 (`Props/C07NoFuel3.lean`, `C07NoFuel4.lean`) have NO cost
  hypothesis either; Clauses 15–18 need `hfl` (no error among the flush answers; `hfuel` then counts
  `|t.fl|` too) and nothing about the later handler scripts (`E2E.stepConn_fs`); Clauses 19–20
  (`Props/C07ScriptFuel.lean`) are the reason no cost hypothesis is needed: the fuel guard of the handler
  poll is unreachable for every script (under `SInv r.sp`).  Clause 21: reads of ONE byte (`m = 1`: the
  unrolled script is then independent of the transport's chunking) and `hquiet` (the noise inside Stdin owes
  no reply); Clauses 23–24 (`Props/C07Echo2.lean`, ledger `Proofs/E2ELedger`) remove `hquiet`: the log is
  then an interleaving of replies and handler records (not stated: that no reply RECORD is cut by a handler
  record).  Clauses 25–26 (`Props/C07Echo3.lean`) add what the reads RETURNED — the write-log conclusions of
  Clauses 21 and 23 alone would also hold if every `read(1)` returned garbage, because the model's scripts
  carry their write data —: the read events `r=1:<b>` (one per content byte, in order) and `r=0:-` are an
  in-order sublist of the trace (not proved: that no other `r=` event occurs).

**The conjuncts of `C07_headline`.**
1. `C07E.single_request_e2e_nofuel` — Responder, canonical handler, any benign transport, ANY wire length:
   one handler start with the spec request, reads = stream content, log = replies ++ Stdout ++ replies ++
   [Stdout∅, Stderr∅, EndRequest(id, st)], RET or parked (no size bound on the wire: `Props/C07Unbounded.lean`)
2. `C07E.single_request_e2e_authorizer_nofuel` — the same for an Authorizer
3. `C07E.single_request_e2e_filter_nofuel` — the same for a Filter (two input streams)
4. `C07E.k_requests_e2e_nofuel` — k keep-alive requests of mixed roles on one connection, closed-loop
   client, no size bound
5. `HeadlineExtra.C07_reuse_only_with_keepconn` = `C07.reuse_iff` + `C07.close_writes_epilogue` — the
   connection goes on from `close` ONLY IF the request had KEEP_CONN, no writer was alive, and `close` wrote
   everything pending plus the epilogue with the handler's status (step level; both directions at run level are
   the `final` fields of Clauses 1–4)
6. `C07U.unread_request_e2e_nofuel` — handler reads nothing: served, the unread stream goes to the next
   request parser (no size bound)
7. `C07U.unread_prefix_e2e_unbounded` — handler reads a strict prefix (no size bound)
8. `C07U.authorizer_tail_e2e_nofuel` — Authorizer followed by more traffic
9. `C07U.unread_filter_e2e_unbounded` — a Filter left wholly unread
10. `C07B.single_request_bufread_e2e_nofuel` — a handler that drains Stdin through `AsyncBufRead`
   (`fill_buf`/`consume`): any number of rounds `n ≥ |content|`, any output (no size bound, no cost hypothesis)
11. `C07B.bufread_then_readall_e2e_nofuel` — `fill_buf`/`consume` followed by `read_to_end`: any number of
   rounds, any output (no size bound, no cost hypothesis)
12. `C07B.bufread_part_e2e_nofuel` — a handler that consumes only part of what `fill_buf` showed: any number
   of rounds (no size bound, no cost hypothesis)
13. `C07W.single_request_writers_e2e_nofuel` — TWO writers (Stdout, Stderr), ANY sequence of `write_all`s
   (empty, or longer than 65 535 bytes = several records): every write is on the wire exactly once, in script
   order, records never interleaved; no size bound
14. `C07W.writers_chain_e2e_okn` — … and with KEEP_CONN the connection then serves the following requests
15. `C07W.single_request_writers_flush_e2e_nomore_nofuel` — … with `flush` calls anywhere in the script and
   arbitrary Pending/Ok flush answers: a flush contributes no byte (no hypothesis on later scripts, no cost
   hypothesis)
16. `C07W.writers_flush_chain_e2e_okn` — … chain step of the flush variant
17. `C07W.filter_writers_flush_e2e_nomore_nofuel` — the same for a FILTER: reads Stdin, switches to Data,
   reads Data, then any `write_all`/`flush` script on two writers (no `hmore`, no cost hypothesis)
18. `C07W.filter_writers_flush_chain_e2e_okn` — … chain step
19. `C07SF.handlerPoll_guard_unreachable` — WHY no cost hypothesis is needed: with the fuel `pollConn`
   passes (it pays for what is left of the handler script) a panic of the handler poll is a modelled panic site
   of the Rust, never the model's fuel guard — for EVERY script
20. `C07SF.handler_phase_guard_unreachable` — … the same at the level of the connection task (`stepConn` in
   the handler phase)
21. `C07W.echo_responder_e2e` — the ECHO Responder — writes INTERLEAVED with reads (`read(1)`; `write_all`
   of that byte; …): one Stdout record per content byte, in order; restrictions: reads of 1 byte, Stdin noise
   that owes no reply (`hquiet`); no fuel hypothesis; this clause states the LOG — that the reads return those
   bytes is Clauses 25–26
22. `C07W.payloads_echo` — … and the concatenated Stdout payloads ARE the Stdin content (true by
   construction of the script; the reads are Clauses 25–26)
23. `C07W.echo_responder_e2e_noise` — the echo Responder with ANY Stdin noise (no `hquiet`): the log behind
   the preamble replies is an INTERLEAVING (`Ilv`) of the replies owed for the noise and the handler output
   (one Stdout record per content byte, then the epilogue)
24. `C07W.ilv_segs` — … `Ilv w a h`: `w` is a concatenation of segments whose reply pieces concatenate to
   `a` and whose handler pieces concatenate to `h`, each in order
25. `C07W.echo_responder_e2e_noise_reads` — the same run, AND what the reads returned: the trace contains,
   as an in-order SUBLIST, the events `r=1:<b>` for each content byte `b`, then `r=0:-` — the i-th `read(1)`
   returned the byte the i-th `write_all` writes (not stated: that no OTHER `r=` event occurs)
26. `C07W.echo_responder_e2e_reads` — … the same for the reply-free case (`hquiet`)

**Modelling assumptions (obligations.json).**
* executor fairness, real sockets and wakers beyond the harness' flag/counting wakers are outside the model
* the differential run + oracle carry the remaining composition (other roles, other handlers, stream noise
  with replies, faults)
* end-to-end composition (Props/C07E2E, Proofs/E2E*): `single_request_e2e_full_holds` — a well-formed
  request (any preamble segmentation and noise within the C06 bound; any Stdin/Data record segmentation with
  noise that owes replies, `NoiseFits`) served by the role's canonical handler (Responder: read all, write
  `data` to Stdou…

**Not proved as theorems — carried by the differential run + oracle, or trusted.**
* handlers outside those families (more than two writers, writers kept alive at return; writes interleaved
  with reads only PARTIALLY: the echo Responder of Clauses 21–26 with 1-byte reads; the read events as an
  in-order sublist of the trace, exclusivity of `r=` events not proved) and transports with faults (C12) are
  enumerated by the differential run + oracle
* executor fairness, real sockets and wakers are outside the model

-/

section
namespace Fcgi.C07E
open Fcgi Fcgi.Req Fcgi.Str Fcgi.Async Fcgi.Run Fcgi.Spec Fcgi.E2E
/-- Responder, canonical handler, any benign transport, ANY wire length: one handler start with the spec request, reads = stream content, log = replies ++ Stdout ++ replies ++ [Stdout∅, Stderr∅, EndRequest(id, st)], RET or parked (no size bound on the wire: `Props/C07Unbounded.lean`)  (= `Fcgi.C07E.single_request_e2e_nofuel`, `Props/C07NoFuel.lean`) -/
def C07Clause1 : Prop :=
  ∀ {p : Preamble} {recs : List Rec} {content : Bytes} {srecs : List Rec}
    {b mc : Nat} {data : Bytes} {st : ExitStatus} {t : Transport} {fuel : Nat}
    (hwf : WellFormedPreamble p recs) (hrole : p.role = 1)
    (hpairs : ∀ q ∈ p.pairs, (NV.enc q).length ≤ alignedBufsize b)
    (hnoise : NoiseFits (alignedBufsize b) recs)
    (hs : StreamRecs p.id 5 content srecs) (hsn : NoiseFits (alignedBufsize b) srecs)
    (hin : t.input = serAll recs ++ serAll srecs) (hben : Ben t) (hev : hsCount t.events = 0)
    (hfuel : t.rd.length + t.wr.length + 1 ≤ fuel),
    ∃ c' fin O₁ O₂, runTask fuel (conn0 b mc t data st) 0 none = (c', fin) ∧
      O₁ ++ O₂ = owedStream p.id 5 mc srecs ∧
      OutcomeN p content b mc t.wlog (expectedLogN p recs mc data st O₁ O₂) t c' fin

theorem C07Clause1_holds : C07Clause1 := by
  unfold C07Clause1
  exact @single_request_e2e_nofuel

end Fcgi.C07E
end

section
namespace Fcgi.C07E
open Fcgi Fcgi.Req Fcgi.Str Fcgi.Async Fcgi.Run Fcgi.Spec Fcgi.E2E
/-- the same for an Authorizer  (= `Fcgi.C07E.single_request_e2e_authorizer_nofuel`, `Props/C07NoFuel.lean`) -/
def C07Clause2 : Prop :=
  ∀ {p : Preamble} {recs : List Rec}
    {b mc : Nat} {data : Bytes} {st : ExitStatus} {t : Transport} {fuel : Nat}
    (hwf : WellFormedPreamble p recs) (hrole : p.role = 2)
    (hpairs : ∀ q ∈ p.pairs, (NV.enc q).length ≤ alignedBufsize b)
    (hnoise : NoiseFits (alignedBufsize b) recs)
    (hin : t.input = serAll recs) (hben : Ben t) (hev : hsCount t.events = 0)
    (hfuel : t.rd.length + t.wr.length + 1 ≤ fuel),
    ∃ c' fin, runTask fuel (connS b mc t [(canonicalA data st, true)]) 0 none = (c', fin) ∧
      OutcomeG p [] b mc t.wlog (expectedLog p recs mc data st) t c' fin

theorem C07Clause2_holds : C07Clause2 := by
  unfold C07Clause2
  exact @single_request_e2e_authorizer_nofuel

end Fcgi.C07E
end

section
namespace Fcgi.C07E
open Fcgi Fcgi.Req Fcgi.Str Fcgi.Async Fcgi.Run Fcgi.Spec Fcgi.E2E
/-- the same for a Filter (two input streams)  (= `Fcgi.C07E.single_request_e2e_filter_nofuel`, `Props/C07NoFuel.lean`) -/
def C07Clause3 : Prop :=
  ∀ {p : Preamble} {recs : List Rec} {content : Bytes} {srecs : List Rec}
    {content2 : Bytes} {drecs : List Rec}
    {b mc : Nat} {data : Bytes} {st : ExitStatus} {t : Transport} {fuel : Nat}
    (hwf : WellFormedPreamble p recs) (hrole : p.role = 3)
    (hpairs : ∀ q ∈ p.pairs, (NV.enc q).length ≤ alignedBufsize b)
    (hnoise : NoiseFits (alignedBufsize b) recs)
    (hs : StreamRecs p.id 5 content srecs) (hsn : NoiseFits (alignedBufsize b) srecs)
    (hd : StreamRecs p.id 8 content2 drecs) (hdn : NoiseFits (alignedBufsize b) drecs)
    (hin : t.input = serAll recs ++ (serAll srecs ++ serAll drecs)) (hben : Ben t) (hev : hsCount t.events = 0)
    (hfuel : t.rd.length + t.wr.length + 1 ≤ fuel),
    ∃ c' fin O₁ O₂, runTask fuel (connS b mc t [(canonicalF data st, true)]) 0 none = (c', fin) ∧
      O₁ ++ O₂ = owedStream p.id 5 mc srecs ++ owedStream p.id 8 mc drecs ∧
      OutcomeG p [content, content2] b mc t.wlog (expectedLogN p recs mc data st O₁ O₂) t c' fin

theorem C07Clause3_holds : C07Clause3 := by
  unfold C07Clause3
  exact @single_request_e2e_filter_nofuel

end Fcgi.C07E
end

section
namespace Fcgi.C07E
open Fcgi Fcgi.Req Fcgi.Str Fcgi.Async Fcgi.Run Fcgi.Spec Fcgi.E2E
/-- k keep-alive requests of mixed roles on one connection, closed-loop client, no size bound  (= `Fcgi.C07E.k_requests_e2e_nofuel`, `Props/C07NoFuel.lean`) -/
def C07Clause4 : Prop :=
  ∀ {b mc : Nat} (q : Sent) (qs : List Sent) {t : Transport} {fuel : Nat}
    (hok : ∀ q' ∈ q :: qs, q'.OKn b)
    (hkeep : ∀ q' ∈ (q :: qs).dropLast, q'.p.flags.toNat % 2 = 1)
    (hin : t.input = q.wire) (hben : Ben t) (hem : t.endMode = .pend) (hev : hsCount t.events = 0)
    (hfuel : t.rd.length + t.wr.length + 1 ≤ fuel),
    ∃ c' fin A, closedLoop fuel (qs.map Sent.wire) (connK b mc t (q :: qs)) 0 = (c', fin) ∧
      AnswerAll mc (q :: qs) A ∧ c'.env.tr.wlog = t.wlog ++ A ∧
      hsCount c'.env.tr.events = (q :: qs).length ∧
      (∀ q' ∈ q :: qs, startEvent q'.p.request ∈ c'.env.tr.events ∧
        ∀ d ∈ q'.reads, readEvent d ∈ c'.env.tr.events) ∧
      c'.scripts = [] ∧
      ((((q :: qs).getLast (by simp)).p.flags.toNat % 2 = 1 ∧ fin = "STALL" ∧
          c'.phase = .parseReq ⟨alignedBufsize b, [], .header, mc⟩ .reading ∧ c'.env.tr.input = []) ∨
       (((q :: qs).getLast (by simp)).p.flags.toNat % 2 = 0 ∧ fin = "RET" ∧ c'.phase = .finished))

theorem C07Clause4_holds : C07Clause4 := by
  unfold C07Clause4
  exact @k_requests_e2e_nofuel

end Fcgi.C07E
end

section
namespace Fcgi.Headline
open Fcgi Fcgi.Req Fcgi.Str Fcgi.Async Fcgi.Run

/-- the connection goes on from `close` ONLY IF the request had KEEP_CONN, no writer was alive, and `close` wrote everything pending plus the epilogue with the handler's status (step level; both directions at run level are the `final` fields of Clauses 1–4)  (`HeadlineExtra.C07_reuse_only_with_keepconn` = `C07.reuse_iff` + `C07.close_writes_epilogue`) -/
def C07Clause5 : Prop :=
  ∀ (c : Conn) (r : AReq) (cs : CloseSt) (status : ExitStatus) (alive : Nat)
    (hp : c.phase = .closing r cs status alive) (hl : cs.late = false) {c' : Conn}
    (hs : stepConn c = .next c'),
    r.sp.request.flags.toNat % 2 = 1 ∧ alive = 0 ∧
    ∃ r' cs' m t' rp X r2, closePoll r cs status alive c.env.mutex c.env.tr = (r', cs', m, t', .reuse rp) ∧
      r2.sp.request = r.sp.request ∧
      t'.wlog = c.env.tr.wlog ++ X ++ r2.sp.output ++ epilogueOf r2 status ∧
      rp = Req.Parser.fromParser r'.sp.cap r'.sp.raw r'.sp.maxConns

theorem C07Clause5_holds : C07Clause5 := by
  unfold C07Clause5
  intro c r cs status alive hp hl c' hs
  obtain ⟨r', cs', m, t', rp, hc⟩ := (C07.reuse_iff c r cs status alive hp).1 ⟨c', hs⟩
  obtain ⟨X, r2, h1, h2, h3, h4, h5⟩ := C07.close_writes_epilogue hc hl
  exact ⟨h4, h3, r', cs', m, t', rp, X, r2, hc, h1, h2, h5⟩
end Fcgi.Headline
end

section
namespace Fcgi.C07U
open Fcgi Fcgi.Req Fcgi.Str Fcgi.Async Fcgi.Run Fcgi.Spec Fcgi.E2E Fcgi.C07E
/-- handler reads nothing: served, the unread stream goes to the next request parser (no size bound)  (= `Fcgi.C07U.unread_request_e2e_nofuel`, `Props/C07NoFuel2.lean`) -/
def C07Clause6 : Prop :=
  ∀ {p : Preamble} {recs : List Rec} {content : Bytes} {srecs : List Rec}
    {b mc : Nat} {data : Bytes} {st : ExitStatus} {hs : List HOp} {more : List (List HOp × Bool)}
    {t : Transport} {fuel : Nat}
    (hnr : NoRead hs data st)
    (hwf : WellFormedPreamble p recs) (hrole : p.role = 1) (hk : p.flags.toNat % 2 = 1)
    (hpairs : ∀ q ∈ p.pairs, (NV.enc q).length ≤ alignedBufsize b)
    (hnoise : NoiseFits (alignedBufsize b) recs)
    (hstr : StreamRecs p.id 5 content srecs) (hsn : NoiseFits (alignedBufsize b) srecs)
    (hnb : ∀ r ∈ srecs, r.rtype.toNat ≠ RT.beginRequest)
    (hin : t.input = serAll recs ++ serAll srecs) (hben : Ben t) (hev : hsCount t.events = 0)
    (hfuel : t.rd.length + t.wr.length + 1 ≤ fuel),
    ∃ c' fin, runTask fuel (connS b mc t ((hs, true) :: more)) 0 none = (c', fin) ∧
      UnreadOutcome p srecs b mc
        (t.wlog ++ (owedPreamble p mc recs ++ streamRecords 6 p.id data ++ epilogue p.id st ++
          owedStream p.id 5 mc srecs)) more t c' fin

theorem C07Clause6_holds : C07Clause6 := by
  unfold C07Clause6
  exact @unread_request_e2e_nofuel

end Fcgi.C07U
end

section
namespace Fcgi.C07U
open Fcgi Fcgi.Req Fcgi.Str Fcgi.Async Fcgi.Run Fcgi.Spec Fcgi.E2E Fcgi.C07E
/-- handler reads a strict prefix (no size bound)  (= `Fcgi.C07U.unread_prefix_e2e_unbounded`, `Props/C07Unbounded.lean`) -/
def C07Clause7 : Prop :=
  ∀ {p : Preamble} {recs : List Rec} {content : Bytes} {srecs : List Rec}
    {b mc n : Nat} {st : ExitStatus} {more : List (List HOp × Bool)} {t : Transport} {fuel : Nat}
    (hn : 0 < n)
    (hwf : WellFormedPreamble p recs) (hrole : p.role = 1) (hk : p.flags.toNat % 2 = 1)
    (hpairs : ∀ q ∈ p.pairs, (NV.enc q).length ≤ alignedBufsize b)
    (hnoise : NoiseFits (alignedBufsize b) recs)
    (hstr : StreamRecs p.id 5 content srecs) (hsn : NoiseFits (alignedBufsize b) srecs)
    (hnb : ∀ r ∈ srecs, r.rtype.toNat ≠ RT.beginRequest)
    (hin : t.input = serAll recs ++ serAll srecs) (hben : Ben t) (hev : hsCount t.events = 0)
    (hfuel : t.rd.length + t.wr.length + 1 ≤ fuel),
    ∃ c' fin s₁ s₂ d, runTask fuel (connS b mc t ((readSome n st, true) :: more)) 0 none = (c', fin) ∧
      PrefixOutcome p recs content srecs s₁ s₂ d b mc st more t c' fin

theorem C07Clause7_holds : C07Clause7 := by
  unfold C07Clause7
  exact @unread_prefix_e2e_unbounded

end Fcgi.C07U
end

section
namespace Fcgi.C07U
open Fcgi Fcgi.Req Fcgi.Str Fcgi.Async Fcgi.Run Fcgi.Spec Fcgi.E2E Fcgi.C07E
/-- Authorizer followed by more traffic  (= `Fcgi.C07U.authorizer_tail_e2e_nofuel`, `Props/C07NoFuel5.lean`) -/
def C07Clause8 : Prop :=
  ∀ {p : Preamble} {recs tail : List Rec} {b mc : Nat} {rd : ARead} {wr : Bool}
    {data : Bytes} {st : ExitStatus} {more : List (List HOp × Bool)} {t : Transport} {fuel : Nat}
    (hwf : WellFormedPreamble p recs) (hrole : p.role = 2)
    (hpairs : ∀ q ∈ p.pairs, (NV.enc q).length ≤ alignedBufsize b)
    (hnoise : NoiseFits (alignedBufsize b) recs)
    (htail : ∀ r ∈ tail, StreamNoise p.id r) (htn : NoiseFits (alignedBufsize b) tail)
    (hnb : ∀ r ∈ tail, r.rtype.toNat ≠ RT.beginRequest)
    (hwd : wr = false → data = [])
    (hin : t.input = serAll recs ++ serAll tail) (hben : Ben t) (hev : hsCount t.events = 0)
    (hfuel : t.rd.length + t.wr.length + 1 ≤ fuel),
    ∃ c' fin t₁ t₂ O₁ O₂, runTask fuel (connS b mc t ((aHandler rd wr data st, true) :: more)) 0 none = (c', fin) ∧
      AuthTailOutcome p recs tail t₁ t₂ O₁ O₂ rd b mc data st more t c' fin

theorem C07Clause8_holds : C07Clause8 := by
  unfold C07Clause8
  exact @authorizer_tail_e2e_nofuel

end Fcgi.C07U
end

section
namespace Fcgi.C07U
open Fcgi Fcgi.Req Fcgi.Str Fcgi.Async Fcgi.Run Fcgi.Spec Fcgi.E2E Fcgi.C07E
/-- a Filter left wholly unread  (= `Fcgi.C07U.unread_filter_e2e_unbounded`, `Props/E2EUnbounded.lean`) -/
def C07Clause9 : Prop :=
  ∀ {p : Preamble} {recs : List Rec} {content : Bytes} {srecs : List Rec}
    {content2 : Bytes} {drecs : List Rec}
    {b mc : Nat} {st : ExitStatus} {more : List (List HOp × Bool)} {t : Transport} {fuel : Nat}
    (hwf : WellFormedPreamble p recs) (hrole : p.role = 3) (hk : p.flags.toNat % 2 = 1)
    (hpairs : ∀ q ∈ p.pairs, (NV.enc q).length ≤ alignedBufsize b)
    (hnoise : NoiseFits (alignedBufsize b) recs)
    (hs : StreamRecs p.id 5 content srecs) (hsn : NoiseFits (alignedBufsize b) srecs)
    (hd : StreamRecs p.id 8 content2 drecs) (hdn : NoiseFits (alignedBufsize b) drecs)
    (hnb : ∀ r ∈ drecs, r.rtype.toNat ≠ RT.beginRequest)
    (hin : t.input = serAll recs ++ (serAll srecs ++ serAll drecs)) (hben : Ben t) (hev : hsCount t.events = 0)
    (hfuel : t.rd.length + t.wr.length + 1 ≤ fuel),
    ∃ c' fin d₁ s₂, runTask fuel (connS b mc t (([.ret st], true) :: more)) 0 none = (c', fin) ∧
      FilterOutcome p recs srecs drecs d₁ s₂ b mc st more t c' fin

theorem C07Clause9_holds : C07Clause9 := by
  unfold C07Clause9
  exact @unread_filter_e2e_unbounded

end Fcgi.C07U
end

section
namespace Fcgi.C07B
open Fcgi Fcgi.Req Fcgi.Str Fcgi.Async Fcgi.Run Fcgi.Spec Fcgi.E2E Fcgi.C07E Fcgi.C07U
/-- a handler that drains Stdin through `AsyncBufRead` (`fill_buf`/`consume`): any number of rounds `n ≥ |content|`, any output (no size bound, no cost hypothesis)  (= `Fcgi.C07B.single_request_bufread_e2e_nofuel`, `Props/C07NoFuel7.lean`) -/
def C07Clause10 : Prop :=
  ∀ {p : Preamble} {recs : List Rec} {content : Bytes} {srecs : List Rec}
    {b mc n k : Nat} {data : Bytes} {st : ExitStatus} {more : List (List HOp × Bool)} {t : Transport} {fuel : Nat}
    (hwf : WellFormedPreamble p recs) (hrole : p.role = 1)
    (hpairs : ∀ q ∈ p.pairs, (NV.enc q).length ≤ alignedBufsize b)
    (hnoise : NoiseFits (alignedBufsize b) recs)
    (hs : StreamRecs p.id 5 content srecs) (hsn : NoiseFits (alignedBufsize b) srecs)
    (hk : 0 < k) (hn : content.length ≤ n)
    (hin : t.input = serAll recs ++ serAll srecs) (hben : Ben t) (hev : hsCount t.events = 0)
    (hfuel : t.rd.length + t.wr.length + 1 ≤ fuel),
    ∃ c' fin O₁ O₂ shown pad res,
      runTask fuel (connS b mc t ((bscript n k data st, true) :: more)) 0 none = (c', fin) ∧
      O₁ ++ O₂ = owedStream p.id 5 mc srecs ∧
      BufReadOutcome p recs content k shown O₁ O₂ pad res b mc data st more t c' fin

theorem C07Clause10_holds : C07Clause10 := by
  unfold C07Clause10
  exact @single_request_bufread_e2e_nofuel

end Fcgi.C07B
end

section
namespace Fcgi.C07B
open Fcgi Fcgi.Req Fcgi.Str Fcgi.Async Fcgi.Run Fcgi.Spec Fcgi.E2E Fcgi.C07E Fcgi.C07U
/-- `fill_buf`/`consume` followed by `read_to_end`: any number of rounds, any output (no size bound, no cost hypothesis)  (= `Fcgi.C07B.bufread_then_readall_e2e_nofuel`, `Props/C07NoFuel5.lean`) -/
def C07Clause11 : Prop :=
  ∀ {p : Preamble} {recs : List Rec} {content : Bytes} {srecs : List Rec}
    {b mc n k : Nat} {data : Bytes} {st : ExitStatus} {more : List (List HOp × Bool)} {t : Transport} {fuel : Nat}
    (hwf : WellFormedPreamble p recs) (hrole : p.role = 1)
    (hpairs : ∀ q ∈ p.pairs, (NV.enc q).length ≤ alignedBufsize b)
    (hnoise : NoiseFits (alignedBufsize b) recs)
    (hs : StreamRecs p.id 5 content srecs) (hsn : NoiseFits (alignedBufsize b) srecs)
    (hin : t.input = serAll recs ++ serAll srecs) (hben : Ben t) (hev : hsCount t.events = 0)
    (hfuel : t.rd.length + t.wr.length + 1 ≤ fuel),
    ∃ c' fin O₁ O₂ shown acc pad res,
      runTask fuel (connS b mc t ((bscript2 n k data st, true) :: more)) 0 none = (c', fin) ∧
      O₁ ++ O₂ = owedStream p.id 5 mc srecs ∧
      BufReadAllOutcome p recs content k shown acc O₁ O₂ pad res b mc data st more t c' fin

theorem C07Clause11_holds : C07Clause11 := by
  unfold C07Clause11
  exact @bufread_then_readall_e2e_nofuel

end Fcgi.C07B
end

section
namespace Fcgi.C07B
open Fcgi Fcgi.Req Fcgi.Str Fcgi.Async Fcgi.Run Fcgi.Spec Fcgi.E2E Fcgi.C07E Fcgi.C07U
/-- a handler that consumes only part of what `fill_buf` showed: any number of rounds (no size bound, no cost hypothesis)  (= `Fcgi.C07B.bufread_part_e2e_nofuel`, `Props/C07NoFuel7.lean`) -/
def C07Clause12 : Prop :=
  ∀ {p : Preamble} {recs : List Rec} {content : Bytes} {srecs : List Rec}
    {b mc n k : Nat} {st : ExitStatus} {more : List (List HOp × Bool)} {t : Transport} {fuel : Nat}
    (hwf : WellFormedPreamble p recs) (hrole : p.role = 1)
    (hpairs : ∀ q ∈ p.pairs, (NV.enc q).length ≤ alignedBufsize b)
    (hnoise : NoiseFits (alignedBufsize b) recs)
    (hs : StreamRecs p.id 5 content srecs) (hsn : NoiseFits (alignedBufsize b) srecs)
    (hnb : ∀ r ∈ srecs, r.rtype.toNat ≠ RT.beginRequest)
    (hin : t.input = serAll recs ++ serAll srecs) (hben : Ben t) (hev : hsCount t.events = 0)
    (hfuel : t.rd.length + t.wr.length + 1 ≤ fuel),
    ∃ c' fin s₁ s₂ shown,
      runTask fuel (connS b mc t ((rounds n k ++ [.ret st], true) :: more)) 0 none = (c', fin) ∧
      BufReadPartOutcome p recs content srecs s₁ s₂ k shown b mc st more t c' fin

theorem C07Clause12_holds : C07Clause12 := by
  unfold C07Clause12
  exact @bufread_part_e2e_nofuel

end Fcgi.C07B
end

section
namespace Fcgi.C07W
open Fcgi Fcgi.Req Fcgi.Str Fcgi.Async Fcgi.Run Fcgi.Spec Fcgi.E2E Fcgi.C07E Fcgi.C07U Fcgi.C07B
/-- TWO writers (Stdout, Stderr), ANY sequence of `write_all`s (empty, or longer than 65 535 bytes = several records): every write is on the wire exactly once, in script order, records never interleaved; no size bound  (= `Fcgi.C07W.single_request_writers_e2e_nofuel`, `Props/C07NoFuel3.lean`) -/
def C07Clause13 : Prop :=
  ∀ {p : Preamble} {recs : List Rec} {content : Bytes} {srecs : List Rec}
    {b mc : Nat} {W : WList} {st : ExitStatus} {more : List (List HOp × Bool)} {t : Transport} {fuel : Nat}
    (hwf : WellFormedPreamble p recs) (hrole : p.role = 1)
    (hpairs : ∀ q ∈ p.pairs, (NV.enc q).length ≤ alignedBufsize b)
    (hnoise : NoiseFits (alignedBufsize b) recs)
    (hs : StreamRecs p.id 5 content srecs) (hsn : NoiseFits (alignedBufsize b) srecs)
    (hin : t.input = serAll recs ++ serAll srecs) (hben : Ben t) (hev : hsCount t.events = 0)
    (hfuel : t.rd.length + t.wr.length + 1 ≤ fuel),
    ∃ c' fin O₁ O₂ pad res,
      runTask fuel (connS b mc t ((wscript W st, true) :: more)) 0 none = (c', fin) ∧
      O₁ ++ O₂ = owedStream p.id 5 mc srecs ∧
      WritersOutcome p recs content W O₁ O₂ pad res b mc st more t c' fin

theorem C07Clause13_holds : C07Clause13 := by
  unfold C07Clause13
  exact @single_request_writers_e2e_nofuel

end Fcgi.C07W
end

section
namespace Fcgi.C07W
open Fcgi Fcgi.Req Fcgi.Str Fcgi.Async Fcgi.Run Fcgi.Spec Fcgi.E2E Fcgi.C07E Fcgi.C07U Fcgi.C07B
/-- … and with KEEP_CONN the connection then serves the following requests  (= `Fcgi.C07W.writers_chain_e2e_okn`, `Props/C07NoFuel6.lean`) -/
def C07Clause14 : Prop :=
  ∀ {p : Preamble} {recs : List Rec} {content : Bytes} {srecs : List Rec}
    {b mc : Nat} {W : WList} {st : ExitStatus} (x : UReq) (xs : List UReq) {t : Transport} {fuel : Nat}
    (hwf : WellFormedPreamble p recs) (hrole : p.role = 1) (hk : p.flags.toNat % 2 = 1)
    (hpairs : ∀ q ∈ p.pairs, (NV.enc q).length ≤ alignedBufsize b)
    (hnoise : NoiseFits (alignedBufsize b) recs)
    (hs : StreamRecs p.id 5 content srecs) (hsn : NoiseFits (alignedBufsize b) srecs)
    (hok : ∀ y ∈ x :: xs, y.OKn b)
    (hin : t.input = serAll recs ++ serAll srecs) (hben : Ben t) (hem : t.endMode = .pend)
    (hev : hsCount t.events = 0) (hfuel : t.rd.length + t.wr.length + 1 ≤ fuel),
    ∃ c' O₁ O₂ A,
      closedLoop fuel ((x :: xs).map UReq.wire)
        (connS b mc t ((wscript W st, true) :: (x :: xs).map UReq.handler)) 0 = (c', "STALL") ∧
      O₁ ++ O₂ = owedStream p.id 5 mc srecs ∧
      SegsAll mc (x :: xs) A ∧
      c'.env.tr.wlog = t.wlog ++ expectedLogW p recs mc W st O₁ O₂ ++ A ∧
      hsCount c'.env.tr.events = 1 + (x :: xs).length ∧
      startEvent p.request ∈ c'.env.tr.events ∧ readEvent content ∈ c'.env.tr.events ∧
      (∀ y ∈ x :: xs, startEvent y.p.request ∈ c'.env.tr.events) ∧ c'.scripts = [] ∧
      c'.env.tr.input = [] ∧
      c'.phase = .parseReq (track (alignedBufsize b) mc (serAll ((x :: xs).getLast (by simp)).left)) .reading

theorem C07Clause14_holds : C07Clause14 := by
  unfold C07Clause14
  exact @writers_chain_e2e_okn

end Fcgi.C07W
end

section
namespace Fcgi.C07W
open Fcgi Fcgi.Req Fcgi.Str Fcgi.Async Fcgi.Run Fcgi.Spec Fcgi.E2E Fcgi.C07E Fcgi.C07U Fcgi.C07B
/-- … with `flush` calls anywhere in the script and arbitrary Pending/Ok flush answers: a flush contributes no byte (no hypothesis on later scripts, no cost hypothesis)  (= `Fcgi.C07W.single_request_writers_flush_e2e_nomore_nofuel`, `Props/C07NoFuel4.lean`) -/
def C07Clause15 : Prop :=
  ∀ {p : Preamble} {recs : List Rec} {content : Bytes} {srecs : List Rec}
    {b mc : Nat} {W : FList} {st : ExitStatus} {more : List (List HOp × Bool)} {t : Transport} {fuel : Nat}
    (hwf : WellFormedPreamble p recs) (hrole : p.role = 1)
    (hpairs : ∀ q ∈ p.pairs, (NV.enc q).length ≤ alignedBufsize b)
    (hnoise : NoiseFits (alignedBufsize b) recs)
    (hs : StreamRecs p.id 5 content srecs) (hsn : NoiseFits (alignedBufsize b) srecs)
    (hin : t.input = serAll recs ++ serAll srecs) (hben : Ben t) (hev : hsCount t.events = 0)
    (hfl : ∀ a ∈ t.fl, a ≠ FlAns.err)
    (hfuel : t.rd.length + t.wr.length + t.fl.length + 1 ≤ fuel),
    ∃ c' fin O₁ O₂ pad res,
      runTask fuel (connS b mc t ((fscriptW W st, true) :: more)) 0 none = (c', fin) ∧
      O₁ ++ O₂ = owedStream p.id 5 mc srecs ∧
      WritersOutcome p recs content (E2E.writesOf W) O₁ O₂ pad res b mc st more t c' fin

theorem C07Clause15_holds : C07Clause15 := by
  unfold C07Clause15
  exact @single_request_writers_flush_e2e_nomore_nofuel

end Fcgi.C07W
end

section
namespace Fcgi.C07W
open Fcgi Fcgi.Req Fcgi.Str Fcgi.Async Fcgi.Run Fcgi.Spec Fcgi.E2E Fcgi.C07E Fcgi.C07U Fcgi.C07B
/-- … chain step of the flush variant  (= `Fcgi.C07W.writers_flush_chain_e2e_okn`, `Props/C07NoFuel6.lean`) -/
def C07Clause16 : Prop :=
  ∀ {p : Preamble} {recs : List Rec} {content : Bytes} {srecs : List Rec}
    {b mc : Nat} {W : FList} {st : ExitStatus} (x : UReq) (xs : List UReq) {t : Transport} {fuel : Nat}
    (hwf : WellFormedPreamble p recs) (hrole : p.role = 1) (hk : p.flags.toNat % 2 = 1)
    (hpairs : ∀ q ∈ p.pairs, (NV.enc q).length ≤ alignedBufsize b)
    (hnoise : NoiseFits (alignedBufsize b) recs)
    (hs : StreamRecs p.id 5 content srecs) (hsn : NoiseFits (alignedBufsize b) srecs)
    (hok : ∀ y ∈ x :: xs, y.OKn b)
    (hin : t.input = serAll recs ++ serAll srecs) (hben : Ben t) (hem : t.endMode = .pend)
    (hev : hsCount t.events = 0) (hfl : ∀ a ∈ t.fl, a ≠ FlAns.err)
    (hfuel : t.rd.length + t.wr.length + t.fl.length + 1 ≤ fuel),
    ∃ c' O₁ O₂ A,
      closedLoop fuel ((x :: xs).map UReq.wire)
        (connS b mc t ((fscriptW W st, true) :: (x :: xs).map UReq.handler)) 0 = (c', "STALL") ∧
      O₁ ++ O₂ = owedStream p.id 5 mc srecs ∧
      SegsAll mc (x :: xs) A ∧
      c'.env.tr.wlog = t.wlog ++ expectedLogW p recs mc (E2E.writesOf W) st O₁ O₂ ++ A ∧
      hsCount c'.env.tr.events = 1 + (x :: xs).length ∧
      startEvent p.request ∈ c'.env.tr.events ∧ readEvent content ∈ c'.env.tr.events ∧
      (∀ y ∈ x :: xs, startEvent y.p.request ∈ c'.env.tr.events) ∧ c'.scripts = [] ∧
      c'.env.tr.input = [] ∧
      c'.phase = .parseReq (track (alignedBufsize b) mc (serAll ((x :: xs).getLast (by simp)).left)) .reading

theorem C07Clause16_holds : C07Clause16 := by
  unfold C07Clause16
  exact @writers_flush_chain_e2e_okn

end Fcgi.C07W
end

section
namespace Fcgi.C07W
open Fcgi Fcgi.Req Fcgi.Str Fcgi.Async Fcgi.Run Fcgi.Spec Fcgi.E2E Fcgi.C07E Fcgi.C07U Fcgi.C07B
/-- the same for a FILTER: reads Stdin, switches to Data, reads Data, then any `write_all`/`flush` script on two writers (no `hmore`, no cost hypothesis)  (= `Fcgi.C07W.filter_writers_flush_e2e_nomore_nofuel`, `Props/C07NoFuel4.lean`) -/
def C07Clause17 : Prop :=
  ∀ {p : Preamble} {recs : List Rec} {content : Bytes} {srecs : List Rec}
    {content2 : Bytes} {drecs : List Rec}
    {b mc : Nat} {W : FList} {st : ExitStatus} {more : List (List HOp × Bool)} {t : Transport} {fuel : Nat}
    (hwf : WellFormedPreamble p recs) (hrole : p.role = 3)
    (hpairs : ∀ q ∈ p.pairs, (NV.enc q).length ≤ alignedBufsize b)
    (hnoise : NoiseFits (alignedBufsize b) recs)
    (hs : StreamRecs p.id 5 content srecs) (hsn : NoiseFits (alignedBufsize b) srecs)
    (hd : StreamRecs p.id 8 content2 drecs) (hdn : NoiseFits (alignedBufsize b) drecs)
    (hin : t.input = serAll recs ++ (serAll srecs ++ serAll drecs)) (hben : Ben t) (hev : hsCount t.events = 0)
    (hfl : ∀ a ∈ t.fl, a ≠ FlAns.err)
    (hfuel : t.rd.length + t.wr.length + t.fl.length + 1 ≤ fuel),
    ∃ c' fin O₁ O₂ pad2 res2,
      runTask fuel (connS b mc t ((ffscriptW W st, true) :: more)) 0 none = (c', fin) ∧
      O₁ ++ O₂ = owedStream p.id 5 mc srecs ++ owedStream p.id 8 mc drecs ∧
      FilterWritersOutcome p recs content content2 (E2E.writesOf W) O₁ O₂ pad2 res2 b mc st more t c' fin

theorem C07Clause17_holds : C07Clause17 := by
  unfold C07Clause17
  exact @filter_writers_flush_e2e_nomore_nofuel

end Fcgi.C07W
end

section
namespace Fcgi.C07W
open Fcgi Fcgi.Req Fcgi.Str Fcgi.Async Fcgi.Run Fcgi.Spec Fcgi.E2E Fcgi.C07E Fcgi.C07U Fcgi.C07B
/-- … chain step  (= `Fcgi.C07W.filter_writers_flush_chain_e2e_okn`, `Props/C07NoFuel6.lean`) -/
def C07Clause18 : Prop :=
  ∀ {p : Preamble} {recs : List Rec} {content : Bytes} {srecs : List Rec}
    {content2 : Bytes} {drecs : List Rec}
    {b mc : Nat} {W : FList} {st : ExitStatus} (x : UReq) (xs : List UReq) {t : Transport} {fuel : Nat}
    (hwf : WellFormedPreamble p recs) (hrole : p.role = 3) (hk : p.flags.toNat % 2 = 1)
    (hpairs : ∀ q ∈ p.pairs, (NV.enc q).length ≤ alignedBufsize b)
    (hnoise : NoiseFits (alignedBufsize b) recs)
    (hs : StreamRecs p.id 5 content srecs) (hsn : NoiseFits (alignedBufsize b) srecs)
    (hd : StreamRecs p.id 8 content2 drecs) (hdn : NoiseFits (alignedBufsize b) drecs)
    (hok : ∀ y ∈ x :: xs, y.OKn b)
    (hin : t.input = serAll recs ++ (serAll srecs ++ serAll drecs)) (hben : Ben t) (hem : t.endMode = .pend)
    (hev : hsCount t.events = 0) (hfl : ∀ a ∈ t.fl, a ≠ FlAns.err)
    (hfuel : t.rd.length + t.wr.length + t.fl.length + 1 ≤ fuel),
    ∃ c' O₁ O₂ A,
      closedLoop fuel ((x :: xs).map UReq.wire)
        (connS b mc t ((ffscriptW W st, true) :: (x :: xs).map UReq.handler)) 0 = (c', "STALL") ∧
      O₁ ++ O₂ = owedStream p.id 5 mc srecs ++ owedStream p.id 8 mc drecs ∧
      SegsAll mc (x :: xs) A ∧
      c'.env.tr.wlog = t.wlog ++ expectedLogW p recs mc (E2E.writesOf W) st O₁ O₂ ++ A ∧
      hsCount c'.env.tr.events = 1 + (x :: xs).length ∧
      startEvent p.request ∈ c'.env.tr.events ∧ readEvent content ∈ c'.env.tr.events ∧
      readEvent content2 ∈ c'.env.tr.events ∧
      (∀ y ∈ x :: xs, startEvent y.p.request ∈ c'.env.tr.events) ∧ c'.scripts = [] ∧
      c'.env.tr.input = [] ∧
      c'.phase = .parseReq (track (alignedBufsize b) mc (serAll ((x :: xs).getLast (by simp)).left)) .reading

theorem C07Clause18_holds : C07Clause18 := by
  unfold C07Clause18
  exact @filter_writers_flush_chain_e2e_okn

end Fcgi.C07W
end

section
namespace Fcgi.C07SF
open Fcgi Fcgi.Req Fcgi.Str Fcgi.Async Fcgi.Run
/-- WHY no cost hypothesis is needed: with the fuel `pollConn` passes (it pays for what is left of the handler script) a panic of the handler poll is a modelled panic site of the Rust, never the model's fuel guard — for EVERY script  (= `Fcgi.C07SF.handlerPoll_guard_unreachable`, `Props/C07ScriptFuel.lean`) -/
def C07Clause19 : Prop :=
  ∀ (r : AReq) (h : HState) (e : Run.Env) {r' : AReq} {h' : HState}
    {e' : Run.Env} {s : String} (hinv : SInv r.sp)
    (hp : handlerPoll (handlerFuel e r + scriptCost h) r h e = (r', h', e', HRes.panic s)),
    RealSite s ∧ s ∉ fuelMsgs

theorem C07Clause19_holds : C07Clause19 := by
  unfold C07Clause19
  exact @handlerPoll_guard_unreachable

end Fcgi.C07SF
end

section
namespace Fcgi.C07SF
open Fcgi Fcgi.Req Fcgi.Str Fcgi.Async Fcgi.Run
/-- … the same at the level of the connection task (`stepConn` in the handler phase)  (= `Fcgi.C07SF.handler_phase_guard_unreachable`, `Props/C07ScriptFuel.lean`) -/
def C07Clause20 : Prop :=
  ∀ (c : Conn) (r : AReq) (h : HState) (hph : c.phase = .handler r h)
    (hinv : SInv r.sp) {c1 : Conn} {s : String} (hs : stepConn c = .halt c1 (.panic s)),
    RealSite s ∧ s ∉ fuelMsgs

theorem C07Clause20_holds : C07Clause20 := by
  unfold C07Clause20
  exact @handler_phase_guard_unreachable

end Fcgi.C07SF
end

section
namespace Fcgi.C07W
open Fcgi Fcgi.Req Fcgi.Str Fcgi.Async Fcgi.Run Fcgi.Spec Fcgi.E2E Fcgi.C07E Fcgi.C07U Fcgi.C07B
/-- the ECHO Responder — writes INTERLEAVED with reads (`read(1)`; `write_all` of that byte; …): one Stdout record per content byte, in order; restrictions: reads of 1 byte, Stdin noise that owes no reply (`hquiet`); no fuel hypothesis; this clause states the LOG — that the reads return those bytes is Clauses 25–26  (= `Fcgi.C07W.echo_responder_e2e`, `Props/C07Echo.lean`) -/
def C07Clause21 : Prop :=
  ∀ {p : Preamble} {recs : List Rec} {content : Bytes} {srecs : List Rec}
    {b mc : Nat} {st : ExitStatus} {more : List (List HOp × Bool)} {t : Transport} {fuel : Nat}
    (hwf : WellFormedPreamble p recs) (hrole : p.role = 1)
    (hpairs : ∀ q ∈ p.pairs, (NV.enc q).length ≤ alignedBufsize b)
    (hnoise : NoiseFits (alignedBufsize b) recs)
    (hs : StreamRecs p.id 5 content srecs) (hsn : NoiseFits (alignedBufsize b) srecs)
    (hin : t.input = serAll recs ++ serAll srecs) (hben : Ben t) (hev : hsCount t.events = 0)
    (hfuel : t.rd.length + t.wr.length + 1 ≤ fuel)
    (hquiet : owedStream p.id 5 mc srecs = []),
    ∃ c' fin pad res,
      runTask fuel (connS b mc t ((echoScript content st, true) :: more)) 0 none = (c', fin) ∧
      EchoOutcome p recs content pad res b mc st more t c' fin

theorem C07Clause21_holds : C07Clause21 := by
  unfold C07Clause21
  exact @echo_responder_e2e

end Fcgi.C07W
end

section
namespace Fcgi.C07W
open Fcgi Fcgi.Req Fcgi.Str Fcgi.Async Fcgi.Run Fcgi.Spec Fcgi.E2E Fcgi.C07E Fcgi.C07U Fcgi.C07B
/-- … and the concatenated Stdout payloads ARE the Stdin content (true by construction of the script; the reads are Clauses 25–26)  (= `Fcgi.C07W.payloads_echo`, `Props/C07Echo.lean`) -/
def C07Clause22 : Prop :=
  ∀ (id : Nat) (content : Bytes),
    echoRecords id content = (content.map fun b => recordOf 6 id [b]).flatten ∧
    (content.map fun b => [b]).flatten = content

theorem C07Clause22_holds : C07Clause22 := by
  unfold C07Clause22
  exact @payloads_echo

end Fcgi.C07W
end

section
namespace Fcgi.C07W
open Fcgi Fcgi.Req Fcgi.Str Fcgi.Async Fcgi.Run Fcgi.Spec Fcgi.E2E Fcgi.C07E Fcgi.C07U Fcgi.C07B
/-- the echo Responder with ANY Stdin noise (no `hquiet`): the log behind the preamble replies is an INTERLEAVING (`Ilv`) of the replies owed for the noise and the handler output (one Stdout record per content byte, then the epilogue)  (= `Fcgi.C07W.echo_responder_e2e_noise`, `Props/C07Echo2.lean`) -/
def C07Clause23 : Prop :=
  ∀ {p : Preamble} {recs : List Rec} {content : Bytes} {srecs : List Rec}
    {b mc : Nat} {st : ExitStatus} {more : List (List HOp × Bool)} {t : Transport} {fuel : Nat}
    (hwf : WellFormedPreamble p recs) (hrole : p.role = 1)
    (hpairs : ∀ q ∈ p.pairs, (NV.enc q).length ≤ alignedBufsize b)
    (hnoise : NoiseFits (alignedBufsize b) recs)
    (hs : StreamRecs p.id 5 content srecs) (hsn : NoiseFits (alignedBufsize b) srecs)
    (hin : t.input = serAll recs ++ serAll srecs) (hben : Ben t) (hev : hsCount t.events = 0)
    (hfuel : t.rd.length + t.wr.length + 1 ≤ fuel),
    ∃ c' fin pad res,
      runTask fuel (connS b mc t ((echoScript content st, true) :: more)) 0 none = (c', fin) ∧
      EchoNoiseOutcome p recs content srecs pad res b mc st more t c' fin

theorem C07Clause23_holds : C07Clause23 := by
  unfold C07Clause23
  exact @echo_responder_e2e_noise

end Fcgi.C07W
end

section
namespace Fcgi.C07W
open Fcgi Fcgi.Req Fcgi.Str Fcgi.Async Fcgi.Run Fcgi.Spec Fcgi.E2E Fcgi.C07E Fcgi.C07U Fcgi.C07B
/-- … `Ilv w a h`: `w` is a concatenation of segments whose reply pieces concatenate to `a` and whose handler pieces concatenate to `h`, each in order  (= `Fcgi.C07W.ilv_segs`, `Props/C07Echo2.lean`) -/
def C07Clause24 : Prop :=
  ∀ {w a h : Bytes} (hi : Ilv w a h),
    ∃ segs : List (Bool × Bytes), w = (segs.map Prod.snd).flatten ∧
      ((segs.filter fun s => s.1).map Prod.snd).flatten = a ∧
      ((segs.filter fun s => !s.1).map Prod.snd).flatten = h

theorem C07Clause24_holds : C07Clause24 := by
  unfold C07Clause24
  exact @ilv_segs

end Fcgi.C07W
end

section
namespace Fcgi.C07W
open Fcgi Fcgi.Req Fcgi.Str Fcgi.Async Fcgi.Run Fcgi.Spec Fcgi.E2E Fcgi.C07E Fcgi.C07U Fcgi.C07B
/-- the same run, AND what the reads returned: the trace contains, as an in-order SUBLIST, the events `r=1:<b>` for each content byte `b`, then `r=0:-` — the i-th `read(1)` returned the byte the i-th `write_all` writes (not stated: that no OTHER `r=` event occurs)  (= `Fcgi.C07W.echo_responder_e2e_noise_reads`, `Props/C07Echo3.lean`) -/
def C07Clause25 : Prop :=
  ∀ {p : Preamble} {recs : List Rec} {content : Bytes} {srecs : List Rec}
    {b mc : Nat} {st : ExitStatus} {more : List (List HOp × Bool)} {t : Transport} {fuel : Nat}
    (hwf : WellFormedPreamble p recs) (hrole : p.role = 1)
    (hpairs : ∀ q ∈ p.pairs, (NV.enc q).length ≤ alignedBufsize b)
    (hnoise : NoiseFits (alignedBufsize b) recs)
    (hs : StreamRecs p.id 5 content srecs) (hsn : NoiseFits (alignedBufsize b) srecs)
    (hin : t.input = serAll recs ++ serAll srecs) (hben : Ben t) (hev : hsCount t.events = 0)
    (hfuel : t.rd.length + t.wr.length + 1 ≤ fuel),
    ∃ c' fin pad res,
      runTask fuel (connS b mc t ((echoScript content st, true) :: more)) 0 none = (c', fin) ∧
      EchoNoiseOutcome p recs content srecs pad res b mc st more t c' fin ∧
      (echoReadEvents content).Sublist c'.env.tr.events

theorem C07Clause25_holds : C07Clause25 := by
  unfold C07Clause25
  exact @echo_responder_e2e_noise_reads

end Fcgi.C07W
end

section
namespace Fcgi.C07W
open Fcgi Fcgi.Req Fcgi.Str Fcgi.Async Fcgi.Run Fcgi.Spec Fcgi.E2E Fcgi.C07E Fcgi.C07U Fcgi.C07B
/-- … the same for the reply-free case (`hquiet`)  (= `Fcgi.C07W.echo_responder_e2e_reads`, `Props/C07Echo3.lean`) -/
def C07Clause26 : Prop :=
  ∀ {p : Preamble} {recs : List Rec} {content : Bytes} {srecs : List Rec}
    {b mc : Nat} {st : ExitStatus} {more : List (List HOp × Bool)} {t : Transport} {fuel : Nat}
    (hwf : WellFormedPreamble p recs) (hrole : p.role = 1)
    (hpairs : ∀ q ∈ p.pairs, (NV.enc q).length ≤ alignedBufsize b)
    (hnoise : NoiseFits (alignedBufsize b) recs)
    (hs : StreamRecs p.id 5 content srecs) (hsn : NoiseFits (alignedBufsize b) srecs)
    (hin : t.input = serAll recs ++ serAll srecs) (hben : Ben t) (hev : hsCount t.events = 0)
    (hfuel : t.rd.length + t.wr.length + 1 ≤ fuel)
    (hquiet : owedStream p.id 5 mc srecs = []),
    ∃ c' fin pad res,
      runTask fuel (connS b mc t ((echoScript content st, true) :: more)) 0 none = (c', fin) ∧
      EchoOutcome p recs content pad res b mc st more t c' fin ∧
      (echoReadEvents content).Sublist c'.env.tr.events

theorem C07Clause26_holds : C07Clause26 := by
  unfold C07Clause26
  exact @echo_responder_e2e_reads

end Fcgi.C07W
end

namespace Fcgi.Headline
/-- **C07** — see the section comment above for the clause-by-clause reading. -/
theorem C07_headline :
    Fcgi.C07E.C07Clause1 ∧
    Fcgi.C07E.C07Clause2 ∧
    Fcgi.C07E.C07Clause3 ∧
    Fcgi.C07E.C07Clause4 ∧
    Fcgi.Headline.C07Clause5 ∧
    Fcgi.C07U.C07Clause6 ∧
    Fcgi.C07U.C07Clause7 ∧
    Fcgi.C07U.C07Clause8 ∧
    Fcgi.C07U.C07Clause9 ∧
    Fcgi.C07B.C07Clause10 ∧
    Fcgi.C07B.C07Clause11 ∧
    Fcgi.C07B.C07Clause12 ∧
    Fcgi.C07W.C07Clause13 ∧
    Fcgi.C07W.C07Clause14 ∧
    Fcgi.C07W.C07Clause15 ∧
    Fcgi.C07W.C07Clause16 ∧
    Fcgi.C07W.C07Clause17 ∧
    Fcgi.C07W.C07Clause18 ∧
    Fcgi.C07SF.C07Clause19 ∧
    Fcgi.C07SF.C07Clause20 ∧
    Fcgi.C07W.C07Clause21 ∧
    Fcgi.C07W.C07Clause22 ∧
    Fcgi.C07W.C07Clause23 ∧
    Fcgi.C07W.C07Clause24 ∧
    Fcgi.C07W.C07Clause25 ∧
    Fcgi.C07W.C07Clause26 :=
  ⟨Fcgi.C07E.C07Clause1_holds, Fcgi.C07E.C07Clause2_holds, Fcgi.C07E.C07Clause3_holds, Fcgi.C07E.C07Clause4_holds, Fcgi.Headline.C07Clause5_holds, Fcgi.C07U.C07Clause6_holds, Fcgi.C07U.C07Clause7_holds, Fcgi.C07U.C07Clause8_holds, Fcgi.C07U.C07Clause9_holds, Fcgi.C07B.C07Clause10_holds, Fcgi.C07B.C07Clause11_holds, Fcgi.C07B.C07Clause12_holds, Fcgi.C07W.C07Clause13_holds, Fcgi.C07W.C07Clause14_holds, Fcgi.C07W.C07Clause15_holds, Fcgi.C07W.C07Clause16_holds, Fcgi.C07W.C07Clause17_holds, Fcgi.C07W.C07Clause18_holds, Fcgi.C07SF.C07Clause19_holds, Fcgi.C07SF.C07Clause20_holds, Fcgi.C07W.C07Clause21_holds, Fcgi.C07W.C07Clause22_holds, Fcgi.C07W.C07Clause23_holds, Fcgi.C07W.C07Clause24_holds, Fcgi.C07W.C07Clause25_holds, Fcgi.C07W.C07Clause26_holds⟩
end Fcgi.Headline


/-! # C08

**Property.**
> Whenever the connection task is suspended waiting for further input from the client, every complete record
> it has already read from the transport has been processed and every reply owed for those records has been
> handed to the transport. Hence a client that sends a management query at any point the protocol allows -
> before, between or during requests - and waits for the result before sending anything more always receives
> it once the running handler (if any) reads input or returns, and the two sides can never wait on each
> other indefinitely.

**Clause by clause.**
* “whenever the connection task is suspended waiting for further input, every complete record it has already
  read has been processed and every reply owed for those records has been handed to the transport” — Clause
  1 (`reachable_inv`) + Clauses 2–3 (`parked_owes_nothing`, `parked_processed`) at the poll level, ANY
  transport, ANY handler script; executor level: Clause 6.  EXEMPTION inside `OwesNothing`: `close()` parked
  in `record_boundary()` may hold unflushed replies (the crate's documented unflushed read) — Clause 4: only
  inside a record the peer has begun.
* “… every reply owed for those records has been handed to the transport (tied to the WRITE LOG)” — Clauses
  7–12 (`Props/C08Replies.lean`), for ANY transport and any withholding peer: (a) before the first handler
  the log is exactly the initial log ++ the reference replies for the bytes consumed (Clause 7; queries:
  Clause 8); (b) parked in a handler read every prescribed reply is in the log (Clause 9); (c)
  `record_boundary()` never flushes (Clause 10), it is the only place where generated replies can be held
  back at a stall, and only mid-record (Clause 11); without that exemption the statement is false (Clause
  12).
* “a client that sends a management query … and waits for the result always receives it …, and the two sides
  can never wait on each other indefinitely” — With the ledger, 'owes nothing' means 'the reply is in the
  log': whenever the task waits for input, the reply to every query it has consumed is in the log (Clauses
  7–9, 11), so a peer whose gate is 'the reply to my last query is in the log' finds its gate open — except
  for a query swallowed by `record_boundary()` mid-record (Clause 12), which the whole-record peer of the
  property completes.  What is NOT a theorem: fairness of the executor, i.e. that the task is polled again
  and that the peer's gate is re-examined (Clause 5 is definitional of the wake-accurate executor).

**The conjuncts of `C08_headline`.**
1. `C08Inv.reachable_inv` — every connection state reachable by `runTask` satisfies the whole-poll invariant
2. `C08Inv.parked_owes_nothing` — a poll that ends Pending with the read waker parked owes nothing
3. `C08Inv.parked_processed` — … and has processed every complete record it read
4. `C08Inv.boundary_park_mid_record` — the one unflushed read (`record_boundary`) parks only inside a record
   the peer has begun
5. `C08Inv.stall_means_gate_closed` — executor: a STALL leaves the peer's next gate closed on the final log
   (definitional of the wake-accurate executor; it does NOT say that the property's peer cannot be stalled —
   see the not-proved list)
6. `C08Inv.runTask_stall_owes_nothing_partial` — executor: at a STALL with the output mutex free the read
   waker is parked, nothing is owed, everything read is processed
7. `C08R.stall_in_parse_request_log` — the ledger, (a): a stall before any handler start — the task sits in
   `parse_request`'s read, the transport is drained, and the log is the initial log followed by EXACTLY the
   replies the reference prescribes for the bytes consumed so far (any transport, any peer)
8. `C08R.idle_queries_answered` — … in particular every management query / unknown-type record among the
   complete idle records consumed has been answered, in order, at every such stall
9. `C08R.handler_read_replies_in_log` — the ledger, (b): parked in a handler read (no `set_stream` since the
   handler started): every reply prescribed for the bytes the stream parser was given is in the log behind the
   log at handler start, in order (sublist: the handler's own records may be interleaved)
10. `C08R.record_boundary_holds_back` — the ledger, (c): the loop of `record_boundary()` writes nothing —
   when it parks, what it generated is still in the reply buffer
11. `C08R.stall_pending_output_partial` — at a stall with the mutex free the ONLY place where generated
   reply bytes can still sit in a buffer is `close()` parked in `record_boundary()`, and then the parser is in
   the middle of a record
12. `C08R.stall_log_has_all_owed_replies_full_false` — … and that exception is real: "nothing generated is
   unflushed at such a stall" is refuted (handler returns mid-record, `record_boundary()` runs over a complete
   GetValues and parks inside the next record; crate and model agree)

**Modelling assumptions (obligations.json).**
* the peer is the property's peer: whole records, one request outstanding, withholding after a query until
  its reply record arrived
* `suspended waiting for client input` = the poll returned Pending with the transport's read waker parked
  (poll level: parked_owes_nothing; executor level: runTask_stall / runTask_stall_owes_nothing_partial — a
  STALL of the wake-accurate executor with the output mutex free has the read waker parked, owes nothing,
  has processed …
* record_boundary() reads without flushing (Rust comment: sending the output buffer is delayed): an explicit
  disjunct of OwesNothing; boundary_park_mid_record shows such a park only happens inside a record the peer
  has begun, which a whole-record peer completes

**Not proved as theorems — carried by the differential run + oracle, or trusted.**
* fairness / progress of the executor (the task is polled again; the peer's next gate opens once the reply
  is in the log): observed by the differential run (never FUEL/STALL), not a theorem
* the peer is the property's peer (whole records, one request outstanding)

-/

section
namespace Fcgi.C08Inv
open Fcgi Fcgi.Req Fcgi.Str Fcgi.Async Fcgi.Run
/-- every connection state reachable by `runTask` satisfies the whole-poll invariant  (= `Fcgi.C08Inv.reachable_inv`, `Props/C08Inv.lean`) -/
def C08Clause1 : Prop :=
  ∀ {b mc : Nat} {c : Conn} (h : Reachable b mc c),
    CInv c

theorem C08Clause1_holds : C08Clause1 := by
  unfold C08Clause1
  exact @reachable_inv

end Fcgi.C08Inv
end

section
namespace Fcgi.C08Inv
open Fcgi Fcgi.Req Fcgi.Str Fcgi.Async Fcgi.Run
section Main
/-- a poll that ends Pending with the read waker parked owes nothing  (= `Fcgi.C08Inv.parked_owes_nothing`, `Props/C08Inv.lean`) -/
def C08Clause2 : Prop :=
  ∀ {fuel : Nat} {c c' : Conn} (hinv : CInv c) (h0 : c.env.tr.readWaker = false)
    (h : pollConn fuel c = (c', .pending)) (hw : c'.env.tr.readWaker = true),
    OwesNothing c'.phase

theorem C08Clause2_holds : C08Clause2 := by
  unfold C08Clause2
  exact @parked_owes_nothing

end Main
end Fcgi.C08Inv
end

section
namespace Fcgi.C08Inv
open Fcgi Fcgi.Req Fcgi.Str Fcgi.Async Fcgi.Run
section Main
/-- … and has processed every complete record it read  (= `Fcgi.C08Inv.parked_processed`, `Props/C08Inv.lean`) -/
def C08Clause3 : Prop :=
  ∀ {fuel : Nat} {c c' : Conn} (hinv : CInv c) (h0 : c.env.tr.readWaker = false)
    (h : pollConn fuel c = (c', .pending)) (hw : c'.env.tr.readWaker = true),
    Processed c'.phase

theorem C08Clause3_holds : C08Clause3 := by
  unfold C08Clause3
  exact @parked_processed

end Main
end Fcgi.C08Inv
end

section
namespace Fcgi.C08Inv
open Fcgi Fcgi.Req Fcgi.Str Fcgi.Async Fcgi.Run
section Main
/-- the one unflushed read (`record_boundary`) parks only inside a record the peer has begun  (= `Fcgi.C08Inv.boundary_park_mid_record`, `Props/C08Inv.lean`) -/
def C08Clause4 : Prop :=
  ∀ {fuel : Nat} {c c' : Conn} (hinv : CInv c) (h0 : c.env.tr.readWaker = false)
    (h : pollConn fuel c = (c', .pending)) (hw : c'.env.tr.readWaker = true)
    {r : AReq} {st : ExitStatus} {alive : Nat} (hph : c'.phase = .closing r .inBoundary st alive),
    r.sp.isRecordBoundary = false

theorem C08Clause4_holds : C08Clause4 := by
  unfold C08Clause4
  exact @boundary_park_mid_record

end Main
end Fcgi.C08Inv
end

section
namespace Fcgi.C08Inv
open Fcgi Fcgi.Req Fcgi.Str Fcgi.Async Fcgi.Run
section Executor
/-- executor: a STALL leaves the peer's next gate closed on the final log (definitional of the wake-accurate executor; it does NOT say that the property's peer cannot be stalled — see the not-proved list)  (= `Fcgi.C08Inv.stall_means_gate_closed`, `Props/C08Inv.lean`) -/
def C08Clause5 : Prop :=
  ∀ {fuel : Nat} {c c' : Conn} {n : Nat} {sa : Option Nat} (hinv : CInv c) (h : runTask fuel c n sa = (c', "STALL"))
    {g : Gate} {bs : Bytes} {rest : List (Gate × Bytes)} (hs : c'.env.segs = (g, bs) :: rest),
    g.open_ c'.env.tr.wlog = false

theorem C08Clause5_holds : C08Clause5 := by
  unfold C08Clause5
  exact @stall_means_gate_closed

end Executor
end Fcgi.C08Inv
end

section
namespace Fcgi.C08Inv
open Fcgi Fcgi.Req Fcgi.Str Fcgi.Async Fcgi.Run
section Executor
/-- executor: at a STALL with the output mutex free the read waker is parked, nothing is owed, everything read is processed  (= `Fcgi.C08Inv.runTask_stall_owes_nothing_partial`, `Props/C08Inv.lean`) -/
def C08Clause6 : Prop :=
  ∀ {fuel : Nat} {c c' : Conn} {n : Nat} {sa : Option Nat} (hinv : CInv c) (h : runTask fuel c n sa = (c', "STALL"))
    (hm : c'.env.mutex = none),
    OwesNothing c'.phase ∧ Processed c'.phase ∧ c'.env.tr.input = [] ∧
      c'.env.tr.readWaker = true ∧ MidRecord c'.phase

theorem C08Clause6_holds : C08Clause6 := by
  unfold C08Clause6
  exact @runTask_stall_owes_nothing_partial

end Executor
end Fcgi.C08Inv
end

section
namespace Fcgi.C08R
open Fcgi Fcgi.Req Fcgi.Str Fcgi.Async Fcgi.Run Fcgi.Spec
/-- the ledger, (a): a stall before any handler start — the task sits in `parse_request`'s read, the transport is drained, and the log is the initial log followed by EXACTLY the replies the reference prescribes for the bytes consumed so far (any transport, any peer)  (= `Fcgi.C08R.stall_in_parse_request_log`, `Props/C08Replies.lean`) -/
def C08Clause7 : Prop :=
  ∀ {b mc : Nat} {env : Run.Env} {scripts : List (List HOp × Bool)}
    {stop : Bool} {fuel n : Nat} {sa : Option Nat} {c' : Conn}
    (h : runTask fuel { phase := .parseReq (Req.Parser.new b mc) .start, env, scripts, stop } n sa
      = (c', "STALL"))
    (hm : c'.env.mutex = none) (hhs : hsCount c'.env.tr.events = hsCount env.tr.events),
    ∃ rp D, c'.phase = .parseReq rp .reading ∧ c'.env.tr.input = [] ∧
      D ++ (c'.env.segs.map (·.2)).flatten = wireOf env ∧
      c'.env.tr.wlog = env.tr.wlog ++ (C04H.reqRef mc D).out ∧
      rp.state = (run .header D mc).st ∧ rp.input = (run .header D mc).rem

theorem C08Clause7_holds : C08Clause7 := by
  unfold C08Clause7
  exact @stall_in_parse_request_log

end Fcgi.C08R
end

section
namespace Fcgi.C08R
open Fcgi Fcgi.Req Fcgi.Str Fcgi.Async Fcgi.Run Fcgi.Spec
/-- … in particular every management query / unknown-type record among the complete idle records consumed has been answered, in order, at every such stall  (= `Fcgi.C08R.idle_queries_answered`, `Props/C08Replies.lean`) -/
def C08Clause8 : Prop :=
  ∀ {b mc : Nat} {env : Run.Env} {scripts : List (List HOp × Bool)}
    {stop : Bool} {fuel n : Nat} {sa : Option Nat} {c' : Conn}
    (h : runTask fuel { phase := .parseReq (Req.Parser.new b mc) .start, env, scripts, stop } n sa
      = (c', "STALL"))
    (hm : c'.env.mutex = none) (hhs : hsCount c'.env.tr.events = hsCount env.tr.events)
    {us : List Rec} (hus : ∀ u ∈ us, IdleNoise u) {y : Bytes}
    (hwire : wireOf env = serAll us ++ y)
    (hcons : (serAll us).length + (c'.env.segs.map (·.2)).flatten.length ≤ (wireOf env).length),
    ∃ more, c'.env.tr.wlog = env.tr.wlog ++ us.flatMap (owed none mc) ++ more

theorem C08Clause8_holds : C08Clause8 := by
  unfold C08Clause8
  exact @idle_queries_answered

end Fcgi.C08R
end

section
namespace Fcgi.C08R
open Fcgi Fcgi.Req Fcgi.Str Fcgi.Async Fcgi.Run Fcgi.Spec
/-- the ledger, (b): parked in a handler read (no `set_stream` since the handler started): every reply prescribed for the bytes the stream parser was given is in the log behind the log at handler start, in order (sublist: the handler's own records may be interleaved)  (= `Fcgi.C08R.handler_read_replies_in_log`, `Props/C08Replies.lean`) -/
def C08Clause9 : Prop :=
  ∀ {E : Str.Cfg} {sp0 sp : Str.Parser} {ops : List Op} {wl0 wl : Bytes}
    (h0 : C03SI.Start E sp0) (ho0 : sp0.output = []) (h : GLed sp0 ops sp wl0 wl)
    (hl : LegalAll sp0 ops) (hns : NoSet ops) (hq : C08Inv.Quiescent sp) (ho : sp.output = []),
    ∃ mix, wl = wl0 ++ mix ∧ List.Sublist (C04H.streamReplies E (sp0.raw ++ Str.fedBytes ops)) mix

theorem C08Clause9_holds : C08Clause9 := by
  unfold C08Clause9
  exact @handler_read_replies_in_log

end Fcgi.C08R
end

section
namespace Fcgi.C08R
open Fcgi Fcgi.Req Fcgi.Str Fcgi.Async Fcgi.Run Fcgi.Spec
/-- the ledger, (c): the loop of `record_boundary()` writes nothing — when it parks, what it generated is still in the reply buffer  (= `Fcgi.C08R.record_boundary_holds_back`, `Props/C08Replies.lean`) -/
def C08Clause10 : Prop :=
  ∀ {fuel : Nat} {sp sp' : Str.Parser} {new : Bytes} {t t' : Transport}
    (h : boundaryLoop fuel sp new t = (sp', t', .pending)),
    ∃ ops, sp' = applyOps sp ops ∧ t'.wlog = t.wlog ∧
      sp'.output = sp.output ++ C03S.grownAll sp ops ∧
      new ++ t.input = Str.fedBytes ops ++ t'.input

theorem C08Clause10_holds : C08Clause10 := by
  unfold C08Clause10
  exact @record_boundary_holds_back

end Fcgi.C08R
end

section
namespace Fcgi.C08R
open Fcgi Fcgi.Req Fcgi.Str Fcgi.Async Fcgi.Run Fcgi.Spec
/-- at a stall with the mutex free the ONLY place where generated reply bytes can still sit in a buffer is `close()` parked in `record_boundary()`, and then the parser is in the middle of a record  (= `Fcgi.C08R.stall_pending_output_partial`, `Props/C08Replies.lean`) -/
def C08Clause11 : Prop :=
  ∀ {fuel n : Nat} {sa : Option Nat} {c c' : Conn} (hinv : C08Inv.CInv c)
    (h : runTask fuel c n sa = (c', "STALL")) (hm : c'.env.mutex = none),
    pendingOut c'.phase = [] ∨
      ∃ r st al, c'.phase = .closing r .inBoundary st al ∧ r.sp.isRecordBoundary = false

theorem C08Clause11_holds : C08Clause11 := by
  unfold C08Clause11
  exact @stall_pending_output_partial

end Fcgi.C08R
end

section
namespace Fcgi.C08R
open Fcgi Fcgi.Req Fcgi.Str Fcgi.Async Fcgi.Run Fcgi.Spec
/-- … and that exception is real: "nothing generated is unflushed at such a stall" is refuted (handler returns mid-record, `record_boundary()` runs over a complete GetValues and parks inside the next record; crate and model agree)  (= `Fcgi.C08R.stall_log_has_all_owed_replies_full_false`, `Props/C08Replies.lean`) -/
def C08Clause12 : Prop :=
  ¬ stall_log_has_all_owed_replies_full

theorem C08Clause12_holds : C08Clause12 := by
  unfold C08Clause12
  exact @stall_log_has_all_owed_replies_full_false

end Fcgi.C08R
end

namespace Fcgi.Headline
/-- **C08** — see the section comment above for the clause-by-clause reading. -/
theorem C08_headline :
    Fcgi.C08Inv.C08Clause1 ∧
    Fcgi.C08Inv.C08Clause2 ∧
    Fcgi.C08Inv.C08Clause3 ∧
    Fcgi.C08Inv.C08Clause4 ∧
    Fcgi.C08Inv.C08Clause5 ∧
    Fcgi.C08Inv.C08Clause6 ∧
    Fcgi.C08R.C08Clause7 ∧
    Fcgi.C08R.C08Clause8 ∧
    Fcgi.C08R.C08Clause9 ∧
    Fcgi.C08R.C08Clause10 ∧
    Fcgi.C08R.C08Clause11 ∧
    Fcgi.C08R.C08Clause12 :=
  ⟨Fcgi.C08Inv.C08Clause1_holds, Fcgi.C08Inv.C08Clause2_holds, Fcgi.C08Inv.C08Clause3_holds, Fcgi.C08Inv.C08Clause4_holds, Fcgi.C08Inv.C08Clause5_holds, Fcgi.C08Inv.C08Clause6_holds, Fcgi.C08R.C08Clause7_holds, Fcgi.C08R.C08Clause8_holds, Fcgi.C08R.C08Clause9_holds, Fcgi.C08R.C08Clause10_holds, Fcgi.C08R.C08Clause11_holds, Fcgi.C08R.C08Clause12_holds⟩
end Fcgi.Headline


/-! # C09

**Property.**
> Reading a request through the asynchronous read interfaces yields exactly the bytes of the active input
> stream, in order and once each, followed by an end-of-file that persists until a later stream is selected
> - for every caller buffer size, every mix of direct and buffered reads and every pattern of short reads
> and not-ready results from the transport. Selecting a later stream discards the rest of the current one
> and never yields bytes of any other stream. With a compliant client a request reports itself writeable,
> and hands out output-stream writers, only after every input stream before its last has ended or been
> skipped past.

**Clause by clause.**
* “yields exactly the bytes of the active input stream, in order and once each, followed by an end-of-file
  that persists” — Clauses 1–4 (`reads_are_prefix`, `reads_never_fail`, `eof_only_at_end`,
  `eof_persists_script`): for ANY script of `read n` / `fill` / `consume k` over a benign transport.
* “selecting a later stream discards the rest of the current one and never yields bytes of any other stream”
  — Clause 5 (`set_stream_async`) + C18 Clauses 7–8.  SCOPE of Clauses 1–4: scripts of `read n` / `fill` /
  `consume k` only (no interleaved `set_stream`/`writeable`/writes), one active stream, one poll from the
  invariant `RdSt` (preservation: `reads_poll`).
* “a request reports itself writeable, and hands out output-stream writers, only after every input stream
  before its last has ended or been skipped past” — Clause 6 (`open_iff_writeable`), Clause 8
  (`writeable_pollInput`: the flag is set only with the FINAL stream active, never reset), Clause 9 (a
  Filter that has only selected Data is not writeable), Clause 7 (the read that sets it delivered data of
  the active stream or reached its end).  `writeable()` returning Ok while `is_writeable()` is false after a
  FAILED read is real (`writeable_ready_sets_flag_full_false`) and outside the compliant-client clause.

**The conjuncts of `C09_headline`.**
1. `C09E.reads_are_prefix` — any script of reads over a benign transport: what the caller got is a prefix of
   the stream, in order, once
2. `C09E.reads_never_fail` — … and no read fails
3. `C09E.eof_only_at_end` — Ok(0) only when the whole stream was delivered
4. `C09E.eof_persists_script` — end-of-file persists
5. `C09.set_stream_async` — selecting a later stream discards the rest of the current one
6. `C09E.open_iff_writeable` — writers are handed out iff the request is writeable
7. `C09E.writeable_needs_stream_data` — a `read(n>0)` that sets the writeable flag returned at least one
   byte of the ACTIVE stream or reached its end
8. `C09.writeable_pollInput` — the flag is set only while the FINAL input stream is active, and never reset
9. `C09E.filter_select_not_writeable` — a Filter that has only selected Data (nothing read yet) is not
   writeable
10. `C09E.eof_persists` — after the end `read` returns 0 for good
11. `C09G.filter_gate_e2e` — END TO END, Filter whose handler awaits `writeable()` without reading: every
   poll before the gate poll ends Pending with no writer and only owed replies in the log; the gate poll passes
   `writeable()` in a state `GateAt`
12. `C09G.gateAt_facts` — … `GateAt`: the request is writeable, the COMPLETE Stdin stream incl. its
   terminator was taken from the transport, the log holds no handler byte
13. `C09G.wh_facts` — … before the gate (`WH`): no writer exists, not writeable, log = owed replies only
14. `C09G.filter_gate_free` — the gate theorem stated WITHOUT a configuration: every conclusion in terms of
   `p recs srecs drecs mc t rest more` (`PreGate`, `GatePollFree`)
15. `C09G.filter_gate_pinned` — `filter_gate_e2e` exporting the configuration it quantifies over (`GOK g
   rest`, `g.recs`, `g.mc`, `g.b`, `g.hs0`, `g.more` pinned)
16. `C09G.gate_taken` — … what `GateAt g` says for such a configuration: the bytes taken behind the preamble
   contain the complete Stdin stream
17. `C09G.filter_gate_write_e2e` — the WHOLE run of `writeable(); open Stdout; write_all(data); return` on a
   Filter whose Data stream is never read: the Stdout records stand inside the owed replies, then the epilogue;
   every `data`, no fuel hypothesis

**Modelling assumptions (obligations.json).**
* real wakers are not modelled at the poll level (the harness polls when the script says so)
* writeable_ready_sets_flag_full is false and refuted with a witness reproduced on the crate (writeable()
  can return Ok while is_writeable() is false after a failed read left data buffered - outside the
  property's statement, see DESIGN 14.3); the _partial form holds under WriteableInv
* handler level (Props/C09E2E): for ANY script of `read n` (n >= 0) / `fill` / `consume k` ops on a benign
  transport (arbitrary splitting and Pendings, no errors) over a well-formed stream with noise: the bytes
  handed to the caller are a prefix of the content, each once and in order (`reads_are_prefix`), a 0-byte
  result for n >…

**Not proved as theorems — carried by the differential run + oracle, or trusted.**
* real wakers are not modelled at the poll level
* Clauses 11–13 (`filter_gate_e2e`): the run AFTER the gate poll is covered only for `rest = open Stdout;
  write_all(data); drop; return` with Data unread (Clause 17, `Props/C09Gate2.lean`); Clauses 14–16
  (`Props/C09Gate3.lean`) restate the gate theorem without the existential configuration
  (`filter_gate_free`) resp. with the configuration pinned (`filter_gate_pinned`, `gate_taken`); hypotheses:
  canonical Filter wire within the buffer bound, `Ben t`, handler script `.writeable :: rest` with arbitrary
  `rest`

-/

section
namespace Fcgi.C09E
open Fcgi Fcgi.Req Fcgi.Str Fcgi.Async Fcgi.Run Fcgi.E2E
section Main
/-- any script of reads over a benign transport: what the caller got is a prefix of the stream, in order, once  (= `Fcgi.C09E.reads_are_prefix`, `Props/C09E2E.lean`) -/
def C09Clause1 : Prop :=
  ∀ {K : RCtx} {L P handed : Bytes} {r : AReq} {h : HState} {e : Run.Env} (hK : K.OK) (fuel : Nat) (hs : RdSt K L P handed r h e),
    handed ++ ledgerPoll fuel r h e <+: K.C

theorem C09Clause1_holds : C09Clause1 := by
  unfold C09Clause1
  exact @reads_are_prefix

end Main
end Fcgi.C09E
end

section
namespace Fcgi.C09E
open Fcgi Fcgi.Req Fcgi.Str Fcgi.Async Fcgi.Run Fcgi.E2E
section Main
/-- … and no read fails  (= `Fcgi.C09E.reads_never_fail`, `Props/C09E2E.lean`) -/
def C09Clause2 : Prop :=
  ∀ {K : RCtx} {L P handed : Bytes} {r : AReq} {h : HState} {e : Run.Env} (hK : K.OK) (fuel : Nat) (hs : RdSt K L P handed r h e)
    {r' : AReq} {h' : HState} {e' : Run.Env} {res : HRes} (hp : handlerPoll fuel r h e = (r', h', e', res)),
    (∀ x, res ≠ .done (.error x)) ∧ (∀ s, res = .panic s → s = "model: handler fuel exhausted")

theorem C09Clause2_holds : C09Clause2 := by
  unfold C09Clause2
  exact @reads_never_fail

end Main
end Fcgi.C09E
end

section
namespace Fcgi.C09E
open Fcgi Fcgi.Req Fcgi.Str Fcgi.Async Fcgi.Run Fcgi.E2E
section Main
/-- Ok(0) only when the whole stream was delivered  (= `Fcgi.C09E.eof_only_at_end`, `Props/C09E2E.lean`) -/
def C09Clause3 : Prop :=
  ∀ {K : RCtx} {L P handed : Bytes} {r : AReq} (hK : K.OK) {n : Nat} (hn : 0 < n) {m : MutexSt} {t : Transport} {dO : Bytes}
    (hb : Ben t) (hs : BSt K L P r m t handed dO) {r' : AReq} {m' : MutexSt} {t' : Transport} {d : Bytes}
    (hp : r.pollInput (some n) m t = (r', m', t', .ready 0 d)),
    handed = K.C ∧ d = []

theorem C09Clause3_holds : C09Clause3 := by
  unfold C09Clause3
  exact @eof_only_at_end

end Main
end Fcgi.C09E
end

section
namespace Fcgi.C09E
open Fcgi Fcgi.Req Fcgi.Str Fcgi.Async Fcgi.Run Fcgi.E2E
section Main
/-- end-of-file persists  (= `Fcgi.C09E.eof_persists_script`, `Props/C09E2E.lean`) -/
def C09Clause4 : Prop :=
  ∀ {K : RCtx} {L P : Bytes} {r : AReq} {h : HState} {e : Run.Env} (hK : K.OK) (fuel : Nat) (hs : RdSt K L P K.C r h e),
    ledgerPoll fuel r h e = []

theorem C09Clause4_holds : C09Clause4 := by
  unfold C09Clause4
  exact @eof_persists_script

end Main
end Fcgi.C09E
end

section
namespace Fcgi.C09
open Fcgi Fcgi.Str Fcgi.Async
/-- selecting a later stream discards the rest of the current one  (= `Fcgi.C09.set_stream_async`, `Props/C09.lean`) -/
def C09Clause5 : Prop :=
  ∀ {r : AReq} (hinv : AInv r) {s : Nat} (hs : RT.isInputStream s = true),
    ((∃ r', r.setStream s = some r') ↔
      (r.sp.stream = some s ∨ Later r.sp.request.role r.sp.stream s)) ∧
    (¬ (r.sp.stream = some s ∨ Later r.sp.request.role r.sp.stream s) → r.setStream s = none) ∧
    (∀ r', r.setStream s = some r' →
      r'.lock = r.lock ∧ r'.writeable = r.writeable ∧ r'.sp.stream = some s ∧
      r'.sp.raw = r.sp.raw ∧ r'.sp.output = r.sp.output ∧ r'.sp.pay = r.sp.pay ∧
      r'.sp.pad = r.sp.pad ∧ r'.sp.request = r.sp.request ∧ AInv r' ∧
      (r.sp.stream = some s → r' = r) ∧
      (r.sp.stream ≠ some s → r'.sp.parsed = [] ∧ r'.sp.g0 = 0 ∧ r'.sp.g1 = 0 ∧
        Later r.sp.request.role r.sp.stream s))

theorem C09Clause5_holds : C09Clause5 := by
  unfold C09Clause5
  exact @set_stream_async

end Fcgi.C09
end

section
namespace Fcgi.C09E
open Fcgi Fcgi.Req Fcgi.Str Fcgi.Async Fcgi.Run Fcgi.E2E
/-- writers are handed out iff the request is writeable  (= `Fcgi.C09E.open_iff_writeable`, `Props/C09E2E.lean`) -/
def C09Clause6 : Prop :=
  ∀ (fuel : Nat) (r : AReq) (ty : Nat) (rest : List HOp) (sub : HSub)
    (ws : List (Option Writer)) (pr : Bool) (e : Run.Env),
    (((outputStreams r.sp.request.role).contains ty = true ∧ r.writeable = true) →
      handlerPoll (fuel + 1) r { ops := .open_ ty :: rest, sub := sub, writers := ws, propagate := pr } e =
        handlerPoll fuel r
          { ops := rest, sub := .fresh, writers := ws ++ [some { rtype := ty, id := r.sp.request.id }],
            propagate := pr } (e.ev s!"o=w{ws.length}")) ∧
    (¬ ((outputStreams r.sp.request.role).contains ty = true ∧ r.writeable = true) →
      handlerPoll (fuel + 1) r { ops := .open_ ty :: rest, sub := sub, writers := ws, propagate := pr } e =
        (r, { ops := .open_ ty :: rest, sub := sub, writers := ws, propagate := pr }, e,
          .panic "async_io:324 output_stream assertion"))

theorem C09Clause6_holds : C09Clause6 := by
  unfold C09Clause6
  exact @open_iff_writeable

end Fcgi.C09E
end

section
namespace Fcgi.C09E
open Fcgi Fcgi.Req Fcgi.Str Fcgi.Async Fcgi.Run Fcgi.E2E
/-- a `read(n>0)` that sets the writeable flag returned at least one byte of the ACTIVE stream or reached its end  (= `Fcgi.C09E.writeable_needs_stream_data`, `Props/C09E2E.lean`) -/
def C09Clause7 : Prop :=
  ∀ {K : RCtx} (hK : K.OK) {n : Nat} (hn : 0 < n) {L P : Bytes}
    {r : AReq} {m : MutexSt} {t : Transport} {dC dO : Bytes} {r' : AReq} {m' : MutexSt} {t' : Transport}
    {res : IRes} (hb : Ben t) (hs : RSt K L P r m t dC dO) (h : r.pollInput (some n) m t = (r', m', t', res))
    (h0 : r.writeable = false) (h1 : r'.writeable = true),
    ∃ k d, res = .ready k d ∧ (d ≠ [] ∨ ∃ dO', AtEnd K r' t' (dC ++ d) dO')

theorem C09Clause7_holds : C09Clause7 := by
  unfold C09Clause7
  exact @writeable_needs_stream_data

end Fcgi.C09E
end

section
namespace Fcgi.C09
open Fcgi Fcgi.Str Fcgi.Async
/-- the flag is set only while the FINAL input stream is active, and never reset  (= `Fcgi.C09.writeable_pollInput`, `Props/C09.lean`) -/
def C09Clause8 : Prop :=
  ∀ {r : AReq} {dest : Option Nat} {m : MutexSt} {t : Transport}
    {r' : AReq} {m' : MutexSt} {t' : Transport} {res : IRes} (hinv : AInv r) (hl : LockInv r m)
    (h : r.pollInput dest m t = (r', m', t', res)),
    (r.writeable = true → r'.writeable = true) ∧
    (r.writeable = false → r'.writeable = true →
      r'.isFinalStream = true ∧ r.isFinalStream = true ∧
      nextInputStream r.sp.request.role r.sp.stream = none ∧ ∃ k d, res = .ready k d)

theorem C09Clause8_holds : C09Clause8 := by
  unfold C09Clause8
  exact @writeable_pollInput

end Fcgi.C09
end

section
namespace Fcgi.C09E
open Fcgi Fcgi.Req Fcgi.Str Fcgi.Async Fcgi.Run Fcgi.E2E
/-- a Filter that has only selected Data (nothing read yet) is not writeable  (= `Fcgi.C09E.filter_select_not_writeable`, `Props/C09E2E.lean`) -/
def C09Clause9 : Prop :=
  ∀ (sp : Str.Parser) (hr : sp.request.role = 3) {r' : AReq} {s : Nat}
    (h : (AReq.new sp).setStream s = some r'),
    (AReq.new sp).writeable = false ∧ r'.writeable = false

theorem C09Clause9_holds : C09Clause9 := by
  unfold C09Clause9
  exact @filter_select_not_writeable

end Fcgi.C09E
end

section
namespace Fcgi.C09E
open Fcgi Fcgi.Req Fcgi.Str Fcgi.Async Fcgi.Run Fcgi.E2E
section Main
/-- after the end `read` returns 0 for good  (= `Fcgi.C09E.eof_persists`, `Props/C09E2E.lean`) -/
def C09Clause10 : Prop :=
  ∀ {K : RCtx} {L P : Bytes} {r : AReq} (hK : K.OK) {n : Nat} (hn : 0 < n) {m : MutexSt} {t : Transport} {dO : Bytes}
    (hb : Ben t) (hs : BSt K L P r m t K.C dO) {r' : AReq} {m' : MutexSt} {t' : Transport} {k : Nat}
    {d : Bytes} (hp : r.pollInput (some n) m t = (r', m', t', .ready k d)),
    k = 0 ∧ d = []

theorem C09Clause10_holds : C09Clause10 := by
  unfold C09Clause10
  exact @eof_persists

end Main
end Fcgi.C09E
end

section
namespace Fcgi.C09G
open Fcgi Fcgi.Req Fcgi.Str Fcgi.Async Fcgi.Run Fcgi.Spec Fcgi.E2E Fcgi.C07E Fcgi.C07U
/-- END TO END, Filter whose handler awaits `writeable()` without reading: every poll before the gate poll ends Pending with no writer and only owed replies in the log; the gate poll passes `writeable()` in a state `GateAt`  (= `Fcgi.C09G.filter_gate_e2e`, `Props/C09Gate.lean`) -/
def C09Clause11 : Prop :=
  ∀ {p : Preamble} {recs : List Rec} {content : Bytes} {srecs : List Rec}
    {content2 : Bytes} {drecs : List Rec}
    {b mc : Nat} {rest : List HOp} {more : List (List HOp × Bool)} {t : Transport}
    (hwf : WellFormedPreamble p recs) (hrole : p.role = 3)
    (hpairs : ∀ q ∈ p.pairs, (NV.enc q).length ≤ alignedBufsize b)
    (hnoise : NoiseFits (alignedBufsize b) recs)
    (hs : StreamRecs p.id 5 content srecs) (hsn : NoiseFits (alignedBufsize b) srecs)
    (hd : StreamRecs p.id 8 content2 drecs) (hdn : NoiseFits (alignedBufsize b) drecs)
    (hin : t.input = serAll recs ++ (serAll srecs ++ serAll drecs)) (hben : Ben t) (hev : hsCount t.events = 0),
    ∃ (g : E2E.Cfg) (k : Nat), g.p = p ∧ g.R = srecs ∧ g.R2 = drecs ∧ g.L0 = t.wlog ∧ k ≤ t.rd.length + t.wr.length ∧
      (∀ j, j ≤ k → ∃ cj, runTask j (connS b mc t ((.writeable :: rest, true) :: more)) 0 none = (cj, "FUEL") ∧
        SGate g rest cj) ∧
      ∃ ck, runTask k (connS b mc t ((.writeable :: rest, true) :: more)) 0 none = (ck, "FUEL") ∧
        GatePoll g rest (prePoll ck k none)

theorem C09Clause11_holds : C09Clause11 := by
  unfold C09Clause11
  exact @filter_gate_e2e

end Fcgi.C09G
end

section
namespace Fcgi.C09G
open Fcgi Fcgi.Req Fcgi.Str Fcgi.Async Fcgi.Run Fcgi.Spec Fcgi.E2E Fcgi.C07E Fcgi.C07U
/-- … `GateAt`: the request is writeable, the COMPLETE Stdin stream incl. its terminator was taken from the transport, the log holds no handler byte  (= `Fcgi.C09G.gateAt_facts`, `Props/C09Gate.lean`) -/
def C09Clause12 : Prop :=
  ∀ {g : E2E.Cfg} {r : AReq} {m : MutexSt} {t : Transport} (h : GateAt g r m t),
    r.writeable = true ∧ (∃ G, G ++ t.input = g.X ∧ serAll g.R <+: G) ∧
    t.input.length ≤ (serAll g.R2).length ∧ ∃ O₁, t.wlog = g.L1 ++ O₁ ∧ O₁ <+: g.K8u.O

theorem C09Clause12_holds : C09Clause12 := by
  unfold C09Clause12
  exact @gateAt_facts

end Fcgi.C09G
end

section
namespace Fcgi.C09G
open Fcgi Fcgi.Req Fcgi.Str Fcgi.Async Fcgi.Run Fcgi.Spec Fcgi.E2E Fcgi.C07E Fcgi.C07U
/-- … before the gate (`WH`): no writer exists, not writeable, log = owed replies only  (= `Fcgi.C09G.wh_facts`, `Props/C09Gate.lean`) -/
def C09Clause13 : Prop :=
  ∀ {g : E2E.Cfg} {rest : List HOp} {c : Conn} (h : WH g rest c),
    ∃ r hs, c.phase = .handler r hs ∧ hs.writers = [] ∧ r.writeable = false ∧
      ∃ O₁, c.env.tr.wlog = g.L1 ++ O₁

theorem C09Clause13_holds : C09Clause13 := by
  unfold C09Clause13
  exact @wh_facts

end Fcgi.C09G
end

section
namespace Fcgi.C09G
open Fcgi Fcgi.Req Fcgi.Str Fcgi.Async Fcgi.Run Fcgi.Spec Fcgi.E2E Fcgi.C07E Fcgi.C07U
/-- the gate theorem stated WITHOUT a configuration: every conclusion in terms of `p recs srecs drecs mc t rest more` (`PreGate`, `GatePollFree`)  (= `Fcgi.C09G.filter_gate_free`, `Props/C09Gate3.lean`) -/
def C09Clause14 : Prop :=
  ∀ {p : Preamble} {recs : List Rec} {content : Bytes} {srecs : List Rec}
    {content2 : Bytes} {drecs : List Rec}
    {b mc : Nat} {rest : List HOp} {more : List (List HOp × Bool)} {t : Transport}
    (hwf : WellFormedPreamble p recs) (hrole : p.role = 3)
    (hpairs : ∀ q ∈ p.pairs, (NV.enc q).length ≤ alignedBufsize b)
    (hnoise : NoiseFits (alignedBufsize b) recs)
    (hs : StreamRecs p.id 5 content srecs) (hsn : NoiseFits (alignedBufsize b) srecs)
    (hd : StreamRecs p.id 8 content2 drecs) (hdn : NoiseFits (alignedBufsize b) drecs)
    (hin : t.input = serAll recs ++ (serAll srecs ++ serAll drecs)) (hben : Ben t) (hev : hsCount t.events = 0),
    ∃ k : Nat, k ≤ t.rd.length + t.wr.length ∧
      (∀ j, j ≤ k → ∃ cj, runTask j (connS b mc t ((.writeable :: rest, true) :: more)) 0 none = (cj, "FUEL") ∧
        PreGate p recs srecs drecs mc t.wlog rest cj) ∧
      ∃ ck, runTask k (connS b mc t ((.writeable :: rest, true) :: more)) 0 none = (ck, "FUEL") ∧
        GatePollFree p recs srecs drecs mc t.wlog rest more (prePoll ck k none)

theorem C09Clause14_holds : C09Clause14 := by
  unfold C09Clause14
  exact @filter_gate_free

end Fcgi.C09G
end

section
namespace Fcgi.C09G
open Fcgi Fcgi.Req Fcgi.Str Fcgi.Async Fcgi.Run Fcgi.Spec Fcgi.E2E Fcgi.C07E Fcgi.C07U
/-- `filter_gate_e2e` exporting the configuration it quantifies over (`GOK g rest`, `g.recs`, `g.mc`, `g.b`, `g.hs0`, `g.more` pinned)  (= `Fcgi.C09G.filter_gate_pinned`, `Props/C09Gate3.lean`) -/
def C09Clause15 : Prop :=
  ∀ {p : Preamble} {recs : List Rec} {content : Bytes} {srecs : List Rec}
    {content2 : Bytes} {drecs : List Rec}
    {b mc : Nat} {rest : List HOp} {more : List (List HOp × Bool)} {t : Transport}
    (hwf : WellFormedPreamble p recs) (hrole : p.role = 3)
    (hpairs : ∀ q ∈ p.pairs, (NV.enc q).length ≤ alignedBufsize b)
    (hnoise : NoiseFits (alignedBufsize b) recs)
    (hs : StreamRecs p.id 5 content srecs) (hsn : NoiseFits (alignedBufsize b) srecs)
    (hd : StreamRecs p.id 8 content2 drecs) (hdn : NoiseFits (alignedBufsize b) drecs)
    (hin : t.input = serAll recs ++ (serAll srecs ++ serAll drecs)) (hben : Ben t) (hev : hsCount t.events = 0),
    ∃ (g : E2E.Cfg) (k : Nat), GOK g rest ∧ g.p = p ∧ g.recs = recs ∧ g.mc = mc ∧ g.b = b ∧
      g.R = srecs ∧ g.R2 = drecs ∧ g.L0 = t.wlog ∧ g.hs0 = 0 ∧ g.more = more ∧ k ≤ t.rd.length + t.wr.length ∧
      (∀ j, j ≤ k → ∃ cj, runTask j (connS b mc t ((.writeable :: rest, true) :: more)) 0 none = (cj, "FUEL") ∧
        SGate g rest cj) ∧
      ∃ ck, runTask k (connS b mc t ((.writeable :: rest, true) :: more)) 0 none = (ck, "FUEL") ∧
        GatePoll g rest (prePoll ck k none)

theorem C09Clause15_holds : C09Clause15 := by
  unfold C09Clause15
  exact @filter_gate_pinned

end Fcgi.C09G
end

section
namespace Fcgi.C09G
open Fcgi Fcgi.Req Fcgi.Str Fcgi.Async Fcgi.Run Fcgi.Spec Fcgi.E2E Fcgi.C07E Fcgi.C07U
/-- … what `GateAt g` says for such a configuration: the bytes taken behind the preamble contain the complete Stdin stream  (= `Fcgi.C09G.gate_taken`, `Props/C09Gate3.lean`) -/
def C09Clause16 : Prop :=
  ∀ {g : E2E.Cfg} {rest : List HOp} (ok : GOK g rest) {r : AReq} {m : MutexSt} {t' : Transport}
    (h : GateAt g r m t'),
    r.writeable = true ∧
    (∃ G, G ++ t'.input = serAll g.R ++ serAll g.R2 ∧ serAll g.R <+: G) ∧
    ∃ O₁, t'.wlog = g.L0 ++ owedPreamble g.p g.mc g.recs ++ O₁ ∧
      O₁ <+: owedStream g.p.id 5 g.mc g.R ++ owedStream g.p.id 8 g.mc g.R2

theorem C09Clause16_holds : C09Clause16 := by
  unfold C09Clause16
  exact @gate_taken

end Fcgi.C09G
end

section
namespace Fcgi.C09G
open Fcgi Fcgi.Req Fcgi.Str Fcgi.Async Fcgi.Run Fcgi.Spec Fcgi.E2E Fcgi.C07E Fcgi.C07U
/-- the WHOLE run of `writeable(); open Stdout; write_all(data); return` on a Filter whose Data stream is never read: the Stdout records stand inside the owed replies, then the epilogue; every `data`, no fuel hypothesis  (= `Fcgi.C09G.filter_gate_write_e2e`, `Props/C09Gate2.lean`) -/
def C09Clause17 : Prop :=
  ∀ {p : Preamble} {recs : List Rec} {content : Bytes} {srecs : List Rec}
    {content2 : Bytes} {drecs : List Rec} {data : Bytes}
    {b mc : Nat} {st : ExitStatus} {more : List (List HOp × Bool)} {t : Transport} {fuel : Nat}
    (hwf : WellFormedPreamble p recs) (hrole : p.role = 3)
    (hpairs : ∀ q ∈ p.pairs, (NV.enc q).length ≤ alignedBufsize b)
    (hnoise : NoiseFits (alignedBufsize b) recs)
    (hs : StreamRecs p.id 5 content srecs) (hsn : NoiseFits (alignedBufsize b) srecs)
    (hd : StreamRecs p.id 8 content2 drecs) (hdn : NoiseFits (alignedBufsize b) drecs)
    (hnb : ∀ r ∈ drecs, r.rtype.toNat ≠ RT.beginRequest)
    (hin : t.input = serAll recs ++ (serAll srecs ++ serAll drecs)) (hben : Ben t) (hev : hsCount t.events = 0)
    (hfuel : t.rd.length + t.wr.length + 1 ≤ fuel),
    ∃ c' fin d₁ s₂ O₁ O₂,
      runTask fuel (connS b mc t ((.writeable :: gateRest data st, true) :: more)) 0 none = (c', fin) ∧
      GateWriteOutcome p recs srecs drecs d₁ s₂ O₁ O₂ data b mc st more t c' fin

theorem C09Clause17_holds : C09Clause17 := by
  unfold C09Clause17
  exact @filter_gate_write_e2e

end Fcgi.C09G
end

namespace Fcgi.Headline
/-- **C09** — see the section comment above for the clause-by-clause reading. -/
theorem C09_headline :
    Fcgi.C09E.C09Clause1 ∧
    Fcgi.C09E.C09Clause2 ∧
    Fcgi.C09E.C09Clause3 ∧
    Fcgi.C09E.C09Clause4 ∧
    Fcgi.C09.C09Clause5 ∧
    Fcgi.C09E.C09Clause6 ∧
    Fcgi.C09E.C09Clause7 ∧
    Fcgi.C09.C09Clause8 ∧
    Fcgi.C09E.C09Clause9 ∧
    Fcgi.C09E.C09Clause10 ∧
    Fcgi.C09G.C09Clause11 ∧
    Fcgi.C09G.C09Clause12 ∧
    Fcgi.C09G.C09Clause13 ∧
    Fcgi.C09G.C09Clause14 ∧
    Fcgi.C09G.C09Clause15 ∧
    Fcgi.C09G.C09Clause16 ∧
    Fcgi.C09G.C09Clause17 :=
  ⟨Fcgi.C09E.C09Clause1_holds, Fcgi.C09E.C09Clause2_holds, Fcgi.C09E.C09Clause3_holds, Fcgi.C09E.C09Clause4_holds, Fcgi.C09.C09Clause5_holds, Fcgi.C09E.C09Clause6_holds, Fcgi.C09E.C09Clause7_holds, Fcgi.C09.C09Clause8_holds, Fcgi.C09E.C09Clause9_holds, Fcgi.C09E.C09Clause10_holds, Fcgi.C09G.C09Clause11_holds, Fcgi.C09G.C09Clause12_holds, Fcgi.C09G.C09Clause13_holds, Fcgi.C09G.C09Clause14_holds, Fcgi.C09G.C09Clause15_holds, Fcgi.C09G.C09Clause16_holds, Fcgi.C09G.C09Clause17_holds⟩
end Fcgi.Headline


/-! # C10

**Property.**
> Whatever the number of output-stream writers, the order in which their tasks are polled and however the
> transport splits or delays writes, the bytes reaching the client form a sequence of complete, well-formed
> records in which no two records interleave. Each successful write of n bytes (n capped at 65535 per call)
> contributes exactly those n bytes, once, as the payload of one record of the writer's stream type and the
> request's id, with padding below 8 making the body a multiple of 8; per-writer byte order is preserved and
> the parser's own management replies obey the same exclusion.

**Clause by clause.**
* “the bytes reaching the client form a sequence of complete, well-formed records in which no two records
  interleave” — Clauses 2–4 (`no_interleave`, `no_interleave2` with clones/drops at any moment,
  `complete_when_free2`), Clause 6 (`recordOf_wellformed`).
* “each successful write of n bytes (n ≤ 65535) contributes exactly those n bytes, once, as the payload of
  one record of the writer's stream type and the request's id, padding < 8; per-writer order; the parser's
  own replies obey the same exclusion” — Clause 1 (`single_write`), Clause 5 (`completed_records2`); the
  request's own output is party 0 of the same mutex (`only_owner_writes2`).

**The conjuncts of `C10_headline`.**
1. `C10.single_write` — a successful write of n bytes contributes exactly one record with those n bytes,
   padded to a multiple of 8
2. `C10.no_interleave` — any number of writers, any poll order, any write splitting: the log is complete
   records plus at most one partial record of the mutex holder
3. `C10.no_interleave2` — … with clones and drops at any moment
4. `C10.complete_when_free2` — when the mutex is free the log is a sequence of complete records
5. `C10.completed_records2` — the completed records are exactly the writes, per-writer order kept
6. `C10.recordOf_wellformed` — every record is well formed (padding < 8, body multiple of 8)
7. `C10R.replies_one_holding` — the request's OWN replies: written in ONE holding of the mutex, over as many
   polls as needed; no writer's byte falls inside them
8. `C10R.log_whole_when_free` — … so whenever the mutex is free the log is the initial log followed by WHOLE
   well-formed records (writer records and replies alike)
9. `C10R.grown_whole` — the parser's reply buffer only ever grows by whole well-formed records, along any
   history of parser operations

**Modelling assumptions (obligations.json).**
* well-behaved callers re-poll a pending write with the same buffer (a different buffer of sufficient length
  yields a mixed payload - documented hazard, example in Props/C10.lean)
* dropping a StreamWriter mid-record is outside the operation set
* mutex waiter wake-ups not modelled

**Not proved as theorems — carried by the differential run + oracle, or trusted.**
* well-behaved callers re-poll a pending write with the same buffer; dropping a writer mid-record is outside
  the operation set (`drop_mid_record_hazard`)
* `Writer.clone` is the repaired Clone impl (fix 7eb5f08; the old one is refuted: `old_clone_breaks_loginv`)
* mutex waiter wake-ups not modelled
* the request's own replies: composed in Clauses 7–9 (`Props/C10Replies.lean`: whole records, one holding of
  the mutex).  SCOPE caveat: the system model `Sys` has no parse operation, so the reply buffer does not
  grow DURING a run (`StartOK`: it is `Whole` at the start; `maxConns < 2^64`); what happens to the buffer
  between runs is the parser-side Clause 9 (`grown_whole`).  Per-writer byte order is implicit in
  `completed` being in completion order
* buffers of size 0 are `empty_write` (registered, not a conjunct)

-/

section
namespace Fcgi.C10
open Fcgi Fcgi.Async
/-- a successful write of n bytes contributes exactly one record with those n bytes, padded to a multiple of 8  (= `Fcgi.C10.single_write`, `Props/C10.lean`) -/
def C10Clause1 : Prop :=
  ∀ (me : Nat) (buf : Bytes) (w0 : Writer) (os : List PollObs) (o : PollObs) (k : Nat)
    (hb : buf ≠ []) (hidle : w0.lock = .none ∧ w0.isWriting = false)
    (hchain : Chain me buf w0 (os ++ [o]))
    (hfirst : ∀ x ∈ os, ∀ j, x.res ≠ .ready j) (hk : o.res = .ready k),
    k = min buf.length 65535 ∧
    (os ++ [o]).flatMap PollObs.delta = recordOf w0.rtype w0.id (buf.take k) ∧
    o.m' = none ∧ o.w'.lock = .none ∧ o.w'.isWriting = false ∧
    ∀ x ∈ os, (x.res = .pending ∨ ∃ e, x.res = .err e) ∧
      (∀ e, x.res = .err e → x.m' = some (me + 1) ∧ x.w'.lock = .held) ∧
      (x.res = .pending → Consistent (me + 1) x.w'.lock x.m')

theorem C10Clause1_holds : C10Clause1 := by
  unfold C10Clause1
  exact @single_write

end Fcgi.C10
end

section
namespace Fcgi.C10
open Fcgi Fcgi.Async
/-- any number of writers, any poll order, any write splitting: the log is complete records plus at most one partial record of the mutex holder  (= `Fcgi.C10.no_interleave`, `Props/C10.lean`) -/
def C10Clause2 : Prop :=
  ∀ (s : Sys) (ops : List Op) (hown : OwnInv s)
    (hidle : ∀ (i : Nat) (w : Writer), s.writers[i]? = some w → w.isWriting = false)
    (hwb : WellBehaved (fun _ => none) s ops),
    ∃ cur, (run s ops).t.wlog = s.t.wlog ++ (completed s ops).flatMap Entry.bytes ++ cur ∧
      (cur = [] ∨ ∃ (i : Nat) (w : Writer) (buf : Bytes),
        (run s ops).mutex = some (i + 1) ∧ (run s ops).writers[i]? = some w ∧
        grun (fun _ => none) s ops i = some buf ∧ WInv w buf cur ∧
        cur <+: recordOf w.rtype w.id (buf.take (min buf.length 65535)) ∧
        cur.length < (recordOf w.rtype w.id (buf.take (min buf.length 65535))).length)

theorem C10Clause2_holds : C10Clause2 := by
  unfold C10Clause2
  exact @no_interleave

end Fcgi.C10
end

section
namespace Fcgi.C10
open Fcgi Fcgi.Async
/-- … with clones and drops at any moment  (= `Fcgi.C10.no_interleave2`, `Props/C10Clone2.lean`) -/
def C10Clause3 : Prop :=
  ∀ (s : Sys2) (ops : List Op2) (hown : OwnInv s.sys)
    (hidle : ∀ (i : Nat) (w : Writer), s.sys.writers[i]? = some w → w.isWriting = false)
    (hwb : WellBehaved2 (fun _ => none) s ops),
    ∃ cur, (run2 s ops).sys.t.wlog = s.sys.t.wlog ++ (completed2 s ops).flatMap Entry.bytes ++ cur ∧
      (cur = [] ∨ ∃ (i : Nat) (w : Writer) (buf : Bytes),
        (run2 s ops).sys.mutex = some (i + 1) ∧ (run2 s ops).sys.writers[i]? = some w ∧
        grun2 (fun _ => none) s ops i = some buf ∧ WInv w buf cur ∧
        cur <+: recordOf w.rtype w.id (buf.take (min buf.length 65535)) ∧
        cur.length < (recordOf w.rtype w.id (buf.take (min buf.length 65535))).length)

theorem C10Clause3_holds : C10Clause3 := by
  unfold C10Clause3
  exact @no_interleave2

end Fcgi.C10
end

section
namespace Fcgi.C10
open Fcgi Fcgi.Async
/-- when the mutex is free the log is a sequence of complete records  (= `Fcgi.C10.complete_when_free2`, `Props/C10Clone2.lean`) -/
def C10Clause4 : Prop :=
  ∀ (s : Sys2) (ops : List Op2) (hown : OwnInv s.sys)
    (hidle : ∀ (i : Nat) (w : Writer), s.sys.writers[i]? = some w → w.isWriting = false)
    (hwb : WellBehaved2 (fun _ => none) s ops) (hfree : (run2 s ops).sys.mutex = none),
    (run2 s ops).sys.t.wlog = s.sys.t.wlog ++ (completed2 s ops).flatMap Entry.bytes

theorem C10Clause4_holds : C10Clause4 := by
  unfold C10Clause4
  exact @complete_when_free2

end Fcgi.C10
end

section
namespace Fcgi.C10
open Fcgi Fcgi.Async
/-- the completed records are exactly the writes, per-writer order kept  (= `Fcgi.C10.completed_records2`, `Props/C10Clone2.lean`) -/
def C10Clause5 : Prop :=
  ∀ (ops : List Op2),
    ∀ (g : Ghost) (s : Sys2) (done cur : Bytes),
    LogInv g s.sys done cur → WellBehaved2 g s ops →
    ∀ (i rtype id : Nat) (payload : Bytes), Entry.record i rtype id payload ∈ completed2 s ops →
    ∃ (buf : Bytes) (w : Writer), Op2.old (.wpoll i buf) ∈ ops ∧ buf ≠ [] ∧
      (run2 s ops).sys.writers[i]? = some w ∧ rtype = w.rtype ∧ id = w.id ∧
      payload = buf.take (min buf.length 65535) ∧ payload.length = min buf.length 65535

theorem C10Clause5_holds : C10Clause5 := by
  unfold C10Clause5
  exact @completed_records2

end Fcgi.C10
end

section
namespace Fcgi.C10
open Fcgi Fcgi.Async
/-- every record is well formed (padding < 8, body multiple of 8)  (= `Fcgi.C10.recordOf_wellformed`, `Props/C10.lean`) -/
def C10Clause6 : Prop :=
  ∀ (rtype id : Nat) (payload rest : Bytes)
    (ht : RT.valid rtype = true) (hi : id < 65536) (hp : payload.length ≤ 65535),
    RecordHeader.fromBytes (recordOf rtype id payload ++ rest) =
      some (.ok ⟨rtype, id, payload.length, RecordHeader.autoPadding payload.length⟩) ∧
    (recordOf rtype id payload ++ rest).drop 8 =
      payload ++ zeros (RecordHeader.autoPadding payload.length) ++ rest

theorem C10Clause6_holds : C10Clause6 := by
  unfold C10Clause6
  exact @recordOf_wellformed

end Fcgi.C10
end

section
namespace Fcgi.C10R
open Fcgi Fcgi.Async Fcgi.C10
open Fcgi.C12Inv (Whole AllWF whole_recordOf strParse_out OutW)
/-- the request's OWN replies: written in ONE holding of the mutex, over as many polls as needed; no writer's byte falls inside them  (= `Fcgi.C10R.replies_one_holding`, `Props/C10Replies.lean`) -/
def C10Clause7 : Prop :=
  ∀ (s : Sys) (ops : List Op) (h0 : StartOK s)
    (hwb : WellBehaved (fun _ => none) s ops),
    ∃ D1 R D2, (completed s ops).flatMap Entry.bytes = D1 ++ R ++ D2 ∧ Whole D1 ∧ Whole D2 ∧
      R ++ (run s ops).req.sp.output = s.req.sp.output ∧
      (R ≠ [] → (run s ops).req.sp.output ≠ [] → (run s ops).mutex = some 0 ∧ D2 = [])

theorem C10Clause7_holds : C10Clause7 := by
  unfold C10Clause7
  exact @replies_one_holding

end Fcgi.C10R
end

section
namespace Fcgi.C10R
open Fcgi Fcgi.Async Fcgi.C10
open Fcgi.C12Inv (Whole AllWF whole_recordOf strParse_out OutW)
/-- … so whenever the mutex is free the log is the initial log followed by WHOLE well-formed records (writer records and replies alike)  (= `Fcgi.C10R.log_whole_when_free`, `Props/C10Replies.lean`) -/
def C10Clause8 : Prop :=
  ∀ (s : Sys) (ops : List Op) (h0 : StartOK s)
    (hwb : WellBehaved (fun _ => none) s ops) (hfree : (run s ops).mutex = none),
    ∃ W, (run s ops).t.wlog = s.t.wlog ++ W ∧ Whole W

theorem C10Clause8_holds : C10Clause8 := by
  unfold C10Clause8
  exact @log_whole_when_free

end Fcgi.C10R
end

section
namespace Fcgi.C10R
open Fcgi Fcgi.Async Fcgi.C10
open Fcgi.C12Inv (Whole AllWF whole_recordOf strParse_out OutW)
/-- the parser's reply buffer only ever grows by whole well-formed records, along any history of parser operations  (= `Fcgi.C10R.grown_whole`, `Props/C10Replies.lean`) -/
def C10Clause9 : Prop :=
  ∀ (ops : List Str.Op),
    ∀ (p : Str.Parser), p.maxConns < 2 ^ 64 → Whole (C03S.grownAll p ops)

theorem C10Clause9_holds : C10Clause9 := by
  unfold C10Clause9
  exact @grown_whole

end Fcgi.C10R
end

namespace Fcgi.Headline
/-- **C10** — see the section comment above for the clause-by-clause reading. -/
theorem C10_headline :
    Fcgi.C10.C10Clause1 ∧
    Fcgi.C10.C10Clause2 ∧
    Fcgi.C10.C10Clause3 ∧
    Fcgi.C10.C10Clause4 ∧
    Fcgi.C10.C10Clause5 ∧
    Fcgi.C10.C10Clause6 ∧
    Fcgi.C10R.C10Clause7 ∧
    Fcgi.C10R.C10Clause8 ∧
    Fcgi.C10R.C10Clause9 :=
  ⟨Fcgi.C10.C10Clause1_holds, Fcgi.C10.C10Clause2_holds, Fcgi.C10.C10Clause3_holds, Fcgi.C10.C10Clause4_holds, Fcgi.C10.C10Clause5_holds, Fcgi.C10.C10Clause6_holds, Fcgi.C10R.C10Clause7_holds, Fcgi.C10R.C10Clause8_holds, Fcgi.C10R.C10Clause9_holds⟩
end Fcgi.Headline


/-! # C11

**Property.**
> An AbortRequest for the request in progress produces exactly one EndRequest with protocol status
> RequestComplete for that request id: at once and without invoking the handler if it arrives during the
> Params stream, or - if it arrives later - after the handler's next input read fails with a connection-
> aborted error, carrying the distinguished abort application status unless the handler chose its own. Input
> delivered before the error is a prefix of what the client sent, an AbortRequest for any other id is
> ignored, and with the keep-connection flag the same connection then serves the next request correctly.

**Clause by clause.**
* “exactly one EndRequest(RequestComplete): at once and without invoking the handler if it arrives during
  Params” — Clause 1 (`abort_in_params_e2e_okn`; this and the other e2e clauses: the `_unbounded` versions
  of `Props/E2EUnbounded.lean`, no bound on the wire length, no model-fuel hypothesis).
* “or — later — after the handler's next input read fails with a connection-aborted error, carrying the
  abort application status unless the handler chose its own” — Clauses 2–3
  (`abort_mid_stream_e2e_unbounded`, `abort_own_status_e2e_unbounded`).
* “input delivered before the error is a prefix of what the client sent, an AbortRequest for any other id is
  ignored, and with keep-connection the same connection then serves the next request” — Clauses 4–6
  (`abort_mid_stream_prefix_e2e_unbounded`, `foreign_abort_ignored_e2e_nofuel`,
  `abort_mid_stream_next_e2e_okn`); Clause 7 (`filter_abort_table_full_anysize`,
  `Props/C11FilterAnysize.lean`: no bound on the Stdin wire either): every abort placement × handler row for
  a Filter, exactly one EndRequest each.
* “Responder cells beyond the canonical reading handler” — Clauses 8–11: abort in Params with nothing behind
  it, own status + KEEP_CONN, `close` tolerating the aborted state at poll level (handler not reading / past
  end-of-stream: no e2e theorem), the error kind.

**The conjuncts of `C11_headline`.**
1. `C11E.abort_in_params_e2e_okn` — abort inside Params (followed by a complete request `q`): one
   EndRequest(RequestComplete), no handler; alone: Clause 8
2. `C11E.abort_mid_stream_e2e_unbounded` — abort later: the handler's next read fails with
   ConnectionAborted, one EndRequest with the abort status
3. `C11E.abort_own_status_e2e_unbounded` — … unless the handler chose its own status
4. `C11E.abort_mid_stream_prefix_e2e_unbounded` — input delivered before the error is a prefix of what was
   sent
5. `C11E.foreign_abort_ignored_e2e_nofuel` — an AbortRequest for another id is ignored
6. `C11E.abort_mid_stream_next_e2e_okn` — with KEEP_CONN the connection serves the next request
7. `C11F.filter_abort_table_full_anysize` — Filter: every placement of the abort × handler row, any sizes
8. `C11E.abort_in_params_alone_e2e_unbounded` — abort inside Params with nothing behind it
9. `C11E.abort_own_status_next_e2e_okn` — own status + KEEP_CONN: the next request is served
10. `C11.close_tolerates_abort` — poll level: a Responder that does not read / is past end-of-stream —
   `close` tolerates the aborted state
11. `C11.abort_maps_to_connection_aborted` — the error KIND: the parser's abort signal reaches the handler
   as ConnectionAborted
12. `C11U.abort_unread_e2e` — END TO END, a Responder (KEEP_CONN) whose handler does NOT read, aborted: one
   handler start, the handler undisturbed, ONE EndRequest carrying the HANDLER's status; the abort record is
   swallowed by the next `parse_request` (no second EndRequest); the connection is reused
13. `C11U.abort_unread_own_e2e` — … with only own Stdin records in front of the abort: nothing else is owed

**Modelling assumptions (obligations.json).**
* end-to-end (Props/C11E2E, benign transports = arbitrary splitting/Pendings, no errors):
  `abort_in_params_e2e` (abort anywhere inside the Params stream: exactly one EndRequest(RequestComplete,
  app 0) from the request parser, no handler for that id, and a following request of any role is served
  exactly as if sent alone), `abort…
* other handlers, other transports (faults) and the interaction with management traffic are enumerated by
  the differential run
* Props/C11Filter (Proofs/E2EFilterAbortStr, E2EFilterAbortConn): `filter_abort_noread_e2e` — a FILTER whose
  handler never reads ([ret st]), KEEP_CONN and not, AbortRequest(id) inside Stdin, between Stdin and Data,
  or in the Data stream before any Data content: close()'s own writeable() meets the abort, swallows it and
  keeps th…

**Not proved as theorems — carried by the differential run + oracle, or trusted.**
* a Responder that does not read, aborted: END TO END in Clauses 12–13 (`Props/C11Unread.lean`, KEEP_CONN);
  still poll level only (Clause 10): a `fill_buf` handler that gets ConnectionAborted end to end; the non-
  reading handler WITHOUT keep-conn; 'at once' as a timing statement is not stated (the log position is)
* other handlers, faulty transports and the interplay with management traffic are enumerated by the
  differential run

-/

section
namespace Fcgi.C11E
open Fcgi Fcgi.Req Fcgi.Str Fcgi.Async Fcgi.Run Fcgi.Spec Fcgi.E2E Fcgi.C07E
/-- abort inside Params (followed by a complete request `q`): one EndRequest(RequestComplete), no handler; alone: Clause 8  (= `Fcgi.C11E.abort_in_params_e2e_okn`, `Props/C11NoFuel2.lean`) -/
def C11Clause1 : Prop :=
  ∀ {p : Preamble} {hd suf : List Rec} {a : Rec} {b mc : Nat} {q : Sent}
    {t : Transport} {fuel : Nat}
    (hwf : WellFormedPreamble p (hd ++ suf)) (hsuf : suf ≠ []) (hbeg : ∃ r ∈ hd, ¬ IdleNoise r)
    (ha : IsAbort p.id a)
    (hpairs : ∀ x ∈ p.pairs, (NV.enc x).length ≤ alignedBufsize b)
    (hnoise : NoiseFits (alignedBufsize b) (hd ++ suf))
    (hq : q.OKn b)
    (hin : t.input = serAll hd ++ a.ser ++ q.wire) (hben : Ben t) (hev : hsCount t.events = 0)
    (hfuel : t.rd.length + t.wr.length + 1 ≤ fuel),
    ∃ c' fin O₁ O₂, runTask fuel (connS b mc t [q.handler]) 0 none = (c', fin) ∧
      O₁ ++ O₂ = q.owed mc ∧
      OutcomeG q.p q.reads b mc t.wlog
        (owedPreamble p mc hd ++ abortReply p.id ++ expectedLogN q.p q.recs mc q.data q.st O₁ O₂) t c' fin

theorem C11Clause1_holds : C11Clause1 := by
  unfold C11Clause1
  exact @abort_in_params_e2e_okn

end Fcgi.C11E
end

section
namespace Fcgi.C11E
open Fcgi Fcgi.Req Fcgi.Str Fcgi.Async Fcgi.Run Fcgi.Spec Fcgi.E2E Fcgi.C07E
/-- abort later: the handler's next read fails with ConnectionAborted, one EndRequest with the abort status  (= `Fcgi.C11E.abort_mid_stream_e2e_unbounded`, `Props/E2EUnbounded.lean`) -/
def C11Clause2 : Prop :=
  ∀ {p : Preamble} {recs : List Rec} {c1 : Bytes} {body : List Rec} {a : Rec}
    {tail : Bytes} {b mc : Nat} {data : Bytes} {st : ExitStatus} {t : Transport} {fuel : Nat}
    (hwf : WellFormedPreamble p recs) (hrole : p.role = 1) (hnk : p.flags.toNat % 2 = 0)
    (hpairs : ∀ q ∈ p.pairs, (NV.enc q).length ≤ alignedBufsize b)
    (hnoise : NoiseFits (alignedBufsize b) recs)
    (hbody : Body p.id 5 c1 body) (hbn : NoiseFits (alignedBufsize b) body) (ha : IsAbort p.id a)
    (hin : t.input = serAll recs ++ (serAll body ++ (a.ser ++ tail))) (hben : Ben t)
    (hev : hsCount t.events = 0) (hfuel : t.rd.length + t.wr.length + 1 ≤ fuel),
    ∃ c' O₁ O₂, runTask fuel (conn0 b mc t data st) 0 none = (c', "RET") ∧
      O₁ ++ O₂ = owedStream p.id 5 mc body ∧
      c'.env.tr.wlog = t.wlog ++ (owedPreamble p mc recs ++ O₁ ++ O₂ ++ epilogue p.id ExitStatus.abort) ∧
      c'.phase = .finished ∧ hsCount c'.env.tr.events = 1 ∧ AbortedOutcome p c1 c'

theorem C11Clause2_holds : C11Clause2 := by
  unfold C11Clause2
  exact @abort_mid_stream_e2e_unbounded

end Fcgi.C11E
end

section
namespace Fcgi.C11E
open Fcgi Fcgi.Req Fcgi.Str Fcgi.Async Fcgi.Run Fcgi.Spec Fcgi.E2E Fcgi.C07E
/-- … unless the handler chose its own status  (= `Fcgi.C11E.abort_own_status_e2e_unbounded`, `Props/E2EUnbounded.lean`) -/
def C11Clause3 : Prop :=
  ∀ {p : Preamble} {recs : List Rec} {c1 : Bytes} {body : List Rec} {a : Rec}
    {tail : Bytes} {b mc : Nat} {st : ExitStatus} {t : Transport} {fuel : Nat}
    (hwf : WellFormedPreamble p recs) (hrole : p.role = 1) (hnk : p.flags.toNat % 2 = 0)
    (hpairs : ∀ q ∈ p.pairs, (NV.enc q).length ≤ alignedBufsize b)
    (hnoise : NoiseFits (alignedBufsize b) recs)
    (hbody : Body p.id 5 c1 body) (hbn : NoiseFits (alignedBufsize b) body) (ha : IsAbort p.id a)
    (hin : t.input = serAll recs ++ (serAll body ++ (a.ser ++ tail))) (hben : Ben t)
    (hev : hsCount t.events = 0) (hfuel : t.rd.length + t.wr.length + 1 ≤ fuel),
    ∃ c' O₁ O₂, runTask fuel (connS b mc t [([.readAll, .ret st], false)]) 0 none = (c', "RET") ∧
      O₁ ++ O₂ = owedStream p.id 5 mc body ∧
      c'.env.tr.wlog = t.wlog ++ (owedPreamble p mc recs ++ O₁ ++ O₂ ++ epilogue p.id st) ∧
      c'.phase = .finished ∧ hsCount c'.env.tr.events = 1 ∧ AbortedOutcome p c1 c'

theorem C11Clause3_holds : C11Clause3 := by
  unfold C11Clause3
  exact @abort_own_status_e2e_unbounded

end Fcgi.C11E
end

section
namespace Fcgi.C11E
open Fcgi Fcgi.Req Fcgi.Str Fcgi.Async Fcgi.Run Fcgi.Spec Fcgi.E2E Fcgi.C07E
/-- input delivered before the error is a prefix of what was sent  (= `Fcgi.C11E.abort_mid_stream_prefix_e2e_unbounded`, `Props/E2EUnbounded.lean`) -/
def C11Clause4 : Prop :=
  ∀ {p : Preamble} {recs : List Rec} {content : Bytes} {body suf : List Rec}
    {a : Rec} {tail : Bytes} {b mc : Nat} {data : Bytes} {st : ExitStatus} {t : Transport} {fuel : Nat}
    (hwf : WellFormedPreamble p recs) (hrole : p.role = 1) (hnk : p.flags.toNat % 2 = 0)
    (hpairs : ∀ q ∈ p.pairs, (NV.enc q).length ≤ alignedBufsize b)
    (hnoise : NoiseFits (alignedBufsize b) recs)
    (hs : StreamRecs p.id 5 content (body ++ suf)) (hsuf : suf ≠ [])
    (hbn : NoiseFits (alignedBufsize b) body) (ha : IsAbort p.id a)
    (hin : t.input = serAll recs ++ (serAll body ++ (a.ser ++ tail))) (hben : Ben t)
    (hev : hsCount t.events = 0) (hfuel : t.rd.length + t.wr.length + 1 ≤ fuel),
    ∃ c' O₁ O₂ acc, runTask fuel (conn0 b mc t data st) 0 none = (c', "RET") ∧
      O₁ ++ O₂ = owedStream p.id 5 mc body ∧ acc <+: content ∧ raEvent acc ∈ c'.env.tr.events ∧
      startEvent p.request ∈ c'.env.tr.events ∧ hsCount c'.env.tr.events = 1 ∧
      c'.env.tr.wlog = t.wlog ++ (owedPreamble p mc recs ++ O₁ ++ O₂ ++ epilogue p.id ExitStatus.abort) ∧
      c'.phase = .finished

theorem C11Clause4_holds : C11Clause4 := by
  unfold C11Clause4
  exact @abort_mid_stream_prefix_e2e_unbounded

end Fcgi.C11E
end

section
namespace Fcgi.C11E
open Fcgi Fcgi.Req Fcgi.Str Fcgi.Async Fcgi.Run Fcgi.Spec Fcgi.E2E Fcgi.C07E
/-- an AbortRequest for another id is ignored  (= `Fcgi.C11E.foreign_abort_ignored_e2e_nofuel`, `Props/C11NoFuel.lean`) -/
def C11Clause5 : Prop :=
  ∀ {p : Preamble} {recs : List Rec} {content : Bytes} {s1 s2 : List Rec}
    {f : Rec} {b mc : Nat} {data : Bytes} {st : ExitStatus} {t : Transport} {fuel : Nat}
    (hwf : WellFormedPreamble p recs) (hrole : p.role = 1)
    (hpairs : ∀ q ∈ p.pairs, (NV.enc q).length ≤ alignedBufsize b)
    (hnoise : NoiseFits (alignedBufsize b) recs)
    (hs : StreamRecs p.id 5 content (s1 ++ s2)) (hs2 : s2 ≠ [])
    (hsn : NoiseFits (alignedBufsize b) (s1 ++ s2)) (hf : ForeignAbort p.id f)
    (hin : t.input = serAll recs ++ serAll (s1 ++ f :: s2)) (hben : Ben t) (hev : hsCount t.events = 0)
    (hfuel : t.rd.length + t.wr.length + 1 ≤ fuel),
    ∃ c' fin O₁ O₂, runTask fuel (conn0 b mc t data st) 0 none = (c', fin) ∧
      O₁ ++ O₂ = owedStream p.id 5 mc (s1 ++ s2) ∧
      OutcomeN p content b mc t.wlog (expectedLogN p recs mc data st O₁ O₂) t c' fin

theorem C11Clause5_holds : C11Clause5 := by
  unfold C11Clause5
  exact @foreign_abort_ignored_e2e_nofuel

end Fcgi.C11E
end

section
namespace Fcgi.C11E
open Fcgi Fcgi.Req Fcgi.Str Fcgi.Async Fcgi.Run Fcgi.Spec Fcgi.E2E Fcgi.C07E
/-- with KEEP_CONN the connection serves the next request  (= `Fcgi.C11E.abort_mid_stream_next_e2e_okn`, `Props/C11NoFuel2.lean`) -/
def C11Clause6 : Prop :=
  ∀ {p : Preamble} {recs : List Rec} {c1 : Bytes} {body : List Rec} {a : Rec}
    {b mc : Nat} {data : Bytes} {st : ExitStatus} {q : Sent} {t : Transport} {fuel : Nat}
    (hwf : WellFormedPreamble p recs) (hrole : p.role = 1) (hk : p.flags.toNat % 2 = 1)
    (hpairs : ∀ x ∈ p.pairs, (NV.enc x).length ≤ alignedBufsize b)
    (hnoise : NoiseFits (alignedBufsize b) recs)
    (hbody : Body p.id 5 c1 body) (hbn : NoiseFits (alignedBufsize b) body) (ha : IsAbort p.id a)
    (hq : q.OKn b)
    (hin : t.input = serAll recs ++ (serAll body ++ (a.ser ++ q.wire))) (hben : Ben t)
    (hev : hsCount t.events = 0) (hfuel : t.rd.length + t.wr.length + 1 ≤ fuel),
    ∃ c' fin O₁ O₂ P₁ P₂,
      runTask fuel (connS b mc t [(canonical data st, true), q.handler]) 0 none = (c', fin) ∧
      O₁ ++ O₂ = owedStream p.id 5 mc body ∧ P₁ ++ P₂ = q.owed mc ∧
      c'.env.tr.wlog = t.wlog ++ (owedPreamble p mc recs ++ O₁ ++ O₂ ++ epilogue p.id ExitStatus.abort ++
        expectedLogN q.p q.recs mc q.data q.st P₁ P₂) ∧
      hsCount c'.env.tr.events = 2 ∧ AbortedOutcome p c1 c' ∧ NextOutcome q b mc t c' fin

theorem C11Clause6_holds : C11Clause6 := by
  unfold C11Clause6
  exact @abort_mid_stream_next_e2e_okn

end Fcgi.C11E
end

section
namespace Fcgi.C11F
open Fcgi Fcgi.Req Fcgi.Str Fcgi.Async Fcgi.Run Fcgi.Spec Fcgi.E2E Fcgi.C07E Fcgi.C07U
/-- Filter: every placement of the abort × handler row, any sizes  (= `Fcgi.C11F.filter_abort_table_full_anysize`, `Props/C11FilterAnysize.lean`) -/
def C11Clause7 : Prop :=
  (∀ {p : Preamble} {recs sbody dbody : List Rec} {pad : Bytes} {res : UInt8} {a : Rec} {post : List Rec}
      {b mc : Nat} {content c2 : Bytes} {st : ExitStatus} {more : List (List HOp × Bool)} {t : Transport}
      {fuel : Nat},
      WellFormedPreamble p recs → p.role = 3 → (∀ q ∈ p.pairs, (NV.enc q).length ≤ alignedBufsize b) →
      NoiseFits (alignedBufsize b) recs → Body p.id 5 content sbody → NoiseFits (alignedBufsize b) sbody →
      pad.length < 256 → Body p.id 8 c2 dbody → NoiseFits (alignedBufsize b) dbody →
      (∀ r ∈ dbody, r.rtype.toNat ≠ RT.beginRequest) → IsAbort p.id a →
      (∀ r ∈ post, r.WF) → NoiseFits (alignedBufsize b) post → (∀ r ∈ post, r.rtype.toNat ≠ RT.beginRequest) →
      (∀ r ∈ post, ¬ (r.rtype.toNat = 5 ∧ r.id = p.id)) →
      t.input = serAll recs ++ gapX p.id sbody pad res dbody a post → Ben t → hsCount t.events = 0 →
      t.rd.length + t.wr.length + 1 ≤ fuel →
      ∃ c' fin, runTask fuel (connS b mc t (([.ret st], true) :: more)) 0 none = (c', fin) ∧
        EndOnce p recs mc st t c') ∧
    -- … and all the other cells
    ((∀ {p : Preamble} {recs pre : List Rec} {a : Rec} {post : List Rec} {b mc : Nat} {st : ExitStatus}
      {more : List (List HOp × Bool)} {t : Transport} {fuel : Nat},
      WellFormedPreamble p recs → p.role = 3 → (∀ q ∈ p.pairs, (NV.enc q).length ≤ alignedBufsize b) →
      NoiseFits (alignedBufsize b) recs → (∀ r ∈ pre, StdinRec p.id r) → NoiseFits (alignedBufsize b) pre →
      IsAbort p.id a → (∀ r ∈ post, r.WF) → NoiseFits (alignedBufsize b) post →
      (∀ r ∈ post, r.rtype.toNat ≠ RT.beginRequest) →
      t.input = serAll recs ++ (serAll (pre ++ [a]) ++ serAll post) → Ben t → hsCount t.events = 0 →
      t.rd.length + t.wr.length + 1 ≤ fuel →
      ∃ c' fin, runTask fuel (connS b mc t (([.ret st], true) :: more)) 0 none = (c', fin) ∧
        EndOnce p recs mc st t c') ∧
    (∀ {p : Preamble} {recs pre : List Rec} {a : Rec} {post : List Rec} {b mc : Nat} {content : Bytes}
      {s0 : ExitStatus} {pr : Bool} {more : List (List HOp × Bool)} {t : Transport} {fuel : Nat},
      WellFormedPreamble p recs → p.role = 3 → (∀ q ∈ p.pairs, (NV.enc q).length ≤ alignedBufsize b) →
      NoiseFits (alignedBufsize b) recs → Body p.id 5 content pre → NoiseFits (alignedBufsize b) pre →
      IsAbort p.id a → (∀ r ∈ post, r.WF) → NoiseFits (alignedBufsize b) post →
      (∀ r ∈ post, r.rtype.toNat ≠ RT.beginRequest) →
      t.input = serAll recs ++ (serAll (pre ++ [a]) ++ serAll post) → Ben t → hsCount t.events = 0 →
      t.rd.length + t.wr.length + 1 ≤ fuel →
      ∃ c' fin, runTask fuel (connS b mc t ((rscript s0, pr) :: more)) 0 none = (c', fin) ∧
        EndOnce p recs mc (closeStatus pr s0) t c') ∧
    (∀ {p : Preamble} {recs sbody mid : List Rec} {pad : Bytes} {res : UInt8} {a : Rec} {post : List Rec}
      {b mc : Nat} {content : Bytes}
      {s0 : ExitStatus} {pr : Bool} {more : List (List HOp × Bool)} {t : Transport} {fuel : Nat},
      WellFormedPreamble p recs → p.role = 3 → (∀ q ∈ p.pairs, (NV.enc q).length ≤ alignedBufsize b) →
      NoiseFits (alignedBufsize b) recs → Body p.id 5 content sbody → NoiseFits (alignedBufsize b) sbody →
      pad.length < 256 → (∀ r ∈ mid, StdinRec p.id r) → NoiseFits (alignedBufsize b) mid →
      IsAbort p.id a → (∀ r ∈ post, r.WF) → NoiseFits (alignedBufsize b) post →
      (∀ r ∈ post, r.rtype.toNat ≠ RT.beginRequest) →
      t.input = serAll recs ++ gapX p.id sbody pad res mid a post → Ben t → hsCount t.events = 0 →
      t.rd.length + t.wr.length + 1 ≤ fuel →
      ∃ c' fin, runTask fuel (connS b mc t ((rscript s0, pr) :: more)) 0 none = (c', fin) ∧
        EndOnce p recs mc (closeStatus pr s0) t c') ∧
    (∀ {p : Preamble} {recs sbody dbody : List Rec} {pad : Bytes} {res : UInt8} {a : Rec} {post : List Rec}
      {b mc : Nat} {content c2 : Bytes}
      {s0 : ExitStatus} {pr : Bool} {more : List (List HOp × Bool)} {t : Transport} {fuel : Nat},
      WellFormedPreamble p recs → p.role = 3 → (∀ q ∈ p.pairs, (NV.enc q).length ≤ alignedBufsize b) →
      NoiseFits (alignedBufsize b) recs → Body p.id 5 content sbody → NoiseFits (alignedBufsize b) sbody →
      pad.length < 256 → Body p.id 8 c2 dbody → NoiseFits (alignedBufsize b) dbody →
      IsAbort p.id a → (∀ r ∈ post, r.WF) → NoiseFits (alignedBufsize b) post →
      (∀ r ∈ post, r.rtype.toNat ≠ RT.beginRequest) →
      t.input = serAll recs ++ gapX p.id sbody pad res dbody a post → Ben t → hsCount t.events = 0 →
      t.rd.length + t.wr.length + 1 ≤ fuel →
      ∃ c' fin, runTask fuel (connS b mc t ((rscript s0, pr) :: more)) 0 none = (c', fin) ∧
        EndOnce p recs mc (closeStatus pr s0) t c') ∧
    (∀ s0, closeStatus true s0 = ExitStatus.abort ∧ closeStatus false s0 = s0))

theorem C11Clause7_holds : C11Clause7 := by
  unfold C11Clause7
  exact @filter_abort_table_full_anysize

end Fcgi.C11F
end

section
namespace Fcgi.C11E
open Fcgi Fcgi.Req Fcgi.Str Fcgi.Async Fcgi.Run Fcgi.Spec Fcgi.E2E Fcgi.C07E
/-- abort inside Params with nothing behind it  (= `Fcgi.C11E.abort_in_params_alone_e2e_unbounded`, `Props/E2EUnbounded.lean`) -/
def C11Clause8 : Prop :=
  ∀ {p : Preamble} {hd suf : List Rec} {a : Rec} {b mc : Nat}
    {sc : List (List HOp × Bool)} {t : Transport} {fuel : Nat}
    (hwf : WellFormedPreamble p (hd ++ suf)) (hsuf : suf ≠ []) (hbeg : ∃ r ∈ hd, ¬ IdleNoise r)
    (ha : IsAbort p.id a)
    (hpairs : ∀ x ∈ p.pairs, (NV.enc x).length ≤ alignedBufsize b)
    (hnoise : NoiseFits (alignedBufsize b) (hd ++ suf))
    (hin : t.input = serAll hd ++ a.ser) (hben : Ben t) (hev : hsCount t.events = 0)
    (hfuel : t.rd.length + t.wr.length + 1 ≤ fuel),
    ∃ c' fin, runTask fuel (connS b mc t sc) 0 none = (c', fin) ∧
      c'.env.tr.wlog = t.wlog ++ (owedPreamble p mc hd ++ abortReply p.id) ∧
      hsCount c'.env.tr.events = 0 ∧ c'.scripts = sc ∧
      ((t.endMode = .eof ∧ fin = "RET" ∧ c'.phase = .finished) ∨
       (t.endMode = .pend ∧ fin = "STALL" ∧
         c'.phase = .parseReq ⟨alignedBufsize b, [], .header, mc⟩ .reading ∧ c'.env.tr.input = []))

theorem C11Clause8_holds : C11Clause8 := by
  unfold C11Clause8
  exact @abort_in_params_alone_e2e_unbounded

end Fcgi.C11E
end

section
namespace Fcgi.C11E
open Fcgi Fcgi.Req Fcgi.Str Fcgi.Async Fcgi.Run Fcgi.Spec Fcgi.E2E Fcgi.C07E
/-- own status + KEEP_CONN: the next request is served  (= `Fcgi.C11E.abort_own_status_next_e2e_okn`, `Props/C11NoFuel2.lean`) -/
def C11Clause9 : Prop :=
  ∀ {p : Preamble} {recs : List Rec} {c1 : Bytes} {body : List Rec} {a : Rec}
    {b mc : Nat} {st : ExitStatus} {q : Sent} {t : Transport} {fuel : Nat}
    (hwf : WellFormedPreamble p recs) (hrole : p.role = 1) (hk : p.flags.toNat % 2 = 1)
    (hpairs : ∀ x ∈ p.pairs, (NV.enc x).length ≤ alignedBufsize b)
    (hnoise : NoiseFits (alignedBufsize b) recs)
    (hbody : Body p.id 5 c1 body) (hbn : NoiseFits (alignedBufsize b) body) (ha : IsAbort p.id a)
    (hq : q.OKn b)
    (hin : t.input = serAll recs ++ (serAll body ++ (a.ser ++ q.wire))) (hben : Ben t)
    (hev : hsCount t.events = 0) (hfuel : t.rd.length + t.wr.length + 1 ≤ fuel),
    ∃ c' fin O₁ O₂ P₁ P₂,
      runTask fuel (connS b mc t [([.readAll, .ret st], false), q.handler]) 0 none = (c', fin) ∧
      O₁ ++ O₂ = owedStream p.id 5 mc body ∧ P₁ ++ P₂ = q.owed mc ∧
      c'.env.tr.wlog = t.wlog ++ (owedPreamble p mc recs ++ O₁ ++ O₂ ++ epilogue p.id st ++
        expectedLogN q.p q.recs mc q.data q.st P₁ P₂) ∧
      hsCount c'.env.tr.events = 2 ∧ AbortedOutcome p c1 c' ∧ NextOutcome q b mc t c' fin

theorem C11Clause9_holds : C11Clause9 := by
  unfold C11Clause9
  exact @abort_own_status_next_e2e_okn

end Fcgi.C11E
end

section
namespace Fcgi.C11
open Fcgi Fcgi.Req Fcgi.Str Fcgi.Async Fcgi.Run
/-- poll level: a Responder that does not read / is past end-of-stream — `close` tolerates the aborted state  (= `Fcgi.C11.close_tolerates_abort`, `Props/C11.lean`) -/
def C11Clause10 : Prop :=
  ∀ {r : AReq} {cs : CloseSt} {alive : Nat} {m : MutexSt}
    {t : Transport} {r' : AReq} {cs' : CloseSt} {m' : MutexSt} {t' : Transport} {rp : Req.Parser}
    (h : closePoll r cs ExitStatus.abort alive m t = (r', cs', m', t', .reuse rp)) (hl : cs.late = false),
    ∃ (X : Bytes) (r2 : AReq), r2.sp.request = r.sp.request ∧
      t'.wlog = t.wlog ++ X ++ r2.sp.output ++
        ((if r2.writeable then
            RecordHeader.toBytes ⟨RT.stdout, r.sp.request.id, 0, 0⟩ ++ RecordHeader.toBytes ⟨RT.stderr, r.sp.request.id, 0, 0⟩
          else []) ++ EndRequest.toRecord ⟨1094865492, 0⟩ r.sp.request.id)

theorem C11Clause10_holds : C11Clause10 := by
  unfold C11Clause10
  exact @close_tolerates_abort

end Fcgi.C11
end

section
namespace Fcgi.C11
open Fcgi Fcgi.Req Fcgi.Str Fcgi.Async Fcgi.Run
/-- the error KIND: the parser's abort signal reaches the handler as ConnectionAborted  (= `Fcgi.C11.abort_maps_to_connection_aborted`, `Props/C11.lean`) -/
def C11Clause11 : Prop :=
  ioOfPErr .abortRequest = .abortRequest ∧
    ∀ e, ioOfPErr e = .abortRequest → e = .abortRequest

theorem C11Clause11_holds : C11Clause11 := by
  unfold C11Clause11
  exact @abort_maps_to_connection_aborted

end Fcgi.C11
end

section
namespace Fcgi.C11U
open Fcgi Fcgi.Req Fcgi.Str Fcgi.Async Fcgi.Run Fcgi.Spec Fcgi.E2E Fcgi.C07E Fcgi.C07U
/-- END TO END, a Responder (KEEP_CONN) whose handler does NOT read, aborted: one handler start, the handler undisturbed, ONE EndRequest carrying the HANDLER's status; the abort record is swallowed by the next `parse_request` (no second EndRequest); the connection is reused  (= `Fcgi.C11U.abort_unread_e2e`, `Props/C11Unread.lean`) -/
def C11Clause12 : Prop :=
  ∀ {p : Preamble} {recs : List Rec} {body : List Rec} {a : Rec}
    {b mc : Nat} {data : Bytes} {st : ExitStatus} {hs : List HOp} {more : List (List HOp × Bool)}
    {t : Transport} {fuel : Nat}
    (hnr : NoRead hs data st)
    (hwf : WellFormedPreamble p recs) (hrole : p.role = 1) (hk : p.flags.toNat % 2 = 1)
    (hpairs : ∀ q ∈ p.pairs, (NV.enc q).length ≤ alignedBufsize b)
    (hnoise : NoiseFits (alignedBufsize b) recs)
    (hbody : ∀ r ∈ body, IdleNoise r) (hbn : NoiseFits (alignedBufsize b) body)
    (ha : a.rtype = 2) (haid : a.id = p.id) (hawf : a.WF)
    (hin : t.input = serAll recs ++ serAll (body ++ [a])) (hben : Ben t) (hev : hsCount t.events = 0)
    (hfuel : t.rd.length + t.wr.length + 1 ≤ fuel),
    ∃ c' fin, runTask fuel (connS b mc t ((hs, true) :: more)) 0 none = (c', fin) ∧
      UnreadOutcome p (body ++ [a]) b mc
        (t.wlog ++ (owedPreamble p mc recs ++ streamRecords 6 p.id data ++ epilogue p.id st ++ idleOwed mc body))
        more t c' fin

theorem C11Clause12_holds : C11Clause12 := by
  unfold C11Clause12
  exact @abort_unread_e2e

end Fcgi.C11U
end

section
namespace Fcgi.C11U
open Fcgi Fcgi.Req Fcgi.Str Fcgi.Async Fcgi.Run Fcgi.Spec Fcgi.E2E Fcgi.C07E Fcgi.C07U
/-- … with only own Stdin records in front of the abort: nothing else is owed  (= `Fcgi.C11U.abort_unread_own_e2e`, `Props/C11Unread.lean`) -/
def C11Clause13 : Prop :=
  ∀ {p : Preamble} {recs : List Rec} {body : List Rec} {a : Rec}
    {b mc : Nat} {data : Bytes} {st : ExitStatus} {hs : List HOp} {more : List (List HOp × Bool)}
    {t : Transport} {fuel : Nat}
    (hnr : NoRead hs data st)
    (hwf : WellFormedPreamble p recs) (hrole : p.role = 1) (hk : p.flags.toNat % 2 = 1)
    (hpairs : ∀ q ∈ p.pairs, (NV.enc q).length ≤ alignedBufsize b)
    (hnoise : NoiseFits (alignedBufsize b) recs)
    (hbody : ∀ r ∈ body, r.rtype = 5 ∧ r.WF)
    (ha : a.rtype = 2) (haid : a.id = p.id) (hawf : a.WF)
    (hin : t.input = serAll recs ++ serAll (body ++ [a])) (hben : Ben t) (hev : hsCount t.events = 0)
    (hfuel : t.rd.length + t.wr.length + 1 ≤ fuel),
    ∃ c' fin, runTask fuel (connS b mc t ((hs, true) :: more)) 0 none = (c', fin) ∧
      UnreadOutcome p (body ++ [a]) b mc
        (t.wlog ++ (owedPreamble p mc recs ++ streamRecords 6 p.id data ++ epilogue p.id st)) more t c' fin

theorem C11Clause13_holds : C11Clause13 := by
  unfold C11Clause13
  exact @abort_unread_own_e2e

end Fcgi.C11U
end

namespace Fcgi.Headline
/-- **C11** — see the section comment above for the clause-by-clause reading. -/
theorem C11_headline :
    Fcgi.C11E.C11Clause1 ∧
    Fcgi.C11E.C11Clause2 ∧
    Fcgi.C11E.C11Clause3 ∧
    Fcgi.C11E.C11Clause4 ∧
    Fcgi.C11E.C11Clause5 ∧
    Fcgi.C11E.C11Clause6 ∧
    Fcgi.C11F.C11Clause7 ∧
    Fcgi.C11E.C11Clause8 ∧
    Fcgi.C11E.C11Clause9 ∧
    Fcgi.C11.C11Clause10 ∧
    Fcgi.C11.C11Clause11 ∧
    Fcgi.C11U.C11Clause12 ∧
    Fcgi.C11U.C11Clause13 :=
  ⟨Fcgi.C11E.C11Clause1_holds, Fcgi.C11E.C11Clause2_holds, Fcgi.C11E.C11Clause3_holds, Fcgi.C11E.C11Clause4_holds, Fcgi.C11E.C11Clause5_holds, Fcgi.C11E.C11Clause6_holds, Fcgi.C11F.C11Clause7_holds, Fcgi.C11E.C11Clause8_holds, Fcgi.C11E.C11Clause9_holds, Fcgi.C11.C11Clause10_holds, Fcgi.C11.C11Clause11_holds, Fcgi.C11U.C11Clause12_holds, Fcgi.C11U.C11Clause13_holds⟩
end Fcgi.Headline


/-! # C12

**Property.**
> If the transport reports end-of-file or an error at any byte position of the incoming stream, or on any
> write, the connection task terminates without panicking or spinning. No handler is invoked for a request
> whose preamble did not arrive completely; a handler waiting for input that will never come receives an
> unexpected-EOF (or the transport's) error rather than a successful short or empty read; and, for a handler
> that propagates I/O errors, nothing is written after a failed write and everything written before it is a
> prefix of a well-formed record sequence.

**Clause by clause.**
* “EOF or an error at any byte position of the incoming stream, or on any write: the task terminates without
  panicking or spinning” — Clauses 1–3 (EOF at ANY offset, all three roles: always `RET`/`finished`), Clause
  10 (the transport FAILS instead of ending, any offset), Clause 9 (a read error at ANY read-call index),
  Clause 5 (`write_error_e2e_nofuel`), Clause 8 (`run_panics_are_code_panics`: every PANIC of a poll is the
  script-fuel guard or a crate assertion; no size bound).
* “no handler is invoked for a request whose preamble did not arrive completely” — the `k < |preamble| →
  hsCount = 0` conjuncts of Clauses 1–3 and 10; Clause 11 (read error inside the preamble).
* “a handler waiting for input that will never come receives an unexpected-EOF (or the transport's) error
  rather than a successful short or empty read” — the `readEofEvent` conjuncts of Clauses 1–2; Clause 4
  (`read_err_mid_stream_e2e_unbounded`: exactly the transport's error).
* “for a handler that propagates I/O errors, nothing is written after a failed write and everything written
  before it is a prefix of a well-formed record sequence” — Clauses 5–7 (`write_error_e2e_nofuel`,
  `runTask_write_failure`, `prefix_wellformed_partial`); false without propagation
  (`write_failure_is_final_full_false`).  The e2e clauses (1–5, 9–11) are the `_unbounded` versions of
  `Props/C12Unbounded.lean`: wire and buffer of any size.

**The conjuncts of `C12_headline`.**
1. `C12E.eof_any_offset_e2e_nofuel` — Responder: EOF at ANY offset of the wire
2. `C12E.eof_any_offset_filter_all_e2e_nofuel` — Filter: EOF at ANY offset
3. `C12E.eof_any_offset_auth_closed_e2e_nofuel` — Authorizer with tail traffic: EOF at ANY offset, closed
   final state
4. `C12E.read_err_mid_stream_e2e_unbounded` — a read ERROR mid-stream: the handler gets exactly the
   transport's error
5. `C12E.write_error_e2e_nofuel` — a write error at ANY index: RET, nothing written after it, at most one
   handler
6. `C12Inv.runTask_write_failure` — fail-stop for propagating handlers over whole runs
7. `C12Inv.prefix_wellformed_partial` — the write log is at every moment a prefix of a well-formed record
   sequence
8. `C12Fuel.run_panics_are_code_panics` — no panic/spin, no size bound: a PANIC of a poll made by `runTask`
   (fuel `connFuel c`) is the handler-script fuel guard or a real assertion of the crate
9. `C12E.read_error_at_index_e2e_nofuel` — a read ERROR injected at ANY read-call index
10. `C12E.read_err_any_offset_e2e_nofuel` — the transport FAILS (instead of ending) at ANY byte offset: RET,
   same log and handler count as the EOF run (from `runTask_eof_err`)
11. `C12E.read_err_in_preamble_e2e_unbounded` — a read error inside the preamble is swallowed: no handler
12. `C12E.eof_in_last_request_e2e_okn` — k complete keep-alive requests, then EOF at ANY offset inside the
   wire of one more Responder request: the k are answered completely, then RET; k or k+1 handler starts; log =
   k segments ++ byte prefix of the last answer
13. `C12E.read_err_in_last_request_e2e_okn` — … and the transport FAILS at that offset: RET, same log and
   handler count as the EOF run
14. `C12E.write_error_in_last_request_e2e_okn` — k complete keep-alive requests, then one more whose i-th
   WRITE answer (answer n+i of the script, n = what the first k consumed) fails: never reached (answered
   completely) or RET, log = k segments ++ byte prefix of the last answer, nothing written after the failing
   call; GAP: the fault is inserted at the hand-over (the prefix is run on the benign script)
15. `C12E.read_error_in_last_request_at_index_e2e_okn` — … the same for the i-th READ answer of the last
   request
16. `C12E.write_error_in_last_request_e2e_whole_okn` — the same with the failing write answer IN THE SCRIPT
   FROM THE START (one closed-loop run on the faulty transport); restriction `hrem`: the benign prefix leaves
   at least one answer of `pre`, i.e. the fault is not the very first write answer of the last request
17. `C12E.read_error_in_last_request_at_index_e2e_whole_okn` — … and for an erroring READ answer present
   from the start (same restriction)

**Modelling assumptions (obligations.json).**
* handlerPoll fuel is proved sufficient for scripts without read-to-end loops (a harness-script bound, not a
  property of the code); termination of the real task is observed by the wake-accurate executor (never
  FUEL/STALL/PANIC)
* error-ignoring handlers restricted to read-only scripts
* fail-stop at the level of whole polls and whole runs (Props/C12Inv): `write_failure_is_final` /
  `runTask_write_failure` under `AllProp` (every handler script propagates errors — the property's own
  restriction; without it the statement is refuted, `write_failure_is_final_full_false`: an ignoring handler
  is followed by the epil…

**Not proved as theorems — carried by the differential run + oracle, or trusted.**
* OPEN: `prefix_wellformed_full` for `max_conns ≥ 2^64` (outside the code's usize)
* single request, canonical handlers in the e2e clauses; faults in the LAST request of a keep-alive chain:
  Clauses 12–13 (`Props/C12Chain.lean`: EOF / transport failure at any byte offset; hypotheses: the k
  earlier requests `UReq.OKn`, the last of them leaving nothing unread, cut strictly inside the wire);
  faults addressed by ANSWER index in the last request (a failing write / an erroring read at the i-th write
  / read call of the last request): Clauses 14–15 (`Props/C12Chain2.lean`; `runTask_suf`/`runTask_rl`: the
  scripts left after a run are suffixes of the original ones) — in Clauses 14–15 the fault is inserted at
  the hand-over (the prefix is run on the benign script); Clauses 16–17 (`Props/C12Chain3.lean`,
  `E2E.runTask_app`: a run that ends with answers left does not depend on what is appended to the script)
  have the bad answer in the script FROM THE START, under `hrem` (the benign prefix leaves at least one
  answer of `pre`: the fault is not the very first write / read answer of the last request — that case stays
  with Clauses 14–15); STILL OPEN on connections with k > 1 requests: that boundary case in one run, faults
  in a request that is not the last; read errors during `close()` (poll level: `C12E2E8`); these are carried
  by the differential run (`corpus/C12_e2e_chain.txt` included); termination of the real task is observed by
  the wake-accurate executor

-/

section
namespace Fcgi.C12E
open Fcgi Fcgi.Req Fcgi.Str Fcgi.Async Fcgi.Run Fcgi.Spec Fcgi.E2E Fcgi.C07E Fcgi.C07U Fcgi.C12Inv Fcgi.Indep3 Fcgi.EofErr
/-- Responder: EOF at ANY offset of the wire  (= `Fcgi.C12E.eof_any_offset_e2e_nofuel`, `Props/C12NoFuel.lean`) -/
def C12Clause1 : Prop :=
  ∀ {p : Preamble} {recs : List Rec} {content : Bytes} {srecs : List Rec}
    {b mc : Nat} {data : Bytes} {st : ExitStatus} {t : Transport} {fuel : Nat} (k : Nat)
    (hwf : WellFormedPreamble p recs) (hrole : p.role = 1)
    (hpairs : ∀ q ∈ p.pairs, (NV.enc q).length ≤ alignedBufsize b)
    (hnoise : NoiseFits (alignedBufsize b) recs)
    (hs : StreamRecs p.id 5 content srecs) (hsn : NoiseFits (alignedBufsize b) srecs)
    (hin : t.input = (serAll recs ++ serAll srecs).take k) (hben : Ben t) (hem : t.endMode = .eof)
    (hev : hsCount t.events = 0) (hfuel : t.rd.length + t.wr.length + 1 ≤ fuel),
    ∃ c' O₁ O₂, runTask fuel (conn0 b mc t data st) 0 none = (c', "RET") ∧ c'.phase = .finished ∧
      O₁ ++ O₂ = owedStream p.id 5 mc srecs ∧
      -- the log is a byte prefix of a complete log
      (∃ w, c'.env.tr.wlog = t.wlog ++ w ∧ w <+: expectedLogN p recs mc data st O₁ O₂) ∧
      -- at most one handler start; none for an incomplete preamble
      hsCount c'.env.tr.events ≤ 1 ∧
      (k < (serAll recs).length → hsCount c'.env.tr.events = 0) ∧
      ((serAll recs).length ≤ k → hsCount c'.env.tr.events = 1 ∧ startEvent p.request ∈ c'.env.tr.events) ∧
      -- a `readAll` that cannot be completed fails with `UnexpectedEof`, after a prefix of the content
      ((serAll recs).length ≤ k → k < (serAll recs).length + (serAll srecs.dropLast).length + 8 →
        ∃ C, C <+: content ∧ readEofEvent C ∈ c'.env.tr.events ∧ handlerEofEvent ∈ c'.env.tr.events) ∧
      -- behind the header of the terminating record: everything is read, everything is answered
      ((serAll recs).length + (serAll srecs.dropLast).length + 8 ≤ k →
        readEvent content ∈ c'.env.tr.events ∧
        c'.env.tr.wlog = t.wlog ++ expectedLogN p recs mc data st O₁ O₂)

theorem C12Clause1_holds : C12Clause1 := by
  unfold C12Clause1
  exact @eof_any_offset_e2e_nofuel

end Fcgi.C12E
end

section
namespace Fcgi.C12E
open Fcgi Fcgi.Req Fcgi.Str Fcgi.Async Fcgi.Run Fcgi.Spec Fcgi.E2E Fcgi.C07E Fcgi.C07U Fcgi.C12Inv Fcgi.Indep3 Fcgi.EofErr
/-- Filter: EOF at ANY offset  (= `Fcgi.C12E.eof_any_offset_filter_all_e2e_nofuel`, `Props/C12NoFuel4.lean`) -/
def C12Clause2 : Prop :=
  ∀ {p : Preamble} {recs srecs drecs : List Rec} {content content2 : Bytes}
    {b mc : Nat} {data : Bytes} {st : ExitStatus} {t : Transport} {fuel : Nat} (k : Nat)
    (hwf : WellFormedPreamble p recs) (hrole : p.role = 3)
    (hpairs : ∀ q ∈ p.pairs, (NV.enc q).length ≤ alignedBufsize b) (hnoise : NoiseFits (alignedBufsize b) recs)
    (hs : StreamRecs p.id 5 content srecs) (hsn : NoiseFits (alignedBufsize b) srecs)
    (hd : StreamRecs p.id 8 content2 drecs) (hdn : NoiseFits (alignedBufsize b) drecs)
    (hin : t.input = (serAll recs ++ (serAll srecs ++ serAll drecs)).take k)
    (hb : Ben t) (hem : t.endMode = .eof) (hev : hsCount t.events = 0)
    (hfuel : t.rd.length + t.wr.length + 1 ≤ fuel),
    ∃ c' O₁ O₂, runTask fuel (connS b mc t [(canonicalF data st, true)]) 0 none = (c', "RET") ∧
      c'.phase = .finished ∧ O₁ ++ O₂ = owedStream p.id 5 mc srecs ++ owedStream p.id 8 mc drecs ∧
      (∃ w, c'.env.tr.wlog = t.wlog ++ w ∧ w <+: expectedLogN p recs mc data st O₁ O₂) ∧
      hsCount c'.env.tr.events ≤ 1 ∧
      (k < (serAll recs).length → hsCount c'.env.tr.events = 0) ∧
      ((serAll recs).length ≤ k → hsCount c'.env.tr.events = 1 ∧ startEvent p.request ∈ c'.env.tr.events) ∧
      ((serAll recs).length ≤ k → k < (serAll recs).length + (serAll srecs.dropLast).length + 8 →
        ∃ C, C <+: content ∧ readEofEvent C ∈ c'.env.tr.events ∧ handlerEofEvent ∈ c'.env.tr.events) ∧
      ((serAll recs).length + (serAll srecs.dropLast).length + 8 ≤ k →
        k < (serAll recs).length + (serAll srecs).length + (serAll drecs.dropLast).length + 8 →
        readEvent content ∈ c'.env.tr.events ∧
        ∃ C2, C2 <+: content2 ∧ readEofEvent C2 ∈ c'.env.tr.events ∧ handlerEofEvent ∈ c'.env.tr.events) ∧
      -- behind the header of the Data terminator: everything read, everything answered
      ((serAll recs).length + (serAll srecs).length + (serAll drecs.dropLast).length + 8 ≤ k →
        readEvent content ∈ c'.env.tr.events ∧ readEvent content2 ∈ c'.env.tr.events ∧
        c'.env.tr.wlog = t.wlog ++ expectedLogN p recs mc data st O₁ O₂)

theorem C12Clause2_holds : C12Clause2 := by
  unfold C12Clause2
  exact @eof_any_offset_filter_all_e2e_nofuel

end Fcgi.C12E
end

section
namespace Fcgi.C12E
open Fcgi Fcgi.Req Fcgi.Str Fcgi.Async Fcgi.Run Fcgi.Spec Fcgi.E2E Fcgi.C07E Fcgi.C07U Fcgi.C12Inv Fcgi.Indep3 Fcgi.EofErr
/-- Authorizer with tail traffic: EOF at ANY offset, closed final state  (= `Fcgi.C12E.eof_any_offset_auth_closed_e2e_nofuel`, `Props/C12NoFuel4.lean`) -/
def C12Clause3 : Prop :=
  ∀ {p : Preamble} {recs tail : List Rec} {b mc : Nat} {rd : ARead} {wr : Bool}
    {data : Bytes} {st : ExitStatus} {more : List (List HOp × Bool)} {t : Transport} {fuel : Nat} (k : Nat)
    (hwf : WellFormedPreamble p recs) (hrole : p.role = 2)
    (hpairs : ∀ q ∈ p.pairs, (NV.enc q).length ≤ alignedBufsize b)
    (hnoise : NoiseFits (alignedBufsize b) recs)
    (htail : ∀ r ∈ tail, StreamNoise p.id r) (htn : NoiseFits (alignedBufsize b) tail)
    (hnb : ∀ r ∈ tail, r.rtype.toNat ≠ RT.beginRequest)
    (hwd : wr = false → data = [])
    (hin : t.input = (serAll recs ++ serAll tail).take k) (hben : Ben t) (hem : t.endMode = .eof)
    (hev : hsCount t.events = 0)
    (hfuel : t.rd.length + t.wr.length + 1 ≤ fuel),
    ∃ c', runTask fuel (connS b mc t ((aHandler rd wr data st, true) :: more)) 0 none = (c', "RET") ∧
      c'.phase = .finished ∧
      ((k < (serAll recs).length ∧ c'.env.tr.input = [] ∧ hsCount c'.env.tr.events = 0 ∧
          ∃ out, c'.env.tr.wlog = t.wlog ++ out ∧ out <+: owedPreamble p mc recs) ∨
       ((serAll recs).length ≤ k ∧
          (AuthCutFail2 p recs tail rd mc data more ((serAll tail).drop (k - (serAll recs).length)) t c' ∨
           ∃ t₁ t₂ O₁ O₂ U, AuthCutEnd p recs tail t₁ t₂ O₁ O₂ U rd mc data st more
             ((serAll tail).drop (k - (serAll recs).length)) t c')))

theorem C12Clause3_holds : C12Clause3 := by
  unfold C12Clause3
  exact @eof_any_offset_auth_closed_e2e_nofuel

end Fcgi.C12E
end

section
namespace Fcgi.C12E
open Fcgi Fcgi.Req Fcgi.Str Fcgi.Async Fcgi.Run Fcgi.Spec Fcgi.E2E Fcgi.C07E Fcgi.C07U Fcgi.C12Inv Fcgi.Indep3 Fcgi.EofErr
/-- a read ERROR mid-stream: the handler gets exactly the transport's error  (= `Fcgi.C12E.read_err_mid_stream_e2e_unbounded`, `Props/C12Unbounded.lean`) -/
def C12Clause4 : Prop :=
  ∀ {p : Preamble} {recs : List Rec} (Y C O U : Bytes) (b mc : Nat) (rest : List HOp)
    (more : List (List HOp × Bool)) (t : Transport) (fuel : Nat)
    (hwf : WellFormedPreamble p recs) (hrole : p.role = 1 ∨ p.role = 3)
    (hpairs : ∀ q ∈ p.pairs, (NV.enc q).length ≤ alignedBufsize b) (hnoise : NoiseFits (alignedBufsize b) recs)
    (hcut : refWire ⟨p.id, p.role, 5, mc⟩ Y = ⟨C, O, .more, U⟩)
    (hfits : ∀ G, G <+: Y → (refWire ⟨p.id, p.role, 5, mc⟩ G).verdict = .more →
      (refWire ⟨p.id, p.role, 5, mc⟩ G).unread.length < alignedBufsize b)
    (hin : t.input = serAll recs ++ Y) (hb : BenE t) (hem : t.endMode = .err)
    (hfuel : t.rd.length + t.wr.length + 1 ≤ fuel),
    ∃ c' x, runTask fuel (connS b mc t ((.readAll :: rest, true) :: more)) 0 none = (c', "RET") ∧
      x = c'.env.tr.rdErr ∧ c'.phase = .finished ∧ c'.env.tr.input = [] ∧
      c'.env.tr.wlog = t.wlog ++ owedPreamble p mc recs ++ O ∧
      hsCount c'.env.tr.events = hsCount t.events + 1 ∧ startEvent p.request ∈ c'.env.tr.events ∧
      readErrEvent x C ∈ c'.env.tr.events ∧ handlerErrEvent x ∈ c'.env.tr.events ∧ c'.scripts = more

theorem C12Clause4_holds : C12Clause4 := by
  unfold C12Clause4
  exact @read_err_mid_stream_e2e_unbounded

end Fcgi.C12E
end

section
namespace Fcgi.C12E
open Fcgi Fcgi.Req Fcgi.Str Fcgi.Async Fcgi.Run Fcgi.Spec Fcgi.E2E Fcgi.C07E Fcgi.C07U Fcgi.C12Inv Fcgi.Indep3 Fcgi.EofErr
/-- a write error at ANY index: RET, nothing written after it, at most one handler  (= `Fcgi.C12E.write_error_e2e_nofuel`, `Props/C12NoFuel.lean`) -/
def C12Clause5 : Prop :=
  ∀ {p : Preamble} {recs : List Rec} {content : Bytes} {srecs : List Rec}
    {b mc : Nat} {data : Bytes} {st : ExitStatus} {t : Transport} {fuel : Nat}
    (pre post : List WrAns) (bad : WrAns) (hbad : bad = .err ∨ bad = .zero) (hwr : t.wr = pre ++ bad :: post)
    (hwf : WellFormedPreamble p recs) (hrole : p.role = 1)
    (hpairs : ∀ q ∈ p.pairs, (NV.enc q).length ≤ alignedBufsize b)
    (hnoise : NoiseFits (alignedBufsize b) recs)
    (hs : StreamRecs p.id 5 content srecs) (hsn : NoiseFits (alignedBufsize b) srecs)
    (hin : t.input = serAll recs ++ serAll srecs) (hben : Ben { t with wr := pre }) (hev : hsCount t.events = 0)
    (hfuel : t.rd.length + pre.length + 1 ≤ fuel),
    ∃ c' fin O₁ O₂, runTask fuel (conn0 b mc t data st) 0 none = (c', fin) ∧
      O₁ ++ O₂ = owedStream p.id 5 mc srecs ∧
      (-- the failing answer is never reached: the benign outcome, `bad :: post` still in the script
       (∃ c1, c' = extC ⟨[], bad :: post, []⟩ c1 ∧
          OutcomeN p content b mc t.wlog (expectedLogN p recs mc data st O₁ O₂) { t with wr := pre } c1 fin) ∨
       -- it is consumed
       (fin = "RET" ∧ c'.phase = .finished ∧
        -- what was written is a prefix of the complete log
        (∃ w, c'.env.tr.wlog = t.wlog ++ w ∧ w <+: expectedLogN p recs mc data st O₁ O₂) ∧
        -- (a) at most one handler start
        hsCount c'.env.tr.events ≤ 1 ∧
        -- (b) the error; if the handler got it, the trace ends with the handler returning it
        (∃ e inH, WrErrOf bad e ∧ (inH = true → ∃ evs, c'.env.tr.events = evs ++ [handlerErrEv e])) ∧
        -- (c) the failing call was the last transport write: nothing was written after it
        (∃ t1 t2, Clean t t1 ∧ FailCall t1 t2 ∧ WSame t2 c'.env.tr ∧ c'.env.tr.wlog = t1.wlog)))

theorem C12Clause5_holds : C12Clause5 := by
  unfold C12Clause5
  exact @write_error_e2e_nofuel

end Fcgi.C12E
end

section
namespace Fcgi.C12Inv
open Fcgi Fcgi.Req Fcgi.Str Fcgi.Async Fcgi.Run
/-- fail-stop for propagating handlers over whole runs  (= `Fcgi.C12Inv.runTask_write_failure`, `Props/C12Inv.lean`) -/
def C12Clause6 : Prop :=
  ∀ {fuel : Nat} {c c' : Conn} {n : Nat} {sa : Option Nat} {fin : String}
    (hp : AllProp c) (h : runTask fuel c n sa = (c', fin)) (hf : WriteFailed c.env.tr c'.env.tr),
    fin = "RET" ∧ c'.phase = .finished ∧
    ∃ t1 t2, Clean c.env.tr t1 ∧ FailCall t1 t2 ∧ WSame t2 c'.env.tr ∧ c'.env.tr.wlog = t1.wlog

theorem C12Clause6_holds : C12Clause6 := by
  unfold C12Clause6
  exact @runTask_write_failure

end Fcgi.C12Inv
end

section
namespace Fcgi.C12Inv
open Fcgi Fcgi.Req Fcgi.Str Fcgi.Async Fcgi.Run
/-- the write log is at every moment a prefix of a well-formed record sequence  (= `Fcgi.C12Inv.prefix_wellformed_partial`, `Props/C12Wf.lean`) -/
def C12Clause7 : Prop :=
  ∀ (fuel b mc : Nat) (env : Run.Env) (scripts : List (List HOp × Bool)) (n : Nat) (sa : Option Nat),
    mc < 2 ^ 64 → env.tr.wlog = [] → env.mutex = none → (∀ s ∈ scripts, s.2 = true) →
    ∃ (rs : List Spec.Rec) (rest : Bytes), (∀ r ∈ rs, r.WF) ∧
      (runTask fuel { phase := .parseReq (Req.Parser.new b mc) .start, env, scripts } n sa).1.env.tr.wlog ++ rest
        = Spec.serAll rs

theorem C12Clause7_holds : C12Clause7 := by
  unfold C12Clause7
  exact @prefix_wellformed_partial

end Fcgi.C12Inv
end

section
namespace Fcgi.C12Fuel
open Fcgi Fcgi.Req Fcgi.Str Fcgi.Async Fcgi.Run
/-- no panic/spin, no size bound: a PANIC of a poll made by `runTask` (fuel `connFuel c`) is the handler-script fuel guard or a real assertion of the crate  (= `Fcgi.C12Fuel.run_panics_are_code_panics`, `Props/C12Fuel.lean`) -/
def C12Clause8 : Prop :=
  ∀ (c : Conn) (hwf : ConnWF c)
    {c' : Conn} {s : String} (h : pollConn (connFuel c) c = (c', .panic s)),
    s = "model: handler fuel exhausted" ∨
      (RealSite s ∧ s ∉ fuelMsgs ∧ s ≠ "model: unreachable close state" ∧
        s ≠ "model: drive loop made no progress")

theorem C12Clause8_holds : C12Clause8 := by
  unfold C12Clause8
  exact @run_panics_are_code_panics

end Fcgi.C12Fuel
end

section
namespace Fcgi.C12E
open Fcgi Fcgi.Req Fcgi.Str Fcgi.Async Fcgi.Run Fcgi.Spec Fcgi.E2E Fcgi.C07E Fcgi.C07U Fcgi.C12Inv Fcgi.Indep3 Fcgi.EofErr
/-- a read ERROR injected at ANY read-call index  (= `Fcgi.C12E.read_error_at_index_e2e_nofuel`, `Props/C12NoFuel.lean`) -/
def C12Clause9 : Prop :=
  ∀ {p : Preamble} {recs : List Rec} {content : Bytes} {srecs : List Rec}
    {b mc : Nat} {data : Bytes} {st : ExitStatus} {t : Transport} {fuel : Nat}
    (pre post : List RdAns) (hrd : t.rd = pre ++ .err :: post)
    (hwf : WellFormedPreamble p recs) (hrole : p.role = 1)
    (hpairs : ∀ q ∈ p.pairs, (NV.enc q).length ≤ alignedBufsize b)
    (hnoise : NoiseFits (alignedBufsize b) recs)
    (hs : StreamRecs p.id 5 content srecs) (hsn : NoiseFits (alignedBufsize b) srecs)
    (hin : t.input = serAll recs ++ serAll srecs) (hben : Ben { t with rd := pre }) (hev : hsCount t.events = 0)
    (hfuel : pre.length + t.wr.length + 1 ≤ fuel),
    ∃ c' fin O₁ O₂, runTask fuel (conn0 b mc t data st) 0 none = (c', fin) ∧
      O₁ ++ O₂ = owedStream p.id 5 mc srecs ∧
      ((∃ c1, c' = extC ⟨.err :: post, [], []⟩ c1 ∧
          OutcomeN p content b mc t.wlog (expectedLogN p recs mc data st O₁ O₂) { t with rd := pre } c1 fin) ∨
       (fin = "RET" ∧ c'.phase = .finished ∧
        (∃ w, c'.env.tr.wlog = t.wlog ++ w ∧ w <+: expectedLogN p recs mc data st O₁ O₂) ∧
        hsCount c'.env.tr.events ≤ 1 ∧
        (∃ e inH, (e = .connectionAborted ∨ e = .transportRead) ∧
          (inH = true → ∃ evs, c'.env.tr.events = evs ++ [handlerErrEv e]))))

theorem C12Clause9_holds : C12Clause9 := by
  unfold C12Clause9
  exact @read_error_at_index_e2e_nofuel

end Fcgi.C12E
end

section
namespace Fcgi.C12E
open Fcgi Fcgi.Req Fcgi.Str Fcgi.Async Fcgi.Run Fcgi.Spec Fcgi.E2E Fcgi.C07E Fcgi.C07U Fcgi.C12Inv Fcgi.Indep3 Fcgi.EofErr
/-- the transport FAILS (instead of ending) at ANY byte offset: RET, same log and handler count as the EOF run (from `runTask_eof_err`)  (= `Fcgi.C12E.read_err_any_offset_e2e_nofuel`, `Props/C12NoFuel.lean`) -/
def C12Clause10 : Prop :=
  ∀ {p : Preamble} {recs : List Rec} {content : Bytes} {srecs : List Rec}
    {b mc : Nat} {data : Bytes} {st : ExitStatus} {t : Transport} {fuel : Nat} (k : Nat)
    (hwf : WellFormedPreamble p recs) (hrole : p.role = 1)
    (hpairs : ∀ q ∈ p.pairs, (NV.enc q).length ≤ alignedBufsize b)
    (hnoise : NoiseFits (alignedBufsize b) recs)
    (hs : StreamRecs p.id 5 content srecs) (hsn : NoiseFits (alignedBufsize b) srecs)
    (hin : t.input = (serAll recs ++ serAll srecs).take k) (hben : Ben t) (hem : t.endMode = .eof)
    (hev : hsCount t.events = 0) (hfuel : t.rd.length + t.wr.length + 1 ≤ fuel),
    ∃ c' O₁ O₂, runTask fuel (conn0 b mc (em .err t) data st) 0 none = (c', "RET") ∧ c'.phase = .finished ∧
      O₁ ++ O₂ = owedStream p.id 5 mc srecs ∧
      (∃ w, c'.env.tr.wlog = t.wlog ++ w ∧ w <+: expectedLogN p recs mc data st O₁ O₂) ∧
      hsCount c'.env.tr.events ≤ 1 ∧
      (k < (serAll recs).length → hsCount c'.env.tr.events = 0) ∧
      ((serAll recs).length ≤ k → hsCount c'.env.tr.events = 1 ∧ startEvent p.request ∈ c'.env.tr.events) ∧
      ((serAll recs).length + (serAll srecs.dropLast).length + 8 ≤ k →
        c'.env.tr.wlog = t.wlog ++ expectedLogN p recs mc data st O₁ O₂) ∧
      -- the relation to the EOF run
      ∃ ce, runTask fuel (conn0 b mc t data st) 0 none = (ce, "RET") ∧ (c' = emC .err ce ∨ HitC ce c')

theorem C12Clause10_holds : C12Clause10 := by
  unfold C12Clause10
  exact @read_err_any_offset_e2e_nofuel

end Fcgi.C12E
end

section
namespace Fcgi.C12E
open Fcgi Fcgi.Req Fcgi.Str Fcgi.Async Fcgi.Run Fcgi.Spec Fcgi.E2E Fcgi.C07E Fcgi.C07U Fcgi.C12Inv Fcgi.Indep3 Fcgi.EofErr
/-- a read error inside the preamble is swallowed: no handler  (= `Fcgi.C12E.read_err_in_preamble_e2e_unbounded`, `Props/C12Unbounded.lean`) -/
def C12Clause11 : Prop :=
  ∀ {p : Preamble} {recs : List Rec} (X : Bytes) (b mc k : Nat)
    (scripts : List (List HOp × Bool)) (t : Transport) (fuel : Nat)
    (hwf : WellFormedPreamble p recs)
    (hpairs : ∀ q ∈ p.pairs, (NV.enc q).length ≤ alignedBufsize b) (hnoise : NoiseFits (alignedBufsize b) recs)
    (hk : k < (serAll recs).length) (hin : t.input = (serAll recs ++ X).take k)
    (hb : BenE t) (hem : t.endMode = .err)
    (hfuel : t.rd.length + t.wr.length + 1 ≤ fuel),
    ∃ c', runTask fuel (connS b mc t scripts) 0 none = (c', "RET") ∧ c'.phase = .finished ∧
      c'.env.tr.input = [] ∧ hsCount c'.env.tr.events = hsCount t.events ∧ c'.scripts = scripts ∧
      c'.env.tr.wlog = t.wlog ++ (run .header t.input mc).out ∧
      (run .header t.input mc).out <+: owedPreamble p mc recs

theorem C12Clause11_holds : C12Clause11 := by
  unfold C12Clause11
  exact @read_err_in_preamble_e2e_unbounded

end Fcgi.C12E
end

section
namespace Fcgi.C12E
open Fcgi Fcgi.Req Fcgi.Str Fcgi.Async Fcgi.Run Fcgi.Spec Fcgi.E2E Fcgi.C07E Fcgi.C07U Fcgi.C12Inv Fcgi.EofErr
/-- k complete keep-alive requests, then EOF at ANY offset inside the wire of one more Responder request: the k are answered completely, then RET; k or k+1 handler starts; log = k segments ++ byte prefix of the last answer  (= `Fcgi.C12E.eof_in_last_request_e2e_okn`, `Props/C12NoFuel2.lean`) -/
def C12Clause12 : Prop :=
  ∀ {b mc : Nat} (x : UReq) (xs : List UReq) {p : Preamble} {recs : List Rec}
    {content : Bytes} {srecs : List Rec} {data : Bytes} {st : ExitStatus} {t : Transport} {fuel : Nat} (j : Nat)
    (hok : ∀ y ∈ x :: xs, y.OKn b) (hleft : ((x :: xs).getLast (by simp)).left = [])
    (hwf : WellFormedPreamble p recs) (hrole : p.role = 1)
    (hpairs : ∀ q ∈ p.pairs, (NV.enc q).length ≤ alignedBufsize b)
    (hnoise : NoiseFits (alignedBufsize b) recs)
    (hs : StreamRecs p.id 5 content srecs) (hsn : NoiseFits (alignedBufsize b) srecs)
    (hj : j < (serAll recs ++ serAll srecs).length)
    (hin : t.input = x.wire) (hben : Ben t) (hem : t.endMode = .pend) (hev : hsCount t.events = 0)
    (hfuel : t.rd.length + t.wr.length + 1 ≤ fuel),
    ∃ c₁ A c' O₁ O₂,
      -- the first `k` requests: served, the task parked
      closedLoop fuel (xs.map UReq.wire) (connS b mc t ((x :: xs).map UReq.handler ++ [(canonical data st, true)])) 0 =
        (c₁, "STALL") ∧
      SegsAll mc (x :: xs) A ∧ c₁.env.tr.wlog = t.wlog ++ A ∧ hsCount c₁.env.tr.events = (x :: xs).length ∧
      Waiting (alignedBufsize b) mc [] (t.wlog ++ A) [(canonical data st, true)] (x :: xs).length
        (evsAfter ((x :: xs).map (UReq.spec mc)) []) (ans t) c₁ ∧
      -- the cut request
      runTask fuel (feedEnd c₁ ((serAll recs ++ serAll srecs).take j) .eof) 0 none = (c', "RET") ∧
      c'.phase = .finished ∧ O₁ ++ O₂ = owedStream p.id 5 mc srecs ∧
      (∃ w, c'.env.tr.wlog = t.wlog ++ A ++ w ∧ w <+: expectedLogN p recs mc data st O₁ O₂) ∧
      (j < (serAll recs).length → hsCount c'.env.tr.events = (x :: xs).length) ∧
      ((serAll recs).length ≤ j → hsCount c'.env.tr.events = (x :: xs).length + 1 ∧
        startEvent p.request ∈ c'.env.tr.events) ∧
      ((serAll recs).length ≤ j → j < (serAll recs).length + (serAll srecs.dropLast).length + 8 →
        ∃ C, C <+: content ∧ readEofEvent C ∈ c'.env.tr.events ∧ handlerEofEvent ∈ c'.env.tr.events) ∧
      ((serAll recs).length + (serAll srecs.dropLast).length + 8 ≤ j →
        readEvent content ∈ c'.env.tr.events ∧
        c'.env.tr.wlog = t.wlog ++ A ++ expectedLogN p recs mc data st O₁ O₂)

theorem C12Clause12_holds : C12Clause12 := by
  unfold C12Clause12
  exact @eof_in_last_request_e2e_okn

end Fcgi.C12E
end

section
namespace Fcgi.C12E
open Fcgi Fcgi.Req Fcgi.Str Fcgi.Async Fcgi.Run Fcgi.Spec Fcgi.E2E Fcgi.C07E Fcgi.C07U Fcgi.C12Inv Fcgi.EofErr
/-- … and the transport FAILS at that offset: RET, same log and handler count as the EOF run  (= `Fcgi.C12E.read_err_in_last_request_e2e_okn`, `Props/C12NoFuel2.lean`) -/
def C12Clause13 : Prop :=
  ∀ {b mc : Nat} (x : UReq) (xs : List UReq) {p : Preamble} {recs : List Rec}
    {content : Bytes} {srecs : List Rec} {data : Bytes} {st : ExitStatus} {t : Transport} {fuel : Nat} (j : Nat)
    (hok : ∀ y ∈ x :: xs, y.OKn b) (hleft : ((x :: xs).getLast (by simp)).left = [])
    (hwf : WellFormedPreamble p recs) (hrole : p.role = 1)
    (hpairs : ∀ q ∈ p.pairs, (NV.enc q).length ≤ alignedBufsize b)
    (hnoise : NoiseFits (alignedBufsize b) recs)
    (hs : StreamRecs p.id 5 content srecs) (hsn : NoiseFits (alignedBufsize b) srecs)
    (hj : j < (serAll recs ++ serAll srecs).length)
    (hin : t.input = x.wire) (hben : Ben t) (hem : t.endMode = .pend) (hev : hsCount t.events = 0)
    (hfuel : t.rd.length + t.wr.length + 1 ≤ fuel),
    ∃ c₁ A ce c' O₁ O₂,
      closedLoop fuel (xs.map UReq.wire) (connS b mc t ((x :: xs).map UReq.handler ++ [(canonical data st, true)])) 0 =
        (c₁, "STALL") ∧
      SegsAll mc (x :: xs) A ∧ c₁.env.tr.wlog = t.wlog ++ A ∧
      runTask fuel (feedEnd c₁ ((serAll recs ++ serAll srecs).take j) .eof) 0 none = (ce, "RET") ∧
      runTask fuel (feedEnd c₁ ((serAll recs ++ serAll srecs).take j) .err) 0 none = (c', "RET") ∧
      c'.phase = .finished ∧ c'.env.tr.wlog = ce.env.tr.wlog ∧
      hsCount c'.env.tr.events = hsCount ce.env.tr.events ∧
      O₁ ++ O₂ = owedStream p.id 5 mc srecs ∧
      (∃ w, c'.env.tr.wlog = t.wlog ++ A ++ w ∧ w <+: expectedLogN p recs mc data st O₁ O₂) ∧
      (j < (serAll recs).length → hsCount c'.env.tr.events = (x :: xs).length) ∧
      ((serAll recs).length ≤ j → hsCount c'.env.tr.events = (x :: xs).length + 1)

theorem C12Clause13_holds : C12Clause13 := by
  unfold C12Clause13
  exact @read_err_in_last_request_e2e_okn

end Fcgi.C12E
end

section
namespace Fcgi.C12E
open Fcgi Fcgi.Req Fcgi.Str Fcgi.Async Fcgi.Run Fcgi.Spec Fcgi.E2E Fcgi.C07E Fcgi.C07U Fcgi.C12Inv Fcgi.Indep3 Fcgi.EofErr
/-- k complete keep-alive requests, then one more whose i-th WRITE answer (answer n+i of the script, n = what the first k consumed) fails: never reached (answered completely) or RET, log = k segments ++ byte prefix of the last answer, nothing written after the failing call; GAP: the fault is inserted at the hand-over (the prefix is run on the benign script)  (= `Fcgi.C12E.write_error_in_last_request_e2e_okn`, `Props/C12NoFuel3.lean`) -/
def C12Clause14 : Prop :=
  ∀ {b mc : Nat} (x : UReq) (xs : List UReq) (y : UReq) {t : Transport} {fuel : Nat}
    (i : Nat) (bad : WrAns) (post : List WrAns) (hbad : bad = .err ∨ bad = .zero)
    (hok : ∀ z ∈ x :: xs, z.OKn b) (hoky : y.OKn b) (hleft : ((x :: xs).getLast (by simp)).left = [])
    (hin : t.input = x.wire) (hben : Ben t) (hem : t.endMode = .pend) (hev : hsCount t.events = 0)
    (hfuel : t.rd.length + t.wr.length + 1 ≤ fuel),
    ∃ c₁ A n,
      -- the first `k` requests: served, the task parked; they consumed the first `n` write answers
      closedLoop fuel (xs.map UReq.wire) (connS b mc t ((x :: xs).map UReq.handler ++ [y.handler])) 0 = (c₁, "STALL") ∧
      SegsAll mc (x :: xs) A ∧ c₁.env.tr.wlog = t.wlog ++ A ∧ hsCount c₁.env.tr.events = (x :: xs).length ∧
      c₁.env.tr.wr = t.wr.drop n ∧ n + c₁.env.tr.wr.length = t.wr.length ∧
      -- the last request, its `i`-th own write answer failing
      ∃ c' fin Ay, runTask fuel (feedW c₁ y.wire ((t.wr.drop n).take i ++ bad :: post)) 0 none = (c', fin) ∧
        y.Seg mc Ay ∧
        ((fin = "STALL" ∧ c'.env.tr.wlog = t.wlog ++ A ++ Ay ∧ hsCount c'.env.tr.events = (x :: xs).length + 1 ∧
            ∃ rest, c'.env.tr.wr = rest ++ bad :: post) ∨
         (fin = "RET" ∧ c'.phase = .finished ∧
          (∃ w, c'.env.tr.wlog = t.wlog ++ A ++ w ∧ w <+: Ay) ∧
          (x :: xs).length ≤ hsCount c'.env.tr.events ∧ hsCount c'.env.tr.events ≤ (x :: xs).length + 1 ∧
          (∃ e inH, WrErrOf bad e ∧ (inH = true → ∃ evs, c'.env.tr.events = evs ++ [handlerErrEv e])) ∧
          (∃ t1 t2, Clean (feedW c₁ y.wire ((t.wr.drop n).take i ++ bad :: post)).env.tr t1 ∧ FailCall t1 t2 ∧
            WSame t2 c'.env.tr ∧ c'.env.tr.wlog = t1.wlog)))

theorem C12Clause14_holds : C12Clause14 := by
  unfold C12Clause14
  exact @write_error_in_last_request_e2e_okn

end Fcgi.C12E
end

section
namespace Fcgi.C12E
open Fcgi Fcgi.Req Fcgi.Str Fcgi.Async Fcgi.Run Fcgi.Spec Fcgi.E2E Fcgi.C07E Fcgi.C07U Fcgi.C12Inv Fcgi.Indep3 Fcgi.EofErr
/-- … the same for the i-th READ answer of the last request  (= `Fcgi.C12E.read_error_in_last_request_at_index_e2e_okn`, `Props/C12NoFuel3.lean`) -/
def C12Clause15 : Prop :=
  ∀ {b mc : Nat} (x : UReq) (xs : List UReq) (y : UReq) {t : Transport}
    {fuel : Nat} (i : Nat) (post : List RdAns)
    (hok : ∀ z ∈ x :: xs, z.OKn b) (hoky : y.OKn b) (hleft : ((x :: xs).getLast (by simp)).left = [])
    (hin : t.input = x.wire) (hben : Ben t) (hem : t.endMode = .pend) (hev : hsCount t.events = 0)
    (hfuel : t.rd.length + t.wr.length + 1 ≤ fuel),
    ∃ c₁ A n,
      closedLoop fuel (xs.map UReq.wire) (connS b mc t ((x :: xs).map UReq.handler ++ [y.handler])) 0 = (c₁, "STALL") ∧
      SegsAll mc (x :: xs) A ∧ c₁.env.tr.wlog = t.wlog ++ A ∧ hsCount c₁.env.tr.events = (x :: xs).length ∧
      c₁.env.tr.rd = t.rd.drop n ∧ n + c₁.env.tr.rd.length = t.rd.length ∧
      ∃ c' fin Ay, runTask fuel (feedR c₁ y.wire ((t.rd.drop n).take i ++ .err :: post)) 0 none = (c', fin) ∧
        y.Seg mc Ay ∧
        ((fin = "STALL" ∧ c'.env.tr.wlog = t.wlog ++ A ++ Ay ∧ hsCount c'.env.tr.events = (x :: xs).length + 1 ∧
            ∃ rest, c'.env.tr.rd = rest ++ .err :: post) ∨
         (fin = "RET" ∧ c'.phase = .finished ∧
          (∃ w, c'.env.tr.wlog = t.wlog ++ A ++ w ∧ w <+: Ay) ∧
          (x :: xs).length ≤ hsCount c'.env.tr.events ∧ hsCount c'.env.tr.events ≤ (x :: xs).length + 1 ∧
          (∃ e inH, (e = .connectionAborted ∨ e = .transportRead) ∧
            (inH = true → ∃ evs, c'.env.tr.events = evs ++ [handlerErrEv e]))))

theorem C12Clause15_holds : C12Clause15 := by
  unfold C12Clause15
  exact @read_error_in_last_request_at_index_e2e_okn

end Fcgi.C12E
end

section
namespace Fcgi.C12E
open Fcgi Fcgi.Req Fcgi.Str Fcgi.Async Fcgi.Run Fcgi.Spec Fcgi.E2E Fcgi.C07E Fcgi.C07U Fcgi.C12Inv Fcgi.Indep3 Fcgi.EofErr
/-- the same with the failing write answer IN THE SCRIPT FROM THE START (one closed-loop run on the faulty transport); restriction `hrem`: the benign prefix leaves at least one answer of `pre`, i.e. the fault is not the very first write answer of the last request  (= `Fcgi.C12E.write_error_in_last_request_e2e_whole_okn`, `Props/C12NoFuel3.lean`) -/
def C12Clause16 : Prop :=
  ∀ {b mc : Nat} (x : UReq) (xs : List UReq) (y : UReq) {t : Transport}
    {fuel : Nat} (pre post : List WrAns) (bad : WrAns) (hbad : bad = .err ∨ bad = .zero)
    (hwr : t.wr = pre ++ bad :: post)
    (hok : ∀ z ∈ x :: xs, z.OKn b) (hoky : y.OKn b) (hleft : ((x :: xs).getLast (by simp)).left = [])
    (hin : t.input = x.wire) (hben : Ben { t with wr := pre }) (hem : t.endMode = .pend) (hev : hsCount t.events = 0)
    (hfuel : t.rd.length + pre.length + 1 ≤ fuel),
    ∃ c₁ A n,
      -- the benign prefix (on the script truncated in front of the failing answer): `n` answers consumed
      closedLoop fuel (xs.map UReq.wire) (connS b mc { t with wr := pre } ((x :: xs).map UReq.handler ++ [y.handler])) 0 =
        (c₁, "STALL") ∧
      SegsAll mc (x :: xs) A ∧ c₁.env.tr.wr = pre.drop n ∧ n + c₁.env.tr.wr.length = pre.length ∧
      -- if it leaves at least one answer: the failing answer is answer `|pre| - n ≥ 1` of the last request's own output
      (c₁.env.tr.wr ≠ [] →
        ∃ c' fin Ay,
          closedLoop fuel (xs.map UReq.wire ++ [y.wire]) (connS b mc t ((x :: xs).map UReq.handler ++ [y.handler])) 0 =
            (c', fin) ∧
          y.Seg mc Ay ∧
          ((fin = "STALL" ∧ c'.env.tr.wlog = t.wlog ++ A ++ Ay ∧ hsCount c'.env.tr.events = (x :: xs).length + 1 ∧
              ∃ rest, c'.env.tr.wr = rest ++ bad :: post) ∨
           (fin = "RET" ∧ c'.phase = .finished ∧
            (∃ w, c'.env.tr.wlog = t.wlog ++ A ++ w ∧ w <+: Ay) ∧
            (x :: xs).length ≤ hsCount c'.env.tr.events ∧ hsCount c'.env.tr.events ≤ (x :: xs).length + 1 ∧
            (∃ e inH, WrErrOf bad e ∧ (inH = true → ∃ evs, c'.env.tr.events = evs ++ [handlerErrEv e])) ∧
            (∃ t0 t1 t2, Clean t0 t1 ∧ FailCall t1 t2 ∧ WSame t2 c'.env.tr ∧ c'.env.tr.wlog = t1.wlog))))

theorem C12Clause16_holds : C12Clause16 := by
  unfold C12Clause16
  exact @write_error_in_last_request_e2e_whole_okn

end Fcgi.C12E
end

section
namespace Fcgi.C12E
open Fcgi Fcgi.Req Fcgi.Str Fcgi.Async Fcgi.Run Fcgi.Spec Fcgi.E2E Fcgi.C07E Fcgi.C07U Fcgi.C12Inv Fcgi.Indep3 Fcgi.EofErr
/-- … and for an erroring READ answer present from the start (same restriction)  (= `Fcgi.C12E.read_error_in_last_request_at_index_e2e_whole_okn`, `Props/C12NoFuel3.lean`) -/
def C12Clause17 : Prop :=
  ∀ {b mc : Nat} (x : UReq) (xs : List UReq) (y : UReq) {t : Transport}
    {fuel : Nat} (pre post : List RdAns) (hrd : t.rd = pre ++ .err :: post)
    (hok : ∀ z ∈ x :: xs, z.OKn b) (hoky : y.OKn b) (hleft : ((x :: xs).getLast (by simp)).left = [])
    (hin : t.input = x.wire) (hben : Ben { t with rd := pre }) (hem : t.endMode = .pend) (hev : hsCount t.events = 0)
    (hfuel : pre.length + t.wr.length + 1 ≤ fuel),
    ∃ c₁ A n,
      closedLoop fuel (xs.map UReq.wire) (connS b mc { t with rd := pre } ((x :: xs).map UReq.handler ++ [y.handler])) 0 =
        (c₁, "STALL") ∧
      SegsAll mc (x :: xs) A ∧ c₁.env.tr.rd = pre.drop n ∧ n + c₁.env.tr.rd.length = pre.length ∧
      (c₁.env.tr.rd ≠ [] →
        ∃ c' fin Ay,
          closedLoop fuel (xs.map UReq.wire ++ [y.wire]) (connS b mc t ((x :: xs).map UReq.handler ++ [y.handler])) 0 =
            (c', fin) ∧
          y.Seg mc Ay ∧
          ((fin = "STALL" ∧ c'.env.tr.wlog = t.wlog ++ A ++ Ay ∧ hsCount c'.env.tr.events = (x :: xs).length + 1 ∧
              ∃ rest, c'.env.tr.rd = rest ++ .err :: post) ∨
           (fin = "RET" ∧ c'.phase = .finished ∧
            (∃ w, c'.env.tr.wlog = t.wlog ++ A ++ w ∧ w <+: Ay) ∧
            (x :: xs).length ≤ hsCount c'.env.tr.events ∧ hsCount c'.env.tr.events ≤ (x :: xs).length + 1 ∧
            (∃ e inH, (e = .connectionAborted ∨ e = .transportRead) ∧
              (inH = true → ∃ evs, c'.env.tr.events = evs ++ [handlerErrEv e])))))

theorem C12Clause17_holds : C12Clause17 := by
  unfold C12Clause17
  exact @read_error_in_last_request_at_index_e2e_whole_okn

end Fcgi.C12E
end

namespace Fcgi.Headline
/-- **C12** — see the section comment above for the clause-by-clause reading. -/
theorem C12_headline :
    Fcgi.C12E.C12Clause1 ∧
    Fcgi.C12E.C12Clause2 ∧
    Fcgi.C12E.C12Clause3 ∧
    Fcgi.C12E.C12Clause4 ∧
    Fcgi.C12E.C12Clause5 ∧
    Fcgi.C12Inv.C12Clause6 ∧
    Fcgi.C12Inv.C12Clause7 ∧
    Fcgi.C12Fuel.C12Clause8 ∧
    Fcgi.C12E.C12Clause9 ∧
    Fcgi.C12E.C12Clause10 ∧
    Fcgi.C12E.C12Clause11 ∧
    Fcgi.C12E.C12Clause12 ∧
    Fcgi.C12E.C12Clause13 ∧
    Fcgi.C12E.C12Clause14 ∧
    Fcgi.C12E.C12Clause15 ∧
    Fcgi.C12E.C12Clause16 ∧
    Fcgi.C12E.C12Clause17 :=
  ⟨Fcgi.C12E.C12Clause1_holds, Fcgi.C12E.C12Clause2_holds, Fcgi.C12E.C12Clause3_holds, Fcgi.C12E.C12Clause4_holds, Fcgi.C12E.C12Clause5_holds, Fcgi.C12Inv.C12Clause6_holds, Fcgi.C12Inv.C12Clause7_holds, Fcgi.C12Fuel.C12Clause8_holds, Fcgi.C12E.C12Clause9_holds, Fcgi.C12E.C12Clause10_holds, Fcgi.C12E.C12Clause11_holds, Fcgi.C12E.C12Clause12_holds, Fcgi.C12E.C12Clause13_holds, Fcgi.C12E.C12Clause14_holds, Fcgi.C12E.C12Clause15_holds, Fcgi.C12E.C12Clause16_holds, Fcgi.C12E.C12Clause17_holds⟩
end Fcgi.Headline


/-! # C13

**Property.**
> At every instant the number of connection tokens in existence for a runner and all of its clones is at
> most the configured connection limit. A request for a token completes immediately when a slot is free and
> no earlier request is queued, and whenever a slot is free while requests are pending at least one of them
> has been woken - so a freed slot is never stranded, whether the token was dropped unused, after its
> connection ended, or during unwinding, and even if a queued request is cancelled.

**Clause by clause.**
* “at every instant the number of tokens is at most the configured limit” — Clause 1 (`limit_inv`, all
  histories of get/poll/drop/cancel).
* “a request completes immediately when a slot is free and no earlier request is queued” — Clause 2
  (`immediate`; the queue discipline: `immediate_step`).
* “whenever a slot is free while requests are pending at least one of them has been woken — never stranded,
  also when a queued request is cancelled” — Clauses 3–5 (`no_stranded`, `cancel_safe`,
  `woken_waiter_acquires`).

**The conjuncts of `C13_headline`.**
1. `C13.limit_inv` — over all histories: live tokens ≤ limit
2. `C13.immediate` — a poll that finds a free slot acquires it at once (ready, count − 1)
3. `C13.no_stranded` — a free slot with pending requests ⇒ one of them has been woken
4. `C13.cancel_safe` — (redundant, internal) cancelling a pending request preserves the invariant `Inv`
   behind Clause 3; `dropPending` is also among the ops of Clause 3
5. `C13.woken_waiter_acquires` — a woken waiter that polls gets the slot

**Modelling assumptions (obligations.json).**
* op-atomic: interleavings inside one library operation (CAS loop of try_acquire_arc, the listener-list
  mutex) are trusted
* non-additional notify(1): wake-ups are chained (a woken task that neither polls nor drops its future
  delays the next waiter) - by design of the library
* audit (by a proof agent, 2026-09-26): creating a get_token request and polling it are separate operations
  in the model (`Op.get` never touches the semaphore), the driver, the harness (`k.get` boxes the future
  without polling) and the crate (lazy `async fn`); `no_stranded`/`notified_woken` speak of polled,
  registered waiters o…

**Not proved as theorems — carried by the differential run + oracle, or trusted.**
* interleavings INSIDE one library operation (the CAS loop of `try_acquire_arc`, the listener-list mutex)
  and real thread interleavings: trusted / exercised by the differential run with real threads (op-atomic
  model)
* 'pending requests' = polled, registered waiters; a created but never polled future is not one (lazy `async
  fn`)
* notify(1) is non-additional (wake-ups are chained) — by design of the library

-/

section
namespace Fcgi.C13
open Fcgi.Runner
/-- over all histories: live tokens ≤ limit  (= `Fcgi.C13.limit_inv`, `Props/C13.lean`) -/
def C13Clause1 : Prop :=
  ∀ (max : Nat) (ops : List Op),
    (run (Sys.init max) ops).live + (run (Sys.init max) ops).sem.count = max

theorem C13Clause1_holds : C13Clause1 := by
  unfold C13Clause1
  exact @limit_inv

end Fcgi.C13
end

section
namespace Fcgi.C13
open Fcgi.Runner
/-- a poll that finds a free slot acquires it at once (ready, count − 1)  (= `Fcgi.C13.immediate`, `Props/C13.lean`) -/
def C13Clause2 : Prop :=
  ∀ (sem : Sem) (a : Acq) (fuel : Nat) (h : sem.count > 0),
    acqPoll (fuel + 1) sem a = ({ sem with count := sem.count - 1 }, a, true)

theorem C13Clause2_holds : C13Clause2 := by
  unfold C13Clause2
  exact @immediate

end Fcgi.C13
end

section
namespace Fcgi.C13
open Fcgi.Runner
/-- a free slot with pending requests ⇒ one of them has been woken  (= `Fcgi.C13.no_stranded`, `Props/C13.lean`) -/
def C13Clause3 : Prop :=
  ∀ (max : Nat) (ops : List Op),
    let s := run (Sys.init max) ops
    0 < s.sem.count → (∃ i id, Owner s.acqs i id) →
      ∃ i id, Owner s.acqs i id ∧ (id, LState.notified) ∈ s.sem.entries ∧ id ∈ s.sem.wakes

theorem C13Clause3_holds : C13Clause3 := by
  unfold C13Clause3
  exact @no_stranded

end Fcgi.C13
end

section
namespace Fcgi.C13
open Fcgi.Runner
/-- (redundant, internal) cancelling a pending request preserves the invariant `Inv` behind Clause 3; `dropPending` is also among the ops of Clause 3  (= `Fcgi.C13.cancel_safe`, `Props/C13.lean`) -/
def C13Clause4 : Prop :=
  ∀ {s : Sys} (h : Inv s) (a : Nat),
    Inv (step s (.dropPending a))

theorem C13Clause4_holds : C13Clause4 := by
  unfold C13Clause4
  exact @cancel_safe

end Fcgi.C13
end

section
namespace Fcgi.C13
open Fcgi.Runner
/-- a woken waiter that polls gets the slot  (= `Fcgi.C13.woken_waiter_acquires`, `Props/C13.lean`) -/
def C13Clause5 : Prop :=
  ∀ {s : Sys} {i id : Nat} (ho : Owner s.acqs i id)
    (hc : 0 < s.sem.count),
    (step s (.poll i)).live = s.live + 1

theorem C13Clause5_holds : C13Clause5 := by
  unfold C13Clause5
  exact @woken_waiter_acquires

end Fcgi.C13
end

namespace Fcgi.Headline
/-- **C13** — see the section comment above for the clause-by-clause reading. -/
theorem C13_headline :
    Fcgi.C13.C13Clause1 ∧
    Fcgi.C13.C13Clause2 ∧
    Fcgi.C13.C13Clause3 ∧
    Fcgi.C13.C13Clause4 ∧
    Fcgi.C13.C13Clause5 :=
  ⟨Fcgi.C13.C13Clause1_holds, Fcgi.C13.C13Clause2_holds, Fcgi.C13.C13Clause3_holds, Fcgi.C13.C13Clause4_holds, Fcgi.C13.C13Clause5_holds⟩
end Fcgi.Headline


/-! # C14

**Property.**
> After shutdown is requested, a connection whose handler is running completes that request normally,
> including its EndRequest, and then stops; no handler invocation begins in any scheduling step of the
> connection task that starts after the request was made, and idle connections are woken and stop without
> reading further. The shutdown future completes after the last token of that runner has been dropped -
> never earlier - and its task is woken for that completion under every interleaving of the final drop with
> a concurrent poll.

**Clause by clause.**
* “a connection whose handler is running completes that request normally, including its EndRequest, and then
  stops” — Clauses 1–2 (`stop_any_poll_single_e2e_exact_nofuel`, `stop_any_poll_e2e_exact_nofuel`: the log
  EQUALS the complete answer(s); requests and buffer of any size).
* “no handler invocation begins in any scheduling step that starts after the request was made, and idle
  connections are woken and stop without reading further” — Clauses 3–5 (`stop_in_parse_request`,
  `no_new_handler_after_stop`, `idle_stops_without_reading`).
* “the shutdown future completes after the last token has been dropped — never earlier — and its task is
  woken under every interleaving of the final drop with a concurrent poll” — Clauses 6–8 (`never_early`,
  `woken_for_completion`, `ready_after_all_gone`) over all interleavings of the step model `wgStep`.

**The conjuncts of `C14_headline`.**
1. `C14E.stop_any_poll_single_e2e_exact_nofuel` — one request, flag at ANY poll: RET; either no handler, or
   the request completed with its whole log incl. EndRequest
2. `C14E.stop_any_poll_e2e_exact_nofuel` — two requests: flag while request 2 in flight ⇒ both complete;
   between ⇒ request 2's handler never starts
3. `C14E.stop_in_parse_request` — an idle connection polled with the flag up stops without a transport call
4. `C14a.no_new_handler_after_stop` — no handler start in any poll that begins after the flag was raised
5. `C14a.idle_stops_without_reading` — idle connections stop without reading
6. `C14b.never_early` — the shutdown future never completes early: if its last poll was Ready, no token is
   alive
7. `C14b.woken_for_completion` — its task is woken for the completion under every interleaving
8. `C14b.ready_after_all_gone` — … and is ready once all tokens are gone

**Modelling assumptions (obligations.json).**
* AtomicWaker::register / wake and Arc reference counting are atomic steps
* in_flight_runs_on_full (unqualified) is intentionally false: after a reuse the next select sees the flag -
  that is the specified behaviour
* Props/C14aFalse: `in_flight_runs_on_full_false` — the unqualified 'a poll in flight is the same with and
  without the stop flag' is refuted by a concrete connection (a closing KEEP_CONN request whose successor is
  already buffered: without the flag the poll goes on into the next handler, with it the task finishes at
  parse_reque…

**Not proved as theorems — carried by the differential run + oracle, or trusted.**
* 'idle connections ARE WOKEN': that raising the flag wakes a parked task is built into the executor
  (`runTask … stopAt` polls at poll k even after a STALL), not a theorem about the stop listener (two-waker
  model: `C13Conn` + corpus)
* `AtomicWaker::register/wake` and Arc counting are atomic steps of the model; real thread schedules are
  exercised by the differential run
* a poll already in flight with a buffered successor sees the flag at the reuse
  (`in_flight_runs_on_full_false`) — the specified behaviour
* canonical handlers, `Ben`, flag raised at a poll boundary of the executor (Clauses 1–2)

-/

section
namespace Fcgi.C14E
open Fcgi Fcgi.Req Fcgi.Str Fcgi.Async Fcgi.Run Fcgi.Spec Fcgi.E2E Fcgi.C07E Fcgi.C07U
/-- one request, flag at ANY poll: RET; either no handler, or the request completed with its whole log incl. EndRequest  (= `Fcgi.C14E.stop_any_poll_single_e2e_exact_nofuel`, `Props/C14NoFuel.lean`) -/
def C14Clause1 : Prop :=
  ∀ {p : Preamble} {recs : List Rec} {content : Bytes} {srecs : List Rec}
    {b mc : Nat} {data : Bytes} {st : ExitStatus} {t : Transport} {fuel : Nat} (j : Nat)
    (hwf : WellFormedPreamble p recs) (hrole : p.role = 1)
    (hpairs : ∀ q ∈ p.pairs, (NV.enc q).length ≤ alignedBufsize b)
    (hnoise : NoiseFits (alignedBufsize b) recs)
    (hs : StreamRecs p.id 5 content srecs) (hsn : NoiseFits (alignedBufsize b) srecs)
    (hin : t.input = serAll recs ++ serAll srecs) (hben : Ben t) (hev : hsCount t.events = 0)
    (hfuel : t.rd.length + t.wr.length + 2 ≤ fuel),
    ∃ c', runTask fuel (conn0 b mc t data st) 0 (some j) = (c', "RET") ∧ c'.phase = .finished ∧
      (-- (0) seen by the request's own `parse_request`: no handler
       (hsCount c'.env.tr.events = 0 ∧ c'.env.tr.wlog <+: t.wlog ++ owedPreamble p mc recs) ∨
       -- (1)/(2)/(F) the request is completed; no second handler start; nothing read further
       (∃ O₁ O₂, O₁ ++ O₂ = owedStream p.id 5 mc srecs ∧
          c'.env.tr.wlog = t.wlog ++ expectedLogN p recs mc data st O₁ O₂ ∧
          hsCount c'.env.tr.events = 1 ∧ startEvent p.request ∈ c'.env.tr.events ∧
          readEvent content ∈ c'.env.tr.events ∧
          (-- stopped by the flag after completing the request: nothing read further
           (∃ raw pad res, raw ++ c'.env.tr.input = (trec 5 p.id pad res).ser) ∨
           -- the run was over before poll `j` (no KEEP_CONN, or end-of-file)
           p.flags.toNat % 2 = 0 ∨ c'.env.tr.endMode = .eof)))

theorem C14Clause1_holds : C14Clause1 := by
  unfold C14Clause1
  exact @stop_any_poll_single_e2e_exact_nofuel

end Fcgi.C14E
end

section
namespace Fcgi.C14E
open Fcgi Fcgi.Req Fcgi.Str Fcgi.Async Fcgi.Run Fcgi.Spec Fcgi.E2E Fcgi.C07E Fcgi.C07U
/-- two requests: flag while request 2 in flight ⇒ both complete; between ⇒ request 2's handler never starts  (= `Fcgi.C14E.stop_any_poll_e2e_exact_nofuel`, `Props/C14NoFuel.lean`) -/
def C14Clause2 : Prop :=
  ∀ {b mc : Nat} (q₁ q₂ : Sent) {t : Transport} {fuel : Nat} (j : Nat)
    (hok₁ : q₁.OKn b) (hok₂ : q₂.OKn b) (hkeep : q₁.p.flags.toNat % 2 = 1)
    (hin : t.input = q₁.wire) (hben : Ben t) (hev : hsCount t.events = 0)
    (hfuel : t.rd.length + t.wr.length + 3 ≤ fuel),
    ∃ c', runFeed fuel (connK b mc t [q₁, q₂]) 0 (some j) [q₂.wire] = (c', "RET") ∧ c'.phase = .finished ∧
      (-- the flag is seen before the client has sent `q₂`
       SentStopX mc q₁ t.wlog 0 [q₂.handler] c' ∨
       -- `q₂` was sent: the complete answer to `q₁` is in the log
       ∃ O₁ O₂, O₁ ++ O₂ = q₁.owed mc ∧
         (t.wlog ++ expectedLogN q₁.p q₁.recs mc q₁.data q₁.st O₁ O₂) <+: c'.env.tr.wlog ∧
         SentStopX mc q₂ (t.wlog ++ expectedLogN q₁.p q₁.recs mc q₁.data q₁.st O₁ O₂) 1 [] c')

theorem C14Clause2_holds : C14Clause2 := by
  unfold C14Clause2
  exact @stop_any_poll_e2e_exact_nofuel

end Fcgi.C14E
end

section
namespace Fcgi.C14E
open Fcgi Fcgi.Req Fcgi.Str Fcgi.Async Fcgi.Run Fcgi.Spec Fcgi.E2E Fcgi.C07E
/-- an idle connection polled with the flag up stops without a transport call  (= `Fcgi.C14E.stop_in_parse_request`, `Props/C14E2E2.lean`) -/
def C14Clause3 : Prop :=
  ∀ (c : Conn) (rp : Req.Parser) (sub : PRSub) (n fuel : Nat)
    (hph : c.phase = .parseReq rp sub) (hsegs : c.env.segs = []),
    ∃ c', runTask (fuel + 1) c n (some n) = (c', "RET") ∧ c'.phase = .finished ∧
      c'.env.tr.events = c.env.tr.events ++ [s!"|{n}"] ∧ c'.env.tr.input = c.env.tr.input ∧
      c'.env.tr.wlog = c.env.tr.wlog ∧ c'.scripts = c.scripts

theorem C14Clause3_holds : C14Clause3 := by
  unfold C14Clause3
  exact @stop_in_parse_request

end Fcgi.C14E
end

section
namespace Fcgi.C14a
open Fcgi Fcgi.Req Fcgi.Str Fcgi.Async Fcgi.Run
/-- no handler start in any poll that begins after the flag was raised  (= `Fcgi.C14a.no_new_handler_after_stop`, `Props/C14a.lean`) -/
def C14Clause4 : Prop :=
  ∀ (fuel : Nat) (c : Conn) (hs : c.stop = true),
    ∃ new, (pollConn fuel c).1.env.tr.events = c.env.tr.events ++ new ∧ hsCount new = 0 ∧
      (pollConn fuel c).1.scripts = c.scripts

theorem C14Clause4_holds : C14Clause4 := by
  unfold C14Clause4
  exact @no_new_handler_after_stop

end Fcgi.C14a
end

section
namespace Fcgi.C14a
open Fcgi Fcgi.Req Fcgi.Str Fcgi.Async Fcgi.Run
/-- idle connections stop without reading  (= `Fcgi.C14a.idle_stops_without_reading`, `Props/C14a.lean`) -/
def C14Clause5 : Prop :=
  ∀ (fuel : Nat) (c : Conn) (rp : Req.Parser) (sub : PRSub)
    (hp : c.phase = .parseReq rp sub) (hs : c.stop = true),
    pollConn (fuel + 1) c = ({ c with phase := .finished }, .finished)

theorem C14Clause5_holds : C14Clause5 := by
  unfold C14Clause5
  exact @idle_stops_without_reading

end Fcgi.C14a
end

section
namespace Fcgi.C14b
open Fcgi.Runner
/-- the shutdown future never completes early: if its last poll was Ready, no token is alive  (= `Fcgi.C14b.never_early`, `Props/C14b.lean`) -/
def C14Clause6 : Prop :=
  ∀ {n : Nat} {g : WG} (h : Reach n g) (hr : g.lastPoll = some true),
    ∀ t ∈ g.tokens, t ≠ DropPc.alive

theorem C14Clause6_holds : C14Clause6 := by
  unfold C14Clause6
  exact @never_early

end Fcgi.C14b
end

section
namespace Fcgi.C14b
open Fcgi.Runner
/-- its task is woken for the completion under every interleaving  (= `Fcgi.C14b.woken_for_completion`, `Props/C14b.lean`) -/
def C14Clause7 : Prop :=
  ∀ {n : Nat} {g : WG} (h : Reach n g) (hg : AllGone g)
    (hpc : g.pc = .idle) (hp : g.lastPoll = some false),
    g.wokenSinceRegister = true

theorem C14Clause7_holds : C14Clause7 := by
  unfold C14Clause7
  exact @woken_for_completion

end Fcgi.C14b
end

section
namespace Fcgi.C14b
open Fcgi.Runner
/-- … and is ready once all tokens are gone  (= `Fcgi.C14b.ready_after_all_gone`, `Props/C14b.lean`) -/
def C14Clause8 : Prop :=
  ∀ {n : Nat} {g : WG} (h : Reach n g) (hg : AllGone g)
    (hpc : g.pc = .idle),
    wgStep g .pollUpgrade = some { g with lastPoll := some true }

theorem C14Clause8_holds : C14Clause8 := by
  unfold C14Clause8
  exact @ready_after_all_gone

end Fcgi.C14b
end

namespace Fcgi.Headline
/-- **C14** — see the section comment above for the clause-by-clause reading. -/
theorem C14_headline :
    Fcgi.C14E.C14Clause1 ∧
    Fcgi.C14E.C14Clause2 ∧
    Fcgi.C14E.C14Clause3 ∧
    Fcgi.C14a.C14Clause4 ∧
    Fcgi.C14a.C14Clause5 ∧
    Fcgi.C14b.C14Clause6 ∧
    Fcgi.C14b.C14Clause7 ∧
    Fcgi.C14b.C14Clause8 :=
  ⟨Fcgi.C14E.C14Clause1_holds, Fcgi.C14E.C14Clause2_holds, Fcgi.C14E.C14Clause3_holds, Fcgi.C14a.C14Clause4_holds, Fcgi.C14a.C14Clause5_holds, Fcgi.C14b.C14Clause6_holds, Fcgi.C14b.C14Clause7_holds, Fcgi.C14b.C14Clause8_holds⟩
end Fcgi.Headline


/-! # C15

**Property.**
> Encoding any value from 0 to 2^31-1 and decoding the result returns the same value and consumes exactly
> the encoded bytes; the encoding is one byte for values below 128 and four bytes (high bit set, big-endian)
> otherwise. Conversion from integers succeeds exactly for values in that range, and decoding succeeds
> exactly when the one or four bytes announced by the first byte are present, failing with unexpected-EOF
> otherwise.

**Clause by clause.**
* “round trip, sizes, conversions” — Clauses 1–5.
* “decoding succeeds exactly when the one or four bytes announced by the first byte are present, failing
  with unexpected-EOF otherwise” — Clause 6: FAILS exactly then (`decode` returns an `Option`: the error
  KIND cannot be stated); Clause 7: what any four bytes decode to.

**The conjuncts of `C15_headline`.**
1. `C15.roundtrip` — decode (encode v) = v, consuming exactly the encoded bytes
2. `C15.encode_short` — one byte below 128
3. `C15.encode_long` — four bytes, high bit set, big endian otherwise
4. `C15.tryFromU32_iff` — conversion from u32 succeeds exactly in range
5. `C15.tryFromUsize_iff` — conversion from usize succeeds exactly in range
6. `C15.decode_none_iff` — decoding FAILS exactly when the one or four bytes announced by the first byte are
   missing (the error kind is not visible: `decode` returns an `Option`)
7. `C15.decode_any_four` — what ANY four bytes with the high bit set decode to (also the non-canonical
   encodings)

**Modelling assumptions (obligations.json).**
* usize is 64 bit
* Read for &[u8] / Write for Vec<u8> behave as documented in std

**Not proved as theorems — carried by the differential run + oracle, or trusted.**
* the error kind (unexpected-EOF) of a failed decode: not visible in the model, differential run
* std `Read for &[u8]` / `Write for Vec<u8>` as documented; usize = 64 bit

-/

section
namespace Fcgi.C15
open Fcgi Fcgi.VarInt
/-- decode (encode v) = v, consuming exactly the encoded bytes  (= `Fcgi.C15.roundtrip`, `Props/C15.lean`) -/
def C15Clause1 : Prop :=
  ∀ (v : Nat) (hm : v ≤ maxVal) (r : Bytes),
    decode (encode v ++ r) = some (v, r)

theorem C15Clause1_holds : C15Clause1 := by
  unfold C15Clause1
  exact @roundtrip

end Fcgi.C15
end

section
namespace Fcgi.C15
open Fcgi Fcgi.VarInt
/-- one byte below 128  (= `Fcgi.C15.encode_short`, `Props/C15.lean`) -/
def C15Clause2 : Prop :=
  ∀ (v : Nat) (h : v < 128),
    encode v = [UInt8.ofNat v]

theorem C15Clause2_holds : C15Clause2 := by
  unfold C15Clause2
  exact @encode_short

end Fcgi.C15
end

section
namespace Fcgi.C15
open Fcgi Fcgi.VarInt
/-- four bytes, high bit set, big endian otherwise  (= `Fcgi.C15.encode_long`, `Props/C15.lean`) -/
def C15Clause3 : Prop :=
  ∀ (v : Nat) (h : 128 ≤ v) (hm : v ≤ maxVal),
    ∃ b0 b1 b2 b3 : UInt8, encode v = [b0, b1, b2, b3] ∧ 128 ≤ b0.toNat ∧
      (b0.toNat - 128) * 16777216 + b1.toNat * 65536 + b2.toNat * 256 + b3.toNat = v

theorem C15Clause3_holds : C15Clause3 := by
  unfold C15Clause3
  exact @encode_long

end Fcgi.C15
end

section
namespace Fcgi.C15
open Fcgi Fcgi.VarInt
/-- conversion from u32 succeeds exactly in range  (= `Fcgi.C15.tryFromU32_iff`, `Props/C15.lean`) -/
def C15Clause4 : Prop :=
  ∀ (x : Nat),
    tryFromU32 x = (if x ≤ maxVal then some x else none)

theorem C15Clause4_holds : C15Clause4 := by
  unfold C15Clause4
  exact @tryFromU32_iff

end Fcgi.C15
end

section
namespace Fcgi.C15
open Fcgi Fcgi.VarInt
/-- conversion from usize succeeds exactly in range  (= `Fcgi.C15.tryFromUsize_iff`, `Props/C15.lean`) -/
def C15Clause5 : Prop :=
  ∀ (x : Nat),
    tryFromUsize x = (if x ≤ maxVal then some x else none)

theorem C15Clause5_holds : C15Clause5 := by
  unfold C15Clause5
  exact @tryFromUsize_iff

end Fcgi.C15
end

section
namespace Fcgi.C15
open Fcgi Fcgi.VarInt
/-- decoding FAILS exactly when the one or four bytes announced by the first byte are missing (the error kind is not visible: `decode` returns an `Option`)  (= `Fcgi.C15.decode_none_iff`, `Props/C15.lean`) -/
def C15Clause6 : Prop :=
  ∀ (bs : Bytes),
    decode bs = none ↔ bs = [] ∨ ∃ b0 r, bs = b0 :: r ∧ 128 ≤ b0.toNat ∧ r.length < 3

theorem C15Clause6_holds : C15Clause6 := by
  unfold C15Clause6
  exact @decode_none_iff

end Fcgi.C15
end

section
namespace Fcgi.C15
open Fcgi Fcgi.VarInt
/-- what ANY four bytes with the high bit set decode to (also the non-canonical encodings)  (= `Fcgi.C15.decode_any_four`, `Props/C15.lean`) -/
def C15Clause7 : Prop :=
  ∀ (b0 b1 b2 b3 : UInt8) (r : Bytes) (h : 128 ≤ b0.toNat),
    decode (b0 :: b1 :: b2 :: b3 :: r) =
      some ((b0.toNat - 128) * 16777216 + b1.toNat * 65536 + b2.toNat * 256 + b3.toNat, r)

theorem C15Clause7_holds : C15Clause7 := by
  unfold C15Clause7
  exact @decode_any_four

end Fcgi.C15
end

namespace Fcgi.Headline
/-- **C15** — see the section comment above for the clause-by-clause reading. -/
theorem C15_headline :
    Fcgi.C15.C15Clause1 ∧
    Fcgi.C15.C15Clause2 ∧
    Fcgi.C15.C15Clause3 ∧
    Fcgi.C15.C15Clause4 ∧
    Fcgi.C15.C15Clause5 ∧
    Fcgi.C15.C15Clause6 ∧
    Fcgi.C15.C15Clause7 :=
  ⟨Fcgi.C15.C15Clause1_holds, Fcgi.C15.C15Clause2_holds, Fcgi.C15.C15Clause3_holds, Fcgi.C15.C15Clause4_holds, Fcgi.C15.C15Clause5_holds, Fcgi.C15.C15Clause6_holds, Fcgi.C15.C15Clause7_holds⟩
end Fcgi.Headline


/-! # C16

**Property.**
> Decoding the concatenated encodings of any list of name-value pairs yields exactly those pairs, in order,
> with nothing left over, and the encoder reports exactly the bytes it wrote. On arbitrary bytes the decoder
> never panics, yields only complete pairs that are consecutive sub-slices of its input, stops for good at
> the first incomplete pair and hands back exactly the undecoded suffix; the pairs decoded from a prefix of
> an input are a prefix of those decoded from the whole, the shared and mutable variants agree, and the
> number of pairs never exceeds the size hint.

**Clause by clause.**
* “round trip / reported count” — Clause 1 (about the spec encoder `NV.enc`), Clause 2 (if `write` succeeds
  its output is `enc` and the count is its length), Clause 9 (`write` on a `Vec` does succeed).
* “arbitrary bytes: complete sub-slices, stops for good, undecoded suffix, prefix monotonicity, size hint,
  never panics” — Clauses 3–8, 10: sub-slices (Clause 3), `next` on the rest is `none` (Clause 4: 'for good'
  by the model convention that `none` carries no new state), the rest is EXACTLY the undecoded suffix
  (Clauses 5–6: the iterator unfolded), prefix monotonicity (7), size hint (8), all index guards hold (10).

**The conjuncts of `C16_headline`.**
1. `C16.roundtrip` — decoding the concatenated encodings yields the pairs, nothing left
2. `C16.write_count` — the encoder reports exactly the bytes it wrote
3. `C16.subslices` — decoded pairs are consecutive sub-slices of the input (behind a 2/5/8-byte length
   header)
4. `C16.stops_for_good` — the decoder stops for good at the first incomplete pair
5. `C16.all_some` — the iterator unfolded: a complete pair is yielded and the rest is iterated — with
   `all_none` this pins `(all bs).2` to exactly the undecoded suffix
6. `C16.all_none` — … and stops with the whole remaining input handed back when the next pair is incomplete
7. `C16.prefix_mono` — pairs of a prefix are a prefix of the pairs of the whole
8. `C16.size_hint` — the number of pairs never exceeds the size hint
9. `C16.write_vec` — the encoder succeeds on a `Vec` and writes exactly `enc`
10. `C16.nextGuards_true` — never panics: every index guard of the decoder holds

**Modelling assumptions (obligations.json).**
* usize is 64 bit (checked_add cannot overflow)
* std Write for Vec<u8>/&mut [u8] as in Model/Sink.lean
* 'shared and mutable variants agree' is established by the differential run, not by a theorem (one generic
  Rust function, one model)

**Not proved as theorems — carried by the differential run + oracle, or trusted.**
* 'the shared and mutable variants agree' is established by the differential run (one generic Rust function,
  one model)

-/

section
namespace Fcgi.C16
open Fcgi Fcgi.VarInt
/-- decoding the concatenated encodings yields the pairs, nothing left  (= `Fcgi.C16.roundtrip`, `Props/C16.lean`) -/
def C16Clause1 : Prop :=
  ∀ (ps : List (Bytes × Bytes))
    (hps : ∀ p ∈ ps, p.1.length ≤ maxVal ∧ p.2.length ≤ maxVal)
    (t : Bytes) (ht : NV.next t = none),
    NV.all (ps.flatMap NV.enc ++ t) = (ps, t)

theorem C16Clause1_holds : C16Clause1 := by
  unfold C16Clause1
  exact @roundtrip

end Fcgi.C16
end

section
namespace Fcgi.C16
open Fcgi Fcgi.VarInt
/-- the encoder reports exactly the bytes it wrote  (= `Fcgi.C16.write_count`, `Props/C16.lean`) -/
def C16Clause2 : Prop :=
  ∀ {n v : Bytes} {w w' : Sink} {k : Nat} (h : NV.write n v w = (w', .ok k)),
    w'.out = w.out ++ NV.enc (n, v) ∧ k = (NV.enc (n, v)).length

theorem C16Clause2_holds : C16Clause2 := by
  unfold C16Clause2
  exact @write_count

end Fcgi.C16
end

section
namespace Fcgi.C16
open Fcgi Fcgi.VarInt
/-- decoded pairs are consecutive sub-slices of the input (behind a 2/5/8-byte length header)  (= `Fcgi.C16.subslices`, `Props/C16.lean`) -/
def C16Clause3 : Prop :=
  ∀ {bs n v r : Bytes} (h : NV.next bs = some ((n, v), r)),
    ∃ hd, bs = hd ++ n ++ v ++ r ∧ (hd.length = 2 ∨ hd.length = 5 ∨ hd.length = 8)

theorem C16Clause3_holds : C16Clause3 := by
  unfold C16Clause3
  exact @subslices

end Fcgi.C16
end

section
namespace Fcgi.C16
open Fcgi Fcgi.VarInt
/-- the decoder stops for good at the first incomplete pair  (= `Fcgi.C16.stops_for_good`, `Props/C16.lean`) -/
def C16Clause4 : Prop :=
  ∀ (bs : Bytes),
    NV.next (NV.all bs).2 = none

theorem C16Clause4_holds : C16Clause4 := by
  unfold C16Clause4
  exact @stops_for_good

end Fcgi.C16
end

section
namespace Fcgi.C16
open Fcgi Fcgi.VarInt
/-- the iterator unfolded: a complete pair is yielded and the rest is iterated — with `all_none` this pins `(all bs).2` to exactly the undecoded suffix  (= `Fcgi.C16.all_some`, `Props/C16.lean`) -/
def C16Clause5 : Prop :=
  ∀ {bs r : Bytes} {p : Bytes × Bytes} (h : NV.next bs = some (p, r)),
    NV.all bs = (p :: (NV.all r).1, (NV.all r).2)

theorem C16Clause5_holds : C16Clause5 := by
  unfold C16Clause5
  exact @all_some

end Fcgi.C16
end

section
namespace Fcgi.C16
open Fcgi Fcgi.VarInt
/-- … and stops with the whole remaining input handed back when the next pair is incomplete  (= `Fcgi.C16.all_none`, `Props/C16.lean`) -/
def C16Clause6 : Prop :=
  ∀ {bs : Bytes} (h : NV.next bs = none),
    NV.all bs = ([], bs)

theorem C16Clause6_holds : C16Clause6 := by
  unfold C16Clause6
  exact @all_none

end Fcgi.C16
end

section
namespace Fcgi.C16
open Fcgi Fcgi.VarInt
/-- pairs of a prefix are a prefix of the pairs of the whole  (= `Fcgi.C16.prefix_mono`, `Props/C16.lean`) -/
def C16Clause7 : Prop :=
  ∀ (a b : Bytes),
    (NV.all a).1 <+: (NV.all (a ++ b)).1

theorem C16Clause7_holds : C16Clause7 := by
  unfold C16Clause7
  exact @prefix_mono

end Fcgi.C16
end

section
namespace Fcgi.C16
open Fcgi Fcgi.VarInt
/-- the number of pairs never exceeds the size hint  (= `Fcgi.C16.size_hint`, `Props/C16.lean`) -/
def C16Clause8 : Prop :=
  ∀ (bs : Bytes),
    (NV.all bs).1.length ≤ NV.sizeHint bs

theorem C16Clause8_holds : C16Clause8 := by
  unfold C16Clause8
  exact @size_hint

end Fcgi.C16
end

section
namespace Fcgi.C16
open Fcgi Fcgi.VarInt
/-- the encoder succeeds on a `Vec` and writes exactly `enc`  (= `Fcgi.C16.write_vec`, `Props/C16.lean`) -/
def C16Clause9 : Prop :=
  ∀ (n v pre : Bytes) (hn : n.length ≤ maxVal) (hv : v.length ≤ maxVal),
    NV.write n v (Sink.vec pre) =
      ({ cap := none, out := pre ++ NV.enc (n, v) }, .ok (NV.enc (n, v)).length)

theorem C16Clause9_holds : C16Clause9 := by
  unfold C16Clause9
  exact @write_vec

end Fcgi.C16
end

section
namespace Fcgi.C16
open Fcgi Fcgi.VarInt
/-- never panics: every index guard of the decoder holds  (= `Fcgi.C16.nextGuards_true`, `Props/C16.lean`) -/
def C16Clause10 : Prop :=
  ∀ (bs : Bytes),
    NV.nextGuards bs = true

theorem C16Clause10_holds : C16Clause10 := by
  unfold C16Clause10
  exact @nextGuards_true

end Fcgi.C16
end

namespace Fcgi.Headline
/-- **C16** — see the section comment above for the clause-by-clause reading. -/
theorem C16_headline :
    Fcgi.C16.C16Clause1 ∧
    Fcgi.C16.C16Clause2 ∧
    Fcgi.C16.C16Clause3 ∧
    Fcgi.C16.C16Clause4 ∧
    Fcgi.C16.C16Clause5 ∧
    Fcgi.C16.C16Clause6 ∧
    Fcgi.C16.C16Clause7 ∧
    Fcgi.C16.C16Clause8 ∧
    Fcgi.C16.C16Clause9 ∧
    Fcgi.C16.C16Clause10 :=
  ⟨Fcgi.C16.C16Clause1_holds, Fcgi.C16.C16Clause2_holds, Fcgi.C16.C16Clause3_holds, Fcgi.C16.C16Clause4_holds, Fcgi.C16.C16Clause5_holds, Fcgi.C16.C16Clause6_holds, Fcgi.C16.C16Clause7_holds, Fcgi.C16.C16Clause8_holds, Fcgi.C16.C16Clause9_holds, Fcgi.C16.C16Clause10_holds⟩
end Fcgi.Headline


/-! # C17

**Property.**
> Every record header value survives encoding and decoding unchanged, every 8-byte string that decodes re-
> encodes to itself apart from reserved bytes, and decoding rejects exactly the unknown versions (checked
> first) and unknown record types; the same holds for the BeginRequest, EndRequest and UnknownType bodies
> and their whole-record encoders, and the automatically chosen padding is below 8 and makes content plus
> padding a multiple of 8. For every subset of the queryable protocol variables and every configuration, the
> generated GetValuesResult is one well-formed management record, no longer than the advertised maximum and
> appended after any existing buffer contents, listing exactly the requested variables with the configured
> connection limit for both limits and 0 for multiplexing. Every exit status maps to the EndRequest protocol
> and application status documented for it, and the end-of-request sequence is one empty record per output
> stream followed by that EndRequest, all with the request's id.

**Clause by clause.**
* “headers and bodies round trip / re-encode / reject exactly” — Header: Clauses 1–3; BeginRequest: Clauses
  4, 9, 10; EndRequest: Clauses 5, 11, 12 (Unknown type and the whole-record encoders: `unknown_*`,
  `*_toRecord`, registered).
* “padding” — Clause 6.
* “GetValuesResult” — Clause 7 (one well-formed record, length bound, appended — on a closed-form model of
  reserve/write/pad/back-patch) and Clause 14 (the values: connection limit for both limits, 0 for
  multiplexing).
* “exit status mapping and the end-of-request sequence” — Clause 13 (`exit_mapping`: the values) and Clause
  8 (`epilogue_spec`: the sequence).

**The conjuncts of `C17_headline`.**
1. `C17.header_roundtrip` — header: decode ∘ encode = id
2. `C17.header_reencode` — every 8 bytes that decode re-encode to themselves apart from reserved bytes
3. `C17.header_reject_iff` — rejected exactly: unknown version (first), unknown type
4. `C17.begin_roundtrip` — BeginRequest body: round trip
5. `C17.end_roundtrip` — EndRequest body: round trip
6. `C17.padding_rule` — automatic padding < 8, content + padding multiple of 8
7. `C17.writeResponse_spec` — GetValuesResult: ONE well-formed management record, ≤ the advertised maximum,
   appended after existing contents (stated on the closed-form model; which variables/values: Clause 14)
8. `C17.epilogue_spec` — the end-of-request sequence: one empty record per output stream, then EndRequest,
   all with the request's id (status VALUES: Clause 13)
9. `C17.begin_reject_iff` — BeginRequest: rejected exactly
10. `C17.begin_reencode` — BeginRequest: re-encode
11. `C17.end_reject_iff` — EndRequest: rejected exactly
12. `C17.end_reencode` — EndRequest: re-encode
13. `C17.exit_mapping` — every exit status maps to the documented protocol and application status
14. `HeadlineExtra.C17_var_values` — the queryable variables: MAX_CONNS and MAX_REQS = the configured limit,
   MPXS_CONNS = 0

**Modelling assumptions (obligations.json).**
* bitflags iter_names yields contained flags in declaration order (modelled external)
* usize::to_compact_string = decimal rendering
* make_request_epilogue is pub(crate): its model is tied to the code through Request::close in the async
  checks, its theorem (epilogue_spec) is about the model

**Not proved as theorems — carried by the differential run + oracle, or trusted.**
* `make_request_epilogue` is pub(crate): tied to the code through `Request::close` in the async checks
* bitflags `iter_names` order and decimal rendering are modelled externals (`decimal` has no parse-back
  theorem)

-/

section
namespace Fcgi.C17
open Fcgi Fcgi.Proofs.Header
/-- header: decode ∘ encode = id  (= `Fcgi.C17.header_roundtrip`, `Props/C17.lean`) -/
def C17Clause1 : Prop :=
  ∀ (h : RecordHeader) (ht : RT.valid h.rtype = true)
    (hi : h.requestId < 65536) (hc : h.contentLength < 65536) (hp : h.paddingLength < 256)
    (rest : Bytes),
    RecordHeader.fromBytes (h.toBytes ++ rest) = some (.ok h)

theorem C17Clause1_holds : C17Clause1 := by
  unfold C17Clause1
  exact @header_roundtrip

end Fcgi.C17
end

section
namespace Fcgi.C17
open Fcgi Fcgi.Proofs.Header
/-- every 8 bytes that decode re-encode to themselves apart from reserved bytes  (= `Fcgi.C17.header_reencode`, `Props/C17.lean`) -/
def C17Clause2 : Prop :=
  ∀ (b0 b1 b2 b3 b4 b5 b6 b7 : UInt8) (rest : Bytes) (h : RecordHeader)
    (hd : RecordHeader.fromBytes (b0 :: b1 :: b2 :: b3 :: b4 :: b5 :: b6 :: b7 :: rest) = some (.ok h)),
    h.toBytes = [b0, b1, b2, b3, b4, b5, b6, 0]

theorem C17Clause2_holds : C17Clause2 := by
  unfold C17Clause2
  exact @header_reencode

end Fcgi.C17
end

section
namespace Fcgi.C17
open Fcgi Fcgi.Proofs.Header
/-- rejected exactly: unknown version (first), unknown type  (= `Fcgi.C17.header_reject_iff`, `Props/C17.lean`) -/
def C17Clause3 : Prop :=
  ∀ (b0 b1 b2 b3 b4 b5 b6 b7 : UInt8) (rest : Bytes),
    let r := RecordHeader.fromBytes (b0 :: b1 :: b2 :: b3 :: b4 :: b5 :: b6 :: b7 :: rest)
    (r = some (.error (.unknownVersion b0)) ↔ b0.toNat ≠ 1) ∧
    (r = some (.error (.unknownRecordType b1)) ↔
      b0.toNat = 1 ∧ ¬(1 ≤ b1.toNat ∧ b1.toNat ≤ 11)) ∧
    (r = some (.ok { rtype := b1.toNat, requestId := be16 b2 b3, contentLength := be16 b4 b5,
                     paddingLength := b6.toNat }) ↔
      b0.toNat = 1 ∧ 1 ≤ b1.toNat ∧ b1.toNat ≤ 11) ∧
    ((∃ e, r = some (.error e)) ↔ ¬(b0.toNat = 1 ∧ 1 ≤ b1.toNat ∧ b1.toNat ≤ 11))

theorem C17Clause3_holds : C17Clause3 := by
  unfold C17Clause3
  exact @header_reject_iff

end Fcgi.C17
end

section
namespace Fcgi.C17
open Fcgi Fcgi.Proofs.Header
/-- BeginRequest body: round trip  (= `Fcgi.C17.begin_roundtrip`, `Props/C17.lean`) -/
def C17Clause4 : Prop :=
  ∀ (b : BeginRequest) (hr : 1 ≤ b.role ∧ b.role ≤ 3) (rest : Bytes),
    BeginRequest.fromBytes (b.toBytes ++ rest) = some (.ok b)

theorem C17Clause4_holds : C17Clause4 := by
  unfold C17Clause4
  exact @begin_roundtrip

end Fcgi.C17
end

section
namespace Fcgi.C17
open Fcgi Fcgi.Proofs.Header
/-- EndRequest body: round trip  (= `Fcgi.C17.end_roundtrip`, `Props/C17.lean`) -/
def C17Clause5 : Prop :=
  ∀ (e : EndRequest) (ha : e.appStatus < 4294967296) (hs : e.protocolStatus ≤ 3)
    (rest : Bytes),
    EndRequest.fromBytes (e.toBytes ++ rest) = some (.ok e)

theorem C17Clause5_holds : C17Clause5 := by
  unfold C17Clause5
  exact @end_roundtrip

end Fcgi.C17
end

section
namespace Fcgi.C17
open Fcgi Fcgi.Proofs.Header
/-- automatic padding < 8, content + padding multiple of 8  (= `Fcgi.C17.padding_rule`, `Props/C17.lean`) -/
def C17Clause6 : Prop :=
  ∀ (c : Nat),
    RecordHeader.autoPadding c < 8 ∧ (c + RecordHeader.autoPadding c) % 8 = 0

theorem C17Clause6_holds : C17Clause6 := by
  unfold C17Clause6
  exact @padding_rule

end Fcgi.C17
end

section
namespace Fcgi.C17
open Fcgi Fcgi.Proofs.Header
/-- GetValuesResult: ONE well-formed management record, ≤ the advertised maximum, appended after existing contents (stated on the closed-form model; which variables/values: Clause 14)  (= `Fcgi.C17.writeResponse_spec`, `Props/C17.lean`) -/
def C17Clause7 : Prop :=
  ∀ (set maxConns : Nat) (_hset : set < 8) (_hpos : 0 < maxConns)
    (hlt : maxConns < 2 ^ 64) (pre : Bytes),
    let rec_ := Vars.responseRecord set maxConns
    let body := Vars.body set maxConns
    Vars.writeResponse set pre maxConns = (pre ++ rec_, rec_.length) ∧
    rec_.length ≤ 104 ∧
    rec_ = ((RecordHeader.new 10 0).setLengths body.length).toBytes ++ body ++
      zeros (RecordHeader.autoPadding body.length) ∧
    RecordHeader.fromBytes rec_ =
      some (.ok ⟨10, 0, body.length, RecordHeader.autoPadding body.length⟩) ∧
    rec_.length = 8 + body.length + RecordHeader.autoPadding body.length ∧
    rec_.length % 8 = 0 ∧
    NV.all body = ((Vars.table.filter (fun e => Vars.has set e.2)).map
        (fun e => (e.1, Vars.value e.2 maxConns)), [])

theorem C17Clause7_holds : C17Clause7 := by
  unfold C17Clause7
  exact @writeResponse_spec

end Fcgi.C17
end

section
namespace Fcgi.C17
open Fcgi Fcgi.Proofs.Header
/-- the end-of-request sequence: one empty record per output stream, then EndRequest, all with the request's id (status VALUES: Clause 13)  (= `Fcgi.C17.epilogue_spec`, `Props/C17.lean`) -/
def C17Clause8 : Prop :=
  ∀ (id : Nat) (st : ExitStatus) (streams : List Nat),
    makeRequestEpilogue id st streams =
      streams.flatMap (fun s => RecordHeader.toBytes ⟨s, id, 0, 0⟩) ++ st.toEndRequest.toRecord id ∧
    (makeRequestEpilogue id st streams).length = 8 * streams.length + 16 ∧
    ∀ role, (makeRequestEpilogue id st (outputStreams role)).length = Gen.epilogueLen

theorem C17Clause8_holds : C17Clause8 := by
  unfold C17Clause8
  exact @epilogue_spec

end Fcgi.C17
end

section
namespace Fcgi.C17
open Fcgi Fcgi.Proofs.Header
/-- BeginRequest: rejected exactly  (= `Fcgi.C17.begin_reject_iff`, `Props/C17.lean`) -/
def C17Clause9 : Prop :=
  ∀ (d0 d1 d2 d3 d4 d5 d6 d7 : UInt8) (rest : Bytes),
    let r := BeginRequest.fromBytes (d0 :: d1 :: d2 :: d3 :: d4 :: d5 :: d6 :: d7 :: rest)
    (r = some (.error (.unknownRole (be16 d0 d1))) ↔ ¬(1 ≤ be16 d0 d1 ∧ be16 d0 d1 ≤ 3)) ∧
    (r = some (.ok { role := be16 d0 d1, flags := d2 }) ↔ 1 ≤ be16 d0 d1 ∧ be16 d0 d1 ≤ 3) ∧
    ((∃ e, r = some (.error e)) ↔ ¬(1 ≤ be16 d0 d1 ∧ be16 d0 d1 ≤ 3))

theorem C17Clause9_holds : C17Clause9 := by
  unfold C17Clause9
  exact @begin_reject_iff

end Fcgi.C17
end

section
namespace Fcgi.C17
open Fcgi Fcgi.Proofs.Header
/-- BeginRequest: re-encode  (= `Fcgi.C17.begin_reencode`, `Props/C17.lean`) -/
def C17Clause10 : Prop :=
  ∀ (d0 d1 d2 d3 d4 d5 d6 d7 : UInt8) (rest : Bytes) (b : BeginRequest)
    (hd : BeginRequest.fromBytes (d0 :: d1 :: d2 :: d3 :: d4 :: d5 :: d6 :: d7 :: rest) = some (.ok b)),
    b.toBytes = [d0, d1, d2, 0, 0, 0, 0, 0]

theorem C17Clause10_holds : C17Clause10 := by
  unfold C17Clause10
  exact @begin_reencode

end Fcgi.C17
end

section
namespace Fcgi.C17
open Fcgi Fcgi.Proofs.Header
/-- EndRequest: rejected exactly  (= `Fcgi.C17.end_reject_iff`, `Props/C17.lean`) -/
def C17Clause11 : Prop :=
  ∀ (d0 d1 d2 d3 d4 d5 d6 d7 : UInt8) (rest : Bytes),
    let r := EndRequest.fromBytes (d0 :: d1 :: d2 :: d3 :: d4 :: d5 :: d6 :: d7 :: rest)
    (r = some (.error (.unknownStatus d4)) ↔ ¬(d4.toNat ≤ 3)) ∧
    (r = some (.ok { appStatus := be32 d0 d1 d2 d3, protocolStatus := d4.toNat }) ↔ d4.toNat ≤ 3) ∧
    ((∃ e, r = some (.error e)) ↔ ¬(d4.toNat ≤ 3))

theorem C17Clause11_holds : C17Clause11 := by
  unfold C17Clause11
  exact @end_reject_iff

end Fcgi.C17
end

section
namespace Fcgi.C17
open Fcgi Fcgi.Proofs.Header
/-- EndRequest: re-encode  (= `Fcgi.C17.end_reencode`, `Props/C17.lean`) -/
def C17Clause12 : Prop :=
  ∀ (d0 d1 d2 d3 d4 d5 d6 d7 : UInt8) (rest : Bytes) (e : EndRequest)
    (hd : EndRequest.fromBytes (d0 :: d1 :: d2 :: d3 :: d4 :: d5 :: d6 :: d7 :: rest) = some (.ok e)),
    e.toBytes = [d0, d1, d2, d3, d4, 0, 0, 0]

theorem C17Clause12_holds : C17Clause12 := by
  unfold C17Clause12
  exact @end_reencode

end Fcgi.C17
end

section
namespace Fcgi.C17
open Fcgi Fcgi.Proofs.Header
/-- every exit status maps to the documented protocol and application status  (= `Fcgi.C17.exit_mapping`, `Props/C17.lean`) -/
def C17Clause13 : Prop :=
  ∀ (c : Nat),
    (ExitStatus.complete c).toEndRequest = ⟨c, 0⟩ ∧
    ExitStatus.overloaded.toEndRequest = ⟨0, 2⟩ ∧
    ExitStatus.unknownRole.toEndRequest = ⟨0, 3⟩ ∧
    ExitStatus.abort.toEndRequest = ⟨1094865492, 0⟩

theorem C17Clause13_holds : C17Clause13 := by
  unfold C17Clause13
  exact @exit_mapping

end Fcgi.C17
end

section
namespace Fcgi.Headline
open Fcgi

/-- the queryable variables: MAX_CONNS and MAX_REQS = the configured limit, MPXS_CONNS = 0  (`HeadlineExtra.C17_var_values`) -/
def C17Clause14 : Prop :=
  ∀ (m : Nat),
    Vars.value 1 m = decimal m ∧ Vars.value 2 m = decimal m ∧ Vars.value 4 m = [48] ∧
    Vars.table = [("FCGI_MAX_CONNS".toUTF8.toList, 1), ("FCGI_MAX_REQS".toUTF8.toList, 2),
      ("FCGI_MPXS_CONNS".toUTF8.toList, 4)]

theorem C17Clause14_holds : C17Clause14 := by
  unfold C17Clause14
  intro m
  refine ⟨by simp [Vars.value], by simp [Vars.value], by simp [Vars.value], rfl⟩
end Fcgi.Headline
end

namespace Fcgi.Headline
/-- **C17** — see the section comment above for the clause-by-clause reading. -/
theorem C17_headline :
    Fcgi.C17.C17Clause1 ∧
    Fcgi.C17.C17Clause2 ∧
    Fcgi.C17.C17Clause3 ∧
    Fcgi.C17.C17Clause4 ∧
    Fcgi.C17.C17Clause5 ∧
    Fcgi.C17.C17Clause6 ∧
    Fcgi.C17.C17Clause7 ∧
    Fcgi.C17.C17Clause8 ∧
    Fcgi.C17.C17Clause9 ∧
    Fcgi.C17.C17Clause10 ∧
    Fcgi.C17.C17Clause11 ∧
    Fcgi.C17.C17Clause12 ∧
    Fcgi.C17.C17Clause13 ∧
    Fcgi.Headline.C17Clause14 :=
  ⟨Fcgi.C17.C17Clause1_holds, Fcgi.C17.C17Clause2_holds, Fcgi.C17.C17Clause3_holds, Fcgi.C17.C17Clause4_holds, Fcgi.C17.C17Clause5_holds, Fcgi.C17.C17Clause6_holds, Fcgi.C17.C17Clause7_holds, Fcgi.C17.C17Clause8_holds, Fcgi.C17.C17Clause9_holds, Fcgi.C17.C17Clause10_holds, Fcgi.C17.C17Clause11_holds, Fcgi.C17.C17Clause12_holds, Fcgi.C17.C17Clause13_holds, Fcgi.Headline.C17Clause14_holds⟩
end Fcgi.Headline


/-! # C18

**Property.**
> A request's active input stream starts at the first stream of its role and can only move forward along the
> role's stream order, or to 'none', permanently; attempts to select a stream outside the role or earlier
> than the current one are rejected and change nothing, and re-selecting the current stream keeps buffered
> data. Data of streams other than the active one is never delivered: earlier or foreign streams are
> skipped, and the first record of a later stream is held back and reported as the end of the current stream
> until the caller advances.

**Clause by clause.**
* “starts at the first stream of its role and can only move forward, or to 'none', permanently” — Clauses 1,
  5, 6, 12.
* “attempts to select a stream outside the role or earlier are rejected and change nothing; re-selecting
  keeps buffered data” — Clauses 2–4 ('changes nothing': `Err(SequenceError)` carries no parser).
* “data of streams other than the active one is never delivered: earlier or foreign streams are skipped, and
  the first record of a later stream is held back and reported as the end of the current stream until the
  caller advances” — Clauses 7–8 (one loop iteration / `parse_head`: only a non-empty record of the ACTIVE
  stream of THIS request starts delivery), Clauses 9–11 (the held-back header: not consumed, `stream_end`
  again on every later `parse` without new input, kept across consume/compress), Clauses 13–15
  (`Props/C18Held.lean`: the same under `parse` calls WITH NEW INPUT, and what happens after the caller
  advances), Clauses 16–20 (`set_stream(None)`: ignore mode, permanent, releases a held-back header; the
  replies on arbitrary bytes are the reference's, chunk invariance up to the `pay`/`pad` counters), Clause
  21 (finding: records behind the held-back header wait unanswered).  History level ('only the active
  stream's payload is ever delivered'): `C03SI.prefix_sim`, C02 Clause 1.

**The conjuncts of `C18_headline`.**
1. `C18.fromParser_stream` — the active stream starts at the first stream of the role (by definition of
   `from_parser`)
2. `C18.setStream_accept_iff` — a selection is accepted iff it is the current stream, a later one of the
   role, or none
3. `C18.setStream_rejected_unchanged` — `set_stream` either returns `Ok` with the parser unchanged or
   switched, or `Err(SequenceError)` — which carries no parser (`&mut self` untouched) —, or hits the debug
   assertion
4. `C18.setStream_same_keeps` — re-selecting the current stream keeps buffered data
5. `C18.active_mono_trace` — over any history the active stream only moves forward
6. `C18.none_absorbing` — … and `none` is permanent
7. `C18.iter_only_active` — a whole loop iteration delivers stream data only if it starts in state `Stream`
   with payload outstanding: records of other streams/requests, management records and padding are never
   delivered
8. `C18.head_activates` — `parse_head` enters state `Stream` only for a NON-EMPTY record of the ACTIVE
   stream of this request
9. `C18.held_back` — when `stream_end` is raised the header is NOT consumed: it is the empty record of the
   active stream or a record of a strictly LATER stream of this request
10. `C18.held_back_repeats` — … and every later `parse` without new input reports `stream_end` again,
   delivers nothing, leaves the parser as it is
11. `C18.held_back_persists` — … also across `consume_stream` / `compress` / `consume_output` (HeldBack
   under NEW input: Clauses 13–15; formerly: no theorem)
12. `C18.setStream_none_ok` — `set_stream(None)` is always accepted
13. `C18H.held_under_new_input` — the held-back header under `parse` calls WITH NEW INPUT (any input,
   chunking, dest, interleaved consume/compress): still held back, nothing delivered, nothing answered, the
   unparsed bytes = old ++ everything fed
14. `C18H.held_record_intact` — … the held-back record itself stays in place, unconsumed
15. `C18H.advance_continues` — after `set_stream` advanced: what follows is the reference run on held-back
   record ++ input fed while held ++ input fed afterwards — nothing lost or duplicated
16. `C18N.set_none_ign` — `set_stream(None)` from any state puts the parser in ignore mode (`Ign`)
17. `C18N.after_none` — … and every legal history after it stays there: nothing is delivered, later
   `set_stream(Some _)` is rejected
18. `C18N.held_then_none_consumes` — a held-back header is RELEASED by `set_stream(None)`: the next `parse`
   consumes it
19. `C18N.none_replies_ref` — after `set_stream(None)`, on ARBITRARY bytes and any legal drained history:
   the replies are exactly the reference's, the unread bytes the reference's remainder, the state terminal with
   the reference's verdict
20. `C18N.none_chunk_invariance_partial` — … so two drained histories over the same bytes agree on replies
   and unread bytes (chunk invariance after None, minus the `pay`/`pad` counters)
21. `C18H.Example.behind_answered_at_once_full_false` — FINDING: management records arriving behind the
   held-back header are NOT answered until the caller advances (the expectation "answered by the call that
   feeds them" is refuted)

**Modelling assumptions (obligations.json).**
* set_stream(Some(non-input-stream type)) while a stream is active hits a debug assertion in
  cmp_input_streams (release builds return SequenceError): modelled as the panic it is in debug builds and
  treated as a rejection that changes nothing
* Props/C18Held: the held-back first record of a later stream under NEW input — `held_under_new_input` /
  `held_every_call` (any further parse calls with any input, any dest, any interleaving of consume_stream /
  compress / consume_output keep returning exactly `stream=0, end=true, output=0`, deliver nothing, keep the
  held-back h…
* Props/C18None: `set_stream(None)` — `set_none_ign` (from every reachable state, incl. mid-record and held-
  back, it enters ignore mode), `after_none` (every later legal history, further set_stream calls included,
  stays there and delivers nothing), `none_set_some_rejected`, `none_parse_reports_end` (`stream=0,
  end=true`), `none…

**Not proved as theorems — carried by the differential run + oracle, or trusted.**
* `set_stream(Some(non-input type))` hits a debug assertion: modelled as the panic it is in debug builds
* HeldBack under `parse` with NEW input: PROVED (Clauses 13–15, 21); `set_stream(None)`: covered (Clauses
  16–18, `Props/C18None.lean`); arbitrary-bytes chunk invariance after None: Clauses 19–20
  (`Props/C18None2.lean`: replies and unread bytes); OPEN only the `pay`/`pad` counter conjuncts of
  `C18N.none_chunk_invariance_full`; precondition of every call `new.length ≤ p.free` (the buffer fills up
  while waiting: `held_free_shrinks`)

-/

section
namespace Fcgi.C18
open Fcgi Fcgi.Str
open Fcgi.Req (Request PErr)
/-- the active stream starts at the first stream of the role (by definition of `from_parser`)  (= `Fcgi.C18.fromParser_stream`, `Props/C18.lean`) -/
def C18Clause1 : Prop :=
  ∀ (cap : Nat) (req : Request) (input : Bytes) (mc : Nat),
    (Parser.fromParser cap req input mc).stream = nextInputStream req.role none

theorem C18Clause1_holds : C18Clause1 := by
  unfold C18Clause1
  exact @fromParser_stream

end Fcgi.C18
end

section
namespace Fcgi.C18
open Fcgi Fcgi.Str
open Fcgi.Req (Request PErr)
/-- a selection is accepted iff it is the current stream, a later one of the role, or none  (= `Fcgi.C18.setStream_accept_iff`, `Props/C18.lean`) -/
def C18Clause2 : Prop :=
  ∀ {p : Parser} (hinv : SInv p) {s : Nat}
    (hs : RT.isInputStream s = true),
    ((∃ p', p.setStream (some s) = .ok p') ↔
      (p.stream = some s ∨ Later p.request.role p.stream s)) ∧
    (¬ (p.stream = some s ∨ Later p.request.role p.stream s) → p.setStream (some s) = .rejected)

theorem C18Clause2_holds : C18Clause2 := by
  unfold C18Clause2
  exact @setStream_accept_iff

end Fcgi.C18
end

section
namespace Fcgi.C18
open Fcgi Fcgi.Str
open Fcgi.Req (Request PErr)
/-- `set_stream` either returns `Ok` with the parser unchanged or switched, or `Err(SequenceError)` — which carries no parser (`&mut self` untouched) —, or hits the debug assertion  (= `Fcgi.C18.setStream_rejected_unchanged`, `Props/C18.lean`) -/
def C18Clause3 : Prop :=
  ∀ (p : Parser) (st : Option Nat),
    (∃ p', p.setStream st = .ok p' ∧ (p' = p ∨ p' = p.switchTo st)) ∨
    p.setStream st = .rejected ∨ ∃ site, p.setStream st = .panic site

theorem C18Clause3_holds : C18Clause3 := by
  unfold C18Clause3
  exact @setStream_rejected_unchanged

end Fcgi.C18
end

section
namespace Fcgi.C18
open Fcgi Fcgi.Str
open Fcgi.Req (Request PErr)
/-- re-selecting the current stream keeps buffered data  (= `Fcgi.C18.setStream_same_keeps`, `Props/C18.lean`) -/
def C18Clause4 : Prop :=
  ∀ {p : Parser} (hinv : SInv p),
    p.setStream p.stream = .ok p

theorem C18Clause4_holds : C18Clause4 := by
  unfold C18Clause4
  exact @setStream_same_keeps

end Fcgi.C18
end

section
namespace Fcgi.C18
open Fcgi Fcgi.Str
open Fcgi.Req (Request PErr)
/-- over any history the active stream only moves forward  (= `Fcgi.C18.active_mono_trace`, `Props/C18.lean`) -/
def C18Clause5 : Prop :=
  ∀ (p : Parser) (ops : List Op),
    (applyOps p ops).request = p.request ∧
    rankOf p.request.role p.stream ≤ rankOf p.request.role (applyOps p ops).stream ∧
    (p.stream = none → (applyOps p ops).stream = none)

theorem C18Clause5_holds : C18Clause5 := by
  unfold C18Clause5
  exact @active_mono_trace

end Fcgi.C18
end

section
namespace Fcgi.C18
open Fcgi Fcgi.Str
open Fcgi.Req (Request PErr)
/-- … and `none` is permanent  (= `Fcgi.C18.none_absorbing`, `Props/C18.lean`) -/
def C18Clause6 : Prop :=
  ∀ (p : Parser) (op : Op) (h : p.stream = none),
    (applyOp p op).stream = none

theorem C18Clause6_holds : C18Clause6 := by
  unfold C18Clause6
  exact @none_absorbing

end Fcgi.C18
end

section
namespace Fcgi.C18
open Fcgi Fcgi.Str
open Fcgi.Req (Request PErr)
/-- a whole loop iteration delivers stream data only if it starts in state `Stream` with payload outstanding: records of other streams/requests, management records and padding are never delivered  (= `Fcgi.C18.iter_only_active`, `Props/C18.lean`) -/
def C18Clause7 : Prop :=
  ∀ (p : Parser) (dest : Option Nat) (res : Status)
    (hs : p.state ≠ .stream ∨ p.pay = 0),
    StepNoData p dest res (iter p dest res)

theorem C18Clause7_holds : C18Clause7 := by
  unfold C18Clause7
  exact @iter_only_active

end Fcgi.C18
end

section
namespace Fcgi.C18
open Fcgi Fcgi.Str
open Fcgi.Req (Request PErr)
/-- `parse_head` enters state `Stream` only for a NON-EMPTY record of the ACTIVE stream of this request  (= `Fcgi.C18.head_activates`, `Props/C18.lean`) -/
def C18Clause8 : Prop :=
  ∀ {p p' : Parser} {dest d' : Option Nat} {res r' : Status} (hinv : SInv p)
    (h : parseHead p dest res = .cont p' d' r') (hs : p'.state = .stream),
    ∃ b0 b1 b2 b3 b4 b5 b6 b7 rest head,
      p.raw = b0 :: b1 :: b2 :: b3 :: b4 :: b5 :: b6 :: b7 :: rest ∧
      RecordHeader.fromBytes [b0, b1, b2, b3, b4, b5, b6, b7] = some (.ok head) ∧
      p.stream = some head.rtype ∧ head.requestId = p.request.id ∧ head.contentLength ≠ 0 ∧
      p'.pay = head.contentLength ∧ p'.pad = head.paddingLength ∧ p'.raw = rest

theorem C18Clause8_holds : C18Clause8 := by
  unfold C18Clause8
  exact @head_activates

end Fcgi.C18
end

section
namespace Fcgi.C18
open Fcgi Fcgi.Str
open Fcgi.Req (Request PErr)
/-- when `stream_end` is raised the header is NOT consumed: it is the empty record of the active stream or a record of a strictly LATER stream of this request  (= `Fcgi.C18.held_back`, `Props/C18.lean`) -/
def C18Clause9 : Prop :=
  ∀ {p p' : Parser} {dest : Option Nat} {res res' : Status} (hinv : SInv p)
    (h : parseHead p dest res = .stop p' res') (h1 : res'.streamEnd = true)
    (h0 : res.streamEnd = false),
    p' = p ∧ res' = { res with streamEnd := true } ∧ HeldBack p ∧
    ∃ b0 b1 b2 b3 b4 b5 b6 b7 rest head e,
      p.raw = b0 :: b1 :: b2 :: b3 :: b4 :: b5 :: b6 :: b7 :: rest ∧
      RecordHeader.fromBytes [b0, b1, b2, b3, b4, b5, b6, b7] = some (.ok head) ∧
      head.requestId = p.request.id ∧ p.stream = some e ∧
      ((head.rtype = e ∧ head.contentLength = 0) ∨ Later p.request.role (some e) head.rtype)

theorem C18Clause9_holds : C18Clause9 := by
  unfold C18Clause9
  exact @held_back

end Fcgi.C18
end

section
namespace Fcgi.C18
open Fcgi Fcgi.Str
open Fcgi.Req (Request PErr)
/-- … and every later `parse` without new input reports `stream_end` again, delivers nothing, leaves the parser as it is  (= `Fcgi.C18.held_back_repeats`, `Props/C18.lean`) -/
def C18Clause10 : Prop :=
  ∀ {p : Parser} (hinv : SInv p) (hb : p.isRecordBoundary = true)
    (h : HeldBack p) (dest : Option Nat) (hd : dest = none ∨ p.parsed = []),
    p.parse [] dest = (p, .ok { stream := 0, streamEnd := true, output := 0, delivered := [] })

theorem C18Clause10_holds : C18Clause10 := by
  unfold C18Clause10
  exact @held_back_repeats

end Fcgi.C18
end

section
namespace Fcgi.C18
open Fcgi Fcgi.Str
open Fcgi.Req (Request PErr)
/-- … also across `consume_stream` / `compress` / `consume_output` (HeldBack under NEW input: Clauses 13–15; formerly: no theorem)  (= `Fcgi.C18.held_back_persists`, `Props/C18.lean`) -/
def C18Clause11 : Prop :=
  ∀ {p : Parser} (hb : p.isRecordBoundary = true) (h : HeldBack p)
    (op : Op) (hop : (∃ n, op = .consumeStream n) ∨ op = .compress ∨ ∃ n, op = .consumeOutput n),
    (applyOp p op).isRecordBoundary = true ∧ HeldBack (applyOp p op)

theorem C18Clause11_holds : C18Clause11 := by
  unfold C18Clause11
  exact @held_back_persists

end Fcgi.C18
end

section
namespace Fcgi.C18
open Fcgi Fcgi.Str
open Fcgi.Req (Request PErr)
/-- `set_stream(None)` is always accepted  (= `Fcgi.C18.setStream_none_ok`, `Props/C18.lean`) -/
def C18Clause12 : Prop :=
  ∀ (p : Parser),
    ∃ p', p.setStream none = .ok p'

theorem C18Clause12_holds : C18Clause12 := by
  unfold C18Clause12
  exact @setStream_none_ok

end Fcgi.C18
end

section
namespace Fcgi.C18H
open Fcgi Fcgi.Str Fcgi.Spec
open Fcgi.Req (Request PErr)
/-- the held-back header under `parse` calls WITH NEW INPUT (any input, chunking, dest, interleaved consume/compress): still held back, nothing delivered, nothing answered, the unparsed bytes = old ++ everything fed  (= `Fcgi.C18H.held_under_new_input`, `Props/C18Held.lean`) -/
def C18Clause13 : Prop :=
  ∀ {p : Parser} (hinv : SInv p) (h : Held p) (ops : List Op)
    (hns : NoSet ops) (hl : LegalAll p ops),
    Held (applyOps p ops) ∧ SInv (applyOps p ops) ∧ Frozen p (applyOps p ops) (fedBytes ops) ∧
    availOps p ops = [] ∧ deliveredOps p ops = [] ∧ C03S.grownAll p ops = [] ∧ ¬ PanicsAny p ops

theorem C18Clause13_holds : C18Clause13 := by
  unfold C18Clause13
  exact @held_under_new_input

end Fcgi.C18H
end

section
namespace Fcgi.C18H
open Fcgi Fcgi.Str Fcgi.Spec
open Fcgi.Req (Request PErr)
/-- … the held-back record itself stays in place, unconsumed  (= `Fcgi.C18H.held_record_intact`, `Props/C18Held.lean`) -/
def C18Clause14 : Prop :=
  ∀ {p : Parser} (hinv : SInv p) (h : Held p) (ops : List Op)
    (hns : NoSet ops) (hl : LegalAll p ops),
    ∃ hdr rest, hdr.length = 8 ∧ p.raw = hdr ++ rest ∧ (applyOps p ops).raw = hdr ++ (rest ++ fedBytes ops)

theorem C18Clause14_holds : C18Clause14 := by
  unfold C18Clause14
  exact @held_record_intact

end Fcgi.C18H
end

section
namespace Fcgi.C18H
open Fcgi Fcgi.Str Fcgi.Spec
open Fcgi.Req (Request PErr)
/-- after `set_stream` advanced: what follows is the reference run on held-back record ++ input fed while held ++ input fed afterwards — nothing lost or duplicated  (= `Fcgi.C18H.advance_continues`, `Props/C18Held.lean`) -/
def C18Clause15 : Prop :=
  ∀ {p q' : Parser} (hinv : SInv p) (h : Held p) {A B : List Op} {s' : Nat}
    (hnA : NoSet A) (hlA : LegalAll p A)
    (hset : (applyOps p A).setStream (some s') = .ok q') (hne : some s' ≠ p.stream)
    (hnB : NoSet B) (hlB : LegalAll q' B) (hdr : Drained (applyOps q' B)),
    let E' : Cfg := ⟨p.request.id, p.request.role, s', p.maxConns⟩
    let w := p.raw ++ fedBytes A ++ fedBytes B
    C03SI.outcome q' B = C03SI.refOutcome E' w ∧
    (∃ lost, availOps q' B ++ lost = (refWire E' w).content ∧ (FirstErrInternal q' B → lost = [])) ∧
    deliveredOps q' B <+: (refWire E' w).content ∧
    (ErrFree q' B → deliveredOps q' B = (refWire E' w).content)

theorem C18Clause15_holds : C18Clause15 := by
  unfold C18Clause15
  exact @advance_continues

end Fcgi.C18H
end

section
namespace Fcgi.C18N
open Fcgi Fcgi.Str Fcgi.Spec
open Fcgi.Req (Request PErr)
/-- `set_stream(None)` from any state puts the parser in ignore mode (`Ign`)  (= `Fcgi.C18N.set_none_ign`, `Props/C18None.lean`) -/
def C18Clause16 : Prop :=
  ∀ {p : Parser} (h : StateOK p),
    Ign (applyOp p (.setStream none))

theorem C18Clause16_holds : C18Clause16 := by
  unfold C18Clause16
  exact @set_none_ign

end Fcgi.C18N
end

section
namespace Fcgi.C18N
open Fcgi Fcgi.Str Fcgi.Spec
open Fcgi.Req (Request PErr)
/-- … and every legal history after it stays there: nothing is delivered, later `set_stream(Some _)` is rejected  (= `Fcgi.C18N.after_none`, `Props/C18None.lean`) -/
def C18Clause17 : Prop :=
  ∀ {p : Parser} (hinv : SInv p) (h : StateOK p) {ops : List Op}
    (hl : LegalAll (applyOp p (.setStream none)) ops),
    Ign (applyOps (applyOp p (.setStream none)) ops) ∧
    deliveredOps (applyOp p (.setStream none)) ops = []

theorem C18Clause17_holds : C18Clause17 := by
  unfold C18Clause17
  exact @after_none

end Fcgi.C18N
end

section
namespace Fcgi.C18N
open Fcgi Fcgi.Str Fcgi.Spec
open Fcgi.Req (Request PErr)
/-- a held-back header is RELEASED by `set_stream(None)`: the next `parse` consumes it  (= `Fcgi.C18N.held_then_none_consumes`, `Props/C18None.lean`) -/
def C18Clause18 : Prop :=
  ∀ {p : Parser} (hinv : SInv p) (h : C18H.Held p) (d : Option Nat) (r : Status),
    let q := applyOp p (.setStream none)
    q.raw = p.raw ∧ q.output = p.output ∧ ¬ HeldBack q ∧ q.isRecordBoundary = true ∧
    ∃ q', parseHead q d r = .cont q' d r ∧ q'.raw.length + 8 = p.raw.length ∧ q'.state = .skip ∧
      q'.output = p.output ∧ q'.stream = none

theorem C18Clause18_holds : C18Clause18 := by
  unfold C18Clause18
  exact @held_then_none_consumes

end Fcgi.C18N
end

section
namespace Fcgi.C18N
open Fcgi Fcgi.Str Fcgi.Spec
open Fcgi.Req (Request PErr)
/-- after `set_stream(None)`, on ARBITRARY bytes and any legal drained history: the replies are exactly the reference's, the unread bytes the reference's remainder, the state terminal with the reference's verdict  (= `Fcgi.C18N.none_replies_ref`, `Props/C18None2.lean`) -/
def C18Clause19 : Prop :=
  ∀ {p : Parser} (hinv : SInv p) (hig : Ign p) (hb : p.isRecordBoundary = true)
    {ops : List Op} (hl : LegalAll p ops) (hns : NoSet ops) (hdr : Drained (applyOps p ops)),
    C03S.grownAll p ops = (refWire (cfgN p) (p.raw ++ fedBytes ops)).out ∧
    C03S.grownAll p ops = C04H.streamReplies (cfgN p) (p.raw ++ fedBytes ops) ∧
    (applyOps p ops).raw = (refWire (cfgN p) (p.raw ++ fedBytes ops)).unread ∧
    Terminal.verdictIs (cfgN p) (applyOps p ops) (refWire (cfgN p) (p.raw ++ fedBytes ops)).verdict ∧
    deliveredOps p ops = []

theorem C18Clause19_holds : C18Clause19 := by
  unfold C18Clause19
  exact @none_replies_ref

end Fcgi.C18N
end

section
namespace Fcgi.C18N
open Fcgi Fcgi.Str Fcgi.Spec
open Fcgi.Req (Request PErr)
/-- … so two drained histories over the same bytes agree on replies and unread bytes (chunk invariance after None, minus the `pay`/`pad` counters)  (= `Fcgi.C18N.none_chunk_invariance_partial`, `Props/C18None2.lean`) -/
def C18Clause20 : Prop :=
  ∀ (p : Parser) (ops₁ ops₂ : List Op) (hinv : SInv p) (hig : Ign p)
    (hb : p.isRecordBoundary = true) (hl₁ : LegalAll p ops₁) (hl₂ : LegalAll p ops₂)
    (hn₁ : NoSet ops₁) (hn₂ : NoSet ops₂) (hfed : fedBytes ops₁ = fedBytes ops₂)
    (hd₁ : Drained (applyOps p ops₁)) (hd₂ : Drained (applyOps p ops₂)),
    C03S.grownAll p ops₁ = C03S.grownAll p ops₂ ∧ (applyOps p ops₁).raw = (applyOps p ops₂).raw

theorem C18Clause20_holds : C18Clause20 := by
  unfold C18Clause20
  exact @none_chunk_invariance_partial

end Fcgi.C18N
end

section
namespace Fcgi.C18H
open Fcgi Fcgi.Str Fcgi.Spec
open Fcgi.Req (Request PErr)
namespace Example
open Fcgi.C18
/-- FINDING: management records arriving behind the held-back header are NOT answered until the caller advances (the expectation "answered by the call that feeds them" is refuted)  (= `Fcgi.C18H.Example.behind_answered_at_once_full_false`, `Props/C18Held.lean`) -/
def C18Clause21 : Prop :=
  ¬ behind_answered_at_once_full

theorem C18Clause21_holds : C18Clause21 := by
  unfold C18Clause21
  exact @behind_answered_at_once_full_false

end Example
end Fcgi.C18H
end

namespace Fcgi.Headline
/-- **C18** — see the section comment above for the clause-by-clause reading. -/
theorem C18_headline :
    Fcgi.C18.C18Clause1 ∧
    Fcgi.C18.C18Clause2 ∧
    Fcgi.C18.C18Clause3 ∧
    Fcgi.C18.C18Clause4 ∧
    Fcgi.C18.C18Clause5 ∧
    Fcgi.C18.C18Clause6 ∧
    Fcgi.C18.C18Clause7 ∧
    Fcgi.C18.C18Clause8 ∧
    Fcgi.C18.C18Clause9 ∧
    Fcgi.C18.C18Clause10 ∧
    Fcgi.C18.C18Clause11 ∧
    Fcgi.C18.C18Clause12 ∧
    Fcgi.C18H.C18Clause13 ∧
    Fcgi.C18H.C18Clause14 ∧
    Fcgi.C18H.C18Clause15 ∧
    Fcgi.C18N.C18Clause16 ∧
    Fcgi.C18N.C18Clause17 ∧
    Fcgi.C18N.C18Clause18 ∧
    Fcgi.C18N.C18Clause19 ∧
    Fcgi.C18N.C18Clause20 ∧
    Fcgi.C18H.Example.C18Clause21 :=
  ⟨Fcgi.C18.C18Clause1_holds, Fcgi.C18.C18Clause2_holds, Fcgi.C18.C18Clause3_holds, Fcgi.C18.C18Clause4_holds, Fcgi.C18.C18Clause5_holds, Fcgi.C18.C18Clause6_holds, Fcgi.C18.C18Clause7_holds, Fcgi.C18.C18Clause8_holds, Fcgi.C18.C18Clause9_holds, Fcgi.C18.C18Clause10_holds, Fcgi.C18.C18Clause11_holds, Fcgi.C18.C18Clause12_holds, Fcgi.C18H.C18Clause13_holds, Fcgi.C18H.C18Clause14_holds, Fcgi.C18H.C18Clause15_holds, Fcgi.C18N.C18Clause16_holds, Fcgi.C18N.C18Clause17_holds, Fcgi.C18N.C18Clause18_holds, Fcgi.C18N.C18Clause19_holds, Fcgi.C18N.C18Clause20_holds, Fcgi.C18H.Example.C18Clause21_holds⟩
end Fcgi.Headline


/-! # C19

**Property.**
> For all strings, the borrowed and owned variable-name types compare equal exactly when the strings are
> equal ignoring ASCII case, order as a total order consistent with that equality, and hash identically
> whenever equal - whichever constructor, representation (interned or custom) or letter case produced them -
> so a map lookup by any spelling finds the entry. Normalising constructors yield the ASCII-uppercased
> string, interned names read back as their canonical spelling, and an HTTP header name maps to HTTP_
> followed by the uppercased name with dashes replaced by underscores.

**Clause by clause.**
* “equal exactly when equal ignoring ASCII case; total order consistent with it; hash identically” — Clauses
  1–4, 9 (`cmp_swap`: antisymmetry/totality), 10 (`owned_cmp`: the owned order is the borrowed one).
* “a map lookup by any spelling finds the entry” — Clause 5 (= the Eq/Hash/Ord contract for any two
  constructors and spellings; maps themselves are not modelled).
* “normalising constructors, interned names, HTTP header names” — Clauses 6–8.

**The conjuncts of `C19_headline`.**
1. `C19.owned_eq_iff` — equal iff equal ignoring ASCII case, whichever constructor/representation
2. `C19.owned_cmp_eq_iff` — the order is consistent with that equality
3. `C19.cmp_trans` — ≤-transitivity of the borrowed order
4. `C19.owned_hash_congr` — equal names hash identically
5. `C19.lookup_any_spelling` — a map lookup by any spelling finds the entry
6. `C19.ctor_upper_asRef` — every constructor preserves the uppercased string: `upper (c.apply s).asRef =
   upper s` (the normalising ones yield it literally: `fromCompact_asRef`, `fromStr_asRef`)
7. `C19.static_reads_canonical` — interned names read back as their canonical spelling (by definition of the
   table)
8. `C19.header_name_map` — HTTP header name ↦ HTTP_ ++ uppercased, dashes to underscores
9. `C19.cmp_swap` — antisymmetry/totality: swapping the arguments swaps the outcome
10. `C19.owned_cmp` — the owned order (incl. the Static×Static fast path) IS the case-insensitive order of
   the strings

**Modelling assumptions (obligations.json).**
* strum EnumString/IntoStaticStr = exact lookup in the generated table (confirmed against the compiled crate
  every run: every extracted name parses and reads back)
* str modelled by its UTF-8 bytes; theorems hold for all byte lists (a superset of all strings)
* 'arbitrary hashers': equality of the recorded write-call sequences

**Not proved as theorems — carried by the differential run + oracle, or trusted.**
* strings are modelled by their UTF-8 bytes (theorems hold for all byte lists); 'arbitrary hashers' =
  equality of the recorded write-call sequences; the strum table is confirmed against the compiled crate
  every run

-/

section
namespace Fcgi.C19
open Fcgi Fcgi.CgiName
/-- equal iff equal ignoring ASCII case, whichever constructor/representation  (= `Fcgi.C19.owned_eq_iff`, `Props/C19.lean`) -/
def C19Clause1 : Prop :=
  ∀ {x y : CgiName.Owned} (hx : WF x) (hy : WF y),
    x.eq y = true ↔ upper x.asRef = upper y.asRef

theorem C19Clause1_holds : C19Clause1 := by
  unfold C19Clause1
  exact @owned_eq_iff

end Fcgi.C19
end

section
namespace Fcgi.C19
open Fcgi Fcgi.CgiName
/-- the order is consistent with that equality  (= `Fcgi.C19.owned_cmp_eq_iff`, `Props/C19.lean`) -/
def C19Clause2 : Prop :=
  ∀ {x y : CgiName.Owned} (hx : WF x) (hy : WF y),
    x.cmp y = .eq ↔ x.eq y = true

theorem C19Clause2_holds : C19Clause2 := by
  unfold C19Clause2
  exact @owned_cmp_eq_iff

end Fcgi.C19
end

section
namespace Fcgi.C19
open Fcgi Fcgi.CgiName
/-- ≤-transitivity of the borrowed order  (= `Fcgi.C19.cmp_trans`, `Props/C19.lean`) -/
def C19Clause3 : Prop :=
  ∀ (a b c : Bytes) (h1 : CgiName.cmp a b ≠ .gt) (h2 : CgiName.cmp b c ≠ .gt),
    CgiName.cmp a c ≠ .gt

theorem C19Clause3_holds : C19Clause3 := by
  unfold C19Clause3
  exact @cmp_trans

end Fcgi.C19
end

section
namespace Fcgi.C19
open Fcgi Fcgi.CgiName
/-- equal names hash identically  (= `Fcgi.C19.owned_hash_congr`, `Props/C19.lean`) -/
def C19Clause4 : Prop :=
  ∀ {x y : CgiName.Owned} (hx : WF x) (hy : WF y) (h : x.eq y = true),
    x.hashWrites = y.hashWrites

theorem C19Clause4_holds : C19Clause4 := by
  unfold C19Clause4
  exact @owned_hash_congr

end Fcgi.C19
end

section
namespace Fcgi.C19
open Fcgi Fcgi.CgiName
/-- a map lookup by any spelling finds the entry  (= `Fcgi.C19.lookup_any_spelling`, `Props/C19.lean`) -/
def C19Clause5 : Prop :=
  ∀ (c1 c2 : Ctor) (a b : Bytes) (h : upper a = upper b),
    (c1.apply a).eq (c2.apply b) = true ∧
    (c1.apply a).hashWrites = (c2.apply b).hashWrites ∧
    (c1.apply a).cmp (c2.apply b) = .eq

theorem C19Clause5_holds : C19Clause5 := by
  unfold C19Clause5
  exact @lookup_any_spelling

end Fcgi.C19
end

section
namespace Fcgi.C19
open Fcgi Fcgi.CgiName
/-- every constructor preserves the uppercased string: `upper (c.apply s).asRef = upper s` (the normalising ones yield it literally: `fromCompact_asRef`, `fromStr_asRef`)  (= `Fcgi.C19.ctor_upper_asRef`, `Props/C19.lean`) -/
def C19Clause6 : Prop :=
  ∀ (c : Ctor) (s : Bytes),
    upper (c.apply s).asRef = upper s

theorem C19Clause6_holds : C19Clause6 := by
  unfold C19Clause6
  exact @ctor_upper_asRef

end Fcgi.C19
end

section
namespace Fcgi.C19
open Fcgi Fcgi.CgiName
/-- interned names read back as their canonical spelling (by definition of the table)  (= `Fcgi.C19.static_reads_canonical`, `Props/C19.lean`) -/
def C19Clause7 : Prop :=
  ∀ {i : Nat} (_h : i < CgiName.table.length),
    (CgiName.Owned.static i).asRef = CgiName.table.getD i []

theorem C19Clause7_holds : C19Clause7 := by
  unfold C19Clause7
  exact @static_reads_canonical

end Fcgi.C19
end

section
namespace Fcgi.C19
open Fcgi Fcgi.CgiName
/-- HTTP header name ↦ HTTP_ ++ uppercased, dashes to underscores  (= `Fcgi.C19.header_name_map`, `Props/C19.lean`) -/
def C19Clause8 : Prop :=
  ∀ (h : Bytes),
    (CgiName.fromHeaderName h).asRef =
      upper ("HTTP_".toUTF8.toList ++ h.map (fun b => if b == 45 then 95 else b))

theorem C19Clause8_holds : C19Clause8 := by
  unfold C19Clause8
  exact @header_name_map

end Fcgi.C19
end

section
namespace Fcgi.C19
open Fcgi Fcgi.CgiName
/-- antisymmetry/totality: swapping the arguments swaps the outcome  (= `Fcgi.C19.cmp_swap`, `Props/C19.lean`) -/
def C19Clause9 : Prop :=
  ∀ (a b : Bytes),
    CgiName.cmp b a = (CgiName.cmp a b).swap

theorem C19Clause9_holds : C19Clause9 := by
  unfold C19Clause9
  exact @cmp_swap

end Fcgi.C19
end

section
namespace Fcgi.C19
open Fcgi Fcgi.CgiName
/-- the owned order (incl. the Static×Static fast path) IS the case-insensitive order of the strings  (= `Fcgi.C19.owned_cmp`, `Props/C19.lean`) -/
def C19Clause10 : Prop :=
  ∀ {x y : CgiName.Owned} (hx : WF x) (hy : WF y),
    x.cmp y = CgiName.cmp x.asRef y.asRef

theorem C19Clause10_holds : C19Clause10 := by
  unfold C19Clause10
  exact @owned_cmp

end Fcgi.C19
end

namespace Fcgi.Headline
/-- **C19** — see the section comment above for the clause-by-clause reading. -/
theorem C19_headline :
    Fcgi.C19.C19Clause1 ∧
    Fcgi.C19.C19Clause2 ∧
    Fcgi.C19.C19Clause3 ∧
    Fcgi.C19.C19Clause4 ∧
    Fcgi.C19.C19Clause5 ∧
    Fcgi.C19.C19Clause6 ∧
    Fcgi.C19.C19Clause7 ∧
    Fcgi.C19.C19Clause8 ∧
    Fcgi.C19.C19Clause9 ∧
    Fcgi.C19.C19Clause10 :=
  ⟨Fcgi.C19.C19Clause1_holds, Fcgi.C19.C19Clause2_holds, Fcgi.C19.C19Clause3_holds, Fcgi.C19.C19Clause4_holds, Fcgi.C19.C19Clause5_holds, Fcgi.C19.C19Clause6_holds, Fcgi.C19.C19Clause7_holds, Fcgi.C19.C19Clause8_holds, Fcgi.C19.C19Clause9_holds, Fcgi.C19.C19Clause10_holds⟩
end Fcgi.Headline


/-! # C20

**Property.**
> For every status code and header list, the header writer emits exactly a status line 'Status: <code>
> <reason>', one 'name: value' line per header in the given order and a blank line; the redirect writer
> emits exactly a Location line and a blank line; and both return precisely the number of bytes they wrote.
> When the destination runs out of space they fail instead of reporting success.

**Clause by clause.**
* “the header writer / redirect writer emit exactly … and return the number of bytes” — Clauses 1–4.
* “when the destination runs out of space they fail” — Clauses 5–8 (`slice_ok_iff`: success EXACTLY when
  everything fits).

**The conjuncts of `C20_headline`.**
1. `C20.headers_bytes` — the header writer emits exactly status line, one line per header, blank line
   (`reason` is a free parameter: the code→reason table is a trusted external; header name `status` excluded,
   see the remark)
2. `C20.count_eq_len` — … and returns the number of bytes written
3. `C20.redirect_bytes` — the redirect writer emits exactly a Location line and a blank line
4. `C20.redirect_count_eq_len` — … and returns the number of bytes written
5. `C20.short_dest_fails` — a destination too short makes the header writer fail
6. `C20.redirect_short_dest_fails` — … and the redirect writer
7. `C20.slice_ok_iff` — success on a slice happens EXACTLY when the whole output fits
8. `C20.fits_ok` — … and then the output is exactly the bytes, count included

**Modelling assumptions (obligations.json).**
* std Write for Vec<u8>/&mut [u8] as in Model/Sink.lean
* http::StatusCode::{as_str, canonical_reason} are trusted externals
* documented precondition of write_headers: the header name `Status` (any letter case) must not occur in the
  header list — 'verified by a debug assertion' (src/cgi/response.rs); the theorems quantify over header
  lists, and 'every header list' of the property is read modulo this precondition; the harness (debug
  assertions on) ch…

**Not proved as theorems — carried by the differential run + oracle, or trusted.**
* REMARK (model/source discrepancy found by the review): `src/cgi/response.rs:81` has
  `debug_assert!(!name.eq_ignore_ascii_case(b"status"))`; the model `Response.writeHeaders` has no such
  panic, so for header lists containing a name `status` (any case) Clauses 1–2 claim success where a DEBUG
  build panics — the clauses must be read with the precondition 'no header named Status' (the harness is a
  release build)
* `http::StatusCode::{as_str, canonical_reason}` are trusted externals; `reason` is a free parameter of the
  clauses

-/

section
namespace Fcgi.C20
open Fcgi Fcgi.Response
/-- the header writer emits exactly status line, one line per header, blank line (`reason` is a free parameter: the code→reason table is a trusted external; header name `status` excluded, see the remark)  (= `Fcgi.C20.headers_bytes`, `Props/C20.lean`) -/
def C20Clause1 : Prop :=
  ∀ (pre : Bytes) (code : Nat) (reason : Option Bytes) (hs : List (Bytes × Bytes)),
    Response.writeHeaders (Sink.vec pre) code reason hs =
      ({ cap := none, out := pre ++ headersOutput code reason hs },
        some (headersOutput code reason hs).length)

theorem C20Clause1_holds : C20Clause1 := by
  unfold C20Clause1
  exact @headers_bytes

end Fcgi.C20
end

section
namespace Fcgi.C20
open Fcgi Fcgi.Response
/-- … and returns the number of bytes written  (= `Fcgi.C20.count_eq_len`, `Props/C20.lean`) -/
def C20Clause2 : Prop :=
  ∀ (w w' : Sink) (code n : Nat) (reason : Option Bytes) (hs : List (Bytes × Bytes))
    (h : Response.writeHeaders w code reason hs = (w', some n)),
    w'.out = w.out ++ headersOutput code reason hs ∧ n = (headersOutput code reason hs).length

theorem C20Clause2_holds : C20Clause2 := by
  unfold C20Clause2
  exact @count_eq_len

end Fcgi.C20
end

section
namespace Fcgi.C20
open Fcgi Fcgi.Response
/-- the redirect writer emits exactly a Location line and a blank line  (= `Fcgi.C20.redirect_bytes`, `Props/C20.lean`) -/
def C20Clause3 : Prop :=
  ∀ (pre loc : Bytes),
    Response.simpleRedirect (Sink.vec pre) loc =
      ({ cap := none, out := pre ++ Response.location ++ loc ++ [10, 10] },
        some (Response.location.length + loc.length + 2)) ∧
    Response.location.length + loc.length + 2 = (Response.location ++ loc ++ [10, 10]).length

theorem C20Clause3_holds : C20Clause3 := by
  unfold C20Clause3
  exact @redirect_bytes

end Fcgi.C20
end

section
namespace Fcgi.C20
open Fcgi Fcgi.Response
/-- … and returns the number of bytes written  (= `Fcgi.C20.redirect_count_eq_len`, `Props/C20.lean`) -/
def C20Clause4 : Prop :=
  ∀ (w w' : Sink) (n : Nat) (loc : Bytes)
    (h : Response.simpleRedirect w loc = (w', some n)),
    w'.out = w.out ++ redirectOutput loc ∧ n = (redirectOutput loc).length

theorem C20Clause4_holds : C20Clause4 := by
  unfold C20Clause4
  exact @redirect_count_eq_len

end Fcgi.C20
end

section
namespace Fcgi.C20
open Fcgi Fcgi.Response
/-- a destination too short makes the header writer fail  (= `Fcgi.C20.short_dest_fails`, `Props/C20.lean`) -/
def C20Clause5 : Prop :=
  ∀ (c code : Nat) (reason : Option Bytes) (hs : List (Bytes × Bytes))
    (h : c < (headersOutput code reason hs).length),
    Response.writeHeaders (Sink.slice c) code reason hs =
      ({ cap := some 0, out := (headersOutput code reason hs).take c }, none)

theorem C20Clause5_holds : C20Clause5 := by
  unfold C20Clause5
  exact @short_dest_fails

end Fcgi.C20
end

section
namespace Fcgi.C20
open Fcgi Fcgi.Response
/-- … and the redirect writer  (= `Fcgi.C20.redirect_short_dest_fails`, `Props/C20.lean`) -/
def C20Clause6 : Prop :=
  ∀ (c : Nat) (loc : Bytes) (h : c < (redirectOutput loc).length),
    Response.simpleRedirect (Sink.slice c) loc =
      ({ cap := some 0, out := (redirectOutput loc).take c }, none)

theorem C20Clause6_holds : C20Clause6 := by
  unfold C20Clause6
  exact @redirect_short_dest_fails

end Fcgi.C20
end

section
namespace Fcgi.C20
open Fcgi Fcgi.Response
/-- success on a slice happens EXACTLY when the whole output fits  (= `Fcgi.C20.slice_ok_iff`, `Props/C20.lean`) -/
def C20Clause7 : Prop :=
  ∀ (c code : Nat) (reason : Option Bytes) (hs : List (Bytes × Bytes)),
    (Response.writeHeaders (Sink.slice c) code reason hs).2.isSome ↔
      (headersOutput code reason hs).length ≤ c

theorem C20Clause7_holds : C20Clause7 := by
  unfold C20Clause7
  exact @slice_ok_iff

end Fcgi.C20
end

section
namespace Fcgi.C20
open Fcgi Fcgi.Response
/-- … and then the output is exactly the bytes, count included  (= `Fcgi.C20.fits_ok`, `Props/C20.lean`) -/
def C20Clause8 : Prop :=
  ∀ (c code : Nat) (reason : Option Bytes) (hs : List (Bytes × Bytes))
    (h : (headersOutput code reason hs).length ≤ c),
    Response.writeHeaders (Sink.slice c) code reason hs =
      ({ cap := some (c - (headersOutput code reason hs).length),
         out := headersOutput code reason hs },
        some (headersOutput code reason hs).length)

theorem C20Clause8_holds : C20Clause8 := by
  unfold C20Clause8
  exact @fits_ok

end Fcgi.C20
end

namespace Fcgi.Headline
/-- **C20** — see the section comment above for the clause-by-clause reading. -/
theorem C20_headline :
    Fcgi.C20.C20Clause1 ∧
    Fcgi.C20.C20Clause2 ∧
    Fcgi.C20.C20Clause3 ∧
    Fcgi.C20.C20Clause4 ∧
    Fcgi.C20.C20Clause5 ∧
    Fcgi.C20.C20Clause6 ∧
    Fcgi.C20.C20Clause7 ∧
    Fcgi.C20.C20Clause8 :=
  ⟨Fcgi.C20.C20Clause1_holds, Fcgi.C20.C20Clause2_holds, Fcgi.C20.C20Clause3_holds, Fcgi.C20.C20Clause4_holds, Fcgi.C20.C20Clause5_holds, Fcgi.C20.C20Clause6_holds, Fcgi.C20.C20Clause7_holds, Fcgi.C20.C20Clause8_holds⟩
end Fcgi.Headline
