import Fcgi.Proofs.E2EGate2
import Fcgi.Props.C09Gate
/-!
# C09 — the output gate of a Filter end to end: `writeable(); open Stdout; write_all(data); return`, Data unread

`Props/C09Gate.filter_gate_e2e` covers the run up to the poll in which `writeable()` returns.  This file covers the
WHOLE run for the handler

  `writeable().await; let w = output_stream(Stdout); w.write_all(data).await; drop(w); return st`

of a Filter request (the Data stream is never read).  `filter_gate_write_e2e`: over any preamble / Stdin / Data
segmentation and noise (within the C06 buffer bound; no BeginRequest record inside Data, as in `unread_filter_e2e`) and
any benign transport, for EVERY `data` (no size or fuel side condition): one handler start, and the log is

  `t.wlog ++ owedPreamble ++ O₁ ++ streamRecords 6 id data ++ O₂ ++ epilogue id st (++ idleOwed s₂ if KEEP_CONN)`

with `O₁ ++ O₂ = owedStream id 5 mc srecs ++ owedStream id 8 mc d₁`, `drecs = d₁ ++ s₂`: the Stdout records of the
handler stand inside the sequence of replies owed for the Stdin noise and the noise of the Data records `d₁` that the
request consumed (`O₁` before the gate — `Props/C09Gate`: by then the transport had delivered all of Stdin including
its terminator — `O₂` flushed by `close`), then the epilogue with the empty Stdout and Stderr records, then (KEEP_CONN)
the replies the next `parse_request` owes for the left-over Data records `s₂`.  Final state: `RET`/`STALL` as in
`unread_filter_e2e`; without KEEP_CONN the task returns after the epilogue.

No ledger is needed for this shape: after the gate `close` only READS up to the next record boundary
(`record_boundary()`), all replies still queued are written by `close` in one piece.
-/
namespace Fcgi.C09G
open Fcgi Fcgi.Req Fcgi.Str Fcgi.Async Fcgi.Run Fcgi.Spec Fcgi.E2E Fcgi.C07E Fcgi.C07U

/-- the configuration of a Filter request whose handler is `writeable; open 6; write_all data; drop; ret st` -/
def cfgG2 (p : Preamble) (recs : List Rec) (content : Bytes) (body : List Rec) (pad : Bytes) (res : UInt8)
    (content2 : Bytes) (body2 : List Rec) (pad2 : Bytes) (res2 : UInt8)
    (b mc : Nat) (data : Bytes) (st : ExitStatus) (L0 : Bytes) (h : Nat) (more : List (List HOp × Bool)) : E2E.Cfg :=
  { cfgFG p recs content body pad res content2 body2 pad2 res2 b mc st L0 h more with
    hscript := .writeable :: gateRest data st }

structure GateWriteOutcome (p : Preamble) (recs srecs drecs d₁ s₂ : List Rec) (O₁ O₂ data : Bytes)
    (b mc : Nat) (st : ExitStatus) (more : List (List HOp × Bool)) (t : Transport) (c' : Conn) (fin : String) :
    Prop where
  split : drecs = d₁ ++ s₂
  one_handler : hsCount c'.env.tr.events = 1 ∧ startEvent p.request ∈ c'.env.tr.events
  /-- the replies around the handler's records are exactly those owed for Stdin and the consumed Data records -/
  owed : O₁ ++ O₂ = owedStream p.id 5 mc srecs ++ owedStream p.id 8 mc d₁
  log : c'.env.tr.wlog = t.wlog ++ (owedPreamble p mc recs ++ O₁ ++ streamRecords 6 p.id data ++ O₂ ++
    epilogue p.id st ++ (if p.flags.toNat % 2 = 1 then idleOwed mc s₂ else []))
  scripts : c'.scripts = more
  final : (p.flags.toNat % 2 = 0 ∧ fin = "RET" ∧ c'.phase = .finished) ∨
          (p.flags.toNat % 2 = 1 ∧ t.endMode = .eof ∧ fin = "RET" ∧ c'.phase = .finished) ∨
          (p.flags.toNat % 2 = 1 ∧ t.endMode = .pend ∧ fin = "STALL" ∧
            c'.phase = .parseReq (track (alignedBufsize b) mc (serAll s₂)) .reading ∧
            c'.env.tr.input = [] ∧ c'.env.mutex = none ∧ c'.stop = false ∧ Ben c'.env.tr)

theorem gled_eq {p : Preamble} {recs : List Rec} {content : Bytes} {body : List Rec} {pad : Bytes} {res : UInt8}
    {content2 : Bytes} {body2 : List Rec} {pad2 : Bytes} {res2 : UInt8}
    {b mc : Nat} {data : Bytes} {st : ExitStatus} {L0 : Bytes} {h : Nat} {more : List (List HOp × Bool)} {d1 : List Rec}
    {Lf : Bytes}
    (hl : GLed (cfgG2 p recs content body pad res content2 body2 pad2 res2 b mc data st L0 h more) data d1 Lf) :
    ∃ O1 O2, O1 ++ O2 =
        owedStream p.id 5 mc (body ++ [{ rtype := UInt8.ofNat 5, id := p.id, content := [], pad := pad, reserved := res }]) ++
          owedStream p.id 8 mc d1 ∧
      Lf = L0 ++ (owedPreamble p mc recs ++ O1 ++ streamRecords 6 p.id data ++ O2 ++ epilogue p.id st) := by
  obtain ⟨O1, O2, h1, h2⟩ := hl
  refine ⟨O1, O2, ?_, ?_⟩
  · have h1' : O1 ++ O2 =
        owedI p.id mc ((body ++ [{ rtype := 5, id := p.id, content := [], pad := pad, reserved := res }]) ++ d1) := h1
    rw [h1', ← owedI_eq_owedStream, ← owedI_eq_owedStream8]
    simp only [owedI, List.flatMap_append]
    rfl
  · have h2' : Lf = (L0 ++ owedPreamble p mc recs) ++ O1 ++ streamRecords 6 p.id data ++ O2 ++
        makeRequestEpilogue p.id st [RT.stdout, RT.stderr] := h2
    rw [h2', epilogue_eq]
    simp only [List.append_assoc]

/-- **C09 end to end: a Filter that awaits `writeable()`, writes to Stdout and returns, its Data stream unread.** -/
theorem filter_gate_write_e2e {p : Preamble} {recs : List Rec} {content : Bytes} {srecs : List Rec}
    {content2 : Bytes} {drecs : List Rec} {data : Bytes}
    {b mc : Nat} {st : ExitStatus} {more : List (List HOp × Bool)} {t : Transport} {fuel : Nat}
    (hwf : WellFormedPreamble p recs) (hrole : p.role = 3)
    (hpairs : ∀ q ∈ p.pairs, (NV.enc q).length ≤ alignedBufsize b)
    (hnoise : NoiseFits (alignedBufsize b) recs)
    (hs : StreamRecs p.id 5 content srecs) (hsn : NoiseFits (alignedBufsize b) srecs)
    (hd : StreamRecs p.id 8 content2 drecs) (hdn : NoiseFits (alignedBufsize b) drecs)
    (hnb : ∀ r ∈ drecs, r.rtype.toNat ≠ RT.beginRequest)
    (hin : t.input = serAll recs ++ (serAll srecs ++ serAll drecs)) (hben : Ben t) (hev : hsCount t.events = 0)
    (hfuel : t.rd.length + t.wr.length + 1 ≤ fuel) :
    ∃ c' fin d₁ s₂ O₁ O₂,
      runTask fuel (connS b mc t ((.writeable :: gateRest data st, true) :: more)) 0 none = (c', fin) ∧
      GateWriteOutcome p recs srecs drecs d₁ s₂ O₁ O₂ data b mc st more t c' fin := by
  have hid := (pid_of_wf hwf).2
  have hidle : ∀ r ∈ drecs, IdleNoise r := idle_of_noBegin (streamRecs_wf hid (by decide) hd) hnb
  obtain ⟨body, pad, res, hpad, hbody, hsrecs⟩ := StreamRecs.split hs
  obtain ⟨body2, pad2, res2, hpad2, hbody2, hdrecs⟩ := StreamRecs.split hd
  subst hsrecs hdrecs
  have fg := fgok_of (mc := mc) (st := st) t.wlog 0 more hwf hrole hpairs hnoise hs hsn hpad2 hbody2 hd hdn
  have ok : GOK (cfgG2 p recs content body pad res content2 body2 pad2 res2 b mc data st t.wlog 0 more)
      (gateRest data st) :=
    ⟨hwf, hrole, hpairs, hnoise, fg.str, fg.hf, fg.hb2, fg.str2, fg.hf2, fg.hp2, rfl, rfl, rfl⟩
  have hmem : ∀ d1 s2 : List Rec, (cfgG2 p recs content body pad res content2 body2 pad2 res2 b mc data st t.wlog 0 more).R2 =
      d1 ++ s2 → ∀ e ∈ s2,
      e ∈ body2 ++ [{ rtype := UInt8.ofNat 8, id := p.id, content := [], pad := pad2, reserved := res2 }] := by
    intro d1 s2 hsp e he
    have : e ∈ (cfgG2 p recs content body pad res content2 body2 pad2 res2 b mc data st t.wlog 0 more).R2 := by
      rw [hsp]; exact List.mem_append_right _ he
    exact this
  have hgood : ∀ d1 s2 : List Rec, (cfgG2 p recs content body pad res content2 body2 pad2 res2 b mc data st t.wlog 0 more).R2 =
      d1 ++ s2 → GoodNext (alignedBufsize b) mc s2 (serAll dummyRecs ++ []) := fun d1 s2 hsp =>
    idle_front dummy_wf b mc (fun q hq => by cases hq) (dummy_fits _) (fun e he => hidle e (hmem d1 s2 hsp e he))
      (fun e he hg => hdn e (hmem d1 s2 hsp e he) hg) []
  have hst : FStage (cfgG2 p recs content body pad res content2 body2 pad2 res2 b mc data st t.wlog 0 more)
      (connS b mc t ((.writeable :: gateRest data st, true) :: more)) :=
    .start (raw := []) rfl (by
      show [] ++ t.input = _
      rw [hin, C02.serAll_append, C02.serAll_single, C02.serAll_append, C02.serAll_single, List.append_assoc (serAll body)]
      rfl) (Nat.zero_le _) rfl hben rfl rfl rfl hev
  obtain ⟨c', fin, hrun, hres⟩ :=
    run_gate2 ok (Z := serAll dummyRecs ++ []) (fun d1 s2 h => (hgood d1 s2 h).1) (fun d1 s2 h => (hgood d1 s2 h).2)
      t.endMode [] _ 0 fuel hst rfl (fun s hs => by cases hs) rfl (by show ans t + 1 ≤ fuel; unfold ans; omega)
  rcases hres with ⟨⟨d1, s2, Lf⟩, ⟨hsp, hkeep, hled⟩, hkp, hem, _, _, _, hend⟩ | ⟨hfin, ⟨d1, s2, Lf, hsp, hled, hfu⟩, _, _⟩
  · have hsp' : body2 ++ [{ rtype := UInt8.ofNat 8, id := p.id, content := [], pad := pad2, reserved := res2 }] = d1 ++ s2 := hsp
    have hs2 : ∀ e ∈ s2, IdleNoise e := fun e he => hidle e (hmem d1 s2 hsp e he)
    have hkeep' : p.flags.toNat % 2 = 1 := hkeep
    have hled' : GLed (cfgG2 p recs content body pad res content2 body2 pad2 res2 b mc data st t.wlog 0 more) data d1 Lf := hled
    obtain ⟨O1, O2, hO, hLf⟩ := gled_eq hled'
    have hout : ∀ F, F ++ (serAll dummyRecs ++ []) = serAll s2 ++ (serAll dummyRecs ++ []) →
        Lf ++ (run .header F mc).out =
        t.wlog ++ (owedPreamble p mc recs ++ O1 ++ streamRecords 6 p.id data ++ O2 ++ epilogue p.id st ++
          (if p.flags.toNat % 2 = 1 then idleOwed mc s2 else [])) := by
      intro F hF
      rw [List.append_cancel_right hF, (run_idle_out mc s2 hs2).1, hLf, if_pos hkeep']
      simp only [List.append_assoc]
    refine ⟨c', fin, d1, s2, O1, O2, hrun, hsp', ⟨hkp.hs, hkp.ev _ List.mem_cons_self⟩, hO, ?_, hkp.sc, ?_⟩
    · rcases hend with ⟨_, hp⟩ | ⟨_, hf⟩
      · obtain ⟨F, hF, _, _, hlg⟩ := hp.pst
        exact hlg.trans (hout F hF)
      · obtain ⟨F, hF, hlg⟩ := hf.log
        exact hlg.trans (hout F hF)
    · rcases hend with ⟨rfl, hp⟩ | ⟨rfl, hf⟩
      · obtain ⟨F, hF, hps, hph, _⟩ := hp.pst
        have hFe : F = serAll s2 := List.append_cancel_right hF
        subst hFe
        exact Or.inr (Or.inr ⟨hkeep', hem.symm.trans hp.em, rfl, hph, hp.inp, hkp.mx, hps.stop, hps.ben⟩)
      · exact Or.inr (Or.inl ⟨hkeep', hem.symm.trans hf.em, rfl, hf.ph⟩)
  · have hsp' : body2 ++ [{ rtype := UInt8.ofNat 8, id := p.id, content := [], pad := pad2, reserved := res2 }] = d1 ++ s2 := hsp
    obtain ⟨O1, O2, hO, hLf⟩ := gled_eq hled
    have hnk : p.flags.toNat % 2 = 0 := hfu.nokeep
    refine ⟨c', fin, d1, s2, O1, O2, hrun, hsp', ⟨hfu.ev.1, hfu.ev.2⟩, hO, ?_, hfu.sc, Or.inl ⟨hnk, hfin, hfu.ph⟩⟩
    rw [hfu.log, hLf, if_neg (by omega), List.append_nil]

/-! ## Non-vacuity -/
namespace Example2
open Fcgi.C01.Example Fcgi.C07E.Example Fcgi.C07U.Example

/-- the KEEP_CONN Filter request of `Props/C07Unread3`; Stdin `nS` (a `GetValues` record, `"ABC"`, an unknown-type
record, the terminator — replies owed), Data `fD` (a `GetValues` record, `"xyz"`, the terminator); short reads and
writes with `Pending`s -/
def gwT : Transport :=
  { input := serAll recsFK ++ (serAll nS ++ serAll fD), endMode := .pend,
    rd := [.n 20, .pending, .n 30, .n 1, .pending, .n 7, .all], wr := [.n 5, .pending, .n 3, .pending, .all], fl := [] }

example : ∃ c' d₁ s₂ O₁ O₂,
    runTask 20 (connS 64 10 gwT [(.writeable :: gateRest [104, 105] (.complete 3), true)]) 0 none = (c', "STALL") ∧
    fD = d₁ ++ s₂ ∧ O₁ ++ O₂ = owedStream 1 5 10 nS ++ owedStream 1 8 10 d₁ ∧
    c'.env.tr.wlog = O₁ ++ [1, 6, 0, 1, 0, 2, 6, 0, 104, 105, 0, 0, 0, 0, 0, 0] ++ O₂ ++
      [1, 6, 0, 1, 0, 0, 0, 0, 1, 7, 0, 1, 0, 0, 0, 0, 1, 3, 0, 1, 0, 8, 0, 0, 0, 0, 0, 3, 0, 0, 0, 0] ++
      idleOwed 10 s₂ ∧
    c'.phase = .parseReq (track 64 10 (serAll s₂)) .reading ∧
    hsCount c'.env.tr.events = 1 ∧ c'.env.tr.input = [] := by
  obtain ⟨c', fin, d1, s2, O1, O2, hrun, ho⟩ := filter_gate_write_e2e (p := preFK) (recs := recsFK)
    (content := [65, 66, 67]) (srecs := nS) (content2 := [120, 121, 122]) (drecs := fD) (data := [104, 105]) (b := 64) (mc := 10)
    (st := .complete 3) (more := []) (t := gwT) (fuel := 20) recsFK_wf rfl (fun q hq => by cases hq)
    (recsFK_fits _) nS_ok nS_fits fD_ok fD_fits fD_noBegin rfl ⟨by decide, by decide, rfl, by decide⟩ rfl
    (by decide)
  rcases ho.final with ⟨h, _⟩ | ⟨_, h, _⟩ | ⟨_, _, hfin, hph, hin, _⟩
  · exact absurd h (by decide)
  · exact absurd h (by decide)
  · subst hfin
    refine ⟨c', d1, s2, O1, O2, hrun, ho.split, ho.owed, ?_, hph, ho.one_handler.1, hin⟩
    rw [ho.log]
    show [] ++ (owedPreamble preFK 10 recsFK ++ O1 ++ streamRecords 6 1 [104, 105] ++ O2 ++
      epilogue 1 (.complete 3) ++ (if preFK.flags.toNat % 2 = 1 then idleOwed 10 s2 else [])) = _
    have h1 : owedPreamble preFK 10 recsFK = [] := by decide +kernel
    have h2 : streamRecords 6 1 [104, 105] = [1, 6, 0, 1, 0, 2, 6, 0, 104, 105, 0, 0, 0, 0, 0, 0] := by decide +kernel
    have h3 : (preFK.flags.toNat % 2 = 1) := by decide
    rw [h1, h2, if_pos h3]
    simp only [List.nil_append, List.append_assoc]
    rfl
end Example2

end Fcgi.C09G
