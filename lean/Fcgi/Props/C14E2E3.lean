import Fcgi.Proofs.E2EStopX
import Fcgi.Props.C14E2E2

/-!
# C14(a) — end to end, shutdown at an arbitrary poll: the complete log as an EQUATION

`stop_any_poll_single_e2e` (`C14E2E`) and `stop_any_poll_e2e` (`C14E2E2`) without the `exact` flag /
the `rest`: whenever a request was answered when the task returned, the write log EQUALS the log
before it `++` its complete answer (preamble replies, stream-noise replies, Stdout records,
`[Stdout∅][Stderr∅][EndRequest]`).  In particular, for two requests with the flag raised while
request 2 is in flight or later: `log = t.wlog ++ answer(q₁) ++ answer(q₂)` — both `EndRequest`s are
completely written — and then `RET`.

What made this possible: `E2E.PSt` now carries `(run .header F mc).out = pre ++ rest` for a
`parse_request` suspended in a `write_all`; the idle `parse_request` behind a completed request owes
nothing (`run_U_prefix`), hence `rest = []` (`stageS_pollX`).  The executors are those of
`Proofs/E2EStopX` (`run_stopX`, `run_stop2X`).
-/
namespace Fcgi.C14E
open Fcgi Fcgi.Req Fcgi.Str Fcgi.Async Fcgi.Run Fcgi.Spec Fcgi.E2E Fcgi.C07E

/-- **Shutdown requested at poll `j`, one Responder request.** -/
theorem stop_any_poll_single_e2e_exact {p : Preamble} {recs : List Rec} {content : Bytes} {srecs : List Rec}
    {b mc : Nat} {data : Bytes} {st : ExitStatus} {t : Transport} {fuel : Nat} (j : Nat)
    (hwf : WellFormedPreamble p recs) (hrole : p.role = 1)
    (hpairs : ∀ q ∈ p.pairs, (NV.enc q).length ≤ alignedBufsize b)
    (hnoise : NoiseFits (alignedBufsize b) recs)
    (hs : StreamRecs p.id 5 content srecs) (hsn : NoiseFits (alignedBufsize b) srecs)
    (hin : t.input = serAll recs ++ serAll srecs) (hben : Ben t) (hev : hsCount t.events = 0)
    (hfuel : t.rd.length + t.wr.length + 2 ≤ fuel)
    (hsize : 4 * t.input.length + 17 ≤ 100000)
    (hhf : alignedBufsize b / 32 + wcost data.length + 12 ≤ 1000) :
    ∃ c', runTask fuel (conn0 b mc t data st) 0 (some j) = (c', "RET") ∧ c'.phase = .finished ∧
      (-- (0) seen by the request's own `parse_request`: no handler
       (hsCount c'.env.tr.events = 0 ∧ c'.env.tr.wlog <+: t.wlog ++ owedPreamble p mc recs) ∨
       -- (1)/(2)/(F) the request is completed; no second handler start; nothing read further
       (∃ O₁ O₂, O₁ ++ O₂ = owedStream p.id 5 mc srecs ∧
          c'.env.tr.wlog = t.wlog ++ expectedLogN p recs mc data st O₁ O₂ ∧
          hsCount c'.env.tr.events = 1 ∧ startEvent p.request ∈ c'.env.tr.events ∧
          readEvent content ∈ c'.env.tr.events ∧
          (-- stopped by the flag after completing the request: nothing read further
           (∃ raw pad res, raw ++ c'.env.tr.input = (trec 5 p.id pad res).ser) ∨
           -- the run was over before poll `j` (no KEEP_CONN, or end-of-file)
           p.flags.toNat % 2 = 0 ∨ c'.env.tr.endMode = .eof))) := by
  obtain ⟨body, pad, res, hpad, hbody, hsrecs⟩ := Str.StreamRecs.split hs
  have hsb : NoiseFits (alignedBufsize b) body := fun r hr => hsn r (by rw [hsrecs]; simp [hr])
  have ok : (cfgR p recs content body pad res b mc data st t.wlog 0 []).OK :=
    ⟨hwf, hpairs, hnoise, .responder hrole hbody hsb hpad rfl rfl rfl rfl rfl rfl hhf⟩
  have hW : t.input = (cfgR p recs content body pad res b mc data st t.wlog 0 []).W := by
    rw [hin, hsrecs, C02.serAll_append, C02.serAll_single]
    rfl
  have hOt : owedStream p.id 5 mc srecs = owedStream p.id 5 mc body := by
    rw [hsrecs, owedStream_append, owedStream_term p.id 5 mc _ rfl, List.append_nil]
  have hstage : Stage (cfgR p recs content body pad res b mc data st t.wlog 0 []) (conn0 b mc t data st) :=
    .start (raw := []) rfl (by show [] ++ t.input = _; rw [hW]; rfl) (Nat.zero_le _) rfl hben rfl rfl rfl hev
  obtain ⟨c', hrun, hout⟩ := run_stopX ok j (ans t) (conn0 b mc t data st) 0 fuel hstage rfl (Nat.zero_le _)
    (Nat.le_refl _) (by unfold ans; omega) hsize
  rcases hout with (hearly | ⟨O1, O2, hO, hd⟩) | ⟨O1, O2, hO, hfin⟩
  · exact ⟨c', hrun, hearly.ph, Or.inl ⟨hearly.hs, hearly.log⟩⟩
  · have hl := hd.log
    rw [L3_eq] at hl
    have hev1 : hsCount c'.env.tr.events = 0 + 1 ∧ hsEvent p.request ∈ c'.env.tr.events := hd.ev
    obtain ⟨raw, hraw⟩ := hd.unread
    exact ⟨c', hrun, hd.ph, Or.inr ⟨O1, O2, hO.trans hOt.symm, hl, hev1.1, hev1.2,
      hd.re _ (by show rEvent content ∈ [rEvent content]; simp),
      Or.inl ⟨raw, pad, res, hraw⟩⟩⟩
  · have hl := hfin.log
    rw [L3_eq] at hl
    have hev1 : hsCount c'.env.tr.events = 0 + 1 ∧ hsEvent p.request ∈ c'.env.tr.events := hfin.ev
    exact ⟨c', hrun, hfin.ph, Or.inr ⟨O1, O2, hO.trans hOt.symm, hl, hev1.1, hev1.2,
      hfin.re _ (by show rEvent content ∈ [rEvent content]; simp),
      Or.inr (hfin.why.imp id (fun h => h.2))⟩⟩


/-- How far request `q` — started at write log `L` after `h` handler starts, `more` = the scripts of the
requests after it — got when the task returned:
(0) the flag was seen by its own `parse_request`: its handler was never started;
(1) it was answered: the log IS `L ++` its complete answer. -/
def SentStopX (mc : Nat) (q : Sent) (L : Bytes) (h : Nat) (more : List (List HOp × Bool)) (c' : Conn) : Prop :=
  (hsCount c'.env.tr.events = h ∧ c'.env.tr.wlog <+: L ++ owedPreamble q.p mc q.recs ∧
      c'.scripts = q.handler :: more) ∨
  (∃ O₁ O₂, O₁ ++ O₂ = q.owed mc ∧
      c'.env.tr.wlog = L ++ expectedLogN q.p q.recs mc q.data q.st O₁ O₂ ∧
      hsCount c'.env.tr.events = h + 1 ∧ startEvent q.p.request ∈ c'.env.tr.events ∧
      (∀ d ∈ q.reads, readEvent d ∈ c'.env.tr.events) ∧ c'.scripts = more)

theorem sentStopX_of {b mc : Nat} {q : Sent} {L : Bytes} {h : Nat} {more : List (List HOp × Bool)} {c' : Conn}
    (hs : StopOutX (q.cfg b mc L h more) c') : c'.phase = .finished ∧ SentStopX mc q L h more c' := by
  have hreads : ∀ (re : ∀ s ∈ (q.cfg b mc L h more).revs, s ∈ c'.env.tr.events),
      ∀ d ∈ q.reads, readEvent d ∈ c'.env.tr.events := by
    intro re d hd
    exact re _ (by rw [cfg_revs]; exact List.mem_map_of_mem hd)
  rcases hs with (he | ⟨O1, O2, hO, hd⟩) | ⟨O1, O2, hO, hf⟩
  · refine ⟨he.ph, Or.inl ⟨?_, ?_, ?_⟩⟩
    · have := he.hs; rwa [cfg_hs0] at this
    · have := he.log; rwa [cfg_L0, cfg_p, cfg_mc, cfg_recs] at this
    · have := he.sc; rwa [cfg_more, cfg_hscript] at this
  · have hl := hd.log
    rw [cfg_L3] at hl
    have hev := hd.ev
    refine ⟨hd.ph, Or.inr ⟨O1, O2, by rw [← cfg_Ot b mc L h more q]; exact hO, hl, ?_, ?_, hreads hd.re, ?_⟩⟩
    · have := hev.1; rwa [cfg_hs0] at this
    · have := hev.2; rwa [cfg_p] at this
    · have := hd.sc; rwa [cfg_more] at this
  · have hl := hf.log
    rw [cfg_L3] at hl
    have hev := hf.ev
    refine ⟨hf.ph, Or.inr ⟨O1, O2, by rw [← cfg_Ot b mc L h more q]; exact hO, hl, ?_, ?_, hreads hf.re, ?_⟩⟩
    · have := hev.1; rwa [cfg_hs0] at this
    · have := hev.2; rwa [cfg_p] at this
    · have := hf.sc; rwa [cfg_more] at this

/-- **Shutdown requested at poll `j`, two requests on one connection.** -/
theorem stop_any_poll_e2e_exact {b mc : Nat} (q₁ q₂ : Sent) {t : Transport} {fuel : Nat} (j : Nat)
    (hok₁ : q₁.OK b) (hok₂ : q₂.OK b) (hkeep : q₁.p.flags.toNat % 2 = 1)
    (hin : t.input = q₁.wire) (hben : Ben t) (hev : hsCount t.events = 0)
    (hfuel : t.rd.length + t.wr.length + 3 ≤ fuel) :
    ∃ c', runFeed fuel (connK b mc t [q₁, q₂]) 0 (some j) [q₂.wire] = (c', "RET") ∧ c'.phase = .finished ∧
      (-- the flag is seen before the client has sent `q₂`
       SentStopX mc q₁ t.wlog 0 [q₂.handler] c' ∨
       -- `q₂` was sent: the complete answer to `q₁` is in the log
       ∃ O₁ O₂, O₁ ++ O₂ = q₁.owed mc ∧
         (t.wlog ++ expectedLogN q₁.p q₁.recs mc q₁.data q₁.st O₁ O₂) <+: c'.env.tr.wlog ∧
         SentStopX mc q₂ (t.wlog ++ expectedLogN q₁.p q₁.recs mc q₁.data q₁.st O₁ O₂) 1 [] c') := by
  have hstage : Stage (q₁.cfg b mc t.wlog 0 [q₂.handler]) (connK b mc t [q₁, q₂]) :=
    .start (raw := [])
      (by show Phase.parseReq (Req.Parser.new b mc) .start =
            .parseReq ⟨alignedBufsize (q₁.cfg b mc t.wlog 0 [q₂.handler]).b, [], .header,
              (q₁.cfg b mc t.wlog 0 [q₂.handler]).mc⟩ .start
          rw [cfg_b, cfg_mc]; rfl)
      (by show [] ++ t.input = _; rw [cfg_W, hin]; rfl) (Nat.zero_le _) (cfg_L0 ..).symm hben rfl
      (by rw [cfg_more, cfg_hscript]; rfl) rfl (by rw [cfg_hs0]; exact hev)
  have hl : Linked (q₁.cfg b mc t.wlog 0 [q₂.handler]) (q₂.cfg b mc [] 1 []) :=
    ⟨by rw [cfg_b, cfg_b], by rw [cfg_mc, cfg_mc], by rw [cfg_hs0, cfg_hs0],
      by rw [cfg_more, cfg_more, cfg_hscript], by rw [cfg_p]; exact hkeep⟩
  obtain ⟨c', hrun, hout⟩ := run_stop2X (cfg_ok hok₁ t.wlog 0 [q₂.handler]) (cfg_ok hok₂ [] 1 []) hl j
    (c := connK b mc t [q₁, q₂]) (n := 0) (fuel := fuel) hstage rfl (Nat.zero_le _)
    (by show ans t + 3 ≤ fuel; unfold ans; omega)
    (by show 4 * t.input.length + 17 ≤ 100000; rw [hin]; exact hok₁.hsize)
    (by rw [cfg_W]; exact hok₂.hsize)
  rw [cfg_W] at hrun
  rcases hout with h1 | ⟨O1, O2, hO, hpre, h2⟩
  · obtain ⟨hph, hs⟩ := sentStopX_of h1
    exact ⟨c', hrun, hph, Or.inl hs⟩
  · rw [cfg_at] at h2
    rw [cfg_L3] at hpre h2
    obtain ⟨hph, hs⟩ := sentStopX_of h2
    exact ⟨c', hrun, hph, Or.inr ⟨O1, O2, by rw [← cfg_Ot b mc t.wlog 0 [q₂.handler] q₁]; exact hO, hpre, hs⟩⟩


/-- **Both `EndRequest`s are written**: if both handlers were started (`hsCount = 2`) the log is exactly the
two complete answers, one after the other. -/
theorem stop_any_poll_e2e_both {b mc : Nat} (q₁ q₂ : Sent) {t : Transport} {fuel : Nat} (j : Nat)
    (hok₁ : q₁.OK b) (hok₂ : q₂.OK b) (hkeep : q₁.p.flags.toNat % 2 = 1)
    (hin : t.input = q₁.wire) (hben : Ben t) (hev : hsCount t.events = 0)
    (hfuel : t.rd.length + t.wr.length + 3 ≤ fuel) :
    ∃ c', runFeed fuel (connK b mc t [q₁, q₂]) 0 (some j) [q₂.wire] = (c', "RET") ∧
      (hsCount c'.env.tr.events = 2 → ∃ O₁ O₂ P₁ P₂, O₁ ++ O₂ = q₁.owed mc ∧ P₁ ++ P₂ = q₂.owed mc ∧
        c'.env.tr.wlog = t.wlog ++ expectedLogN q₁.p q₁.recs mc q₁.data q₁.st O₁ O₂ ++
          expectedLogN q₂.p q₂.recs mc q₂.data q₂.st P₁ P₂) := by
  obtain ⟨c', hrun, _, hout⟩ := stop_any_poll_e2e_exact (mc := mc) q₁ q₂ j hok₁ hok₂ hkeep hin hben hev hfuel
  refine ⟨c', hrun, fun h2 => ?_⟩
  rcases hout with (⟨h, _⟩ | ⟨_, _, _, _, h, _⟩) | ⟨O1, O2, hO, _, (⟨h, _⟩ | ⟨P1, P2, hP, hl, _⟩)⟩
  · omega
  · omega
  · omega
  · exact ⟨O1, O2, P1, P2, hO, hP, hl⟩

/-! ## Non-vacuity -/
namespace Example3
open Fcgi.C07E.Example

example (j : Nat) : ∃ c', runFeed 20 (connK 64 10 exT2 [q1, q2]) 0 (some j) [q2.wire] = (c', "RET") ∧
    (hsCount c'.env.tr.events = 2 → ∃ O₁ O₂ P₁ P₂, c'.env.tr.wlog = [] ++ expectedLogN q1.p q1.recs 10 q1.data q1.st O₁ O₂ ++
      expectedLogN q2.p q2.recs 10 q2.data q2.st P₁ P₂) := by
  obtain ⟨c', h1, h2⟩ := stop_any_poll_e2e_both (b := 64) (mc := 10) q1 q2 (t := exT2) (fuel := 20) j q1_ok q2_ok
    (by decide) rfl ⟨by decide, by decide, rfl, by decide⟩ rfl (by decide)
  exact ⟨c', h1, fun h => let ⟨O1, O2, P1, P2, _, _, hl⟩ := h2 h; ⟨O1, O2, P1, P2, hl⟩⟩

example (j : Nat) : ∃ c', runTask 20 (conn0 64 10 C07E.Example.exT [104, 105] (.complete 0)) 0 (some j) = (c', "RET") ∧
    (hsCount c'.env.tr.events = 1 → ∃ O₁ O₂, c'.env.tr.wlog =
      [] ++ expectedLogN C01.Example.pre C01.Example.recs 10 [104, 105] (.complete 0) O₁ O₂) := by
  obtain ⟨c', h1, _, h3⟩ := stop_any_poll_single_e2e_exact (p := C01.Example.pre) (recs := C01.Example.recs)
    (content := [65, 66, 67]) (srecs := C07E.Example.exS) (b := 64) (mc := 10) (data := [104, 105])
    (st := .complete 0) (t := C07E.Example.exT) (fuel := 20) j
    C01.Example.recs_wf rfl (C01.Example.pre_pairs_fit 64) (C01.Example.noise_fits 64) C07E.Example.exS_ok
    (C07E.Example.exS_fits _) rfl C07E.Example.exT_ben rfl (by decide) (by decide +kernel) (by decide)
  refine ⟨c', h1, fun h => ?_⟩
  rcases h3 with ⟨h0, _⟩ | ⟨O1, O2, _, hl, _⟩
  · omega
  · exact ⟨O1, O2, hl⟩

end Example3

end Fcgi.C14E
