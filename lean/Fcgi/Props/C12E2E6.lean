import Fcgi.Proofs.E2EAuthEofRun
import Fcgi.Props.C07Authorizer
import Fcgi.Props.C12E2E

/-!
# C12 — end to end, AUTHORIZER with tail traffic: end-of-file at any byte offset of the wire

Setting of `Props/C07Authorizer`: `W = serAll recs ++ serAll tail` — a well-formed preamble of an
Authorizer request (no input stream) and the records `tail` a peer sends behind it (management
records, unknown types, records of other ids; no `BeginRequest`); handler `aHandler rd false [] st` =
`[ret st]` / `[read n, ret st]` / `[readAll, ret st]`.  The transport delivers `W.take k`, then EOF.

What the model (and the crate, see the replays) does:

* the handler's reads never fail and never touch the transport: `poll_input` parses what is BUFFERED,
  queues the replies and returns `Ok(0)` (`areadsT`; the `r=0:-` / `R=0:-` events are in the trace);
* `close()` = `writeable(); set_stream(None); record_boundary().await;` epilogue.  `record_boundary()`
  returns at once if the stream parser stands between two records (a partial HEADER in the buffer
  counts as "between": `pay = pad = 0`), else it reads until it does.  If the cut is inside a tail
  record whose header the parser has already consumed, every further read ends in `Ok(0)` = EOF and
  `record_boundary()` fails with `UnexpectedEof` (`close_boundary_eof`, `bloop_simT`);
* that error is returned by `close()` BEFORE its phases 3/4: nothing is written — neither the
  replies the parser had queued for COMPLETE management records in front of the cut, nor the
  Stdout/Stderr terminators, nor `EndRequest`; `Connection::run` returns (`RET`, `finished`), no
  second handler is started; the log is `L₀ ++ owedPreamble` — what the handler found
  (`AuthCutFail`);
* otherwise (`BdryAt`) `record_boundary()` succeeds in some poll with the parser between two records
  of `tail`, nothing written so far, and `close` goes on to the epilogue exactly as on an uncut wire
  (`authorizer_tail_e2e` describes that continuation for a cut AT a record boundary — apply it to
  the shorter tail, its `endMode = eof` branch; for a cut inside a record the continuation
  [epilogue, then with KEEP_CONN a `parse_request` that ends quietly at EOF] is NOT proved here).
  Which of the two happens depends on the chunking: the boundary test is made after each chunk.

`eof_in_auth_tail_e2e`: the run from the start, cut at/after the end of the preamble;
`eof_any_offset_auth_e2e`: all offsets (preamble cuts from `eof_in_preamble_e2e_partial`).
`record_boundary_eof`, `close_eof_poll`, `close_unexpected_eof_returns`: the pieces, for any state.

Replays (`fcgi-harness C12 quick 1 /tmp/xx2 --replay /tmp/auth-cut2.ops`, crate = model driver on
all 12 cases tried; `W` = the example below, 68 bytes: preamble 0‥24, `GetValues` 24‥48, unknown type
48‥58, foreign Stdin 58‥68; KEEP_CONN):

```
h=r4,Xcomplete:0  k=37 rd=A           |0 R64:37 HS(2,1,-) r=0:- HE(ok:complete:0) R59:0 RET wlog=-
h=r4,Xcomplete:0  k=45 rd=37,P,3,P,A  |0 R64:37 HS(2,1,-) r=0:- HE(ok:complete:0) R59:P |1 R59:3 R56:P |2 R56:5 R51:0 RET wlog=-
h=r4,Xcomplete:0  k=57 rd=A           |0 R64:57 HS(2,1,-) r=0:- HE(ok:complete:0) R64:0 RET wlog=-
h=R,Xcomplete:0   k=57 rd=A           |0 R64:57 HS(2,1,-) R=0:- HE(ok:complete:0) R64:0 RET wlog=-
h=Xcomplete:0     k=57 rd=A           |0 R64:57 HS(2,1,-) HE(ok:complete:0) W32:32 W48:48 R64:0 RET wlog=[epilogue][GetValuesResult][UnknownType]
h=r4,Xcomplete:0  k=50 rd=A           |0 R64:50 HS(2,1,-) r=0:- HE(ok:complete:0) W32:32 W32:32 R62:0 RET wlog=[GetValuesResult][epilogue]
h=r4,Xcomplete:0  k=28 rd=A           |0 R64:28 HS(2,1,-) r=0:- HE(ok:complete:0) W32:32 R60:0 RET wlog=[epilogue]
h=r4,Xcomplete:0  k=41 rd=30,P,7,P,A  |0 R64:30 HS(2,1,-) r=0:- HE(ok:complete:0) W32:32 R58:P |1 R58:7 R59:P |2 R59:4 R55:0 RET wlog=[epilogue]
```

k=37/45: the cut is inside the `GetValues` body, its header was buffered when the handler read →
`UnexpectedEof`, empty log.  k=57: the cut is inside the unknown-type record's body; the COMPLETE
`GetValues` in front of it goes unanswered as well (its reply was queued, never flushed).  Without a
read (`h=Xcomplete:0`) the stream parser has parsed nothing: at a boundary, epilogue first, then the
next `parse_request` answers what is complete and ends quietly at EOF.  k=50/28: the cut is inside a
HEADER → "at a boundary" → epilogue.  k=41 with the first read ending inside the header: same.
-/
namespace Fcgi.C12E
open Fcgi Fcgi.Req Fcgi.Str Fcgi.Async Fcgi.Run Fcgi.Spec Fcgi.E2E Fcgi.C07E Fcgi.C07U

/-! ## The pieces (valid in any state) -/

/-- **`record_boundary()` on a cut wire** (`R2`: the ignoring stream parser framed on `R`, `G` handed to
it so far, `t.input` still to come, `lost` never): at a record boundary | transient `Pending` |
`Err(UnexpectedEof)` — the latter only with the input used up, bytes really missing and the parser
inside a record; the write log is untouched in every case. -/
theorem record_boundary_eof {id mc cap : Nat} {R : List Rec} (hc : R2Ctx id mc cap R) {lost : Bytes}
    {sp sp' : Str.Parser} {t t' : Transport} {G dO : Bytes} {res : ORes}
    (hb : Ben t) (hem : t.endMode = .eof) (hr2 : R2 id mc cap R sp G (t.input ++ lost) dO)
    (h : closeBoundary sp false t = (sp', t', res)) :
    t'.wlog = t.wlog ∧
    ((res = .ready ∧ sp'.isRecordBoundary = true) ∨
     (res = .pending ∧ t'.woken = true ∧ ans t' < ans t ∧ sp'.isRecordBoundary = false) ∨
     (res = .err .unexpectedEof ∧ t'.input = [] ∧ lost ≠ [] ∧ sp'.isRecordBoundary = false)) := by
  obtain ⟨_, hwl, _, hres⟩ := close_boundary_eof hc hb hem hr2 (fun h => by cases h) h
  refine ⟨hwl, ?_⟩
  rcases hres with h | ⟨a, b, c, d, _⟩ | ⟨a, b, c, d, _⟩
  · exact Or.inl h
  · exact Or.inr (Or.inl ⟨a, b, c, d⟩)
  · exact Or.inr (Or.inr ⟨a, b, c, d⟩)

/-- **One poll of `close()` on a cut tail** (`AClose`: first poll after the handler returned, or
re-polled while suspended in `record_boundary()`): suspended again | the task ends `finished` out of
`UnexpectedEof` with the write log untouched | `record_boundary()` succeeded at a boundary of the
tail (the poll continues with the epilogue). -/
theorem close_eof_poll {id mc cap : Nat} {R : List Rec} (hc : R2Ctx id mc cap R) {lost : Bytes}
    {st : ExitStatus} {c : Conn} (h : AClose id mc cap R lost st c) :
    (∃ c', stepConn c = .halt c' .pending ∧ AClose id mc cap R lost st c' ∧
        c'.env.tr.wlog = c.env.tr.wlog ∧ c'.env.tr.woken = true ∧ ans c'.env.tr < ans c.env.tr) ∨
    (∃ c', stepConn c = .halt c' .finished ∧ c'.phase = .finished ∧
        c'.env.tr.wlog = c.env.tr.wlog ∧ c'.env.tr.input = [] ∧ lost ≠ []) ∨
    (∃ r cs sp' t', c.phase = .closing r cs st 0 ∧
        closePoll r cs st 0 c.env.mutex c.env.tr = closeTail r c.env.mutex st (sp', t', .ready) ∧
        sp'.isRecordBoundary = true ∧ t'.wlog = c.env.tr.wlog) := by
  rcases aclose_eof_poll hc h with ⟨c', a, b, _, d, e, f⟩ | ⟨c', a, b, _, d, e, f⟩ | ⟨r, cs, sp', t', _, _, a, b, c0, d, _⟩
  · exact Or.inl ⟨c', a, b, d, e, f⟩
  · exact Or.inr (Or.inl ⟨c', a, b, d, e, f⟩)
  · exact Or.inr (Or.inr ⟨r, cs, sp', t', a, b, c0, d⟩)

/-- **The task returns** from a `close()` suspended in `record_boundary()` when the peer has closed:
`RET`, `finished`, the log as it was (no epilogue, no `EndRequest`), no handler start — for ANY
request/role/parser state (`BEof` only asks for free buffer space, which `record_boundary()` has
whenever it reads). -/
theorem close_unexpected_eof_returns {st : ExitStatus} {c : Conn} {r : AReq} (n fuel : Nat)
    (hph : c.phase = .closing r .inBoundary st 0) (hfree : 0 < r.sp.free)
    (hin : c.env.tr.input = []) (hem : c.env.tr.endMode = .eof) (hb : Ben c.env.tr) (hsegs : c.env.segs = [])
    (hf : ans c.env.tr + 1 ≤ fuel) :
    ∃ c', runTask fuel c n none = (c', "RET") ∧ c'.phase = .finished ∧ c'.env.tr.wlog = c.env.tr.wlog ∧
      c'.env.tr.input = [] ∧ hsCount c'.env.tr.events = hsCount c.env.tr.events ∧ c'.scripts = c.scripts :=
  beof_run (ans c.env.tr) c n fuel ⟨⟨r, hph, hfree⟩, hin, hem, hb, rfl, rfl⟩ hsegs (Nat.le_refl _) hf

/-! ## The run -/

/-- the task has returned out of `record_boundary()`'s `UnexpectedEof` -/
structure AuthCutFail (p : Preamble) (recs : List Rec) (rd : ARead) (mc : Nat) (more : List (List HOp × Bool))
    (lost : Bytes) (t : Transport) (c' : Conn) : Prop where
  phase : c'.phase = .finished
  /-- nothing was written after the preamble's replies: no reply for the tail, no terminator, no `EndRequest` -/
  wlog : c'.env.tr.wlog = t.wlog ++ owedPreamble p mc recs
  input : c'.env.tr.input = []
  /-- bytes are really missing -/
  lost : lost ≠ []
  one_handler : hsCount c'.env.tr.events = 1 ∧ hsEvent p.request ∈ c'.env.tr.events
  /-- the read (if any) returned `Ok(0)` -/
  reads : ∀ s ∈ rd.evs, s ∈ c'.env.tr.events
  scripts : c'.scripts = more

/-- the two ways the run on the cut wire can go -/
def AuthCutOutcome (p : Preamble) (recs tail : List Rec) (b mc : Nat) (rd : ARead) (st : ExitStatus)
    (more : List (List HOp × Bool)) (lost : Bytes) (t : Transport) (fuel : Nat) : Prop :=
  (∃ c', runTask fuel (connS b mc t ((aHandler rd false [] st, true) :: more)) 0 none = (c', "RET") ∧
      AuthCutFail p recs rd mc more lost t c') ∨
  (∃ c0 n0 f0 k c1, runTask fuel (connS b mc t ((aHandler rd false [] st, true) :: more)) 0 none =
        runTask (f0 + 1) c0 n0 none ∧ Steps k (prePoll c0 n0 none) c1 ∧
      BdryAt (cfgA p recs tail b mc rd false [] st t.wlog 0 more) lost c1)

/-- **C12 end to end, Authorizer, the wire ends behind the preamble** (`X ++ lost = serAll tail`, `X`
arrives).  Either the task returns `RET` out of `record_boundary()`'s `UnexpectedEof` with nothing
written since the preamble's replies — one handler start, its read returned `Ok(0)` —, or the run
reaches a poll (`c0`, poll number `n0`) in which, after `k` steps, `close()` is polled in a state `c1`
whose `record_boundary()` returns `Ok` at a record boundary of `tail`, the log still being
`t.wlog ++ owedPreamble` (`BdryAt`). -/
theorem eof_in_auth_tail_e2e {p : Preamble} {recs tail : List Rec} {b mc : Nat} {rd : ARead}
    {st : ExitStatus} {more : List (List HOp × Bool)} {t : Transport} {fuel : Nat} {X lost : Bytes}
    (hwf : WellFormedPreamble p recs) (hrole : p.role = 2)
    (hpairs : ∀ q ∈ p.pairs, (NV.enc q).length ≤ alignedBufsize b)
    (hnoise : NoiseFits (alignedBufsize b) recs)
    (htail : ∀ r ∈ tail, StreamNoise p.id r) (htn : NoiseFits (alignedBufsize b) tail)
    (hcut : X ++ lost = serAll tail)
    (hin : t.input = serAll recs ++ X) (hben : Ben t) (hem : t.endMode = .eof) (hev : hsCount t.events = 0)
    (hfuel : t.rd.length + t.wr.length + 1 ≤ fuel) (hsize : 2 * t.input.length + 11 ≤ 100000) :
    AuthCutOutcome p recs tail b mc rd st more lost t fuel := by
  have ok := aok_of (mc := mc) (rd := rd) (wr := false) (data := []) (st := st) t.wlog 0 more hwf hrole hpairs hnoise
    htail htn (fun _ => rfl) (by decide)
  have hst : E2E.FStage (cutX (cfgA p recs tail b mc rd false [] st t.wlog 0 more) X)
      (connS b mc t ((aHandler rd false [] st, true) :: more)) :=
    .start (raw := []) rfl (by show [] ++ t.input = _; rw [hin]; rfl) (Nat.zero_le _) rfl hben rfl rfl rfl hev
  have hrun := cut_run ok (X := X) (lost := lost) hcut (ans t) (connS b mc t ((aHandler rd false [] st, true) :: more))
    0 fuel (Or.inl hst) hem rfl (Nat.le_refl _) (by unfold ans; omega) hsize
  rcases hrun with ⟨c', h1, hf⟩ | ⟨c0, n0, f0, k, c1, h1, _, h3, h4⟩
  · exact Or.inl ⟨c', h1, ⟨hf.phase, hf.wlog, hf.input, hf.lost, ⟨hf.ev.1, hf.ev.2⟩, hf.reads, hf.scripts⟩⟩
  · exact Or.inr ⟨c0, n0, f0, k, c1, h1, h3, h4⟩

theorem take_len_add (A B : Bytes) (i : Nat) : (A ++ B).take (A.length + i) = A ++ B.take i := by
  induction A with
  | nil => simp
  | cons a A ih =>
    rw [List.length_cons, show A.length + 1 + i = (A.length + i) + 1 by omega, List.cons_append, List.take_succ_cons, ih]
    rfl

/-- **C12 end to end, Authorizer with tail traffic: end-of-file at ANY offset `k` of the wire.**
Inside the preamble: `RET`, no handler start, the log a prefix of the preamble's replies.  Behind it:
`eof_in_auth_tail_e2e` with `lost` = the `|W| - k` missing bytes. -/
theorem eof_any_offset_auth_e2e {p : Preamble} {recs tail : List Rec} {b mc : Nat} {rd : ARead}
    {st : ExitStatus} {more : List (List HOp × Bool)} {t : Transport} {fuel : Nat} (k : Nat)
    (hwf : WellFormedPreamble p recs) (hrole : p.role = 2)
    (hpairs : ∀ q ∈ p.pairs, (NV.enc q).length ≤ alignedBufsize b)
    (hnoise : NoiseFits (alignedBufsize b) recs)
    (htail : ∀ r ∈ tail, StreamNoise p.id r) (htn : NoiseFits (alignedBufsize b) tail)
    (hin : t.input = (serAll recs ++ serAll tail).take k) (hben : Ben t) (hem : t.endMode = .eof)
    (hev : hsCount t.events = 0)
    (hfuel : t.rd.length + t.wr.length + 1 ≤ fuel) (hsize : 2 * t.input.length + 11 ≤ 100000) :
    (k < (serAll recs).length ∧
      ∃ c', runTask fuel (connS b mc t ((aHandler rd false [] st, true) :: more)) 0 none = (c', "RET") ∧
        c'.phase = .finished ∧ c'.env.tr.input = [] ∧ hsCount c'.env.tr.events = 0 ∧
        ∃ out, c'.env.tr.wlog = t.wlog ++ out ∧ out <+: owedPreamble p mc recs) ∨
    ((serAll recs).length ≤ k ∧
      AuthCutOutcome p recs tail b mc rd st more ((serAll tail).drop (k - (serAll recs).length)) t fuel) := by
  by_cases hk : k < (serAll recs).length
  · obtain ⟨c', h1, h2, h3, h4, _, h6, h7⟩ := eof_in_preamble_e2e_partial (serAll tail) b mc k
      ((aHandler rd false [] st, true) :: more) t fuel hwf hpairs hnoise hk hin hben hem hfuel (by omega)
    exact Or.inl ⟨hk, c', h1, h2, h3, h4.trans hev, _, h6, h7⟩
  · have hk' : (serAll recs).length ≤ k := Nat.le_of_not_lt hk
    obtain ⟨d, rfl⟩ : ∃ d, k = (serAll recs).length + d := ⟨k - (serAll recs).length, by omega⟩
    rw [take_len_add] at hin
    refine Or.inr ⟨hk', ?_⟩
    rw [show (serAll recs).length + d - (serAll recs).length = d by omega]
    exact eof_in_auth_tail_e2e hwf hrole hpairs hnoise htail htn (List.take_append_drop d (serAll tail)) hin hben hem
      hev hfuel hsize

/-! ## Non-vacuity -/
namespace Example6
open Fcgi.C01.Example Fcgi.C07E.Example Fcgi.C07U.Example

/-- the wire of `C07U.Example` (preamble 24 bytes, `GetValues` 24 bytes, unknown type 10, foreign Stdin
10) cut after `k` bytes; the first read brings 37 bytes, then a transient `Pending` -/
def cutT (k : Nat) : Transport :=
  { input := (serAll recsA ++ serAll aTail).take k, endMode := .eof, rd := [.n 37, .pending, .n 3], wr := [], fl := [] }

theorem cutT_ben (k : Nat) : Ben (cutT k) :=
  ⟨by show ∀ a ∈ [RdAns.n 37, .pending, .n 3], a ≠ RdAns.err; decide,
   by show ∀ a ∈ ([] : List WrAns), a ≠ WrAns.err ∧ a ≠ WrAns.zero; decide, rfl,
   by show EndMode.eof ≠ EndMode.err; decide⟩

/-- every offset, every one of the three handlers: the hypotheses of `eof_any_offset_auth_e2e` hold
(the replay `k=45 rd=37,P,3,P,A` above is the case `k = 45`, `rd = .read 4`: first branch of
`AuthCutOutcome`) -/
example (k : Nat) (hk : k ≤ 68) (rd : ARead) :
    (k < 24 ∧ ∃ c', runTask 9 (connS 64 10 (cutT k) [(aHandler rd false [] (.complete 0), true)]) 0 none = (c', "RET") ∧
        c'.phase = .finished ∧ c'.env.tr.input = [] ∧ hsCount c'.env.tr.events = 0 ∧
        ∃ out, c'.env.tr.wlog = [] ++ out ∧ out <+: owedPreamble preA 10 recsA) ∨
    (24 ≤ k ∧ AuthCutOutcome preA recsA aTail 64 10 rd (.complete 0) [] ((serAll aTail).drop (k - 24)) (cutT k) 9) := by
  have hlen : (serAll recsA).length = 24 := by decide +kernel
  have hinl : (cutT k).input.length ≤ 68 := by
    show ((serAll recsA ++ serAll aTail).take k).length ≤ 68
    rw [List.length_take]; omega
  have := eof_any_offset_auth_e2e (p := preA) (recs := recsA) (tail := aTail) (b := 64) (mc := 10) (rd := rd)
    (st := .complete 0) (more := []) (t := cutT k) (fuel := 9) k recsA_wf rfl (fun q hq => by cases hq)
    (recsA_fits _) aTail_noise aTail_fits rfl (cutT_ben k) rfl rfl
    (by show [RdAns.n 37, .pending, .n 3].length + ([] : List WrAns).length + 1 ≤ 9; decide) (by omega)
  rw [hlen] at this
  exact this

/-- `close_unexpected_eof_returns` is not vacuous: a fresh `Request` suspended in `record_boundary()` -/
example : ∃ c', runTask 3 ⟨.closing (AReq.new (Str.Parser.fromParser 64 { id := 1, role := 2, flags := 1, env := [] } [] 10))
      .inBoundary (.complete 0) 0, { tr := { input := [], endMode := .eof, rd := [.pending], wr := [], fl := [] }, segs := [] },
      [], false⟩ 0 none = (c', "RET") ∧ c'.phase = .finished ∧ c'.env.tr.wlog = [] :=
  let ⟨c', h1, h2, h3, _⟩ := close_unexpected_eof_returns (st := .complete 0) 0 3 rfl (by decide) rfl rfl
    ⟨by decide, by decide, rfl, by decide⟩ rfl (by decide)
  ⟨c', h1, h2, h3⟩

end Example6

end Fcgi.C12E
