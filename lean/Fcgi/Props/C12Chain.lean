import Fcgi.Proofs.E2EChainStart
import Fcgi.Props.C12Unbounded
import Fcgi.Props.C12E2E9
import Fcgi.Props.E2EUnbounded

/-!
# C12 — faults in the LAST request of a keep-alive chain

The end-to-end fault theorems of `Props/C12E2E*` / `C12Unbounded` are about a fresh connection.  Here the faulty
request is the last of a chain: `k ≥ 1` complete requests `x :: xs` (`UReq.OKu`, KEEP_CONN, the chain of
`k_requests_unread_e2e_partial_unbounded`, closed-loop client `E2E.closedLoop`), each answered completely; when the
task has parked, the client sends the first `j` bytes of one more Responder request and closes (`feedEnd … .eof`), or
the transport fails there (`feedEnd … .err`).

The composition is generic (`last_leg`): a chain prefix that ends parked in `parse_request` on an EMPTY buffer
(`E2E.Waiting … [] …`), fed `W`, runs exactly like the fresh connection `connS b mc t' scripts` on the transport
`t' = lastT c W em` (the prefix's transport — its log, events, remaining answer scripts — with input `W`):
`E2E.runTask_start_eq_reading` (the initial `parse(0)` of an empty buffer does nothing).  Every theorem about a
fresh connection that is generic in the initial log and handler count applies; `eof_any_offset_e2e_h` is
`eof_any_offset_e2e_unbounded` restated for a transport that has already seen `h0` handler starts (same proof).

Results: `eof_in_last_request_e2e` (EOF at any offset inside the last request's wire),
`read_err_in_last_request_e2e` (the transport fails at that offset; from the former by `eof_err_lift`).

The poll counter of the last leg is restarted at 0 (it is a label of the trace only: the `|n` events).
NOT here: a failing write / an erroring read at a given ANSWER index of the last request (`write_error_e2e`,
`read_error_at_index_e2e` in a chain): `Indep3.runTask_dich` is about one `runTask`, the index of the answer inside the
last request depends on how many answers the first `k` requests consumed, which `E2E.Waiting` does not expose.
-/
namespace Fcgi.C12E
open Fcgi Fcgi.Req Fcgi.Str Fcgi.Async Fcgi.Run Fcgi.Spec Fcgi.E2E Fcgi.C07E Fcgi.C07U Fcgi.C12Inv Fcgi.EofErr

/-- the peer sends `w` and then closes (`em = .eof`) / the transport fails behind `w` (`em = .err`) -/
def feedEnd (c : Conn) (w : Bytes) (em : EndMode) : Conn :=
  { c with env := { c.env with tr := { c.env.tr with input := w, endMode := em } } }

/-- the transport the last leg runs on -/
def lastT (c : Conn) (w : Bytes) (em : EndMode) : Transport := { c.env.tr with input := w, endMode := em }

/-- **The generic composition.**  After a chain prefix that left the buffer empty, the run on what is fed next is the
run of a fresh connection on the prefix's transport. -/
theorem last_leg {b mc : Nat} {Lw : Bytes} {sc : List (List HOp × Bool)} {h : Nat} {evs : List String} {A0 : Nat}
    {c : Conn} (hw : Waiting (alignedBufsize b) mc [] Lw sc h evs A0 c) (W : Bytes) (em : EndMode) (fuel n : Nat) :
    runTask (fuel + 1) (feedEnd c W em) n none = runTask (fuel + 1) (connS b mc (lastT c W em) sc) n none := by
  obtain ⟨phase, env, scripts, stop⟩ := c
  obtain ⟨tr, mutex, segs⟩ := env
  have h1 := hw.ph
  have h2 := hw.stop
  have h3 := hw.sc
  have h4 := hw.mtx
  have h5 := hw.segs
  simp only at h1 h2 h3 h4 h5
  subst h1 h2 h3 h4 h5
  have h24 := alignedBufsize_ge b
  have e : track (alignedBufsize b) mc (serAll []) = ⟨alignedBufsize b, [], .header, mc⟩ := track_nil _ _
  show runTask (fuel + 1) ⟨.parseReq (track (alignedBufsize b) mc (serAll [])) .reading, _, _, false⟩ n none = _
  rw [e]
  exact (runTask_start_eq_reading h24 fuel _ _ n).symm

/-- `eof_in_terminator_e2e_unbounded` for a transport that has already seen `h0` handler starts; the cut lies strictly
inside the wire. -/
theorem eof_in_terminator_e2e_h {p : Preamble} {recs : List Rec} {content : Bytes} {srecs : List Rec}
    {b mc : Nat} {data : Bytes} {st : ExitStatus} {t : Transport} {fuel : Nat} (h0 k : Nat)
    (hwf : WellFormedPreamble p recs) (hrole : p.role = 1)
    (hpairs : ∀ q ∈ p.pairs, (NV.enc q).length ≤ alignedBufsize b)
    (hnoise : NoiseFits (alignedBufsize b) recs)
    (hs : StreamRecs p.id 5 content srecs) (hsn : NoiseFits (alignedBufsize b) srecs)
    (hk : (serAll recs).length + (serAll srecs.dropLast).length + 8 ≤ k)
    (hlt : k < (serAll recs ++ serAll srecs).length)
    (hin : t.input = (serAll recs ++ serAll srecs).take k) (hben : Ben t) (hem : t.endMode = .eof)
    (hev : hsCount t.events = h0) (hfuel : t.rd.length + t.wr.length + 1 ≤ fuel)
    (hhf : wcost data.length + 12 ≤ 1000) :
    ∃ c' O₁ O₂, runTask fuel (conn0 b mc t data st) 0 none = (c', "RET") ∧
      O₁ ++ O₂ = owedStream p.id 5 mc srecs ∧ c'.phase = .finished ∧
      c'.env.tr.wlog = t.wlog ++ expectedLogN p recs mc data st O₁ O₂ ∧
      hsCount c'.env.tr.events = h0 + 1 ∧ startEvent p.request ∈ c'.env.tr.events ∧
      readEvent content ∈ c'.env.tr.events := by
  obtain ⟨body, pad, res, hpad, hbody, hsrecs⟩ := Str.StreamRecs.split hs
  have hdl : srecs.dropLast = body := by rw [hsrecs]; exact List.dropLast_concat
  rw [hdl] at hk
  have hsb : NoiseFits (alignedBufsize b) body := fun r hr => hsn r (by rw [hsrecs]; simp [hr])
  have ok : (cfgR p recs content body pad res b mc data st t.wlog h0 []).OK :=
    ⟨hwf, hpairs, hnoise, .responderU hrole hbody hsb hpad rfl rfl rfl rfl rfl rfl hhf⟩
  have hser : serAll srecs = serAll body ++ (trec 5 p.id pad res).ser := by
    rw [hsrecs, C02.serAll_append, C02.serAll_single]; rfl
  rw [hser] at hin hlt
  obtain ⟨n, rfl⟩ : ∃ n, k = (serAll recs).length + ((serAll body).length + n) :=
    ⟨k - (serAll recs).length - (serAll body).length, by omega⟩
  have h8 : 8 ≤ n := by omega
  have hn : n < (trec 5 p.id pad res).ser.length := by
    simp only [List.length_append] at hlt; omega
  rw [take_add_append, take_add_append] at hin
  have ok2 := cfg2_cut ok hrole h8 hn
  have hstage : Stage (cutCfg (cfgR p recs content body pad res b mc data st t.wlog h0 []) n)
      (conn0 b mc t data st) :=
    .start (raw := []) rfl (by show [] ++ t.input = _; rw [hin]; rfl) (Nat.zero_le _) rfl hben rfl rfl rfl hev
  obtain ⟨c', O1, O2, hO, hrun, hfin⟩ := run_from_stage2' ok2 (ans t) (conn0 b mc t data st) 0 fuel hstage hem rfl
    (Nat.le_refl _) (by unfold ans; omega)
  have hOt : owedStream p.id 5 mc srecs = owedStream p.id 5 mc body := by
    rw [hsrecs, owedStream_append, owedStream_term p.id 5 mc _ rfl, List.append_nil]
  have hlog : c'.env.tr.wlog = (cfgR p recs content body pad res b mc data st t.wlog h0 []).L3 O1 O2 := hfin.log
  rw [L3_eq] at hlog
  have hev1 : hsCount c'.env.tr.events = h0 + 1 ∧ hsEvent p.request ∈ c'.env.tr.events := hfin.ev
  exact ⟨c', O1, O2, hrun, hO.trans hOt.symm, hfin.ph, hlog, hev1.1, hev1.2,
    hfin.re _ (by show rEvent content ∈ [rEvent content]; simp)⟩

/-- `eof_any_offset_e2e_unbounded` for a transport that has already seen `h0` handler starts (cut strictly inside the wire). -/
theorem eof_any_offset_e2e_h {p : Preamble} {recs : List Rec} {content : Bytes} {srecs : List Rec}
    {b mc : Nat} {data : Bytes} {st : ExitStatus} {t : Transport} {fuel : Nat} (h0 k : Nat)
    (hwf : WellFormedPreamble p recs) (hrole : p.role = 1)
    (hpairs : ∀ q ∈ p.pairs, (NV.enc q).length ≤ alignedBufsize b)
    (hnoise : NoiseFits (alignedBufsize b) recs)
    (hs : StreamRecs p.id 5 content srecs) (hsn : NoiseFits (alignedBufsize b) srecs)
    (hlt : k < (serAll recs ++ serAll srecs).length)
    (hin : t.input = (serAll recs ++ serAll srecs).take k) (hben : Ben t) (hem : t.endMode = .eof)
    (hev : hsCount t.events = h0) (hfuel : t.rd.length + t.wr.length + 1 ≤ fuel)
    (hhf : wcost data.length + 12 ≤ 1000) :
    ∃ c' O₁ O₂, runTask fuel (conn0 b mc t data st) 0 none = (c', "RET") ∧ c'.phase = .finished ∧
      O₁ ++ O₂ = owedStream p.id 5 mc srecs ∧
      -- the log is a byte prefix of a complete log
      (∃ w, c'.env.tr.wlog = t.wlog ++ w ∧ w <+: expectedLogN p recs mc data st O₁ O₂) ∧
      -- at most one handler start; none for an incomplete preamble
      hsCount c'.env.tr.events ≤ h0 + 1 ∧
      (k < (serAll recs).length → hsCount c'.env.tr.events = h0) ∧
      ((serAll recs).length ≤ k → hsCount c'.env.tr.events = h0 + 1 ∧ startEvent p.request ∈ c'.env.tr.events) ∧
      -- a `readAll` that cannot be completed fails with `UnexpectedEof`, after a prefix of the content
      ((serAll recs).length ≤ k → k < (serAll recs).length + (serAll srecs.dropLast).length + 8 →
        ∃ C, C <+: content ∧ readEofEvent C ∈ c'.env.tr.events ∧ handlerEofEvent ∈ c'.env.tr.events) ∧
      -- behind the header of the terminating record: everything is read, everything is answered
      ((serAll recs).length + (serAll srecs.dropLast).length + 8 ≤ k →
        readEvent content ∈ c'.env.tr.events ∧
        c'.env.tr.wlog = t.wlog ++ expectedLogN p recs mc data st O₁ O₂) := by
  by_cases h1 : k < (serAll recs).length
  · -- inside the preamble
    obtain ⟨c', hrun, hph, _, hhs, _, hlog, hpre⟩ := eof_in_preamble_e2e_partial_unbounded (p := p) (recs := recs) (serAll srecs)
      b mc k [(canonical data st, true)] t fuel hwf hpairs hnoise h1 hin hben hem hfuel
    refine ⟨c', owedStream p.id 5 mc srecs, [], hrun, hph, List.append_nil _, ⟨_, hlog, ?_⟩, by omega,
      fun _ => hhs.trans hev, fun h => by omega, fun h => by omega, fun h => by omega⟩
    refine hpre.trans ?_
    simp only [expectedLogN, List.append_assoc]
    exact List.prefix_append _ _
  · by_cases h2 : k < (serAll recs).length + (serAll srecs.dropLast).length + 8
    · -- inside the stream, in front of the 8th byte of the terminating record
      obtain ⟨j, rfl⟩ : ∃ j, k = (serAll recs).length + j := ⟨k - (serAll recs).length, by omega⟩
      rw [take_add_append] at hin
      obtain ⟨c', C, O, hrun, hph, _, hC, hO, hlog, hhs, hst, hre, hhe⟩ := eof_mid_stream_e2e_body_unbounded
        (p := p) (recs := recs) (srecs := srecs) (content := content) ((serAll srecs).take j) b mc data st t fuel
        hwf hrole hpairs hnoise hs hsn (List.take_prefix _ _)
        (by have := List.length_take_le j (serAll srecs); omega) hin hben hem hfuel
      have hhs1 : hsCount c'.env.tr.events = h0 + 1 := by rw [hhs, hev]
      refine ⟨c', owedStream p.id 5 mc srecs, [], hrun, hph, List.append_nil _,
        ⟨owedPreamble p mc recs ++ O, by rw [hlog, List.append_assoc], ?_⟩, by omega,
        fun h => by omega, fun _ => ⟨hhs1, hst⟩, fun _ _ => ⟨C, hC, hre, hhe⟩, fun h => by omega⟩
      obtain ⟨z, hz⟩ := hO
      simp only [expectedLogN, List.append_assoc, ← hz]
      exact ⟨z ++ (streamRecords 6 p.id data ++ ([] ++ epilogue p.id st)), by simp only [List.append_assoc]⟩
    · -- behind the header of the terminating record
      obtain ⟨c', O1, O2, hrun, hO, hph, hlog, hhs, hst, hre⟩ := eof_in_terminator_e2e_h (data := data) (st := st)
        (fuel := fuel) h0 k hwf hrole hpairs hnoise hs hsn (by omega) hlt hin hben hem hev hfuel hhf
      exact ⟨c', O1, O2, hrun, hph, hO, ⟨_, hlog, List.prefix_refl _⟩, by omega, fun h => by omega,
        fun _ => ⟨hhs, hst⟩, fun _ h => by omega, fun _ => ⟨hre, hlog⟩⟩

/-- the chain prefix: `k = |x :: xs|` complete requests, then parked on an empty buffer with the script of the last
request still to come -/
theorem chain_prefix {b mc : Nat} (x : UReq) (xs : List UReq) (sc : List (List HOp × Bool)) {t : Transport} {fuel : Nat}
    (hok : ∀ y ∈ x :: xs, y.OKu b) (hleft : ((x :: xs).getLast (by simp)).left = [])
    (hin : t.input = x.wire) (hben : Ben t) (hem : t.endMode = .pend) (hev : hsCount t.events = 0)
    (hfuel : t.rd.length + t.wr.length + 1 ≤ fuel) :
    ∃ c₁ A, closedLoop fuel (xs.map UReq.wire) (connS b mc t ((x :: xs).map UReq.handler ++ sc)) 0 = (c₁, "STALL") ∧
      SegsAll mc (x :: xs) A ∧
      Waiting (alignedBufsize b) mc [] (t.wlog ++ A) sc (x :: xs).length
        (evsAfter ((x :: xs).map (UReq.spec mc)) []) (ans t) c₁ := by
  have hstart : StartAt (alignedBufsize b) mc [] t.wlog (((x :: xs).map (UReq.spec mc)).map RSpec.handler ++ sc) 0 [] (ans t)
      ((UReq.spec mc x).W) (connS b mc t ((x :: xs).map UReq.handler ++ sc)) := by
    refine Or.inr ⟨rfl, rfl, hin, rfl, hben, rfl, ?_, rfl, hev, (fun _ hs => nomatch hs), rfl, hem, Nat.le_refl _⟩
    show (x :: xs).map UReq.handler ++ sc = _
    rw [List.map_map]; rfl
  obtain ⟨c', A, hrun, hseg, hw⟩ := chain_serves_sc (alignedBufsize b) mc (serAll dummyRecs ++ []) sc
    (xs.map (UReq.spec mc)) (UReq.spec mc x) [] t.wlog 0 [] (ans t) _ 0 fuel (hall_of_oku x xs hok)
    ⟨(fun _ he => nomatch he), (fun _ hr => nomatch hr)⟩ hstart (by unfold ans; omega)
  have hrun' : closedLoop fuel (xs.map UReq.wire) (connS b mc t ((x :: xs).map UReq.handler ++ sc)) 0 = (c', "STALL") := by
    rw [← hrun, List.map_map]; rfl
  have hlast := lastLeft_specs mc x xs
  rw [hlast, hleft] at hw
  refine ⟨c', A, hrun', segAll_specs mc (x :: xs) A hseg, ?_⟩
  have e : 0 + (UReq.spec mc x :: xs.map (UReq.spec mc)).length = (x :: xs).length := by simp
  rw [e] at hw
  exact hw

/-- **C12 end to end: EOF at any offset inside the LAST request of a keep-alive chain.**  `x :: xs`: `k` complete
requests (any of the `UReq` families, the last one leaving nothing unread), all answered; then the client sends the
first `j` bytes of a Responder request (`j <` the length of its wire) and closes.  The task returns; no handler start
if the cut is inside the preamble, otherwise exactly one more; the log is the `k` complete segments followed by a byte
prefix of the complete answer to the last request (all of it if the cut is behind the header of the terminating
record). -/
theorem eof_in_last_request_e2e {b mc : Nat} (x : UReq) (xs : List UReq) {p : Preamble} {recs : List Rec}
    {content : Bytes} {srecs : List Rec} {data : Bytes} {st : ExitStatus} {t : Transport} {fuel : Nat} (j : Nat)
    (hok : ∀ y ∈ x :: xs, y.OKu b) (hleft : ((x :: xs).getLast (by simp)).left = [])
    (hwf : WellFormedPreamble p recs) (hrole : p.role = 1)
    (hpairs : ∀ q ∈ p.pairs, (NV.enc q).length ≤ alignedBufsize b)
    (hnoise : NoiseFits (alignedBufsize b) recs)
    (hs : StreamRecs p.id 5 content srecs) (hsn : NoiseFits (alignedBufsize b) srecs)
    (hj : j < (serAll recs ++ serAll srecs).length)
    (hin : t.input = x.wire) (hben : Ben t) (hem : t.endMode = .pend) (hev : hsCount t.events = 0)
    (hfuel : t.rd.length + t.wr.length + 1 ≤ fuel)
    (hhf : wcost data.length + 12 ≤ 1000) :
    ∃ c₁ A c' O₁ O₂,
      -- the first `k` requests: served, the task parked
      closedLoop fuel (xs.map UReq.wire) (connS b mc t ((x :: xs).map UReq.handler ++ [(canonical data st, true)])) 0 =
        (c₁, "STALL") ∧
      SegsAll mc (x :: xs) A ∧ c₁.env.tr.wlog = t.wlog ++ A ∧ hsCount c₁.env.tr.events = (x :: xs).length ∧
      Waiting (alignedBufsize b) mc [] (t.wlog ++ A) [(canonical data st, true)] (x :: xs).length
        (evsAfter ((x :: xs).map (UReq.spec mc)) []) (ans t) c₁ ∧
      -- the cut request
      runTask fuel (feedEnd c₁ ((serAll recs ++ serAll srecs).take j) .eof) 0 none = (c', "RET") ∧
      c'.phase = .finished ∧ O₁ ++ O₂ = owedStream p.id 5 mc srecs ∧
      (∃ w, c'.env.tr.wlog = t.wlog ++ A ++ w ∧ w <+: expectedLogN p recs mc data st O₁ O₂) ∧
      (j < (serAll recs).length → hsCount c'.env.tr.events = (x :: xs).length) ∧
      ((serAll recs).length ≤ j → hsCount c'.env.tr.events = (x :: xs).length + 1 ∧
        startEvent p.request ∈ c'.env.tr.events) ∧
      ((serAll recs).length ≤ j → j < (serAll recs).length + (serAll srecs.dropLast).length + 8 →
        ∃ C, C <+: content ∧ readEofEvent C ∈ c'.env.tr.events ∧ handlerEofEvent ∈ c'.env.tr.events) ∧
      ((serAll recs).length + (serAll srecs.dropLast).length + 8 ≤ j →
        readEvent content ∈ c'.env.tr.events ∧
        c'.env.tr.wlog = t.wlog ++ A ++ expectedLogN p recs mc data st O₁ O₂) := by
  obtain ⟨c₁, A, hrun, hseg, hw⟩ := chain_prefix (mc := mc) x xs [(canonical data st, true)] hok hleft hin hben hem hev hfuel
  obtain ⟨f, rfl⟩ : ∃ f, fuel = f + 1 := ⟨fuel - 1, by omega⟩
  have hleg := last_leg hw ((serAll recs ++ serAll srecs).take j) .eof f 0
  have hb' : Ben (lastT c₁ ((serAll recs ++ serAll srecs).take j) .eof) :=
    ⟨hw.ben.rd, hw.ben.wr, hw.ben.hold, by show EndMode.eof ≠ EndMode.err; decide⟩
  have hans := hw.ans
  have hf' : (lastT c₁ ((serAll recs ++ serAll srecs).take j) .eof).rd.length +
      (lastT c₁ ((serAll recs ++ serAll srecs).take j) .eof).wr.length + 1 ≤ f + 1 := by
    have : ans c₁.env.tr ≤ ans t := hans
    unfold ans at this
    show c₁.env.tr.rd.length + c₁.env.tr.wr.length + 1 ≤ f + 1
    omega
  obtain ⟨c', O1, O2, h1, h2, h3, ⟨w, hw1, hw2⟩, _, h6, h7, h8, h9⟩ :=
    eof_any_offset_e2e_h (data := data) (st := st) (b := b) (mc := mc)
      (t := lastT c₁ ((serAll recs ++ serAll srecs).take j) .eof) (fuel := f + 1) (x :: xs).length j
      hwf hrole hpairs hnoise hs hsn hj rfl hb' rfl hw.hs hf' hhf
  have hlog0 : (lastT c₁ ((serAll recs ++ serAll srecs).take j) .eof).wlog = t.wlog ++ A := hw.log
  rw [hlog0] at hw1 h9
  refine ⟨c₁, A, c', O1, O2, hrun, hseg, hw.log, hw.hs, hw, ?_, h2, h3, ⟨w, hw1, hw2⟩, h6, h7, h8, h9⟩
  rw [hleg]
  exact h1

/-- **… and the transport FAILS at that offset** (instead of ending): the task returns, the same write log and the
same number of handler starts as in the EOF run. -/
theorem read_err_in_last_request_e2e {b mc : Nat} (x : UReq) (xs : List UReq) {p : Preamble} {recs : List Rec}
    {content : Bytes} {srecs : List Rec} {data : Bytes} {st : ExitStatus} {t : Transport} {fuel : Nat} (j : Nat)
    (hok : ∀ y ∈ x :: xs, y.OKu b) (hleft : ((x :: xs).getLast (by simp)).left = [])
    (hwf : WellFormedPreamble p recs) (hrole : p.role = 1)
    (hpairs : ∀ q ∈ p.pairs, (NV.enc q).length ≤ alignedBufsize b)
    (hnoise : NoiseFits (alignedBufsize b) recs)
    (hs : StreamRecs p.id 5 content srecs) (hsn : NoiseFits (alignedBufsize b) srecs)
    (hj : j < (serAll recs ++ serAll srecs).length)
    (hin : t.input = x.wire) (hben : Ben t) (hem : t.endMode = .pend) (hev : hsCount t.events = 0)
    (hfuel : t.rd.length + t.wr.length + 1 ≤ fuel)
    (hhf : wcost data.length + 12 ≤ 1000) :
    ∃ c₁ A ce c' O₁ O₂,
      closedLoop fuel (xs.map UReq.wire) (connS b mc t ((x :: xs).map UReq.handler ++ [(canonical data st, true)])) 0 =
        (c₁, "STALL") ∧
      SegsAll mc (x :: xs) A ∧ c₁.env.tr.wlog = t.wlog ++ A ∧
      runTask fuel (feedEnd c₁ ((serAll recs ++ serAll srecs).take j) .eof) 0 none = (ce, "RET") ∧
      runTask fuel (feedEnd c₁ ((serAll recs ++ serAll srecs).take j) .err) 0 none = (c', "RET") ∧
      c'.phase = .finished ∧ c'.env.tr.wlog = ce.env.tr.wlog ∧
      hsCount c'.env.tr.events = hsCount ce.env.tr.events ∧
      O₁ ++ O₂ = owedStream p.id 5 mc srecs ∧
      (∃ w, c'.env.tr.wlog = t.wlog ++ A ++ w ∧ w <+: expectedLogN p recs mc data st O₁ O₂) ∧
      (j < (serAll recs).length → hsCount c'.env.tr.events = (x :: xs).length) ∧
      ((serAll recs).length ≤ j → hsCount c'.env.tr.events = (x :: xs).length + 1) := by
  obtain ⟨c₁, A, ce, O1, O2, hrun, hseg, hlog, _, hw, hre, hph, hO, ⟨w, hw1, hw2⟩, h6, h7, _, _⟩ :=
    eof_in_last_request_e2e (mc := mc) x xs (data := data) (st := st) j hok hleft hwf hrole hpairs hnoise hs hsn hj hin hben hem hev
      hfuel hhf
  have hp : AllProp (feedEnd c₁ ((serAll recs ++ serAll srecs).take j) .eof) := by
    obtain ⟨phase, env, scripts, stop⟩ := c₁
    have h1 := hw.ph
    have h3 := hw.sc
    simp only at h1 h3
    subst h1 h3
    exact ⟨fun s hs => by
      simp only [feedEnd, List.mem_singleton] at hs
      subst hs; rfl, trivial⟩
  obtain ⟨c', hr, a1, a2, a3, _, _, _, _⟩ := eof_err_lift hp rfl hre
  exact ⟨c₁, A, ce, c', O1, O2, hrun, hseg, hlog, hre, hr, a1.trans hph, a2, a3, hO,
    ⟨w, a2.trans hw1, hw2⟩, fun h => a3.trans (h6 h), fun h => a3.trans (h7 h).1⟩

/-! ## Non-vacuity: two complete requests, then a request cut inside its Stdin record -/
namespace ExampleChain
open Fcgi.C01.Example Fcgi.C07E.Example

theorem q1_oku (b : Nat) : q1.OKu b :=
  ⟨recs_wf, pre_pairs_fit b, noise_fits b, exS_fits _, (fun _ hr => nomatch hr), rfl, exS_ok, by decide⟩
theorem q2_oku (b : Nat) : q2.OKu b :=
  ⟨recsA_wf, (fun _ hq => nomatch hq), recsA_fits _, (fun _ hr => nomatch hr), (fun _ hr => nomatch hr), rfl, by decide⟩

/-- a Responder request (`q1`), an Authorizer request (`q2`), both KEEP_CONN and answered; then the first
`|preamble| + 9` bytes of a third request (one byte of its Stdin content) and EOF: the task returns, three handler
starts, the third handler's `readAll` failed with `UnexpectedEof` -/
example : ∃ c₁ c', closedLoop 20 [q2.wire] (connS 64 10 exT2
      ([UReq.full q1, UReq.full q2].map UReq.handler ++ [(canonical [104, 105] (.complete 0), true)])) 0 = (c₁, "STALL") ∧
    hsCount c₁.env.tr.events = 2 ∧
    runTask 20 (feedEnd c₁ ((serAll recs ++ serAll exS).take ((serAll recs).length + 9)) .eof) 0 none = (c', "RET") ∧
    c'.phase = .finished ∧ hsCount c'.env.tr.events = 3 ∧ handlerEofEvent ∈ c'.env.tr.events := by
  have hlen : (serAll recs).length + 9 < (serAll recs ++ serAll exS).length := by
    have : 17 ≤ (serAll exS).length := by decide +kernel
    rw [List.length_append]; omega
  have hd : 9 < (serAll exS.dropLast).length + 8 := by decide +kernel
  obtain ⟨c₁, A, c', O1, O2, h1, _, _, h4, _, h5, h6, _, _, _, h9, h10, _⟩ :=
    eof_in_last_request_e2e (b := 64) (mc := 10) (.full q1) [.full q2] (p := pre) (recs := recs)
      (content := [65, 66, 67]) (srecs := exS) (data := [104, 105]) (st := .complete 0) (t := exT2) (fuel := 20)
      ((serAll recs).length + 9)
      (fun y hy => by
        simp only [List.mem_cons, List.not_mem_nil, or_false] at hy
        rcases hy with rfl | rfl
        · exact ⟨q1_oku _, by decide⟩
        · exact ⟨q2_oku _, by decide⟩)
      rfl recs_wf rfl (pre_pairs_fit 64) (noise_fits 64) exS_ok (exS_fits _) hlen rfl
      ⟨by decide, by decide, rfl, by decide⟩ rfl rfl (by decide) (by decide)
  obtain ⟨C, _, _, hhe⟩ := h10 (Nat.le_add_right _ _) (by omega)
  exact ⟨c₁, c', h1, h4, h5, h6, (h9 (Nat.le_add_right _ _)).1, hhe⟩

end ExampleChain

end Fcgi.C12E
