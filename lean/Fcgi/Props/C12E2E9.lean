import Fcgi.Proofs.E2EEofErrConn
import Fcgi.Props.C12E2E7

/-!
# C12 — "the transport FAILS the read at the end of the arrived input": every EOF theorem lifted

The model consults the transport's end mode in one place only: a read that finds the input used up
(`Transport.read`).  In `eof` mode it answers `Ok(0)`, in `err` mode `Err(rdErr)` (`ConnectionAborted`
if the transport's `abortKind` is set, `TransportRead` otherwise).  `Proofs/E2EEofErr*.lean` carry this
through every function of the async model (`read_dich`, `inLoop_dich`, `pollInput_dich`,
`handlerPoll_dich`, `boundaryLoop_dich`, `closePoll_dich`, `stepConn_dich`, `pollConn_dich`):

* `runTask_eof_err` — for ANY connection whose handler scripts propagate I/O errors, any fuel, poll
  number and stop request: the run on `em .eof t` and the run on `em .err t` end with the same verdict;
  either they are the same up to the mode (the run never read at the exhausted input), or both
  returned `RET` out of that very read in states related by `HitC`: both `finished`; same scripts, stop
  flag, mutex, held-back segments; transports with the same (empty) input, the SAME write log, the same
  answer scripts and flags; traces equal up to the failing read and, behind it, pairwise `EvPair`:
  `R<cap>:0` ↔ `R<cap>:E` for the read itself, `f "eof"` ↔ `f "<kind>"` for the events that print the
  error kind (`r!…`, `R!…:n:hex`, `f!…`, `w!…`, `HE(err:…)`).  The consumer of the failing read is
  `parse_request` (quiet end in both modes), a handler read / `writeable()` (the handler's future ends
  with `UnexpectedEof` resp. the transport's error), or `close()` (`writeable()` / `record_boundary()`).
* `eof_err_lift` — the form used below: from an eof run that ended `RET`, the err run ends `RET` with
  the same phase, log, handler count, scripts and input, and `c' = emC .err ce ∨ HitC ce c'`.
* `read_err_any_offset_e2e` (Responder), `read_err_any_offset_filter_e2e`,
  `read_err_any_offset_auth_closed_e2e`: the EOF-at-any-offset theorems of `C12E2E2/5/7` for a transport
  that fails instead of ending; they subsume `read_err_in_preamble_e2e` and (up to the literal text
  of the `R!`/`HE` events, which `HitC` gives pairwise) `read_err_mid_stream_e2e*` of `C12E2E2`,
  which stay as they are.

Hypothesis the proof forced: `AllProp` (handlers propagate I/O errors).  A handler that swallows the
error goes on reading in both modes and the two runs stay in lock step but are no longer over at the
first failing read; the property's clause is about propagating handlers.
-/
namespace Fcgi.C12E
open Fcgi Fcgi.Req Fcgi.Str Fcgi.Async Fcgi.Run Fcgi.Spec Fcgi.E2E Fcgi.C07E Fcgi.C07U Fcgi.C12Inv Fcgi.EofErr

theorem em_self {m : EndMode} {t : Transport} (h : t.endMode = m) : em m t = t := by
  obtain ⟨input, endMode, rd, wr, fl, wlog, events, hold, woken, readWaker, abortKind⟩ := t
  simp only at h
  subst h
  rfl

theorem emC_self {m : EndMode} {c : Conn} (h : c.env.tr.endMode = m) : emC m c = c := by
  obtain ⟨phase, ⟨tr, mutex, segs⟩, scripts, stop⟩ := c
  simp only at h
  show (⟨phase, ⟨em m tr, mutex, segs⟩, scripts, stop⟩ : Conn) = _
  rw [em_self h]

/-- **The executor: end-of-file vs. a failing read** (restated from `Proofs/E2EEofErrConn`). -/
theorem runTask_eof_err' (fuel : Nat) (c : Conn) (n : Nat) (sa : Option Nat) (hp : AllProp c) :
    (∃ c' fin, runTask fuel (emC .eof c) n sa = (emC .eof c', fin) ∧
      runTask fuel (emC .err c) n sa = (emC .err c', fin)) ∨
    (∃ c1 c2, runTask fuel (emC .eof c) n sa = (c1, "RET") ∧ runTask fuel (emC .err c) n sa = (c2, "RET") ∧
      HitC c1 c2) :=
  runTask_eof_err fuel c n sa hp

/-- a handler-start event is not among the events that differ -/
theorem hs_mem_of_hit {c1 c2 : Conn} (h : HitC c1 c2) {s : String} (hs : isHS s = true)
    (hm : s ∈ c1.env.tr.events) : s ∈ c2.env.tr.events := by
  obtain ⟨pre, ps, hx, hy, _, hall⟩ := h.tr.ev
  rw [hx] at hm
  rw [hy]
  rcases List.mem_append.1 hm with hm | hm
  · exact List.mem_append_left _ hm
  · exfalso
    obtain ⟨p, hp, rfl⟩ := List.mem_map.1 hm
    have := (hall p hp).quiet.1
    rw [hs] at this; cases this

/-- **Lifting an EOF run**: the transport that fails instead of ending. -/
theorem eof_err_lift {c ce : Conn} {fuel n : Nat} {sa : Option Nat} (hp : AllProp c)
    (hem : c.env.tr.endMode = .eof) (hrun : runTask fuel c n sa = (ce, "RET")) :
    ∃ c', runTask fuel (emC .err c) n sa = (c', "RET") ∧ c'.phase = ce.phase ∧
      c'.env.tr.wlog = ce.env.tr.wlog ∧ hsCount c'.env.tr.events = hsCount ce.env.tr.events ∧
      c'.scripts = ce.scripts ∧ c'.env.tr.input = ce.env.tr.input ∧
      (∀ s, isHS s = true → s ∈ ce.env.tr.events → s ∈ c'.env.tr.events) ∧
      (c' = emC .err ce ∨ HitC ce c') := by
  have hc : emC .eof c = c := emC_self hem
  rcases runTask_eof_err fuel c n sa hp with ⟨c0, fin, h1, h2⟩ | ⟨c1, c2, h1, h2, hh⟩
  · rw [hc, hrun] at h1
    obtain ⟨rfl, rfl⟩ := Prod.mk.inj h1
    exact ⟨emC .err c0, h2, rfl, rfl, rfl, rfl, rfl, fun s _ h => h, Or.inl rfl⟩
  · rw [hc, hrun] at h1
    obtain ⟨rfl, _⟩ := Prod.mk.inj h1
    exact ⟨c2, h2, hh.ph2.trans hh.ph1.symm, hh.tr.wlog, hh.tr.ev.hs.symm, hh.sc,
      hh.tr.inpb.trans hh.tr.inpa.symm, fun s hs hm => hs_mem_of_hit hh hs hm, Or.inr hh⟩

theorem connS_allProp (b mc : Nat) (t : Transport) (h : List HOp) (more : List (List HOp × Bool))
    (hm : ∀ s ∈ more, s.2 = true) : AllProp (connS b mc t ((h, true) :: more)) :=
  ⟨fun s hs => by
    simp only [connS, List.mem_cons] at hs
    rcases hs with rfl | hs
    · rfl
    · exact hm s hs, trivial⟩

theorem isHS_start (rq : Request) : isHS (startEvent rq) = true := isHS_hsEvent rq

/-- **C12 end to end, Responder: the transport FAILS at any byte offset `k` of the wire** (`t` is the
transport of `eof_any_offset_e2e`; the run is on `em .err t`). -/
theorem read_err_any_offset_e2e {p : Preamble} {recs : List Rec} {content : Bytes} {srecs : List Rec}
    {b mc : Nat} {data : Bytes} {st : ExitStatus} {t : Transport} {fuel : Nat} (k : Nat)
    (hwf : WellFormedPreamble p recs) (hrole : p.role = 1)
    (hpairs : ∀ q ∈ p.pairs, (NV.enc q).length ≤ alignedBufsize b)
    (hnoise : NoiseFits (alignedBufsize b) recs)
    (hs : StreamRecs p.id 5 content srecs) (hsn : NoiseFits (alignedBufsize b) srecs)
    (hin : t.input = (serAll recs ++ serAll srecs).take k) (hben : Ben t) (hem : t.endMode = .eof)
    (hev : hsCount t.events = 0) (hfuel : t.rd.length + t.wr.length + 1 ≤ fuel)
    (hsize : 4 * t.input.length + 17 ≤ 100000)
    (hhf : alignedBufsize b / 32 + wcost data.length + 12 ≤ 1000) :
    ∃ c' O₁ O₂, runTask fuel (conn0 b mc (em .err t) data st) 0 none = (c', "RET") ∧ c'.phase = .finished ∧
      O₁ ++ O₂ = owedStream p.id 5 mc srecs ∧
      (∃ w, c'.env.tr.wlog = t.wlog ++ w ∧ w <+: expectedLogN p recs mc data st O₁ O₂) ∧
      hsCount c'.env.tr.events ≤ 1 ∧
      (k < (serAll recs).length → hsCount c'.env.tr.events = 0) ∧
      ((serAll recs).length ≤ k → hsCount c'.env.tr.events = 1 ∧ startEvent p.request ∈ c'.env.tr.events) ∧
      ((serAll recs).length + (serAll srecs.dropLast).length + 8 ≤ k →
        c'.env.tr.wlog = t.wlog ++ expectedLogN p recs mc data st O₁ O₂) ∧
      -- the relation to the EOF run
      ∃ ce, runTask fuel (conn0 b mc t data st) 0 none = (ce, "RET") ∧ (c' = emC .err ce ∨ HitC ce c') := by
  obtain ⟨ce, O1, O2, hrun, hph, hO, ⟨w, hw1, hw2⟩, h5, h6, h7, _, h9⟩ := eof_any_offset_e2e (data := data) (st := st)
    (fuel := fuel) k hwf hrole hpairs hnoise hs hsn hin hben hem hev hfuel hsize hhf
  obtain ⟨c', hr, a1, a2, a3, _, _, a6, a7⟩ := eof_err_lift (c := conn0 b mc t data st) (connS_allProp b mc t (canonical data st) [] (fun _ h => nomatch h)) hem hrun
  refine ⟨c', O1, O2, hr, a1.trans hph, hO, ⟨w, a2.trans hw1, hw2⟩, by rw [a3]; exact h5,
    fun h => a3.trans (h6 h), fun h => ⟨a3.trans (h7 h).1, a6 _ (isHS_start _) (h7 h).2⟩,
    fun h => a2.trans (h9 h).2, ce, hrun, a7⟩

/-- **… Filter.** -/
theorem read_err_any_offset_filter_e2e {p : Preamble} {recs srecs drecs : List Rec} {content content2 : Bytes}
    {b mc : Nat} {data : Bytes} {st : ExitStatus} {t : Transport} {fuel : Nat} (k : Nat)
    (hwf : WellFormedPreamble p recs) (hrole : p.role = 3)
    (hpairs : ∀ q ∈ p.pairs, (NV.enc q).length ≤ alignedBufsize b) (hnoise : NoiseFits (alignedBufsize b) recs)
    (hs : StreamRecs p.id 5 content srecs) (hsn : NoiseFits (alignedBufsize b) srecs)
    (hd : StreamRecs p.id 8 content2 drecs) (hdn : NoiseFits (alignedBufsize b) drecs)
    (hin : t.input = (serAll recs ++ (serAll srecs ++ serAll drecs)).take k)
    (hb : Ben t) (hem : t.endMode = .eof) (hev : hsCount t.events = 0)
    (hfuel : t.rd.length + t.wr.length + 1 ≤ fuel) (hsize : 4 * t.input.length + 17 ≤ 100000)
    (hhf : alignedBufsize b / 16 + wcost data.length + 24 ≤ 1000) :
    ∃ c' O₁ O₂, runTask fuel (connS b mc (em .err t) [(canonicalF data st, true)]) 0 none = (c', "RET") ∧
      c'.phase = .finished ∧ O₁ ++ O₂ = owedStream p.id 5 mc srecs ++ owedStream p.id 8 mc drecs ∧
      (∃ w, c'.env.tr.wlog = t.wlog ++ w ∧ w <+: expectedLogN p recs mc data st O₁ O₂) ∧
      hsCount c'.env.tr.events ≤ 1 ∧
      (k < (serAll recs).length → hsCount c'.env.tr.events = 0) ∧
      ((serAll recs).length ≤ k → hsCount c'.env.tr.events = 1 ∧ startEvent p.request ∈ c'.env.tr.events) ∧
      ((serAll recs).length + (serAll srecs).length + (serAll drecs.dropLast).length + 8 ≤ k →
        c'.env.tr.wlog = t.wlog ++ expectedLogN p recs mc data st O₁ O₂) ∧
      ∃ ce, runTask fuel (connS b mc t [(canonicalF data st, true)]) 0 none = (ce, "RET") ∧
        (c' = emC .err ce ∨ HitC ce c') := by
  obtain ⟨ce, O1, O2, hrun, hph, hO, ⟨w, hw1, hw2⟩, h5, h6, h7, _, _, h10⟩ := eof_any_offset_filter_all_e2e
    (data := data) (st := st) (fuel := fuel) k hwf hrole hpairs hnoise hs hsn hd hdn hin hb hem hev hfuel hsize hhf
  obtain ⟨c', hr, a1, a2, a3, _, _, a6, a7⟩ :=
    eof_err_lift (connS_allProp b mc t (canonicalF data st) [] (fun _ h => nomatch h)) hem hrun
  refine ⟨c', O1, O2, hr, a1.trans hph, hO, ⟨w, a2.trans hw1, hw2⟩, by rw [a3]; exact h5,
    fun h => a3.trans (h6 h), fun h => ⟨a3.trans (h7 h).1, a6 _ (isHS_start _) (h7 h).2⟩,
    fun h => a2.trans (h10 h).2.2, ce, hrun, a7⟩

/-- **… Authorizer with tail traffic, closed form**: the EOF run ends in `AuthCutFail2` or `AuthCutEnd`
(`eof_any_offset_auth_closed_e2e`); the failing run ends `RET`, `finished`, with the SAME write log and
handler count. -/
theorem read_err_any_offset_auth_closed_e2e {p : Preamble} {recs tail : List Rec} {b mc : Nat} {rd : ARead} {wr : Bool}
    {data : Bytes} {st : ExitStatus} {more : List (List HOp × Bool)} {t : Transport} {fuel : Nat} (k : Nat)
    (hwf : WellFormedPreamble p recs) (hrole : p.role = 2)
    (hpairs : ∀ q ∈ p.pairs, (NV.enc q).length ≤ alignedBufsize b)
    (hnoise : NoiseFits (alignedBufsize b) recs)
    (htail : ∀ r ∈ tail, StreamNoise p.id r) (htn : NoiseFits (alignedBufsize b) tail)
    (hnb : ∀ r ∈ tail, r.rtype.toNat ≠ RT.beginRequest)
    (hwd : wr = false → data = []) (hmore : ∀ s ∈ more, s.2 = true)
    (hin : t.input = (serAll recs ++ serAll tail).take k) (hben : Ben t) (hem : t.endMode = .eof)
    (hev : hsCount t.events = 0)
    (hfuel : t.rd.length + t.wr.length + 1 ≤ fuel) (hsize : 6 * t.input.length + 26 ≤ 100000)
    (hhf : wcost data.length + 8 ≤ 1000) :
    ∃ ce c', runTask fuel (connS b mc t ((aHandler rd wr data st, true) :: more)) 0 none = (ce, "RET") ∧
      runTask fuel (connS b mc (em .err t) ((aHandler rd wr data st, true) :: more)) 0 none = (c', "RET") ∧
      c'.phase = .finished ∧ c'.env.tr.wlog = ce.env.tr.wlog ∧
      hsCount c'.env.tr.events = hsCount ce.env.tr.events ∧ c'.scripts = ce.scripts ∧
      (c' = emC .err ce ∨ HitC ce c') ∧
      -- the EOF run's closed form
      ((k < (serAll recs).length ∧ hsCount ce.env.tr.events = 0 ∧
          ∃ out, ce.env.tr.wlog = t.wlog ++ out ∧ out <+: owedPreamble p mc recs) ∨
       ((serAll recs).length ≤ k ∧
          (AuthCutFail2 p recs tail rd mc data more ((serAll tail).drop (k - (serAll recs).length)) t ce ∨
           ∃ t₁ t₂ O₁ O₂ U, AuthCutEnd p recs tail t₁ t₂ O₁ O₂ U rd mc data st more
             ((serAll tail).drop (k - (serAll recs).length)) t ce))) := by
  obtain ⟨ce, hrun, hph, hcl⟩ := eof_any_offset_auth_closed_e2e (more := more) (fuel := fuel) (rd := rd) (wr := wr)
    (data := data) (st := st) k hwf hrole hpairs hnoise htail htn hnb hwd hin hben hem hev hfuel hsize hhf
  obtain ⟨c', hr, a1, a2, a3, a4, _, _, a7⟩ :=
    eof_err_lift (connS_allProp b mc t (aHandler rd wr data st) more hmore) hem hrun
  refine ⟨ce, c', hrun, hr, a1.trans hph, a2, a3, a4, a7, ?_⟩
  rcases hcl with ⟨h1, _, h3, h4⟩ | h
  · exact Or.inl ⟨h1, h3, h4⟩
  · exact Or.inr h

/-! ## Non-vacuity -/

/-- the Responder example wire of `C07E.Example` cut one byte into the Stdin body, the transport then
ABORTS (`abortKind`): the task returns, one handler start, the same log as the EOF run -/
example : ∃ c', runTask 20 (conn0 64 10 (em .err
      { input := (serAll C01.Example.recs ++ serAll C07E.Example.exS).take ((serAll C01.Example.recs).length + 9),
        endMode := .eof, rd := [.n 20, .pending], wr := [], fl := [], abortKind := true }) [104, 105] (.complete 0)) 0 none =
      (c', "RET") ∧ c'.phase = .finished ∧ hsCount c'.env.tr.events = 1 := by
  have hlen : ((serAll C01.Example.recs ++ serAll C07E.Example.exS).take ((serAll C01.Example.recs).length + 9)).length ≤ 200 := by
    rw [List.length_take]
    have : (serAll C01.Example.recs).length ≤ 150 := by decide +kernel
    omega
  obtain ⟨c', O1, O2, h1, h2, _, _, _, _, h7, _⟩ := read_err_any_offset_e2e (p := C01.Example.pre)
    (recs := C01.Example.recs) (content := [65, 66, 67]) (srecs := C07E.Example.exS) (b := 64) (mc := 10)
    (data := [104, 105]) (st := .complete 0) (fuel := 20)
    (t := { input := (serAll C01.Example.recs ++ serAll C07E.Example.exS).take ((serAll C01.Example.recs).length + 9),
            endMode := .eof, rd := [.n 20, .pending], wr := [], fl := [], abortKind := true })
    ((serAll C01.Example.recs).length + 9)
    C01.Example.recs_wf rfl (C01.Example.pre_pairs_fit 64) (C01.Example.noise_fits 64) C07E.Example.exS_ok
    (C07E.Example.exS_fits _) rfl ⟨by decide, by decide, rfl, by decide⟩ rfl rfl (by decide)
    (Nat.le_trans (Nat.add_le_add_right (Nat.mul_le_mul_left 4 hlen) 17) (by decide)) (by decide)
  exact ⟨c', h1, h2, (h7 (by omega)).1⟩

end Fcgi.C12E
