import Fcgi.Proofs.E2ETruncCut
import Fcgi.Props.C07E2E

/-!
# C12 — end to end: the input ends at an arbitrary byte offset

The wire of a well-formed request (`Props/C07E2E.lean`) is cut after `k` bytes and the transport then
reports end-of-file; reads are split arbitrarily, reads and writes answer `Pending` whenever they like
(never with an error): `Ben t`, `t.endMode = .eof`.

* `eof_in_preamble_e2e_partial` — `k` inside the preamble: no handler is started, the task returns
  (`RET`, phase `finished`, no `close`), within `|rd| + |wr| + 1` polls; the write log grew by exactly
  what ONE run of the request parser over the `k` bytes outputs, a prefix of the replies owed for the
  whole preamble.
* `eof_in_preamble_e2e_full` / `_full_false` — the same with the log stated at RECORD granularity
  (the replies owed for the records that are completely inside the `k` bytes) is FALSE: the parser
  answers an unknown-type record as soon as it has its 8-byte header, and a management `GetValues`
  record as soon as it has its content (before the padding).
* `eof_mid_stream_e2e` — `k` inside the `Stdin` stream (the reference says "more input needed" on the
  part `Y` of the stream's wire that arrived, with content `C` and owed replies `O`): exactly one
  handler start, for the request sent; its `readAll` collects exactly `C` and then fails with
  `UnexpectedEof` (never a clean end); the propagating handler returns that error; the task returns
  without `close`: the write log holds the preamble replies and `O` and nothing else — no `Stdout`,
  no `EndRequest`.
* `eof_mid_stream_e2e_body` — the instance for the canonical Responder handler and a cut anywhere in
  front of the 8th byte of the terminating empty record of a well-formed stream (before the parser
  can see that record's header): there `C` is a prefix of the content sent and `O` a prefix of the
  replies owed for the stream's noise (`cut_of_body'`) — the log is a prefix of the log of the
  complete run (`C07E.single_request_e2e`) that ends in front of the handler's output.
  (From the 8th byte of the terminating record on the stream ends cleanly for the parser: that is
  the situation of `C07E.single_request_e2e`, apart from the missing padding bytes.)
-/
namespace Fcgi.C12E
open Fcgi Fcgi.Req Fcgi.Str Fcgi.Async Fcgi.Run Fcgi.Spec Fcgi.E2E Fcgi.C07E

/-! ## 1. The input ends inside the preamble -/

/-- the records that are completely inside the first `k` bytes of `serAll recs` -/
def wholeRecs : List Rec → Nat → List Rec
  | [], _ => []
  | r :: rs, k => if r.ser.length ≤ k then r :: wholeRecs rs (k - r.ser.length) else []

/-- **The input ends inside the preamble.** -/
theorem eof_in_preamble_e2e_partial {p : Preamble} {recs : List Rec} (X : Bytes) (b mc k : Nat)
    (scripts : List (List HOp × Bool)) (t : Transport) (fuel : Nat)
    (hwf : WellFormedPreamble p recs)
    (hpairs : ∀ q ∈ p.pairs, (NV.enc q).length ≤ alignedBufsize b) (hnoise : NoiseFits (alignedBufsize b) recs)
    (hk : k < (serAll recs).length) (hin : t.input = (serAll recs ++ X).take k)
    (hb : Ben t) (hem : t.endMode = .eof)
    (hfuel : t.rd.length + t.wr.length + 1 ≤ fuel) (hlen : 2 * t.input.length + 5 ≤ 100000) :
    ∃ c', runTask fuel (connS b mc t scripts) 0 none = (c', "RET") ∧ c'.phase = .finished ∧
      c'.env.tr.input = [] ∧ hsCount c'.env.tr.events = hsCount t.events ∧ c'.scripts = scripts ∧
      c'.env.tr.wlog = t.wlog ++ (run .header t.input mc).out ∧
      (run .header t.input mc).out <+: owedPreamble p mc recs := by
  have htake : t.input = (serAll recs).take k := by
    rw [hin, List.take_append_of_le_length (Nat.le_of_lt hk)]
  have hdrop : (serAll recs).drop k ≠ [] := by
    intro h
    have := congrArg List.length h
    simp only [List.length_drop, List.length_nil] at this
    omega
  have hK : TCtx (alignedBufsize b) mc t.input ((serAll recs ++ X).drop k) (serAll recs ++ X) :=
    ⟨alignedBufsize_ge b, by rw [hin]; exact List.take_append_drop _ _, noStuck_of hwf X b mc hpairs hnoise, by
      rintro F ⟨z, hz⟩
      refine prefix_not_final hwf (w := F) (t := z ++ (serAll recs).drop k) ?_ ?_ mc
      · rw [← List.append_assoc, hz, htake, List.take_append_drop]
      · intro h; exact hdrop (List.append_eq_nil_iff.mp h).2⟩
  obtain ⟨c', hrun, hfin, hsc⟩ := trunc_run_start hK (c := connS b mc t scripts) (n := 0) (fuel := fuel)
    rfl rfl rfl hb hem rfl hfuel hlen
  refine ⟨c', hrun, hfin.phase, hfin.input, hfin.hs, hsc, hfin.wlog, ?_⟩
  have hsplit := Req.run_split (st := .header) trivial ((serAll recs).take k) ((serAll recs).drop k) mc hdrop
  rw [List.take_append_drop] at hsplit
  have hone := C01.C01_oneshot hwf [] mc
  rw [List.append_nil] at hone
  have hout : owedPreamble p mc recs = (run .header (serAll recs) mc).out := by rw [hone]
  rw [hout, hsplit, htake]
  exact List.prefix_append _ _

/-- The statement at record granularity: the log grows by exactly the replies owed for the records
that are completely inside the `k` bytes. -/
def eof_in_preamble_e2e_full : Prop :=
  ∀ (p : Preamble) (recs : List Rec) (X : Bytes) (b mc k : Nat) (scripts : List (List HOp × Bool))
    (t : Transport) (fuel : Nat),
    WellFormedPreamble p recs →
    (∀ q ∈ p.pairs, (NV.enc q).length ≤ alignedBufsize b) → NoiseFits (alignedBufsize b) recs →
    k < (serAll recs).length → t.input = (serAll recs ++ X).take k → Ben t → t.endMode = .eof →
    t.rd.length + t.wr.length + 1 ≤ fuel → 2 * t.input.length + 5 ≤ 100000 →
    ∃ c', runTask fuel (connS b mc t scripts) 0 none = (c', "RET") ∧ c'.phase = .finished ∧
      hsCount c'.env.tr.events = hsCount t.events ∧
      c'.env.tr.wlog = t.wlog ++ owedPreamble p mc (wholeRecs recs k)

/-! ### The witness: an unknown-type record whose padding has not arrived is already answered -/

namespace Example
open Fcgi.C01.Example Fcgi.C07E.Example

/-- an unknown record type with 3 bytes of padding -/
def unkRec : Rec := { rtype := 99, id := 0, content := [], pad := [0, 0, 0] }

/-- `C01.Example.recs` behind it -/
def recsU : List Rec := unkRec :: recs

theorem recsU_wf : WellFormedPreamble pre recsU :=
  .noise _ ⟨⟨by decide, by decide, by decide⟩, fun h => by cases h⟩ recs_wf

theorem recsU_fits (b : Nat) : NoiseFits (alignedBufsize b) recsU := by
  intro r hr hg
  rcases List.mem_cons.1 hr with rfl | hr
  · exact absurd hg.1 (by decide)
  · exact noise_fits b r hr hg

/-- the first 8 bytes of the wire: the header of `unkRec` -/
def tU : Transport :=
  { input := (serAll recsU ++ []).take 8, endMode := .eof, rd := [.pending, .n 5], wr := [.pending, .n 3], fl := [] }

theorem tU_ben : Ben tU := ⟨by decide, by decide, rfl, by decide⟩

theorem tU_input : tU.input = [1, 99, 0, 0, 0, 0, 3, 0] := by decide +kernel

theorem run_tU : (run .header tU.input 10).out = UnknownType.toRecord 99 0 := by
  rw [tU_input, run]
  decide

end Example

theorem eof_in_preamble_e2e_full_false : ¬ eof_in_preamble_e2e_full := by
  intro h
  open Example Fcgi.C01.Example Fcgi.C07E.Example in
  have hk : 8 < (serAll recsU).length := by decide +kernel
  open Example Fcgi.C01.Example Fcgi.C07E.Example in
  obtain ⟨c1, h1, _, _, hl1⟩ := h pre recsU [] 64 10 8 [] tU 5 recsU_wf (pre_pairs_fit 64) (recsU_fits 64)
    hk rfl tU_ben rfl (by decide) (by decide +kernel)
  open Example Fcgi.C01.Example Fcgi.C07E.Example in
  obtain ⟨c2, h2, _, _, _, _, hl2, _⟩ := eof_in_preamble_e2e_partial (p := pre) (recs := recsU) [] 64 10 8 [] tU 5
    recsU_wf (pre_pairs_fit 64) (recsU_fits 64) hk rfl tU_ben rfl (by decide) (by decide +kernel)
  rw [h1] at h2
  cases h2
  rw [hl1, Example.run_tU] at hl2
  have hw : wholeRecs Example.recsU 8 = [] := by decide +kernel
  rw [hw] at hl2
  have := List.append_cancel_left hl2
  exact absurd this (by decide)

/-- Non-vacuity of `eof_in_preamble_e2e_partial`: the wire of `C01.Example` cut after 37 bytes (in the
middle of its third record); the `GetValues` record in front of the `BeginRequest` has been answered,
nothing else. -/
example : ∃ c', runTask 6 (connS 64 10
      { input := (serAll C01.Example.recs ++ []).take 37, endMode := .eof, rd := [.n 3, .pending, .n 20],
        wr := [.n 2, .pending], fl := [] } []) 0 none = (c', "RET") ∧
    c'.phase = .finished ∧ hsCount c'.env.tr.events = 0 ∧
    c'.env.tr.wlog <+: owedPreamble C01.Example.pre 10 C01.Example.recs := by
  obtain ⟨c', h1, h2, _, h4, _, h6, h7⟩ := eof_in_preamble_e2e_partial (p := C01.Example.pre)
    (recs := C01.Example.recs) [] 64 10 37 []
    { input := (serAll C01.Example.recs ++ []).take 37, endMode := .eof, rd := [.n 3, .pending, .n 20],
      wr := [.n 2, .pending], fl := [] } 6 C01.Example.recs_wf (C01.Example.pre_pairs_fit 64)
    (C01.Example.noise_fits 64) (by decide +kernel) rfl ⟨by decide, by decide, rfl, by decide⟩ rfl (by decide)
    (by decide +kernel)
  exact ⟨c', h1, h2, h4, by rw [h6]; exact h7⟩

/-! ## 2. The input ends inside the stream the handler reads -/

/-- the trace event of a `readAll` that failed with `UnexpectedEof` after collecting `bytes` -/
abbrev readEofEvent (bytes : Bytes) : String := reEvent bytes

/-- the trace event of the handler future ending with `Err(UnexpectedEof)` -/
abbrev handlerEofEvent : String := heEvent

/-- **The input ends inside the stream the handler reads.**  `Y` = the part of the stream's wire
that arrived; the reference (`refWire`, C03) says "more input needed" on it, after the content `C`
and the replies `O`. -/
theorem eof_mid_stream_e2e {p : Preamble} {recs : List Rec} (Y C O U : Bytes) (b mc : Nat) (rest : List HOp)
    (more : List (List HOp × Bool)) (t : Transport) (fuel : Nat)
    (hwf : WellFormedPreamble p recs) (hrole : p.role = 1 ∨ p.role = 3)
    (hpairs : ∀ q ∈ p.pairs, (NV.enc q).length ≤ alignedBufsize b) (hnoise : NoiseFits (alignedBufsize b) recs)
    (hcut : refWire ⟨p.id, p.role, 5, mc⟩ Y = ⟨C, O, .more, U⟩)
    (hfits : ∀ G, G <+: Y → (refWire ⟨p.id, p.role, 5, mc⟩ G).verdict = .more →
      (refWire ⟨p.id, p.role, 5, mc⟩ G).unread.length < alignedBufsize b)
    (hin : t.input = serAll recs ++ Y) (hb : Ben t) (hem : t.endMode = .eof)
    (hfuel : t.rd.length + t.wr.length + 1 ≤ fuel) (hlen : 2 * t.input.length + 7 ≤ 100000)
    (hcap : alignedBufsize b / 32 + 8 ≤ 1000) :
    ∃ c', runTask fuel (connS b mc t ((.readAll :: rest, true) :: more)) 0 none = (c', "RET") ∧
      c'.phase = .finished ∧ c'.env.tr.input = [] ∧
      c'.env.tr.wlog = t.wlog ++ owedPreamble p mc recs ++ O ∧
      hsCount c'.env.tr.events = hsCount t.events + 1 ∧ startEvent p.request ∈ c'.env.tr.events ∧
      readEofEvent C ∈ c'.env.tr.events ∧ handlerEofEvent ∈ c'.env.tr.events ∧ c'.scripts = more := by
  let g : MCfg := ⟨p, recs, b, mc, Y, C, O, U, rest, more, t.wlog, hsCount t.events⟩
  have ok : g.OK := ⟨hwf, hrole, hpairs, hnoise, ⟨hcut, hfits, by have := alignedBufsize_ge b; show 8 ≤ alignedBufsize b; omega⟩, hcap⟩
  obtain ⟨c', hrun, hfin⟩ := mid_run_start ok (c := connS b mc t ((.readAll :: rest, true) :: more)) (n := 0)
    (fuel := fuel) rfl rfl hin rfl hb hem rfl rfl rfl rfl hfuel hlen
  exact ⟨c', hrun, hfin.phase, hfin.input, hfin.wlog, hfin.hs, hfin.start, hfin.rerr, hfin.herr, hfin.scripts⟩

theorem wf_id_lt {p : Preamble} {recs : List Rec} (h : WellFormedPreamble p recs) : p.id < 65536 := by
  induction h with
  | noise r hn t ih => exact ih
  | «begin» pad res body5 hb hp hid hrole hl t => exact hid.2

/-- **… for the canonical Responder handler and a cut anywhere in front of the 8th byte of the
terminating record of a well-formed `Stdin` stream** (`srecs.dropLast` = its data records and
noise): the handler has read a prefix `C` of the content when its read fails. -/
theorem eof_mid_stream_e2e_body {p : Preamble} {recs srecs : List Rec} {content : Bytes} (Y : Bytes)
    (b mc : Nat) (data : Bytes) (st : ExitStatus) (t : Transport) (fuel : Nat)
    (hwf : WellFormedPreamble p recs) (hrole : p.role = 1)
    (hpairs : ∀ q ∈ p.pairs, (NV.enc q).length ≤ alignedBufsize b) (hnoise : NoiseFits (alignedBufsize b) recs)
    (hs : StreamRecs p.id 5 content srecs) (hsn : NoiseFits (alignedBufsize b) srecs)
    (hY : Y <+: serAll srecs) (hYl : Y.length < (serAll srecs.dropLast).length + 8)
    (hin : t.input = serAll recs ++ Y) (hb : Ben t) (hem : t.endMode = .eof)
    (hfuel : t.rd.length + t.wr.length + 1 ≤ fuel) (hlen : 2 * t.input.length + 7 ≤ 100000)
    (hcap : alignedBufsize b / 32 + 8 ≤ 1000) :
    ∃ c' C O, runTask fuel (conn0 b mc t data st) 0 none = (c', "RET") ∧
      c'.phase = .finished ∧ c'.env.tr.input = [] ∧ C <+: content ∧ O <+: owedStream p.id 5 mc srecs ∧
      c'.env.tr.wlog = t.wlog ++ owedPreamble p mc recs ++ O ∧
      hsCount c'.env.tr.events = hsCount t.events + 1 ∧ startEvent p.request ∈ c'.env.tr.events ∧
      readEofEvent C ∈ c'.env.tr.events ∧ handlerEofEvent ∈ c'.env.tr.events := by
  obtain ⟨body, pad, res, _, hbody, hsr⟩ := Str.StreamRecs.split hs
  have hdl : srecs.dropLast = body := by rw [hsr]; exact List.dropLast_concat
  rw [hdl] at hYl
  rw [hsr, C02.serAll_append] at hY
  have hid : p.id < 65536 := wf_id_lt hwf
  have hfitb : NoiseFits (alignedBufsize b) body := fun r hr => hsn r (by rw [hsr]; exact List.mem_append_left _ hr)
  have h8 : 8 ≤ alignedBufsize b := by have := alignedBufsize_ge b; omega
  have hcutY : ∃ C O U, refWire ⟨p.id, p.role, 5, mc⟩ Y = ⟨C, O, .more, U⟩ ∧ C <+: content ∧
      O <+: owedStream p.id 5 mc body ∧ (∀ G, G <+: Y → (refWire ⟨p.id, p.role, 5, mc⟩ G).verdict = .more →
        (refWire ⟨p.id, p.role, 5, mc⟩ G).unread.length < alignedBufsize b) := by
    rcases prefix_append_cases hY with ⟨w, rfl, _⟩ | ⟨z, _, hz⟩
    · refine cut_of_body' p.id p.role mc hid hbody h8 hfitb (h := w) ?_ (List.prefix_refl _)
      simp only [List.length_append] at hYl
      omega
    · exact cut_of_body p.id p.role mc hid hbody h8 hfitb ⟨z, hz⟩
  obtain ⟨C, O, U, hcut, hC, hO, hfits⟩ := hcutY
  have hO' : O <+: owedStream p.id 5 mc srecs := by
    rw [hsr, Str.owedStream_append]
    exact hO.trans (List.prefix_append _ _)
  obtain ⟨c', h1, h2, h3, h4, h5, h6, h7, h8, _⟩ := eof_mid_stream_e2e Y C O U b mc _ [] t fuel hwf (Or.inl hrole)
    hpairs hnoise hcut hfits hin hb hem hfuel hlen hcap
  exact ⟨c', C, O, h1, h2, h3, hC, hO', h4, h5, h6, h7, h8⟩

/-- Non-vacuity: the wire of `C07E.Example` (preamble `C01.Example.recs`, stream `exS` with content
"ABC") cut after the "AB" of its data record. -/
example : ∃ c' C O, runTask 8 (conn0 64 10
      { input := serAll C01.Example.recs ++ (serAll C07E.Example.exS).take 19, endMode := .eof,
        rd := [.n 10, .pending, .n 60, .pending, .n 7], wr := [.n 5, .pending], fl := [] }
      [104, 105] (.complete 0)) 0 none = (c', "RET") ∧
    c'.phase = .finished ∧ C <+: [65, 66, 67] ∧ O = [] ∧
    c'.env.tr.wlog = owedPreamble C01.Example.pre 10 C01.Example.recs ++ O ∧
    hsCount c'.env.tr.events = 1 ∧ readEofEvent C ∈ c'.env.tr.events ∧ handlerEofEvent ∈ c'.env.tr.events := by
  obtain ⟨c', C, O, h1, h2, _, h4, hO, h5, h6, _, h8, h9⟩ := eof_mid_stream_e2e_body (p := C01.Example.pre)
    (recs := C01.Example.recs) (srecs := C07E.Example.exS) (content := [65, 66, 67])
    ((serAll C07E.Example.exS).take 19) 64 10 [104, 105] (.complete 0)
    { input := serAll C01.Example.recs ++ (serAll C07E.Example.exS).take 19, endMode := .eof,
      rd := [.n 10, .pending, .n 60, .pending, .n 7], wr := [.n 5, .pending], fl := [] } 8
    C01.Example.recs_wf rfl (C01.Example.pre_pairs_fit 64) (C01.Example.noise_fits 64) C07E.Example.exS_ok
    (C07E.Example.exS_fits _) (by decide +kernel) (by decide +kernel) rfl ⟨by decide, by decide, rfl, by decide⟩ rfl (by decide)
    (by decide +kernel) (by decide)
  have hO : O <+: owedStream 1 5 10 C07E.Example.exS := hO
  rw [C07E.Example.exS_quiet] at hO
  exact ⟨c', C, O, h1, h2, h4, List.prefix_nil.mp hO, h5, h6, h8, h9⟩

end Fcgi.C12E
