import Fcgi.Proofs.E2EAbortFill2
import Fcgi.Props.C11E2E
/-!
# C11 — AbortRequest AFTER a prefix of the Stdin content, Responder reading through `fill_buf` / `consume`

`Props/C11Abort2.abort_fill_e2e` with Stdin content in front of the `AbortRequest` record:

`abort_fill_prefix_e2e`: a Responder request (with or without KEEP_CONN), the wire = preamble ++ `body` ++
`AbortRequest(id)`, `body` = Stdin records carrying `content` with any noise in between (`Body id 5 content body`; NO
end-of-stream record), any benign transport.  The handler is `n` rounds of `fill_buf().await; consume(k)` (`k > 0`,
`|content| ≤ n ≤ 495`), one more `fill_buf`, then anything (`rest`), errors propagated.  Then:

* exactly ONE handler start; the handler sees slices `shown` (each one an `f=` event of the trace) of which it takes the
  first `k` bytes: `taken k shown <+: content` — a PREFIX of the content, in order, each byte once — and then one of its
  `fill_buf`s fails with `ConnectionAborted` (`f!abort-request` in the trace); `rest` is never run;
  `Token::run` calls `close(ExitStatus::ABORT)`;
* the log is exactly `owedPreamble ++ owedStream id 5 mc body ++ [Stdout∅][Stderr∅][EndRequest(id, "ABRT",
  RequestComplete)]`: ONE EndRequest, with the abort status;
* the `AbortRequest` record is retained: with KEEP_CONN the connection is REUSED, the next `parse_request` swallows it
  without reply (parked `STALL`, or `RET` if the peer closed); without KEEP_CONN the task returns after the epilogue.

The prefix may be PROPER even when all of the content was sent: content that arrives in the same `parse` call as the
abort record is lost (the parser returns the error, not the data) — replay `c11a3-content-lost`.  The number of rounds
actually run depends on the chunking; `n ≤ 495` is the model's handler fuel (`2n + 10 ≤ 1000`).
Stream level: `Proofs/E2EAbortFillStr.pollInput_sim_noneAC`; rounds: `Proofs/E2EAbortFill2.rounds_runA`.
-/
namespace Fcgi.C11E
open Fcgi Fcgi.Req Fcgi.Str Fcgi.Async Fcgi.Run Fcgi.Spec Fcgi.E2E Fcgi.C07E

/-- the configuration: `content` before the abort, handler `rounds n k ++ .fill :: rest`, status `ABORT` -/
def cfgAF3 (p : Preamble) (recs : List Rec) (content : Bytes) (body : List Rec) (a : Rec)
    (b mc n k : Nat) (rest : List HOp) (L0 : Bytes) (h : Nat) (more : List (List HOp × Bool)) : E2E.Cfg :=
  ⟨p, recs, content, body, [], 0, [], [], [], 0, b, mc, [], ExitStatus.abort, L0, h, more,
    serAll body ++ (a.ser ++ []), [], a.ser ++ [], owedStream p.id 5 mc body, [], rounds n k ++ .fill :: rest⟩

structure AbortFillPrefixOutcome (p : Preamble) (recs : List Rec) (content : Bytes) (body : List Rec) (a : Rec)
    (b mc k : Nat) (more : List (List HOp × Bool)) (t : Transport) (c' : Conn) (fin : String) : Prop where
  one_handler : hsCount c'.env.tr.events = 1 ∧ startEvent p.request ∈ c'.env.tr.events
  /-- the handler saw a prefix of the content, in order, then `ConnectionAborted` -/
  seen : ∃ shown : List Bytes, taken k shown <+: content ∧ (∀ s ∈ shown, fEvent s ∈ c'.env.tr.events) ∧
    faEvent ∈ c'.env.tr.events
  /-- ONE EndRequest, with the abort status -/
  log : c'.env.tr.wlog = t.wlog ++ (owedPreamble p mc recs ++ owedStream p.id 5 mc body ++ epilogue p.id ExitStatus.abort)
  scripts : c'.scripts = more
  final : (p.flags.toNat % 2 = 0 ∧ fin = "RET" ∧ c'.phase = .finished) ∨
          (p.flags.toNat % 2 = 1 ∧ t.endMode = .eof ∧ fin = "RET" ∧ c'.phase = .finished) ∨
          (p.flags.toNat % 2 = 1 ∧ t.endMode = .pend ∧ fin = "STALL" ∧
            c'.phase = .parseReq (track (alignedBufsize b) mc a.ser) .reading ∧
            c'.env.tr.input = [] ∧ c'.env.mutex = none ∧ c'.stop = false ∧ Ben c'.env.tr)

/-- **C11 end to end: AbortRequest after a prefix of the content hits a Responder reading through `fill_buf`.** -/
theorem abort_fill_prefix_e2e {p : Preamble} {recs : List Rec} {content : Bytes} {body : List Rec} {a : Rec}
    {b mc n k : Nat} {rest : List HOp} {more : List (List HOp × Bool)} {t : Transport} {fuel : Nat}
    (hwf : WellFormedPreamble p recs) (hrole : p.role = 1)
    (hpairs : ∀ q ∈ p.pairs, (NV.enc q).length ≤ alignedBufsize b)
    (hnoise : NoiseFits (alignedBufsize b) recs)
    (hbody : Body p.id 5 content body) (hbn : NoiseFits (alignedBufsize b) body) (ha : IsAbort p.id a)
    (hk : 0 < k) (hn : content.length ≤ n) (hn495 : n ≤ 495)
    (hin : t.input = serAll recs ++ (serAll body ++ a.ser)) (hben : Ben t) (hev : hsCount t.events = 0)
    (hfuel : t.rd.length + t.wr.length + 1 ≤ fuel) :
    ∃ c' fin, runTask fuel (connS b mc t ((rounds n k ++ .fill :: rest, true) :: more)) 0 none = (c', fin) ∧
      AbortFillPrefixOutcome p recs content body a b mc k more t c' fin := by
  have hid := (pid_of_wf hwf).2
  have ok : AFOK2 (cfgAF3 p recs content body a b mc n k rest t.wlog 0 more) a [] n k rest :=
    ⟨⟨hwf, hrole, hpairs, hnoise, hbody, hbn, ha, rfl, rfl, rfl, Or.inl ⟨rfl, rfl⟩⟩, hk, hn, by omega, rfl⟩
  have haidle : IdleNoise a := isAbort_idle ha hid
  have hidle : ∀ e ∈ [a], IdleNoise e := fun e he => by rw [List.mem_singleton.1 he]; exact haidle
  have hfit : NoiseFits (alignedBufsize b) [a] := by
    intro e he hg
    rw [List.mem_singleton.1 he] at hg
    have h1 : a.rtype.toNat = RT.getValues := hg.1
    rw [ha.1] at h1
    exact absurd h1 (by decide)
  obtain ⟨hns, hNF⟩ := idle_front dummy_wf b mc (fun q hq => by cases hq) (dummy_fits _) hidle hfit []
  rw [C02.serAll_single] at hns hNF
  have hU : (cfgAF3 p recs content body a b mc n k rest t.wlog 0 more).U = a.ser := List.append_nil _
  have hst : FStage (cfgAF3 p recs content body a b mc n k rest t.wlog 0 more) (connS b mc t ((rounds n k ++ .fill :: rest, true) :: more)) :=
    .start (raw := []) rfl (by
      show [] ++ t.input = serAll recs ++ (serAll body ++ (a.ser ++ []))
      rw [hin, List.append_nil]; rfl) (Nat.zero_le _) rfl hben rfl rfl rfl hev
  obtain ⟨c', fin, hrun, hres⟩ := run_abort_fill2 ok (Z := serAll dummyRecs ++ [])
    (by rw [hU]; exact hns) (by rw [hU]; exact hNF)
    t.endMode [] _ 0 fuel hst rfl (fun s hs => by cases hs) rfl (by show ans t + 1 ≤ fuel; unfold ans; omega)
  have hro := (run_idle_out mc [a] hidle).1
  rw [C02.serAll_single] at hro
  have hio : idleOwed mc [a] = [] := by
    simp [idleOwed, isAbort_owed ha]
  have hLf : (cfgAF3 p recs content body a b mc n k rest t.wlog 0 more).LfFill =
      t.wlog ++ (owedPreamble p mc recs ++ owedStream p.id 5 mc body ++ epilogue p.id ExitStatus.abort) := by
    show ((t.wlog ++ owedPreamble p mc recs) ++ owedStream p.id 5 mc body ++
      makeRequestEpilogue p.id ExitStatus.abort [RT.stdout, RT.stderr]) = _
    rw [epilogue_eq]; simp only [List.append_assoc]
  rcases hres with ⟨shown, ⟨hkp, hpre⟩, hk', hem, _, _, _, hend⟩ | ⟨hfin, ⟨shown, hseen, hfu⟩, _, _⟩
  · have hout : ∀ F, F ++ (serAll dummyRecs ++ []) =
          (cfgAF3 p recs content body a b mc n k rest t.wlog 0 more).U ++ (serAll dummyRecs ++ []) →
        (cfgAF3 p recs content body a b mc n k rest t.wlog 0 more).LfFill ++ (run .header F mc).out =
        t.wlog ++ (owedPreamble p mc recs ++ owedStream p.id 5 mc body ++ epilogue p.id ExitStatus.abort) := by
      intro F hF
      rw [List.append_cancel_right hF, hU, hro, hio, List.append_nil, hLf]
    refine ⟨c', fin, hrun, ⟨hk'.hs, hk'.ev _ List.mem_cons_self⟩,
      ⟨shown, hpre, fun x hx => hk'.ev _ (List.mem_cons_of_mem _ (List.mem_cons_of_mem _ (List.mem_map.2 ⟨x, hx, rfl⟩))),
        hk'.ev _ (List.mem_cons_of_mem _ List.mem_cons_self)⟩, ?_, hk'.sc, ?_⟩
    · rcases hend with ⟨_, hp⟩ | ⟨_, hf⟩
      · obtain ⟨F, hF, _, _, hlg⟩ := hp.pst
        exact hlg.trans (hout F hF)
      · obtain ⟨F, hF, hlg⟩ := hf.log
        exact hlg.trans (hout F hF)
    · rcases hend with ⟨rfl, hp⟩ | ⟨rfl, hf⟩
      · obtain ⟨F, hF, hps, hph, _⟩ := hp.pst
        have hFe : F = a.ser := by rw [← hU]; exact List.append_cancel_right hF
        subst hFe
        exact Or.inr (Or.inr ⟨hkp, hem.symm.trans hp.em, rfl, hph, hp.inp, hk'.mx, hps.stop, hps.ben⟩)
      · exact Or.inr (Or.inl ⟨hkp, hem.symm.trans hf.em, rfl, hf.ph⟩)
  · exact ⟨c', fin, hrun, ⟨hfu.ev.1, hfu.ev.2⟩, ⟨shown, hseen.1, hseen.2.1, hseen.2.2⟩, by rw [hfu.log]; exact hLf, hfu.sc,
      Or.inl ⟨hfu.nokeep, hfin, hfu.ph⟩⟩

namespace ExampleAbortFillPrefix
open Fcgi.C01.Example Fcgi.C07E.Example

/-- a `GetValues(MAX_CONNS)` query, Stdin `"ABC"`, an unknown-type record for another id, Stdin `"DE"` — no end record -/
def apBody : List Rec :=
  [ { rtype := 9, id := 0, content := NV.enc (Vars.nameMaxConns, []), pad := [] },
    { rtype := 5, id := 1, content := [65, 66, 67], pad := [0] },
    { rtype := 77, id := 3, content := [1, 2], pad := [] },
    { rtype := 5, id := 1, content := [68, 69], pad := [] } ]
def apRec : Rec := { rtype := 2, id := 1, content := [], pad := [] }

def apT : Transport :=
  { input := serAll recs ++ (serAll apBody ++ apRec.ser), endMode := .pend,
    rd := [.n 10, .pending, .n 7, .all, .n 3, .pending, .n 20, .pending, .all],
    wr := [.n 5, .pending, .all, .n 1, .pending, .all], fl := [] }

theorem apBody_ok : Body 1 5 [65, 66, 67, 68, 69] apBody := by
  refine .noise _ ⟨⟨by decide, by decide +kernel, by decide⟩, by decide⟩ ?_
  refine .chunk [65, 66, 67] [0] 0 (by decide) (by decide) ?_
  refine .noise _ ⟨⟨by decide, by decide, by decide⟩, by decide⟩ ?_
  exact .chunk [68, 69] [] 0 (by decide) (by decide) .nil

theorem apBody_fits : NoiseFits (alignedBufsize 64) apBody := by
  refine noiseFits_of_content (fun r hr _ _ => ?_)
  simp only [apBody, List.mem_cons, List.not_mem_nil, or_false] at hr
  rcases hr with rfl | rfl | rfl | rfl <;> decide +kernel

/-- the request of `Props/C07E2E` (KEEP_CONN), Stdin `"ABC"`, `"DE"` with noise, NO end record, an `AbortRequest`; the
handler does five rounds `fill_buf; consume(2)`, a sixth `fill_buf`, would return `Complete(0)`: ONE handler start, it
sees a prefix of `"ABCDE"`, then `ConnectionAborted`; the log is the replies owed to the noise and ONE epilogue with
`EndRequest(1, ABORT)`; the task is parked in the next `parse_request`, which has swallowed the `AbortRequest`
(replay `c11a3-prefix-seen-short-reads`: the slices are `ABCDE`, `CDE`, `E`). -/
example : ∃ c' shown, runTask 30 (connS 64 10 apT [(rounds 5 2 ++ [.fill, .ret (.complete 0)], true)]) 0 none =
      (c', "STALL") ∧
    taken 2 shown <+: [65, 66, 67, 68, 69] ∧ (∀ s ∈ shown, fEvent s ∈ c'.env.tr.events) ∧
    faEvent ∈ c'.env.tr.events ∧
    c'.env.tr.wlog = owedPreamble pre 10 recs ++ owedStream 1 5 10 apBody ++ epilogue 1 ExitStatus.abort ∧
    owedStream 1 5 10 apBody ≠ [] ∧
    hsCount c'.env.tr.events = 1 ∧
    c'.phase = .parseReq (track 64 10 apRec.ser) .reading ∧ c'.env.tr.input = [] := by
  obtain ⟨c', fin, hrun, ho⟩ := abort_fill_prefix_e2e (p := pre) (recs := recs) (content := [65, 66, 67, 68, 69])
    (body := apBody) (a := apRec) (b := 64) (mc := 10) (n := 5) (k := 2) (rest := [.ret (.complete 0)]) (more := [])
    (t := apT) (fuel := 30)
    recs_wf rfl (pre_pairs_fit 64) (noise_fits 64) apBody_ok apBody_fits ⟨rfl, rfl, by decide, by decide⟩
    (by decide) (by decide) (by decide) rfl ⟨by decide, by decide, rfl, by decide⟩ rfl (by decide)
  obtain ⟨shown, h1, h2, h3⟩ := ho.seen
  rcases ho.final with ⟨h, _⟩ | ⟨_, h, _⟩ | ⟨_, _, hfin, hph, hin, _⟩
  · exact absurd h (by decide)
  · exact absurd h (by decide)
  · subst hfin
    exact ⟨c', shown, hrun, h1, h2, h3, by rw [ho.log]; rfl, by decide +kernel, ho.one_handler.1, hph, hin⟩
end ExampleAbortFillPrefix

end Fcgi.C11E
