import Fcgi.Model.Runner
import Fcgi.Proofs.Runner
/-!
# C13 — never more live connection tokens than `max_conns`; freed slots wake waiters

Model: `Fcgi.Runner.Sem` (`async_lock::Semaphore` = permit count + `event_listener::Event`, op-atomic)
and `acqPoll` / `acqDrop` / `release` (`Fcgi/Model/Runner.lean`), driven exactly as the driver's
`stepRunner` (`Driver/Main.lean`) drives them for `Runner::get_token` / `Token` drop
(`/repo/src/async_io/mod.rs`).

`Runner` clones share the one `Arc<Semaphore>` (`sema`), so the tokens of *all* clones draw on the same
permits: the system state below has a single `Sem`, and `acqs` are the pending `get_token` futures of
all clones together.

All theorems quantify over **all op histories** (`run (Sys.init max) ops`, any `ops : List Op`).
-/
namespace Fcgi.C13
open Fcgi.Runner

/-! ## The system -/

structure Sys where
  sem : Sem
  max : Nat
  /-- pending `get_token` futures by index (`none` = completed or dropped) -/
  acqs : List (Option Acq) := []
  /-- number of live tokens -/
  live : Nat := 0

inductive Op
  | get
  | poll (a : Nat)
  | dropPending (a : Nat)
  | dropToken
deriving Repr, DecidableEq

def step (s : Sys) : Op → Sys
  | .get => { s with acqs := s.acqs ++ [some { listener := none }] }
  | .poll a =>
    match s.acqs.getD a none with
    | none => s
    | some acq =>
      let (sem, acq', got) := acqPoll 4 s.sem acq
      if got then
        -- the completed future is dropped at once (its listener with it), then the token exists
        { s with sem := acqDrop sem acq', acqs := s.acqs.set a none, live := s.live + 1 }
      else { s with sem := sem, acqs := s.acqs.set a (some acq') }
  | .dropPending a =>
    match s.acqs.getD a none with
    | none => s
    | some acq => { s with sem := acqDrop s.sem acq, acqs := s.acqs.set a none }
  | .dropToken =>
    if s.live > 0 then { s with sem := release s.sem, live := s.live - 1 } else s

def Sys.init (max : Nat) : Sys := { sem := { count := max }, max := max }

def run (s : Sys) (ops : List Op) : Sys := ops.foldl step s

/-! ## The invariant -/

structure Inv (s : Sys) : Prop where
  /-- live tokens + free permits = `max_conns` -/
  limit : s.live + s.sem.count = s.max
  /-- listener ids unique and `< nextId`; no stored listener in state `.created`; every notified
  listener's task has been woken (its id is in `wakes`) -/
  semOk : SemOk s.sem
  /-- listeners ↔ pending futures, 1-1 -/
  own : Own s.acqs s.sem.ids
  /-- a free permit while futures wait ⇒ one of the waiters is notified -/
  noStranded : s.sem.NoStranded

theorem getD_some {l : List (Option Acq)} {a : Nat} {acq : Acq} (h : l.getD a none = some acq) :
    l[a]? = some (some acq) := by
  rw [List.getD_eq_getElem?_getD] at h
  cases hl : l[a]? with
  | none => rw [hl] at h; cases h
  | some x => rw [hl] at h; simp at h; rw [h]

theorem inv_init (max : Nat) : Inv (Sys.init max) := by
  refine ⟨by simp [Sys.init], ⟨⟨?_, ?_⟩, ?_, ?_⟩, ⟨?_, ?_, ?_⟩, ?_⟩
  · simp [Sys.init, Sem.ids]
  · intro i hi; simp [Sys.init, Sem.ids] at hi
  · intro i st h; simp [Sys.init] at h
  · intro i h; simp [Sys.init] at h
  · intro i id h; simp [Sys.init, Owner] at h
  · intro i j id h; simp [Sys.init, Owner] at h
  · intro id h; simp [Sys.init, Sem.ids] at h
  · intro _ h; simp [Sys.init] at h

theorem inv_get {s : Sys} (h : Inv s) : Inv (step s .get) :=
  ⟨h.limit, h.semOk, own_get h.own, h.noStranded⟩

/-- **5. `cancel_safe`**: dropping a pending `get_token` future preserves the whole invariant — in
particular a cancelled waiter that had been notified passes the notification on. -/
theorem cancel_safe {s : Sys} (h : Inv s) (a : Nat) : Inv (step s (.dropPending a)) := by
  cases hg : s.acqs.getD a none with
  | none => simp only [step, hg]; exact h
  | some acq =>
    simp only [step, hg]
    have ha := getD_some hg
    refine ⟨?_, semOk_acqDrop h.semOk acq, ?_, noStranded_acqDrop h.semOk.wf h.noStranded acq⟩
    · show s.live + (acqDrop s.sem acq).count = s.max
      rw [acqDrop_count]; exact h.limit
    · show Own (s.acqs.set a none) (acqDrop s.sem acq).ids
      rw [acqDrop_ids]; exact own_drop h.own ha

theorem inv_dropToken {s : Sys} (h : Inv s) : Inv (step s .dropToken) := by
  simp only [step]
  split
  · rename_i hl
    refine ⟨?_, semOk_release h.semOk, ?_, noStranded_release _⟩
    · show s.live - 1 + (release s.sem).count = s.max
      rw [release_count]; have := h.limit; omega
    · show Own s.acqs (release s.sem).ids
      rw [release_ids]; exact h.own
  · exact h

theorem inv_poll {s : Sys} (h : Inv s) (a : Nat) : Inv (step s (.poll a)) := by
  cases hg : s.acqs.getD a none with
  | none => simp only [step, hg]; exact h
  | some acq =>
    simp only [step, hg]
    have ha := getD_some hg
    have hlt : a < s.acqs.length := by
      rcases Nat.lt_or_ge a s.acqs.length with h' | h'
      · exact h'
      · rw [List.getElem?_eq_none h'] at ha; cases ha
    have h4 : acqPoll 4 s.sem acq = acqSpec s.sem acq := acqPoll_eq_spec h.semOk.wf.below acq 1
    simp only [h4]
    unfold acqSpec
    by_cases hc : s.sem.count > 0
    · -- a permit is free: acquired, whatever the queue
      simp only [hc, if_true]
      have hok : SemOk { s.sem with count := s.sem.count - 1 } := semOk_congr (s := s.sem) rfl rfl rfl h.semOk
      refine ⟨?_, semOk_acqDrop hok acq, ?_,
        noStranded_acqDrop hok.wf (noStranded_count_le h.noStranded (Nat.sub_le _ _)) acq⟩
      · show s.live + 1 + (acqDrop _ acq).count = s.max
        rw [acqDrop_count]; have := h.limit
        show s.live + 1 + (s.sem.count - 1) = s.max
        omega
      · show Own (s.acqs.set a none) (acqDrop _ acq).ids
        rw [acqDrop_ids]; exact own_drop h.own ha
    · have hc0 : s.sem.count = 0 := by omega
      simp only [hc, if_false]
      obtain ⟨l⟩ := acq
      cases l with
      | none =>
        -- first poll without permit: `listen()`, register the task
        simp only [Bool.false_eq_true, if_false]
        have hno : ∀ id, ¬ Owner s.acqs a id := by
          intro id ho; unfold Owner at ho; rw [ha] at ho; cases ho
        refine ⟨h.limit, semOk_listenTask h.semOk, ?_, noStranded_of_count_zero hc0⟩
        show Own (s.acqs.set a (some { listener := some s.sem.nextId })) s.sem.listenTask.ids
        rw [listenTask_ids]
        exact own_set_new h.own hlt hno (below_not_mem h.semOk.wf.below)
      | some id =>
        by_cases hn : s.sem.stateOf id = some LState.notified
        · -- notified, but the permit is gone again (taken by a barging `get_token`): the notification
          -- is consumed, the future queues up again at the tail
          simp only [hn, if_true, Bool.false_eq_true, if_false]
          have hd := own_drop h.own ha
          simp only at hd
          rw [← erase_ids] at hd
          have hno : ∀ i, ¬ Owner (s.acqs.set a none) a i := by
            intro i ho; have := owner_set_self ho; cases this
          have hnew : (s.sem.erase id).nextId ∉ (s.sem.erase id).ids :=
            below_not_mem (erase_wf h.semOk.wf id).below
          have := own_set_new hd (by simpa using hlt) hno hnew
          rw [List.set_set] at this
          refine ⟨h.limit, semOk_listenTask (semOk_erase h.semOk id), ?_, noStranded_of_count_zero hc0⟩
          show Own (s.acqs.set a (some { listener := some s.sem.nextId })) (s.sem.erase id).listenTask.ids
          rw [listenTask_ids]
          exact this
        · -- still waiting: (re-)register the task with the listener
          simp only [hn, if_false, Bool.false_eq_true]
          refine ⟨h.limit, semOk_mark h.semOk id, ?_, noStranded_of_count_zero hc0⟩
          show Own (s.acqs.set a (some { listener := some id })) (s.sem.mark id).ids
          rw [mark_ids, set_eq_self ha]
          exact h.own

theorem inv_step {s : Sys} (h : Inv s) (op : Op) : Inv (step s op) := by
  cases op with
  | get => exact inv_get h
  | poll a => exact inv_poll h a
  | dropPending a => exact cancel_safe h a
  | dropToken => exact inv_dropToken h

theorem inv_run' {s : Sys} (h : Inv s) (ops : List Op) : Inv (run s ops) := by
  induction ops generalizing s with
  | nil => exact h
  | cons op ops ih => exact ih (inv_step h op)

/-- The invariant holds after every op history. -/
theorem inv_run (max : Nat) (ops : List Op) : Inv (run (Sys.init max) ops) :=
  inv_run' (inv_init max) ops

theorem step_max (s : Sys) (op : Op) : (step s op).max = s.max := by
  cases op with
  | get => rfl
  | poll a =>
    simp only [step]
    cases s.acqs.getD a none with
    | none => rfl
    | some acq =>
      simp only
      split <;> rfl
  | dropPending a =>
    simp only [step]
    cases s.acqs.getD a none <;> rfl
  | dropToken => simp only [step]; split <;> rfl

theorem run_max (s : Sys) (ops : List Op) : (run s ops).max = s.max := by
  induction ops generalizing s with
  | nil => rfl
  | cons op ops ih => exact (ih (step s op)).trans (step_max s op)

/-! ## 1. The limit -/

/-- live tokens + free permits = `max_conns`, at every instant of every history -/
theorem limit_inv (max : Nat) (ops : List Op) :
    (run (Sys.init max) ops).live + (run (Sys.init max) ops).sem.count = max := by
  have := (inv_run max ops).limit
  rwa [run_max] at this

/-- **never more live tokens than `max_conns`** (all `Runner` clones together: one semaphore) -/
theorem live_le_max (max : Nat) (ops : List Op) : (run (Sys.init max) ops).live ≤ max := by
  have := limit_inv max ops; omega

/-- a token is only ever handed out against a free permit: `poll` raises `live` only if `count > 0` -/
theorem poll_live {s : Sys} (h : Inv s) (a : Nat) :
    (step s (.poll a)).live ≤ s.live + 1 ∧ ((step s (.poll a)).live = s.live + 1 → 0 < s.sem.count) := by
  have h1 := (inv_poll h a).limit
  have h2 := h.limit
  rw [step_max] at h1
  cases hg : s.acqs.getD a none with
  | none => simp only [step, hg]; simp
  | some acq =>
    simp only [step, hg] at h1 ⊢
    have h4 : acqPoll 4 s.sem acq = acqSpec s.sem acq := acqPoll_eq_spec h.semOk.wf.below acq 1
    simp only [h4]
    unfold acqSpec
    by_cases hc : s.sem.count > 0
    · simp [hc]
    · simp only [hc, if_false]
      obtain ⟨l⟩ := acq
      cases l with
      | none => simp
      | some id => simp only; split <;> simp

/-! ## 2. `acqPoll` facts -/

/-- fuel 4 suffices: any larger fuel gives the same result (on well-formed listener lists, which is
all that ever occurs: `Inv.semOk.wf`) -/
theorem acqPoll_fuel {s : Sys} (h : Inv s) (a : Acq) (k : Nat) :
    acqPoll (4 + k) s.sem a = acqPoll 4 s.sem a :=
  Runner.acqPoll_fuel h.semOk.wf.below a k

/-- if a permit is free, polling ANY pending future acquires it at once — whatever the queue (the
semaphore is not fair: no hand-off to the notified waiter) -/
theorem immediate (sem : Sem) (a : Acq) (fuel : Nat) (h : sem.count > 0) :
    acqPoll (fuel + 1) sem a = ({ sem with count := sem.count - 1 }, a, true) := by
  rw [acqPoll]; simp [h]

theorem immediate_step {s : Sys} {a : Nat} {acq : Acq} (ha : s.acqs[a]? = some (some acq))
    (h : s.sem.count > 0) :
    (step s (.poll a)).live = s.live + 1 ∧ (step s (.poll a)).acqs[a]? = some none := by
  have hg : s.acqs.getD a none = some acq := by
    rw [List.getD_eq_getElem?_getD, ha]; rfl
  have hlt : a < s.acqs.length := by
    rcases Nat.lt_or_ge a s.acqs.length with h' | h'
    · exact h'
    · rw [List.getElem?_eq_none h'] at ha; cases ha
  simp only [step, hg, immediate s.sem acq 3 h, if_true]
  simp [hlt]

/-- without a free permit the poll is Pending, the permit count stays zero, the future holds a
listener afterwards (its old one, or a fresh one with id `nextId`), and a task is registered with that
listener (state `.task`) -/
theorem pending_registers {s : Sem} (hw : s.WF) (a : Acq) (hc : s.count = 0)
    (hin : ∀ id, a.listener = some id → ∃ st, (id, st) ∈ s.entries) :
    ∃ id, (acqPoll 4 s a).2.1 = { listener := some id } ∧ (acqPoll 4 s a).2.2 = false ∧
      (a.listener = some id ∨ id = s.nextId) ∧ (acqPoll 4 s a).1.count = 0 ∧
      (id, LState.task) ∈ (acqPoll 4 s a).1.entries := by
  have h4 : acqPoll 4 s a = acqSpec s a := acqPoll_eq_spec hw.below a 1
  rw [h4]
  unfold acqSpec
  simp only [hc, Nat.lt_irrefl, if_false]
  obtain ⟨l⟩ := a
  cases l with
  | none =>
    exact ⟨s.nextId, rfl, rfl, Or.inr rfl, hc, mem_listenTask.mpr (Or.inr ⟨rfl, rfl⟩)⟩
  | some id =>
    simp only
    split
    · exact ⟨s.nextId, rfl, rfl, Or.inr rfl, hc, mem_listenTask.mpr (Or.inr ⟨rfl, rfl⟩)⟩
    · obtain ⟨st, hst⟩ := hin id rfl
      refine ⟨id, rfl, rfl, Or.inl rfl, hc, ?_⟩
      simp only [Sem.mark, List.mem_map]
      exact ⟨(id, st), hst, by simp⟩

/-! ## 3. Well-formedness of the listener list -/

section WF
variable {s : Sys} (h : Inv s)
include h

/-- listener ids are unique -/
theorem ids_unique : s.sem.ids.Nodup := h.semOk.wf.nodup
/-- `nextId` is larger than all ids -/
theorem ids_below : ∀ i ∈ s.sem.ids, i < s.sem.nextId := h.semOk.wf.below
/-- each pending future's listener is in `entries` -/
theorem listener_in_entries {i id : Nat} (ho : Owner s.acqs i id) : ∃ st, (id, st) ∈ s.sem.entries :=
  Sem.ids_mem (h.own.owned i id ho)
/-- distinct futures have distinct listeners -/
theorem listeners_distinct {i j id : Nat} (hi : Owner s.acqs i id) (hj : Owner s.acqs j id) : i = j :=
  h.own.distinct i j id hi hj
/-- every entry belongs to exactly one pending future (entries of completed / dropped futures are
removed) -/
theorem entry_owned {id : Nat} {st : LState} (he : (id, st) ∈ s.sem.entries) :
    ∃ i, Owner s.acqs i id ∧ ∀ j, Owner s.acqs j id → j = i := by
  obtain ⟨i, hi⟩ := h.own.covered id (Sem.mem_ids he)
  exact ⟨i, hi, fun j hj => h.own.distinct j i id hj hi⟩
/-- an `Acq` stored between ops never has a `.created` listener: its task is registered (`.task`) or
it is notified -/
theorem stored_not_created {i id : Nat} (ho : Owner s.acqs i id) :
    s.sem.stateOf id = some LState.task ∨ s.sem.stateOf id = some LState.notified := by
  obtain ⟨st, hst⟩ := listener_in_entries h ho
  have := h.semOk.noCreated id st hst
  rw [(Sem.stateOf_eq_some h.semOk.wf).mpr hst]
  cases st with
  | created => exact absurd rfl this
  | task => exact Or.inl rfl
  | notified => exact Or.inr rfl

end WF

/-! ## 4. No stranded waiter -/

/-- `notify` wakes what it notifies: an entry that was in state `.task` and is `.notified` after
`notify n` has its id in `wakes` (entries notified while `.created` need no wake-up — the creating
`acqPoll` polls them in the same call; between ops there are none: `stored_not_created`). -/
theorem notified_was_woken {s : Sem} (hw : s.WF) (n : Nat) {id : Nat}
    (ht : (id, LState.task) ∈ s.entries) (hn : (id, LState.notified) ∈ (s.notify n).entries) :
    id ∈ (s.notify n).wakes := by
  rcases (notify_spec s n).entry id _ hn with h | ⟨_, st, hb, _, hd⟩
  · have := fst_unique hw.nodup ht h; cases this
  · have := fst_unique hw.nodup ht hb; subst this; exact hd rfl

/-- wake-ups go only to listeners with a registered task, and only when they get notified -/
theorem wakes_only_tasks (s : Sem) (n : Nat) {id : Nat} (h : id ∈ (s.notify n).wakes) :
    id ∈ s.wakes ∨ (id, LState.task) ∈ s.entries :=
  (notify_spec s n).wakes_src id h

/-- **No stranded waiter**: at every op boundary, if a permit is free and some pending future holds
a listener, then some pending future's listener is in state `.notified` *and* that future's task has
been woken (its id is in `sem.wakes`). -/
theorem no_stranded_inv {s : Sys} (h : Inv s) (hc : 0 < s.sem.count)
    (hw : ∃ i id, Owner s.acqs i id) :
    ∃ i id, Owner s.acqs i id ∧ (id, LState.notified) ∈ s.sem.entries ∧ id ∈ s.sem.wakes := by
  obtain ⟨i, id, ho⟩ := hw
  obtain ⟨st, hst⟩ := listener_in_entries h ho
  obtain ⟨⟨j, st'⟩, he, hn⟩ := h.noStranded hc (List.ne_nil_of_mem hst)
  simp only at hn; subst hn
  obtain ⟨i', hi', _⟩ := entry_owned h he
  exact ⟨i', j, hi', he, h.semOk.woken j he⟩

theorem no_stranded (max : Nat) (ops : List Op) :
    let s := run (Sys.init max) ops
    0 < s.sem.count → (∃ i id, Owner s.acqs i id) →
      ∃ i id, Owner s.acqs i id ∧ (id, LState.notified) ∈ s.sem.entries ∧ id ∈ s.sem.wakes :=
  fun hc hw => no_stranded_inv (inv_run max ops) hc hw

/-- … and the woken waiter, when it polls while the permit is still free, gets it (`immediate_step`);
if the permit was taken in between (`count = 0`), it re-queues with its task registered
(`pending_registers`), and the next `release` notifies again (`noStranded_release`). -/
theorem woken_waiter_acquires {s : Sys} {i id : Nat} (ho : Owner s.acqs i id)
    (hc : 0 < s.sem.count) : (step s (.poll i)).live = s.live + 1 :=
  (immediate_step ho hc).1

/-- every notified stored listener has been woken -/
theorem notified_woken (max : Nat) (ops : List Op) {id : Nat}
    (hn : (id, LState.notified) ∈ (run (Sys.init max) ops).sem.entries) :
    id ∈ (run (Sys.init max) ops).sem.wakes :=
  (inv_run max ops).semOk.woken id hn

/-! ## Concrete histories (`max = 1`) -/

def hist1 : List Op := [.get, .poll 0, .get, .poll 1, .get, .poll 2, .dropToken]

/-- one token live, two waiters queued (listeners 0 and 1, tasks registered) -/
example : let s := run (Sys.init 1) [.get, .poll 0, .get, .poll 1, .get, .poll 2];
    (s.live, s.sem.count, s.sem.entries, s.sem.wakes, s.acqs) =
      (1, 0, [(0, .task), (1, .task)], [], [none, some ⟨some 0⟩, some ⟨some 1⟩]) := by decide

/-- the token is dropped ⇒ the first waiter is notified and woken -/
example : let s := run (Sys.init 1) hist1;
    (s.live, s.sem.count, s.sem.entries, s.sem.wakes) =
      (0, 1, [(0, .notified), (1, .task)], [0]) := by decide

/-- … the woken waiter is then cancelled ⇒ the notification is passed on: the second waiter is
notified and woken -/
example : let s := run (Sys.init 1) (hist1 ++ [.dropPending 1]);
    (s.live, s.sem.count, s.sem.entries, s.sem.wakes, s.acqs) =
      (0, 1, [(1, .notified)], [0, 1], [none, none, some ⟨some 1⟩]) := by decide

/-- … which acquires when it polls -/
example : let s := run (Sys.init 1) (hist1 ++ [.dropPending 1, .poll 2]);
    (s.live, s.sem.count, s.sem.entries, s.acqs) = (1, 0, [], [none, none, none]) := by decide

/-- barging: after the release a fresh `get_token` takes the permit before the woken waiter polls;
the waiter's poll consumes the notification and re-queues at the tail (new listener 2, behind
listener 1); the limit holds and nobody is stranded (no permit is free) -/
example : let s := run (Sys.init 1) (hist1 ++ [.get, .poll 3, .poll 1]);
    (s.live, s.sem.count, s.sem.entries, s.sem.wakes, s.acqs) =
      (1, 0, [(1, .task), (2, .task)], [0], [none, some ⟨some 2⟩, some ⟨some 1⟩, none]) := by decide

/-- two permits released back to back with two waiters: the second `notify(1)` is a no-op (one
listener is notified already); the chain continues when the first waiter acquires and drops its
notified listener -/
def hist2 : List Op :=
  [.get, .poll 0, .get, .poll 1, .get, .poll 2, .get, .poll 3, .dropToken, .dropToken]

example : let s := run (Sys.init 2) hist2;
    (s.live, s.sem.count, s.sem.entries, s.sem.wakes) =
      (0, 2, [(0, .notified), (1, .task)], [0]) := by decide
example : let s := run (Sys.init 2) (hist2 ++ [.poll 2]);
    (s.live, s.sem.count, s.sem.entries, s.sem.wakes) =
      (1, 1, [(1, .notified)], [0, 1]) := by decide

end Fcgi.C13
