import Fcgi.Model.CgiName
import Fcgi.Proofs.CgiName
/-!
# C19 — CGI variable names are case-insensitive, whichever way they were built

For all byte strings: the borrowed (`VarName`, modelled by its bytes) and owned (`OwnedVarName`,
`CgiName.Owned`) name types compare equal exactly when the strings are equal ignoring ASCII case,
order as a total order consistent with that equality, and hash identically whenever equal —
whichever constructor, representation (`Owned.static i` = interned, `Owned.custom s`) or letter
case produced them.  Normalising constructors yield the ASCII-uppercased string; interned names
read back as their canonical spelling; an HTTP header name maps to `HTTP_` + uppercased name with
`-` → `_`.

All statements quantify over every byte list; no length bound.  Facts about the generated table
`Gen.staticVarNames` are re-checked by kernel evaluation each time the table is regenerated.
-/
namespace Fcgi.C19
open Fcgi Fcgi.CgiName

/-! ## 1. Equality is equality of the ASCII-uppercased strings -/

/-- Bytewise core: lower-casing identifies two bytes exactly when upper-casing does. -/
theorem lowerByte_eq_iff (x y : UInt8) : lowerByte x = lowerByte y ↔ upperByte x = upperByte y :=
  lower_eq_iff_upper_eq x y

theorem eq_iff_upper (a b : Bytes) : CgiName.eqIgnoreCase a b = true ↔ upper a = upper b :=
  eqIgnoreCase_iff a b

theorem eq_refl (a : Bytes) : CgiName.eqIgnoreCase a a = true := (eq_iff_upper a a).mpr rfl

theorem eq_symm (a b : Bytes) (h : CgiName.eqIgnoreCase a b = true) :
    CgiName.eqIgnoreCase b a = true :=
  (eq_iff_upper b a).mpr ((eq_iff_upper a b).mp h).symm

theorem eq_trans (a b c : Bytes) (h1 : CgiName.eqIgnoreCase a b = true)
    (h2 : CgiName.eqIgnoreCase b c = true) : CgiName.eqIgnoreCase a c = true :=
  (eq_iff_upper a c).mpr (((eq_iff_upper a b).mp h1).trans ((eq_iff_upper b c).mp h2))

/-- Letter case is irrelevant: a name equals its own upper-casing. -/
theorem eq_upper_self (a : Bytes) : CgiName.eqIgnoreCase a (upper a) = true :=
  (eq_iff_upper a _).mpr (upper_idem a).symm

/-! ## 2. Order: a total order consistent with that equality -/

theorem cmp_eq_iff (a b : Bytes) : CgiName.cmp a b = .eq ↔ upper a = upper b :=
  cmpBytes_eq_iff _ _

/-- `Ord` says "equal" exactly when `PartialEq` does. -/
theorem cmp_eq_iff_eq (a b : Bytes) : CgiName.cmp a b = .eq ↔ CgiName.eqIgnoreCase a b = true := by
  rw [cmp_eq_iff, eq_iff_upper]

/-- Antisymmetry / totality: swapping the arguments swaps the outcome. -/
theorem cmp_swap (a b : Bytes) : CgiName.cmp b a = (CgiName.cmp a b).swap :=
  cmpBytes_swap _ _

theorem cmp_trans (a b c : Bytes) (h1 : CgiName.cmp a b ≠ .gt) (h2 : CgiName.cmp b c ≠ .gt) :
    CgiName.cmp a c ≠ .gt :=
  cmpBytes_trans _ _ _ h1 h2

theorem cmp_lt_trans (a b c : Bytes) (h1 : CgiName.cmp a b = .lt) (h2 : CgiName.cmp b c = .lt) :
    CgiName.cmp a c = .lt :=
  cmpBytes_lt_trans _ _ _ h1 h2

/-- The order only sees the case-folded string: equal names are interchangeable on either side. -/
theorem cmp_congr (a a' b b' : Bytes) (ha : upper a = upper a') (hb : upper b = upper b') :
    CgiName.cmp a b = CgiName.cmp a' b' := by
  simp [CgiName.cmp, ha, hb]

/-! ## 3. Hash: equal names feed the hasher the same sequence of writes -/

theorem hash_congr (a b : Bytes) (h : upper a = upper b) :
    CgiName.hashWrites a = CgiName.hashWrites b :=
  hashWrites_congr a b h

theorem hash_flatten (a : Bytes) : (CgiName.hashWrites a).flatten = upper a ++ [255] :=
  hashWrites_flatten a

theorem hash_inj (a b : Bytes) (h : CgiName.hashWrites a = CgiName.hashWrites b) :
    upper a = upper b := by
  have := congrArg List.flatten h
  rw [hash_flatten, hash_flatten] at this
  exact List.append_cancel_right this

/-- Prefix-freedom of the written byte stream (what `Hash` implementations owe to hashers that
ignore write boundaries): for names without the byte `0xff` — every valid UTF-8 string — one
stream is a prefix of another only if the names are equal. -/
theorem hash_prefix_free (a b : Bytes) (ha : (255 : UInt8) ∉ a) (hb : (255 : UInt8) ∉ b)
    (h : (CgiName.hashWrites a).flatten <+: (CgiName.hashWrites b).flatten) :
    upper a = upper b := by
  rw [hash_flatten, hash_flatten] at h
  exact ff_terminated_prefix _ _ (mt (ff_mem_upper a).mp ha) (mt (ff_mem_upper b).mp hb) h

/-- `Hash` agrees with `Eq`: equal names have equal write sequences, and conversely. -/
theorem hash_eq_iff_eq (a b : Bytes) :
    CgiName.hashWrites a = CgiName.hashWrites b ↔ CgiName.eqIgnoreCase a b = true := by
  rw [eq_iff_upper]; exact ⟨hash_inj a b, hash_congr a b⟩

/-! ## 4. The interned-name table (generated from `cgi/intern.rs`) -/

theorem table_nodup : CgiName.table.Nodup := by decide +kernel

theorem table_upper_fixed : ∀ s ∈ CgiName.table, upper s = s := by decide +kernel

theorem table_no_ff : ∀ s ∈ CgiName.table, (255 : UInt8) ∉ s := by decide +kernel

theorem lookup_some {s : Bytes} {i : Nat} (h : CgiName.lookup s = some i) :
    i < CgiName.table.length ∧ CgiName.table.getD i [] = s :=
  findIdx_beq_some h

theorem lookup_none {s : Bytes} (h : CgiName.lookup s = none) : s ∉ CgiName.table :=
  findIdx_beq_none h

theorem lookup_table {i : Nat} (h : i < CgiName.table.length) :
    CgiName.lookup (CgiName.table.getD i []) = some i :=
  findIdx_beq_getD table_nodup h

/-- Lookup succeeds exactly on table members. -/
theorem lookup_isSome_iff (s : Bytes) : (∃ i, CgiName.lookup s = some i) ↔ s ∈ CgiName.table := by
  constructor
  · rintro ⟨i, h⟩
    have := lookup_some h
    rw [← this.2]; exact getD_mem this.1
  · intro hm
    cases h : CgiName.lookup s with
    | none => exact absurd hm (lookup_none h)
    | some i => exact ⟨i, rfl⟩

/-! ## 5. Owned names: both representations behave like their string -/

/-- Well-formed owned names: an interned index denotes a table entry (in Rust: a `StaticVarName`
enum value). -/
def WF : CgiName.Owned → Prop
  | .static i => i < CgiName.table.length
  | .custom _ => True

theorem fromStr_wf (s : Bytes) : WF (CgiName.fromStr s) := by
  unfold CgiName.fromStr
  split
  · next i h => exact (lookup_some h).1
  · trivial

theorem fromCompact_wf (s : Bytes) : WF (CgiName.fromCompact s) := by
  unfold CgiName.fromCompact
  split
  · next i h => exact (lookup_some h).1
  · trivial

theorem fromHeaderName_wf (h : Bytes) : WF (CgiName.fromHeaderName h) := fromCompact_wf _

/-- An interned name's string is already upper-case. -/
theorem static_upper {i : Nat} (h : i < CgiName.table.length) :
    upper (CgiName.table.getD i []) = CgiName.table.getD i [] :=
  table_upper_fixed _ (getD_mem h)

/-- `OwnedVarName: PartialEq` — including the `Static × Static` index fast path — is equality
ignoring ASCII case of the underlying strings. -/
theorem owned_eq_iff {x y : CgiName.Owned} (hx : WF x) (hy : WF y) :
    x.eq y = true ↔ upper x.asRef = upper y.asRef := by
  cases x with
  | static i =>
    cases y with
    | static j =>
      simp only [WF] at hx hy
      simp only [Owned.eq, Owned.asRef, beq_iff_eq, static_upper hx, static_upper hy,
        getD_inj_of_nodup table_nodup hx hy]
    | custom t => simp only [Owned.eq, eq_iff_upper]
  | custom s => cases y <;> simp only [Owned.eq, eq_iff_upper]

/-- `OwnedVarName: Ord` — including the `Static × Static` raw `str::cmp` fast path — is the
case-insensitive order of the underlying strings. -/
theorem owned_cmp {x y : CgiName.Owned} (hx : WF x) (hy : WF y) :
    x.cmp y = CgiName.cmp x.asRef y.asRef := by
  cases x with
  | static i =>
    cases y with
    | static j =>
      simp only [WF] at hx hy
      simp only [Owned.cmp, Owned.asRef, CgiName.cmp, static_upper hx, static_upper hy]
    | custom t => simp only [Owned.cmp]
  | custom s => cases y <;> simp only [Owned.cmp]

theorem owned_hash (x : CgiName.Owned) : x.hashWrites = CgiName.hashWrites x.asRef := rfl

theorem owned_hash_congr {x y : CgiName.Owned} (hx : WF x) (hy : WF y) (h : x.eq y = true) :
    x.hashWrites = y.hashWrites :=
  hash_congr _ _ ((owned_eq_iff hx hy).mp h)

/-- `Ord` and `PartialEq` of owned names agree. -/
theorem owned_cmp_eq_iff {x y : CgiName.Owned} (hx : WF x) (hy : WF y) :
    x.cmp y = .eq ↔ x.eq y = true := by
  rw [owned_cmp hx hy, cmp_eq_iff, owned_eq_iff hx hy]

/-- Mixed comparisons: an owned name against a borrowed one (`PartialEq<VarName>` etc. go through
`as_ref`). -/
theorem owned_eq_borrowed {x : CgiName.Owned} (s : Bytes) :
    CgiName.eqIgnoreCase x.asRef s = true ↔ upper x.asRef = upper s := eq_iff_upper _ _

/-! ## 6. Constructors -/

theorem fromCompact_asRef (s : Bytes) : (CgiName.fromCompact s).asRef = upper s := by
  unfold CgiName.fromCompact
  split
  · next i h => exact (lookup_some h).2
  · rfl

theorem fromStr_asRef (s : Bytes) : (CgiName.fromStr s).asRef = s := by
  unfold CgiName.fromStr
  split
  · next i h => exact (lookup_some h).2
  · rfl

theorem fromCompact_static_iff (s : Bytes) :
    (∃ i, CgiName.fromCompact s = .static i) ↔ upper s ∈ CgiName.table := by
  rw [← lookup_isSome_iff]
  unfold CgiName.fromCompact
  cases CgiName.lookup (upper s) <;> simp

theorem fromStr_static_iff (s : Bytes) :
    (∃ i, CgiName.fromStr s = .static i) ↔ s ∈ CgiName.table := by
  rw [← lookup_isSome_iff]
  unfold CgiName.fromStr
  cases CgiName.lookup s <;> simp

/-- When interning happens, it picks the index of the (unique) matching table entry. -/
theorem fromCompact_static {s : Bytes} {i : Nat} (h : CgiName.fromCompact s = .static i) :
    i < CgiName.table.length ∧ CgiName.table.getD i [] = upper s := by
  have hw := fromCompact_wf s
  have ha := fromCompact_asRef s
  rw [h] at hw ha
  exact ⟨hw, ha⟩

theorem static_reads_canonical {i : Nat} (_h : i < CgiName.table.length) :
    (CgiName.Owned.static i).asRef = CgiName.table.getD i [] := rfl

/-- Every table entry, in any letter case, interns to its index via the normalising constructor. -/
theorem fromCompact_table {i : Nat} (h : i < CgiName.table.length) {s : Bytes}
    (hs : upper s = CgiName.table.getD i []) : CgiName.fromCompact s = .static i := by
  unfold CgiName.fromCompact
  rw [hs, lookup_table h]

theorem http_prefix : "HTTP_".toUTF8.toList = [72, 84, 84, 80, 95] := by decide +kernel

theorem header_name_map (h : Bytes) :
    (CgiName.fromHeaderName h).asRef =
      upper ("HTTP_".toUTF8.toList ++ h.map (fun b => if b == 45 then 95 else b)) :=
  fromCompact_asRef _

/-- The same with the literal evaluated: `HTTP_` followed by the name, `-` → `_`, upper-cased. -/
theorem header_name_map_bytes (h : Bytes) :
    (CgiName.fromHeaderName h).asRef =
      [72, 84, 84, 80, 95] ++ upper (h.map (fun b => if b == 45 then 95 else b)) := by
  rw [header_name_map, upper_append, http_prefix]; rfl

/-! ## 7. Lookup by any spelling, through any constructor -/

/-- The two families of `OwnedVarName` constructors. -/
inductive Ctor
  | compact  -- `from_compact`, `From<String>`, `From<Box<str>>`, `From<Cow::Owned>`, `from_mut_str`
  | str      -- `From<&str>`, `From<&VarName>`, `ToOwned`, `From<Cow::Borrowed>`

def Ctor.apply : Ctor → Bytes → CgiName.Owned
  | .compact => CgiName.fromCompact
  | .str => CgiName.fromStr

theorem ctor_wf (c : Ctor) (s : Bytes) : WF (c.apply s) := by
  cases c
  · exact fromCompact_wf s
  · exact fromStr_wf s

/-- Whatever the constructor, the resulting name case-folds to the case-folded input. -/
theorem ctor_upper_asRef (c : Ctor) (s : Bytes) : upper (c.apply s).asRef = upper s := by
  cases c
  · simp only [Ctor.apply, fromCompact_asRef, upper_idem]
  · simp only [Ctor.apply, fromStr_asRef]

/-- Two spellings of the same name, built by any constructors, are `==`, hash identically and
compare `Equal`: a `HashMap`/`BTreeMap` lookup by any spelling finds the entry. -/
theorem lookup_any_spelling (c1 c2 : Ctor) (a b : Bytes) (h : upper a = upper b) :
    (c1.apply a).eq (c2.apply b) = true ∧
    (c1.apply a).hashWrites = (c2.apply b).hashWrites ∧
    (c1.apply a).cmp (c2.apply b) = .eq := by
  have hu : upper (c1.apply a).asRef = upper (c2.apply b).asRef := by
    rw [ctor_upper_asRef, ctor_upper_asRef, h]
  have hw1 := ctor_wf c1 a
  have hw2 := ctor_wf c2 b
  refine ⟨(owned_eq_iff hw1 hw2).mpr hu, hash_congr _ _ hu, ?_⟩
  rw [owned_cmp hw1 hw2]; exact (cmp_eq_iff _ _).mpr hu

/-- … and conversely different names are never confused, whatever built them. -/
theorem distinct_any_spelling (c1 c2 : Ctor) (a b : Bytes) (h : upper a ≠ upper b) :
    (c1.apply a).eq (c2.apply b) = false ∧
    (c1.apply a).hashWrites ≠ (c2.apply b).hashWrites ∧
    (c1.apply a).cmp (c2.apply b) ≠ .eq := by
  have hw1 := ctor_wf c1 a
  have hw2 := ctor_wf c2 b
  have hu : upper (c1.apply a).asRef ≠ upper (c2.apply b).asRef := by
    rw [ctor_upper_asRef, ctor_upper_asRef]; exact h
  refine ⟨?_, ?_, ?_⟩
  · rw [← Bool.not_eq_true, owned_eq_iff hw1 hw2]; exact hu
  · exact fun e => hu (hash_inj _ _ e)
  · rw [owned_cmp hw1 hw2, ne_eq, cmp_eq_iff]; exact hu

/-- The four instances spelled out. -/
theorem lookup_any_spelling_compact_compact (a b : Bytes) (h : upper a = upper b) :
    (CgiName.fromCompact a).eq (CgiName.fromCompact b) = true ∧
    (CgiName.fromCompact a).hashWrites = (CgiName.fromCompact b).hashWrites ∧
    (CgiName.fromCompact a).cmp (CgiName.fromCompact b) = .eq :=
  lookup_any_spelling .compact .compact a b h

theorem lookup_any_spelling_compact_str (a b : Bytes) (h : upper a = upper b) :
    (CgiName.fromCompact a).eq (CgiName.fromStr b) = true ∧
    (CgiName.fromCompact a).hashWrites = (CgiName.fromStr b).hashWrites ∧
    (CgiName.fromCompact a).cmp (CgiName.fromStr b) = .eq :=
  lookup_any_spelling .compact .str a b h

theorem lookup_any_spelling_str_compact (a b : Bytes) (h : upper a = upper b) :
    (CgiName.fromStr a).eq (CgiName.fromCompact b) = true ∧
    (CgiName.fromStr a).hashWrites = (CgiName.fromCompact b).hashWrites ∧
    (CgiName.fromStr a).cmp (CgiName.fromCompact b) = .eq :=
  lookup_any_spelling .str .compact a b h

theorem lookup_any_spelling_str_str (a b : Bytes) (h : upper a = upper b) :
    (CgiName.fromStr a).eq (CgiName.fromStr b) = true ∧
    (CgiName.fromStr a).hashWrites = (CgiName.fromStr b).hashWrites ∧
    (CgiName.fromStr a).cmp (CgiName.fromStr b) = .eq :=
  lookup_any_spelling .str .str a b h

/-! ## Concrete instances -/

/-- `"content_length"` -/
def ex_content_length_lc : Bytes := [99, 111, 110, 116, 101, 110, 116, 95, 108, 101, 110, 103, 116, 104]
/-- `"CONTENT_LENGTH"` -/
def ex_CONTENT_LENGTH : Bytes := [67, 79, 78, 84, 69, 78, 84, 95, 76, 69, 78, 71, 84, 72]
/-- `"Content_Length"` -/
def ex_Content_Length : Bytes := [67, 111, 110, 116, 101, 110, 116, 95, 76, 101, 110, 103, 116, 104]
/-- `"GATEWAY_INTERFACE"` (17 bytes) -/
def ex_GATEWAY_INTERFACE : Bytes := [71, 65, 84, 69, 87, 65, 89, 95, 73, 78, 84, 69, 82, 70, 65, 67, 69]
/-- `"gateway_interface"` (17 bytes) -/
def ex_gateway_interface : Bytes := [103, 97, 116, 101, 119, 97, 121, 95, 105, 110, 116, 101, 114, 102, 97, 99, 101]

example : "content_length".toUTF8.toList = ex_content_length_lc := by decide +kernel
example : "CONTENT_LENGTH".toUTF8.toList = ex_CONTENT_LENGTH := by decide +kernel
example : "gateway_interface".toUTF8.toList = ex_gateway_interface := by decide +kernel

example : upper ex_content_length_lc = ex_CONTENT_LENGTH := by decide
example : CgiName.eqIgnoreCase ex_content_length_lc ex_CONTENT_LENGTH = true := by decide
example : CgiName.eqIgnoreCase ex_Content_Length ex_content_length_lc = true := by decide
/-- `_` (95) and `-` (45) are different names; so are `@` (64) and `` ` `` (96), `[` (91) and `{` (123):
only letters fold. -/
example : CgiName.eqIgnoreCase [64, 91] [96, 123] = false := by decide
example : CgiName.eqIgnoreCase [65] [65, 66] = false := by decide
example : CgiName.cmp ex_content_length_lc ex_CONTENT_LENGTH = .eq := by decide
/-- `"content_length" < "CONTENT_TYPE"` ignoring case, although `'c' > 'C'` as raw bytes. -/
example : CgiName.cmp ex_content_length_lc [67, 79, 78, 84, 69, 78, 84, 95, 84, 89, 80, 69] = .lt := by
  decide
example : CgiName.cmpBytes ex_content_length_lc [67, 79, 78, 84, 69, 78, 84, 95, 84, 89, 80, 69] = .gt := by
  decide

/-- A 17-byte name is written as one 16-byte chunk, then the 1-byte remainder with the `0xff`
terminator — upper-cased in both. -/
example : CgiName.hashWrites ex_gateway_interface =
    [[71, 65, 84, 69, 87, 65, 89, 95, 73, 78, 84, 69, 82, 70, 65, 67], [69, 255]] := by
  decide +kernel
/-- A short name is a single write. -/
example : CgiName.hashWrites ex_content_length_lc = [ex_CONTENT_LENGTH ++ [255]] := by decide +kernel
/-- A 16-byte name: one full chunk and then the bare terminator. -/
example : CgiName.hashWrites (List.replicate 16 97) = [List.replicate 16 65, [255]] := by decide +kernel
example : CgiName.hashWrites [] = [[255]] := by decide +kernel

example : CgiName.lookup ex_CONTENT_LENGTH = some 1 := by decide +kernel
example : CgiName.lookup ex_content_length_lc = none := by decide +kernel
example : CgiName.fromCompact ex_content_length_lc = .static 1 := by decide +kernel
example : CgiName.fromCompact ex_gateway_interface = .static 3 := by decide +kernel
/-- The borrowed constructor interns on exact match only … -/
example : CgiName.fromStr ex_CONTENT_LENGTH = .static 1 := by decide +kernel
example : CgiName.fromStr ex_content_length_lc = .custom ex_content_length_lc := by decide +kernel
/-- … yet the two representations are equal, ordered equal and hash alike. -/
example : (CgiName.fromStr ex_content_length_lc).eq (CgiName.fromStr ex_CONTENT_LENGTH) = true :=
  (lookup_any_spelling_str_str ex_content_length_lc ex_CONTENT_LENGTH (by decide)).1
example : (CgiName.Owned.custom ex_content_length_lc).eq (.static 1) = true := by decide +kernel
example : (CgiName.Owned.static 1).cmp (.custom ex_content_length_lc) = .eq := by decide +kernel
example : (CgiName.Owned.static 1).hashWrites = (CgiName.Owned.custom ex_Content_Length).hashWrites := by
  decide +kernel
example : (CgiName.Owned.static 1).asRef = ex_CONTENT_LENGTH := by decide +kernel
/-- `x-request-id` → `HTTP_X_REQUEST_ID`, which is interned. -/
example : (CgiName.fromHeaderName [120, 45, 114, 101, 113, 117, 101, 115, 116, 45, 105, 100]).asRef =
    [72, 84, 84, 80, 95, 88, 95, 82, 69, 81, 85, 69, 83, 84, 95, 73, 68] := by
  rw [header_name_map_bytes]; decide
example : ∃ i, CgiName.fromHeaderName [120, 45, 114, 101, 113, 117, 101, 115, 116, 45, 105, 100] = .static i :=
  ⟨102, by decide +kernel⟩
/-- An unknown header stays a custom name, normalised. -/
example : CgiName.fromHeaderName [120, 45, 102, 111, 111] = .custom [72, 84, 84, 80, 95, 88, 95, 70, 79, 79] := by
  decide +kernel

end Fcgi.C19
