import Fcgi.Proofs.E2EAbortNF
import Fcgi.Props.C11NoFuel

/-!
# C11 — the abort theorems whose follow-up request has no cost field (`Sent.OKn`)

`abort_in_params_e2e_okn`, `abort_mid_stream_next_e2e_okn`, `abort_own_status_next_e2e_okn` = the `_unbounded` theorems of
`Props/E2EUnbounded.lean` with `q.OKu b` replaced by `q.OKn b` (`Props/C07NoFuel.lean`); continuations over `Cfg.OKn`
(`Proofs/E2EAbortNF.lean`).  With `Props/C11NoFuel.lean` no C11 conjunct has a cost hypothesis left.
-/
namespace Fcgi.C11E
open Fcgi Fcgi.Req Fcgi.Str Fcgi.Async Fcgi.Run Fcgi.Spec Fcgi.E2E Fcgi.C07E

/-- `withRec_ok` over `Cfg.OKn` -/
theorem withRec_okn {g : E2E.Cfg} (ok : g.OKn) {id : Nat} {a : Rec} (ha : IsAbort id a) (hid : id < 65536) :
    (withRec g a).OKn := by
  refine ⟨.noise a (isAbort_idle ha hid) ok.wf, ok.pairs, ?_, ?_⟩
  · intro r hr hg
    rcases List.mem_cons.1 hr with rfl | hr
    · exact absurd hg.1 (by rw [ha.1]; decide)
    · exact ok.noise r hr hg
  · cases ok.shape with
    | responderU hr hb hf hp hX2 hX hU hOt hrv hs => exact .responderU hr hb hf hp hX2 hX hU hOt hrv hs
    | authorizer hr hX hU hOt hrv hs => exact .authorizer hr hX hU hOt hrv hs
    | filterU hr hb hb2 hf hf2 hp hp2 hX2 hX hU hOt hrv hs =>
      exact .filterU hr hb hb2 hf hf2 hp hp2 hX2 hX hU hOt hrv hs

/-- `abort_in_params_e2e_unbounded` with the follow-up request `Sent.OKn` (no cost field). -/
theorem abort_in_params_e2e_okn {p : Preamble} {hd suf : List Rec} {a : Rec} {b mc : Nat} {q : Sent}
    {t : Transport} {fuel : Nat}
    (hwf : WellFormedPreamble p (hd ++ suf)) (hsuf : suf ≠ []) (hbeg : ∃ r ∈ hd, ¬ IdleNoise r)
    (ha : IsAbort p.id a)
    (hpairs : ∀ x ∈ p.pairs, (NV.enc x).length ≤ alignedBufsize b)
    (hnoise : NoiseFits (alignedBufsize b) (hd ++ suf))
    (hq : q.OKn b)
    (hin : t.input = serAll hd ++ a.ser ++ q.wire) (hben : Ben t) (hev : hsCount t.events = 0)
    (hfuel : t.rd.length + t.wr.length + 1 ≤ fuel) :
    ∃ c' fin O₁ O₂, runTask fuel (connS b mc t [q.handler]) 0 none = (c', fin) ∧
      O₁ ++ O₂ = q.owed mc ∧
      OutcomeG q.p q.reads b mc t.wlog
        (owedPreamble p mc hd ++ abortReply p.id ++ expectedLogN q.p q.recs mc q.data q.st O₁ O₂) t c' fin := by
  have hab := absorb_abort (b := b) hwf hsuf hbeg ha hpairs hnoise mc
  have ok := cfg_ok_n (mc := mc) hq (t.wlog ++ (owedPreamble p mc hd ++ abortReply p.id)) 0 []
  have hab' : Absorb (q.cfg b mc (t.wlog ++ (owedPreamble p mc hd ++ abortReply p.id)) 0 []).cap
      (q.cfg b mc (t.wlog ++ (owedPreamble p mc hd ++ abortReply p.id)) 0 []).mc (serAll hd ++ a.ser)
      (owedPreamble p mc hd ++ abortReply p.id) := by
    rw [E2E.Cfg.cap, cfg_b, cfg_mc]; exact hab
  have hpre : APre (serAll hd ++ a.ser) t.wlog
      (q.cfg b mc (t.wlog ++ (owedPreamble p mc hd ++ abortReply p.id)) 0 []) (connS b mc t [q.handler]) := by
    refine ⟨Or.inr ⟨[], ?_, ?_, Nat.zero_le _, rfl, hben, rfl⟩, ?_, rfl, ?_⟩
    · show Phase.parseReq (Req.Parser.new b mc) .start = _
      rw [E2E.Cfg.cap, cfg_b, cfg_mc]; rfl
    · show [] ++ t.input = _
      rw [cfg_W, hin, List.nil_append]
    · show [q.handler] = _
      rw [cfg_more, cfg_hscript]
    · rw [cfg_hs0]; exact hev
  have hend := run_absorbedN' ok hab' (cfg_L0 ..) (connS b mc t [q.handler]) 0 fuel hpre rfl
    (by show ans t + 1 ≤ fuel; unfold ans; omega)
  obtain ⟨c', fin, O1, O2, hrun, hO, _, hre, ho⟩ := outcome_of_end hend (cfg_hs0 ..)
  rw [cfg_Ot] at hO
  rw [cfg_p, cfg_recs, cfg_data, cfg_st, cfg_mc, cfg_b, cfg_L0] at ho
  refine ⟨c', fin, O1, O2, hrun, hO, ho.one_handler, fun d hd => hre _ ?_, ?_, ho.final⟩
  · rw [cfg_revs]; exact List.mem_map_of_mem hd
  · rw [ho.log]; simp only [List.append_assoc]

/-- `abort_core_next_unbounded` with the follow-up request `Sent.OKn` (no cost field). -/
theorem abort_core_next_okn {p : Preamble} {recs : List Rec} {c1 : Bytes} {body : List Rec} {a : Rec}
    {b mc : Nat} {stA : ExitStatus} {pr : Bool} {rest : List HOp} {q : Sent} {t : Transport} {fuel : Nat}
    (hwf : WellFormedPreamble p recs) (hrole : p.role = 1) (hk : p.flags.toNat % 2 = 1)
    (hpairs : ∀ x ∈ p.pairs, (NV.enc x).length ≤ alignedBufsize b)
    (hnoise : NoiseFits (alignedBufsize b) recs)
    (hbody : Body p.id 5 c1 body) (hbn : NoiseFits (alignedBufsize b) body) (ha : IsAbort p.id a)
    (hmode : (pr = true ∧ stA = ExitStatus.abort) ∨ (pr = false ∧ rest = [.ret stA]))
    (hq : q.OKn b)
    (hin : t.input = serAll recs ++ (serAll body ++ (a.ser ++ q.wire))) (hben : Ben t)
    (hev : hsCount t.events = 0) (hfuel : t.rd.length + t.wr.length + 1 ≤ fuel) :
    ∃ c' fin O₁ O₂ P₁ P₂, runTask fuel (connS b mc t [(.readAll :: rest, pr), q.handler]) 0 none = (c', fin) ∧
      O₁ ++ O₂ = owedStream p.id 5 mc body ∧ P₁ ++ P₂ = q.owed mc ∧
      c'.env.tr.wlog = t.wlog ++ (owedPreamble p mc recs ++ O₁ ++ O₂ ++ epilogue p.id stA ++
        expectedLogN q.p q.recs mc q.data q.st P₁ P₂) ∧
      hsCount c'.env.tr.events = 2 ∧ AbortedOutcome p c1 c' ∧ NextOutcome q b mc t c' fin := by
  have hid := (pid_of_wf hwf).2
  have ok : AbOK (cfgAb p recs c1 body a q.wire b mc stA rest t.wlog 0 [q.handler]) a q.wire pr rest :=
    ⟨hwf, hrole, hpairs, hnoise, hbody, hbn, ha, rfl, rfl, rfl, hmode⟩
  have hn : NextOKn (cfgAb p recs c1 body a q.wire b mc stA rest t.wlog 0 [q.handler])
      (withRec (q.cfg b mc [] 1 []) a) := by
    refine ⟨withRec_okn (cfg_ok_n hq _ _ _) ha hid, cfg_b .., cfg_mc .., cfg_hs0 .., ?_, ?_, hk⟩
    · show [q.handler] = (((q.cfg b mc [] 1 []).hscript, true) :: (q.cfg b mc [] 1 []).more)
      rw [cfg_more, cfg_hscript]
    · show a.ser ++ q.wire = serAll (a :: (q.cfg b mc [] 1 []).recs) ++ (q.cfg b mc [] 1 []).X
      rw [serAll_cons, List.append_assoc]
      show a.ser ++ q.wire = a.ser ++ (q.cfg b mc [] 1 []).W
      rw [cfg_W]
  have hst : BStage (cfgAb p recs c1 body a q.wire b mc stA rest t.wlog 0 [q.handler]) pr rest
      (connS b mc t [(.readAll :: rest, pr), q.handler]) :=
    .start (raw := []) rfl (by show [] ++ t.input = _; rw [hin]; rfl) (Nat.zero_le _) rfl hben rfl rfl rfl hev
  obtain ⟨c', fin, O1, O2, P1, P2, hrun, hO, hP, hem, hra, hhs, hres⟩ :=
    run_abort_nextN' ok hn t.endMode _ 0 fuel hst rfl rfl (by show ans t + 1 ≤ fuel; unfold ans; omega)
  have hPq : P1 ++ P2 = q.owed mc := by rw [hP]; exact cfg_Ot ..
  -- the log
  have hlogeq : ((withRec (q.cfg b mc [] 1 []) a).at
        ((cfgAb p recs c1 body a q.wire b mc stA rest t.wlog 0 [q.handler]).LA O1 O2)).L3 P1 P2 =
      t.wlog ++ (owedPreamble p mc recs ++ O1 ++ O2 ++ epilogue p.id stA ++
        expectedLogN q.p q.recs mc q.data q.st P1 P2) := by
    rw [L3_eq]
    show (((t.wlog ++ owedPreamble p mc recs) ++ O1 ++ O2 ++ makeRequestEpilogue p.id stA [RT.stdout, RT.stderr])) ++
      expectedLogN (q.cfg b mc [] 1 []).p (a :: (q.cfg b mc [] 1 []).recs) (q.cfg b mc [] 1 []).mc
        (q.cfg b mc [] 1 []).data (q.cfg b mc [] 1 []).st P1 P2 = _
    rw [epilogue_eq, cfg_p, cfg_recs, cfg_mc, cfg_data, cfg_st]
    simp only [expectedLogN, owedPreamble_abort ha hid, List.append_assoc]
  have hrevs : ∀ (evs : ∀ s ∈ (q.cfg b mc [] 1 []).revs, s ∈ c'.env.tr.events), ∀ d ∈ q.reads,
      readEvent d ∈ c'.env.tr.events := by
    intro evs d hd
    exact evs _ (by rw [cfg_revs]; exact List.mem_map_of_mem hd)
  rcases hres with ⟨rfl, hfin⟩ | ⟨rfl, hpk⟩
  · have hev2 : hsCount c'.env.tr.events = 2 := by
      have := hfin.ev.1
      rw [show ((withRec (q.cfg b mc [] 1 []) a).at _).hs0 = 1 from cfg_hs0 ..] at this
      exact this
    refine ⟨c', "RET", O1, O2, P1, P2, hrun, hO, hPq, hfin.log.trans hlogeq, hev2, ⟨hhs, hra⟩,
      ⟨by have := hfin.ev.2; rwa [show ((withRec (q.cfg b mc [] 1 []) a).at _).p = q.p from cfg_p ..] at this,
        hrevs hfin.re, ?_⟩⟩
    have hwhy := hfin.why
    rw [show ((withRec (q.cfg b mc [] 1 []) a).at _).p = q.p from cfg_p ..] at hwhy
    rcases hwhy with hk0 | ⟨hk1, he⟩
    · exact Or.inl ⟨hk0, rfl, hfin.ph⟩
    · exact Or.inr (Or.inl ⟨hk1, hem.symm.trans he, rfl, hfin.ph⟩)
  · have hev2 : hsCount c'.env.tr.events = 2 := by
      have := hpk.ev.1
      rw [show ((withRec (q.cfg b mc [] 1 []) a).at _).hs0 = 1 from cfg_hs0 ..] at this
      exact this
    refine ⟨c', "STALL", O1, O2, P1, P2, hrun, hO, hPq, hpk.log.trans hlogeq, hev2, ⟨hhs, hra⟩,
      ⟨by have := hpk.ev.2; rwa [show ((withRec (q.cfg b mc [] 1 []) a).at _).p = q.p from cfg_p ..] at this,
        hrevs hpk.re, ?_⟩⟩
    have hkeep := hpk.keep
    rw [show ((withRec (q.cfg b mc [] 1 []) a).at _).p = q.p from cfg_p ..] at hkeep
    have hph := hpk.ph
    rw [show ((withRec (q.cfg b mc [] 1 []) a).at
          ((cfgAb p recs c1 body a q.wire b mc stA rest t.wlog 0 [q.handler]).LA O1 O2)).cap = alignedBufsize b from by
        show alignedBufsize (q.cfg b mc [] 1 []).b = _; rw [cfg_b],
      show ((withRec (q.cfg b mc [] 1 []) a).at
          ((cfgAb p recs c1 body a q.wire b mc stA rest t.wlog 0 [q.handler]).LA O1 O2)).mc = mc from cfg_mc ..] at hph
    exact Or.inr (Or.inr ⟨hkeep, hem.symm.trans hpk.em, rfl, hph, hpk.inp⟩)

/-- `abort_mid_stream_next_e2e_unbounded` with the follow-up request `Sent.OKn` (no cost field). -/
theorem abort_mid_stream_next_e2e_okn {p : Preamble} {recs : List Rec} {c1 : Bytes} {body : List Rec} {a : Rec}
    {b mc : Nat} {data : Bytes} {st : ExitStatus} {q : Sent} {t : Transport} {fuel : Nat}
    (hwf : WellFormedPreamble p recs) (hrole : p.role = 1) (hk : p.flags.toNat % 2 = 1)
    (hpairs : ∀ x ∈ p.pairs, (NV.enc x).length ≤ alignedBufsize b)
    (hnoise : NoiseFits (alignedBufsize b) recs)
    (hbody : Body p.id 5 c1 body) (hbn : NoiseFits (alignedBufsize b) body) (ha : IsAbort p.id a)
    (hq : q.OKn b)
    (hin : t.input = serAll recs ++ (serAll body ++ (a.ser ++ q.wire))) (hben : Ben t)
    (hev : hsCount t.events = 0) (hfuel : t.rd.length + t.wr.length + 1 ≤ fuel) :
    ∃ c' fin O₁ O₂ P₁ P₂,
      runTask fuel (connS b mc t [(canonical data st, true), q.handler]) 0 none = (c', fin) ∧
      O₁ ++ O₂ = owedStream p.id 5 mc body ∧ P₁ ++ P₂ = q.owed mc ∧
      c'.env.tr.wlog = t.wlog ++ (owedPreamble p mc recs ++ O₁ ++ O₂ ++ epilogue p.id ExitStatus.abort ++
        expectedLogN q.p q.recs mc q.data q.st P₁ P₂) ∧
      hsCount c'.env.tr.events = 2 ∧ AbortedOutcome p c1 c' ∧ NextOutcome q b mc t c' fin :=
  abort_core_next_okn (pr := true) (rest := [.open_ 6, .writeAll 0 data, .dropW 0, .ret st]) hwf hrole hk hpairs hnoise
    hbody hbn ha (Or.inl ⟨rfl, rfl⟩) hq hin hben hev hfuel

/-- `abort_own_status_next_e2e_unbounded` with the follow-up request `Sent.OKn` (no cost field). -/
theorem abort_own_status_next_e2e_okn {p : Preamble} {recs : List Rec} {c1 : Bytes} {body : List Rec} {a : Rec}
    {b mc : Nat} {st : ExitStatus} {q : Sent} {t : Transport} {fuel : Nat}
    (hwf : WellFormedPreamble p recs) (hrole : p.role = 1) (hk : p.flags.toNat % 2 = 1)
    (hpairs : ∀ x ∈ p.pairs, (NV.enc x).length ≤ alignedBufsize b)
    (hnoise : NoiseFits (alignedBufsize b) recs)
    (hbody : Body p.id 5 c1 body) (hbn : NoiseFits (alignedBufsize b) body) (ha : IsAbort p.id a)
    (hq : q.OKn b)
    (hin : t.input = serAll recs ++ (serAll body ++ (a.ser ++ q.wire))) (hben : Ben t)
    (hev : hsCount t.events = 0) (hfuel : t.rd.length + t.wr.length + 1 ≤ fuel) :
    ∃ c' fin O₁ O₂ P₁ P₂,
      runTask fuel (connS b mc t [([.readAll, .ret st], false), q.handler]) 0 none = (c', fin) ∧
      O₁ ++ O₂ = owedStream p.id 5 mc body ∧ P₁ ++ P₂ = q.owed mc ∧
      c'.env.tr.wlog = t.wlog ++ (owedPreamble p mc recs ++ O₁ ++ O₂ ++ epilogue p.id st ++
        expectedLogN q.p q.recs mc q.data q.st P₁ P₂) ∧
      hsCount c'.env.tr.events = 2 ∧ AbortedOutcome p c1 c' ∧ NextOutcome q b mc t c' fin :=
  abort_core_next_okn (pr := false) (rest := [.ret st]) hwf hrole hk hpairs hnoise
    hbody hbn ha (Or.inr ⟨rfl, rfl⟩) hq hin hben hev hfuel

/-- non-vacuity: the follow-up request `qHuge` (70 000 000 bytes of output) is `Sent.OKn`, not `Sent.OKu` -/
example (b : Nat) : C07E.ExampleNoFuel.qHuge.OKn b ∧ ¬ C07E.ExampleNoFuel.qHuge.OKu b :=
  ⟨C07E.ExampleNoFuel.qHuge_okn b, C07E.ExampleNoFuel.qHuge_not_oku b⟩

end Fcgi.C11E
