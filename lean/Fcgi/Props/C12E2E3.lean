import Fcgi.Proofs.E2EIndepConn
import Fcgi.Props.C07E2E

/-!
# C12 — a failing WRITE answer at an arbitrary index

`Indep.ext xs t` = the transport `t` with the answers `xs` appended to its write script;
`Indep.BadHead xs`: `xs` starts with a failing answer (`.err`: the write returns the transport's write
error; `.zero`: it returns `Ok(0)`, which every `write_all` / `poll_write` loop turns into `WriteZero`).
On an exhausted script the model answers `.all`.

* `runTask_script_indep` (= `Indep.runTask_dich`; per function: `Indep.writeV_dich` …
  `Indep.handlerPoll_dich`, `Indep.closePoll_dich`, `Indep.stepConn_dich`, `Indep.pollConn_dich`): for a
  connection whose handlers propagate errors (`C12Inv.AllProp`, ANY handler scripts), the run on
  `ext xs t` is the run on `t` with `xs` still unconsumed at the end — same result, phases, events,
  write log —, or it consumed the failing answer, ended `"RET"` in phase `finished`, and its write log
  is a byte prefix of the log of the run on `t`.  ("A run depends only on the write answers it has
  consumed", for the WRITE script; hence `_partial` below: the read and flush scripts are not covered.)
* `write_error_e2e_partial`: the wire of a well-formed Responder request as in
  `C07E.single_request_e2e`, the transport benign except that its `j`-th write answer is a failing one
  (`t.wr = pre ++ b :: post`, `pre` benign, `|pre| = j − 1`): the task either never reaches that
  answer and behaves exactly as on the benign transport, or it finishes (`RET`, phase `finished`)
  with a write log that is a byte prefix of a log `single_request_e2e` permits.
-/
namespace Fcgi.C12E
open Fcgi Fcgi.Req Fcgi.Str Fcgi.Async Fcgi.Run Fcgi.Spec Fcgi.E2E Fcgi.C07E Fcgi.C12Inv Fcgi.Indep

/-- **A run depends only on the write answers it has consumed.** -/
theorem runTask_script_indep {xs : List WrAns} (hx : BadHead xs) (fuel : Nat) (c : Conn) (n : Nat) (sa : Option Nat)
    (hp : AllProp c) :
    runTask fuel (extC xs c) n sa = (extC xs (runTask fuel c n sa).1, (runTask fuel c n sa).2) ∨
    (∃ c2, runTask fuel (extC xs c) n sa = (c2, "RET") ∧ c2.phase = .finished ∧
      c2.env.tr.wlog <+: (runTask fuel c n sa).1.env.tr.wlog) :=
  runTask_dich hx fuel c n sa hp

theorem ext_of_wr {t : Transport} {pre xs : List WrAns} (h : t.wr = pre ++ xs) :
    t = ext xs { t with wr := pre } := by
  obtain ⟨input, endMode, rd, wr, fl, wlog, events, hold, woken, readWaker, abortKind⟩ := t
  simp only at h
  subst h
  rfl

/-- **The `j`-th write answer fails.** -/
theorem write_error_e2e_partial {p : Preamble} {recs : List Rec} {content : Bytes} {srecs : List Rec}
    {b mc : Nat} {data : Bytes} {st : ExitStatus} {t : Transport} {fuel : Nat}
    (pre post : List WrAns) (bad : WrAns) (hbad : bad = .err ∨ bad = .zero) (hwr : t.wr = pre ++ bad :: post)
    (hwf : WellFormedPreamble p recs) (hrole : p.role = 1)
    (hpairs : ∀ q ∈ p.pairs, (NV.enc q).length ≤ alignedBufsize b)
    (hnoise : NoiseFits (alignedBufsize b) recs)
    (hs : StreamRecs p.id 5 content srecs) (hsn : NoiseFits (alignedBufsize b) srecs)
    (hin : t.input = serAll recs ++ serAll srecs) (hben : Ben { t with wr := pre }) (hev : hsCount t.events = 0)
    (hfuel : t.rd.length + pre.length + 1 ≤ fuel)
    (hsize : 4 * t.input.length + 17 ≤ 100000)
    (hhf : alignedBufsize b / 32 + wcost data.length + 12 ≤ 1000) :
    ∃ c' fin O₁ O₂, runTask fuel (conn0 b mc t data st) 0 none = (c', fin) ∧
      O₁ ++ O₂ = owedStream p.id 5 mc srecs ∧
      (-- the failing answer is never reached: the benign outcome, with `bad :: post` still in the script
       (∃ c1, c' = extC (bad :: post) c1 ∧
          OutcomeN p content b mc t.wlog (expectedLogN p recs mc data st O₁ O₂) { t with wr := pre } c1 fin) ∨
       -- it is consumed: the task finishes; what was written is a prefix of the complete log
       (fin = "RET" ∧ c'.phase = .finished ∧
        ∃ w, c'.env.tr.wlog = t.wlog ++ w ∧ w <+: expectedLogN p recs mc data st O₁ O₂)) := by
  have hx : BadHead (bad :: post) := ⟨bad, post, rfl, by rcases hbad with rfl | rfl <;> rfl⟩
  obtain ⟨c1, fin1, O1, O2, hrun1, hO, ho⟩ :=
    single_request_e2e (data := data) (st := st) (fuel := fuel) (t := { t with wr := pre }) hwf hrole hpairs hnoise hs hsn
      hin hben hev hfuel hsize hhf
  have ht : t = ext (bad :: post) { t with wr := pre } := ext_of_wr hwr
  have hc : conn0 b mc t data st = extC (bad :: post) (conn0 b mc { t with wr := pre } data st) := by
    conv => lhs; rw [ht]
    rfl
  have hp : AllProp (conn0 b mc { t with wr := pre } data st) :=
    ⟨fun s hs => by
      simp only [conn0, connS, List.mem_singleton] at hs
      rw [hs], trivial⟩
  rcases runTask_dich hx fuel (conn0 b mc { t with wr := pre } data st) 0 none hp with hsame | ⟨c2, h2, hph, hpre⟩
  · rw [hrun1] at hsame
    exact ⟨extC (bad :: post) c1, fin1, O1, O2, by rw [hc]; exact hsame, hO, Or.inl ⟨c1, rfl, ho⟩⟩
  · rw [hrun1] at hpre
    simp only at hpre
    have hp2 : AllProp (conn0 b mc t data st) :=
      ⟨fun s hs => by
        simp only [conn0, connS, List.mem_singleton] at hs
        rw [hs], trivial⟩
    obtain ⟨w, hw⟩ := runTask_llog fuel (conn0 b mc t data st) 0 none hp2
    rw [hc, h2] at hw
    simp only at hw
    have hw' : c2.env.tr.wlog = t.wlog ++ w := hw
    refine ⟨c2, "RET", O1, O2, by rw [hc]; exact h2, hO, Or.inr ⟨rfl, hph, w, hw', ?_⟩⟩
    rw [hw', ho.log] at hpre
    exact (List.prefix_append_right_inj _).1 hpre

/-- Non-vacuity: the run of `C07E.Example` (write script `[.n 5, .pending, .all, .n 1]`) with an
`Ok(0)` as the third write answer. -/
example : ∃ c' fin O₁ O₂, runTask 20 (conn0 64 10 { C07E.Example.exT with wr := [.n 5, .pending, .zero, .all] }
      [104, 105] (.complete 0)) 0 none = (c', fin) ∧ O₁ ++ O₂ = owedStream 1 5 10 C07E.Example.exS ∧
    (([WrAns.zero, .all] <:+ c'.env.tr.wr) ∨
     (fin = "RET" ∧ c'.phase = .finished ∧
      ∃ w, c'.env.tr.wlog = w ∧ w <+: expectedLogN C01.Example.pre C01.Example.recs 10 [104, 105] (.complete 0) O₁ O₂)) := by
  obtain ⟨c', fin, O1, O2, h1, h2, h3⟩ := write_error_e2e_partial (p := C01.Example.pre) (recs := C01.Example.recs)
    (content := [65, 66, 67]) (srecs := C07E.Example.exS) (b := 64) (mc := 10) (data := [104, 105])
    (st := .complete 0) (t := { C07E.Example.exT with wr := [.n 5, .pending, .zero, .all] }) (fuel := 20)
    [.n 5, .pending] [.all] .zero (Or.inr rfl) rfl
    C01.Example.recs_wf rfl (C01.Example.pre_pairs_fit 64) (C01.Example.noise_fits 64) C07E.Example.exS_ok
    (C07E.Example.exS_fits _) rfl ⟨by decide, by decide, rfl, by decide⟩ rfl (by decide) (by decide +kernel) (by decide)
  refine ⟨c', fin, O1, O2, h1, h2, ?_⟩
  rcases h3 with ⟨c1, rfl, _⟩ | ⟨a, b, w, hw, hp⟩
  · exact Or.inl (List.suffix_append _ _)
  · exact Or.inr ⟨a, b, w, by rw [hw]; rfl, hp⟩

end Fcgi.C12E
