import Fcgi.Props.ReviewUnb2
import Fcgi.Props.C07ScriptFuel
import Fcgi.Props.C07NoFuel
import Fcgi.Props.C12Chain
import Fcgi.Props.C09Gate
/-!
# Review, round 3 (see `lean/UNBOUNDED_REVIEW.md`, section "Round 3")

* §1 the fuel of `C07SF.handlerPoll_guard_unreachable` IS, by `rfl`, the expression in `Model/RunLoop.lean`
  (`pollConn`, phase `handler`); the theorem instantiated on a fresh request and a long script with a large write.
* §2 `C07W.echo_responder_e2e` on fresh values: "hello" in two records with padding and a foreign-id record between
  them, over the short-read transport of `ReviewUnb`; and on the EMPTY content.
* §3 `C09G.filter_gate_e2e` exports an existentially quantified `g : E2E.Cfg` of which only `p`, `R`, `R2`, `L0` are
  pinned, while `GateAt g …` talks about `g.X`, `g.L1` (`g.mc`, `g.recs`) and `g.K8u`: `filter_gate_pinned` is the same
  theorem (same proof) that also exports `GOK g rest`, `g.recs`, `g.mc`, `g.b`; `gate_taken` then derives the
  advertised reading: at the gate the bytes taken from the transport behind the preamble start with the complete Stdin
  stream, and the log is `t.wlog ++ owedPreamble ++` owed replies.  Instantiated on the Filter of `ReviewUnb`.
Driver lines: `/verif/.run/replay-review-unb3.ops`.
-/
namespace Fcgi.ReviewUnb3
open Fcgi Fcgi.Req Fcgi.Str Fcgi.Async Fcgi.Run Fcgi.Spec Fcgi.E2E Fcgi.C07E Fcgi.C07U Fcgi.C07W Fcgi.ReviewUnb

/-! ## 1. The handler fuel -/

/-- the fuel of the theorems of `Props/C07ScriptFuel` is literally the expression `pollConn` passes -/
theorem fuel_is_the_models (e : Run.Env) (r : AReq) (h : HState) :
    handlerFuel e r + scriptCost h =
      1000 + e.tr.input.length * 4 + (e.segs.map (·.2.length)).sum * 4 + r.sp.cap * 4 + scriptCost h := rfl

def rvReq : AReq := AReq.new (Str.Parser.fromParser 64 { id := 7, role := 1, flags := 1, env := [] } [9, 9, 9] 10)

/-- 5 000 trivial operations, a 1 000 000-byte write to a writer that does not exist, a read -/
def rvScript : HState :=
  { ops := List.replicate 5000 (.consume 0) ++ [.writeAll 0 (List.replicate 1000000 120), .read 3] }

theorem rv_guard (e : Run.Env) {r' : AReq} {h' : HState} {e' : Run.Env} {s : String}
    (hp : handlerPoll (handlerFuel e rvReq + scriptCost rvScript) rvReq rvScript e = (r', h', e', .panic s)) :
    s ≠ "model: handler fuel exhausted" :=
  C07SF.handlerPoll_never_fuel_msg rvReq rvScript e
    (SInv_fromParser 64 _ _ 10 (by decide) (by decide)) hp

/-! ## 2. The echo Responder -/

/-- Stdin "hello": `hel` (padding 5), a Stdin record of a FOREIGN id (owes nothing), `lo`, terminator (padding 3) -/
def rvSq : List Rec :=
  [ { rtype := 5, id := 7, content := [104, 101, 108], pad := [0, 0, 0, 0, 0] },
    { rtype := 5, id := 9, content := [1, 2], pad := [0] },
    { rtype := 5, id := 7, content := [108, 111], pad := [] },
    { rtype := 5, id := 7, content := [], pad := [0, 0, 0] } ]

theorem rvSq_ok : StreamRecs 7 5 [104, 101, 108, 108, 111] rvSq := by
  show StreamRecs 7 5 ([104, 101, 108] ++ ([108, 111] ++ [])) _
  refine .chunk [104, 101, 108] [0, 0, 0, 0, 0] 0 (by decide) (by decide) ?_
  refine .noise _ ⟨⟨by decide, by decide, by decide⟩, by decide⟩ ?_
  refine .chunk [108, 111] [] 0 (by decide) (by decide) ?_
  exact .term [0, 0, 0] 0 (by decide)

theorem rvSq_fits : NoiseFits (alignedBufsize 64) rvSq := by
  refine noiseFits_of_content (fun r hr _ _ => ?_)
  simp only [rvSq, List.mem_cons, List.not_mem_nil, or_false] at hr
  rcases hr with rfl | rfl | rfl | rfl <;> decide +kernel

theorem rvSq_quiet : owedStream 7 5 10 rvSq = [] := by decide +kernel

def rvTe : Transport := { rvT with input := serAll rvRecs ++ serAll rvSq }

theorem rv_echo : ∃ c' fin pad res,
    runTask 40 (connS 64 10 rvTe [(echoScript [104, 101, 108, 108, 111] (.complete 2), true)]) 0 none = (c', fin) ∧
    EchoOutcome rvPre rvRecs [104, 101, 108, 108, 111] pad res 64 10 (.complete 2) [] rvTe c' fin :=
  echo_responder_e2e (p := rvPre) (recs := rvRecs) (content := [104, 101, 108, 108, 111]) (srecs := rvSq)
    (b := 64) (mc := 10) (st := .complete 2) (more := []) (t := rvTe) (fuel := 40)
    rvRecs_wf rfl rvPairs_fit rvRecs_fits rvSq_ok rvSq_fits rfl ⟨by decide, by decide, rfl, by decide⟩ rfl
    (by decide) rvSq_quiet

/-- the EMPTY Stdin stream: only the terminator -/
def rvS0 : List Rec := [ { rtype := 5, id := 7, content := [], pad := [0, 0, 0] } ]
theorem rvS0_ok : StreamRecs 7 5 [] rvS0 := .term [0, 0, 0] 0 (by decide)
theorem rvS0_fits : NoiseFits (alignedBufsize 64) rvS0 := by
  refine noiseFits_of_content (fun r hr _ _ => ?_)
  simp only [rvS0, List.mem_cons, List.not_mem_nil, or_false] at hr
  rcases hr with rfl; decide +kernel
def rvT0 : Transport := { rvT with input := serAll rvRecs ++ serAll rvS0 }

/-- empty content: one `read(1)` that returns 0, no Stdout record, the log is the preamble's replies and the epilogue -/
theorem rv_echo_empty : ∃ c' fin,
    runTask 40 (connS 64 10 rvT0 [(echoScript [] (.complete 2), true)]) 0 none = (c', fin) ∧
    c'.env.tr.wlog = rvT0.wlog ++ (owedPreamble rvPre 10 rvRecs ++ epilogue 7 (.complete 2)) ∧
    hsCount c'.env.tr.events = 1 := by
  obtain ⟨c', fin, pad, res, hrun, ho⟩ := echo_responder_e2e (p := rvPre) (recs := rvRecs) (content := [])
    (srecs := rvS0) (b := 64) (mc := 10) (st := .complete 2) (more := []) (t := rvT0) (fuel := 40)
    rvRecs_wf rfl rvPairs_fit rvRecs_fits rvS0_ok rvS0_fits rfl ⟨by decide, by decide, rfl, by decide⟩ rfl
    (by decide) (by decide +kernel)
  refine ⟨c', fin, hrun, ?_, ho.one_handler.1⟩
  rw [ho.log]
  simp [echoLog, echoRecords]
  rfl

/-! ## 3. The gate of a Filter, with the configuration pinned -/

open Fcgi.C09G in
/-- `C09G.filter_gate_e2e` (same proof) exporting what `GateAt g` / `SGate g` refer to -/
theorem filter_gate_pinned {p : Preamble} {recs : List Rec} {content : Bytes} {srecs : List Rec}
    {content2 : Bytes} {drecs : List Rec}
    {b mc : Nat} {rest : List HOp} {more : List (List HOp × Bool)} {t : Transport}
    (hwf : WellFormedPreamble p recs) (hrole : p.role = 3)
    (hpairs : ∀ q ∈ p.pairs, (NV.enc q).length ≤ alignedBufsize b)
    (hnoise : NoiseFits (alignedBufsize b) recs)
    (hs : StreamRecs p.id 5 content srecs) (hsn : NoiseFits (alignedBufsize b) srecs)
    (hd : StreamRecs p.id 8 content2 drecs) (hdn : NoiseFits (alignedBufsize b) drecs)
    (hin : t.input = serAll recs ++ (serAll srecs ++ serAll drecs)) (hben : Ben t) (hev : hsCount t.events = 0) :
    ∃ (g : E2E.Cfg) (k : Nat), GOK g rest ∧ g.p = p ∧ g.recs = recs ∧ g.mc = mc ∧ g.b = b ∧
      g.R = srecs ∧ g.R2 = drecs ∧ g.L0 = t.wlog ∧ k ≤ t.rd.length + t.wr.length ∧
      (∀ j, j ≤ k → ∃ cj, runTask j (connS b mc t ((.writeable :: rest, true) :: more)) 0 none = (cj, "FUEL") ∧
        SGate g rest cj) ∧
      ∃ ck, runTask k (connS b mc t ((.writeable :: rest, true) :: more)) 0 none = (ck, "FUEL") ∧
        GatePoll g rest (prePoll ck k none) := by
  obtain ⟨body, pad, res, hpad, hbody, hsrecs⟩ := StreamRecs.split hs
  obtain ⟨body2, pad2, res2, hpad2, hbody2, hdrecs⟩ := StreamRecs.split hd
  subst hsrecs hdrecs
  have fg := fgok_of (mc := mc) (st := .complete 0) t.wlog 0 more hwf hrole hpairs hnoise hs hsn hpad2 hbody2 hd hdn
  have ok : GOK (cfgG p recs content body pad res content2 body2 pad2 res2 b mc rest t.wlog 0 more) rest :=
    ⟨hwf, hrole, hpairs, hnoise, fg.str, fg.hf, fg.hb2, fg.str2, fg.hf2, fg.hp2, rfl, rfl, rfl⟩
  have hst : FStage (cfgG p recs content body pad res content2 body2 pad2 res2 b mc rest t.wlog 0 more)
      (connS b mc t ((.writeable :: rest, true) :: more)) :=
    .start (raw := []) rfl (by
      show [] ++ t.input = _
      rw [hin, C02.serAll_append, C02.serAll_single, C02.serAll_append, C02.serAll_single, List.append_assoc (serAll body)]
      rfl) (Nat.zero_le _) rfl hben rfl rfl rfl hev
  obtain ⟨k, hk, hall, ck, hrun, hgp⟩ := run_to_gate ok (ans t) (connS b mc t ((.writeable :: rest, true) :: more)) 0
    (Or.inl hst) rfl (Nat.le_refl _)
  refine ⟨_, k, ok, rfl, rfl, rfl, rfl, rfl, rfl, rfl, hk, fun j hj => ?_, ck, hrun,
    by rw [Nat.zero_add] at hgp; exact hgp⟩
  obtain ⟨cj, h1, h2, _⟩ := hall j hj
  exact ⟨cj, h1, h2⟩

/-- **What the gate state says once the configuration is pinned**: the request is writeable; the bytes `G` taken from
the transport behind the preamble start with the COMPLETE Stdin stream (terminator included), and `G` followed by what
the transport still holds is `Stdin stream ++ Data stream`; the log is the initial log, the preamble's replies and a
prefix of the replies owed for the stream noise — no handler byte. -/
theorem gate_taken {g : E2E.Cfg} {rest : List HOp} (ok : GOK g rest) {r : AReq} {m : MutexSt} {t' : Transport}
    (h : GateAt g r m t') :
    r.writeable = true ∧
    (∃ G, G ++ t'.input = serAll g.R ++ serAll g.R2 ∧ serAll g.R <+: G) ∧
    ∃ O₁, t'.wlog = g.L0 ++ owedPreamble g.p g.mc g.recs ++ O₁ := by
  obtain ⟨hw, ⟨G, hG, hp⟩, _, O1, hl, _⟩ := C09G.gateAt_facts h
  exact ⟨hw, ⟨G, by rw [hG, ok.XR], hp⟩, O1, hl⟩

/-- the Filter of `ReviewUnb` (Stdin with two records that owe replies, Data "DATA!" with noise), handler
`writeable(); open Stdout; write_all "ok"; drop; return 4`, over the short-read transport -/
def rvTg : Transport := { rvT with input := serAll rvRecsF ++ (serAll rvS ++ serAll rvD) }
def rvRest : List HOp := [.open_ 6, .writeAll 0 [111, 107], .dropW 0, .ret (.complete 4)]

theorem rv_gate : ∃ (g : E2E.Cfg) (k : Nat), GOK g rvRest ∧ g.R = rvS ∧ g.R2 = rvD ∧ k ≤ 15 ∧
    ∃ ck, runTask k (connS 64 10 rvTg ((.writeable :: rvRest, true) :: [])) 0 none = (ck, "FUEL") ∧
      GatePoll g rvRest (prePoll ck k none) := by
  obtain ⟨g, k, ok, _, _, _, _, hR, hR2, _, hk, _, ck, hrun, hg⟩ := filter_gate_pinned (p := rvPreF) (recs := rvRecsF)
    (content := [104, 101, 108, 108, 111]) (srecs := rvS) (content2 := [68, 65, 84, 65, 33]) (drecs := rvD)
    (b := 64) (mc := 10) (rest := rvRest) (more := []) (t := rvTg)
    rvRecsF_wf rfl (by exact rvPairs_fit) rvRecsF_fits rvS_ok rvS_fits rvD_ok rvD_fits rfl
    ⟨by decide, by decide, rfl, by decide⟩ rfl
  exact ⟨g, k, ok, hR, hR2, hk, ck, hrun, hg⟩

end Fcgi.ReviewUnb3
